import AdaptiveProofs.Lemmas.Avg1DFullInv
import AdaptiveProofs.Lemmas.L1DInv
import AdaptiveProofs.Lemmas.L1DSorted
import AdaptiveProofs.Lemmas.L1DValues

/-!
Helper lemmas for the full AverageLearner1D model, part 4: the INHERITED LOSS TABLES
(`losses`, `losses_combined`) of `Avg1DFull`.

* `L1D.PNInv` — the part of the Learner1D structural invariant that does not mention `pending`
  (AverageLearner1D keeps `(seed, x)` tuples in `pending_points`, so the inherited `pending` of the
  embedded Learner1D state stays empty): sorted neighbour lists, `xs ⊆ xsC`, keys of both tables =
  neighbouring pairs, no duplicate keys.  Preserved by every table transformer AverageLearner1D
  uses, including the LIVE re-computation loop and `_update_losses_resampling`.
* `Avg1DFull.SInv` — `PNInv` of the embedded state + `xsC = data ∪ pending abscissae`.
* table order (`TS`) — for `loss()`.
* values: what `_update_losses_resampling` and the live loop store.
-/
set_option linter.unusedSectionVars false
set_option linter.unusedVariables false
set_option linter.unusedSimpArgs false

namespace L1D
variable {α : Type} [Field α] [LinearOrder α] [IsStrictOrderedRing α]
variable (lossFn : List (Option α) → List (Option (List α)) → Loss α) (r12 : α → α)

/-- the `pending`-free part of the structural invariant -/
structure PNInv (b : State α) : Prop where
  xs_sorted : b.xs.Pairwise (· < ·)
  xsC_sorted : b.xsC.Pairwise (· < ·)
  sub : ∀ z ∈ b.xs, z ∈ b.xsC
  t : TInv b.xs b.xsC b.losses b.lossesC

theorem PNInv.congr {b b' : State α} (h : PNInv b) (h1 : b'.xs = b.xs) (h2 : b'.xsC = b.xsC)
    (h3 : b'.losses = b.losses) (h4 : b'.lossesC = b.lossesC) : PNInv b' := by
  obtain ⟨a1, a2, a3, a4⟩ := h
  refine ⟨?_, ?_, ?_, ?_⟩
  · rw [h1]; exact a1
  · rw [h2]; exact a2
  · rw [h1, h2]; exact a3
  · rw [h1, h2, h3, h4]; exact a4

theorem PNInv.nodupT {b : State α} (h : PNInv b) : NodupT b := ⟨h.t.losses_nodup, h.t.lossesC_nodup⟩

theorem pninv_updInterp {b : State α} {p q : α} (hi : PNInv b) (hpq : (p, q) ∈ pairs b.xs) :
    PNInv (updInterp lossFn r12 b p q) := by
  refine ⟨hi.xs_sorted, hi.xsC_sorted, hi.sub, ?_, ?_, ?_, ?_⟩
  · intro k
    show k ∈ tkeys (updInterp lossFn r12 b p q).losses ↔ k ∈ pairs b.xs
    rw [mem_tkeys_updInterp_losses, hi.t.losses_keys]
    constructor
    · rintro (rfl | h)
      · exact hpq
      · exact h
    · exact Or.inr
  · rintro ⟨u, v⟩
    show (u, v) ∈ tkeys (updInterp lossFn r12 b p q).lossesC ↔ (u, v) ∈ pairs b.xsC
    rw [mem_tkeys_updInterp_lossesC, hi.t.lossesC_keys, mem_pairs_between hi.xsC_sorted]
    constructor
    · rintro (h | h)
      · exact h.1
      · exact h
    · exact Or.inr
  · exact (nodupT_updInterp lossFn r12 hi.nodupT).1
  · exact (nodupT_updInterp lossFn r12 hi.nodupT).2

theorem pninv_foldUpd {b : State α} {ivs : List (Ival α)} (hi : PNInv b)
    (h : ∀ iv ∈ ivs, iv ∈ pairs b.xs) : PNInv (foldUpd lossFn r12 b ivs) := by
  induction ivs generalizing b with
  | nil => exact hi
  | cons iv ivs ih =>
    exact ih (pninv_updInterp lossFn r12 hi (h iv (List.mem_cons_self ..)))
      (fun k hk => h k (List.mem_cons_of_mem _ hk))

theorem pninv_removeUnfinished {b : State α} (hi : PNInv b) : PNInv (removeUnfinished b) :=
  ⟨hi.xs_sorted, hi.xs_sorted, fun _ h => h,
    ⟨hi.t.losses_keys, hi.t.losses_keys, hi.t.losses_nodup, hi.t.losses_nodup⟩⟩

/-- the table update of a `tell` of a NEW abscissa (`b1` = the state with `x` already inserted
in both neighbour lists) -/
theorem pninv_updateLosses_true {b0 b1 : State α} {x : α} (hi : PNInv b0)
    (hxs : b1.xs = sinsert x b0.xs) (hxsC : b1.xsC = sinsert x b0.xsC)
    (hl : b1.losses = b0.losses) (hlC : b1.lossesC = b0.lossesC) :
    PNInv (updateLosses lossFn r12 b1 x true) := by
  have hsame := same_updateLosses lossFn r12 b1 x true
  have hsub : ∀ z ∈ b1.xs, z ∈ b1.xsC := by
    intro z hz
    rw [hxs, mem_sinsert] at hz
    rw [hxsC, mem_sinsert]
    exact hz.imp id (hi.sub z)
  have ht := tinv_updateLosses_true lossFn r12 (s := b1) (x := x) hi.xs_sorted hi.xsC_sorted hxs hxsC
    hsub (by rw [hl]; exact hi.t.losses_keys) (by rw [hlC]; exact hi.t.lossesC_keys)
    (by unfold NodupT; rw [hl, hlC]; exact hi.nodupT)
  refine ⟨?_, ?_, ?_, ?_⟩
  · rw [hsame.1, hxs]; exact sorted_sinsert hi.xs_sorted
  · rw [hsame.2.1, hxsC]; exact sorted_sinsert hi.xsC_sorted
  · rw [hsame.1, hsame.2.1]; exact hsub
  · rw [hsame.1, hsame.2.1]; exact ht

/-- the table update of `tell_pending` of an abscissa without data -/
theorem pninv_updateLosses_false {b0 b1 : State α} {x : α} (hi : PNInv b0)
    (hxs : b1.xs = b0.xs) (hxsC : b1.xsC = sinsert x b0.xsC)
    (hl : b1.losses = b0.losses) (hlC : b1.lossesC = b0.lossesC) :
    PNInv (updateLosses lossFn r12 b1 x false) := by
  have hsame := same_updateLosses lossFn r12 b1 x false
  have hsub : ∀ z ∈ b1.xs, z ∈ b1.xsC := by
    intro z hz
    rw [hxs] at hz
    rw [hxsC, mem_sinsert]
    exact Or.inr (hi.sub z hz)
  have ht := tinv_updateLosses_false lossFn r12 (s := b1) (x := x) hi.xsC_sorted hxsC
    hsub (by rw [hl, hxs]; exact hi.t.losses_keys) (by rw [hlC]; exact hi.t.lossesC_keys)
    (by unfold NodupT; rw [hl, hlC]; exact hi.nodupT)
  refine ⟨?_, ?_, ?_, ?_⟩
  · rw [hsame.1, hxs]; exact hi.xs_sorted
  · rw [hsame.2.1, hxsC]; exact sorted_sinsert hi.xsC_sorted
  · rw [hsame.1, hsame.2.1]; exact hsub
  · rw [hsame.1, hsame.2.1]; exact ht

theorem pninv_init (lo hi factor dxEps : α) (nn : Nat) : PNInv (init lo hi factor dxEps nn) := by
  refine ⟨List.Pairwise.nil, List.Pairwise.nil, ?_, ⟨?_, ?_, List.nodup_nil, List.nodup_nil⟩⟩ <;>
    simp [init, tkeys, pairs]

end L1D

namespace Avg1DFull
open L1D (Loss Ival)
variable {α : Type} [Field α] [LinearOrder α] [IsStrictOrderedRing α]
variable (lossFn : List (Option α) → List (Option (List α)) → Loss α) (r12 : α → α)
variable (sqrt : α → α) (tq : Nat → α) (hypot : α → α → α)

/-! ### the transformers that only AverageLearner1D has -/

theorem updateLossesResampling_true_eq (b : L1D.State α) (x : α) :
    updateLossesResampling lossFn r12 b x true =
      L1D.ulRight r12
        (L1D.ulLeft r12 (L1D.foldUpd lossFn r12 b (L1D.getIntervals b x))
          x (L1D.leftOf x b.xsC) ((L1D.leftOf x b.xs).isNone || (!true && (L1D.rightOf x b.xs).isNone)))
        x (L1D.rightOf x b.xsC) ((L1D.rightOf x b.xs).isNone || (!true && (L1D.leftOf x b.xs).isNone)) := by
  rfl

theorem same_updateLossesResampling (b : L1D.State α) (x : α) :
    L1D.Same b (updateLossesResampling lossFn r12 b x true) := by
  rw [updateLossesResampling_true_eq]
  exact ((L1D.same_foldUpd lossFn r12 _ _).trans (L1D.same_ulLeft r12 _ _ _ _)).trans
    (L1D.same_ulRight r12 _ _ _ _)

theorem pninv_updateLossesResampling {b : L1D.State α} {x : α} (hi : L1D.PNInv b) (hx : x ∈ b.xs) :
    L1D.PNInv (updateLossesResampling lossFn r12 b x true) := by
  have h1 : L1D.PNInv (L1D.foldUpd lossFn r12 b (L1D.getIntervals b x)) :=
    L1D.pninv_foldUpd lossFn r12 hi (fun iv h => L1D.getIntervals_sub h)
  have hsame := same_updateLossesResampling lossFn r12 b x
  have hs1 := L1D.same_foldUpd lossFn r12 b (L1D.getIntervals b x)
  have hxC : x ∈ b.xsC := hi.sub x hx
  rw [updateLossesResampling_true_eq] at hsame ⊢
  refine ⟨?_, ?_, ?_, ?_, ?_, ?_, ?_⟩
  · rw [hsame.1]; exact hi.xs_sorted
  · rw [hsame.2.1]; exact hi.xsC_sorted
  · rw [hsame.1, hsame.2.1]; exact hi.sub
  · intro k
    rw [hsame.1, L1D.ulRight_losses, L1D.ulLeft_losses, ← hs1.1]
    exact h1.t.losses_keys k
  · rintro ⟨u, v⟩
    rw [hsame.2.1, L1D.mem_tkeys_ulRight, L1D.mem_tkeys_ulLeft, h1.t.lossesC_keys, hs1.2.1]
    constructor
    · rintro (⟨h2, h3, _⟩ | ⟨h2, h3, _⟩ | h)
      · dsimp only at h2 h3; subst h2
        exact L1D.right_pair_of_rightOf hi.xsC_sorted hxC h3
      · dsimp only at h2 h3; subst h3
        exact L1D.left_pair_of_leftOf hi.xsC_sorted hxC h2
      · exact h
    · exact fun h => Or.inr (Or.inr h)
  · exact (L1D.nodupT_ulRight r12 (L1D.nodupT_ulLeft r12 h1.nodupT)).1
  · exact (L1D.nodupT_ulRight r12 (L1D.nodupT_ulLeft r12 h1.nodupT)).2

theorem same_recomputeLive (b : L1D.State α) (i : Nat) : L1D.Same b (recomputeLive lossFn r12 b i) := by
  induction i generalizing b with
  | zero => unfold recomputeLive; split <;> exact ⟨rfl, rfl, rfl, rfl⟩
  | succ i ih =>
    unfold recomputeLive
    split
    · exact (L1D.same_updInterp lossFn r12 b _ _).trans (ih _)
    · exact ⟨rfl, rfl, rfl, rfl⟩

theorem pninv_recomputeLive {b : L1D.State α} (hi : L1D.PNInv b) (i : Nat) :
    L1D.PNInv (recomputeLive lossFn r12 b i) := by
  induction i generalizing b with
  | zero =>
    unfold recomputeLive
    split
    · rename_i e he
      apply L1D.pninv_updInterp lossFn r12 hi
      apply (hi.t.losses_keys (e.1.1, e.1.2)).1
      exact List.mem_map.2 ⟨e, List.mem_of_getElem? he, rfl⟩
    · exact hi
  | succ i ih =>
    unfold recomputeLive
    split
    · rename_i e he
      apply ih
      apply L1D.pninv_updInterp lossFn r12 hi
      apply (hi.t.losses_keys (e.1.1, e.1.2)).1
      exact List.mem_map.2 ⟨e, List.mem_of_getElem? he, rfl⟩
    · exact hi

theorem pninv_maybeRescaleLive {b : L1D.State α} (hi : L1D.PNInv b) :
    L1D.PNInv (maybeRescaleLive lossFn r12 b) := by
  unfold maybeRescaleLive
  split
  · dsimp only
    split
    · exact hi.congr rfl rfl rfl rfl
    · exact (pninv_recomputeLive lossFn r12 hi _).congr rfl rfl rfl rfl
  · exact hi

theorem pninv_foldl_updateScale {b : L1D.State α} (hi : L1D.PNInv b) (x : α) (ys : List α) :
    L1D.PNInv (ys.foldl (fun b y => L1D.updateScale b x [y]) b) := by
  induction ys generalizing b with
  | nil => exact hi
  | cons y ys ih => exact ih (hi.congr rfl rfl rfl rfl)


theorem same_maybeRescaleLive (b : L1D.State α) : L1D.Same b (maybeRescaleLive lossFn r12 b) := by
  unfold maybeRescaleLive
  split
  · dsimp only
    split
    · exact ⟨rfl, rfl, rfl, rfl⟩
    · exact (same_recomputeLive lossFn r12 b _).trans ⟨rfl, rfl, rfl, rfl⟩
  · exact L1D.Same.refl b

theorem same_foldl_updateScale (b : L1D.State α) (x : α) (ys : List α) :
    L1D.Same b (ys.foldl (fun b y => L1D.updateScale b x [y]) b) := by
  induction ys generalizing b with
  | nil => exact L1D.Same.refl b
  | cons y ys ih => exact (show L1D.Same b (L1D.updateScale b x [y]) from ⟨rfl, rfl, rfl, rfl⟩).trans (ih _)

/-! ### the two ways a `tell` acts on the embedded Learner1D state -/

/-- the embedded Learner1D state after the "new" branch of `tell` -/
def newBase (b : L1D.State α) (x y : α) : L1D.State α :=
  maybeRescaleLive lossFn r12 (L1D.updateLosses lossFn r12
    (L1D.updateScale { b with data := b.data ++ [(x, [y])], xsC := L1D.sinsert x b.xsC,
                              xs := L1D.sinsert x b.xs } x [y]) x true)

/-- the embedded Learner1D state after a "resampled" `tell` / the batch part of
`tell_many_at_point`: new mean `m` at `x`, `_update_scale` fed with `ys`,
`_update_losses_resampling`, live re-computation -/
def resBase (b : L1D.State α) (m x : α) (ys : List α) : L1D.State α :=
  maybeRescaleLive lossFn r12 (updateLossesResampling lossFn r12
    (ys.foldl (fun b y => L1D.updateScale b x [y]) { b with data := dataPut b.data x [m] }) x true)

theorem tellNew_base (s : State α) (seed : Nat) (x y : α) :
    (tellNew lossFn r12 sqrt tq hypot s seed x y).base = newBase lossFn r12 s.base x y := by
  rw [tellNew_eq, updateRescaled_base, updateDistances_base]
  rfl

theorem tellNew_pend (s : State α) (seed : Nat) (x y : α) :
    (tellNew lossFn r12 sqrt tq hypot s seed x y).pend = s.pend := by
  rw [tellNew_eq, updateRescaled_pend, updateDistances_pend]
  rfl

theorem afterResample_base (s : State α) (samp : Avg1D.State α) (x : α) (ys : List α) :
    (afterResample lossFn r12 hypot s samp x ys).base =
      resBase lossFn r12 s.base (meanIn samp x) x ys := by
  unfold afterResample
  dsimp only
  rw [popCheck_base, updateRescaled_base, updateDistances_base]
  rfl

theorem afterResample_pend (s : State α) (samp : Avg1D.State α) (x : α) (ys : List α) :
    (afterResample lossFn r12 hypot s samp x ys).pend = s.pend := by
  unfold afterResample
  dsimp only
  rw [popCheck_pend, updateRescaled_pend, updateDistances_pend]

theorem newBase_fields (b : L1D.State α) (x y : α) :
    (newBase lossFn r12 b x y).xs = L1D.sinsert x b.xs ∧
    (newBase lossFn r12 b x y).xsC = L1D.sinsert x b.xsC ∧
    (newBase lossFn r12 b x y).data = b.data ++ [(x, [y])] := by
  unfold newBase
  have h1 := same_maybeRescaleLive lossFn r12 (L1D.updateLosses lossFn r12
    (L1D.updateScale { b with data := b.data ++ [(x, [y])], xsC := L1D.sinsert x b.xsC,
                              xs := L1D.sinsert x b.xs } x [y]) x true)
  have h2 := L1D.same_updateLosses lossFn r12
    (L1D.updateScale { b with data := b.data ++ [(x, [y])], xsC := L1D.sinsert x b.xsC,
                              xs := L1D.sinsert x b.xs } x [y]) x true
  have h := h2.trans h1
  exact ⟨h.1, h.2.1, h.2.2.1⟩

theorem resBase_fields (b : L1D.State α) (m x : α) (ys : List α) :
    (resBase lossFn r12 b m x ys).xs = b.xs ∧
    (resBase lossFn r12 b m x ys).xsC = b.xsC ∧
    (resBase lossFn r12 b m x ys).data = dataPut b.data x [m] := by
  unfold resBase
  have h0 := same_foldl_updateScale { b with data := dataPut b.data x [m] } x ys
  have h1 := same_updateLossesResampling lossFn r12
    (ys.foldl (fun b y => L1D.updateScale b x [y]) { b with data := dataPut b.data x [m] }) x
  have h2 := same_maybeRescaleLive lossFn r12 (updateLossesResampling lossFn r12
    (ys.foldl (fun b y => L1D.updateScale b x [y]) { b with data := dataPut b.data x [m] }) x true)
  have h := (h0.trans h1).trans h2
  exact ⟨h.1, h.2.1, h.2.2.1⟩

/-! ### the structural invariant -/

/-- `PNInv` + the evaluated abscissae are the keys of `data`, each once -/
structure DInv (b : L1D.State α) : Prop where
  bi : L1D.PNInv b
  xs_mem : ∀ x, x ∈ b.xs ↔ x ∈ L1D.dkeys b.data
  data_nodup : (L1D.dkeys b.data).Nodup

/-- `neighbors_combined` = evaluated abscissae ∪ `P` -/
def CMem (b : L1D.State α) (P : List α) : Prop :=
  ∀ z, z ∈ b.xsC ↔ (z ∈ L1D.dkeys b.data ∨ z ∈ P)

/-- the same, except at `x` -/
def CMemOff (x : α) (b : L1D.State α) (P : List α) : Prop :=
  ∀ z, z ≠ x → (z ∈ b.xsC ↔ (z ∈ L1D.dkeys b.data ∨ z ∈ P))

theorem dkeys_dataPut {d : List (α × List α)} {x : α} (v : List α) (hx : x ∈ L1D.dkeys d) :
    L1D.dkeys (dataPut d x v) = L1D.dkeys d := by
  unfold dataPut
  rw [if_pos (L1D.dataGet_isSome.2 hx)]
  unfold L1D.dkeys
  rw [List.map_map]
  apply List.map_congr_left
  intro kv _
  simp only [Function.comp]
  split
  · rename_i h; exact h.symm
  · rfl

theorem dinv_newBase {b : L1D.State α} (h : DInv b) {x : α} (hx : x ∉ L1D.dkeys b.data) (y : α) :
    DInv (newBase lossFn r12 b x y) := by
  obtain ⟨f1, f2, f3⟩ := newBase_fields lossFn r12 b x y
  refine ⟨?_, ?_, ?_⟩
  · unfold newBase
    exact pninv_maybeRescaleLive lossFn r12 (L1D.pninv_updateLosses_true lossFn r12 h.bi rfl rfl rfl rfl)
  · intro z
    rw [f1, f3, L1D.mem_sinsert, h.xs_mem z]
    simp only [L1D.dkeys, List.map_append, List.mem_append, List.map_cons, List.map_nil,
      List.mem_singleton]
    exact or_comm
  · rw [f3]
    simp only [L1D.dkeys, List.map_append, List.map_cons, List.map_nil]
    rw [List.nodup_append]
    refine ⟨h.data_nodup, by simp, ?_⟩
    intro a ha c hc
    simp only [List.mem_singleton] at hc
    subst hc
    rintro rfl
    exact hx ha

theorem cmem_newBase {b : L1D.State α} {x : α} {P : List α} (h : CMemOff x b P) (y : α) :
    CMem (newBase lossFn r12 b x y) P := by
  obtain ⟨f1, f2, f3⟩ := newBase_fields lossFn r12 b x y
  intro z
  rw [f2, f3, L1D.mem_sinsert]
  simp only [L1D.dkeys, List.map_append, List.mem_append, List.map_cons, List.map_nil,
    List.mem_singleton]
  by_cases hz : z = x
  · simp [hz]
  · have := h z hz
    simp only [L1D.dkeys] at this
    rw [this]
    simp [hz]

theorem dinv_resBase {b : L1D.State α} (h : DInv b) {x : α} (hx : x ∈ L1D.dkeys b.data) (m : α)
    (ys : List α) : DInv (resBase lossFn r12 b m x ys) := by
  obtain ⟨f1, f2, f3⟩ := resBase_fields lossFn r12 b m x ys
  refine ⟨?_, ?_, ?_⟩
  · unfold resBase
    apply pninv_maybeRescaleLive
    apply pninv_updateLossesResampling
    · exact pninv_foldl_updateScale (h.bi.congr (b' := { b with data := dataPut b.data x [m] })
        rfl rfl rfl rfl) x ys
    · have e := (same_foldl_updateScale { b with data := dataPut b.data x [m] } x ys).1
      rw [e]
      exact (h.xs_mem x).2 hx
  · intro z
    rw [f1, f3, dkeys_dataPut _ hx]; exact h.xs_mem z
  · rw [f3, dkeys_dataPut _ hx]; exact h.data_nodup

theorem cmem_resBase {b : L1D.State α} {x : α} {P : List α} (h : CMemOff x b P)
    (hx : x ∈ L1D.dkeys b.data) (hxC : x ∈ b.xsC) (m : α) (ys : List α) :
    CMem (resBase lossFn r12 b m x ys) P := by
  obtain ⟨f1, f2, f3⟩ := resBase_fields lossFn r12 b m x ys
  intro z
  rw [f2, f3, dkeys_dataPut _ hx]
  by_cases hz : z = x
  · subst hz; exact ⟨fun _ => Or.inl hx, fun _ => hxC⟩
  · exact h z hz

/-- abscissae carrying a pending mark -/
def pendXs (s : State α) : List α := s.pend.map Prod.snd

/-- THE STRUCTURAL INVARIANT of the loss machinery embedded in `Avg1DFull` -/
structure SInv (s : State α) : Prop where
  d : DInv s.base
  c : CMem s.base (pendXs s)

theorem mem_map_snd_pendErase {l : List (Nat × α)} {seed : Nat} {x z : α} (hz : z ≠ x) :
    z ∈ (pendErase l seed x).map Prod.snd ↔ z ∈ l.map Prod.snd := by
  unfold pendErase
  simp only [List.mem_map, List.mem_filter]
  constructor
  · rintro ⟨q, ⟨hq, _⟩, rfl⟩; exact ⟨q, hq, rfl⟩
  · rintro ⟨q, hq, rfl⟩
    refine ⟨q, ⟨hq, ?_⟩, rfl⟩
    simp [hz]

theorem mem_map_snd_foldl_pendErase (m : List (Nat × α)) {l : List (Nat × α)} {x z : α} (hz : z ≠ x) :
    z ∈ (m.foldl (fun l kv => pendErase l kv.1 x) l).map Prod.snd ↔ z ∈ l.map Prod.snd := by
  induction m generalizing l with
  | nil => rfl
  | cons kv m ih =>
    simp only [List.foldl_cons]
    rw [ih, mem_map_snd_pendErase hz]

theorem cmemOff_of_agree {b : L1D.State α} {x : α} {P P' : List α} (h : CMem b P)
    (hP : ∀ z, z ≠ x → (z ∈ P' ↔ z ∈ P)) : CMemOff x b P' := by
  intro z hz
  rw [h z, hP z hz]

theorem cmem_of_agree {b : L1D.State α} {x : α} {P P' : List α} (h : CMem b P)
    (hx : x ∈ L1D.dkeys b.data) (hP : ∀ z, z ≠ x → (z ∈ P' ↔ z ∈ P)) : CMem b P' := by
  intro z
  by_cases hz : z = x
  · subst hz
    rw [h z]
    exact ⟨fun _ => Or.inl hx, fun _ => Or.inl hx⟩
  · rw [h z, hP z hz]

theorem CMem.off {b : L1D.State α} {P : List α} (h : CMem b P) (x : α) : CMemOff x b P :=
  fun z _ => h z

theorem sinv_tellNew {s : State α} (hd : DInv s.base) {x : α} (hc : CMemOff x s.base (pendXs s))
    (hx : x ∉ L1D.dkeys s.base.data) (seed : Nat) (y : α) :
    SInv (tellNew lossFn r12 sqrt tq hypot s seed x y) := by
  refine ⟨?_, ?_⟩
  · rw [tellNew_base]; exact dinv_newBase lossFn r12 hd hx y
  · rw [tellNew_base]
    unfold pendXs
    rw [tellNew_pend]
    exact cmem_newBase lossFn r12 hc y

theorem sinv_afterResample {s : State α} (hd : DInv s.base) {x : α}
    (hc : CMemOff x s.base (pendXs s)) (hx : x ∈ L1D.dkeys s.base.data)
    (samp : Avg1D.State α) (ys : List α) :
    SInv (afterResample lossFn r12 hypot s samp x ys) := by
  have hxC : x ∈ s.base.xsC := hd.bi.sub x ((hd.xs_mem x).2 hx)
  refine ⟨?_, ?_⟩
  · rw [afterResample_base]; exact dinv_resBase lossFn r12 hd hx _ ys
  · rw [afterResample_base]
    unfold pendXs
    rw [afterResample_pend]
    exact cmem_resBase lossFn r12 hc hx hxC _ ys

theorem finv_mem_dkeys {s : State α} (h : FInv hypot s) (x : α) :
    x ∈ L1D.dkeys s.base.data ↔ (Avg1D.find? s.samp x).isSome = true := by
  rw [← L1D.dataGet_isSome, h.data_sync x, Option.isSome_map]

theorem sinv_tell {s : State α} (hf : FInv hypot s) (h : SInv s) (seed : Nat) (x y : α) :
    SInv (tell lossFn r12 sqrt tq hypot s seed x y) := by
  -- the state before the pending mark is dropped
  have key : ∀ s' : State α, SInv s' → x ∈ L1D.dkeys s'.base.data →
      SInv { s' with pend := pendErase s'.pend seed x } := by
    intro s' h' hx'
    refine ⟨h'.d, ?_⟩
    exact cmem_of_agree h'.c hx' (fun z hz => mem_map_snd_pendErase hz)
  unfold tell
  dsimp only
  cases hfx : Avg1D.find? s.samp x with
  | none =>
    dsimp only
    have hx : x ∉ L1D.dkeys s.base.data := by
      rw [finv_mem_dkeys hypot hf, hfx]; simp
    apply key _ (sinv_tellNew lossFn r12 sqrt tq hypot h.d (h.c.off x) hx seed y)
    rw [tellNew_data]
    simp [L1D.dkeys]
  | some p =>
    dsimp only
    have hx : x ∈ L1D.dkeys s.base.data := by
      rw [finv_mem_dkeys hypot hf, hfx]; rfl
    split
    · exact key s h hx
    · apply key _ (sinv_afterResample lossFn r12 hypot h.d (h.c.off x) hx _ _)
      rw [afterResample_data, dkeys_dataPut _ hx]
      exact hx

theorem sinv_tellManyAtPoint {s : State α} (hf : FInv hypot s) (h : SInv s) (x : α)
    (m : List (Nat × α)) : SInv (tellManyAtPoint lossFn r12 sqrt tq hypot s x m) := by
  unfold tellManyAtPoint
  dsimp only
  have hoff : CMemOff x s.base
      (pendXs { s with pend := m.foldl (fun l kv => pendErase l kv.1 x) s.pend }) :=
    cmemOff_of_agree h.c (fun z hz => mem_map_snd_foldl_pendErase m hz)
  cases m with
  | nil =>
    have : SInv { s with pend := ([] : List (Nat × α)).foldl (fun l kv => pendErase l kv.1 x) s.pend } := h
    cases hfx : Avg1D.find? s.samp x <;> exact this
  | cons kv rest =>
    cases hfx : Avg1D.find? s.samp x with
    | none =>
      obtain ⟨seed, y⟩ := kv
      have hx : x ∉ L1D.dkeys s.base.data := by
        rw [finv_mem_dkeys hypot hf, hfx]; simp
      have h1 := sinv_tellNew lossFn r12 sqrt tq hypot
        (s := { s with pend := ((seed, y) :: rest).foldl (fun l kv => pendErase l kv.1 x) s.pend })
        h.d hoff hx seed y
      cases rest with
      | nil => exact h1
      | cons kv2 rest2 =>
        dsimp only
        apply sinv_afterResample lossFn r12 hypot h1.d (h1.c.off x)
        rw [tellNew_data]
        simp [L1D.dkeys]
    | some p =>
      dsimp only
      have hx : x ∈ L1D.dkeys s.base.data := by
        rw [finv_mem_dkeys hypot hf, hfx]; rfl
      exact sinv_afterResample lossFn r12 hypot
        (s := { s with pend := (kv :: rest).foldl (fun l kv => pendErase l kv.1 x) s.pend })
        h.d hoff hx _ _

theorem sinv_tellPending {s : State α} (h : SInv s) (seed : Nat) (x : α) :
    SInv (tellPending lossFn r12 s seed x) := by
  have hP : ∀ z, z ∈ (if s.pend.any (fun q => q.1 == seed && decide (q.2 = x)) then s.pend
      else (seed, x) :: s.pend).map Prod.snd ↔ (z = x ∨ z ∈ pendXs s) := by
    intro z
    unfold pendXs
    split
    · rename_i hany
      obtain ⟨q, hq, hq2⟩ := List.any_eq_true.1 hany
      simp only [Bool.and_eq_true, beq_iff_eq, decide_eq_true_eq] at hq2
      constructor
      · exact Or.inr
      · rintro (rfl | hz)
        · exact List.mem_map.2 ⟨q, hq, hq2.2⟩
        · exact hz
    · simp only [List.map_cons, List.mem_cons]
  unfold tellPending
  dsimp only
  generalize (if s.pend.any (fun q => q.1 == seed && decide (q.2 = x)) then s.pend
      else (seed, x) :: s.pend) = P1 at hP ⊢
  split
  · rename_i hd
    have hx : x ∈ L1D.dkeys s.base.data := L1D.hasData_iff.1 hd
    refine ⟨h.d, ?_⟩
    intro z
    show z ∈ s.base.xsC ↔ _ ∨ z ∈ P1.map Prod.snd
    rw [hP z, h.c z]
    constructor
    · rintro (h1 | h1)
      · exact Or.inl h1
      · exact Or.inr (Or.inr h1)
    · rintro (h1 | rfl | h1)
      · exact Or.inl h1
      · exact Or.inl hx
      · exact Or.inr h1
  · rename_i hd
    have hsame := L1D.same_updateLosses lossFn r12 { s.base with xsC := L1D.sinsert x s.base.xsC } x false
    refine ⟨⟨?_, ?_, ?_⟩, ?_⟩
    · exact L1D.pninv_updateLosses_false lossFn r12 h.d.bi rfl rfl rfl rfl
    · intro z
      show z ∈ (L1D.updateLosses lossFn r12 { s.base with xsC := L1D.sinsert x s.base.xsC } x false).xs ↔
        z ∈ L1D.dkeys (L1D.updateLosses lossFn r12 { s.base with xsC := L1D.sinsert x s.base.xsC } x false).data
      rw [hsame.1, hsame.2.2.1]; exact h.d.xs_mem z
    · show (L1D.dkeys (L1D.updateLosses lossFn r12 { s.base with xsC := L1D.sinsert x s.base.xsC } x false).data).Nodup
      rw [hsame.2.2.1]; exact h.d.data_nodup
    · intro z
      show z ∈ (L1D.updateLosses lossFn r12 { s.base with xsC := L1D.sinsert x s.base.xsC } x false).xsC ↔
        z ∈ L1D.dkeys (L1D.updateLosses lossFn r12 { s.base with xsC := L1D.sinsert x s.base.xsC } x false).data ∨
        z ∈ P1.map Prod.snd
      rw [hsame.2.1, hsame.2.2.1, hP z]
      show z ∈ L1D.sinsert x s.base.xsC ↔ _
      rw [L1D.mem_sinsert, h.c z]
      tauto

theorem sinv_foldl_tellPending (pts : List (Nat × α)) {s : State α} (h : SInv s) :
    SInv (pts.foldl (fun s p => tellPending lossFn r12 s p.1 p.2) s) := by
  induction pts generalizing s with
  | nil => exact h
  | cons p ps ih => exact ih (sinv_tellPending lossFn r12 h p.1 p.2)

theorem sinv_removeUnfinished {s : State α} (h : SInv s) : SInv (removeUnfinished s) := by
  refine ⟨⟨L1D.pninv_removeUnfinished h.d.bi, h.d.xs_mem, h.d.data_nodup⟩, ?_⟩
  intro z
  show z ∈ s.base.xs ↔ z ∈ L1D.dkeys s.base.data ∨ z ∈ ([] : List (Nat × α)).map Prod.snd
  rw [h.d.xs_mem z]; simp

theorem sinv_step {s : State α} (hf : FInv hypot s) (h : SInv s) (op : Op α)
    (hop : ∀ pts, op ≠ .tellMany pts) : SInv (step lossFn r12 sqrt tq hypot s op) := by
  cases op with
  | tell seed x y => exact sinv_tell lossFn r12 sqrt tq hypot hf h seed x y
  | tellPending seed x => exact sinv_tellPending lossFn r12 h seed x
  | tellMany pts => exact absurd rfl (hop pts)
  | tellManyAtPoint x m => exact sinv_tellManyAtPoint lossFn r12 sqrt tq hypot hf h x m
  | removeUnfinished => exact sinv_removeUnfinished h
  | ask n c commit =>
    show SInv (match ask lossFn r12 sqrt s n c commit with
      | some r => r.2
      | none => s)
    unfold ask
    cases askPts r12 sqrt s n c with
    | none => exact h
    | some q =>
      dsimp only [Option.map_some]
      split
      · exact sinv_foldl_tellPending lossFn r12 _ h
      · exact h

theorem sinv_run {s : State α} (hf : FInv hypot s) (h : SInv s) (ops : List (Op α)) :
    SInv (run lossFn r12 sqrt tq hypot s ops) := by
  rw [run_expandOps]
  have hn := noTellMany_expandOps ops
  generalize expandOps ops = l at hn
  induction l generalizing s with
  | nil => exact h
  | cons op l ih =>
    exact ih (finv_step lossFn r12 sqrt tq hypot hf op (hn op List.mem_cons_self))
      (sinv_step lossFn r12 sqrt tq hypot hf h op (hn op List.mem_cons_self))
      (fun o ho => hn o (List.mem_cons_of_mem _ ho))

theorem sinv_init (lo hi factor dxEps : α) (nn : Nat) (delta minError : α) (minS maxS : Nat) (ns : α) :
    SInv (init lo hi factor dxEps nn delta minError minS maxS ns) := by
  refine ⟨⟨L1D.pninv_init lo hi factor dxEps nn, ?_, ?_⟩, ?_⟩
  · intro x; simp [init, L1D.init, L1D.dkeys]
  · simp [init, L1D.init, L1D.dkeys]
  · intro x; simp [init, L1D.init, L1D.dkeys, pendXs]


/-! ### both tables stay in `ItemSortedDict` order -/

theorem ts_recomputeLive {sc : α} {b : L1D.State α} (h : L1D.TS r12 sc b) (i : Nat) :
    L1D.TS r12 sc (recomputeLive lossFn r12 b i) := by
  induction i generalizing b with
  | zero =>
    unfold recomputeLive
    split
    · exact L1D.ts_updInterp lossFn r12 _ _ h
    · exact h
  | succ i ih =>
    unfold recomputeLive
    split
    · exact ih (L1D.ts_updInterp lossFn r12 _ _ h)
    · exact h

theorem ts_maybeRescaleLive {sc : α} {b : L1D.State α} (h : L1D.TS r12 sc b) :
    L1D.TS r12 sc (maybeRescaleLive lossFn r12 b) := by
  unfold maybeRescaleLive
  split
  · dsimp only
    split
    · exact L1D.ts_congr r12 rfl rfl rfl h
    · exact L1D.ts_congr r12 rfl rfl rfl (ts_recomputeLive lossFn r12 h _)
  · exact h

theorem ts_updateLossesResampling {sc : α} {b : L1D.State α} (h : L1D.TS r12 sc b) (x : α) :
    L1D.TS r12 sc (updateLossesResampling lossFn r12 b x true) := by
  rw [updateLossesResampling_true_eq]
  have h1 : L1D.TS r12 sc (L1D.foldUpd lossFn r12 b (L1D.getIntervals b x)) :=
    L1D.ts_foldl r12 (fun s (iv : Ival α) => L1D.updInterp lossFn r12 s iv.1 iv.2)
      (fun s iv hs => L1D.ts_updInterp lossFn r12 iv.1 iv.2 hs) _ h
  exact L1D.ts_ulStage4 r12 _ _ _ (L1D.ts_ulStage3 r12 _ _ _ h1)

theorem ts_newBase {sc : α} {b : L1D.State α} (h : L1D.TS r12 sc b) (x y : α) :
    L1D.TS r12 sc (newBase lossFn r12 b x y) := by
  unfold newBase
  exact ts_maybeRescaleLive lossFn r12 (L1D.ts_updateLosses lossFn r12 _ _
    (L1D.ts_updateScale r12 _ _ (L1D.ts_congr r12 rfl rfl rfl h)))

theorem ts_foldl_updateScale {sc : α} {b : L1D.State α} (h : L1D.TS r12 sc b) (x : α) (ys : List α) :
    L1D.TS r12 sc (ys.foldl (fun b y => L1D.updateScale b x [y]) b) := by
  induction ys generalizing b with
  | nil => exact h
  | cons y ys ih => exact ih (L1D.ts_updateScale r12 _ _ h)

theorem ts_resBase {sc : α} {b : L1D.State α} (h : L1D.TS r12 sc b) (m x : α) (ys : List α) :
    L1D.TS r12 sc (resBase lossFn r12 b m x ys) := by
  unfold resBase
  exact ts_maybeRescaleLive lossFn r12 (ts_updateLossesResampling lossFn r12
    (ts_foldl_updateScale r12 (L1D.ts_congr r12 (s' := { b with data := dataPut b.data x [m] })
      rfl rfl rfl h) x ys) x)

theorem ts_tell {sc : α} {s : State α} (h : L1D.TS r12 sc s.base) (seed : Nat) (x y : α) :
    L1D.TS r12 sc (tell lossFn r12 sqrt tq hypot s seed x y).base := by
  unfold tell
  dsimp only
  cases Avg1D.find? s.samp x with
  | none => dsimp only; rw [tellNew_base]; exact ts_newBase lossFn r12 h x y
  | some p =>
    dsimp only
    split
    · exact h
    · unfold tellResampled; rw [afterResample_base]; exact ts_resBase lossFn r12 h _ x _

theorem ts_tellManyAtPoint {sc : α} {s : State α} (h : L1D.TS r12 sc s.base) (x : α)
    (m : List (Nat × α)) : L1D.TS r12 sc (tellManyAtPoint lossFn r12 sqrt tq hypot s x m).base := by
  unfold tellManyAtPoint
  dsimp only
  cases m with
  | nil => cases Avg1D.find? s.samp x <;> exact h
  | cons kv rest =>
    cases Avg1D.find? s.samp x with
    | none =>
      obtain ⟨seed, y⟩ := kv
      have h1 : L1D.TS r12 sc (tellNew lossFn r12 sqrt tq hypot
          { s with pend := ((seed, y) :: rest).foldl (fun l kv => pendErase l kv.1 x) s.pend } seed x y).base := by
        rw [tellNew_base]; exact ts_newBase lossFn r12 h x y
      cases rest with
      | nil => exact h1
      | cons kv2 rest2 =>
        dsimp only
        rw [afterResample_base]; exact ts_resBase lossFn r12 h1 _ x _
    | some p =>
      dsimp only
      rw [afterResample_base]; exact ts_resBase lossFn r12 h _ x _

theorem ts_tellPending {sc : α} {s : State α} (h : L1D.TS r12 sc s.base) (seed : Nat) (x : α) :
    L1D.TS r12 sc (tellPending lossFn r12 s seed x).base := by
  unfold tellPending
  dsimp only
  split
  · exact h
  · exact L1D.ts_updateLosses lossFn r12 _ _ (L1D.ts_congr r12 rfl rfl rfl h)

theorem ts_foldl_tellPending {sc : α} (pts : List (Nat × α)) {s : State α} (h : L1D.TS r12 sc s.base) :
    L1D.TS r12 sc (pts.foldl (fun s p => tellPending lossFn r12 s p.1 p.2) s).base := by
  induction pts generalizing s with
  | nil => exact h
  | cons p ps ih => exact ih (ts_tellPending lossFn r12 h p.1 p.2)

theorem ts_step {sc : α} {s : State α} (h : L1D.TS r12 sc s.base) (op : Op α)
    (hop : ∀ pts, op ≠ .tellMany pts) : L1D.TS r12 sc (step lossFn r12 sqrt tq hypot s op).base := by
  cases op with
  | tell seed x y => exact ts_tell lossFn r12 sqrt tq hypot h seed x y
  | tellPending seed x => exact ts_tellPending lossFn r12 h seed x
  | tellMany pts => exact absurd rfl (hop pts)
  | tellManyAtPoint x m => exact ts_tellManyAtPoint lossFn r12 sqrt tq hypot h x m
  | removeUnfinished => exact L1D.ts_removeUnfinished r12 h
  | ask n c commit =>
    show L1D.TS r12 sc (match ask lossFn r12 sqrt s n c commit with
      | some r => r.2
      | none => s).base
    unfold ask
    cases askPts r12 sqrt s n c with
    | none => exact h
    | some q =>
      dsimp only [Option.map_some]
      split
      · exact ts_foldl_tellPending lossFn r12 _ h
      · exact h

theorem ts_run {sc : α} {s : State α} (h : L1D.TS r12 sc s.base) (ops : List (Op α)) :
    L1D.TS r12 sc (run lossFn r12 sqrt tq hypot s ops).base := by
  rw [run_expandOps]
  have hn := noTellMany_expandOps ops
  generalize expandOps ops = l at hn
  induction l generalizing s with
  | nil => exact h
  | cons op l ih =>
    exact ih (ts_step lossFn r12 sqrt tq hypot h op (hn op List.mem_cons_self))
      (fun o ho => hn o (List.mem_cons_of_mem _ ho))


/-! ### VALUES -/

/-- every evaluated interval holds exactly the loss function's value on the current data
(running means) at the current scales -/
def Exact (b : L1D.State α) : Prop :=
  ∀ k ∈ L1D.pairs b.xs, L1D.lget k b.losses = some (L1D.getLoss lossFn b k.1 k.2)

/-- the keys the LIVE re-computation loop really visits, in order -/
def liveKeys (s : L1D.State α) : Nat → List (Ival α)
  | 0 => match s.losses[0]? with
    | some e => [e.1]
    | none => []
  | i + 1 => match s.losses[i + 1]? with
    | some e => e.1 :: liveKeys (L1D.updInterp lossFn r12 s e.1.1 e.1.2) i
    | none => []

/-- the live loop is the snapshot loop over the keys it really visits -/
theorem recomputeLive_eq_loop (s : L1D.State α) (i : Nat) :
    recomputeLive lossFn r12 s i = L1D.recomputeLoop lossFn r12 s (liveKeys lossFn r12 s i) := by
  induction i generalizing s with
  | zero =>
    unfold recomputeLive liveKeys
    cases s.losses[0]? <;> rfl
  | succ i ih =>
    unfold recomputeLive liveKeys
    cases s.losses[i + 1]? with
    | none => rfl
    | some e =>
      dsimp only
      rw [ih]
      rfl

/-- the guard: the live loop, if it is entered, reaches every key of `losses` -/
def LiveOK (s : L1D.State α) : Prop :=
  s.factor * s.oldScaleY < s.scaleY →
    ∀ k ∈ L1D.tkeys s.losses, k ∈ liveKeys lossFn r12 s (s.losses.length - 1)

theorem core_maybeRescaleLive_but_old (s : L1D.State α) :
    ∀ a b, L1D.getLoss lossFn (maybeRescaleLive lossFn r12 s) a b = L1D.getLoss lossFn s a b := by
  intro a b
  unfold maybeRescaleLive
  split
  · dsimp only
    split
    · rfl
    · show L1D.getLoss lossFn (recomputeLive lossFn r12 s (s.losses.length - 1)) a b = _
      rw [recomputeLive_eq_loop]
      exact L1D.getLoss_recomputeLoop lossFn r12 s _ a b
  · rfl

/-- what the (possibly firing) live re-computation leaves in `losses` -/
theorem maybeRescaleLive_losses (s : L1D.State α) (k : Ival α) :
    L1D.lget k (maybeRescaleLive lossFn r12 s).losses =
      if s.factor * s.oldScaleY < s.scaleY ∧ k ∈ liveKeys lossFn r12 s (s.losses.length - 1) ∧
          s.losses ≠ [] then
        some (L1D.getLoss lossFn s k.1 k.2)
      else L1D.lget k s.losses := by
  unfold maybeRescaleLive
  by_cases hf : s.factor * s.oldScaleY < s.scaleY
  · rw [if_pos hf]
    dsimp only
    cases hl : s.losses with
    | nil => simp [hl]
    | cons e l =>
      rw [← hl]
      have hne : s.losses ≠ [] := by rw [hl]; simp
      have hie : s.losses.isEmpty = false := by rw [hl]; rfl
      rw [hie]
      show L1D.lget k (recomputeLive lossFn r12 s (s.losses.length - 1)).losses = _
      rw [recomputeLive_eq_loop, L1D.recomputeLoop_losses]
      by_cases hk : k ∈ liveKeys lossFn r12 s (s.losses.length - 1)
      · rw [if_pos hk, if_pos ⟨hf, hk, hne⟩]
      · rw [if_neg hk, if_neg (fun h => hk h.2.1)]
  · rw [if_neg hf, if_neg (fun h => hf h.1)]

theorem maybeRescaleLive_old (s : L1D.State α) (hf1 : s.factor = 1) (hle : s.oldScaleY ≤ s.scaleY) :
    (maybeRescaleLive lossFn r12 s).oldScaleY = (maybeRescaleLive lossFn r12 s).scaleY := by
  unfold maybeRescaleLive
  split
  · rfl
  · rename_i h
    rw [hf1, one_mul] at h
    exact le_antisymm hle (not_lt.1 h)

/-- (V-rescale) if every interval not reached by the live loop is exact already — in particular
if the loop does not fire, or reaches every key — the table is exact afterwards -/
theorem exact_maybeRescaleLive {s : L1D.State α}
    (hkeys : ∀ k, k ∈ L1D.tkeys s.losses ↔ k ∈ L1D.pairs s.xs)
    (h : ∀ k ∈ L1D.pairs s.xs,
      (s.factor * s.oldScaleY < s.scaleY ∧ k ∈ liveKeys lossFn r12 s (s.losses.length - 1)) ∨
      L1D.lget k s.losses = some (L1D.getLoss lossFn s k.1 k.2)) :
    Exact lossFn (maybeRescaleLive lossFn r12 s) := by
  intro k hk
  rw [(same_maybeRescaleLive lossFn r12 s).1] at hk
  rw [maybeRescaleLive_losses, core_maybeRescaleLive_but_old]
  split
  · rfl
  · rename_i hn
    rcases h k hk with ⟨h1, h2⟩ | h1
    · exfalso
      apply hn
      refine ⟨h1, h2, ?_⟩
      intro he
      have := (hkeys k).2 hk
      rw [he] at this
      simp [L1D.tkeys] at this
    · exact h1

/-! #### the re-sample of an existing abscissa -/

/-- an interval that `_get_intervals(x, …)` does not list does not have `x` in the index window of
its loss (any `nn`) -/
theorem not_mem_win_of_not_getIntervals {b : L1D.State α} (hs : b.xs.Pairwise (· < ·)) {x : α}
    (hx : x ∈ b.xs) {p q : α} (hpq : (p, q) ∈ L1D.pairs b.xs) (hng : (p, q) ∉ L1D.getIntervals b x) :
    some x ∉ L1D.win b.xs b.nn (b.xs.findIdx (fun y => y = p)) := by
  obtain ⟨j, hj⟩ := List.getElem?_of_mem hx
  obtain ⟨m, hm1, hm2⟩ := L1D.mem_pairs_iff_getElem?.1 hpq
  have hlen : m + 1 < b.xs.length := (List.getElem?_eq_some_iff.1 hm2).1
  unfold L1D.getIntervals at hng
  simp only [L1D.sorted_findIdx hs hj] at hng
  have hcase : m + b.nn + 1 < j ∨ j + b.nn + 1 ≤ m := by
    by_contra hc
    apply hng
    exact L1D.mem_pairs_window hm1 hm2 (by omega) (by omega)
  rw [L1D.sorted_findIdx hs hm1]
  intro hw
  unfold L1D.win at hw
  rw [List.mem_map] at hw
  obtain ⟨t, ht, hpt⟩ := hw
  rw [List.mem_map] at ht
  obtain ⟨k, hk, rfl⟩ := ht
  rw [List.mem_range] at hk
  unfold L1D.pointAt at hpt
  split at hpt
  · cases hpt
  · rename_i hneg
    have e1 := L1D.sorted_findIdx hs hpt
    have e2 := L1D.sorted_findIdx hs hj
    have : ((m : Int) - (b.nn : Int) + (k : Int)).toNat = j := by rw [← e1, ← e2]
    omega

/-- replacing the value at `x` changes the loss function's value only on the intervals
`_get_intervals(x, …)` lists (any `nn`), provided the scales stay -/
theorem getLoss_dataPut_outside {b b' : L1D.State α} (hs : b.xs.Pairwise (· < ·)) {x : α}
    (hx : x ∈ b.xs) (v : List α) (h1 : b'.dxEps = b.dxEps) (h2 : b'.scaleX = b.scaleX)
    (h3 : b'.scaleY = b.scaleY) (h4 : b'.xs = b.xs) (h5 : b'.nn = b.nn)
    (h6 : b'.data = dataPut b.data x v) {p q : α} (hpq : (p, q) ∈ L1D.pairs b.xs)
    (hng : (p, q) ∉ L1D.getIntervals b x) :
    L1D.getLoss lossFn b' p q = L1D.getLoss lossFn b p q := by
  apply L1D.getLoss_ext lossFn h1 h2 h3 (by rw [h4, h5])
  intro z hz
  have hzx : z ≠ x := by
    rintro rfl
    exact not_mem_win_of_not_getIntervals hs hx hpq hng hz
  rw [h6, dataGet_dataPut_ne _ _ hzx]

/-- what `_update_losses_resampling(x, real=True)` leaves in `losses` -/
theorem updateLossesResampling_losses (b : L1D.State α) (x : α) (k : Ival α) :
    L1D.lget k (updateLossesResampling lossFn r12 b x true).losses =
      if k ∈ L1D.getIntervals b x then some (L1D.getLoss lossFn b k.1 k.2) else L1D.lget k b.losses := by
  rw [updateLossesResampling_true_eq, L1D.ulRight_losses, L1D.ulLeft_losses]
  exact L1D.recomputeLoop_losses lossFn r12 b _ k

theorem getLoss_updateLossesResampling (b : L1D.State α) (x : α) (p q : α) :
    L1D.getLoss lossFn (updateLossesResampling lossFn r12 b x true) p q = L1D.getLoss lossFn b p q :=
  L1D.getLoss_congr lossFn (core_updateLossesResampling lossFn r12 b x true) p q

/-- (V-resample) THE DELICATE STEP.  `b1` = the state after the mean at `x` was replaced and
`_update_scale` was fed.  After `_update_losses_resampling(x)`: every interval whose loss depends on
`data[x]` (for any `nn`) holds the loss of the new data; if the scales did not move, every other
interval is still exact. -/
theorem resample_losses {b b1 : L1D.State α} (hs : b.xs.Pairwise (· < ·)) (he : Exact lossFn b)
    {x : α} (hx : x ∈ b.xs) (v : List α) (h1 : b1.dxEps = b.dxEps) (h2 : b1.scaleX = b.scaleX)
    (h4 : b1.xs = b.xs) (h5 : b1.nn = b.nn) (h6 : b1.data = dataPut b.data x v)
    (h7 : b1.losses = b.losses) :
    let b2 := updateLossesResampling lossFn r12 b1 x true
    ∀ k ∈ L1D.pairs b.xs,
      (k ∈ L1D.getIntervals b x → L1D.lget k b2.losses = some (L1D.getLoss lossFn b2 k.1 k.2)) ∧
      (k ∉ L1D.getIntervals b x → b1.scaleY = b.scaleY →
        L1D.lget k b2.losses = some (L1D.getLoss lossFn b2 k.1 k.2)) ∧
      (k ∉ L1D.getIntervals b x → L1D.lget k b2.losses = L1D.lget k b.losses) := by
  intro b2 k hk
  have hgi : L1D.getIntervals b1 x = L1D.getIntervals b x := L1D.getIntervals_congr h4 h5 x
  refine ⟨?_, ?_, ?_⟩
  · intro hin
    show L1D.lget k (updateLossesResampling lossFn r12 b1 x true).losses = _
    rw [updateLossesResampling_losses, hgi, if_pos hin, getLoss_updateLossesResampling]
  · intro hout h3
    show L1D.lget k (updateLossesResampling lossFn r12 b1 x true).losses = _
    rw [updateLossesResampling_losses, hgi, if_neg hout, getLoss_updateLossesResampling, h7, he k hk,
      getLoss_dataPut_outside lossFn hs hx v h1 h2 h3 h4 h5 h6 (p := k.1) (q := k.2) hk hout]
  · intro hout
    show L1D.lget k (updateLossesResampling lossFn r12 b1 x true).losses = _
    rw [updateLossesResampling_losses, hgi, if_neg hout, h7]


/-- the state `_update_losses_resampling` works on in `resBase` -/
def resPre (b : L1D.State α) (m x : α) (ys : List α) : L1D.State α :=
  ys.foldl (fun b y => L1D.updateScale b x [y]) { b with data := dataPut b.data x [m] }

theorem resBase_eq (b : L1D.State α) (m x : α) (ys : List α) :
    resBase lossFn r12 b m x ys =
      maybeRescaleLive lossFn r12 (updateLossesResampling lossFn r12 (resPre b m x ys) x true) := rfl

theorem resPre_fields (b : L1D.State α) (m x : α) (ys : List α) :
    (resPre b m x ys).dxEps = b.dxEps ∧ (resPre b m x ys).xs = b.xs ∧ (resPre b m x ys).nn = b.nn ∧
    (resPre b m x ys).data = dataPut b.data x [m] ∧ (resPre b m x ys).losses = b.losses ∧
    (resPre b m x ys).xsC = b.xsC ∧ (resPre b m x ys).lossesC = b.lossesC := by
  unfold resPre
  have : ∀ b0 : L1D.State α,
      (ys.foldl (fun b y => L1D.updateScale b x [y]) b0).dxEps = b0.dxEps ∧
      (ys.foldl (fun b y => L1D.updateScale b x [y]) b0).xs = b0.xs ∧
      (ys.foldl (fun b y => L1D.updateScale b x [y]) b0).nn = b0.nn ∧
      (ys.foldl (fun b y => L1D.updateScale b x [y]) b0).data = b0.data ∧
      (ys.foldl (fun b y => L1D.updateScale b x [y]) b0).losses = b0.losses ∧
      (ys.foldl (fun b y => L1D.updateScale b x [y]) b0).xsC = b0.xsC ∧
      (ys.foldl (fun b y => L1D.updateScale b x [y]) b0).lossesC = b0.lossesC := by
    induction ys with
    | nil => intro b0; exact ⟨rfl, rfl, rfl, rfl, rfl, rfl, rfl⟩
    | cons y ys ih => intro b0; exact ih (L1D.updateScale b0 x [y])
  exact this _

/-- (V-resample, complete step) the embedded Learner1D state after a re-sample of the existing
abscissa `x` (any `nn`, any loss function): if the table was exact, the x-scale does not move (`x`
inside the x-box) and EITHER the y-scale does not move OR the live re-computation fires and reaches
every interval, the table is exact again. -/
theorem exact_resBase {b : L1D.State α} (hd : DInv b) (he : Exact lossFn b) {x : α}
    (hx : x ∈ L1D.dkeys b.data) (m : α) (ys : List α)
    (hX : (resPre b m x ys).scaleX = b.scaleX)
    (hcase : (resPre b m x ys).scaleY = b.scaleY ∨
      ((resPre b m x ys).factor * (resPre b m x ys).oldScaleY < (resPre b m x ys).scaleY ∧
        ∀ k ∈ L1D.pairs b.xs, k ∈ liveKeys lossFn r12
          (updateLossesResampling lossFn r12 (resPre b m x ys) x true)
          ((updateLossesResampling lossFn r12 (resPre b m x ys) x true).losses.length - 1))) :
    Exact lossFn (resBase lossFn r12 b m x ys) := by
  obtain ⟨g1, g2, g3, g4, g5, g6, g7⟩ := resPre_fields b m x ys
  have hxs : x ∈ b.xs := (hd.xs_mem x).2 hx
  have hb1 : L1D.PNInv (resPre b m x ys) := hd.bi.congr g2 g6 g5 g7
  have hb2 := pninv_updateLossesResampling lossFn r12 hb1 (x := x) (by rw [g2]; exact hxs)
  have hsame := same_updateLossesResampling lossFn r12 (resPre b m x ys) x
  have hR := resample_losses lossFn r12 hd.bi.xs_sorted he hxs [m] g1 hX g2 g3 g4 g5
  rw [resBase_eq]
  apply exact_maybeRescaleLive lossFn r12 hb2.t.losses_keys
  intro k hk
  rw [hsame.1, g2] at hk
  obtain ⟨r1, r2, _⟩ := hR k hk
  rcases hcase with h3 | ⟨hf, hall⟩
  · right
    by_cases hin : k ∈ L1D.getIntervals b x
    · exact r1 hin
    · exact r2 hin h3
  · left
    refine ⟨?_, hall k hk⟩
    have hc := core_updateLossesResampling lossFn r12 (resPre b m x ys) x true
    have e1 : (updateLossesResampling lossFn r12 (resPre b m x ys) x true).factor = (resPre b m x ys).factor :=
      by have h := congrArg L1D.State.factor hc; exact h
    have e2 : (updateLossesResampling lossFn r12 (resPre b m x ys) x true).oldScaleY = (resPre b m x ys).oldScaleY :=
      by have h := congrArg L1D.State.oldScaleY hc; exact h
    have e3 : (updateLossesResampling lossFn r12 (resPre b m x ys) x true).scaleY = (resPre b m x ys).scaleY :=
      by have h := congrArg L1D.State.scaleY hc; exact h
    rw [e1, e2, e3]; exact hf

/-- the same at the level of the full model: `afterResample` is what both "resampled" paths
(`tell` of a known abscissa with a new seed, the batch part of `tell_many_at_point`) run -/
theorem exact_afterResample {s : State α} (hd : DInv s.base) (he : Exact lossFn s.base) {x : α}
    (hx : x ∈ L1D.dkeys s.base.data) (samp : Avg1D.State α) (ys : List α)
    (hX : (resPre s.base (meanIn samp x) x ys).scaleX = s.base.scaleX)
    (hcase : (resPre s.base (meanIn samp x) x ys).scaleY = s.base.scaleY ∨
      ((resPre s.base (meanIn samp x) x ys).factor * (resPre s.base (meanIn samp x) x ys).oldScaleY <
          (resPre s.base (meanIn samp x) x ys).scaleY ∧
        ∀ k ∈ L1D.pairs s.base.xs, k ∈ liveKeys lossFn r12
          (updateLossesResampling lossFn r12 (resPre s.base (meanIn samp x) x ys) x true)
          ((updateLossesResampling lossFn r12 (resPre s.base (meanIn samp x) x ys) x true).losses.length - 1))) :
    Exact lossFn (afterResample lossFn r12 hypot s samp x ys).base := by
  rw [afterResample_base]
  exact exact_resBase lossFn r12 hd he hx _ ys hX hcase

end Avg1DFull
