import AdaptiveProofs.Lemmas.Choose
import AdaptiveProofs.Lemmas.LNDDead
import Mathlib.Tactic.Linarith
import Mathlib.Tactic.Ring
import Mathlib.Data.Rat.Denumerable
import Mathlib.Logic.Denumerable

/-!
The GEOMETRIC fields of `LND.ChooseGeom` (`inside`, `inSimplex`, `inOwner`) derived, for dimension 2, from the modelled
functions `Choose.choosePoint2` (`choose_point_in_simplex`), `Gen.Prims.point_in_simplex2` (`point_in_simplex`) and the
rectangular `LearnerND.inside_bounds`.

* `pis2_convex` — the set of points `point_in_simplex2 · p0 p1 p2 eps` accepts is convex (for EVERY `eps` and EVERY
  triangle, degenerate or not: the test is `-eps ≤ s`, `s ≤ 1 + eps`, `-eps ≤ t`, `s + t ≤ 1 + eps` for the barycentric
  coordinates `s = bary1`, `t = bary2`, which are affine in the point; all four inequalities are non-strict in the 2-D
  code — the N-D branch `all(alpha > -eps) and sum(alpha) < 1 + eps` is strict, but it is not the one dimension 2 runs).
* `pis2_corner0/1/2` — the corners are accepted (`eps ≥ 0`).
* `choose2_in_owner` — the point chosen in a sub-triangle whose vertices the owner accepts is accepted by the owner.
* `choose2_in_own_triangle` — `Choose.choose2_in_closed_triangle` WITHOUT the non-degeneracy guard (see the remark there).
* `insideRect`, `choose2_in_box` — rectangular `inside_bounds` and the chosen point.
* `LND.*` — the fields of `ChooseGeom` for an `Env` computed from coordinates, and `LND.chooseGeom_dim2_of_coords`.
-/
set_option linter.unusedSectionVars false
set_option linter.unusedVariables false

namespace Choose
open Gen.Prims Prims

section geom
variable {α : Type} [Field α] [LinearOrder α] [IsStrictOrderedRing α]

/-! ### convexity of the accepted set -/

/-- a convex combination of numbers `≥ c` is `≥ c` -/
theorem comb3_ge {l0 l1 l2 c a0 a1 a2 : α} (h0 : 0 ≤ l0) (h1 : 0 ≤ l1) (h2 : 0 ≤ l2) (hs : l0 + l1 + l2 = 1)
    (c0 : c ≤ a0) (c1 : c ≤ a1) (c2 : c ≤ a2) : c ≤ l0 * a0 + l1 * a1 + l2 * a2 := by
  have e : c = l0 * c + l1 * c + l2 * c := by rw [← add_mul, ← add_mul, hs, one_mul]
  have m0 := mul_le_mul_of_nonneg_left c0 h0
  have m1 := mul_le_mul_of_nonneg_left c1 h1
  have m2 := mul_le_mul_of_nonneg_left c2 h2
  linarith

/-- a convex combination of numbers `≤ c` is `≤ c` -/
theorem comb3_le {l0 l1 l2 c a0 a1 a2 : α} (h0 : 0 ≤ l0) (h1 : 0 ≤ l1) (h2 : 0 ≤ l2) (hs : l0 + l1 + l2 = 1)
    (c0 : a0 ≤ c) (c1 : a1 ≤ c) (c2 : a2 ≤ c) : l0 * a0 + l1 * a1 + l2 * a2 ≤ c := by
  have e : c = l0 * c + l1 * c + l2 * c := by rw [← add_mul, ← add_mul, hs, one_mul]
  have m0 := mul_le_mul_of_nonneg_left c0 h0
  have m1 := mul_le_mul_of_nonneg_left c1 h1
  have m2 := mul_le_mul_of_nonneg_left c2 h2
  linarith

/-- the barycentric coordinate `s` of `fast_2d_point_in_simplex` is affine in the point (any triangle, also a degenerate
one: division by the constant `cross2 p0 p1 p2`) -/
theorem bary1_affine (l0 l1 l2 : α) (hs : l0 + l1 + l2 = 1) (ax ay bx by' cx cy x0 y0 x1 y1 x2 y2 : α) :
    bary1 (l0 * ax + l1 * bx + l2 * cx) (l0 * ay + l1 * by' + l2 * cy) x0 y0 x1 y1 x2 y2 =
      l0 * bary1 ax ay x0 y0 x1 y1 x2 y2 + l1 * bary1 bx by' x0 y0 x1 y1 x2 y2 + l2 * bary1 cx cy x0 y0 x1 y1 x2 y2 := by
  have e : l0 = 1 - l1 - l2 := by linarith
  subst e
  simp only [bary1, cross2]
  ring

/-- the barycentric coordinate `t` of `fast_2d_point_in_simplex` is affine in the point -/
theorem bary2_affine (l0 l1 l2 : α) (hs : l0 + l1 + l2 = 1) (ax ay bx by' cx cy x0 y0 x1 y1 x2 y2 : α) :
    bary2 (l0 * ax + l1 * bx + l2 * cx) (l0 * ay + l1 * by' + l2 * cy) x0 y0 x1 y1 x2 y2 =
      l0 * bary2 ax ay x0 y0 x1 y1 x2 y2 + l1 * bary2 bx by' x0 y0 x1 y1 x2 y2 + l2 * bary2 cx cy x0 y0 x1 y1 x2 y2 := by
  have e : l0 = 1 - l1 - l2 := by linarith
  subst e
  simp only [bary2, cross2]
  ring

/-- (1) `pis2_convex`: the set of points accepted by `point_in_simplex(·, [p0, p1, p2], eps)` is CONVEX.  If `q0 q1 q2` are
accepted, so is `l0 q0 + l1 q1 + l2 q2` (`l_i ≥ 0`, `l0 + l1 + l2 = 1`), with the same `eps`.  No hypothesis on `eps`
(any sign) nor on the triangle (degenerate or not) is needed: the test is the conjunction of the four NON-STRICT affine
inequalities `-eps ≤ s`, `s ≤ 1 + eps`, `-eps ≤ t`, `s + t ≤ 1 + eps` (`C20.point_in_simplex2_iff_eps`). -/
theorem pis2_convex (x0 y0 x1 y1 x2 y2 eps : α) (l0 l1 l2 : α) (h0 : 0 ≤ l0) (h1 : 0 ≤ l1) (h2 : 0 ≤ l2)
    (hs : l0 + l1 + l2 = 1) (ax ay bx by' cx cy : α)
    (ha : point_in_simplex2 ax ay x0 y0 x1 y1 x2 y2 eps = true)
    (hb : point_in_simplex2 bx by' x0 y0 x1 y1 x2 y2 eps = true)
    (hc : point_in_simplex2 cx cy x0 y0 x1 y1 x2 y2 eps = true) :
    point_in_simplex2 (l0 * ax + l1 * bx + l2 * cx) (l0 * ay + l1 * by' + l2 * cy) x0 y0 x1 y1 x2 y2 eps = true := by
  rw [C20.point_in_simplex2_eq, C20.point_in_simplex2_iff_eps] at ha hb hc ⊢
  obtain ⟨⟨a1, a2⟩, a3, a4⟩ := ha
  obtain ⟨⟨b1, b2⟩, b3, b4⟩ := hb
  obtain ⟨⟨c1, c2⟩, c3, c4⟩ := hc
  rw [bary1_affine l0 l1 l2 hs, bary2_affine l0 l1 l2 hs]
  refine ⟨⟨comb3_ge h0 h1 h2 hs a1 b1 c1, comb3_le h0 h1 h2 hs a2 b2 c2⟩, comb3_ge h0 h1 h2 hs a3 b3 c3, ?_⟩
  have := comb3_le h0 h1 h2 hs a4 b4 c4
  linarith

/-- (1), for points: `comb l q0 q1 q2` is accepted when `q0 q1 q2` are and the weights are non-negative with sum 1 -/
theorem pis2_convex_comb (p0 p1 p2 q0 q1 q2 : P2 α) (eps : α) (l : α × α × α) (h0 : 0 ≤ l.1) (h1 : 0 ≤ l.2.1)
    (h2 : 0 ≤ l.2.2) (hs : l.1 + l.2.1 + l.2.2 = 1)
    (ha : point_in_simplex2 q0.1 q0.2 p0.1 p0.2 p1.1 p1.2 p2.1 p2.2 eps = true)
    (hb : point_in_simplex2 q1.1 q1.2 p0.1 p0.2 p1.1 p1.2 p2.1 p2.2 eps = true)
    (hc : point_in_simplex2 q2.1 q2.2 p0.1 p0.2 p1.1 p1.2 p2.1 p2.2 eps = true) :
    point_in_simplex2 (comb l q0 q1 q2).1 (comb l q0 q1 q2).2 p0.1 p0.2 p1.1 p1.2 p2.1 p2.2 eps = true :=
  pis2_convex _ _ _ _ _ _ eps l.1 l.2.1 l.2.2 h0 h1 h2 hs _ _ _ _ _ _ ha hb hc

/-! ### the corners are accepted -/

/-- corner 0 has barycentric coordinates `(s, t) = (0, 0)`: accepted for `eps ≥ 0` (any triangle) -/
theorem pis2_corner0 (x0 y0 x1 y1 x2 y2 eps : α) (he : 0 ≤ eps) :
    point_in_simplex2 x0 y0 x0 y0 x1 y1 x2 y2 eps = true := by
  rw [C20.point_in_simplex2_eq, C20.point_in_simplex2_iff_eps]
  have e1 : bary1 x0 y0 x0 y0 x1 y1 x2 y2 = 0 := by
    have : cross2 x0 y0 x0 y0 x2 y2 = 0 := by simp only [cross2]; ring
    simp only [bary1, this, zero_div]
  have e2 : bary2 x0 y0 x0 y0 x1 y1 x2 y2 = 0 := by
    have : cross2 x0 y0 x1 y1 x0 y0 = 0 := by simp only [cross2]; ring
    simp only [bary2, this, zero_div]
  rw [e1, e2]
  exact ⟨⟨by linarith, by linarith⟩, by linarith, by linarith⟩

/-- `0 ≤ a / a ≤ 1` (it is `1`, or `0` when `a = 0`) -/
theorem div_self_mem (a : α) : 0 ≤ a / a ∧ a / a ≤ 1 := by
  by_cases h : a = 0
  · rw [h, div_zero]; exact ⟨le_refl _, zero_le_one⟩
  · rw [div_self h]; exact ⟨zero_le_one, le_refl _⟩

/-- corner 1 has `(s, t) = (1, 0)`: accepted for `eps ≥ 0` -/
theorem pis2_corner1 (x0 y0 x1 y1 x2 y2 eps : α) (he : 0 ≤ eps) :
    point_in_simplex2 x1 y1 x0 y0 x1 y1 x2 y2 eps = true := by
  rw [C20.point_in_simplex2_eq, C20.point_in_simplex2_iff_eps]
  have e2 : bary2 x1 y1 x0 y0 x1 y1 x2 y2 = 0 := by
    have : cross2 x0 y0 x1 y1 x1 y1 = 0 := by simp only [cross2]; ring
    simp only [bary2, this, zero_div]
  obtain ⟨a, b⟩ := div_self_mem (cross2 x0 y0 x1 y1 x2 y2)
  rw [e2]
  simp only [bary1]
  exact ⟨⟨by linarith, by linarith⟩, by linarith, by linarith⟩

/-- corner 2 has `(s, t) = (0, 1)`: accepted for `eps ≥ 0` -/
theorem pis2_corner2 (x0 y0 x1 y1 x2 y2 eps : α) (he : 0 ≤ eps) :
    point_in_simplex2 x2 y2 x0 y0 x1 y1 x2 y2 eps = true := by
  rw [C20.point_in_simplex2_eq, C20.point_in_simplex2_iff_eps]
  have e1 : bary1 x2 y2 x0 y0 x1 y1 x2 y2 = 0 := by
    have : cross2 x0 y0 x2 y2 x2 y2 = 0 := by simp only [cross2]; ring
    simp only [bary1, this, zero_div]
  obtain ⟨a, b⟩ := div_self_mem (cross2 x0 y0 x1 y1 x2 y2)
  rw [e1]
  simp only [bary2]
  exact ⟨⟨by linarith, by linarith⟩, by linarith, by linarith⟩

/-! ### the chosen point -/

/-- (2) `choose2_in_owner`: if the three vertices of a sub-triangle `s0 s1 s2` are accepted by
`point_in_simplex(·, owner, eps)`, then so is the point `choose_point_in_simplex` returns for the sub-triangle
(`transform = None` or `diag(t0, t1)` with non-zero entries; whatever tolerance `eps'` the choice uses).  Every `eps`,
every owner, every sub-triangle (no non-degeneracy): the chosen point is a convex combination of the vertices
(`choose2_weights`) and the accepted set is convex (`pis2_convex`). -/
theorem choose2_in_owner (sqrt : α → α) (hs : SqrtLaw sqrt) (eps' : α) (s0 s1 s2 : P2 α) (t : Option (P2 α))
    (ht : ∀ t0 t1, t = some (t0, t1) → t0 ≠ 0 ∧ t1 ≠ 0) (o0 o1 o2 : P2 α) (eps : α)
    (h0 : point_in_simplex2 s0.1 s0.2 o0.1 o0.2 o1.1 o1.2 o2.1 o2.2 eps = true)
    (h1 : point_in_simplex2 s1.1 s1.2 o0.1 o0.2 o1.1 o1.2 o2.1 o2.2 eps = true)
    (h2 : point_in_simplex2 s2.1 s2.2 o0.1 o0.2 o1.1 o1.2 o2.1 o2.2 eps = true) :
    point_in_simplex2 (choosePoint2 sqrt eps' s0 s1 s2 t).1 (choosePoint2 sqrt eps' s0 s1 s2 t).2
      o0.1 o0.2 o1.1 o1.2 o2.1 o2.2 eps = true := by
  obtain ⟨l, hl, e⟩ := choose2_weights sqrt hs eps' s0 s1 s2 t ht
  obtain ⟨a, b, c, d⟩ := hl.nonneg_sum
  rw [e]
  exact pis2_convex_comb o0 o1 o2 s0 s1 s2 eps l a b c d h0 h1 h2

/-- `Choose.choose2_in_closed_triangle` WITHOUT the guard `crossP p0 p1 p2 ≠ 0`: the point chosen in a triangle is
accepted by `point_in_simplex` for that triangle, every tolerance `eps ≥ 0` (corners accepted + convexity).
REMARK: for a DEGENERATE triangle this is a statement about the field model only — there `s = t = x / 0 = 0` and the
test accepts EVERY point (example below), whereas IEEE arithmetic produces `nan` and the real test rejects every point.
For non-degenerate triangles it is `choose2_in_closed_triangle`. -/
theorem choose2_in_own_triangle (sqrt : α → α) (hs : SqrtLaw sqrt) (eps' : α) (p0 p1 p2 : P2 α) (t : Option (P2 α))
    (ht : ∀ t0 t1, t = some (t0, t1) → t0 ≠ 0 ∧ t1 ≠ 0) (eps : α) (he : 0 ≤ eps) :
    point_in_simplex2 (choosePoint2 sqrt eps' p0 p1 p2 t).1 (choosePoint2 sqrt eps' p0 p1 p2 t).2
      p0.1 p0.2 p1.1 p1.2 p2.1 p2.2 eps = true :=
  choose2_in_owner sqrt hs eps' p0 p1 p2 t ht p0 p1 p2 eps (pis2_corner0 _ _ _ _ _ _ eps he)
    (pis2_corner1 _ _ _ _ _ _ eps he) (pis2_corner2 _ _ _ _ _ _ eps he)

/-! ### rectangular domains -/

/-- `LearnerND.inside_bounds(point)` for rectangular bounds `[(a0, b0), (a1, b1)]` (`self._interior is None`):
`all((mn - eps) <= p <= (mx + eps) for p, (mn, mx) in zip(point, self._bbox))` with the ABSOLUTE tolerance
`eps = 1e-8` (here the parameter `epsb`; it is not relative to the size of the box). -/
def insideRect (a0 b0 a1 b1 epsb : α) (p : P2 α) : Bool :=
  decide ((a0 - epsb ≤ p.1 ∧ p.1 ≤ b0 + epsb) ∧ (a1 - epsb ≤ p.2 ∧ p.2 ≤ b1 + epsb))

theorem insideRect_iff (a0 b0 a1 b1 epsb : α) (p : P2 α) :
    insideRect a0 b0 a1 b1 epsb p = true ↔
      (a0 - epsb ≤ p.1 ∧ p.1 ≤ b0 + epsb) ∧ (a1 - epsb ≤ p.2 ∧ p.2 ≤ b1 + epsb) := by
  simp only [insideRect, decide_eq_true_eq]

/-- a convex combination of three points of the (tolerance-enlarged) box lies in it; every `epsb`, every box (even an
empty one) -/
theorem insideRect_comb (a0 b0 a1 b1 epsb : α) (l : α × α × α) (h0 : 0 ≤ l.1) (h1 : 0 ≤ l.2.1) (h2 : 0 ≤ l.2.2)
    (hs : l.1 + l.2.1 + l.2.2 = 1) (q0 q1 q2 : P2 α) (ha : insideRect a0 b0 a1 b1 epsb q0 = true)
    (hb : insideRect a0 b0 a1 b1 epsb q1 = true) (hc : insideRect a0 b0 a1 b1 epsb q2 = true) :
    insideRect a0 b0 a1 b1 epsb (comb l q0 q1 q2) = true := by
  rw [insideRect_iff] at ha hb hc ⊢
  obtain ⟨⟨a1', a2⟩, a3, a4⟩ := ha
  obtain ⟨⟨b1', b2⟩, b3, b4⟩ := hb
  obtain ⟨⟨c1, c2⟩, c3, c4⟩ := hc
  exact ⟨⟨comb3_ge h0 h1 h2 hs a1' b1' c1, comb3_le h0 h1 h2 hs a2 b2 c2⟩,
    comb3_ge h0 h1 h2 hs a3 b3 c3, comb3_le h0 h1 h2 hs a4 b4 c4⟩

/-- (4) `choose2_in_box`: the point chosen in a triangle whose vertices pass the rectangular `inside_bounds` passes it
(every triangle, every transform `None` / `diag` with non-zero entries, every tolerance) -/
theorem choose2_in_box (sqrt : α → α) (hs : SqrtLaw sqrt) (eps : α) (p0 p1 p2 : P2 α) (t : Option (P2 α))
    (ht : ∀ t0 t1, t = some (t0, t1) → t0 ≠ 0 ∧ t1 ≠ 0) (a0 b0 a1 b1 epsb : α)
    (h0 : insideRect a0 b0 a1 b1 epsb p0 = true) (h1 : insideRect a0 b0 a1 b1 epsb p1 = true)
    (h2 : insideRect a0 b0 a1 b1 epsb p2 = true) :
    insideRect a0 b0 a1 b1 epsb (choosePoint2 sqrt eps p0 p1 p2 t) = true := by
  obtain ⟨l, hl, e⟩ := choose2_weights sqrt hs eps p0 p1 p2 t ht
  obtain ⟨a, b, c, d⟩ := hl.nonneg_sum
  rw [e]
  exact insideRect_comb a0 b0 a1 b1 epsb l a b c d p0 p1 p2 h0 h1 h2

end geom
end Choose

/-! ## the fields of `LND.ChooseGeom` for an `Env` computed from coordinates (dimension 2) -/
namespace LND
open Choose Gen.Prims Prims

section coords
variable {α : Type} [Field α] [LinearOrder α] [IsStrictOrderedRing α] {β : Type}

/-- the SUB-VERTEX INVARIANT: every vertex of every simplex of a sub-triangulation is accepted by `point_in_simplex` for
the simplex that owns the sub-triangulation (whose corners are the first `dim+1` vertices, `lnd_subtri_vertices`).
This is what `_try_adding_pending_point_to_simplex` maintains: the vertex list of `_subtriangulations[simplex]` starts
as `tri.get_vertices(simplex)` — the owner's corners, accepted trivially (`pis_corner_dim2`) — and a point is appended
(`subtri.add_point(point)`) only after `self.tri.point_in_simplex(point, simplex)` returned `True`
(model: `tryAdd` is guarded by `env.pis p (ptsOf vs sx)`). -/
def SubVertsInOwner (env : Env β) : Prop :=
  ∀ sv, ∀ ss ∈ env.subSimps sv, ∀ p ∈ ptsOf sv ss, env.pis p (sv.take (env.dim + 1)) = true

/-- the half of `SubVertsInOwner` that is not trivial: the points put into a sub-triangulation AFTER the corners were
accepted for the owner -/
def PendingInOwner (env : Env β) : Prop :=
  ∀ sv, env.subSimps sv ≠ [] → ∀ p ∈ sv.drop (env.dim + 1), env.pis p (sv.take (env.dim + 1)) = true

/-- the corners of a triangle are accepted for it (`eps' ≥ 0`; barycentric coordinates `(1,0,0)`, `(0,1,0)`, `(0,0,1)`) -/
theorem pis_corner_dim2 (env : Env β) (coord : Pt → P2 α) (eps' : α) (he : 0 ≤ eps')
    (hpis : ∀ q a b c, env.pis q [a, b, c] = point_in_simplex2 (coord q).1 (coord q).2 (coord a).1 (coord a).2
      (coord b).1 (coord b).2 (coord c).1 (coord c).2 eps')
    (a b c p : Pt) (hp : p ∈ [a, b, c]) : env.pis p [a, b, c] = true := by
  simp only [List.mem_cons, List.not_mem_nil, or_false] at hp
  rw [hpis]
  rcases hp with rfl | rfl | rfl
  · exact pis2_corner0 _ _ _ _ _ _ eps' he
  · exact pis2_corner1 _ _ _ _ _ _ eps' he
  · exact pis2_corner2 _ _ _ _ _ _ eps' he

/-- `SubVertsInOwner` from `PendingInOwner`: the corners are accepted, the other vertices were accepted when they were
put in (local indices of sub-simplices in range: `SubIdxGeom.subIdx`; at least `dim+1 = 3` vertices) -/
theorem subVertsInOwner_of_pending (env : Env β) (coord : Pt → P2 α) (eps' : α) (he : 0 ≤ eps') (hdim : env.dim = 2)
    (hpis : ∀ q a b c, env.pis q [a, b, c] = point_in_simplex2 (coord q).1 (coord q).2 (coord a).1 (coord a).2
      (coord b).1 (coord b).2 (coord c).1 (coord c).2 eps')
    (hidx : ∀ sv, ∀ ss ∈ env.subSimps sv, ∀ i ∈ ss, i < sv.length)
    (hlen : ∀ sv, env.subSimps sv ≠ [] → 3 ≤ sv.length)
    (hP : PendingInOwner env) : SubVertsInOwner env := by
  intro sv ss hss p hp
  have hne : env.subSimps sv ≠ [] := List.ne_nil_of_mem hss
  simp only [ptsOf, List.mem_map] at hp
  obtain ⟨i, hi, rfl⟩ := hp
  have hil := hidx sv ss hss i hi
  have hmem : sv.getD i 0 ∈ sv := by
    rw [List.getD_eq_getElem?_getD, List.getElem?_eq_getElem hil, Option.getD_some]; exact List.getElem_mem hil
  generalize sv.getD i 0 = p at hmem ⊢
  rw [← List.take_append_drop (env.dim + 1) sv] at hmem
  rcases List.mem_append.1 hmem with h | h
  · have h3 := hlen sv hne
    rw [hdim] at h ⊢
    rcases sv with _ | ⟨o0, _ | ⟨o1, _ | ⟨o2, rest⟩⟩⟩
    · simp at h3
    · simp at h3
    · simp at h3
    · exact pis_corner_dim2 env coord eps' he hpis o0 o1 o2 _ h
  · exact hP sv hne _ h

/-- (3) `chooseGeom_inOwner_dim2`: the clause `ChooseGeom.inOwner` DERIVED for dimension 2.  For an `Env` computed from
coordinates (as in `chooseGeom_inSimplex_dim2`): if every vertex of the sub-simplex `ss` (a triangle) of the
sub-triangulation with vertex list `sv` (at least 3 vertices; the first 3 are the owner's corners) is accepted for the
owner, then the point chosen in `ss` is accepted for the owner.  Any tolerances, no non-degeneracy. -/
theorem chooseGeom_inOwner_dim2 (env : Env β) (coord : Pt → P2 α) (sqrt : α → α) (hs : SqrtLaw sqrt)
    (eps eps' : α) (t : Option (P2 α)) (ht : ∀ t0 t1, t = some (t0, t1) → t0 ≠ 0 ∧ t1 ≠ 0) (hdim : env.dim = 2)
    (hchoose : ∀ a b c, coord (env.choose [a, b, c]) = choosePoint2 sqrt eps (coord a) (coord b) (coord c) t)
    (hpis : ∀ q a b c, env.pis q [a, b, c] = point_in_simplex2 (coord q).1 (coord q).2 (coord a).1 (coord a).2
      (coord b).1 (coord b).2 (coord c).1 (coord c).2 eps')
    (sv : List Pt) (hlen : 3 ≤ sv.length) (ss : Simplex) (hss3 : ss.length = 3)
    (hin : ∀ p ∈ ptsOf sv ss, env.pis p (sv.take (env.dim + 1)) = true) :
    env.pis (env.choose (ptsOf sv ss)) (sv.take (env.dim + 1)) = true := by
  rw [hdim] at hin ⊢
  rcases sv with _ | ⟨o0, _ | ⟨o1, _ | ⟨o2, rest⟩⟩⟩
  · simp at hlen
  · simp at hlen
  · simp at hlen
  rcases ss with _ | ⟨i, _ | ⟨j, _ | ⟨k, _ | ⟨m, ss⟩⟩⟩⟩
  · simp at hss3
  · simp at hss3
  · simp at hss3
  · have e : List.take (2 + 1) (o0 :: o1 :: o2 :: rest) = [o0, o1, o2] := rfl
    rw [e] at hin ⊢
    simp only [ptsOf, List.map_cons, List.map_nil, List.mem_cons, List.not_mem_nil, or_false, forall_eq_or_imp,
      forall_eq] at hin ⊢
    obtain ⟨h0, h1, h2⟩ := hin
    rw [hpis] at h0 h1 h2 ⊢
    rw [hchoose]
    exact choose2_in_owner sqrt hs eps _ _ _ t ht _ _ _ eps' h0 h1 h2
  · simp at hss3

/-- `chooseGeom_inSimplex_dim2` (C04.choose.d) without the non-degeneracy guard (see `Choose.choose2_in_own_triangle`
for what that means for a degenerate triangle) -/
theorem chooseGeom_inSimplex_dim2' (env : Env β) (coord : Pt → P2 α) (sqrt : α → α) (hs : SqrtLaw sqrt)
    (eps eps' : α) (he : 0 ≤ eps') (t : Option (P2 α)) (ht : ∀ t0 t1, t = some (t0, t1) → t0 ≠ 0 ∧ t1 ≠ 0)
    (hchoose : ∀ a b c, coord (env.choose [a, b, c]) = choosePoint2 sqrt eps (coord a) (coord b) (coord c) t)
    (hpis : ∀ q a b c, env.pis q [a, b, c] = point_in_simplex2 (coord q).1 (coord q).2 (coord a).1 (coord a).2
      (coord b).1 (coord b).2 (coord c).1 (coord c).2 eps')
    (a b c : Pt) : env.pis (env.choose [a, b, c]) [a, b, c] = true := by
  rw [hpis, hchoose]
  exact choose2_in_own_triangle sqrt hs eps _ _ _ t ht eps' he

/-- (4) `chooseGeom_inside_rect_dim2`: the clause `ChooseGeom.inside` for a RECTANGULAR domain, per triangle: if
`inside_bounds` is the rectangular test on the coordinates and the three vertices pass it, the chosen point passes it. -/
theorem chooseGeom_inside_rect_dim2 (env : Env β) (coord : Pt → P2 α) (sqrt : α → α) (hs : SqrtLaw sqrt)
    (eps : α) (t : Option (P2 α)) (ht : ∀ t0 t1, t = some (t0, t1) → t0 ≠ 0 ∧ t1 ≠ 0) (a0 b0 a1 b1 epsb : α)
    (hchoose : ∀ a b c, coord (env.choose [a, b, c]) = choosePoint2 sqrt eps (coord a) (coord b) (coord c) t)
    (hinside : ∀ q, env.inside q = insideRect a0 b0 a1 b1 epsb (coord q))
    (a b c : Pt) (ha : env.inside a = true) (hb : env.inside b = true) (hc : env.inside c = true) :
    env.inside (env.choose [a, b, c]) = true := by
  rw [hinside] at ha hb hc ⊢
  rw [hchoose]
  exact choose2_in_box sqrt hs eps _ _ _ t ht a0 b0 a1 b1 epsb ha hb hc

/-- an `Env` whose oracles `choose` / `pis` / `inside` compute, in dimension 2, `choose_point_in_simplex` (transform
`t`, tolerance `eps`), `point_in_simplex` (tolerance `eps'`) and the rectangular `inside_bounds` (box
`[a0, b0] × [a1, b1]`, absolute tolerance `epsb`) from the coordinates `coord` of the points — the phrasing of
`chooseGeom_inSimplex_dim2` — plus, for the lists that are not triangles (never passed in dimension 2: `SubGeom.size`),
the harmless default `pisDefault`. -/
structure CoordEnv2 (env : Env β) (coord : Pt → P2 α) (sqrt : α → α) (eps eps' epsb : α) (t : Option (P2 α))
    (a0 b0 a1 b1 : α) : Prop where
  hdim : env.dim = 2
  hsqrt : SqrtLaw sqrt
  heps' : 0 ≤ eps'
  ht : ∀ t0 t1, t = some (t0, t1) → t0 ≠ 0 ∧ t1 ≠ 0
  hchoose : ∀ a b c, coord (env.choose [a, b, c]) = choosePoint2 sqrt eps (coord a) (coord b) (coord c) t
  hpis : ∀ q a b c, env.pis q [a, b, c] = point_in_simplex2 (coord q).1 (coord q).2 (coord a).1 (coord a).2
      (coord b).1 (coord b).2 (coord c).1 (coord c).2 eps'
  hinside : ∀ q, env.inside q = insideRect a0 b0 a1 b1 epsb (coord q)

/-- the combinatorial facts about sub-triangulations in dimension 2 that the derivation uses (all C03-type facts:
sub-simplices are triangles, a sub-triangulation that has a simplex has at least 3 vertices) -/
structure SubTri2 (env : Env β) : Prop where
  subSize : ∀ sv, ∀ ss ∈ env.subSimps sv, ss.length = 3
  subLen : ∀ sv, env.subSimps sv ≠ [] → 3 ≤ sv.length

/-- `ChooseGeom.inside` quantifies over ALL point lists, so — for a coordinate-computed environment — it FORCES every
point id to denote a point of the domain: `choose_point_in_simplex([p, p, p]) = p`. -/
theorem inside_all_of_chooseGeom (env : Env β) (coord : Pt → P2 α) (sqrt : α → α) (eps eps' epsb : α)
    (t : Option (P2 α)) (a0 b0 a1 b1 : α) (hE : CoordEnv2 env coord sqrt eps eps' epsb t a0 b0 a1 b1)
    (hC : ChooseGeom env) : ∀ p, env.inside p = true := by
  intro p
  have h := hC.inside [p, p, p]
  rw [hE.hinside, hE.hchoose] at h
  obtain ⟨l, hl, e⟩ := choose2_weights sqrt hE.hsqrt eps (coord p) (coord p) (coord p) t hE.ht
  obtain ⟨_, _, _, d⟩ := hl.nonneg_sum
  have e2 : comb l (coord p) (coord p) (coord p) = coord p := by
    simp only [comb]
    refine Prod.ext ?_ ?_ <;> simp only <;> rw [← add_mul, ← add_mul, d, one_mul]
  rw [e, e2] at h
  rw [hE.hinside]; exact h

/-- (5) `chooseGeom_dim2_of_coords`: `ChooseGeom env` for a coordinate-computed 2-D environment over a rectangular
domain, from the two COMBINATORIAL hypotheses (`split`, `nodup`), the combinatorial shape of the sub-triangulations
(`SubTri2`), the sub-vertex invariant (`SubVertsInOwner`) and — because the fields `inside` / `inSimplex` of
`ChooseGeom` quantify over ALL point lists — that every point id denotes a point of the domain (`hdom`; NECESSARY:
`inside_all_of_chooseGeom`) and the default `hpisD` for lists that are not triangles.  No non-degeneracy hypothesis is
needed (remark at `Choose.choose2_in_own_triangle`).  `ChooseGeomDom` below is the version without `hdom` / `hpisD`. -/
theorem chooseGeom_dim2_of_coords (env : Env β) (coord : Pt → P2 α) (sqrt : α → α) (eps eps' epsb : α)
    (t : Option (P2 α)) (a0 b0 a1 b1 : α) (hE : CoordEnv2 env coord sqrt eps eps' epsb t a0 b0 a1 b1)
    (hS : SubTri2 env) (hV : SubVertsInOwner env)
    (hdom : ∀ p, env.inside p = true)
    (hpisD : ∀ q pts, pts.length ≠ 3 → env.pis q pts = true)
    (hsplit : ∀ sv, ∀ ss ∈ env.subSimps sv, ∀ D A, env.subAdd sv (env.choose (ptsOf sv ss)) = some (D, A) →
      ss ∉ env.subSimps (sv ++ [env.choose (ptsOf sv ss)]))
    (hnodup : ∀ n, (env.triSimps n).Nodup) : ChooseGeom env where
  inside := fun pts => hdom _
  inSimplex := by
    intro pts
    by_cases h3 : pts.length = 3
    · rcases pts with _ | ⟨a, _ | ⟨b, _ | ⟨c, _ | ⟨d, pts⟩⟩⟩⟩
      · simp at h3
      · simp at h3
      · simp at h3
      · exact chooseGeom_inSimplex_dim2' env coord sqrt hE.hsqrt eps eps' hE.heps' t hE.ht hE.hchoose hE.hpis a b c
      · simp at h3
    · exact hpisD _ _ h3
  inOwner := fun sv ss hss =>
    chooseGeom_inOwner_dim2 env coord sqrt hE.hsqrt eps eps' t hE.ht hE.hdim hE.hchoose hE.hpis sv
      (hS.subLen sv (List.ne_nil_of_mem hss)) ss (hS.subSize sv ss hss) (hV sv ss hss)
  split := hsplit
  nodup := hnodup

end coords
end LND

/-! ## `ChooseGeomDom`: `ChooseGeom` restricted to what `_ask_best_point` really asks

`ChooseGeom.inside` / `.inSimplex` quantify over ALL point lists; for an environment computed from coordinates that
forces every point id into the domain (`inside_all_of_chooseGeom`) and says something about lists that are no simplices.
`ChooseGeomDom` restricts the geometric fields to simplices (`dim+1` points) with vertices in the domain and to
sub-triangulations with at least `dim+1` vertices; the queue theorems of C04 hold with it, given additionally that the
vertices of the (sub)simplex `_ask_best_point` pops are points of the domain (`ChosenInDomainAt`, along a history:
`AskDom`; checkable on a run like `AskNew`, and true of the real code: vertices of the triangulation passed
`inside_bounds` in `tell`, pending points passed it in `tell_pending`). -/
namespace LND
section dom
variable {α : Type} [Sub α] [Mul α] [Div α] [LT α] [DecidableLT α]

structure ChooseGeomDom (env : Env α) : Prop where
  /-- the point chosen in a simplex with vertices in the domain lies in the domain -/
  inside : ∀ pts, pts.length = env.dim + 1 → (∀ p ∈ pts, env.inside p = true) → env.inside (env.choose pts) = true
  /-- `point_in_simplex` accepts the point chosen in a simplex for that simplex -/
  inSimplex : ∀ pts, pts.length = env.dim + 1 → env.pis (env.choose pts) pts = true
  /-- … and, chosen in a simplex of a sub-triangulation, for the owner -/
  inOwner : ∀ sv, env.dim + 1 ≤ sv.length → ∀ ss ∈ env.subSimps sv,
    env.pis (env.choose (ptsOf sv ss)) (sv.take (env.dim + 1)) = true
  /-- simplices of sub-triangulations have `dim+1` vertices -/
  subSize : ∀ sv, ∀ ss ∈ env.subSimps sv, ss.length = env.dim + 1
  split : ∀ sv, ∀ ss ∈ env.subSimps sv, ∀ D A, env.subAdd sv (env.choose (ptsOf sv ss)) = some (D, A) →
    ss ∉ env.subSimps (sv ++ [env.choose (ptsOf sv ss)])
  nodup : ∀ n, (env.triSimps n).Nodup

/-- `ChooseGeom` (with the size of sub-simplices) is the stronger hypothesis -/
theorem ChooseGeom.toDom {env : Env α} (hC : ChooseGeom env)
    (hsz : ∀ sv, ∀ ss ∈ env.subSimps sv, ss.length = env.dim + 1) : ChooseGeomDom env :=
  ⟨fun pts _ _ => hC.inside pts, fun pts _ => hC.inSimplex pts, fun sv _ => hC.inOwner sv, hsz, hC.split, hC.nodup⟩

/-- the vertices of the (sub)simplex `_ask_best_point` pops in state `t` are points of the domain -/
def ChosenInDomainAt (env : Env α) (t : State α) : Prop :=
  ∀ vs e q, t.tri = some vs →
    popHighest env (env.triSimps vs.length) t.book.subs t.book.queue = some (e, q) →
    ∀ p ∈ chosenPts vs t.book.subs e, env.inside p = true

/-- `ChosenInDomainAt`, executable -/
def chosenInDomainB (env : Env α) (t : State α) : Bool :=
  match t.tri with
  | none => true
  | some vs =>
    match popHighest env (env.triSimps vs.length) t.book.subs t.book.queue with
    | none => true
    | some (e, _) => (chosenPts vs t.book.subs e).all env.inside

theorem chosenInDomainB_sound (env : Env α) (t : State α) (h : chosenInDomainB env t = true) :
    ChosenInDomainAt env t := by
  intro vs e q ht hp p hpm
  unfold chosenInDomainB at h
  rw [ht] at h
  simp only [hp, List.all_eq_true] at h
  exact h p hpm

/-- what `_ask_best_point` needs of the state it starts from: the chosen point has no value (`ChooseNewAt`) and the
vertices of the popped (sub)simplex are points of the domain -/
def AskOkAt (env : Env α) (t : State α) : Prop := ChooseNewAt env t ∧ ChosenInDomainAt env t

/-- `AskOkAt` in every state from which a committing `ask` of the history calls `_ask_best_point` -/
def AskDom (env : Env α) (ops : List (Op α)) : Prop := AlongRun env (AskOkAt env) (init env) ops

theorem askDom_of_check (env : Env α) (ops : List (Op α))
    (h : alongRunB env (fun t => chooseNewB env t && chosenInDomainB env t) (init env) ops = true) : AskDom env ops :=
  alongRunB_sound env (fun t ht => by
    simp only [Bool.and_eq_true] at ht
    exact ⟨chooseNewB_sound env t ht.1, chosenInDomainB_sound env t ht.2⟩) ops _ h

theorem Along.mono' (env : Env α) {C C' : State α → Prop} (hC : ∀ t, C t → C' t) (n : Nat) :
    ∀ s, Along env C n s → Along env C' n s := by
  induction n with
  | zero => intro s _; trivial
  | succ n ih => intro s h; exact ⟨fun hm t ht => hC t (h.1 hm t ht), fun r s1 h1 => ih s1 (h.2 r s1 h1)⟩

theorem AlongRun.mono' (env : Env α) {C C' : State α → Prop} (hC : ∀ t, C t → C' t) (ops : List (Op α)) :
    ∀ s, AlongRun env C s ops → AlongRun env C' s ops := by
  induction ops with
  | nil => intro s _; trivial
  | cons op ops ih =>
    intro s h
    refine ⟨?_, fun s1 h1 => ih s1 (h.2 s1 h1)⟩
    have h1 := h.1
    cases op with
    | ask n c =>
      cases c with
      | false => trivial
      | true => exact Along.mono' env hC n s h1
    | _ => trivial

/-- `AskDom` is `AskNew` plus the domain condition … -/
theorem AskDom.askNew {env : Env α} {ops : List (Op α)} (h : AskDom env ops) : AskNew env ops :=
  AlongRun.mono' env (fun _ ht => ht.1) ops _ h

/-- … which is void when every point id denotes a point of the domain (the setting of the literal `ChooseGeom`) -/
theorem askDom_of_askNew {env : Env α} {ops : List (Op α)} (hdom : ∀ p, env.inside p = true) (h : AskNew env ops) :
    AskDom env ops :=
  AlongRun.mono' env (fun _ ht => ⟨ht, fun _ _ _ _ _ p _ => hdom p⟩) ops _ h

/-- `chosen_dead` with `ChooseGeomDom` -/
theorem chosen_dead_dom (env : Env α) (hG : SubGeom env) (hC : ChooseGeomDom env) {s s2 : State α} {vs : List Pt}
    (ht : s.tri = some vs) (hv : SubVerts env s) {e : QE α} {q : List (QE α)} {p2s' : List (Pt × Simplex)}
    (hp : popHighest env (env.triSimps vs.length) s.book.subs s.book.queue = some (e, q))
    (hnew : env.choose (chosenPts vs s.book.subs e) ∉ s.data)
    (hdom : ∀ p ∈ chosenPts vs s.book.subs e, env.inside p = true)
    (h2 : tellPending env { s with book := { s.book with queue := q, p2s := p2s' } }
      (env.choose (chosenPts vs s.book.subs e)) (some e.simplex) = .ok s2) :
    live env (simplices env s2.tri) s2.book.subs e = false := by
  obtain ⟨_, _, hlive, _⟩ := popHighest_spec env _ _ hp
  rw [live_iff] at hlive
  obtain ⟨hmem, hls⟩ := hlive
  have hlen : e.simplex.length = env.dim + 1 := hG.size _ _ hmem
  have hne : e.simplex ≠ [] := by
    intro c; rw [c] at hlen; simp at hlen
  have hcl : (chosenPts vs s.book.subs e).length = env.dim + 1 := by
    cases ho : e.sub with
    | none => simp only [chosenPts, ho, ptsOf_length]; exact hlen
    | some ss =>
      simp only [pairOf, ho, liveSub] at hls
      obtain ⟨sv, hsv, hss⟩ := hls
      simp only [chosenPts, ho, hsv, Option.getD_some, ptsOf_length]
      exact hC.subSize sv ss hss
  obtain ⟨b, hloop, t2, hb⟩ :=
    tellPending_hint env (s := { s with book := { s.book with queue := q, p2s := p2s' } })
      (env.choose (chosenPts vs s.book.subs e)) e.simplex ht hnew (hC.inside _ hcl hdom) hne h2
  have hnb : e.simplex ∈ neighborsOf (env.triSimps vs.length) e.simplex := mem_neighborsOf_self hmem hne
  have hnd : (neighborsOf (env.triSimps vs.length) e.simplex).Nodup := (hC.nodup _).filter _
  rw [t2, hb]
  simp only [simplices]
  cases ho : e.sub with
  | none =>
    have hpis : env.pis (env.choose (chosenPts vs s.book.subs e)) (ptsOf vs e.simplex) = true := by
      simp only [chosenPts, ho]; exact hC.inSimplex _ (by rw [ptsOf_length]; exact hlen)
    obtain ⟨D, A, _, hget⟩ := pendLoop_hit env vs _ _ _ hnd hloop e.simplex hnb hpis
    simp [live, ho, hget]
  | some ss =>
    simp only [pairOf, ho, liveSub] at hls
    obtain ⟨sv, hsv, hss⟩ := hls
    obtain ⟨_, pend, hform⟩ := hv.2 vs ht e.simplex sv hsv
    have hcp : chosenPts vs s.book.subs e = ptsOf sv ss := by
      simp only [chosenPts, ho, hsv, Option.getD_some]
    have htake : sv.take (env.dim + 1) = ptsOf vs e.simplex := by
      rw [hform]
      exact List.take_left' (by rw [ptsOf_length]; exact hlen)
    have hsvl : env.dim + 1 ≤ sv.length := by
      rw [hform, List.length_append, ptsOf_length, hlen]; omega
    have hpis : env.pis (env.choose (chosenPts vs s.book.subs e)) (ptsOf vs e.simplex) = true := by
      rw [hcp, ← htake]; exact hC.inOwner sv hsvl ss hss
    obtain ⟨D, A, hadd, hget⟩ := pendLoop_hit env vs _ _ _ hnd hloop e.simplex hnb hpis
    have hsv' : get? e.simplex
        ({ s with book := { s.book with queue := q, p2s := p2s' } } : State α).book.subs = some sv := hsv
    rw [hsv', Option.getD_some, hcp] at hadd hget
    have hsplit := hC.split sv ss hss D A hadd
    simp [live, ho, hget, hsplit]

theorem askBest_cover_dom (env : Env α) (hG : SubGeom env) (hC : ChooseGeomDom env) {s s' : State α} {vs : List Pt}
    {r : Pt × α} (hN : AskOkAt env s) (ht : s.tri = some vs) (hv : SubVerts env s) (hc : Cover env s)
    (h : askBest env s vs = .ok (r, s')) : Cover env s' := by
  obtain ⟨e, q, s2, hp, _, h2, rfl⟩ := askBest_form env h
  have hr1 : r.1 = env.choose (chosenPts vs s.book.subs e) := askBest_point env hp h
  have hq0 : QCov env (env.triSimps vs.length) s.losses
      { s.book with queue := q, p2s := put r.1 e.simplex s.book.p2s } (some (pairOf e)) := by
    intro pr hpr hl hne
    have hne' : pr ≠ pairOf e := fun c => hne (by rw [c])
    have hcov := hc pr.1 (by simp only [ht, simplices]; exact hpr) pr.2 hl
    exact CovP_of_pop env hp pr hpr hl hne' hcov
  obtain ⟨t2, l2, _, hq2⟩ :=
    tellPending_cov_exc env hG (s := { s with book := { s.book with queue := q, p2s := put r.1 e.simplex s.book.p2s } })
      r.1 (some e.simplex) (some (pairOf e)) ht hq0 h2
  have hdead : live env (simplices env s2.tri) s2.book.subs e = false := by
    rw [hr1] at h2
    exact chosen_dead_dom env hG hC ht hv hp (hN.1 vs e q ht hp) (hN.2 vs e q ht hp) h2
  intro x hx o hl
  simp only [t2, simplices] at hx hdead
  have hne : some (x, o) ≠ some (pairOf e) := by
    intro c
    simp only [Option.some.injEq] at c
    have hlive : live env (env.triSimps vs.length) s2.book.subs e = true := by
      have c1 : e.simplex = x := by
        have := congrArg Prod.fst c; simp only [pairOf] at this; exact this.symm
      rw [live_iff, ← c, c1]; exact ⟨hx, hl⟩
    rw [hlive] at hdead; exact absurd hdead (by simp)
  exact hq2 (x, o) hx hl hne

theorem qfull_preserved_dom (env : Env α) (hT : TriGeom env) (hG : SubGeom env) (hC : ChooseGeomDom env) :
    PreservedIf env (AskOkAt env) (QFull env) where
  hTouch := fun hi h =>
    ⟨touchTri_keys env hi.1 h, touchTri_subVerts env hi.2.1 h, (touchTri_cover env hi.2.2 h).1⟩
  hPend := fun p hint hi h =>
    ⟨tellPending_keys env p hint hi.1 h, tellPending_subVerts env p hint hi.2.1 h,
      (tellPending_cover env hG p hint hi.2.2 h).1⟩
  hTell := fun p a b hi h =>
    ⟨tell_keys env hT.report p a b hi.1 h, tell_subVerts env hT p a b hi.2.1 h,
      (tell_cover env hT.report p a b hi.2.2 h).1⟩
  hBest := fun hN hi ht h =>
    ⟨askBest_keys env hi.1 h, askBest_subVerts env hi.2.1 h, askBest_cover_dom env hG hC hN ht hi.2.1 hi.2.2 h⟩
  hRemove := fun {s} hi =>
    ⟨hi.1, (subVerts_preserved env hT).hRemove hi.2.1, removeUnfinished_cover env s hi.1⟩
  hRand := fun hi => ⟨hi.1, ⟨hi.2.1.1, hi.2.1.2⟩, hi.2.2⟩

theorem run_cover_dom (env : Env α) (hT : TriGeom env) (hG : SubGeom env) (hC : ChooseGeomDom env) (ops : List (Op α))
    (hN : AskDom env ops) {s : State α} (h : run env (init env) ops = .ok s) : Cover env s :=
  (run_invIf env (qfull_preserved_dom env hT hG hC) ops hN (init_qfull env) h).2.2

theorem askBest_geomOK_dom (env : Env α) (hG : SubGeom env) (hC : ChooseGeomDom env) {s s' : State α} {vs : List Pt}
    {r : Pt × α} (hN : AskOkAt env s) (ht : s.tri = some vs) (hv : SubVerts env s)
    (h : askBest env s vs = .ok (r, s')) :
    s'.book.geomOK = s.book.geomOK := by
  obtain ⟨e, q, s2, hp, _, h2, rfl⟩ := askBest_form env h
  have hr1 : r.1 = env.choose (chosenPts vs s.book.subs e) := askBest_point env hp h
  have g2 : s2.book.geomOK = s.book.geomOK :=
    tellPending_geom env (s := { s with book := { s.book with queue := q, p2s := put r.1 e.simplex s.book.p2s } })
      _ _ h2
  have hdead : live env (simplices env s2.tri) s2.book.subs e = false := by
    rw [hr1] at h2
    exact chosen_dead_dom env hG hC ht hv hp (hN.1 vs e q ht hp) (hN.2 vs e q ht hp) h2
  show (s2.book.geomOK && !(live env (simplices env s2.tri) s2.book.subs e)) = s.book.geomOK
  rw [hdead, g2]; simp

theorem qfullG_preserved_dom (env : Env α) (hT : TriGeom env) (hG : SubGeom env) (hC : ChooseGeomDom env) :
    PreservedIf env (AskOkAt env) (QFullG env) where
  hTouch := fun hi h =>
    ⟨(qfull_preserved_dom env hT hG hC).hTouch hi.1 h, (touchTri_geom env h).trans hi.2⟩
  hPend := fun p hint hi h =>
    ⟨(qfull_preserved_dom env hT hG hC).hPend p hint hi.1 h, (tellPending_geom env p hint h).trans hi.2⟩
  hTell := fun p a b hi h =>
    ⟨(qfull_preserved_dom env hT hG hC).hTell p a b hi.1 h, (tell_cover env hT.report p a b hi.1.2.2 h).2.trans hi.2⟩
  hBest := fun hN hi ht h =>
    ⟨(qfull_preserved_dom env hT hG hC).hBest hN hi.1 ht h, (askBest_geomOK_dom env hG hC hN ht hi.1.2.1 h).trans hi.2⟩
  hRemove := fun hi => ⟨(qfull_preserved_dom env hT hG hC).hRemove hi.1, hi.2⟩
  hRand := fun hi => ⟨(qfull_preserved_dom env hT hG hC).hRand hi.1, hi.2⟩

theorem run_geomOK_dom (env : Env α) (hT : TriGeom env) (hG : SubGeom env) (hC : ChooseGeomDom env) (ops : List (Op α))
    (hN : AskDom env ops) {s : State α} (h : run env (init env) ops = .ok s) : s.book.geomOK = true :=
  (run_invIf env (qfullG_preserved_dom env hT hG hC) ops hN ⟨init_qfull env, rfl⟩ h).2

end dom

section coordsDom
open Choose Gen.Prims Prims
variable {α : Type} [Field α] [LinearOrder α] [IsStrictOrderedRing α] {β : Type}

/-- (5') `chooseGeomDom_dim2_of_coords`: for a coordinate-computed 2-D environment over a rectangular domain
(`CoordEnv2`), `ChooseGeomDom env` follows from the COMBINATORIAL hypotheses (`split`, `nodup`, sub-simplices are
triangles) and the sub-vertex invariant (`SubVertsInOwner`).  All three geometric fields are DERIVED from the modelled
functions; no hypothesis on the point ids, on lists that are no triangles, or of non-degeneracy. -/
theorem chooseGeomDom_dim2_of_coords (env : Env β) (coord : Pt → P2 α) (sqrt : α → α) (eps eps' epsb : α)
    (t : Option (P2 α)) (a0 b0 a1 b1 : α) (hE : CoordEnv2 env coord sqrt eps eps' epsb t a0 b0 a1 b1)
    (hsize : ∀ sv, ∀ ss ∈ env.subSimps sv, ss.length = 3) (hV : SubVertsInOwner env)
    (hsplit : ∀ sv, ∀ ss ∈ env.subSimps sv, ∀ D A, env.subAdd sv (env.choose (ptsOf sv ss)) = some (D, A) →
      ss ∉ env.subSimps (sv ++ [env.choose (ptsOf sv ss)]))
    (hnodup : ∀ n, (env.triSimps n).Nodup) : ChooseGeomDom env where
  inside := by
    intro pts h3 hin
    rw [hE.hdim] at h3
    rcases pts with _ | ⟨a, _ | ⟨b, _ | ⟨c, _ | ⟨d, pts⟩⟩⟩⟩
    · simp at h3
    · simp at h3
    · simp at h3
    · exact chooseGeom_inside_rect_dim2 env coord sqrt hE.hsqrt eps t hE.ht a0 b0 a1 b1 epsb hE.hchoose hE.hinside a b c
        (hin a (by simp)) (hin b (by simp)) (hin c (by simp))
    · simp at h3
  inSimplex := by
    intro pts h3
    rw [hE.hdim] at h3
    rcases pts with _ | ⟨a, _ | ⟨b, _ | ⟨c, _ | ⟨d, pts⟩⟩⟩⟩
    · simp at h3
    · simp at h3
    · simp at h3
    · exact chooseGeom_inSimplex_dim2' env coord sqrt hE.hsqrt eps eps' hE.heps' t hE.ht hE.hchoose hE.hpis a b c
    · simp at h3
  inOwner := fun sv hlen ss hss =>
    chooseGeom_inOwner_dim2 env coord sqrt hE.hsqrt eps eps' t hE.ht hE.hdim hE.hchoose hE.hpis sv
      (by rw [hE.hdim] at hlen; exact hlen) ss (hsize sv ss hss) (hV sv ss hss)
  subSize := fun sv ss hss => by rw [hE.hdim]; exact hsize sv ss hss
  split := hsplit
  nodup := hnodup

end coordsDom
end LND

/-! ## non-vacuity

(6) concrete triangles over `ℚ` (both branches of the choice), and (`Wit`) an environment over `ℝ` computed from
coordinates that satisfies `CoordEnv2`, `SubVertsInOwner` and the combinatorial hypotheses: its point ids enumerate the
RATIONAL points of the plane (the chosen point of a rational triangle is rational: centroid or midpoint), `choose` /
`pis` / `inside` are the modelled functions with `Real.sqrt`, the box is the unit square, and every vertex list with at
least 3 points carries the sub-triangulation consisting of its first three points. -/
section examples
open Choose Gen.Prims Prims

/-- owner `(0,0) (4,0) (0,4)`, acute sub-triangle `(0,0) (2,0) (1,2)` inside it: vertices accepted (tolerance `0`), the
chosen point is the centroid `(1, 2/3)`, accepted by the owner -/
example : point_in_simplex2 (0 : ℚ) 0 0 0 4 0 0 4 0 = true ∧ point_in_simplex2 (2 : ℚ) 0 0 0 4 0 0 4 0 = true ∧
    point_in_simplex2 (1 : ℚ) 2 0 0 4 0 0 4 0 = true ∧
    choosePoint2 id (1 / 100000000) ((0 : ℚ), 0) (2, 0) (1, 2) none = (1, 2 / 3) ∧
    point_in_simplex2 (1 : ℚ) (2 / 3) 0 0 4 0 0 4 0 = true := by
  refine ⟨?_, ?_, ?_, ?_, ?_⟩ <;>
  norm_num [choosePoint2, undoT, applyT, chooseCore, centerInside, circumsphere2, point_in_simplex2, centroid]

/-- owner `(-4,0) (4,0) (0,4)`, obtuse sub-triangle `(-4,0) (4,0) (0,3)`: edge branch, the chosen point `(0,0)` is the
midpoint of the long edge — ON the owner's boundary (`s = 1/2`, `t = 0`), accepted with tolerance `0` (the 2-D test is
non-strict) -/
example : point_in_simplex2 (-4 : ℚ) 0 (-4) 0 4 0 0 4 0 = true ∧ point_in_simplex2 (4 : ℚ) 0 (-4) 0 4 0 0 4 0 = true ∧
    point_in_simplex2 (0 : ℚ) 3 (-4) 0 4 0 0 4 0 = true ∧
    choosePoint2 sqT (1 / 100000000) ((-4 : ℚ), 0) (4, 0) (0, 3) none = (0, 0) ∧
    point_in_simplex2 (0 : ℚ) 0 (-4) 0 4 0 0 4 0 = true := by
  refine ⟨?_, ?_, ?_, ?_, ?_⟩ <;>
  norm_num [choosePoint2, undoT, applyT, chooseCore, centerInside, circumsphere2, point_in_simplex2, centroid,
    longestEdgeMid, distMatrix, pdist2, sqT, argmax, argmaxFrom, vtx]

/-- the rectangular `inside_bounds`: the tolerance is absolute and the bound is non-strict -/
example : insideRect (-4 : ℚ) 4 0 4 (1 / 100000000) (0, 0) = true ∧
    insideRect (-4 : ℚ) 4 0 4 (1 / 100000000) (4 + 1 / 100000000, 0) = true ∧
    insideRect (-4 : ℚ) 4 0 4 (1 / 100000000) (4 + 2 / 100000000, 0) = false := by
  refine ⟨?_, ?_, ?_⟩ <;> simp only [insideRect] <;> norm_num

/-- a DEGENERATE triangle accepts every point in the field model (`s = t = x / 0 = 0`) — which is why `pis2_convex`,
`pis2_corner*`, `choose2_in_own_triangle` need no non-degeneracy guard; IEEE arithmetic gives `nan` and rejects -/
example : point_in_simplex2 (100 : ℚ) (-7) 0 0 1 0 3 0 0 = true := by
  norm_num [point_in_simplex2]

/-- a corner is NOT accepted for a negative tolerance: the guard `0 ≤ eps` of `pis2_corner*` is needed -/
example : point_in_simplex2 (0 : ℚ) 0 0 0 4 0 0 4 (-1 / 10) = false := by
  norm_num [point_in_simplex2]

/-- `choose2_in_owner` at `ℝ` with `Real.sqrt`, LearnerND's kind of transform and the code's tolerance -/
example (t0 t1 : ℝ) (h0 : 0 < t0) (h1 : 0 < t1) :
    point_in_simplex2 (choosePoint2 Real.sqrt (1 / 100000000) (0, 0) (2, 0) (1, 2) (some (t0, t1))).1
      (choosePoint2 Real.sqrt (1 / 100000000) (0, 0) (2, 0) (1, 2) (some (t0, t1))).2 0 0 4 0 0 4 (1 / 100000000) = true :=
  choose2_in_owner Real.sqrt C20.real_sqrt_law _ (0, 0) (2, 0) (1, 2) _
    (by intro a b e; cases e; exact ⟨h0.ne', h1.ne'⟩) (0, 0) (4, 0) (0, 4) _
    (by norm_num [point_in_simplex2]) (by norm_num [point_in_simplex2]) (by norm_num [point_in_simplex2])

end examples

namespace Wit
open Choose Gen.Prims Prims LND
noncomputable section

/-- the rational points of the plane, enumerated -/
def coordQ (n : Nat) : ℚ × ℚ := (Denumerable.eqv (ℚ × ℚ)).symm n
def enc (q : ℚ × ℚ) : Nat := Denumerable.eqv (ℚ × ℚ) q
def coord (n : Nat) : P2 ℝ := (((coordQ n).1 : ℝ), ((coordQ n).2 : ℝ))

theorem coord_enc (q : ℚ × ℚ) : coord (enc q) = ((q.1 : ℝ), (q.2 : ℝ)) := by
  simp only [coord, coordQ, enc, Equiv.symm_apply_apply]

theorem cast_comb (l : ℚ × ℚ × ℚ) (a b c : ℚ × ℚ) :
    (((comb l a b c).1 : ℝ), ((comb l a b c).2 : ℝ)) =
      comb ((l.1 : ℝ), (l.2.1 : ℝ), (l.2.2 : ℝ)) ((a.1 : ℝ), (a.2 : ℝ)) ((b.1 : ℝ), (b.2 : ℝ)) ((c.1 : ℝ), (c.2 : ℝ)) := by
  simp only [comb]
  refine Prod.ext ?_ ?_ <;> simp only <;> push_cast <;> ring

/-- the point chosen in a rational triangle is rational -/
theorem key (eps : ℝ) (a b c : Nat) :
    ∃ n, coord n = choosePoint2 Real.sqrt eps (coord a) (coord b) (coord c) none := by
  obtain ⟨l, hl, e⟩ := choose2_weights Real.sqrt C20.real_sqrt_law eps (coord a) (coord b) (coord c) none
    (by intro _ _ h; cases h)
  rw [e]
  rcases hl with rfl | rfl | rfl | rfl
  · refine ⟨enc (comb ((1 / 3 : ℚ), (1 / 3 : ℚ), (1 / 3 : ℚ)) (coordQ a) (coordQ b) (coordQ c)), ?_⟩
    rw [coord_enc, cast_comb]; simp only [coord]; push_cast; rfl
  · refine ⟨enc (comb ((1 / 2 : ℚ), (1 / 2 : ℚ), (0 : ℚ)) (coordQ a) (coordQ b) (coordQ c)), ?_⟩
    rw [coord_enc, cast_comb]; simp only [coord]; push_cast; rfl
  · refine ⟨enc (comb ((1 / 2 : ℚ), (0 : ℚ), (1 / 2 : ℚ)) (coordQ a) (coordQ b) (coordQ c)), ?_⟩
    rw [coord_enc, cast_comb]; simp only [coord]; push_cast; rfl
  · refine ⟨enc (comb ((0 : ℚ), (1 / 2 : ℚ), (1 / 2 : ℚ)) (coordQ a) (coordQ b) (coordQ c)), ?_⟩
    rw [coord_enc, cast_comb]; simp only [coord]; push_cast; rfl

/-- the witness environment (tolerances `eps`, `eps'`, `epsb`; unit square; no transform) -/
def wEnv (eps eps' epsb : ℝ) : Env ℝ where
  dim := 2
  boundsPts := []
  inside q := insideRect 0 1 0 1 epsb (coord q)
  one := 1
  inf := 0
  c15 := 0
  c2 := 0
  factor := 0
  abs x := x
  isZero _ := false
  rnd _ := 0
  lossFn _ _ := 0
  vol _ := 0
  pis q pts := match pts with
    | [a, b, c] => point_in_simplex2 (coord q).1 (coord q).2 (coord a).1 (coord a).2 (coord b).1 (coord b).2
        (coord c).1 (coord c).2 eps'
    | _ => true
  choose pts := match pts with
    | [a, b, c] => Classical.choose (key eps a b c)
    | _ => 0
  triInit _ := false
  triSimps _ := []
  triAdd _ _ := none
  locate _ _ := []
  uord _ := []
  subSimps sv := if 3 ≤ sv.length then [[0, 1, 2]] else []
  subAdd _ _ := none
  randPt _ := 0

theorem wEnv_coords (eps eps' epsb : ℝ) (he : 0 ≤ eps') :
    CoordEnv2 (wEnv eps eps' epsb) coord Real.sqrt eps eps' epsb none 0 1 0 1 where
  hdim := rfl
  hsqrt := C20.real_sqrt_law
  heps' := he
  ht := by intro _ _ h; cases h
  hchoose := fun a b c => Classical.choose_spec (key eps a b c)
  hpis := fun _ _ _ _ => rfl
  hinside := fun _ => rfl

theorem wEnv_subSize (eps eps' epsb : ℝ) : ∀ sv, ∀ ss ∈ (wEnv eps eps' epsb).subSimps sv, ss.length = 3 := by
  intro sv ss hss
  simp only [wEnv] at hss
  split at hss
  · simp only [List.mem_cons, List.not_mem_nil, or_false] at hss; subst hss; rfl
  · exact absurd hss (by simp)

theorem wEnv_subVerts (eps eps' epsb : ℝ) (he : 0 ≤ eps') : SubVertsInOwner (wEnv eps eps' epsb) := by
  intro sv ss hss p hp
  have hss' := hss
  simp only [wEnv] at hss'
  split at hss'
  · rename_i h3
    simp only [List.mem_cons, List.not_mem_nil, or_false] at hss'; subst hss'
    rcases sv with _ | ⟨o0, _ | ⟨o1, _ | ⟨o2, rest⟩⟩⟩
    · simp at h3
    · simp at h3
    · simp at h3
    · exact pis_corner_dim2 (wEnv eps eps' epsb) coord eps' he (wEnv_coords eps eps' epsb he).hpis o0 o1 o2 p hp
  · exact absurd hss' (by simp)

end
end Wit
