import AdaptiveModel.Tri
import Mathlib.Data.List.Basic

/-! Helper lemmas for the Triangulation model: list-as-set operations, `combos`, `sortS`. -/
namespace Tri

section sets
variable {α : Type} [DecidableEq α]

theorem mem_setAdd {x y : α} {l : List α} : y ∈ setAdd x l ↔ y = x ∨ y ∈ l := by
  unfold setAdd
  split
  · constructor
    · intro h; exact Or.inr h
    · rintro (rfl | h)
      · assumption
      · exact h
  · simp [List.mem_append, or_comm]

theorem mem_setDel {x y : α} {l : List α} : y ∈ setDel x l ↔ y ∈ l ∧ y ≠ x := by
  simp [setDel, List.mem_filter]

theorem mem_setDiff {y : α} {a b : List α} : y ∈ setDiff a b ↔ y ∈ a ∧ y ∉ b := by
  simp [setDiff, List.mem_filter]

theorem mem_setUnion {y : α} {a b : List α} : y ∈ setUnion a b ↔ y ∈ a ∨ y ∈ b := by
  unfold setUnion
  induction b generalizing a with
  | nil => simp
  | cons x xs ih =>
    simp only [List.foldl_cons, List.mem_cons]
    rw [ih, mem_setAdd]
    constructor
    · rintro ((rfl | h) | h)
      · exact Or.inr (Or.inl rfl)
      · exact Or.inl h
      · exact Or.inr (Or.inr h)
    · rintro (h | rfl | h)
      · exact Or.inl (Or.inr h)
      · exact Or.inl (Or.inl rfl)
      · exact Or.inr h

end sets

theorem combos_sublist {α : Type} : ∀ (k : Nat) (l c : List α), c ∈ combos k l → c.Sublist l ∧ c.length = k
  | 0, l, c, h => by
    simp only [combos, List.mem_singleton] at h
    subst h
    exact ⟨List.nil_sublist l, rfl⟩
  | k + 1, [], c, h => by simp [combos] at h
  | k + 1, x :: xs, c, h => by
    simp only [combos, List.mem_append, List.mem_map] at h
    rcases h with ⟨c', hc', rfl⟩ | h
    · obtain ⟨h1, h2⟩ := combos_sublist k xs c' hc'
      exact ⟨h1.cons_cons x, by simp [h2]⟩
    · obtain ⟨h1, h2⟩ := combos_sublist (k + 1) xs c h
      exact ⟨h1.cons x, h2⟩

theorem mem_insertS {a v : Nat} {l : List Nat} : v ∈ insertS a l ↔ v = a ∨ v ∈ l := by
  induction l with
  | nil => simp [insertS]
  | cons b l ih =>
    simp only [insertS]
    split
    · simp
    · simp only [List.mem_cons, ih]
      constructor
      · rintro (h | h | h)
        · exact Or.inr (Or.inl h)
        · exact Or.inl h
        · exact Or.inr (Or.inr h)
      · rintro (h | h | h)
        · exact Or.inr (Or.inl h)
        · exact Or.inl h
        · exact Or.inr (Or.inr h)

theorem insertS_perm (a : Nat) (l : List Nat) : (insertS a l).Perm (a :: l) := by
  induction l with
  | nil => simp [insertS]
  | cons b l ih =>
    simp only [insertS]
    split
    · exact List.Perm.refl _
    · exact ((List.Perm.cons b ih).trans (List.Perm.swap a b l))

theorem insertS_sorted {a : Nat} {l : List Nat} (h : l.Pairwise (· ≤ ·)) : (insertS a l).Pairwise (· ≤ ·) := by
  induction l with
  | nil => simp [insertS]
  | cons b l ih =>
    simp only [insertS]
    rw [List.pairwise_cons] at h
    split
    · rename_i hab
      refine List.pairwise_cons.mpr ⟨?_, List.pairwise_cons.mpr h⟩
      intro c hc
      rcases List.mem_cons.mp hc with rfl | hc
      · exact hab
      · exact Nat.le_trans hab (h.1 c hc)
    · rename_i hab
      refine List.pairwise_cons.mpr ⟨?_, ih h.2⟩
      intro c hc
      rcases mem_insertS.mp hc with rfl | hc
      · omega
      · exact h.1 c hc

theorem sortS_perm (t : Simplex) : (sortS t).Perm t := by
  induction t with
  | nil => exact List.Perm.refl _
  | cons a t ih =>
    show (insertS a (sortS t)).Perm (a :: t)
    exact (insertS_perm a _).trans (List.Perm.cons a ih)

theorem sortS_sorted (t : Simplex) : (sortS t).Pairwise (· ≤ ·) := by
  induction t with
  | nil => exact List.Pairwise.nil
  | cons a t ih => exact insertS_sorted ih

theorem sortS_of_sorted {t : Simplex} (h : t.Pairwise (· < ·)) : sortS t = t := by
  induction t with
  | nil => rfl
  | cons a t ih =>
    rw [List.pairwise_cons] at h
    show insertS a (sortS t) = a :: t
    rw [ih h.2]
    cases t with
    | nil => rfl
    | cons b l =>
      simp only [insertS]
      rw [if_pos (Nat.le_of_lt (h.1 b List.mem_cons_self))]

theorem mem_sortS {t : Simplex} {v : Nat} : v ∈ sortS t ↔ v ∈ t := (sortS_perm t).mem_iff

theorem eraseIdx_append_length {α : Type} (l : List α) (x : α) : (l ++ [x]).eraseIdx l.length = l := by
  induction l with
  | nil => rfl
  | cons a as ih => simp [List.eraseIdx_cons_succ, ih]

end Tri
