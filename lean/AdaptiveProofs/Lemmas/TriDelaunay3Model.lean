import AdaptiveProofs.Lemmas.TriDelaunay3
import AdaptiveProofs.Lemmas.TriCavityModel
import AdaptiveProofs.Lemmas.TriDelaunay2Truthful

/-!
`Lemmas/TriDelaunay3.lean` (the Delaunay cavity is star-shaped, dimension 3) applied to what the model
`Tri.bowyerWatson` / `Tri.addPoint` does (`Lemmas/TriCavityModel.lean`), the consequences of TRUTHFUL in-sphere answers
(work-list invariant `bowyerWatson_asked` of `Lemmas/TriDelaunay2Truthful.lean`, which is dimension-generic), and the
concrete configuration of the non-vacuity example of `Props/C03Dim3.lean`.
-/
namespace Tri

section model
variable {α : Type} [CommRing α] [LinearOrder α] [IsStrictOrderedRing α]

/-- the hypothesis on the hole faces of a cavity `bad` inside the triangulation `S` (new point `p`): every hole face
either has a tetrahedron of `S` on its other side that is locally Delaunay with the owner and does not contain `p`
strictly in its circumsphere, or `p` is not strictly outside it (hull face). -/
def HoleFacesDelaunay (x : Nat → α × α × α) (S bad : List Simplex) (p : α × α × α) : Prop :=
  ∀ e ∈ hole 3 bad,
    (∃ t' ∈ S, e ∈ combos 3 t' ∧
      (∀ c' ∈ t', c' ∉ e → sve3 x (owner 3 bad e) e (x c') * sv3 x (owner 3 bad e) < 0) ∧
      ¬ InSphere3 x t' p ∧
      (∀ c' ∈ t', c' ∉ e → ¬ InSphere3 x (owner 3 bad e) (x c'))) ∨
    0 ≤ sve3 x (owner 3 bad e) e p * sv3 x (owner 3 bad e)

theorem holeFaces_star (x : Nat → α × α × α) {S bad : List Simplex} (pt : Nat)
    (hS : ∀ t ∈ S, t.length = 4 ∧ t.Pairwise (· < ·)) (hsub : ∀ t ∈ bad, t ∈ S)
    (hin : ∀ t ∈ bad, InSphere3 x t (x pt)) (hface : HoleFacesDelaunay x S bad (x pt)) :
    ∀ e ∈ hole 3 bad, 0 ≤ osign (sv3 x (owner 3 bad e)) * sve3 x (owner 3 bad e) e (x pt) := by
  apply cavity_star_3d x bad pt (fun t ht => hS t (hsub t ht)) hin
  intro e he
  rcases hface e he with ⟨t', ht', h1, h2, h3, h4⟩ | h
  · exact Or.inl ⟨t', hS t' ht', h1, h2, h3, h4⟩
  · exact Or.inr h

/-- one accepted interior `bowyer_watson` of the model whose deleted set is a Delaunay cavity conserves the volume -/
theorem bowyerWatson_delaunay_volume_3d (x : Nat → α × α × α) {s s' : State} {pt : Nat} {start : Option Simplex}
    {circ fl fl' : List (Simplex × Bool)} {deleted added : List Simplex}
    (hI : Inv s) (hdim : s.dim = 3) (hpt : s.nVerts = pt + 1)
    (hfresh : ∀ t ∈ s.simplices, ∀ v ∈ t, v < pt)
    (hstart : ∀ c, start = some c → c ∈ s.simplices) (hfl : ∀ r ∈ fl, r.2 = false)
    (hok : bowyerWatson s pt start circ fl = .ok (s', deleted, added, fl'))
    (hO : OppositeSides3 x deleted)
    (hin : ∀ t ∈ deleted, InSphere3 x t (x pt))
    (hface : HoleFacesDelaunay x s.simplices deleted (x pt)) :
    (added.map (fun t => |sv3 x t|)).sum = (deleted.map (fun t => |sv3 x t|)).sum ∧
    (s.simplices.Nodup →
      (s'.simplices.map (fun t => |sv3 x t|)).sum = (s.simplices.map (fun t => |sv3 x t|)).sum) := by
  obtain ⟨_, _, hDS, _⟩ := bowyerWatson_exact hI hpt hfresh hstart hfl hok
  have hS : ∀ t ∈ s.simplices, t.length = 4 ∧ t.Pairwise (· < ·) := by
    intro t ht
    have := hI.valid t ht
    rw [hdim] at this
    exact ⟨this.1, this.2.1⟩
  exact bowyerWatson_volume_3d x hI hdim hpt hfresh hstart hfl hok hO
    (fun t ht => sv3_ne_zero_of_inSphere3 x (hin t ht)) (holeFaces_star x pt hS hDS hin hface)

/-- the same at the level of `add_point` -/
theorem addPoint_delaunay_volume_3d (x : Nat → α × α × α) {s s' : State} {hint : Option Simplex} {o : Oracle}
    {D A : List Simplex} (hI : Inv s) (hdim : s.dim = 3) (hv : ValidHint s hint) (hh : hint ≠ some [])
    (hl : o.locate ≠ some []) (hfl : ∀ r ∈ o.flat, r.2 = false)
    (hok : addPoint s hint o = .ok (s', D, A))
    (hO : OppositeSides3 x D)
    (hin : ∀ t ∈ D, InSphere3 x t (x s.nVerts))
    (hface : HoleFacesDelaunay x s.simplices D (x s.nVerts)) :
    (A.map (fun t => |sv3 x t|)).sum = (D.map (fun t => |sv3 x t|)).sum ∧
    (s.simplices.Nodup →
      (s'.simplices.map (fun t => |sv3 x t|)).sum = (s.simplices.map (fun t => |sv3 x t|)).sum) := by
  obtain ⟨simplex, hsS, hbw⟩ := addPoint_interior hv hh hl hok
  exact bowyerWatson_delaunay_volume_3d x (s := { s with vts := s.vts ++ [[]], nVerts := s.nVerts + 1 }) (inv_push hI)
    hdim rfl (fun t ht v hv' => (hI.valid t ht).2.2 v hv') (fun c hc => by cases hc; exact hsS) hfl hbw hO hin hface

end model

/-! ### two sorted tetrahedra with a common face share exactly three vertices -/

theorem sorted4_eq_of_mem {i j k l i' j' k' l' : Nat} (hij : i < j) (hjk : j < k) (hkl : k < l)
    (hij' : i' < j') (hjk' : j' < k') (hkl' : k' < l')
    (h1 : i' ∈ [i, j, k, l]) (h2 : j' ∈ [i, j, k, l]) (h3 : k' ∈ [i, j, k, l]) (h4 : l' ∈ [i, j, k, l]) :
    [i', j', k', l'] = [i, j, k, l] := by
  simp only [List.mem_cons, List.not_mem_nil, or_false] at h1 h2 h3 h4
  simp only [List.cons.injEq, and_true]
  omega

theorem sharedCount_common_face {t t' e : Simplex} (hS : t.length = 4 ∧ t.Pairwise (· < ·))
    (hS' : t'.length = 4 ∧ t'.Pairwise (· < ·)) (he : e ∈ combos 3 t) (he' : e ∈ combos 3 t') (hne : t' ≠ t) :
    sharedCount t' t = 3 := by
  obtain ⟨i, j, k, l, rfl, hij, hjk, hkl⟩ := sorted4 hS
  obtain ⟨i', j', k', l', rfl, hij', hjk', hkl'⟩ := sorted4 hS'
  obtain ⟨c', hc', hce'⟩ := exists_apex3 hij' hjk' hkl' he'
  have hsub := (combos_sublist 3 _ e he).1.subset
  have hnd : [i', j', k', l'].Nodup := by simp; omega
  unfold sharedCount
  rw [eraseDups_of_nodup _ hnd]
  rcases tet_face_cases he' hc' hce' with ⟨rfl, rfl⟩ | ⟨rfl, rfl⟩ | ⟨rfl, rfl⟩ | ⟨rfl, rfl⟩
  · have h1 : i' ∈ [i, j, k, l] := hsub (by simp)
    have h2 : j' ∈ [i, j, k, l] := hsub (by simp)
    have h3 : k' ∈ [i, j, k, l] := hsub (by simp)
    have h4 : c' ∉ [i, j, k, l] := fun h => hne (sorted4_eq_of_mem hij hjk hkl hij' hjk' hkl' h1 h2 h3 h)
    simp only [List.mem_cons, List.not_mem_nil, or_false] at h1 h2 h3 h4
    simp [h1, h2, h3, h4]
  · have h1 : i' ∈ [i, j, k, l] := hsub (by simp)
    have h2 : j' ∈ [i, j, k, l] := hsub (by simp)
    have h3 : l' ∈ [i, j, k, l] := hsub (by simp)
    have h4 : c' ∉ [i, j, k, l] := fun h => hne (sorted4_eq_of_mem hij hjk hkl hij' hjk' hkl' h1 h2 h h3)
    simp only [List.mem_cons, List.not_mem_nil, or_false] at h1 h2 h3 h4
    simp [h1, h2, h3, h4]
  · have h1 : i' ∈ [i, j, k, l] := hsub (by simp)
    have h2 : k' ∈ [i, j, k, l] := hsub (by simp)
    have h3 : l' ∈ [i, j, k, l] := hsub (by simp)
    have h4 : c' ∉ [i, j, k, l] := fun h => hne (sorted4_eq_of_mem hij hjk hkl hij' hjk' hkl' h1 h h2 h3)
    simp only [List.mem_cons, List.not_mem_nil, or_false] at h1 h2 h3 h4
    simp [h1, h2, h3, h4]
  · have h1 : j' ∈ [i, j, k, l] := hsub (by simp)
    have h2 : k' ∈ [i, j, k, l] := hsub (by simp)
    have h3 : l' ∈ [i, j, k, l] := hsub (by simp)
    have h4 : c' ∉ [i, j, k, l] := fun h => hne (sorted4_eq_of_mem hij hjk hkl hij' hjk' hkl' h h1 h2 h3)
    simp only [List.mem_cons, List.not_mem_nil, or_false] at h1 h2 h3 h4
    simp [h1, h2, h3, h4]

/-! ### truthful answers ⇒ Delaunay cavity ⇒ volume conserved -/
section truthful
variable {α : Type} [CommRing α] [LinearOrder α] [IsStrictOrderedRing α]

/-- every recorded answer of `point_in_cicumcircle` is the exact strict in-sphere predicate -/
def SphTruthful (x : Nat → α × α × α) (pt : Nat) (circ : List (Simplex × Bool)) : Prop :=
  ∀ r ∈ circ, (r.2 = true ↔ InSphere3 x r.1 (x pt))

/-- what is left of `HoleFacesDelaunay` once the answers are truthful: for every hole face, a NON-DELETED tetrahedron of
the old triangulation on the other side whose apex is not strictly inside the owner's circumsphere (the old
triangulation was locally Delaunay across that face), or a hull face with the new point not strictly outside -/
def HoleFacesLocallyDelaunay (x : Nat → α × α × α) (S bad : List Simplex) (p : α × α × α) : Prop :=
  ∀ e ∈ hole 3 bad,
    (∃ t' ∈ S, t' ∉ bad ∧ e ∈ combos 3 t' ∧
      (∀ c' ∈ t', c' ∉ e → sve3 x (owner 3 bad e) e (x c') * sv3 x (owner 3 bad e) < 0) ∧
      (∀ c' ∈ t', c' ∉ e → ¬ InSphere3 x (owner 3 bad e) (x c'))) ∨
    0 ≤ sve3 x (owner 3 bad e) e p * sv3 x (owner 3 bad e)

theorem bowyerWatson_truthful_volume_3d (x : Nat → α × α × α) {s s' : State} {pt : Nat} {start : Option Simplex}
    {circ fl fl' : List (Simplex × Bool)} {deleted added : List Simplex}
    (hI : Inv s) (hdim : s.dim = 3) (hpt : s.nVerts = pt + 1)
    (hfresh : ∀ t ∈ s.simplices, ∀ v ∈ t, v < pt)
    (hstart : ∀ c, start = some c → c ∈ s.simplices) (hfl : ∀ r ∈ fl, r.2 = false)
    (hok : bowyerWatson s pt start circ fl = .ok (s', deleted, added, fl'))
    (htruth : SphTruthful x pt circ)
    (hO : OppositeSides3 x deleted)
    (hface : HoleFacesLocallyDelaunay x s.simplices deleted (x pt)) :
    (∀ t ∈ deleted, InSphere3 x t (x pt)) ∧
    (∀ e ∈ hole 3 deleted, 0 ≤ osign (sv3 x (owner 3 deleted e)) * sve3 x (owner 3 deleted e) e (x pt)) ∧
    (added.map (fun t => |sv3 x t|)).sum = (deleted.map (fun t => |sv3 x t|)).sum ∧
    (s.simplices.Nodup →
      (s'.simplices.map (fun t => |sv3 x t|)).sum = (s.simplices.map (fun t => |sv3 x t|)).sum) := by
  obtain ⟨hin, hnb⟩ := bowyerWatson_asked (fun t => InSphere3 x t (x pt)) (fun t => ¬ InSphere3 x t (x pt))
    hI (by omega) hpt hfresh hstart hfl hok (fun r hr h => (htruth r hr).mp h)
    (fun r hr h hc => by rw [(htruth r hr).mpr hc] at h; cases h)
  obtain ⟨_, _, hDS, _⟩ := bowyerWatson_exact hI hpt hfresh hstart hfl hok
  have hS : ∀ t ∈ s.simplices, t.length = 4 ∧ t.Pairwise (· < ·) := by
    intro t ht
    have := hI.valid t ht
    rw [hdim] at this
    exact ⟨this.1, this.2.1⟩
  have hface' : HoleFacesDelaunay x s.simplices deleted (x pt) := by
    intro e he
    obtain ⟨ho, heo, _⟩ := mem_hole he
    rcases hface e he with ⟨t', ht', htd, he', hopp, hdel⟩ | h
    · refine Or.inl ⟨t', ht', he', hopp, ?_, hdel⟩
      have hne : t' ≠ owner 3 deleted e := fun h => htd (h ▸ ho)
      have hsc := sharedCount_common_face (hS _ (hDS _ ho)) (hS _ ht') heo he' hne
      exact hnb _ ho t' ht' htd (by rw [hsc, hdim])
    · exact Or.inr h
  have hstar := holeFaces_star x pt hS hDS hin hface'
  exact ⟨hin, hstar, bowyerWatson_delaunay_volume_3d x hI hdim hpt hfresh hstart hfl hok hO hin hface'⟩

theorem addPoint_truthful_volume_3d (x : Nat → α × α × α) {s s' : State} {hint : Option Simplex} {o : Oracle}
    {D A : List Simplex} (hI : Inv s) (hdim : s.dim = 3) (hv : ValidHint s hint) (hh : hint ≠ some [])
    (hl : o.locate ≠ some []) (hfl : ∀ r ∈ o.flat, r.2 = false)
    (hok : addPoint s hint o = .ok (s', D, A))
    (htruth : SphTruthful x s.nVerts o.circ)
    (hO : OppositeSides3 x D)
    (hface : HoleFacesLocallyDelaunay x s.simplices D (x s.nVerts)) :
    (∀ t ∈ D, InSphere3 x t (x s.nVerts)) ∧
    (∀ e ∈ hole 3 D, 0 ≤ osign (sv3 x (owner 3 D e)) * sve3 x (owner 3 D e) e (x s.nVerts)) ∧
    (A.map (fun t => |sv3 x t|)).sum = (D.map (fun t => |sv3 x t|)).sum ∧
    (s.simplices.Nodup →
      (s'.simplices.map (fun t => |sv3 x t|)).sum = (s.simplices.map (fun t => |sv3 x t|)).sum) := by
  obtain ⟨simplex, hsS, hbw⟩ := addPoint_interior hv hh hl hok
  exact bowyerWatson_truthful_volume_3d x (s := { s with vts := s.vts ++ [[]], nVerts := s.nVerts + 1 }) (inv_push hI)
    hdim rfl (fun t ht v hv' => (hI.valid t ht).2.2 v hv') (fun c hc => by cases hc; exact hsS) hfl hbw htruth hO hface

end truthful

/-! ### concrete configuration for the non-vacuity example of `Props/C03Dim3.lean` -/

/-- the bipyramid over the triangle `(0,0,0) (4,0,0) (0,4,0)` with the apexes `(1,1,4)` and `(1,1,-4)` (two tetrahedra
sharing the face `[0,1,2]`), plus the tetrahedron `[0,1,3,5]` beyond the face `[0,1,3]` -/
def exT : State :=
  ⟨3, 6, [[0, 1, 2, 3], [0, 1, 2, 4], [0, 1, 3, 5]],
    [[[0, 1, 2, 3], [0, 1, 2, 4], [0, 1, 3, 5]], [[0, 1, 2, 3], [0, 1, 2, 4], [0, 1, 3, 5]],
      [[0, 1, 2, 3], [0, 1, 2, 4]], [[0, 1, 2, 3], [0, 1, 3, 5]], [[0, 1, 2, 4]], [[0, 1, 3, 5]]]⟩

/-- after the insertion of the seventh point: the two tetrahedra of the bipyramid replaced by six, `[0,1,3,5]` kept -/
def exT1 : State :=
  ⟨3, 7, [[0, 1, 3, 5], [0, 1, 3, 6], [0, 2, 3, 6], [1, 2, 3, 6], [0, 1, 4, 6], [0, 2, 4, 6], [1, 2, 4, 6]],
    [[[0, 1, 3, 5], [0, 1, 3, 6], [0, 2, 3, 6], [0, 1, 4, 6], [0, 2, 4, 6]],
      [[0, 1, 3, 5], [0, 1, 3, 6], [1, 2, 3, 6], [0, 1, 4, 6], [1, 2, 4, 6]],
      [[0, 2, 3, 6], [1, 2, 3, 6], [0, 2, 4, 6], [1, 2, 4, 6]],
      [[0, 1, 3, 5], [0, 1, 3, 6], [0, 2, 3, 6], [1, 2, 3, 6]],
      [[0, 1, 4, 6], [0, 2, 4, 6], [1, 2, 4, 6]],
      [[0, 1, 3, 5]],
      [[0, 1, 3, 6], [0, 2, 3, 6], [1, 2, 3, 6], [0, 1, 4, 6], [0, 2, 4, 6], [1, 2, 4, 6]]]⟩

/-- the TRUTHFUL answers for the insertion of `(1, 1, 1)`: the two tetrahedra of the bipyramid are bad, `[0,1,3,5]` is
asked (it is a face-neighbour of `[0,1,2,3]`) and is not -/
def exOT : Oracle :=
  { reduced := some [0, 1, 2, 3],
    circ := [([0, 1, 2, 3], true), ([0, 1, 2, 4], true), ([0, 1, 3, 5], false)],
    flat := [([0, 1, 3, 6], false), ([0, 2, 3, 6], false), ([1, 2, 3, 6], false), ([0, 1, 4, 6], false),
      ([0, 2, 4, 6], false), ([1, 2, 4, 6], false)] }

/-- the coordinates: the bipyramid, the apex `(2, -8, 0)` of the third tetrahedron, the new point `(1, 1, 1)` -/
def exXT : Nat → ℚ × ℚ × ℚ
  | 0 => (0, 0, 0)
  | 1 => (4, 0, 0)
  | 2 => (0, 4, 0)
  | 3 => (1, 1, 4)
  | 4 => (1, 1, -4)
  | 5 => (2, -8, 0)
  | _ => (1, 1, 1)

end Tri
