import AdaptiveProofs.Lemmas.LNDKeys

/-! The triangulation's vertices are the evaluated points (C04, `lnd_vertices_eq_data`). -/
set_option linter.unusedSectionVars false
set_option linter.unusedSimpArgs false
set_option linter.unusedVariables false
namespace LND
variable {α : Type} [Sub α] [Mul α] [Div α] [LT α] [DecidableLT α]

/-- the vertex list of the triangulation is the list of evaluated points, in order -/
def VInv (s : State α) : Prop := ∀ vs, s.tri = some vs → vs = s.data

/-- the data are unchanged and the triangulation is unchanged or was just created from the data -/
def DataFrame (s s' : State α) : Prop :=
  s'.data = s.data ∧ (s'.tri = s.tri ∨ (s.tri = none ∧ s'.tri = some s.data))

theorem DataFrame.refl (s : State α) : DataFrame s s := ⟨rfl, Or.inl rfl⟩

theorem DataFrame.trans {s s1 s2 : State α} (a : DataFrame s s1) (b : DataFrame s1 s2) : DataFrame s s2 := by
  obtain ⟨a1, a2⟩ := a
  obtain ⟨b1, b2⟩ := b
  refine ⟨b1.trans a1, ?_⟩
  rcases b2 with b2 | ⟨b2, b3⟩
  · rcases a2 with a2 | ⟨a2, a3⟩
    · exact Or.inl (b2.trans a2)
    · exact Or.inr ⟨a2, b2.trans a3⟩
  · rcases a2 with a2 | ⟨a2, a3⟩
    · exact Or.inr ⟨a2 ▸ b2, by rw [b3, a1]⟩
    · rw [a3] at b2; exact absurd b2 (by simp)

theorem VInv.of_frame {s s' : State α} (f : DataFrame s s') (hv : VInv s) : VInv s' := by
  obtain ⟨f1, f2⟩ := f
  intro vs hvs
  rcases f2 with f2 | ⟨_, f3⟩
  · rw [f1]; exact hv vs (f2 ▸ hvs)
  · rw [f3] at hvs; simp only [Option.some.injEq] at hvs; rw [f1]; exact hvs.symm

theorem touchTri_dataFrame (env : Env α) {s s' : State α} (h : touchTri env s = .ok s') : DataFrame s s' := by
  obtain ⟨a, _, _, _, _, b⟩ := touchTri_frame env h; exact ⟨a, b⟩

theorem tellPending_dataFrame (env : Env α) {s s' : State α} (p : Pt) (hint : Option Simplex)
    (h : tellPending env s p hint = .ok s') : DataFrame s s' := by
  obtain ⟨a, _, _, _, _, b⟩ := tellPending_frame env p hint h; exact ⟨a, b⟩

theorem askOne_dataFrame (env : Env α) {s s' : State α} {r : Pt × α} (h : askOne env s = .ok (r, s')) :
    DataFrame s s' := by
  rcases askOne_form env h with ⟨p, _, _, h1⟩ | ⟨_, s1, h1, hcase⟩
  · exact tellPending_dataFrame env p none h1
  · have f1 := touchTri_dataFrame env h1
    rcases hcase with ⟨_, _, h2⟩ | ⟨vs, _, h2⟩
    · exact f1.trans (tellPending_dataFrame env (s := { s1 with nrand := s1.nrand + 1 }) _ none h2)
    · obtain ⟨e, q, s2, _, _, h3, rfl⟩ := askBest_form env h2
      have f2 : DataFrame s1 s2 := tellPending_dataFrame env
        (s := { s1 with book := { s1.book with queue := q, p2s := put r.1 e.simplex s1.book.p2s } }) _ _ h3
      exact f1.trans f2

theorem askLoop_dataFrame (env : Env α) (n : Nat) : ∀ {s s' : State α} {rs : List (Pt × α)},
    askLoop env n s = .ok (rs, s') → DataFrame s s' := by
  induction n with
  | zero =>
    intro s s' rs h
    simp only [askLoop, Except.ok.injEq, Prod.mk.injEq] at h
    rw [← h.2]; exact DataFrame.refl s
  | succ n ih =>
    intro s s' rs h
    unfold askLoop at h
    split at h
    · exact absurd h (by simp)
    · rename_i r s1 h1
      split at h
      · exact absurd h (by simp)
      · rename_i rs' s2 h2
        simp only [Except.ok.injEq, Prod.mk.injEq] at h
        rw [← h.2]
        exact (askOne_dataFrame env h1).trans (ih h2)

/-- operations whose told points lie inside the domain (the property's quantifier) -/
def InDomain (env : Env α) : List (Op α) → Prop
  | [] => True
  | .tell p _ _ :: ops => env.inside p = true ∧ InDomain env ops
  | _ :: ops => InDomain env ops

theorem tell_vinv (env : Env α) {s s' : State α} (p : Pt) (a b : α) (hin : env.inside p = true)
    (hv : VInv s) (h : tell env s p a b = .ok s') : VInv s' := by
  rcases tell_form env p a b h with ⟨_, rfl⟩ | ⟨_, s1, h1, hcase⟩
  · exact hv
  · have f1 := touchTri_dataFrame env h1
    have v1 : VInv s1 := VInv.of_frame f1 (s := { s with pending := _ }) hv
    rcases hcase with ⟨hout, _⟩ | ⟨_, s3, h3, hcase⟩
    · rw [hin] at hout; exact absurd hout (by simp)
    · obtain ⟨d3, _, _, t3⟩ := updateRange_frame env a b h3
      rcases hcase with ⟨hn, rfl⟩ | ⟨vs, hint, D, A, hvs, _, hu⟩
      · intro vs' hvs'
        rcases t3 with t3 | ⟨_, t3⟩
        · rw [t3] at hvs'; simp only [hn] at hvs'; exact absurd hvs' (by simp)
        · rw [t3] at hvs'; simp only [Option.some.injEq] at hvs'; rw [d3]; exact hvs'.symm
      · obtain ⟨⟨d, _, c, _, _, _⟩, _⟩ :=
          updateLosses_spec (s := { s3 with tri := some (vs ++ [p]) }) env D A rfl hu
        intro vs' hvs'
        rw [c] at hvs'
        simp only [Option.some.injEq] at hvs'
        rw [← hvs', d, d3, v1 vs hvs]

theorem step_vinv (env : Env α) {s s' : State α} (op : Op α)
    (hin : match op with | .tell p _ _ => env.inside p = true | _ => True)
    (hv : VInv s) (h : step env s op = .ok s') : VInv s' := by
  cases op with
  | tell p a b => exact tell_vinv env p a b hin hv h
  | tellPending p => exact VInv.of_frame (tellPending_dataFrame env p none h) hv
  | ask n c =>
    simp only [step] at h
    cases ha : ask env s n c with
    | error e => rw [ha] at h; simp [Except.map] at h
    | ok r =>
      rw [ha] at h
      simp only [Except.map, Except.ok.injEq] at h
      subst h
      unfold ask at ha
      split at ha
      · exact absurd ha (by simp)
      · rename_i rs' s1 h1
        simp only [Except.ok.injEq] at ha
        subst ha
        cases c
        · exact hv
        · exact VInv.of_frame (askLoop_dataFrame env n h1) hv
  | removeUnfinished =>
    simp only [step, Except.ok.injEq] at h
    subst h; exact hv
  | loss =>
    simp only [step] at h
    cases ha : lossOp env s with
    | error e => rw [ha] at h; simp [Except.map] at h
    | ok r =>
      rw [ha] at h
      simp only [Except.map, Except.ok.injEq] at h
      subst h
      unfold lossOp at ha
      split at ha
      · exact absurd ha (by simp)
      · rename_i s1 h1
        have v1 := VInv.of_frame (touchTri_dataFrame env h1) hv
        split at ha <;> (simp only [Except.ok.injEq] at ha; subst ha; exact v1)

theorem run_vinv (env : Env α) (ops : List (Op α)) : ∀ {s s' : State α}, InDomain env ops → VInv s →
    run env s ops = .ok s' → VInv s' := by
  induction ops with
  | nil => intro s s' _ hv h; simp only [run, Except.ok.injEq] at h; subst h; exact hv
  | cons op ops ih =>
    intro s s' hin hv h
    unfold run at h
    split at h
    · exact absurd h (by simp)
    · rename_i s1 h1
      cases op with
      | tell p a b => exact ih hin.2 (step_vinv env _ hin.1 hv h1) h
      | tellPending p => exact ih hin (step_vinv env _ trivial hv h1) h
      | ask n c => exact ih hin (step_vinv env _ trivial hv h1) h
      | removeUnfinished => exact ih hin (step_vinv env _ trivial hv h1) h
      | loss => exact ih hin (step_vinv env _ trivial hv h1) h

theorem init_vinv (env : Env α) : VInv (init env) := by
  intro vs h; simp [init] at h

end LND
