import AdaptiveProofs.Lemmas.TriCavity
import AdaptiveProofs.Lemmas.TriReach
import Mathlib.Data.Rat.Defs
import Mathlib.Algebra.Order.Field.Rat

/-!
Link between the cavity theorems of `TriCavity.lean` and the model `Tri.bowyerWatson`: for an accepted interior
insertion with a fresh vertex index and no "almost flat" answer, `deleted` is the list of bad simplices, `added` is
exactly `{f ++ [pt] | f ∈ hole}` (`bowyerWatson_exact`), hence the cavity theorems apply to what the model did.
-/
namespace Tri

/-! ### lists without repetitions -/

theorem setAdd_nodup {β : Type} [DecidableEq β] {x : β} {l : List β} (h : l.Nodup) : (setAdd x l).Nodup := by
  unfold setAdd
  split
  · exact h
  · rename_i hx
    rw [List.nodup_append]
    exact ⟨h, List.nodup_singleton x, fun a ha b hb hab => hx (by rw [List.mem_singleton] at hb; rw [← hb, ← hab]; exact ha)⟩

theorem setDel_nodup {β : Type} [DecidableEq β] {x : β} {l : List β} (h : l.Nodup) : (setDel x l).Nodup :=
  h.filter _

theorem addTo_nodup_entry (t : Simplex) : ∀ (vs : List Nat) (vts vts' : List (List Simplex)),
    addTo t vs vts = .ok vts' → ∀ v : Nat, (∀ l : List Simplex, vts[v]? = some l → l.Nodup) → ∀ l : List Simplex, vts'[v]? = some l → l.Nodup
  | [], vts, vts', hok, v, h, l, hl => by
    simp only [addTo, Except.ok.injEq] at hok
    subst hok
    exact h l hl
  | w :: ws, vts, vts', hok, v, h, l, hl => by
    simp only [addTo] at hok
    split at hok
    · cases hok
    · rename_i l0 hl0
      refine addTo_nodup_entry t ws _ _ hok v ?_ l hl
      intro l1 hl1
      by_cases hvw : w = v
      · subst hvw
        have hw : w < vts.length := by
          rcases Nat.lt_or_ge w vts.length with h' | h'
          · exact h'
          · rw [List.getElem?_eq_none h'] at hl0; cases hl0
        rw [List.getElem?_set_self hw] at hl1
        cases hl1
        exact setAdd_nodup (h l0 hl0)
      · rw [List.getElem?_set_ne hvw] at hl1
        exact h l1 hl1

theorem addSimplex_nodup {s s' : State} {t : Simplex} (hok : addSimplex s t = .ok s') :
    (s.simplices.Nodup → s'.simplices.Nodup) ∧
    (∀ v : Nat, (∀ l : List Simplex, s.vts[v]? = some l → l.Nodup) → ∀ l : List Simplex, s'.vts[v]? = some l → l.Nodup) := by
  unfold addSimplex at hok
  simp only at hok
  split at hok
  · cases hok
  · rename_i vts' hv
    cases hok
    exact ⟨fun h => setAdd_nodup h, addTo_nodup_entry _ _ _ _ hv⟩

theorem deleteSimplex_nodup {s s' : State} {t : Simplex} (hok : deleteSimplex s t = .ok s') :
    s.simplices.Nodup → s'.simplices.Nodup := by
  unfold deleteSimplex at hok
  simp only at hok
  split at hok
  · split at hok
    · cases hok
    · cases hok
      exact fun h => setDel_nodup h
  · cases hok

theorem bwLoop_nodup (dim : Nat) : ∀ (circ : List (Simplex × Bool)) (s : State) (queue done bad : List Simplex)
    (s1 : State) (bad1 : List Simplex), bwLoop dim circ s queue done bad = .ok (s1, bad1) →
    (bad.Nodup → bad1.Nodup) ∧ (s.simplices.Nodup → s1.simplices.Nodup)
  | [], s, queue, done, bad, s1, bad1, hok => by
    simp only [bwLoop] at hok
    split at hok
    · cases hok; exact ⟨id, id⟩
    · cases hok
  | (t, ans) :: rest, s, queue, done, bad, s1, bad1, hok => by
    simp only [bwLoop] at hok
    split at hok
    · cases hok
    · split at hok
      · cases hok
      · split at hok
        · split at hok
          · cases hok
          · rename_i sd hd
            split at hok
            · cases hok
            · obtain ⟨h1, h2⟩ := bwLoop_nodup dim rest sd _ _ _ s1 bad1 hok
              exact ⟨fun h => h1 (setAdd_nodup h), fun h => h2 (deleteSimplex_nodup hd h)⟩
        · exact bwLoop_nodup dim rest s _ _ _ s1 bad1 hok

theorem take_mem {β : Type} (k : Simplex) : ∀ (l : List (Simplex × β)) (v : β) (r : List (Simplex × β)),
    take k l = some (v, r) → (k, v) ∈ l ∧ ∀ y ∈ r, y ∈ l
  | [], v, r, h => by simp [take] at h
  | (k', v') :: l, v, r, h => by
    simp only [take] at h
    split at h
    · rename_i hk
      simp only [Option.some.injEq, Prod.mk.injEq] at h
      obtain ⟨rfl, rfl⟩ := h
      subst hk
      exact ⟨List.mem_cons_self, fun y hy => List.mem_cons_of_mem _ hy⟩
    · split at h
      · cases h
      · rename_i v'' r' ht
        simp only [Option.some.injEq, Prod.mk.injEq] at h
        obtain ⟨rfl, rfl⟩ := h
        obtain ⟨h1, h2⟩ := take_mem k l _ _ ht
        refine ⟨List.mem_cons_of_mem _ h1, fun y hy => ?_⟩
        rcases List.mem_cons.mp hy with rfl | hy
        · exact List.mem_cons_self
        · exact List.mem_cons_of_mem _ (h2 y hy)

/-- with no "almost flat" answer `holeLoop` adds EXACTLY `f ++ [pt]` for the faces `f` not containing `pt` -/
theorem holeLoop_exact (pt dim n : Nat) : ∀ (fs : List Simplex) (s : State) (fl : List (Simplex × Bool))
    (s2 : State) (fl2 : List (Simplex × Bool)),
    Inv s → s.dim = dim → s.nVerts = n →
    (∀ f ∈ fs, pt ∉ f → ValidSimplex dim n (f ++ [pt])) →
    (∀ r ∈ fl, r.2 = false) →
    holeLoop pt fs s fl = .ok (s2, fl2) →
    (∀ u, u ∈ s2.simplices ↔ (u ∈ s.simplices ∨ ∃ f ∈ fs, pt ∉ f ∧ u = f ++ [pt])) ∧
    (s.simplices.Nodup → s2.simplices.Nodup) ∧
    (∀ v : Nat, (∀ l : List Simplex, s.vts[v]? = some l → l.Nodup) → ∀ l : List Simplex, s2.vts[v]? = some l → l.Nodup)
  | [], s, fl, s2, fl2, hI, hd, hn, _, _, hok => by
    simp only [holeLoop, Except.ok.injEq, Prod.mk.injEq] at hok
    obtain ⟨rfl, rfl⟩ := hok
    exact ⟨fun u => by simp, id, fun v h => h⟩
  | face :: fs, s, fl, s2, fl2, hI, hd, hn, hv, hfl, hok => by
    have hv' : ∀ f ∈ fs, pt ∉ f → ValidSimplex dim n (f ++ [pt]) := fun f hf => hv f (List.mem_cons_of_mem _ hf)
    simp only [holeLoop] at hok
    split at hok
    · rename_i hpt
      obtain ⟨h1, h2, h3⟩ := holeLoop_exact pt dim n fs s fl s2 fl2 hI hd hn hv' hfl hok
      refine ⟨fun u => ?_, h2, h3⟩
      rw [h1 u]
      constructor
      · rintro (h | ⟨f, hf, hpf, rfl⟩)
        · exact Or.inl h
        · exact Or.inr ⟨f, List.mem_cons_of_mem _ hf, hpf, rfl⟩
      · rintro (h | ⟨f, hf, hpf, rfl⟩)
        · exact Or.inl h
        · rcases List.mem_cons.mp hf with rfl | hf
          · exact absurd hpt hpf
          · exact Or.inr ⟨f, hf, hpf, rfl⟩
    · rename_i hpt
      split at hok
      · cases hok
      · rename_i isFlat fl' htk
        obtain ⟨hk1, hk2⟩ := take_mem _ _ _ _ htk
        have hflat : isFlat = false := hfl _ hk1
        have hfl' : ∀ r ∈ fl', r.2 = false := fun r hr => hfl r (hk2 r hr)
        subst hflat
        simp only [Bool.false_eq_true, if_false] at hok
        split at hok
        · cases hok
        · rename_i sa ha
          have hval : ValidSimplex s.dim s.nVerts (face ++ [pt]) := by
            rw [hd, hn]; exact hv face List.mem_cons_self hpt
          obtain ⟨hIa, hda, hna, hma⟩ := addSimplex_spec hI hval ha
          obtain ⟨hn1, hn2⟩ := addSimplex_nodup ha
          obtain ⟨h1, h2, h3⟩ :=
            holeLoop_exact pt dim n fs sa fl' s2 fl2 hIa (hda.trans hd) (hna.trans hn) hv' hfl' hok
          refine ⟨fun u => ?_, fun h => h2 (hn1 h), fun v h => h3 v (hn2 v h)⟩
          rw [h1 u, hma u]
          constructor
          · rintro ((rfl | h) | ⟨f, hf, hpf, rfl⟩)
            · exact Or.inr ⟨face, List.mem_cons_self, hpt, rfl⟩
            · exact Or.inl h
            · exact Or.inr ⟨f, List.mem_cons_of_mem _ hf, hpf, rfl⟩
          · rintro (h | ⟨f, hf, hpf, rfl⟩)
            · exact Or.inl (Or.inr h)
            · rcases List.mem_cons.mp hf with rfl | hf
              · exact Or.inl (Or.inl rfl)
              · exact Or.inr ⟨f, hf, hpf, rfl⟩

/-- `bowyer_watson` for a FRESH vertex index (larger than every index used by a simplex) and no "almost flat"
answer: `deleted` is the list of bad simplices, `added` is exactly `{f ++ [pt] | f ∈ hole}` where `hole` is the
model's hole-face list of `deleted`, and the new simplex set is `(simplices \ deleted) ∪ added`; all lists without
repetitions. -/
theorem bowyerWatson_exact {s s2 : State} {pt : Nat} {start : Option Simplex} {circ fl fl2 : List (Simplex × Bool)}
    {del add : List Simplex} (hI : Inv s) (hpt : s.nVerts = pt + 1)
    (hfresh : ∀ t ∈ s.simplices, ∀ v ∈ t, v < pt)
    (hstart : ∀ c, start = some c → c ∈ s.simplices) (hfl : ∀ r ∈ fl, r.2 = false)
    (hok : bowyerWatson s pt start circ fl = .ok (s2, del, add, fl2)) :
    del.Nodup ∧ add.Nodup ∧ (∀ u ∈ del, u ∈ s.simplices) ∧
    (∀ u, u ∈ add ↔ ∃ f ∈ hole s.dim del, u = f ++ [pt]) ∧
    (∀ u, u ∈ s2.simplices ↔ ((u ∈ s.simplices ∧ u ∉ del) ∨ u ∈ add)) ∧
    (s.simplices.Nodup → s2.simplices.Nodup) := by
  have hnpt : ∀ t ∈ s.simplices, pt ∉ t := fun t ht hp => absurd (hfresh t ht pt hp) (Nat.lt_irrefl _)
  unfold bowyerWatson at hok
  simp only at hok
  split at hok
  · cases hok
  · rename_i queue hq
    have hqS : ∀ u ∈ queue, u ∈ s.simplices := by
      cases start with
      | none =>
        simp only at hq
        intro u hu
        exact ((hI.index pt queue hq u).mp hu).1
      | some c =>
        simp only [Option.some.injEq] at hq
        subst hq
        intro u hu
        rw [List.mem_singleton] at hu
        subst hu
        exact hstart u rfl
    split at hok
    · cases hok
    · rename_i s1 bad hbw
      obtain ⟨hI1, hd1, hn1, hsub1, hbad⟩ := bwLoop_spec s.dim circ s queue [] [] s1 bad hI hqS hbw
      obtain ⟨hbn, hsn1⟩ := bwLoop_nodup s.dim circ s queue [] [] s1 bad hbw
      have hbadN : bad.Nodup := hbn List.nodup_nil
      have hbad' : ∀ u, u ∈ bad ↔ (u ∈ s.simplices ∧ u ∉ s1.simplices) := by
        intro u; rw [hbad u]; simp
      split at hok
      · cases hok
      · rename_i s2' fl' hh
        have hfaces : ∀ f ∈ List.filter (fun f => decide (List.count f (facesOf s1.dim bad) < 2)) (facesOf s1.dim bad),
            pt ∉ f → ValidSimplex s.dim s.nVerts (f ++ [pt]) := by
          intro f hf hptf
          obtain ⟨t, htb, hft⟩ := mem_facesOf.mp (List.mem_filter.mp hf).1
          have htv := hI.valid t ((hbad' t).mp htb).1
          rw [hd1] at hft
          refine face_append_valid htv hft ?_ (by omega)
          intro v hv
          exact hfresh t ((hbad' t).mp htb).1 v ((combos_sublist _ _ _ hft).1.subset hv)
        have hptface : ∀ f ∈ List.filter (fun f => decide (List.count f (facesOf s1.dim bad) < 2)) (facesOf s1.dim bad),
            pt ∉ f := by
          intro f hf hp
          obtain ⟨t, htb, hft⟩ := mem_facesOf.mp (List.mem_filter.mp hf).1
          exact hnpt t ((hbad' t).mp htb).1 ((combos_sublist _ _ _ hft).1.subset hp)
        obtain ⟨hI2, _, _, _, _⟩ := holeLoop_spec pt s.dim s.nVerts _ s1 fl s2' fl' hI1 hd1 hn1 hfaces hh
        obtain ⟨hmem2, hsn2, hvn2⟩ := holeLoop_exact pt s.dim s.nVerts _ s1 fl s2' fl' hI1 hd1 hn1 hfaces hfl hh
        split at hok
        · cases hok
        · rename_i newT hnt
          have hnew : ∀ u, u ∈ newT ↔ (u ∈ s2'.simplices ∧ pt ∈ u) := hI2.index pt newT hnt
          -- before the hole loop no simplex contains `pt`
          have hnewN : newT.Nodup := by
            refine hvn2 pt ?_ newT hnt
            intro l hl
            have : l = [] := by
              apply List.eq_nil_iff_forall_not_mem.mpr
              intro u hu
              obtain ⟨h1, h2⟩ := (hI1.index pt l hl u).mp hu
              exact hnpt u (hsub1 u h1) h2
            rw [this]; exact List.nodup_nil
          have hnew' : ∀ u, u ∈ newT ↔
              ∃ f ∈ List.filter (fun f => decide (List.count f (facesOf s1.dim bad) < 2)) (facesOf s1.dim bad),
                u = f ++ [pt] := by
            intro u
            rw [hnew u, hmem2 u]
            constructor
            · rintro ⟨h | ⟨f, hf, _, rfl⟩, hp⟩
              · exact absurd hp (hnpt u (hsub1 u h))
              · exact ⟨f, hf, rfl⟩
            · rintro ⟨f, hf, rfl⟩
              exact ⟨Or.inr ⟨f, hf, hptface f hf, rfl⟩, by simp⟩
          simp only [Except.ok.injEq, Prod.mk.injEq] at hok
          obtain ⟨rfl, rfl, rfl, rfl⟩ := hok
          have hdel : setDiff bad newT = bad := by
            unfold setDiff
            rw [List.filter_eq_self]
            intro u hu
            have : u ∉ newT := fun h => hnpt u ((hbad' u).mp hu).1 ((hnew u).mp h).2
            simpa using this
          have hadd : setDiff newT bad = newT := by
            unfold setDiff
            rw [List.filter_eq_self]
            intro u hu
            have : u ∉ bad := fun h => hnpt u ((hbad' u).mp h).1 ((hnew u).mp hu).2
            simpa using this
          rw [hdel, hadd]
          refine ⟨hbadN, hnewN, fun u hu => ((hbad' u).mp hu).1, ?_, ?_, fun h => hsn2 (hsn1 h)⟩
          · intro u
            rw [hnew' u, hole, hd1]
          · intro u
            rw [hmem2 u, hnew' u]
            constructor
            · rintro (h | ⟨f, hf, _, rfl⟩)
              · exact Or.inl ⟨hsub1 u h, fun hb => ((hbad' u).mp hb).2 h⟩
              · exact Or.inr ⟨f, hf, rfl⟩
            · rintro (⟨h1, h2⟩ | ⟨f, hf, rfl⟩)
              · left
                by_contra hc
                exact h2 ((hbad' u).mpr ⟨h1, hc⟩)
              · exact Or.inr ⟨f, hf, hptface f hf, rfl⟩

/-- replacing the sub-list `D` of `S` by new elements `A`: what happens to a sum over the list (read as a set) -/
theorem sum_replace {β α : Type} [DecidableEq β] [AddCommMonoid α] (f : β → α) {S S' D A : List β}
    (hS : S.Nodup) (hS' : S'.Nodup) (hD : D.Nodup) (hA : A.Nodup) (hDS : ∀ u ∈ D, u ∈ S) (hAS : ∀ u ∈ A, u ∉ S)
    (hmem : ∀ u, u ∈ S' ↔ ((u ∈ S ∧ u ∉ D) ∨ u ∈ A)) :
    (S'.map f).sum + (D.map f).sum = (S.map f).sum + (A.map f).sum := by
  have hK : (S.filter (fun u => u ∉ D)).Nodup := hS.filter _
  have hmK : ∀ u, u ∈ S.filter (fun u => u ∉ D) ↔ (u ∈ S ∧ u ∉ D) := by
    intro u; simp [List.mem_filter]
  have p1 : S.Perm (D ++ S.filter (fun u => u ∉ D)) := by
    rw [List.perm_ext_iff_of_nodup hS]
    · intro u
      rw [List.mem_append, hmK]
      constructor
      · intro h
        by_cases hd : u ∈ D
        · exact Or.inl hd
        · exact Or.inr ⟨h, hd⟩
      · rintro (h | h)
        · exact hDS u h
        · exact h.1
    · rw [List.nodup_append]
      exact ⟨hD, hK, fun a ha b hb hab => ((hmK b).mp hb).2 (hab ▸ ha)⟩
  have p2 : S'.Perm (S.filter (fun u => u ∉ D) ++ A) := by
    rw [List.perm_ext_iff_of_nodup hS']
    · intro u
      rw [List.mem_append, hmK, hmem]
    · rw [List.nodup_append]
      exact ⟨hK, hA, fun a ha b hb hab => hAS b hb (hab ▸ ((hmK a).mp ha).1)⟩
  rw [(p1.map f).sum_eq, (p2.map f).sum_eq]
  simp only [List.map_append, List.sum_append]
  rw [add_comm ((D.map f).sum), add_right_comm]

section volume
variable {α : Type} [CommRing α] [LinearOrder α] [IsStrictOrderedRing α]

/-- (5) ONE ACCEPTED INTERIOR INSERTION OF THE MODEL CONSERVES THE AREA (dimension 2).
Hypotheses about the code path: the index invariant, `pt` is the fresh last vertex index, no hole simplex was
reported almost flat.  Hypotheses about truthful geometry, for `bad = deleted`: the local tiling hypothesis
`OppositeSides2`, non-degenerate triangles, and the cavity is star-shaped with respect to the new point. -/
theorem bowyerWatson_volume_2d (x : Nat → α × α) {s s' : State} {pt : Nat} {start : Option Simplex}
    {circ fl fl' : List (Simplex × Bool)} {deleted added : List Simplex}
    (hI : Inv s) (hdim : s.dim = 2) (hpt : s.nVerts = pt + 1)
    (hfresh : ∀ t ∈ s.simplices, ∀ v ∈ t, v < pt)
    (hstart : ∀ c, start = some c → c ∈ s.simplices) (hfl : ∀ r ∈ fl, r.2 = false)
    (hok : bowyerWatson s pt start circ fl = .ok (s', deleted, added, fl'))
    (hO : OppositeSides2 x deleted) (hnd : ∀ t ∈ deleted, sv2 x t ≠ 0)
    (hstar : ∀ e ∈ hole 2 deleted,
      0 ≤ osign (sv2 x (owner 2 deleted e)) * sve2 x (owner 2 deleted e) e (x pt)) :
    (added.map (fun t => |sv2 x t|)).sum = (deleted.map (fun t => |sv2 x t|)).sum ∧
    (s.simplices.Nodup →
      (s'.simplices.map (fun t => |sv2 x t|)).sum = (s.simplices.map (fun t => |sv2 x t|)).sum) := by
  obtain ⟨hDn, hAn, hDS, hA, hS', hSn⟩ := bowyerWatson_exact hI hpt hfresh hstart hfl hok
  rw [hdim] at hA
  have hsorted : ∀ t ∈ deleted, t.length = 3 ∧ t.Pairwise (· < ·) := by
    intro t ht
    have := hI.valid t (hDS t ht)
    rw [hdim] at this
    exact ⟨this.1, this.2.1⟩
  have hperm : added.Perm ((hole 2 deleted).map (fun f => f ++ [pt])) := by
    rw [List.perm_ext_iff_of_nodup hAn ((hole_nodup 2 deleted).map (List.append_left_injective [pt]))]
    intro u
    rw [hA u, List.mem_map]
    constructor
    · rintro ⟨f, hf, rfl⟩; exact ⟨f, hf, rfl⟩
    · rintro ⟨f, hf, rfl⟩; exact ⟨f, hf, rfl⟩
  have h1 : (added.map (fun t => |sv2 x t|)).sum = (deleted.map (fun t => |sv2 x t|)).sum := by
    rw [(hperm.map _).sum_eq, List.map_map, cavity_conserved_2d x deleted pt hDn hsorted hO hnd hstar]
    rfl
  refine ⟨h1, fun hN => ?_⟩
  have hAS : ∀ u ∈ added, u ∉ s.simplices := by
    intro u hu hus
    obtain ⟨f, _, rfl⟩ := (hA u).mp hu
    exact absurd (hfresh _ hus pt (by simp)) (Nat.lt_irrefl _)
  have := sum_replace (fun t => |sv2 x t|) hN (hSn hN) hDn hAn hDS hAS hS'
  rw [h1] at this
  exact add_right_cancel this

/-- (5), dimension 3: one accepted interior insertion of the model conserves the volume. -/
theorem bowyerWatson_volume_3d (x : Nat → α × α × α) {s s' : State} {pt : Nat} {start : Option Simplex}
    {circ fl fl' : List (Simplex × Bool)} {deleted added : List Simplex}
    (hI : Inv s) (hdim : s.dim = 3) (hpt : s.nVerts = pt + 1)
    (hfresh : ∀ t ∈ s.simplices, ∀ v ∈ t, v < pt)
    (hstart : ∀ c, start = some c → c ∈ s.simplices) (hfl : ∀ r ∈ fl, r.2 = false)
    (hok : bowyerWatson s pt start circ fl = .ok (s', deleted, added, fl'))
    (hO : OppositeSides3 x deleted) (hnd : ∀ t ∈ deleted, sv3 x t ≠ 0)
    (hstar : ∀ e ∈ hole 3 deleted,
      0 ≤ osign (sv3 x (owner 3 deleted e)) * sve3 x (owner 3 deleted e) e (x pt)) :
    (added.map (fun t => |sv3 x t|)).sum = (deleted.map (fun t => |sv3 x t|)).sum ∧
    (s.simplices.Nodup →
      (s'.simplices.map (fun t => |sv3 x t|)).sum = (s.simplices.map (fun t => |sv3 x t|)).sum) := by
  obtain ⟨hDn, hAn, hDS, hA, hS', hSn⟩ := bowyerWatson_exact hI hpt hfresh hstart hfl hok
  rw [hdim] at hA
  have hsorted : ∀ t ∈ deleted, t.length = 4 ∧ t.Pairwise (· < ·) := by
    intro t ht
    have := hI.valid t (hDS t ht)
    rw [hdim] at this
    exact ⟨this.1, this.2.1⟩
  have hperm : added.Perm ((hole 3 deleted).map (fun f => f ++ [pt])) := by
    rw [List.perm_ext_iff_of_nodup hAn ((hole_nodup 3 deleted).map (List.append_left_injective [pt]))]
    intro u
    rw [hA u, List.mem_map]
    constructor
    · rintro ⟨f, hf, rfl⟩; exact ⟨f, hf, rfl⟩
    · rintro ⟨f, hf, rfl⟩; exact ⟨f, hf, rfl⟩
  have h1 : (added.map (fun t => |sv3 x t|)).sum = (deleted.map (fun t => |sv3 x t|)).sum := by
    rw [(hperm.map _).sum_eq, List.map_map, cavity_conserved_3d x deleted pt hDn hsorted hO hnd hstar]
    rfl
  refine ⟨h1, fun hN => ?_⟩
  have hAS : ∀ u ∈ added, u ∉ s.simplices := by
    intro u hu hus
    obtain ⟨f, _, rfl⟩ := (hA u).mp hu
    exact absurd (hfresh _ hus pt (by simp)) (Nat.lt_irrefl _)
  have := sum_replace (fun t => |sv3 x t|) hN (hSn hN) hDn hAn hDS hAS hS'
  rw [h1] at this
  exact add_right_cancel this

end volume

/-- an accepted `add_point` that did not go through `_extend_hull` (the resolved simplex is not `()`) IS one call of
`bowyer_watson` on the state with the new vertex appended, started from a simplex of the triangulation -/
theorem addPoint_interior {s s' : State} {hint : Option Simplex} {o : Oracle} {D A : List Simplex}
    (hv : ValidHint s hint) (hh : hint ≠ some []) (hl : o.locate ≠ some [])
    (hok : addPoint s hint o = .ok (s', D, A)) :
    ∃ simplex, simplex ∈ s.simplices ∧
      bowyerWatson { s with vts := s.vts ++ [[]], nVerts := s.nVerts + 1 } s.nVerts (some simplex) o.circ o.flat =
        .ok (s', D, A, []) := by
  unfold addPoint at hok
  simp only at hok
  split at hok
  · cases hok
  · rename_i simplex hres
    have hsx := addPoint_resolve hv hres
    have hne : simplex ≠ [] := by
      rintro rfl
      cases hint with
      | some h' =>
        simp only at hres
        split at hres
        · cases hres; exact hh rfl
        · cases hres
      | none =>
        simp only at hres
        split at hres
        · cases hres
        · rename_i l hloc
          split at hres
          · cases hres; exact hl hloc
          · cases hres
    have hsS : simplex ∈ s.simplices := by
      rcases hsx with h | h
      · exact absurd h hne
      · exact h
    rw [if_neg hne] at hok
    split at hok
    · cases hok
    · split at hok
      · cases hok
      · split at hok
        · split at hok <;> cases hok
        · split at hok
          · split at hok <;> cases hok
          · split at hok
            · cases hok
            · rename_i s3 del add fl' hbw
              split at hok
              · cases hok
              · rename_i hfl'
                simp only [Except.ok.injEq, Prod.mk.injEq] at hok
                obtain ⟨rfl, rfl, rfl⟩ := hok
                have : fl' = [] := by simpa using hfl'
                subst this
                exact ⟨simplex, hsS, hbw⟩

/-! ### `simplices` never holds a simplex twice (needed to read the list as a set when summing volumes) -/

theorem holeLoop_nodup (pt : Nat) : ∀ (fs : List Simplex) (s : State) (fl : List (Simplex × Bool))
    (s2 : State) (fl2 : List (Simplex × Bool)), holeLoop pt fs s fl = .ok (s2, fl2) →
    s.simplices.Nodup → s2.simplices.Nodup
  | [], s, fl, s2, fl2, hok, h => by
    simp only [holeLoop, Except.ok.injEq, Prod.mk.injEq] at hok
    obtain ⟨rfl, rfl⟩ := hok
    exact h
  | face :: fs, s, fl, s2, fl2, hok, h => by
    simp only [holeLoop] at hok
    split at hok
    · exact holeLoop_nodup pt fs s fl s2 fl2 hok h
    · split at hok
      · cases hok
      · split at hok
        · exact holeLoop_nodup pt fs s _ s2 fl2 hok h
        · split at hok
          · cases hok
          · rename_i sa ha
            exact holeLoop_nodup pt fs sa _ s2 fl2 hok ((addSimplex_nodup ha).1 h)

theorem bowyerWatson_nodup {s s2 : State} {pt : Nat} {start : Option Simplex} {circ fl fl2 : List (Simplex × Bool)}
    {del add : List Simplex} (hok : bowyerWatson s pt start circ fl = .ok (s2, del, add, fl2)) :
    s.simplices.Nodup → s2.simplices.Nodup := by
  intro h
  unfold bowyerWatson at hok
  simp only at hok
  split at hok
  · cases hok
  · split at hok
    · cases hok
    · rename_i s1 bad hbw
      split at hok
      · cases hok
      · rename_i s2' fl' hh
        split at hok
        · cases hok
        · simp only [Except.ok.injEq, Prod.mk.injEq] at hok
          obtain ⟨rfl, _⟩ := hok
          exact holeLoop_nodup _ _ _ _ _ _ hh ((bwLoop_nodup _ _ _ _ _ _ _ _ hbw).2 h)

theorem hullLoop_nodup (pt : Nat) : ∀ (fs : List Simplex) (s : State) (new : List Simplex)
    (ori : List (Simplex × Int × Int)) (fl : List (Simplex × Bool))
    (s2 : State) (new2 : List Simplex) (ori2 : List (Simplex × Int × Int)) (fl2 : List (Simplex × Bool)),
    hullLoop pt fs s new ori fl = .ok (s2, new2, ori2, fl2) → s.simplices.Nodup → s2.simplices.Nodup
  | [], s, new, ori, fl, s2, new2, ori2, fl2, hok, h => by
    simp only [hullLoop, Except.ok.injEq, Prod.mk.injEq] at hok
    obtain ⟨rfl, _⟩ := hok
    exact h
  | face :: fs, s, new, ori, fl, s2, new2, ori2, fl2, hok, h => by
    simp only [hullLoop] at hok
    split at hok
    · cases hok
    · split at hok
      · split at hok
        · cases hok
        · split at hok
          · exact hullLoop_nodup pt fs s _ _ _ s2 new2 ori2 fl2 hok h
          · split at hok
            · cases hok
            · rename_i sa ha
              exact hullLoop_nodup pt fs sa _ _ _ s2 new2 ori2 fl2 hok ((addSimplex_nodup ha).1 h)
      · exact hullLoop_nodup pt fs s _ _ _ s2 new2 ori2 fl2 hok h

theorem extendHull_nodup {s s2 : State} {ori : List (Simplex × Int × Int)} {fl fl' : List (Simplex × Bool)}
    {temp : List Simplex} (hok : extendHull s ori fl = .ok (s2, temp, fl')) :
    s.simplices.Nodup → s2.simplices.Nodup := by
  intro h
  unfold extendHull at hok
  simp only at hok
  split at hok
  · cases hok
  · split at hok
    · cases hok
    · rename_i s2' new ori' fl'' hh
      split at hok
      · cases hok
      · split at hok
        · split at hok
          · cases hok
          · split at hok
            · cases hok
            · split at hok <;> cases hok
        · simp only [Except.ok.injEq, Prod.mk.injEq] at hok
          obtain ⟨rfl, _⟩ := hok
          exact hullLoop_nodup _ _ _ _ _ _ _ _ _ _ hh h

theorem addPoint_nodup {s s' : State} {hint : Option Simplex} {o : Oracle} {D A : List Simplex}
    (hok : addPoint s hint o = .ok (s', D, A)) : s.simplices.Nodup → s'.simplices.Nodup := by
  intro h
  unfold addPoint at hok
  simp only at hok
  split at hok
  · cases hok
  · split at hok
    · split at hok
      · cases hok
      · split at hok
        · cases hok
        · rename_i s2 temp fl hext
          split at hok
          · cases hok
          · rename_i s3 del add fl' hbw
            split at hok
            · cases hok
            · simp only [Except.ok.injEq, Prod.mk.injEq] at hok
              obtain ⟨rfl, _⟩ := hok
              exact bowyerWatson_nodup hbw (extendHull_nodup hext h)
    · split at hok
      · cases hok
      · split at hok
        · cases hok
        · split at hok
          · split at hok <;> cases hok
          · split at hok
            · split at hok <;> cases hok
            · split at hok
              · cases hok
              · rename_i s3 del add fl' hbw
                split at hok
                · cases hok
                · simp only [Except.ok.injEq, Prod.mk.injEq] at hok
                  obtain ⟨rfl, _⟩ := hok
                  exact bowyerWatson_nodup hbw h

theorem addAll_nodup : ∀ (initial : List Simplex) (s s' : State), addAll s initial = .ok s' →
    s.simplices.Nodup → s'.simplices.Nodup
  | [], s, s', hok, h => by
    simp only [addAll, Except.ok.injEq] at hok
    subst hok; exact h
  | t :: ts, s, s', hok, h => by
    simp only [addAll] at hok
    split at hok
    · cases hok
    · rename_i sa ha
      exact addAll_nodup ts sa s' hok ((addSimplex_nodup ha).1 h)

/-- in every state of every history the simplex set has no repetitions -/
theorem reachable_nodup {dim n : Nat} {initial : List Simplex} (hv : ∀ t ∈ initial, ValidRaw dim n t) {s : State}
    (h : Reachable dim n initial s) : s.simplices.Nodup := by
  induction h with
  | init hok => exact addAll_nodup _ _ _ hok List.nodup_nil
  | insert _ _ hok ih => exact addPoint_nodup hok ih
  | reject hr hok ih => rw [addPoint_reject (reachable_inv hv hr) hok]; exact ih

section volume'
variable {α : Type} [CommRing α] [LinearOrder α] [IsStrictOrderedRing α]

/-- (5) at the level of `add_point`: an accepted INTERIOR insertion (no hull extension), none of whose new triangles was
reported almost flat, under truthful geometry of the cavity `D` (local tiling hypothesis, non-degenerate triangles,
star-shaped w.r.t. the new point `x s.nVerts`) reports `added` and `deleted` of equal total area, and the total area of
the triangulation is unchanged. -/
theorem addPoint_interior_volume_2d (x : Nat → α × α) {s s' : State} {hint : Option Simplex} {o : Oracle}
    {D A : List Simplex} (hI : Inv s) (hdim : s.dim = 2) (hv : ValidHint s hint) (hh : hint ≠ some [])
    (hl : o.locate ≠ some []) (hfl : ∀ r ∈ o.flat, r.2 = false)
    (hok : addPoint s hint o = .ok (s', D, A))
    (hO : OppositeSides2 x D) (hnd : ∀ t ∈ D, sv2 x t ≠ 0)
    (hstar : ∀ e ∈ hole 2 D, 0 ≤ osign (sv2 x (owner 2 D e)) * sve2 x (owner 2 D e) e (x s.nVerts)) :
    (A.map (fun t => |sv2 x t|)).sum = (D.map (fun t => |sv2 x t|)).sum ∧
    (s.simplices.Nodup →
      (s'.simplices.map (fun t => |sv2 x t|)).sum = (s.simplices.map (fun t => |sv2 x t|)).sum) := by
  obtain ⟨simplex, hsS, hbw⟩ := addPoint_interior hv hh hl hok
  exact bowyerWatson_volume_2d x (s := { s with vts := s.vts ++ [[]], nVerts := s.nVerts + 1 }) (inv_push hI) hdim rfl
    (fun t ht v hv' => (hI.valid t ht).2.2 v hv') (fun c hc => by cases hc; exact hsS) hfl hbw hO hnd hstar

theorem addPoint_interior_volume_3d (x : Nat → α × α × α) {s s' : State} {hint : Option Simplex} {o : Oracle}
    {D A : List Simplex} (hI : Inv s) (hdim : s.dim = 3) (hv : ValidHint s hint) (hh : hint ≠ some [])
    (hl : o.locate ≠ some []) (hfl : ∀ r ∈ o.flat, r.2 = false)
    (hok : addPoint s hint o = .ok (s', D, A))
    (hO : OppositeSides3 x D) (hnd : ∀ t ∈ D, sv3 x t ≠ 0)
    (hstar : ∀ e ∈ hole 3 D, 0 ≤ osign (sv3 x (owner 3 D e)) * sve3 x (owner 3 D e) e (x s.nVerts)) :
    (A.map (fun t => |sv3 x t|)).sum = (D.map (fun t => |sv3 x t|)).sum ∧
    (s.simplices.Nodup →
      (s'.simplices.map (fun t => |sv3 x t|)).sum = (s.simplices.map (fun t => |sv3 x t|)).sum) := by
  obtain ⟨simplex, hsS, hbw⟩ := addPoint_interior hv hh hl hok
  exact bowyerWatson_volume_3d x (s := { s with vts := s.vts ++ [[]], nVerts := s.nVerts + 1 }) (inv_push hI) hdim rfl
    (fun t ht v hv' => (hI.valid t ht).2.2 v hv') (fun c hc => by cases hc; exact hsS) hfl hbw hO hnd hstar

end volume'

/-! ### concrete configurations for the non-vacuity examples of `Props/C03.lean` -/

/-- the unit square (side 4) split along the diagonal 0–2 -/
def exSq : State :=
  ⟨2, 4, [[0, 1, 2], [0, 2, 3]], [[[0, 1, 2], [0, 2, 3]], [[0, 1, 2]], [[0, 1, 2], [0, 2, 3]], [[0, 2, 3]]]⟩

/-- the state after the insertion of the fifth point: four triangles around it -/
def exSq1 : State :=
  ⟨2, 5, [[0, 1, 4], [1, 2, 4], [0, 3, 4], [2, 3, 4]],
    [[[0, 1, 4], [0, 3, 4]], [[0, 1, 4], [1, 2, 4]], [[1, 2, 4], [2, 3, 4]], [[0, 3, 4], [2, 3, 4]],
      [[0, 1, 4], [1, 2, 4], [0, 3, 4], [2, 3, 4]]]⟩

/-- the recorded answers for the insertion of the point `(2, 1)`: both triangles are bad, no new triangle is flat -/
def exOsq : Oracle :=
  { reduced := some [0, 1, 2],
    circ := [([0, 1, 2], true), ([0, 2, 3], true)],
    flat := [([0, 1, 4], false), ([1, 2, 4], false), ([0, 3, 4], false), ([2, 3, 4], false)] }

/-- the coordinates: the corners of the square, then the new point `(2, 1)` near the diagonal -/
def exX : Nat → ℚ × ℚ
  | 0 => (0, 0)
  | 1 => (4, 0)
  | 2 => (4, 4)
  | 3 => (0, 4)
  | _ => (2, 1)

/-- a DEGENERATE cavity: three collinear points, the new point off the line -/
def exXflat : Nat → ℚ × ℚ
  | 0 => (0, 0)
  | 1 => (1, 0)
  | 2 => (2, 0)
  | _ => (0, 1)

end Tri
