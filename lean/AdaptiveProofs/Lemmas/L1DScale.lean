import AdaptiveProofs.Lemmas.L1DDefs
import Mathlib.Tactic.Linarith

/-!
# Learner1D model: output-scale bookkeeping and the local specification of the loss update

* A. `BoxOK`: the output bounding box is ordered and `scaleY` is its largest extent.
* B. staleness bound `scaleY ≤ factor * oldScaleY`, `oldScaleY ≤ scaleY`.
* C. local specification of `updInterp` (`lget` after `lset`/`lerase`).
* D. `recomputeLoop` / `maybeRescale` leave every visited key normalised by the current scale.

All statements are for arbitrary `lossFn`, `r12`, over an arbitrary linearly ordered field.
-/
set_option linter.unusedSectionVars false
namespace L1D
variable {α : Type} [Field α] [LinearOrder α] [IsStrictOrderedRing α]

/-! ## the part of the state that is not a loss table -/

/-- the state with both loss tables emptied: everything `getLoss`, the scales, the bounding boxes
and the data depend on -/
def core (s : State α) : State α := { s with losses := [], lossesC := [] }

variable (lossFn : List (Option α) → List (Option (List α)) → Loss α) (r12 : α → α)

theorem getLoss_core (s : State α) (a b : α) :
    getLoss lossFn (core s) a b = getLoss lossFn s a b := rfl

theorem getLoss_congr {s s' : State α} (h : core s' = core s) (a b : α) :
    getLoss lossFn s' a b = getLoss lossFn s a b := by
  rw [← getLoss_core lossFn s', ← getLoss_core lossFn s, h]

theorem core_updInterp (s : State α) (xl xr : α) :
    core (updInterp lossFn r12 s xl xr) = core s := rfl

theorem core_foldl_updInterp (keys : List (Ival α)) (s : State α) :
    core (keys.foldl (fun s iv => updInterp lossFn r12 s iv.1 iv.2) s) = core s := by
  induction keys generalizing s with
  | nil => rfl
  | cons k ks ih => rw [List.foldl_cons, ih]; rfl

theorem core_recomputeLoop (s : State α) (keys : List (Ival α)) :
    core (recomputeLoop lossFn r12 s keys) = core s :=
  core_foldl_updInterp lossFn r12 keys s

theorem core_updateLosses (s : State α) (x : α) (real : Bool) :
    core (updateLosses lossFn r12 s x real) = core s := by
  unfold updateLosses findNeighbors
  dsimp only
  cases real
  · simp only [Bool.false_eq_true, if_false]
    repeat' split
    all_goals rfl
  · simp only [if_true]
    repeat' split
    all_goals first | rfl | exact core_foldl_updInterp lossFn r12 _ _

theorem core_maybeRescale (s : State α) :
    core (maybeRescale lossFn r12 s) =
      if s.factor * s.oldScaleY < s.scaleY then core { s with oldScaleY := s.scaleY } else core s := by
  unfold maybeRescale
  split
  · have h := core_recomputeLoop lossFn r12 s (s.losses.map Prod.fst).reverse
    generalize recomputeLoop lossFn r12 s (s.losses.map Prod.fst).reverse = t at h
    show core { t with oldScaleY := (core t).scaleY } = _
    rw [h]
    show core { core t with oldScaleY := (core s).scaleY } = _
    rw [h]; rfl
  · rfl

theorem core_tellPending (s : State α) (x : α) :
    core (tellPending lossFn r12 s x) =
      if hasData s x then core s else
        core { s with pending := if x ∈ s.pending then s.pending else x :: s.pending,
                      xsC := sinsert x s.xsC } := by
  unfold tellPending
  split
  · rfl
  · exact core_updateLosses lossFn r12 _ _ _

/-! ## A. the output bounding box -/

/-- the output bounding box is ordered componentwise and `scaleY` is its largest extent
(`0` while nothing has been told) -/
def BoxOK (s : State α) : Prop :=
  match s.bboxY with
  | none => s.scaleY = 0
  | some (mn, mx) =>
    List.Forall₂ (· ≤ ·) mn mx ∧ s.scaleY = maxOf (List.zipWith (· - ·) mx mn)

/-- every stored value has `d` components -/
def VDim (d : Nat) (s : State α) : Prop := ∀ kv ∈ s.data, kv.2.length = d

/-- the stored bounding box has at most `d` components (it has exactly `d` once a value has been
told through `tell`; the batch path of `tell_many` called with no data at all stores an empty
box, whence `≤`) -/
def BoxDim (d : Nat) (s : State α) : Prop := ∀ b, s.bboxY = some b → b.1.length ≤ d

theorem boxOK_congr {s s' : State α} (hb : s'.bboxY = s.bboxY) (hs : s'.scaleY = s.scaleY)
    (h : BoxOK s) : BoxOK s' := by
  unfold BoxOK at h ⊢
  rw [hb, hs]; exact h

theorem boxOK_of_core {s s' : State α} (hc : core s' = core s) (h : BoxOK s) : BoxOK s' :=
  boxOK_congr (show (core s').bboxY = (core s).bboxY from congrArg State.bboxY hc)
    (show (core s').scaleY = (core s).scaleY from congrArg State.scaleY hc) h

theorem boxOK_init (lo hi factor dxEps : α) (nn : Nat) : BoxOK (init lo hi factor dxEps nn) := by
  simp [BoxOK, init]

/-! ### `maxOf` -/

theorem foldl_max_ge (l : List α) (m : α) :
    m ≤ l.foldl (fun m x => if m < x then x else m) m := by
  induction l generalizing m with
  | nil => exact le_refl _
  | cons a r ih =>
    simp only [List.foldl_cons]
    split
    · exact le_trans (le_of_lt ‹_›) (ih _)
    · exact ih _

theorem foldl_max_mono {l l' : List α} (h : List.Forall₂ (· ≤ ·) l l') {m m' : α} (hm : m ≤ m') :
    l.foldl (fun m x => if m < x then x else m) m ≤
      l'.foldl (fun m x => if m < x then x else m) m' := by
  induction h generalizing m m' with
  | nil => exact hm
  | @cons a b l l' hab _ ih =>
    simp only [List.foldl_cons]
    apply ih
    split <;> split
    · exact hab
    · exact le_trans hab (not_lt.1 ‹_›)
    · exact le_trans hm (le_of_lt ‹_›)
    · exact hm

theorem maxOf_nonneg {l : List α} (h : ∀ x ∈ l, 0 ≤ x) : 0 ≤ maxOf l := by
  unfold maxOf
  refine le_trans ?_ (foldl_max_ge _ _)
  cases l with
  | nil => exact le_refl _
  | cons a r => exact h a (List.mem_cons_self ..)

theorem maxOf_mono {l l' : List α} (h : List.Forall₂ (· ≤ ·) l l') : maxOf l ≤ maxOf l' := by
  unfold maxOf
  apply foldl_max_mono h
  cases h with
  | nil => exact le_refl _
  | cons hab _ => exact hab

theorem zipWith_sub_nonneg {mn mx : List α} (h : List.Forall₂ (· ≤ ·) mn mx) :
    ∀ x ∈ List.zipWith (· - ·) mx mn, 0 ≤ x := by
  induction h with
  | nil => intro x hx; simp at hx
  | @cons a b l l' hab _ ih =>
    intro x hx
    simp only [List.zipWith_cons_cons, List.mem_cons] at hx
    rcases hx with rfl | hx
    · exact sub_nonneg.2 hab
    · exact ih x hx

theorem forall₂_le_refl (y : List α) : List.Forall₂ (· ≤ ·) y y := by
  induction y with
  | nil => exact .nil
  | cons a r ih => exact .cons (le_refl a) ih

theorem forall₂_minL_maxL {mn mx : List α} (h : List.Forall₂ (· ≤ ·) mn mx) (y : List α) :
    List.Forall₂ (· ≤ ·) (minL mn y) (maxL mx y) := by
  induction h generalizing y with
  | nil => simp [minL, maxL]
  | @cons a b l l' hab _ ih =>
    cases y with
    | nil => simp [minL, maxL]
    | cons c ys =>
      simp only [minL, maxL, List.zipWith_cons_cons] at ih ⊢
      refine .cons ?_ (ih ys)
      split <;> split
      · exact le_of_lt (lt_trans ‹c < a› (lt_of_le_of_lt hab ‹b < c›))
      · exact le_trans (le_of_lt ‹c < a›) hab
      · exact le_trans hab (le_of_lt ‹b < c›)
      · exact hab

theorem BoxOK.scaleY_nonneg {s : State α} (h : BoxOK s) : 0 ≤ s.scaleY := by
  unfold BoxOK at h
  split at h
  · exact le_of_eq h.symm
  · rw [h.2]; exact maxOf_nonneg (zipWith_sub_nonneg h.1)

/-- `_update_scale` keeps the box ordered and `scaleY` equal to its largest extent
(no hypothesis on the number of components of `y` is needed for this). -/
theorem boxOK_updateScale {s : State α} (h : BoxOK s) (x : α) (y : List α) :
    BoxOK (updateScale s x y) := by
  unfold BoxOK at h
  unfold BoxOK updateScale
  dsimp only
  rcases hb : s.bboxY with _ | ⟨mn, mx⟩
  · exact ⟨forall₂_le_refl y, rfl⟩
  · rw [hb] at h
    exact ⟨forall₂_minL_maxL h.1 y, rfl⟩

theorem forall₂_sub_le {mn mx : List α} (h : List.Forall₂ (· ≤ ·) mn mx) {y : List α}
    (hy : mn.length ≤ y.length) :
    List.Forall₂ (· ≤ ·) (List.zipWith (· - ·) mx mn)
      (List.zipWith (· - ·) (maxL mx y) (minL mn y)) := by
  induction h generalizing y with
  | nil => simp [minL, maxL]
  | @cons a b l l' hab _ ih =>
    cases y with
    | nil => simp at hy
    | cons c ys =>
      simp only [minL, maxL, List.zipWith_cons_cons] at ih ⊢
      refine .cons ?_ (ih (by simpa using hy))
      split <;> split <;> linarith

/-- monotonicity of the output scale: a new value with at least as many components as the stored
box never shrinks `scaleY`.  (With fewer components it can: `zip` truncates the box.) -/
theorem scaleY_le_updateScale {s : State α} (h : BoxOK s) (x : α) (y : List α)
    (hd : ∀ b, s.bboxY = some b → b.1.length ≤ y.length) :
    s.scaleY ≤ (updateScale s x y).scaleY := by
  have h' := (boxOK_updateScale h x y).scaleY_nonneg
  unfold BoxOK at h
  unfold updateScale at h' ⊢
  dsimp only at h' ⊢
  rcases hb : s.bboxY with _ | ⟨mn, mx⟩
  · rw [hb] at h h'
    rw [h]; exact h'
  · rw [hb] at h
    rw [h.2]
    exact maxOf_mono (forall₂_sub_le h.1 (hd _ hb))

/-! ### the fields the scale bookkeeping depends on, and how every operation acts on them -/

/-- `(factor, data, bboxY, scaleY, oldScaleY)` -/
def sview (s : State α) : α × List (α × List α) × Option (List α × List α) × α × α :=
  (s.factor, s.data, s.bboxY, s.scaleY, s.oldScaleY)

/-- `P` only looks at `sview` -/
def SViewProp (P : State α → Prop) : Prop := ∀ s s' : State α, sview s' = sview s → P s → P s'

theorem sview_of_core {s s' : State α} (h : core s' = core s) : sview s' = sview s := by
  show sview (core s') = sview (core s)
  rw [h]

/-- the state `tell` builds before it updates the losses -/
def tellPre (s : State α) (x : α) (y : List α) : State α :=
  let s := { s with data := s.data ++ [(x, y)], pending := s.pending.erase x }
  let s := { s with xsC := sinsert x s.xsC, xs := sinsert x s.xs }
  updateScale s x y

theorem tell_eq (s : State α) (x : α) (y : List α) :
    tell lossFn r12 s x y =
      if hasData s x then s else
        maybeRescale lossFn r12 (updateLosses lossFn r12 (tellPre s x y) x true) := rfl

/-- `P` survives the firing of the rescale (`oldScaleY := scaleY`) -/
def FireProp (P : State α → Prop) : Prop :=
  ∀ u : State α, P u → u.factor * u.oldScaleY < u.scaleY → P { u with oldScaleY := u.scaleY }

theorem maybeRescale_preserves {P : State α → Prop} (hP : SViewProp P) (hf : FireProp P)
    {u : State α} (hu : P u) : P (maybeRescale lossFn r12 u) := by
  have hc := core_maybeRescale lossFn r12 u
  split at hc
  · exact hP _ _ (sview_of_core hc) (hf u hu ‹_›)
  · exact hP _ _ (sview_of_core hc) hu

theorem tell_preserves {P : State α → Prop} (hP : SViewProp P) (hf : FireProp P)
    {s : State α} {x : α} {y : List α} (h0 : P s) (hpre : P (tellPre s x y)) :
    P (tell lossFn r12 s x y) := by
  rw [tell_eq]
  split
  · exact h0
  · exact maybeRescale_preserves lossFn r12 hP hf
      (hP _ _ (sview_of_core (core_updateLosses lossFn r12 _ _ _)) hpre)

theorem sview_tellPending (s : State α) (x : α) :
    sview (tellPending lossFn r12 s x) = sview s := by
  have hc := core_tellPending lossFn r12 s x
  split at hc
  · exact sview_of_core hc
  · exact (sview_of_core hc).trans rfl

theorem sview_foldl_tellPending (pts : List α) (s : State α) :
    sview (pts.foldl (tellPending lossFn r12) s) = sview s := by
  induction pts generalizing s with
  | nil => rfl
  | cons p ps ih => rw [List.foldl_cons, ih, sview_tellPending]

theorem sview_ask (s : State α) (n : Nat) (c : Bool) :
    sview (ask lossFn r12 s n c).2 = sview s := by
  unfold ask
  dsimp only
  split
  · exact sview_foldl_tellPending lossFn r12 _ _
  · rfl

theorem sview_removeUnfinished (s : State α) : sview (removeUnfinished s) = sview s := rfl

/-! #### the batch path -/

/-- the state the batch path of `tell_many` builds before it fills the loss tables -/
def batchBase (s : State α) (pts : List (α × List α)) : State α :=
  let data := pts.foldl (fun d kv => dataSet d kv.1 kv.2) s.data
  let pending := s.pending.filter (fun p => !(pts.any (fun kv => decide (kv.1 = p))))
  let xs := sortList (data.map Prod.fst)
  let xsC := sortList (pending ++ data.map Prod.fst)
  let bx : α × α := (if s.lo < xsC.headD 0 then s.lo else xsC.headD 0,
                    if xsC.getLastD 0 < s.hi then s.hi else xsC.getLastD 0)
  let vals := data.map Prod.snd
  let mn := vals.foldl minL (vals.headD [])
  let mx := vals.foldl maxL (vals.headD [])
  let scaleX := bx.2 - bx.1
  let scaleY := maxOf (List.zipWith (· - ·) mx mn)
  { s with data := data, pending := pending, xs := xs, xsC := xsC, bboxX := bx,
           bboxY := some (mn, mx), scaleX := scaleX, scaleY := scaleY, oldScaleY := scaleY,
           lossScale := scaleX, losses := [], lossesC := [] }

theorem core_foldl_of_step {β : Type} (F : State α → β → State α)
    (hF : ∀ s b, core (F s b) = core s) (l : List β) (s : State α) :
    core (l.foldl F s) = core s := by
  induction l generalizing s with
  | nil => rfl
  | cons b bs ih => rw [List.foldl_cons, ih, hF]

theorem core_foldl_fst_of_step {β γ : Type} (F : State α × γ → β → State α × γ)
    (hF : ∀ a b, core (F a b).1 = core a.1) (l : List β) (a : State α × γ) :
    core (l.foldl F a).1 = core a.1 := by
  induction l generalizing a with
  | nil => rfl
  | cons b bs ih => rw [List.foldl_cons, ih, hF]

theorem core_tellManyBatch (s : State α) (pts : List (α × List α)) :
    core (tellManyBatch lossFn r12 s pts) = core (batchBase s pts) := by
  unfold tellManyBatch
  dsimp only
  rw [core_foldl_of_step, core_foldl_fst_of_step, core_foldl_of_step]
  · rfl
  · intro s b; rfl
  · rintro ⟨s, ti⟩ b
    dsimp only
    repeat' split
    all_goals rfl
  · intro s b
    split
    · rfl
    · rfl

/-! #### a generic preservation principle for `step` -/

/-- the `(x, y)` pairs an operation tells -/
def tellsOf : Op α → List (α × List α)
  | .tell x y => [(x, y)]
  | .tellMany pts _ => pts
  | _ => []

theorem foldl_tell_preserves {P : State α → Prop} (hP : SViewProp P) (hf : FireProp P)
    (l : List (α × List α))
    (htell : ∀ s' : State α, P s' → ∀ kv ∈ l, P (tellPre s' kv.1 kv.2))
    {s : State α} (h0 : P s) :
    P (l.foldl (fun s kv => tell lossFn r12 s kv.1 kv.2) s) := by
  induction l generalizing s with
  | nil => exact h0
  | cons kv r ih =>
    rw [List.foldl_cons]
    apply ih (fun s' hs' kv' hkv' => htell s' hs' kv' (List.mem_cons_of_mem _ hkv'))
    exact tell_preserves lossFn r12 hP hf h0 (htell s h0 kv (List.mem_cons_self ..))

/-- A property of the scale fields that survives the firing of the rescale is preserved by an
operation as soon as it survives `tell`'s state update (for the pairs the operation tells) and
holds of the state the batch path builds. -/
theorem step_preserves {P : State α → Prop} (hP : SViewProp P) (hf : FireProp P)
    {s : State α} (op : Op α) (h0 : P s)
    (htell : ∀ s' : State α, P s' → ∀ kv ∈ tellsOf op, P (tellPre s' kv.1 kv.2))
    (hbatch : ∀ pts f, op = .tellMany pts f → P (batchBase s pts)) :
    P (step lossFn r12 s op) := by
  cases op with
  | tell x y =>
    exact tell_preserves lossFn r12 hP hf h0 (htell s h0 (x, y) (List.mem_cons_self ..))
  | tellPending x => exact hP _ _ (sview_tellPending lossFn r12 s x) h0
  | tellMany pts f =>
    show P (tellMany lossFn r12 s pts f)
    unfold tellMany
    split
    · exact foldl_tell_preserves lossFn r12 hP hf pts htell h0
    · exact hP _ _ (sview_of_core (core_tellManyBatch lossFn r12 s pts)) (hbatch pts f rfl)
  | removeUnfinished => exact hP _ _ (sview_removeUnfinished s) h0
  | ask n c => exact hP _ _ (sview_ask lossFn r12 s n c) h0

/-! ### A: `BoxOK` is an invariant -/

theorem sviewProp_boxOK : SViewProp (BoxOK (α := α)) := by
  intro s s' h hs
  simp only [sview, Prod.mk.injEq] at h
  exact boxOK_congr h.2.2.1 h.2.2.2.1 hs

theorem fireProp_boxOK : FireProp (BoxOK (α := α)) :=
  fun _ hu _ => boxOK_congr rfl rfl hu

theorem boxOK_tellPre {s : State α} (h : BoxOK s) (x : α) (y : List α) :
    BoxOK (tellPre s x y) :=
  boxOK_updateScale (boxOK_congr (s := s) rfl rfl h) x y

theorem forall₂_foldl_minL_maxL (vals : List (List α)) {a b : List α}
    (h : List.Forall₂ (· ≤ ·) a b) :
    List.Forall₂ (· ≤ ·) (vals.foldl minL a) (vals.foldl maxL b) := by
  induction vals generalizing a b with
  | nil => exact h
  | cons v vs ih => exact ih (forall₂_minL_maxL h v)

/-- the batch path establishes `BoxOK` from scratch -/
theorem boxOK_batchBase (s : State α) (pts : List (α × List α)) : BoxOK (batchBase s pts) :=
  ⟨forall₂_foldl_minL_maxL _ (forall₂_le_refl _), rfl⟩

theorem boxOK_tellManyBatch (s : State α) (pts : List (α × List α)) :
    BoxOK (tellManyBatch lossFn r12 s pts) :=
  boxOK_of_core (core_tellManyBatch lossFn r12 s pts) (boxOK_batchBase s pts)

theorem boxOK_step {s : State α} (h : BoxOK s) (op : Op α) : BoxOK (step lossFn r12 s op) :=
  step_preserves lossFn r12 sviewProp_boxOK fireProp_boxOK op h
    (fun _ hs' kv _ => boxOK_tellPre hs' kv.1 kv.2) (fun pts _ _ => boxOK_batchBase s pts)

theorem boxOK_tell {s : State α} (h : BoxOK s) (x : α) (y : List α) :
    BoxOK (tell lossFn r12 s x y) := boxOK_step lossFn r12 h (.tell x y)

theorem boxOK_tellPending {s : State α} (h : BoxOK s) (x : α) :
    BoxOK (tellPending lossFn r12 s x) := boxOK_step lossFn r12 h (.tellPending x)

theorem boxOK_removeUnfinished {s : State α} (h : BoxOK s) : BoxOK (removeUnfinished s) :=
  boxOK_congr rfl rfl h

theorem boxOK_ask {s : State α} (h : BoxOK s) (n : Nat) (c : Bool) :
    BoxOK (ask lossFn r12 s n c).2 := boxOK_step lossFn r12 h (.ask n c)

theorem boxOK_tellMany {s : State α} (h : BoxOK s) (pts : List (α × List α)) (f : Bool) :
    BoxOK (tellMany lossFn r12 s pts f) := boxOK_step lossFn r12 h (.tellMany pts f)

theorem boxOK_run_from {s : State α} (h : BoxOK s) (ops : List (Op α)) :
    BoxOK (run lossFn r12 s ops) := by
  unfold run
  induction ops generalizing s with
  | nil => exact h
  | cons op r ih => exact ih (boxOK_step lossFn r12 h op)

/-- In every reachable state the box is ordered, `scaleY` is its largest extent, and so
`0 ≤ scaleY`. -/
theorem boxOK_run (lo hi factor dxEps : α) (nn : Nat) (ops : List (Op α)) :
    BoxOK (run lossFn r12 (init lo hi factor dxEps nn) ops) :=
  boxOK_run_from lossFn r12 (boxOK_init ..) ops

theorem scaleY_nonneg_run (lo hi factor dxEps : α) (nn : Nat) (ops : List (Op α)) :
    0 ≤ (run lossFn r12 (init lo hi factor dxEps nn) ops).scaleY :=
  (boxOK_run lossFn r12 lo hi factor dxEps nn ops).scaleY_nonneg

/-! ## B. staleness of the normalisation -/

theorem step_factor (s : State α) (op : Op α) : (step lossFn r12 s op).factor = s.factor := by
  refine step_preserves lossFn r12 (P := fun s' => s'.factor = s.factor) ?_ ?_ op rfl ?_ ?_
  · intro s1 s2 h hs
    simp only [sview, Prod.mk.injEq] at h
    exact h.1.trans hs
  · intro u hu _; exact hu
  · intro s' hs' kv _; exact hs'
  · intro pts f _; rfl

theorem run_factor (s : State α) (ops : List (Op α)) : (run lossFn r12 s ops).factor = s.factor := by
  unfold run
  induction ops generalizing s with
  | nil => rfl
  | cons op r ih => rw [List.foldl_cons, ih, step_factor]

/-- the losses are at most a factor `factor` out of date -/
def Stale (s : State α) : Prop :=
  1 ≤ s.factor ∧ 0 ≤ s.oldScaleY ∧ s.scaleY ≤ s.factor * s.oldScaleY

theorem stale_maybeRescale {u : State α} (hf : 1 ≤ u.factor) (ho : 0 ≤ u.oldScaleY) :
    Stale (maybeRescale lossFn r12 u) := by
  have hc := core_maybeRescale lossFn r12 u
  split at hc
  · rename_i hlt
    replace hc := sview_of_core hc
    simp only [sview, Prod.mk.injEq] at hc
    obtain ⟨h1, -, -, h4, h5⟩ := hc
    unfold Stale
    rw [h1, h4, h5]
    have hs : 0 ≤ u.scaleY := le_trans (mul_nonneg (le_trans zero_le_one hf) ho) (le_of_lt hlt)
    exact ⟨hf, hs, by nlinarith⟩
  · rename_i hlt
    replace hc := sview_of_core hc
    simp only [sview, Prod.mk.injEq] at hc
    obtain ⟨h1, -, -, h4, h5⟩ := hc
    unfold Stale
    rw [h1, h4, h5]
    exact ⟨hf, ho, not_lt.1 hlt⟩

theorem stale_tell {s : State α} (h : Stale s) (x : α) (y : List α) :
    Stale (tell lossFn r12 s x y) := by
  rw [tell_eq]
  split
  · exact h
  · have hc := sview_of_core (core_updateLosses lossFn r12 (tellPre s x y) x true)
    simp only [sview, Prod.mk.injEq] at hc
    apply stale_maybeRescale
    · rw [hc.1]; exact h.1
    · rw [hc.2.2.2.2]; exact h.2.1

theorem stale_foldl_tell (pts : List (α × List α)) {s : State α} (h : Stale s) :
    Stale (pts.foldl (fun s kv => tell lossFn r12 s kv.1 kv.2) s) := by
  induction pts generalizing s with
  | nil => exact h
  | cons kv r ih => exact ih (stale_tell lossFn r12 h kv.1 kv.2)

theorem stale_of_sview {s s' : State α} (hv : sview s' = sview s) (h : Stale s) : Stale s' := by
  simp only [sview, Prod.mk.injEq] at hv
  obtain ⟨h1, -, -, h4, h5⟩ := hv
  unfold Stale
  rw [h1, h4, h5]; exact h

theorem stale_batchBase {s : State α} (hf : 1 ≤ s.factor) (pts : List (α × List α)) :
    Stale (batchBase s pts) := by
  have h0 : 0 ≤ (batchBase s pts).scaleY := (boxOK_batchBase s pts).scaleY_nonneg
  refine ⟨hf, h0, ?_⟩
  show (batchBase s pts).scaleY ≤ s.factor * (batchBase s pts).scaleY
  nlinarith

/-- B: every operation re-establishes `scaleY ≤ factor * oldScaleY` (and `0 ≤ oldScaleY`);
no hypothesis on the told values is needed. -/
theorem staleness_step {s : State α} (hf : 1 ≤ s.factor) (ho : 0 ≤ s.oldScaleY)
    (hs : s.scaleY ≤ s.factor * s.oldScaleY) (op : Op α) :
    let s' := step lossFn r12 s op
    1 ≤ s'.factor ∧ 0 ≤ s'.oldScaleY ∧ s'.scaleY ≤ s'.factor * s'.oldScaleY := by
  have h : Stale s := ⟨hf, ho, hs⟩
  show Stale (step lossFn r12 s op)
  cases op with
  | tell x y => exact stale_tell lossFn r12 h x y
  | tellPending x => exact stale_of_sview (sview_tellPending lossFn r12 s x) h
  | tellMany pts f =>
    show Stale (tellMany lossFn r12 s pts f)
    unfold tellMany
    split
    · exact stale_foldl_tell lossFn r12 pts h
    · exact stale_of_sview (sview_of_core (core_tellManyBatch lossFn r12 s pts))
        (stale_batchBase hf pts)
  | removeUnfinished => exact h
  | ask n c => exact stale_of_sview (sview_ask lossFn r12 s n c) h

theorem stale_run_from {s : State α} (h : Stale s) (ops : List (Op α)) :
    Stale (run lossFn r12 s ops) := by
  unfold run
  induction ops generalizing s with
  | nil => exact h
  | cons op r ih => exact ih (staleness_step lossFn r12 h.1 h.2.1 h.2.2 op)

/-! ### monotonicity of `scaleY` along runs whose values all have `d` components -/

/-- every value the operation tells has `d` components -/
def OpDim (d : Nat) (op : Op α) : Prop := ∀ kv ∈ tellsOf op, kv.2.length = d

/-- `BoxOK`, all stored values have `d` components, the box has at most `d` components, and the
scale the losses were last normalised with does not exceed the current one -/
structure ScaleMono (d : Nat) (s : State α) : Prop where
  box : BoxOK s
  vdim : VDim d s
  bdim : BoxDim d s
  old_le : s.oldScaleY ≤ s.scaleY

theorem sviewProp_scaleMono (d : Nat) : SViewProp (ScaleMono (α := α) d) := by
  intro s s' h hs
  simp only [sview, Prod.mk.injEq] at h
  obtain ⟨-, h2, h3, h4, h5⟩ := h
  refine ⟨boxOK_congr h3 h4 hs.box, ?_, ?_, ?_⟩
  · unfold VDim; rw [h2]; exact hs.vdim
  · unfold BoxDim; rw [h3]; exact hs.bdim
  · rw [h4, h5]; exact hs.old_le

theorem fireProp_scaleMono (d : Nat) : FireProp (ScaleMono (α := α) d) :=
  fun _ hu _ => ⟨boxOK_congr rfl rfl hu.box, hu.vdim, hu.bdim, le_refl _⟩

theorem length_minL_le (a y : List α) : (minL a y).length ≤ a.length := by
  simp only [minL, List.length_zipWith]; exact Nat.min_le_left _ _

theorem scaleMono_tellPre {d : Nat} {s : State α} (h : ScaleMono d s) (x : α) {y : List α}
    (hy : y.length = d) : ScaleMono d (tellPre s x y) := by
  refine ⟨boxOK_tellPre h.box x y, ?_, ?_, ?_⟩
  · intro kv hkv
    have : kv ∈ s.data ++ [(x, y)] := hkv
    rcases List.mem_append.1 this with hk | hk
    · exact h.vdim kv hk
    · rw [List.mem_singleton.1 hk]; exact hy
  · intro b hb
    have hbd := h.bdim
    unfold BoxDim at hbd
    unfold tellPre updateScale at hb
    dsimp only at hb
    rcases hs : s.bboxY with _ | ⟨mn, mx⟩
    · rw [hs] at hb
      rw [← Option.some.inj hb]; exact le_of_eq hy
    · rw [hs] at hb
      rw [← Option.some.inj hb]
      exact le_trans (length_minL_le mn y) (hbd _ hs)
  · refine le_trans h.old_le ?_
    exact scaleY_le_updateScale
      (s := { s with data := s.data ++ [(x, y)], pending := s.pending.erase x,
                     xsC := sinsert x s.xsC, xs := sinsert x s.xs })
      (boxOK_congr rfl rfl h.box) x y (fun b hb => hy ▸ h.bdim b hb)

theorem mem_dataSet {d : List (α × List α)} {x : α} {y : List α} {kv : α × List α}
    (h : kv ∈ dataSet d x y) : kv ∈ d ∨ kv = (x, y) := by
  unfold dataSet at h
  split at h
  · exact Or.inl h
  · rcases List.mem_append.1 h with hk | hk
    · exact Or.inl hk
    · exact Or.inr (List.mem_singleton.1 hk)

theorem mem_foldl_dataSet (pts : List (α × List α)) {d : List (α × List α)} {kv : α × List α}
    (h : kv ∈ pts.foldl (fun d kv => dataSet d kv.1 kv.2) d) : kv ∈ d ∨ kv ∈ pts := by
  induction pts generalizing d with
  | nil => exact Or.inl h
  | cons p r ih =>
    rcases ih h with hk | hk
    · rcases mem_dataSet hk with hk | hk
      · exact Or.inl hk
      · exact Or.inr (hk ▸ List.mem_cons_self ..)
    · exact Or.inr (List.mem_cons_of_mem _ hk)

theorem length_foldl_minL_le (vals : List (List α)) (a : List α) :
    (vals.foldl minL a).length ≤ a.length := by
  induction vals generalizing a with
  | nil => exact le_refl _
  | cons v vs ih => exact le_trans (ih _) (length_minL_le a v)

theorem scaleMono_batchBase {d : Nat} {s : State α} (h : ScaleMono d s)
    {pts : List (α × List α)} (hp : ∀ kv ∈ pts, kv.2.length = d) :
    ScaleMono d (batchBase s pts) := by
  have hv : VDim d (batchBase s pts) := by
    intro kv hkv
    rcases mem_foldl_dataSet pts hkv with hk | hk
    · exact h.vdim kv hk
    · exact hp kv hk
  refine ⟨boxOK_batchBase s pts, hv, ?_, le_refl _⟩
  intro b hb
  rw [← Option.some.inj hb]
  refine le_trans (length_foldl_minL_le _ _) ?_
  show (List.headD ((batchBase s pts).data.map Prod.snd) []).length ≤ d
  rcases hd : (batchBase s pts).data with _ | ⟨kv, r⟩
  · exact Nat.zero_le _
  · exact le_of_eq (hv kv (hd ▸ List.mem_cons_self ..))

theorem scaleMono_step {d : Nat} {s : State α} (h : ScaleMono d s) {op : Op α}
    (hop : OpDim d op) : ScaleMono d (step lossFn r12 s op) :=
  step_preserves lossFn r12 (sviewProp_scaleMono d) (fireProp_scaleMono d) op h
    (fun _ hs' kv hkv => scaleMono_tellPre hs' kv.1 (hop kv hkv))
    (fun _ _ he => scaleMono_batchBase h (fun kv hkv => hop kv (by rw [he]; exact hkv)))

theorem scaleMono_init (d : Nat) (lo hi factor dxEps : α) (nn : Nat) :
    ScaleMono d (init lo hi factor dxEps nn) :=
  ⟨boxOK_init .., fun _ hkv => by simp [init] at hkv, fun _ hb => by simp [init] at hb,
    le_refl _⟩

theorem scaleMono_run_from {d : Nat} {s : State α} (h : ScaleMono d s) (ops : List (Op α))
    (hops : ∀ op ∈ ops, OpDim d op) : ScaleMono d (run lossFn r12 s ops) := by
  unfold run
  induction ops generalizing s with
  | nil => exact h
  | cons op r ih =>
    exact ih (scaleMono_step lossFn r12 h (hops op (List.mem_cons_self ..)))
      (fun op' ho => hops op' (List.mem_cons_of_mem _ ho))

theorem scaleY_maybeRescale (u : State α) : (maybeRescale lossFn r12 u).scaleY = u.scaleY := by
  have hc := core_maybeRescale lossFn r12 u
  split at hc
  · have := congrArg State.scaleY hc; exact this
  · have := congrArg State.scaleY hc; exact this

/-- `tell` never decreases the output scale when the new value has at least as many components
as the stored box.  (The batch path of `tell_many` recomputes the box from the data, and may
overwrite stored values, so it can decrease `scaleY`; it resets `oldScaleY := scaleY`.) -/
theorem scaleY_le_tell {s : State α} (h : BoxOK s) (x : α) (y : List α)
    (hd : ∀ b, s.bboxY = some b → b.1.length ≤ y.length) :
    s.scaleY ≤ (tell lossFn r12 s x y).scaleY := by
  rw [tell_eq]
  split
  · exact le_refl _
  · have h1 := sview_of_core (core_updateLosses lossFn r12 (tellPre s x y) x true)
    simp only [sview, Prod.mk.injEq] at h1
    rw [scaleY_maybeRescale, h1.2.2.2.1]
    exact scaleY_le_updateScale
      (s := { s with data := s.data ++ [(x, y)], pending := s.pending.erase x,
                     xsC := sinsert x s.xsC, xs := sinsert x s.xs })
      (boxOK_congr rfl rfl h) x y hd

/-- B (run form): along every history from `init` with `1 ≤ factor` in which all told values have
the same number `d` of components, the losses are normalised with a scale `oldScaleY` that is at
most the current `scaleY` and at least `scaleY / factor`. -/
theorem staleness_run (lo hi factor dxEps : α) (nn : Nat) (hf : 1 ≤ factor) (d : Nat)
    (ops : List (Op α)) (hops : ∀ op ∈ ops, OpDim d op) :
    let s := run lossFn r12 (init lo hi factor dxEps nn) ops
    s.scaleY ≤ s.factor * s.oldScaleY ∧ s.oldScaleY ≤ s.scaleY := by
  have h1 : Stale (run lossFn r12 (init lo hi factor dxEps nn) ops) :=
    stale_run_from lossFn r12 ⟨hf, le_refl _, by simp [init]⟩ ops
  have h2 := scaleMono_run_from lossFn r12 (scaleMono_init d lo hi factor dxEps nn) ops hops
  exact ⟨h1.2.2, h2.old_le⟩

/-- with `factor = 1` the losses are always normalised with the current scale -/
theorem exact_of_factor_one (lo hi factor dxEps : α) (nn : Nat) (hf : factor = 1) (d : Nat)
    (ops : List (Op α)) (hops : ∀ op ∈ ops, OpDim d op) :
    let s := run lossFn r12 (init lo hi factor dxEps nn) ops
    s.oldScaleY = s.scaleY := by
  have h := staleness_run lossFn r12 lo hi factor dxEps nn (le_of_eq hf.symm) d ops hops
  have hfac : (run lossFn r12 (init lo hi factor dxEps nn) ops).factor = 1 := by
    rw [run_factor]; exact hf
  dsimp only at h ⊢
  rw [hfac, one_mul] at h
  exact le_antisymm h.2 h.1

/-! ## C. the loss tables: `lget` after `lset` / `lerase`, local specification of `updInterp` -/

section tables
variable (sc : α)

theorem lget_cons (k : Ival α) (e : Ival α × Loss α) (l : List (Ival α × Loss α)) :
    lget k (e :: l) = if e.1 = k then some e.2 else lget k l := by
  unfold lget
  rw [List.find?_cons]
  by_cases h : e.1 = k <;> simp [h]

theorem lget_linsert_ne {k : Ival α} {e : Ival α × Loss α} (h : e.1 ≠ k)
    (l : List (Ival α × Loss α)) : lget k (linsert r12 sc e l) = lget k l := by
  induction l with
  | nil => simp only [linsert, lget_cons, if_neg h]
  | cons f r ih =>
    unfold linsert
    split
    · rw [lget_cons, if_neg h]
    · rw [lget_cons, lget_cons, ih]

theorem lget_linsert_self (e : Ival α × Loss α) (l : List (Ival α × Loss α))
    (h : lget e.1 l = none) : lget e.1 (linsert r12 sc e l) = some e.2 := by
  induction l with
  | nil => simp only [linsert, lget_cons, if_true]
  | cons f r ih =>
    rw [lget_cons] at h
    unfold linsert
    split at h
    · exact absurd h (by simp)
    · rename_i hne
      split
      · rw [lget_cons, if_pos rfl]
      · rw [lget_cons, if_neg hne, ih h]

theorem lget_lerase (k iv : Ival α) (l : List (Ival α × Loss α)) :
    lget k (lerase iv l) = if k = iv then none else lget k l := by
  induction l with
  | nil => simp [lerase, lget]
  | cons f r ih =>
    unfold lerase at ih ⊢
    rw [List.filter_cons]
    by_cases hf : f.1 = iv
    · simp only [hf, decide_true, Bool.not_true, Bool.false_eq_true, if_false, ih, lget_cons]
      by_cases hk : k = iv
      · simp [hk]
      · simp [hk, Ne.symm hk]
    · simp only [hf, decide_false, Bool.not_false, if_true, lget_cons, ih]
      by_cases hk : k = iv
      · subst hk; simp [hf]
      · simp [hk]

/-- `d[iv] = v; d[k]` -/
theorem lget_lset (k iv : Ival α) (v : Loss α) (l : List (Ival α × Loss α)) :
    lget k (lset r12 sc iv v l) = if k = iv then some v else lget k l := by
  unfold lset
  by_cases hk : k = iv
  · subst hk
    rw [if_pos rfl]
    exact lget_linsert_self r12 sc (k, v) _ (by rw [lget_lerase, if_pos rfl])
  · rw [if_neg hk, lget_linsert_ne r12 sc (Ne.symm hk), lget_lerase, if_neg hk]

theorem lget_lset_self (iv : Ival α) (v : Loss α) (l : List (Ival α × Loss α)) :
    lget iv (lset r12 sc iv v l) = some v := by
  rw [lget_lset, if_pos rfl]

theorem lget_lset_ne {iv iv' : Ival α} (h : iv' ≠ iv) (v : Loss α)
    (l : List (Ival α × Loss α)) : lget iv' (lset r12 sc iv v l) = lget iv' l := by
  rw [lget_lset, if_neg h]

theorem lget_lerase_self (iv : Ival α) (l : List (Ival α × Loss α)) :
    lget iv (lerase iv l) = none := by
  rw [lget_lerase, if_pos rfl]

theorem lget_lerase_ne {iv iv' : Ival α} (h : iv' ≠ iv) (l : List (Ival α × Loss α)) :
    lget iv' (lerase iv l) = lget iv' l := by
  rw [lget_lerase, if_neg h]

theorem mem_linsert_sc {e e' : Ival α × Loss α} {l : List (Ival α × Loss α)} :
    e' ∈ linsert r12 sc e l ↔ e' = e ∨ e' ∈ l := by
  induction l with
  | nil => simp [linsert]
  | cons f r ih =>
    unfold linsert
    split
    · simp
    · simp only [List.mem_cons, ih]
      constructor
      · rintro (h | h | h)
        · exact Or.inr (Or.inl h)
        · exact Or.inl h
        · exact Or.inr (Or.inr h)
      · rintro (h | h | h)
        · exact Or.inr (Or.inl h)
        · exact Or.inl h
        · exact Or.inr (Or.inr h)

theorem mem_lerase_sc {e : Ival α × Loss α} {iv : Ival α} {l : List (Ival α × Loss α)} :
    e ∈ lerase iv l ↔ e ∈ l ∧ e.1 ≠ iv := by
  simp [lerase]

theorem mem_lset_sc {e : Ival α × Loss α} {iv : Ival α} {v : Loss α}
    {l : List (Ival α × Loss α)} :
    e ∈ lset r12 sc iv v l ↔ e = (iv, v) ∨ (e ∈ l ∧ e.1 ≠ iv) := by
  unfold lset
  rw [mem_linsert_sc, mem_lerase_sc]

/-- after `lset iv v` the key `iv` occurs exactly once -/
theorem lget_some_of_mem_tkeys {iv : Ival α} {l : List (Ival α × Loss α)} (h : iv ∈ tkeys l) :
    ∃ v, lget iv l = some v ∧ (iv, v) ∈ l := by
  induction l with
  | nil => simp [tkeys] at h
  | cons f r ih =>
    rw [lget_cons]
    by_cases hf : f.1 = iv
    · exact ⟨f.2, by rw [if_pos hf], by rw [← hf]; exact List.mem_cons_self ..⟩
    · rw [if_neg hf]
      have h' : iv ∈ tkeys r := by
        simp only [tkeys, List.map_cons, List.mem_cons] at h ⊢
        rcases h with h | h
        · exact absurd h.symm hf
        · exact h
      obtain ⟨v, hv, hm⟩ := ih h'
      exact ⟨v, hv, List.mem_cons_of_mem _ hm⟩

theorem mem_tkeys_of_lget {iv : Ival α} {v : Loss α} {l : List (Ival α × Loss α)}
    (h : lget iv l = some v) : iv ∈ tkeys l := by
  induction l with
  | nil => simp [lget] at h
  | cons f r ih =>
    rw [lget_cons] at h
    simp only [tkeys, List.map_cons, List.mem_cons]
    split at h
    · exact Or.inl (Eq.symm ‹_›)
    · exact Or.inr (ih h)

/-- a run of assignments `d[k] = f k`: afterwards every assigned key holds `f k`, every other
key is untouched -/
theorem lget_foldl_lset (f : Ival α → Loss α) (keys : List (Ival α))
    (l0 : List (Ival α × Loss α)) (k : Ival α) :
    lget k (keys.foldl (fun lc ab => lset r12 sc ab (f ab) lc) l0) =
      if k ∈ keys then some (f k) else lget k l0 := by
  induction keys generalizing l0 with
  | nil => simp
  | cons k0 ks ih =>
    rw [List.foldl_cons, ih, lget_lset]
    by_cases h1 : k ∈ ks
    · simp [h1]
    · by_cases h2 : k = k0
      · subst h2; simp
      · simp [h1, h2]

end tables

/-- the points of `xsC` lying in `[xl, xr]` -/
def betweenS (s : State α) (xl xr : α) : List α :=
  s.xsC.filter (fun y => !(decide (y < xl)) && !(decide (xr < y)))

/-- C: `updInterp` stores the freshly computed loss under `(xl, xr)` and keeps every other key of
`losses` -/
theorem updInterp_losses (s : State α) (xl xr : α) (k : Ival α) :
    lget k (updInterp lossFn r12 s xl xr).losses =
      if k = (xl, xr) then some (getLoss lossFn s xl xr) else lget k s.losses :=
  lget_lset r12 s.lossScale k (xl, xr) _ _

theorem updInterp_losses_self (s : State α) (xl xr : α) :
    lget (xl, xr) (updInterp lossFn r12 s xl xr).losses = some (getLoss lossFn s xl xr) := by
  rw [updInterp_losses, if_pos rfl]

/-- C: `updInterp` does not touch anything `getLoss` reads -/
theorem getLoss_updInterp (s : State α) (xl xr a b : α) :
    getLoss lossFn (updInterp lossFn r12 s xl xr) a b = getLoss lossFn s a b :=
  getLoss_congr lossFn (core_updInterp lossFn r12 s xl xr) a b

/-- C: every pair `(a, b)` of neighbouring points of `xsC` inside `[xl, xr]` gets the share
`(b - a) * loss / (xr - xl)` of the interval's loss; every other key of `lossesC` keeps its value.
(No sortedness of `xsC` is needed for this form; see `mem_pairs_betweenS_iff` for the description
of the pairs when `xsC` is strictly sorted.) -/
theorem updInterp_lossesC (s : State α) (xl xr : α) (k : Ival α) :
    lget k (updInterp lossFn r12 s xl xr).lossesC =
      if k ∈ pairs (betweenS s xl xr) then
        some (Loss.mulDiv (k.2 - k.1) (getLoss lossFn s xl xr) (xr - xl))
      else lget k s.lossesC :=
  lget_foldl_lset r12 s.lossScale
    (fun ab => Loss.mulDiv (ab.2 - ab.1) (getLoss lossFn s xl xr) (xr - xl)) _ _ k

/-! ### the pairs of `betweenS` when `xsC` is strictly sorted -/

theorem pairs_cons_cons (x y : α) (r : List α) : pairs (x :: y :: r) = (x, y) :: pairs (y :: r) :=
  rfl

theorem mem_of_mem_pairs {a b : α} {l : List α} (h : (a, b) ∈ pairs l) : a ∈ l ∧ b ∈ l := by
  induction l with
  | nil => simp [pairs] at h
  | cons x r ih =>
    cases r with
    | nil => simp [pairs] at h
    | cons y r' =>
      rw [pairs_cons_cons, List.mem_cons] at h
      rcases h with h | h
      · simp only [Prod.mk.injEq] at h
        exact ⟨by simp [h.1], by simp [h.2]⟩
      · exact ⟨List.mem_cons_of_mem _ (ih h).1, List.mem_cons_of_mem _ (ih h).2⟩

theorem lt_of_mem_pairs {a b : α} {l : List α} (hs : l.Pairwise (· < ·))
    (h : (a, b) ∈ pairs l) : a < b := by
  induction l with
  | nil => simp [pairs] at h
  | cons x r ih =>
    cases r with
    | nil => simp [pairs] at h
    | cons y r' =>
      rw [pairs_cons_cons, List.mem_cons] at h
      rcases h with h | h
      · simp only [Prod.mk.injEq] at h
        rw [h.1, h.2]
        exact (List.pairwise_cons.1 hs).1 y (List.mem_cons_self ..)
      · exact ih (List.pairwise_cons.1 hs).2 h

/-- filtering a strictly sorted list with an order-convex predicate keeps exactly the pairs of
neighbours both of whose ends satisfy the predicate -/
theorem mem_pairs_filter_iff (p : α → Bool)
    (hconv : ∀ a b c, a < b → b < c → p a = true → p c = true → p b = true)
    {l : List α} (hs : l.Pairwise (· < ·)) (a b : α) :
    (a, b) ∈ pairs (l.filter p) ↔ (a, b) ∈ pairs l ∧ p a = true ∧ p b = true := by
  induction l with
  | nil => simp [pairs]
  | cons x r ih =>
    have hsr := (List.pairwise_cons.1 hs).2
    have hx := (List.pairwise_cons.1 hs).1
    have ih := ih hsr
    cases r with
    | nil => by_cases hpx : p x = true <;> simp [hpx, pairs]
    | cons y r' =>
      have hxy : x < y := hx y (List.mem_cons_self ..)
      by_cases hpx : p x = true
      · by_cases hpy : p y = true
        · have e3 : (y :: r').filter p = y :: r'.filter p := by rw [List.filter_cons, if_pos hpy]
          have e2 : (x :: y :: r').filter p = x :: (y :: r').filter p := by
            rw [List.filter_cons, if_pos hpx]
          rw [e2]
          rw [e3] at ih ⊢
          rw [pairs_cons_cons, pairs_cons_cons, List.mem_cons, List.mem_cons, ih]
          constructor
          · rintro (h | ⟨h1, h2, h3⟩)
            · simp only [Prod.mk.injEq] at h
              exact ⟨Or.inl (by rw [h.1, h.2]), by rw [h.1]; exact hpx, by rw [h.2]; exact hpy⟩
            · exact ⟨Or.inr h1, h2, h3⟩
          · rintro ⟨h1 | h1, h2, h3⟩
            · exact Or.inl h1
            · exact Or.inr ⟨h1, h2, h3⟩
        · have hnone : ∀ z ∈ y :: r', ¬ p z = true := by
            intro z hz hpz
            rcases List.mem_cons.1 hz with rfl | hz'
            · exact hpy hpz
            · exact hpy (hconv x y z hxy ((List.pairwise_cons.1 hsr).1 z hz') hpx hpz)
          have e2 : (x :: y :: r').filter p = [x] := by
            rw [List.filter_cons, if_pos hpx, List.filter_eq_nil_iff.2 hnone]
          rw [e2]
          constructor
          · intro h; simp [pairs] at h
          · rintro ⟨h1, h2, h3⟩
            rw [pairs_cons_cons, List.mem_cons] at h1
            rcases h1 with h | h
            · simp only [Prod.mk.injEq] at h
              rw [h.2] at h3
              exact absurd h3 hpy
            · exact absurd h3 (hnone b (mem_of_mem_pairs h).2)
      · have e2 : (x :: y :: r').filter p = (y :: r').filter p := by
          rw [List.filter_cons, if_neg hpx]
        rw [e2, ih, pairs_cons_cons, List.mem_cons]
        constructor
        · rintro ⟨h1, h2, h3⟩; exact ⟨Or.inr h1, h2, h3⟩
        · rintro ⟨h1 | h1, h2, h3⟩
          · simp only [Prod.mk.injEq] at h1
            rw [h1.1] at h2
            exact absurd h2 hpx
          · exact ⟨h1, h2, h3⟩

/-- for strictly sorted `xsC`, the pairs `updInterp` assigns are exactly the pairs of neighbouring
points of `xsC` that lie inside `[xl, xr]` -/
theorem mem_pairs_betweenS_iff {s : State α} (hs : s.xsC.Pairwise (· < ·)) (xl xr a b : α) :
    (a, b) ∈ pairs (betweenS s xl xr) ↔ (a, b) ∈ pairs s.xsC ∧ xl ≤ a ∧ b ≤ xr := by
  unfold betweenS
  rw [mem_pairs_filter_iff _ _ hs]
  · simp only [Bool.and_eq_true, Bool.not_eq_true', decide_eq_false_iff_not, not_lt]
    constructor
    · rintro ⟨h1, h2, h3⟩; exact ⟨h1, h2.1, h3.2⟩
    · rintro ⟨h1, h2, h3⟩
      have hab := le_of_lt (lt_of_mem_pairs hs h1)
      exact ⟨h1, ⟨h2, le_trans hab h3⟩, ⟨le_trans h2 hab, h3⟩⟩
  · intro a b c hab hbc
    simp only [Bool.and_eq_true, Bool.not_eq_true', decide_eq_false_iff_not, not_lt]
    rintro ⟨h1, -⟩ ⟨-, h2⟩
    exact ⟨le_trans h1 (le_of_lt hab), le_trans (le_of_lt hbc) h2⟩

/-- C (sorted form): every pair of neighbouring points of `xsC` inside `[xl, xr]` holds its share of
the interval's loss -/
theorem updInterp_lossesC_inside {s : State α} (hs : s.xsC.Pairwise (· < ·)) (xl xr : α)
    {a b : α} (hab : (a, b) ∈ pairs s.xsC) (hl : xl ≤ a) (hr : b ≤ xr) :
    lget (a, b) (updInterp lossFn r12 s xl xr).lossesC =
      some (Loss.mulDiv (b - a) (getLoss lossFn s xl xr) (xr - xl)) := by
  rw [updInterp_lossesC, if_pos ((mem_pairs_betweenS_iff hs xl xr a b).2 ⟨hab, hl, hr⟩)]

/-- C (sorted form): every other key of `lossesC` keeps its value -/
theorem updInterp_lossesC_outside {s : State α} (hs : s.xsC.Pairwise (· < ·)) (xl xr : α)
    {k : Ival α} (hk : ¬ (k ∈ pairs s.xsC ∧ xl ≤ k.1 ∧ k.2 ≤ xr)) :
    lget k (updInterp lossFn r12 s xl xr).lossesC = lget k s.lossesC := by
  rw [updInterp_lossesC, if_neg]
  intro h
  exact hk ((mem_pairs_betweenS_iff hs xl xr k.1 k.2).1 h)

/-- C: every other key of `losses` keeps its value -/
theorem updInterp_losses_ne (s : State α) (xl xr : α) {k : Ival α} (hk : k ≠ (xl, xr)) :
    lget k (updInterp lossFn r12 s xl xr).losses = lget k s.losses := by
  rw [updInterp_losses, if_neg hk]

/-! ## D. the re-computation loop -/

/-- D: after the loop every visited key holds `getLoss` *of the state the loop started from*
(equivalently of the final state: `getLoss` ignores the loss tables), every other key is
untouched.  No hypothesis is needed: the loop may visit a key twice or visit keys that are not in
the table. -/
theorem recomputeLoop_losses (s : State α) (keys : List (Ival α)) (k : Ival α) :
    lget k (recomputeLoop lossFn r12 s keys).losses =
      if k ∈ keys then some (getLoss lossFn s k.1 k.2) else lget k s.losses := by
  unfold recomputeLoop
  induction keys generalizing s with
  | nil => simp
  | cons iv ks ih =>
    rw [List.foldl_cons, ih, updInterp_losses]
    simp only [getLoss_updInterp]
    by_cases h1 : k ∈ ks
    · simp [h1]
    · by_cases h2 : k = iv
      · subst h2; simp
      · have h3 : ¬ k = (iv.1, iv.2) := h2
        rw [if_neg h1, if_neg h3, if_neg (by simp [h1, h2])]

theorem getLoss_recomputeLoop (s : State α) (keys : List (Ival α)) (a b : α) :
    getLoss lossFn (recomputeLoop lossFn r12 s keys) a b = getLoss lossFn s a b :=
  getLoss_congr lossFn (core_recomputeLoop lossFn r12 s keys) a b

/-- entry-level form: every entry of the table after the loop is either a visited key with the
fresh loss or an unvisited entry of the old table -/
theorem recomputeLoop_entries (s : State α) (keys : List (Ival α)) :
    ∀ e ∈ (recomputeLoop lossFn r12 s keys).losses,
      (e.1 ∈ keys ∧ e.2 = getLoss lossFn s e.1.1 e.1.2) ∨ (e.1 ∉ keys ∧ e ∈ s.losses) := by
  unfold recomputeLoop
  induction keys generalizing s with
  | nil => intro e he; exact Or.inr ⟨by simp, he⟩
  | cons iv ks ih =>
    intro e he
    rw [List.foldl_cons] at he
    rcases ih _ e he with ⟨h1, h2⟩ | ⟨h1, h2⟩
    · exact Or.inl ⟨List.mem_cons_of_mem _ h1, by rw [h2, getLoss_updInterp]⟩
    · have h3 : e ∈ lset r12 s.lossScale (iv.1, iv.2) (getLoss lossFn s iv.1 iv.2) s.losses := h2
      rcases (mem_lset_sc r12 s.lossScale).1 h3 with h4 | ⟨h4, h5⟩
      · left
        rw [h4]
        exact ⟨List.mem_cons_self .., rfl⟩
      · right
        refine ⟨?_, h4⟩
        intro hc
        rcases List.mem_cons.1 hc with hc | hc
        · exact h5 hc
        · exact h1 hc

/-- D, consequence: when the rescale fires, afterwards `oldScaleY = scaleY`, the key set of
`losses` is unchanged, and *every* entry of `losses` is `getLoss` of the resulting state, i.e. is
normalised with the current `scaleY`. -/
theorem maybeRescale_normalised (s : State α) (h : s.factor * s.oldScaleY < s.scaleY) :
    let s' := maybeRescale lossFn r12 s
    s'.oldScaleY = s'.scaleY ∧
    (∀ iv, iv ∈ tkeys s'.losses ↔ iv ∈ tkeys s.losses) ∧
    (∀ e ∈ s'.losses, e.2 = getLoss lossFn s' e.1.1 e.1.2) ∧
    (∀ iv ∈ tkeys s'.losses, lget iv s'.losses = some (getLoss lossFn s' iv.1 iv.2)) := by
  have hkeys : ∀ iv, iv ∈ (s.losses.map Prod.fst).reverse ↔ iv ∈ tkeys s.losses := by
    intro iv; rw [List.mem_reverse]; rfl
  have hs' : maybeRescale lossFn r12 s =
      { recomputeLoop lossFn r12 s (s.losses.map Prod.fst).reverse with
        oldScaleY := (recomputeLoop lossFn r12 s (s.losses.map Prod.fst).reverse).scaleY } := by
    unfold maybeRescale; rw [if_pos h]
  have hg : ∀ a b, getLoss lossFn (maybeRescale lossFn r12 s) a b = getLoss lossFn s a b := by
    intro a b
    rw [hs']
    exact getLoss_recomputeLoop lossFn r12 s _ a b
  have hl : (maybeRescale lossFn r12 s).losses =
      (recomputeLoop lossFn r12 s (s.losses.map Prod.fst).reverse).losses := by rw [hs']
  have hent : ∀ e ∈ (maybeRescale lossFn r12 s).losses,
      e.1 ∈ tkeys s.losses ∧ e.2 = getLoss lossFn s e.1.1 e.1.2 := by
    intro e he
    rw [hl] at he
    rcases recomputeLoop_entries lossFn r12 s _ e he with ⟨h1, h2⟩ | ⟨h1, h2⟩
    · exact ⟨(hkeys _).1 h1, h2⟩
    · exact absurd ((hkeys _).2 (List.mem_map_of_mem (f := Prod.fst) h2)) h1
  dsimp only
  refine ⟨by rw [hs'], ?_, ?_, ?_⟩
  · intro iv
    constructor
    · intro hiv
      obtain ⟨v, -, hm⟩ := lget_some_of_mem_tkeys hiv
      exact (hent _ hm).1
    · intro hiv
      apply mem_tkeys_of_lget (v := getLoss lossFn s iv.1 iv.2)
      rw [hl, recomputeLoop_losses, if_pos ((hkeys iv).2 hiv)]
  · intro e he
    rw [hg]; exact (hent e he).2
  · intro iv hiv
    obtain ⟨v, hv, hm⟩ := lget_some_of_mem_tkeys hiv
    rw [hv, hg]
    exact congrArg some (hent _ hm).2

/-! ## why the hypotheses on the number of components are there

`scaleY_le_updateScale`, `scaleY_le_tell`, and the `oldScaleY ≤ scaleY` half of `staleness_run`
assume that the told values all have the same number of components.  Without it they are FALSE of
the model (as of the Python code, whose `zip` truncates the box): a shorter value truncates the
stored box and the scale drops below the scale the losses were normalised with.  Concrete
counterexamples over `Int` (only `<`, `-` are exercised): -/

/-- box `([0,0],[0,5])`, `scaleY = 5`; telling the one-component value `[0]` gives `scaleY = 0` -/
example :
    let s : State Int := { init (0 : Int) 10 2 0 0 with bboxY := some ([0, 0], [0, 5]), scaleY := 5 }
    ¬ (s.scaleY ≤ (updateScale s 0 [0]).scaleY) := by decide

/-- the history `tell 0 [0,0]; tell 1 [0,5]; tell 2 [0]` from `init` (factor 2) ends with
`scaleY = 0 < 5 = oldScaleY` -/
example :
    let s := run (fun _ _ => Loss.fin 0) id (init (0 : Int) 10 2 0 0)
      [.tell 0 [0, 0], .tell 1 [0, 5], .tell 2 [0]]
    ¬ (s.oldScaleY ≤ s.scaleY) := by decide

end L1D
