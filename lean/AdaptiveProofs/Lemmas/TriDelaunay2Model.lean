import AdaptiveProofs.Lemmas.TriDelaunay2Circ

/-!
`Lemmas/TriDelaunay2.lean` (the Delaunay cavity is star-shaped) applied to what the model `Tri.bowyerWatson` /
`Tri.addPoint` does (`Lemmas/TriCavityModel.lean`), and the concrete configuration of the non-vacuity example of
`Props/C03.lean`, section C03.f.
-/
namespace Tri

section model
variable {α : Type} [CommRing α] [LinearOrder α] [IsStrictOrderedRing α]

omit [IsStrictOrderedRing α] in
/-- strictly inside the circumcircle ⇒ the triangle is not degenerate -/
theorem sv2_ne_zero_of_inCircle2 (x : Nat → α × α) {t : Simplex} {q : α × α} (h : InCircle2 x t q) : sv2 x t ≠ 0 := by
  intro h0
  unfold InCircle2 at h
  rw [h0, zero_mul] at h
  exact lt_irrefl _ h

/-- the hypothesis on the hole edges of a cavity `bad` inside the triangulation `S` (new point `p`): every hole edge
either has a triangle of `S` on its other side that is locally Delaunay with the owner and does not contain `p`
strictly in its circumcircle, or `p` is not strictly outside it (hull edge). -/
def HoleEdgesDelaunay (x : Nat → α × α) (S bad : List Simplex) (p : α × α) : Prop :=
  ∀ e ∈ hole 2 bad,
    (∃ t' ∈ S, e ∈ combos 2 t' ∧
      (∀ c' ∈ t', c' ∉ e → sve2 x (owner 2 bad e) e (x c') * sv2 x (owner 2 bad e) < 0) ∧
      ¬ InCircle2 x t' p ∧
      (∀ c' ∈ t', c' ∉ e → ¬ InCircle2 x (owner 2 bad e) (x c'))) ∨
    0 ≤ sve2 x (owner 2 bad e) e p * sv2 x (owner 2 bad e)

theorem holeEdges_star (x : Nat → α × α) {S bad : List Simplex} (pt : Nat)
    (hS : ∀ t ∈ S, t.length = 3 ∧ t.Pairwise (· < ·)) (hsub : ∀ t ∈ bad, t ∈ S)
    (hin : ∀ t ∈ bad, InCircle2 x t (x pt)) (hedge : HoleEdgesDelaunay x S bad (x pt)) :
    ∀ e ∈ hole 2 bad, 0 ≤ osign (sv2 x (owner 2 bad e)) * sve2 x (owner 2 bad e) e (x pt) := by
  apply cavity_star_2d x bad pt (fun t ht => hS t (hsub t ht)) hin
  intro e he
  rcases hedge e he with ⟨t', ht', h1, h2, h3, h4⟩ | h
  · exact Or.inl ⟨t', hS t' ht', h1, h2, h3, h4⟩
  · exact Or.inr h

/-- one accepted interior `bowyer_watson` of the model whose deleted set is a Delaunay cavity conserves the area -/
theorem bowyerWatson_delaunay_area_2d (x : Nat → α × α) {s s' : State} {pt : Nat} {start : Option Simplex}
    {circ fl fl' : List (Simplex × Bool)} {deleted added : List Simplex}
    (hI : Inv s) (hdim : s.dim = 2) (hpt : s.nVerts = pt + 1)
    (hfresh : ∀ t ∈ s.simplices, ∀ v ∈ t, v < pt)
    (hstart : ∀ c, start = some c → c ∈ s.simplices) (hfl : ∀ r ∈ fl, r.2 = false)
    (hok : bowyerWatson s pt start circ fl = .ok (s', deleted, added, fl'))
    (hO : OppositeSides2 x deleted)
    (hin : ∀ t ∈ deleted, InCircle2 x t (x pt))
    (hedge : HoleEdgesDelaunay x s.simplices deleted (x pt)) :
    (added.map (fun t => |sv2 x t|)).sum = (deleted.map (fun t => |sv2 x t|)).sum ∧
    (s.simplices.Nodup →
      (s'.simplices.map (fun t => |sv2 x t|)).sum = (s.simplices.map (fun t => |sv2 x t|)).sum) := by
  obtain ⟨_, _, hDS, _⟩ := bowyerWatson_exact hI hpt hfresh hstart hfl hok
  have hS : ∀ t ∈ s.simplices, t.length = 3 ∧ t.Pairwise (· < ·) := by
    intro t ht
    have := hI.valid t ht
    rw [hdim] at this
    exact ⟨this.1, this.2.1⟩
  exact bowyerWatson_volume_2d x hI hdim hpt hfresh hstart hfl hok hO
    (fun t ht => sv2_ne_zero_of_inCircle2 x (hin t ht)) (holeEdges_star x pt hS hDS hin hedge)

/-- the same at the level of `add_point` -/
theorem addPoint_delaunay_area_2d (x : Nat → α × α) {s s' : State} {hint : Option Simplex} {o : Oracle}
    {D A : List Simplex} (hI : Inv s) (hdim : s.dim = 2) (hv : ValidHint s hint) (hh : hint ≠ some [])
    (hl : o.locate ≠ some []) (hfl : ∀ r ∈ o.flat, r.2 = false)
    (hok : addPoint s hint o = .ok (s', D, A))
    (hO : OppositeSides2 x D)
    (hin : ∀ t ∈ D, InCircle2 x t (x s.nVerts))
    (hedge : HoleEdgesDelaunay x s.simplices D (x s.nVerts)) :
    (A.map (fun t => |sv2 x t|)).sum = (D.map (fun t => |sv2 x t|)).sum ∧
    (s.simplices.Nodup →
      (s'.simplices.map (fun t => |sv2 x t|)).sum = (s.simplices.map (fun t => |sv2 x t|)).sum) := by
  obtain ⟨simplex, hsS, hbw⟩ := addPoint_interior hv hh hl hok
  exact bowyerWatson_delaunay_area_2d x (s := { s with vts := s.vts ++ [[]], nVerts := s.nVerts + 1 }) (inv_push hI)
    hdim rfl (fun t ht v hv' => (hI.valid t ht).2.2 v hv') (fun c hc => by cases hc; exact hsS) hfl hbw hO hin hedge

end model

/-! ### concrete configuration for the non-vacuity example of `Props/C03.lean` (C03.f) -/

/-- the square `(0,0) (4,0) (4,4) (0,4)` split along the diagonal 0–2, plus the triangle `[0,1,4]` below the edge 0–1 -/
def exD : State :=
  ⟨2, 5, [[0, 1, 2], [0, 2, 3], [0, 1, 4]],
    [[[0, 1, 2], [0, 2, 3], [0, 1, 4]], [[0, 1, 2], [0, 1, 4]], [[0, 1, 2], [0, 2, 3]], [[0, 2, 3]], [[0, 1, 4]]]⟩

/-- after the insertion of the sixth point: the two triangles of the square replaced by four, `[0,1,4]` kept -/
def exD1 : State :=
  ⟨2, 6, [[0, 1, 4], [0, 1, 5], [1, 2, 5], [0, 3, 5], [2, 3, 5]],
    [[[0, 1, 4], [0, 1, 5], [0, 3, 5]], [[0, 1, 4], [0, 1, 5], [1, 2, 5]], [[1, 2, 5], [2, 3, 5]],
      [[0, 3, 5], [2, 3, 5]], [[0, 1, 4]], [[0, 1, 5], [1, 2, 5], [0, 3, 5], [2, 3, 5]]]⟩

/-- the TRUTHFUL answers for the insertion of `(3, 2)`: the two triangles of the square are bad, `[0,1,4]` is asked
(it is a neighbour of `[0,1,2]`) and is not -/
def exOD : Oracle :=
  { reduced := some [0, 1, 2],
    circ := [([0, 1, 2], true), ([0, 2, 3], true), ([0, 1, 4], false)],
    flat := [([0, 1, 5], false), ([1, 2, 5], false), ([0, 3, 5], false), ([2, 3, 5], false)] }

/-- the coordinates: the square, the apex `(2, -4)` below it, the new point `(3, 2)` -/
def exXD : Nat → ℚ × ℚ
  | 0 => (0, 0)
  | 1 => (4, 0)
  | 2 => (4, 4)
  | 3 => (0, 4)
  | 4 => (2, -4)
  | _ => (3, 2)

end Tri
