import AdaptiveProofs.Lemmas.TriReport

/-! `__init__` establishes the index invariant; every state reachable by insertions satisfies it. -/
namespace Tri

/-- what SciPy's initial triangulation must deliver: `dim+1` distinct vertex indices below `n` (any order) -/
def ValidRaw (dim n : Nat) (t : Simplex) : Prop :=
  t.length = dim + 1 ∧ t.Nodup ∧ ∀ v ∈ t, v < n

theorem sortS_valid {dim n : Nat} {t : Simplex} (h : ValidRaw dim n t) : ValidSimplex dim n (sortS t) := by
  refine ⟨by rw [(sortS_perm t).length_eq]; exact h.1, ?_, fun v hv => h.2.2 v (mem_sortS.mp hv)⟩
  have h2 : (sortS t).Nodup := (List.Perm.nodup_iff (sortS_perm t)).mpr h.2.1
  exact ((sortS_sorted t).and h2).imp (fun ⟨hab, hne⟩ => by omega)

theorem addSimplex_sortS (s : State) (t : Simplex) (h : (sortS t).Pairwise (· < ·)) :
    addSimplex s t = addSimplex s (sortS t) := by
  unfold addSimplex
  simp only [sortS_of_sorted h]

theorem inv_empty (dim n : Nat) : Inv { dim := dim, nVerts := n, simplices := [], vts := List.replicate n [] } := by
  refine ⟨by simp, fun t ht => (by cases ht), ?_⟩
  intro v l hl u
  simp only [List.getElem?_replicate] at hl
  split at hl
  · cases hl; simp
  · cases hl

theorem addAll_inv : ∀ (initial : List Simplex) (s s' : State), Inv s →
    (∀ t ∈ initial, ValidRaw s.dim s.nVerts t) → addAll s initial = .ok s' →
    Inv s' ∧ s'.dim = s.dim ∧ s'.nVerts = s.nVerts
  | [], s, s', hI, _, hok => by
    simp only [addAll, Except.ok.injEq] at hok
    subst hok
    exact ⟨hI, rfl, rfl⟩
  | t :: ts, s, s', hI, hv, hok => by
    simp only [addAll] at hok
    split at hok
    · cases hok
    · rename_i sa ha
      have hval := sortS_valid (hv t List.mem_cons_self)
      rw [addSimplex_sortS s t hval.2.1] at ha
      obtain ⟨hIa, hda, hna, _⟩ := addSimplex_spec hI hval ha
      obtain ⟨hI', hd', hn'⟩ := addAll_inv ts sa s' hIa
        (fun u hu => by rw [hda, hna]; exact hv u (List.mem_cons_of_mem _ hu)) hok
      exact ⟨hI', hd'.trans hda, hn'.trans hna⟩

theorem init_inv {dim n : Nat} {initial : List Simplex} {s : State}
    (hv : ∀ t ∈ initial, ValidRaw dim n t) (hok : init dim n initial = .ok s) : Inv s :=
  (addAll_inv initial _ s (inv_empty dim n) hv hok).1

/-- the states a `Triangulation` object can be in: constructed from a valid initial triangulation, then any
number of `add_point` calls with any hints a caller may pass and ANY answers of the geometric predicates
(accepted insertions and deliberate `ValueError`s) -/
inductive Reachable (dim n : Nat) (initial : List Simplex) : State → Prop where
  | init {s : State} : init dim n initial = .ok s → Reachable dim n initial s
  | insert {s s' : State} {hint : Option Simplex} {o : Oracle} {D A : List Simplex} :
      Reachable dim n initial s → ValidHint s hint → addPoint s hint o = .ok (s', D, A) → Reachable dim n initial s'
  | reject {s s' : State} {hint : Option Simplex} {o : Oracle} {w : Reject} :
      Reachable dim n initial s → addPoint s hint o = .error (.reject w s') → Reachable dim n initial s'

theorem reachable_inv {dim n : Nat} {initial : List Simplex} (hv : ∀ t ∈ initial, ValidRaw dim n t) {s : State}
    (h : Reachable dim n initial s) : Inv s := by
  induction h with
  | init hok => exact init_inv hv hok
  | insert _ hh hok ih => exact (addPoint_spec ih hh hok).1
  | reject _ hok ih => rw [addPoint_reject ih hok]; exact ih

end Tri
