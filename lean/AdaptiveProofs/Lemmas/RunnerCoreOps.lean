import AdaptiveProofs.Lemmas.RunnerCore

/-! Preservation of `Runner.Core` by `_submit`, `learner.ask` and one processed result. -/
namespace Runner

variable {cfg : Cfg} {pend idp rty : List (Nat × Nat)} {tb : List Nat} {nid nfut : Nat}
  {tr : List Call}

theorem mem_pids_snoc {pend : List (Nat × Nat)} {f pid p : Nat} :
    p ∈ (pend ++ [(f, pid)]).map Prod.snd ↔ p ∈ pend.map Prod.snd ∨ p = pid := by
  simp

/-- one `_submit(pid)` -/
theorem Core.submit (h : Core cfg pend idp rty tb nid nfut tr) {pid x : Nat}
    (hx : aget pid idp = some x) (hp : pid ∉ pend.map Prod.snd)
    (hf : (aget pid rty).isSome = true ∨ nFail pid tr = 0) :
    Core cfg (pend ++ [(nfut, pid)]) idp rty tb nid (nfut + 1)
      (tr ++ [Call.submit nfut pid x]) := by
  have hfut : ∀ f, f ∈ pend.map Prod.fst → f < nfut := by
    intro f hf
    obtain ⟨⟨f', p⟩, hm, rfl⟩ := List.mem_map.1 hf
    exact (h.pend_spec f' p hm).1
  refine ⟨?_, ?_, ?_, h.id_keys, ?_, ?_, ?_, ?_, h.rty_keys, ?_, ?_, ?_, h.tb_nodup, ?_, ?_, ?_,
    ?_, ?_⟩
  · rw [List.map_append, List.nodup_append]
    refine ⟨h.pend_futs, by simp, ?_⟩
    intro a ha b hb
    simp only [List.map_cons, List.map_nil, List.mem_singleton] at hb
    have := hfut a ha
    omega
  · rw [List.map_append, List.nodup_append]
    refine ⟨h.pend_pids, by simp, ?_⟩
    intro a ha b hb
    simp only [List.map_cons, List.map_nil, List.mem_singleton] at hb
    rintro rfl; subst hb; exact hp ha
  · intro f p hm
    simp only [List.mem_append, List.mem_singleton, Prod.mk.injEq] at hm
    rcases hm with hm | ⟨rfl, rfl⟩
    · obtain ⟨a, y, b, c⟩ := h.pend_spec f p hm
      exact ⟨by omega, y, b, List.mem_append.2 (Or.inl c)⟩
    · exact ⟨by omega, x, hx, by simp⟩
  · simpa using h.id_spec
  · simpa using h.asked_len
  · simpa using h.tell_le
  · simpa using h.tell_id
  · simpa using h.rty_spec
  · intro p
    have := h.count p
    simp only [nSubmit_snoc, nFail_snoc, nTell_snoc, mem_pids_snoc, Nat.add_zero]
    by_cases hpp : p = pid
    · subst hpp; simp [hp] at this ⊢; omega
    · have hpp' : ¬ pid = p := fun e => hpp e.symm
      simp only [hpp, hpp', or_false, if_false, Nat.add_zero]
      exact this
  · intro p hr
    simp only [nFail_snoc, nTell_snoc, Nat.add_zero, mem_pids_snoc]
    rcases h.nr_spec p hr with a | a | ⟨a, b, c⟩
    · exact Or.inl a
    · exact Or.inr (Or.inl a)
    · refine Or.inr (Or.inr ⟨a, ?_, c⟩)
      rintro (hm | rfl)
      · exact b hm
      · rcases hf with hf | hf
        · simp [hr] at hf
        · omega
  · simpa using h.tb_spec
  · simpa using h.fresh
  · intro f p x' y hm
    simp only [List.mem_append, List.mem_singleton, reduceCtorEq, or_false] at hm
    obtain ⟨a, b⟩ := h.tell_fut f p x' y hm
    refine ⟨by omega, ?_⟩
    simp only [List.map_append, List.mem_append, List.map_cons, List.map_nil, List.mem_singleton]
    rintro (hm' | rfl)
    · exact b hm'
    · omega
  · exact tellsLegal_snoc h.legal (by intro _ _ _ _ e; cases e)
  · intro p x' hm
    simp only [List.mem_append, List.mem_singleton, reduceCtorEq, or_false] at hm
    simpa using h.raise_spec p x' hm

/-- `learner.ask(k)` answered with `pts` -/
theorem Core.ask (h : Core cfg pend idp rty tb nid nfut tr) (k : Nat) (pts : List Nat) :
    Core cfg pend (idp ++ (List.range' nid pts.length).zip pts) rty tb (nid + pts.length) nfut
      (tr ++ [Call.ask k pts]) := by
  have hsome : ∀ p, (aget p idp).isSome = true →
      (aget p (idp ++ (List.range' nid pts.length).zip pts)).isSome = true := by
    intro p hp
    obtain ⟨x, hx⟩ := Option.isSome_iff_exists.1 hp
    rw [aget_append_of_some hx]; rfl
  have hnew : ∀ p, (aget p (idp ++ (List.range' nid pts.length).zip pts)).isSome = true →
      (aget p idp).isSome = true ∨ nid ≤ p := by
    intro p hp
    cases hx : aget p idp with
    | some x => simp
    | none =>
      rw [aget_append_of_none hx] at hp
      obtain ⟨x, hx'⟩ := Option.isSome_iff_exists.1 hp
      exact Or.inr (aget_zip_range' hx').1
  refine ⟨h.pend_futs, h.pend_pids, ?_, ?_, ?_, ?_, ?_, ?_, h.rty_keys, ?_, ?_, ?_, h.tb_nodup,
    ?_, ?_, ?_, ?_, ?_⟩
  · intro f p hm
    obtain ⟨a, y, b, c⟩ := h.pend_spec f p hm
    exact ⟨a, y, aget_append_of_some b, List.mem_append.2 (Or.inl c)⟩
  · rw [List.map_append, keys_zip_range', List.nodup_append]
    refine ⟨h.id_keys, List.nodup_range', ?_⟩
    intro a ha b hb
    have ha' := aget_isSome_iff.2 ha
    obtain ⟨x, hx⟩ := Option.isSome_iff_exists.1 ha'
    have := h.id_lt hx
    have := (List.mem_range'_1.1 hb).1
    omega
  · intro p x hx
    simp only [askedPts_snoc]
    cases hx0 : aget p idp with
    | some x0 =>
      rw [aget_append_of_some hx0] at hx
      cases hx
      exact getElem?_append_some (h.id_spec p _ hx0)
    | none =>
      rw [aget_append_of_none hx0] at hx
      obtain ⟨a, b⟩ := aget_zip_range' hx
      rw [List.getElem?_append_right (by rw [h.asked_len]; exact a), h.asked_len]
      exact b
  · simp [h.asked_len]
  · simpa using h.tell_le
  · intro p x hx
    simp only [nTell_snoc, Nat.add_zero]
    rcases hnew p (by rw [hx]; rfl) with a | a
    · obtain ⟨x0, hx0⟩ := Option.isSome_iff_exists.1 a
      exact h.tell_id p x0 hx0
    · exact (h.fresh p a).2
  · intro p c hc
    obtain ⟨a, b, c', d⟩ := h.rty_spec p c hc
    exact ⟨by simpa using a, b, c', hsome p d⟩
  · simpa using h.count
  · intro p hr
    simp only [nFail_snoc, nTell_snoc, Nat.add_zero]
    rcases h.nr_spec p hr with a | a | ⟨a, b, c⟩
    · exact Or.inl a
    · exact Or.inr (Or.inl a)
    · exact Or.inr (Or.inr ⟨a, b, hsome p c⟩)
  · intro p
    simp only [nFail_snoc, Nat.add_zero]
    rw [h.tb_spec p]
    constructor
    · rintro ⟨a, b⟩; exact ⟨a, hsome p b⟩
    · rintro ⟨a, b⟩
      rcases hnew p b with c | c
      · exact ⟨a, c⟩
      · have := (h.fresh p c).1; omega
  · intro p hp
    simpa using h.fresh p (by omega)
  · intro f p x y hm
    simp only [List.mem_append, List.mem_singleton, reduceCtorEq, or_false] at hm
    exact h.tell_fut f p x y hm
  · exact tellsLegal_snoc h.legal (by intro _ _ _ _ e; cases e)
  · intro p x hm
    simp only [List.mem_append, List.mem_singleton, reduceCtorEq, or_false] at hm
    obtain ⟨a, b, c⟩ := h.raise_spec p x hm
    exact ⟨a, by simpa using getElem?_append_some b, by simpa using c⟩

/-- a successful result is told and the pid is forgotten -/
theorem Core.tell (h : Core cfg pend idp rty tb nid nfut tr) {fut pid x : Nat} (y : Int)
    (hp : aget fut pend = some pid) (hx : aget pid idp = some x) :
    Core cfg (aerase fut pend) (aerase pid idp) (aerase pid rty) (tb.erase pid) nid nfut
      (tr ++ [Call.tell fut pid x y]) := by
  have hm := mem_of_aget hp
  have hmp := @mem_pids_aerase pend fut pid h.pend_futs h.pend_pids hp
  have hpid : pid ∈ pend.map Prod.snd := List.mem_map.2 ⟨(fut, pid), hm, rfl⟩
  have hidp : ∀ p, p ≠ pid → aget p (aerase pid idp) = aget p idp := fun p hne => aget_aerase_ne hne
  have hidp0 : aget pid (aerase pid idp) = none := aget_aerase_self h.id_keys
  have hrty : ∀ p, p ≠ pid → aget p (aerase pid rty) = aget p rty := fun p hne => aget_aerase_ne hne
  have hfail := h.pend_fail hm
  have htell := h.tell_id pid x hx
  have hsub : Call.submit fut pid x ∈ tr := by
    obtain ⟨_, x', a, b⟩ := h.pend_spec fut pid hm
    rw [hx] at a; cases a; exact b
  refine ⟨aerase_keys_nodup h.pend_futs, aerase_vals_nodup h.pend_pids, ?_,
    aerase_keys_nodup h.id_keys, ?_, ?_, ?_, ?_, aerase_keys_nodup h.rty_keys, ?_, ?_, ?_,
    h.tb_nodup.sublist List.erase_sublist, ?_, ?_, ?_, ?_, ?_⟩
  · intro f p hfp
    have hfp' := mem_of_mem_aerase hfp
    have hne : p ≠ pid := by
      have : p ∈ (aerase fut pend).map Prod.snd := List.mem_map.2 ⟨(f, p), hfp, rfl⟩
      exact (hmp.1 this).2
    obtain ⟨a, x', b, c⟩ := h.pend_spec f p hfp'
    exact ⟨a, x', by rw [hidp p hne]; exact b, List.mem_append.2 (Or.inl c)⟩
  · intro p x' hx'
    have hne : p ≠ pid := by rintro rfl; rw [hidp0] at hx'; cases hx'
    rw [hidp p hne] at hx'
    simpa using h.id_spec p x' hx'
  · simpa using h.asked_len
  · intro p
    have := h.tell_le p
    simp only [nTell_snoc]
    split
    · subst_vars; omega
    · omega
  · intro p x' hx'
    have hne : p ≠ pid := by rintro rfl; rw [hidp0] at hx'; cases hx'
    rw [hidp p hne] at hx'
    have hne' : ¬ pid = p := fun e => hne e.symm
    simp only [nTell_snoc, hne', if_false, Nat.add_zero]
    exact h.tell_id p x' hx'
  · intro p c hc
    have hne : p ≠ pid := by
      rintro rfl; rw [aget_aerase_self h.rty_keys] at hc; cases hc
    rw [hrty p hne] at hc
    rw [hidp p hne]
    simpa using h.rty_spec p c hc
  · intro p
    have := h.count p
    simp only [nSubmit_snoc, nFail_snoc, nTell_snoc, Nat.add_zero]
    by_cases hpp : p = pid
    · subst hpp
      have hn : p ∉ (aerase fut pend).map Prod.snd := fun hm' => (hmp.1 hm').2 rfl
      simp only [hpid, if_true] at this
      simp only [hn, if_false, if_true]
      omega
    · have hpp' : ¬ pid = p := fun e => hpp e.symm
      have hiff : p ∈ (aerase fut pend).map Prod.snd ↔ p ∈ pend.map Prod.snd := by
        rw [hmp]; exact ⟨fun a => a.1, fun a => ⟨a, hpp⟩⟩
      simp only [hiff, hpp', if_false, Nat.add_zero]
      exact this
  · intro p hr
    simp only [nFail_snoc, nTell_snoc, Nat.add_zero]
    by_cases hpp : p = pid
    · subst hpp
      simp only [if_true]
      exact Or.inr (Or.inl ⟨by omega, hfail.2⟩)
    · have hpp' : ¬ pid = p := fun e => hpp e.symm
      rw [hrty p hpp] at hr
      simp only [hpp', if_false, Nat.add_zero, hidp p hpp]
      rcases h.nr_spec p hr with a | a | ⟨a, b, c⟩
      · exact Or.inl a
      · exact Or.inr (Or.inl a)
      · exact Or.inr (Or.inr ⟨a, fun hm' => b (hmp.1 hm').1, c⟩)
  · intro p
    rw [h.tb_nodup.mem_erase_iff, h.tb_spec p]
    simp only [nFail_snoc, Nat.add_zero]
    by_cases hpp : p = pid
    · subst hpp; simp [hidp0]
    · simp [hpp, hidp p hpp]
  · intro p hp'
    have hlt := h.id_lt hx
    have hne : ¬ pid = p := by omega
    simpa [hne] using h.fresh p hp'
  · intro f p x' y' hm'
    simp only [List.mem_append, List.mem_singleton, Call.tell.injEq] at hm'
    rcases hm' with hm' | ⟨rfl, rfl, rfl, rfl⟩
    · obtain ⟨a, b⟩ := h.tell_fut f p x' y' hm'
      exact ⟨a, fun hm'' => b ((aerase_sublist fut pend).map _ |>.subset hm'')⟩
    · exact ⟨(h.pend_spec _ _ hm).1, not_mem_futs_aerase h.pend_futs⟩
  · refine tellsLegal_snoc h.legal ?_
    intro f p x' y' e
    cases e
    refine ⟨hsub, h.id_spec pid x hx, htell, ?_⟩
    intro p x' y' hm'
    exact (h.tell_fut _ _ _ _ hm').2 (List.mem_map.2 ⟨(fut, pid), hm, rfl⟩)
  · intro p x' hm'
    simp only [List.mem_append, List.mem_singleton, reduceCtorEq, or_false] at hm'
    simpa using h.raise_spec p x' hm'

/-- a failed result: the pid is counted in `rty'` (retry) or dropped from it (exhausted) -/
theorem Core.fail (h : Core cfg pend idp rty tb nid nfut tr) {fut pid : Nat}
    (hp : aget fut pend = some pid) {rty' : List (Nat × Nat)}
    (hk : (rty'.map Prod.fst).Nodup) (hother : ∀ p, p ≠ pid → aget p rty' = aget p rty)
    (hpid : (aget pid rty' = some (nFail pid tr + 1) ∧ nFail pid tr + 1 ≤ cfg.retries) ∨
      (aget pid rty' = none ∧ cfg.retries < nFail pid tr + 1)) :
    Core cfg (aerase fut pend) idp rty' (if pid ∈ tb then tb else tb ++ [pid]) nid nfut
      (tr ++ [Call.evalFailed fut pid]) := by
  have hm := mem_of_aget hp
  have hmp := @mem_pids_aerase pend fut pid h.pend_futs h.pend_pids hp
  have hpidm : pid ∈ pend.map Prod.snd := List.mem_map.2 ⟨(fut, pid), hm, rfl⟩
  have hfail := h.pend_fail hm
  obtain ⟨_, x, hx, hsub⟩ := h.pend_spec fut pid hm
  have hlt := h.id_lt hx
  have hnotin : pid ∉ (aerase fut pend).map Prod.snd := fun hm' => (hmp.1 hm').2 rfl
  refine ⟨aerase_keys_nodup h.pend_futs, aerase_vals_nodup h.pend_pids, ?_, h.id_keys, ?_, ?_, ?_,
    ?_, hk, ?_, ?_, ?_, ?_, ?_, ?_, ?_, ?_, ?_⟩
  · intro f p hfp
    obtain ⟨a, x', b, c⟩ := h.pend_spec f p (mem_of_mem_aerase hfp)
    exact ⟨a, x', b, List.mem_append.2 (Or.inl c)⟩
  · simpa using h.id_spec
  · simpa using h.asked_len
  · simpa using h.tell_le
  · simpa using h.tell_id
  · intro p c hc
    simp only [nFail_snoc]
    by_cases hpp : p = pid
    · subst hpp
      rcases hpid with ⟨a, b⟩ | ⟨a, _⟩
      · rw [a] at hc; cases hc
        simp only [if_true]
        exact ⟨trivial, by omega, b, by rw [hx]; rfl⟩
      · rw [a] at hc; cases hc
    · have hpp' : ¬ pid = p := fun e => hpp e.symm
      rw [hother p hpp] at hc
      simp only [hpp', if_false, Nat.add_zero]
      exact h.rty_spec p c hc
  · intro p
    have := h.count p
    simp only [nSubmit_snoc, nFail_snoc, nTell_snoc, Nat.add_zero]
    by_cases hpp : p = pid
    · subst hpp
      simp only [hpidm, if_true] at this
      simp only [hnotin, if_false, if_true]
      omega
    · have hpp' : ¬ pid = p := fun e => hpp e.symm
      have hiff : p ∈ (aerase fut pend).map Prod.snd ↔ p ∈ pend.map Prod.snd := by
        rw [hmp]; exact ⟨fun a => a.1, fun a => ⟨a, hpp⟩⟩
      simp only [hiff, hpp', if_false, Nat.add_zero]
      exact this
  · intro p hr
    simp only [nFail_snoc, nTell_snoc, Nat.add_zero]
    by_cases hpp : p = pid
    · subst hpp
      rcases hpid with ⟨a, _⟩ | ⟨_, b⟩
      · rw [a] at hr; cases hr
      · simp only [if_true]
        exact Or.inr (Or.inr ⟨by omega, hnotin, by rw [hx]; rfl⟩)
    · have hpp' : ¬ pid = p := fun e => hpp e.symm
      rw [hother p hpp] at hr
      simp only [hpp', if_false, Nat.add_zero]
      rcases h.nr_spec p hr with a | a | ⟨a, b, c⟩
      · exact Or.inl a
      · exact Or.inr (Or.inl a)
      · exact Or.inr (Or.inr ⟨a, fun hm' => b (hmp.1 hm').1, c⟩)
  · split
    · exact h.tb_nodup
    · rename_i hn
      refine List.nodup_append.2 ⟨h.tb_nodup, by simp, ?_⟩
      intro a ha b hb
      simp only [List.mem_singleton] at hb
      rintro rfl; subst hb; exact hn ha
  · intro p
    have hmem : p ∈ (if pid ∈ tb then tb else tb ++ [pid]) ↔ p ∈ tb ∨ p = pid := by
      split
      · constructor
        · exact Or.inl
        · rintro (a | rfl)
          · exact a
          · assumption
      · simp
    rw [hmem, h.tb_spec p]
    simp only [nFail_snoc]
    by_cases hpp : p = pid
    · subst hpp; simp [hx]
    · have hpp' : ¬ pid = p := fun e => hpp e.symm
      simp [hpp, hpp']
  · intro p hp'
    have hne : ¬ pid = p := by omega
    simpa [hne] using h.fresh p hp'
  · intro f p x' y' hm'
    simp only [List.mem_append, List.mem_singleton, reduceCtorEq, or_false] at hm'
    obtain ⟨a, b⟩ := h.tell_fut f p x' y' hm'
    exact ⟨a, fun hm'' => b ((aerase_sublist fut pend).map _ |>.subset hm'')⟩
  · exact tellsLegal_snoc h.legal (by intro _ _ _ _ e; cases e)
  · intro p x' hm'
    simp only [List.mem_append, List.mem_singleton, reduceCtorEq, or_false] at hm'
    obtain ⟨a, b, c⟩ := h.raise_spec p x' hm'
    have hne : ¬ pid = p := by rintro rfl; omega
    simp only [askedPts_snoc, List.append_nil, nFail_snoc, hne, if_false, Nat.add_zero]
    exact ⟨a, b, c⟩

end Runner
