import AdaptiveProofs.Lemmas.L1DEquivLoss

/-!
# Learner1D model: scale equivariance (C12), part 3 — `tellMany` (loop and batch path)

The batch path is split into `batchBase` (of `L1DScale`), the filling of `losses` (`bFill`), the
filling of `lossesC` together with the runs to interpolate (`bStepC`) and the interpolation
(`bInterp`).  The losses are all evaluated in states whose `core` is `core (batchBase s pts)`, so
one hypothesis `GLOK (batchBase s pts)` suffices.
-/
set_option linter.unusedSectionVars false
namespace L1D
variable {α : Type} [Field α] [LinearOrder α] [IsStrictOrderedRing α]
variable (lossFn : List (Option α) → List (Option (List α)) → Loss α) (r12 : α → α)

/-! ## the stages of the batch path -/

def bbData (s : State α) (pts : List (α × List α)) : List (α × List α) :=
  pts.foldl (fun d kv => dataSet d kv.1 kv.2) s.data

def bbPend (s : State α) (pts : List (α × List α)) : List α :=
  s.pending.filter (fun p => !(pts.any (fun kv => decide (kv.1 = p))))

def bbMn (vals : List (List α)) : List α := vals.foldl minL (vals.headD [])
def bbMx (vals : List (List α)) : List α := vals.foldl maxL (vals.headD [])

/-- the x bounding box of the batch path: the range of the points, extended to the domain -/
def bbLo (s : State α) (pts : List (α × List α)) : α :=
  if s.lo < (sortList (bbPend s pts ++ (bbData s pts).map Prod.fst)).headD 0 then s.lo
  else (sortList (bbPend s pts ++ (bbData s pts).map Prod.fst)).headD 0
def bbHi (s : State α) (pts : List (α × List α)) : α :=
  if (sortList (bbPend s pts ++ (bbData s pts).map Prod.fst)).getLastD 0 < s.hi then s.hi
  else (sortList (bbPend s pts ++ (bbData s pts).map Prod.fst)).getLastD 0

theorem batchBase_eq (s : State α) (pts : List (α × List α)) :
    batchBase s pts =
      { s with data := bbData s pts, pending := bbPend s pts,
               xs := sortList ((bbData s pts).map Prod.fst),
               xsC := sortList (bbPend s pts ++ (bbData s pts).map Prod.fst),
               bboxX := (bbLo s pts, bbHi s pts),
               bboxY := some (bbMn ((bbData s pts).map Prod.snd), bbMx ((bbData s pts).map Prod.snd)),
               scaleX := bbHi s pts - bbLo s pts,
               scaleY := maxOf (List.zipWith (· - ·) (bbMx ((bbData s pts).map Prod.snd))
                           (bbMn ((bbData s pts).map Prod.snd))),
               oldScaleY := maxOf (List.zipWith (· - ·) (bbMx ((bbData s pts).map Prod.snd))
                           (bbMn ((bbData s pts).map Prod.snd))),
               lossScale := bbHi s pts - bbLo s pts,
               losses := [], lossesC := [] } := rfl

/-- fill `losses` for the pairs of evaluated neighbours -/
def bFill (t : State α) (ivs : List (Ival α)) : State α :=
  ivs.foldl
    (fun s iv => { s with losses := lset r12 s.lossScale iv (getLoss lossFn s iv.1 iv.2) s.losses }) t

/-- one step of the loop that fills `lossesC` and collects the runs to interpolate -/
def bStepC (acc : State α × List (Ival α)) (iv : Ival α) : State α × List (Ival α) :=
  match lget iv acc.1.losses with
  | some v => ({ acc.1 with lossesC := lset r12 acc.1.lossScale iv v acc.1.lossesC }, acc.2)
  | none =>
    let s := { acc.1 with lossesC := lset r12 acc.1.lossScale iv .inf acc.1.lossesC }
    match acc.2.getLast? with
    | some (a, b) =>
      if b = iv.1 ∧ !(hasData acc.1 b) then (s, acc.2.dropLast ++ [(a, iv.2)])
      else (s, acc.2 ++ [iv])
    | none => (s, acc.2 ++ [iv])

/-- interpolate the runs -/
def bInterp (t : State α) (ti : List (Ival α)) : State α :=
  ti.foldl (fun s iv => if (lget iv s.losses).isSome then updInterp lossFn r12 s iv.1 iv.2 else s) t

theorem tellManyBatch_eqB (s : State α) (pts : List (α × List α)) :
    tellManyBatch lossFn r12 s pts =
      bInterp lossFn r12
        ((pairs (batchBase s pts).xsC).foldl (bStepC r12)
          (bFill lossFn r12 (batchBase s pts) (pairs (batchBase s pts).xs), [])).1
        ((pairs (batchBase s pts).xsC).foldl (bStepC r12)
          (bFill lossFn r12 (batchBase s pts) (pairs (batchBase s pts).xs), [])).2 := by
  rfl

section batch
variable {cx cy : α} (hx : 0 < cx) (hy : 0 < cy)
include hx

/-! ### `batchBase` -/

theorem bbData_scale (s : State α) (pts : List (α × List α)) :
    bbData (scaleState cx cy s) (sData cx cy pts) = sData cx cy (bbData s pts) := by
  unfold bbData
  rw [scaleState_data]
  generalize s.data = d
  induction pts generalizing d with
  | nil => rfl
  | cons kv r ih =>
    have : sData cx cy (kv :: r) = (cx * kv.1, sy cy kv.2) :: sData cx cy r := rfl
    rw [this, List.foldl_cons, List.foldl_cons, dataSet_scale hx]
    exact ih _

theorem bbPend_scale (s : State α) (pts : List (α × List α)) :
    bbPend (scaleState cx cy s) (sData cx cy pts) = (bbPend s pts).map (fun x => cx * x) := by
  unfold bbPend
  rw [scaleState_pending, List.filter_map]
  congr 1
  apply List.filter_congr
  intro p _
  simp only [Function.comp_def, sData, List.any_map, smul_eq hx]

omit hx in
theorem sData_fst (cx cy : α) (d : List (α × List α)) :
    (sData cx cy d).map Prod.fst = (d.map Prod.fst).map (fun x => cx * x) := by
  simp only [sData, List.map_map]; rfl

omit hx in
theorem sData_snd (cx cy : α) (d : List (α × List α)) :
    (sData cx cy d).map Prod.snd = (d.map Prod.snd).map (sy cy) := by
  simp only [sData, List.map_map]; rfl

omit hx in
include hy in
theorem bbMn_scale (vals : List (List α)) : bbMn (vals.map (sy cy)) = sy cy (bbMn vals) := by
  unfold bbMn
  have h0 : (vals.map (sy cy)).headD [] = sy cy (vals.headD []) := by cases vals <;> rfl
  rw [h0]
  clear h0
  generalize vals.headD [] = a
  induction vals generalizing a with
  | nil => rfl
  | cons v r ih => simp only [List.map_cons, List.foldl_cons, minL_scale hy, ih]

omit hx in
include hy in
theorem bbMx_scale (vals : List (List α)) : bbMx (vals.map (sy cy)) = sy cy (bbMx vals) := by
  unfold bbMx
  have h0 : (vals.map (sy cy)).headD [] = sy cy (vals.headD []) := by cases vals <;> rfl
  rw [h0]
  clear h0
  generalize vals.headD [] = a
  induction vals generalizing a with
  | nil => rfl
  | cons v r ih => simp only [List.map_cons, List.foldl_cons, maxL_scale hy, ih]

include hy in
theorem batchBase_scale (s : State α) (pts : List (α × List α)) :
    batchBase (scaleState cx cy s) (sData cx cy pts) = scaleState cx cy (batchBase s pts) := by
  have hlo : bbLo (scaleState cx cy s) (sData cx cy pts) = cx * bbLo s pts := by
    unfold bbLo
    rw [bbData_scale hx, bbPend_scale hx, sData_fst, ← List.map_append, sortList_map (smono hx),
      headD_map _ (mul_zero cx), scaleState_lo]
    simp only [smul_lt hx]
    split <;> rfl
  have hhi : bbHi (scaleState cx cy s) (sData cx cy pts) = cx * bbHi s pts := by
    unfold bbHi
    rw [bbData_scale hx, bbPend_scale hx, sData_fst, ← List.map_append, sortList_map (smono hx),
      getLastD_map _ (mul_zero cx), scaleState_hi]
    simp only [smul_lt hx]
    split <;> rfl
  rw [batchBase_eq, batchBase_eq, hlo, hhi, bbData_scale hx, bbPend_scale hx, sData_fst, sData_snd,
    ← List.map_append, sortList_map (smono hx), sortList_map (smono hx),
    bbMn_scale hy, bbMx_scale hy, zipSub_scale, maxOf_sy hy, ← mul_sub]
  rfl

/-! ### filling `losses` -/

omit hx in
theorem bFill_core (t : State α) (ivs : List (Ival α)) : core (bFill lossFn r12 t ivs) = core t := by
  unfold bFill
  induction ivs generalizing t with
  | nil => rfl
  | cons iv r ih => rw [List.foldl_cons, ih]; rfl

theorem bFill_scale {t : State α} (h : GLOK lossFn cx cy t) (ivs : List (Ival α)) :
    bFill lossFn r12 (scaleState cx cy t) (ivs.map (sIv cx)) =
      scaleState cx cy (bFill lossFn r12 t ivs) := by
  unfold bFill
  induction ivs generalizing t with
  | nil => rfl
  | cons iv r ih =>
    simp only [List.map_cons, List.foldl_cons]
    have e : ({ scaleState cx cy t with
          losses := lset r12 (scaleState cx cy t).lossScale (sIv cx iv)
            (getLoss lossFn (scaleState cx cy t) (sIv cx iv).1 (sIv cx iv).2)
            (scaleState cx cy t).losses } : State α) =
        scaleState cx cy { t with losses := lset r12 t.lossScale iv (getLoss lossFn t iv.1 iv.2) t.losses } := by
      show ({ scaleState cx cy t with
          losses := lset r12 (cx * t.lossScale) (sIv cx iv)
            (getLoss lossFn (scaleState cx cy t) (cx * iv.1) (cx * iv.2)) (sTab cx t.losses) } : State α) =
        { scaleState cx cy t with
          losses := sTab cx (lset r12 t.lossScale iv (getLoss lossFn t iv.1 iv.2) t.losses) }
      rw [h iv.1 iv.2, lset_scale r12 hx]
    rw [e]
    exact ih (glok_of_core lossFn (s := t) rfl h)

/-! ### filling `lossesC` -/

omit hx in
theorem bStepC_core (acc : State α × List (Ival α)) (iv : Ival α) :
    core (bStepC r12 acc iv).1 = core acc.1 := by
  unfold bStepC
  dsimp only
  repeat' split
  all_goals rfl

omit hx in
theorem bStepC_losses (acc : State α × List (Ival α)) (iv : Ival α) :
    (bStepC r12 acc iv).1.losses = acc.1.losses := by
  unfold bStepC
  dsimp only
  repeat' split
  all_goals rfl

theorem bStepC_scale (t : State α) (ti : List (Ival α)) (iv : Ival α) :
    bStepC r12 (scaleState cx cy t, ti.map (sIv cx)) (sIv cx iv) =
      (scaleState cx cy (bStepC r12 (t, ti) iv).1, (bStepC r12 (t, ti) iv).2.map (sIv cx)) := by
  have eI : ({ scaleState cx cy t with
        lossesC := lset r12 (cx * t.lossScale) (sIv cx iv) .inf (sTab cx t.lossesC) } : State α) =
      scaleState cx cy { t with lossesC := lset r12 t.lossScale iv .inf t.lossesC } := by
    show _ = ({ scaleState cx cy t with
        lossesC := sTab cx (lset r12 t.lossScale iv .inf t.lossesC) } : State α)
    rw [lset_scale r12 hx]
  unfold bStepC
  dsimp only
  rw [scaleState_losses, lget_scale hx]
  cases hl : lget iv t.losses with
  | some v =>
    dsimp only
    congr 1
    show ({ scaleState cx cy t with
        lossesC := lset r12 (cx * t.lossScale) (sIv cx iv) v (sTab cx t.lossesC) } : State α) =
      { scaleState cx cy t with lossesC := sTab cx (lset r12 t.lossScale iv v t.lossesC) }
    rw [lset_scale r12 hx]
  | none =>
    dsimp only
    rw [List.getLast?_map]
    cases hg : ti.getLast? with
    | none =>
      simp only [Option.map_none, List.map_append, List.map_cons, List.map_nil]
      exact congrArg (fun u => (u, _)) eI
    | some ab =>
      obtain ⟨a, b⟩ := ab
      simp only [Option.map_some, sIv]
      simp only [hasData_scale hx, smul_eq hx]
      split
      · simp only [List.map_append, List.map_cons, List.map_nil, List.map_dropLast, sIv]
        exact congrArg (fun u => (u, _)) eI
      · simp only [List.map_append, List.map_cons, List.map_nil, sIv]
        exact congrArg (fun u => (u, _)) eI

theorem foldl_bStepC_scale (ivs : List (Ival α)) (t : State α) (ti : List (Ival α)) :
    (ivs.map (sIv cx)).foldl (bStepC r12) (scaleState cx cy t, ti.map (sIv cx)) =
      (scaleState cx cy (ivs.foldl (bStepC r12) (t, ti)).1,
        (ivs.foldl (bStepC r12) (t, ti)).2.map (sIv cx)) := by
  induction ivs generalizing t ti with
  | nil => rfl
  | cons iv r ih =>
    simp only [List.map_cons, List.foldl_cons]
    rw [bStepC_scale r12 hx]
    exact ih _ _

/-! ### interpolation -/

theorem bInterp_scale {t : State α} (h : GLOK lossFn cx cy t) (ti : List (Ival α)) :
    bInterp lossFn r12 (scaleState cx cy t) (ti.map (sIv cx)) =
      scaleState cx cy (bInterp lossFn r12 t ti) := by
  unfold bInterp
  induction ti generalizing t with
  | nil => rfl
  | cons iv r ih =>
    simp only [List.map_cons, List.foldl_cons]
    rw [scaleState_losses, lget_scale hx]
    cases (lget iv t.losses).isSome with
    | false => exact ih h
    | true =>
      simp only [if_true]
      show List.foldl _ (updInterp lossFn r12 (scaleState cx cy t) (cx * iv.1) (cx * iv.2)) _ = _
      rw [updInterp_scale lossFn r12 hx h]
      exact ih (glok_updInterp lossFn r12 h iv.1 iv.2)

include hy

/-- Target 3, batch path of `tellMany`. -/
theorem tellManyBatch_scale (s : State α) (pts : List (α × List α))
    (h : GLOK lossFn cx cy (batchBase s pts)) :
    tellManyBatch lossFn r12 (scaleState cx cy s) (sData cx cy pts) =
      scaleState cx cy (tellManyBatch lossFn r12 s pts) := by
  rw [tellManyBatch_eqB, tellManyBatch_eqB, batchBase_scale hx hy, scaleState_xs, scaleState_xsC,
    pairs_scale hx, pairs_scale hx, bFill_scale lossFn r12 hx h]
  have e := foldl_bStepC_scale r12 hx (cy := cy) (pairs (batchBase s pts).xsC)
    (bFill lossFn r12 (batchBase s pts) (pairs (batchBase s pts).xs)) []
  rw [List.map_nil] at e
  rw [e]
  apply bInterp_scale lossFn r12 hx
  refine glok_of_core lossFn ?_ h
  rw [core_foldl_fst_of_step (bStepC r12) (fun a b => bStepC_core r12 a b)]
  exact bFill_core lossFn r12 _ _

/-- Target 3, loop path of `tellMany` (a fold of `tell`), for any property `P` of the states that
`tell` preserves and that makes the losses agree after each state update. -/
theorem foldl_tell_scale (P : State α → Prop) (pts : List (α × List α))
    (hP : ∀ s', P s' → ∀ kv ∈ pts, P (tell lossFn r12 s' kv.1 kv.2))
    (hG : ∀ s', P s' → ∀ kv ∈ pts, GLOK lossFn cx cy (tellPre s' kv.1 kv.2))
    {s : State α} (h0 : P s) :
    (sData cx cy pts).foldl (fun s kv => tell lossFn r12 s kv.1 kv.2) (scaleState cx cy s) =
      scaleState cx cy (pts.foldl (fun s kv => tell lossFn r12 s kv.1 kv.2) s) := by
  induction pts generalizing s with
  | nil => rfl
  | cons kv r ih =>
    have : sData cx cy (kv :: r) = (cx * kv.1, sy cy kv.2) :: sData cx cy r := rfl
    rw [this, List.foldl_cons, List.foldl_cons]
    show List.foldl _ (tell lossFn r12 (scaleState cx cy s) (cx * kv.1) (sy cy kv.2)) _ = _
    rw [tell_scale lossFn r12 hx hy s kv.1 kv.2 (fun _ => hG s h0 kv (List.mem_cons_self ..))]
    exact ih (fun s' hs' kv' hk => hP s' hs' kv' (List.mem_cons_of_mem _ hk))
      (fun s' hs' kv' hk => hG s' hs' kv' (List.mem_cons_of_mem _ hk))
      (hP s h0 kv (List.mem_cons_self ..))

theorem tellMany_scale (P : State α → Prop) (s : State α) (pts : List (α × List α)) (f : Bool)
    (hP : ∀ s', P s' → ∀ kv ∈ pts, P (tell lossFn r12 s' kv.1 kv.2))
    (hG : ∀ s', P s' → ∀ kv ∈ pts, GLOK lossFn cx cy (tellPre s' kv.1 kv.2))
    (h0 : P s) (hB : GLOK lossFn cx cy (batchBase s pts)) :
    tellMany lossFn r12 (scaleState cx cy s) (sData cx cy pts) f =
      scaleState cx cy (tellMany lossFn r12 s pts f) := by
  unfold tellMany
  have hl : (sData cx cy pts).length = pts.length := List.length_map _
  have hd : (scaleState cx cy s).data.length = s.data.length := List.length_map _
  rw [hl, hd]
  split
  · exact foldl_tell_scale lossFn r12 hx hy P pts hP hG h0
  · exact tellManyBatch_scale lossFn r12 hx hy s pts hB

end batch

end L1D
