import AdaptiveProofs.Lemmas.L1DDefs
import Mathlib.Tactic.Ring
import Mathlib.Tactic.Linarith
import Mathlib.Tactic.FieldSimp
import Mathlib.Order.Monotone.Basic
import Mathlib.Data.List.Basic

/-!
# Learner1D model: scale equivariance (C12), part 1 — definitions and the list primitives

`scaleState cx cy s` is the image of the state `s` under `x ↦ cx * x`, `y ↦ cy * y`; `scaleOp` the
image of an operation.  This file proves that every list primitive of the model commutes with the
scaling: the sorted abscissa lists (for an arbitrary strictly monotone map), the loss tables and
the `quals` of `ask` (keys scaled by `cx > 0`, LOSS VALUES UNCHANGED), `linspace`, `npLinspace`,
the bounding-box helpers.  `r12` is an arbitrary function throughout.
-/
set_option linter.unusedSectionVars false
namespace L1D
variable {α : Type} [Field α] [LinearOrder α] [IsStrictOrderedRing α]

/-! ## the scaled image of everything -/
section defs
variable (cx cy : α)

/-- `x ↦ cx * x` -/
def sx (x : α) : α := cx * x
/-- a value (list of components) scaled by `cy` -/
def sy (y : List α) : List α := y.map (fun v => cy * v)
/-- an interval scaled by `cx` -/
def sIv (iv : Ival α) : Ival α := (cx * iv.1, cx * iv.2)
/-- a loss table: keys scaled by `cx`, losses unchanged -/
def sTab (l : List (Ival α × Loss α)) : List (Ival α × Loss α) := l.map (fun e => (sIv cx e.1, e.2))
/-- the data dict -/
def sData (d : List (α × List α)) : List (α × List α) := d.map (fun kv => (cx * kv.1, sy cy kv.2))
/-- an entry of `quals`: interval scaled, number of parts and loss unchanged -/
def sQual (q : Qual α) : Qual α := ⟨cx * q.l, cx * q.r, q.n, q.loss⟩

/-- the image of a state under `x ↦ cx * x`, `y ↦ cy * y` -/
def scaleState (s : State α) : State α :=
  { lo := cx * s.lo, hi := cx * s.hi, nn := s.nn, factor := s.factor, dxEps := cx * s.dxEps,
    data := sData cx cy s.data,
    pending := s.pending.map (fun x => cx * x),
    xs := s.xs.map (fun x => cx * x),
    xsC := s.xsC.map (fun x => cx * x),
    losses := sTab cx s.losses,
    lossesC := sTab cx s.lossesC,
    lossScale := cx * s.lossScale,
    bboxX := (cx * s.bboxX.1, cx * s.bboxX.2),
    bboxY := s.bboxY.map (fun p => (sy cy p.1, sy cy p.2)),
    scaleX := cx * s.scaleX,
    scaleY := cy * s.scaleY,
    oldScaleY := cy * s.oldScaleY }

/-- the image of an operation -/
def scaleOp : Op α → Op α
  | .tell x y => .tell (cx * x) (sy cy y)
  | .tellPending x => .tellPending (cx * x)
  | .tellMany pts f => .tellMany (sData cx cy pts) f
  | .removeUnfinished => .removeUnfinished
  | .ask n c => .ask n c

end defs

/-! ### projections of `scaleState` -/
section proj
variable (cx cy : α) (s : State α)
@[simp] theorem scaleState_lo : (scaleState cx cy s).lo = cx * s.lo := rfl
@[simp] theorem scaleState_hi : (scaleState cx cy s).hi = cx * s.hi := rfl
@[simp] theorem scaleState_nn : (scaleState cx cy s).nn = s.nn := rfl
@[simp] theorem scaleState_factor : (scaleState cx cy s).factor = s.factor := rfl
@[simp] theorem scaleState_dxEps : (scaleState cx cy s).dxEps = cx * s.dxEps := rfl
@[simp] theorem scaleState_data : (scaleState cx cy s).data = sData cx cy s.data := rfl
@[simp] theorem scaleState_pending : (scaleState cx cy s).pending = s.pending.map (fun x => cx * x) := rfl
@[simp] theorem scaleState_xs : (scaleState cx cy s).xs = s.xs.map (fun x => cx * x) := rfl
@[simp] theorem scaleState_xsC : (scaleState cx cy s).xsC = s.xsC.map (fun x => cx * x) := rfl
@[simp] theorem scaleState_losses : (scaleState cx cy s).losses = sTab cx s.losses := rfl
@[simp] theorem scaleState_lossesC : (scaleState cx cy s).lossesC = sTab cx s.lossesC := rfl
@[simp] theorem scaleState_lossScale : (scaleState cx cy s).lossScale = cx * s.lossScale := rfl
@[simp] theorem scaleState_bboxX : (scaleState cx cy s).bboxX = (cx * s.bboxX.1, cx * s.bboxX.2) := rfl
@[simp] theorem scaleState_bboxY : (scaleState cx cy s).bboxY = s.bboxY.map (fun p => (sy cy p.1, sy cy p.2)) := rfl
@[simp] theorem scaleState_scaleX : (scaleState cx cy s).scaleX = cx * s.scaleX := rfl
@[simp] theorem scaleState_scaleY : (scaleState cx cy s).scaleY = cy * s.scaleY := rfl
@[simp] theorem scaleState_oldScaleY : (scaleState cx cy s).oldScaleY = cy * s.oldScaleY := rfl

theorem scaleState_set_losses (l : List (Ival α × Loss α)) :
    scaleState cx cy { s with losses := l } = { scaleState cx cy s with losses := sTab cx l } := rfl
theorem scaleState_set_lossesC (l : List (Ival α × Loss α)) :
    scaleState cx cy { s with lossesC := l } = { scaleState cx cy s with lossesC := sTab cx l } := rfl
theorem scaleState_set_both (l l' : List (Ival α × Loss α)) :
    scaleState cx cy { s with losses := l, lossesC := l' } =
      { scaleState cx cy s with losses := sTab cx l, lossesC := sTab cx l' } := rfl
end proj

theorem scaleState_init (cx cy lo hi factor eps : α) (nn : Nat) :
    scaleState cx cy (init lo hi factor eps nn) = init (cx * lo) (cx * hi) factor (cx * eps) nn := by
  simp only [scaleState, init, sData, sTab, List.map_nil, Option.map_none, mul_zero, mul_sub]

/-! ## sorted abscissa lists, for an arbitrary strictly monotone map -/
section mono
variable {f : α → α}

theorem sinsert_map (hf : StrictMono f) (x : α) (l : List α) :
    sinsert (f x) (l.map f) = (sinsert x l).map f := by
  induction l with
  | nil => rfl
  | cons y r ih =>
    simp only [List.map_cons, sinsert, hf.lt_iff_lt, hf.injective.eq_iff]
    split
    · rfl
    · split
      · rfl
      · simp only [List.map_cons, ih]

theorem leftOf_map (hf : StrictMono f) (x : α) (l : List α) :
    leftOf (f x) (l.map f) = (leftOf x l).map f := by
  simp only [leftOf, List.filter_map, List.getLast?_map]
  congr 2
  apply List.filter_congr
  intro y _
  simp only [Function.comp, hf.lt_iff_lt]

theorem rightOf_map (hf : StrictMono f) (x : α) (l : List α) :
    rightOf (f x) (l.map f) = (rightOf x l).map f := by
  simp only [rightOf, List.filter_map, List.head?_map]
  congr 2
  apply List.filter_congr
  intro y _
  simp only [Function.comp, hf.lt_iff_lt]

theorem findNeighbors_map (hf : StrictMono f) (x : α) (l : List α) :
    findNeighbors (f x) (l.map f) = ((leftOf x l).map f, (rightOf x l).map f) := by
  simp only [findNeighbors, leftOf_map hf, rightOf_map hf]

theorem pairs_map (g : α → α) : ∀ l : List α, pairs (l.map g) = (pairs l).map (fun ab => (g ab.1, g ab.2))
  | [] => rfl
  | [_] => rfl
  | a :: b :: r => by
    have ih := pairs_map g (b :: r)
    simp only [List.map_cons] at ih
    simp only [List.map_cons, pairs, ih]

theorem between_map (hf : StrictMono f) (xl xr : α) (l : List α) :
    (l.map f).filter (fun y => !(decide (y < f xl)) && !(decide (f xr < y))) =
      (l.filter (fun y => !(decide (y < xl)) && !(decide (xr < y)))).map f := by
  simp only [List.filter_map]
  congr 1
  apply List.filter_congr
  intro y _
  simp only [Function.comp, hf.lt_iff_lt]

theorem findIdx_map (hf : StrictMono f) (x : α) (l : List α) :
    (l.map f).findIdx (fun y => decide (y = f x)) = l.findIdx (fun y => decide (y = x)) := by
  induction l with
  | nil => rfl
  | cons y r ih =>
    simp only [List.map_cons, List.findIdx_cons, hf.injective.eq_iff, ih]

theorem pointAt_map (g : α → α) (l : List α) (i : Int) :
    pointAt (l.map g) i = (pointAt l i).map g := by
  unfold pointAt
  split
  · rfl
  · simp only [List.getElem?_map]

theorem mem_map_iff (hf : StrictMono f) (x : α) (l : List α) : f x ∈ l.map f ↔ x ∈ l :=
  List.mem_map_of_injective hf.injective

theorem erase_map (hf : StrictMono f) (x : α) (l : List α) :
    (l.map f).erase (f x) = (l.erase x).map f := by
  induction l with
  | nil => rfl
  | cons y r ih =>
    simp only [List.map_cons, List.erase_cons, beq_iff_eq, hf.injective.eq_iff]
    split
    · rfl
    · simp only [List.map_cons, ih]

theorem contains_map (hf : StrictMono f) (x : α) (l : List α) :
    (l.map f).contains (f x) = l.contains x := by
  rw [Bool.eq_iff_iff]
  simp only [List.contains_iff_mem, mem_map_iff hf]

theorem sortList_aux_map (hf : StrictMono f) (l acc : List α) :
    (l.map f).foldl (fun acc x => sinsert x acc) (acc.map f) =
      (l.foldl (fun acc x => sinsert x acc) acc).map f := by
  induction l generalizing acc with
  | nil => rfl
  | cons x r ih => simp only [List.map_cons, List.foldl_cons, sinsert_map hf, ih]

theorem sortList_map (hf : StrictMono f) (l : List α) :
    sortList (l.map f) = (sortList l).map f :=
  sortList_aux_map hf l []

theorem headD_map (g : α → α) (h0 : g 0 = 0) (l : List α) : (l.map g).headD 0 = g (l.headD 0) := by
  cases l with
  | nil => exact h0.symm
  | cons a r => rfl

theorem getLastD_map (g : α → α) (h0 : g 0 = 0) (l : List α) :
    (l.map g).getLastD 0 = g (l.getLastD 0) := by
  cases l with
  | nil => exact h0.symm
  | cons a r =>
    simp only [List.map_cons, List.getLastD_cons]
    induction r generalizing a with
    | nil => rfl
    | cons b r ih => simp only [List.map_cons, List.getLastD_cons, ih]

/-- `foldl` of a "pick one of the two" function commutes with a map -/
theorem foldl_pick_map (g : α → α) (pick : α → α → Bool) (pick' : α → α → Bool)
    (h : ∀ a b, pick' (g a) (g b) = pick a b) (l : List α) (m : α) :
    (l.map g).foldl (fun m x => if pick' m x then x else m) (g m) =
      g (l.foldl (fun m x => if pick m x then x else m) m) := by
  induction l generalizing m with
  | nil => rfl
  | cons x r ih =>
    simp only [List.map_cons, List.foldl_cons, h]
    split
    · exact ih x
    · exact ih m

end mono

/-! ## `x ↦ c * x` for `c > 0` -/

theorem smono {c : α} (hc : 0 < c) : StrictMono (fun x : α => c * x) :=
  fun _ _ h => mul_lt_mul_of_pos_left h hc

theorem smul_lt {c : α} (hc : 0 < c) (a b : α) : c * a < c * b ↔ a < b := (smono hc).lt_iff_lt
theorem smul_eq {c : α} (hc : 0 < c) (a b : α) : c * a = c * b ↔ a = b := (smono hc).injective.eq_iff

/-! ### the sorted-list primitives at `x ↦ c * x` (Target 1) -/
section scaleLists
variable {c : α} (hc : 0 < c)
include hc

theorem sinsert_scale (x : α) (l : List α) :
    sinsert (c * x) (l.map (fun x => c * x)) = (sinsert x l).map (fun x => c * x) :=
  sinsert_map (smono hc) x l

theorem leftOf_scale (x : α) (l : List α) :
    leftOf (c * x) (l.map (fun x => c * x)) = (leftOf x l).map (fun x => c * x) :=
  leftOf_map (smono hc) x l

theorem rightOf_scale (x : α) (l : List α) :
    rightOf (c * x) (l.map (fun x => c * x)) = (rightOf x l).map (fun x => c * x) :=
  rightOf_map (smono hc) x l

theorem findNeighbors_scale (x : α) (l : List α) :
    findNeighbors (c * x) (l.map (fun x => c * x)) =
      ((findNeighbors x l).1.map (fun x => c * x), (findNeighbors x l).2.map (fun x => c * x)) :=
  findNeighbors_map (smono hc) x l

theorem between_scale (xl xr : α) (l : List α) :
    (l.map (fun x => c * x)).filter (fun y => !(decide (y < c * xl)) && !(decide (c * xr < y))) =
      (l.filter (fun y => !(decide (y < xl)) && !(decide (xr < y)))).map (fun x => c * x) :=
  between_map (smono hc) xl xr l

theorem sortList_scale (l : List α) :
    sortList (l.map (fun x => c * x)) = (sortList l).map (fun x => c * x) :=
  sortList_map (smono hc) l

end scaleLists

theorem maxOf_scale {c : α} (hc : 0 < c) (l : List α) :
    maxOf (l.map (fun v => c * v)) = c * maxOf l := by
  unfold maxOf
  rw [headD_map (fun v => c * v) (mul_zero c)]
  have := foldl_pick_map (fun v => c * v) (fun a b => decide (a < b)) (fun a b => decide (a < b))
    (fun a b => by simp only [smul_lt hc]) l (l.headD 0)
  simpa only [decide_eq_true_eq] using this

theorem maxOfL_scale {c : α} (hc : 0 < c) (l : List α) :
    maxOfL (l.map (fun v => c * v)) = c * maxOfL l := by
  unfold maxOfL
  rw [headD_map (fun v => c * v) (mul_zero c)]
  have := foldl_pick_map (fun v => c * v) (fun a b => decide (a < b)) (fun a b => decide (a < b))
    (fun a b => by simp only [smul_lt hc]) l (l.headD 0)
  simpa only [decide_eq_true_eq] using this

theorem minOfL_scale {c : α} (hc : 0 < c) (l : List α) :
    minOfL (l.map (fun v => c * v)) = c * minOfL l := by
  unfold minOfL
  rw [headD_map (fun v => c * v) (mul_zero c)]
  have := foldl_pick_map (fun v => c * v) (fun a b => decide (b < a)) (fun a b => decide (b < a))
    (fun a b => by simp only [smul_lt hc]) l (l.headD 0)
  simpa only [decide_eq_true_eq] using this

theorem minL_scale {c : α} (hc : 0 < c) (a b : List α) :
    minL (sy c a) (sy c b) = sy c (minL a b) := by
  unfold minL sy
  induction a generalizing b with
  | nil => rfl
  | cons x r ih =>
    cases b with
    | nil => rfl
    | cons y t =>
      simp only [List.map_cons, List.zipWith_cons_cons, smul_lt hc, ih]
      split <;> rfl

theorem maxL_scale {c : α} (hc : 0 < c) (a b : List α) :
    maxL (sy c a) (sy c b) = sy c (maxL a b) := by
  unfold maxL sy
  induction a generalizing b with
  | nil => rfl
  | cons x r ih =>
    cases b with
    | nil => rfl
    | cons y t =>
      simp only [List.map_cons, List.zipWith_cons_cons, smul_lt hc, ih]
      split <;> rfl

theorem zipSub_scale (c : α) (a b : List α) :
    List.zipWith (· - ·) (sy c a) (sy c b) = sy c (List.zipWith (· - ·) a b) := by
  unfold sy
  induction a generalizing b with
  | nil => rfl
  | cons x r ih =>
    cases b with
    | nil => rfl
    | cons y t => simp only [List.map_cons, List.zipWith_cons_cons, ih, mul_sub]

/-! ## the data dict -/

theorem dataGet_scale {cx : α} (hx : 0 < cx) (cy : α) (d : List (α × List α)) (x : α) :
    dataGet (sData cx cy d) (cx * x) = (dataGet d x).map (sy cy) := by
  unfold dataGet sData
  induction d with
  | nil => rfl
  | cons kv r ih =>
    by_cases h : kv.1 = x
    · simp only [List.map_cons, List.find?_cons, h, decide_true, Option.map_some]
    · simpa only [List.map_cons, List.find?_cons, smul_eq hx, h, decide_false] using ih

theorem hasData_scale {cx : α} (hx : 0 < cx) (cy : α) (s : State α) (x : α) :
    hasData (scaleState cx cy s) (cx * x) = hasData s x := by
  unfold hasData
  show (dataGet (sData cx cy s.data) (cx * x)).isSome = _
  rw [dataGet_scale hx, Option.isSome_map]

theorem dataSet_scale {cx : α} (hx : 0 < cx) (cy : α) (d : List (α × List α)) (x : α) (y : List α) :
    dataSet (sData cx cy d) (cx * x) (sy cy y) = sData cx cy (dataSet d x y) := by
  unfold dataSet
  rw [dataGet_scale hx, Option.isSome_map]
  split
  · rfl
  · simp only [sData, List.map_append, List.map_cons, List.map_nil]

/-! ## loss tables -/
section tables
variable (r12 : α → α) {cx : α} (hx : 0 < cx)
include hx

theorem sIv_inj (a b : Ival α) : sIv cx a = sIv cx b ↔ a = b := by
  obtain ⟨a1, a2⟩ := a
  obtain ⟨b1, b2⟩ := b
  simp only [sIv, Prod.mk.injEq, smul_eq hx]

theorem ivalLt_scale (a b : Ival α) : ivalLt (sIv cx a) (sIv cx b) = ivalLt a b := by
  simp only [ivalLt, sIv, smul_lt hx, smul_eq hx]

theorem scale_ratio (a b S : α) : (cx * b - cx * a) / (cx * S) = (b - a) / S := by
  rw [← mul_sub, mul_div_mul_left _ _ (ne_of_gt hx)]

theorem finiteLoss_scale (iv : Ival α) (l : Loss α) (S : α) :
    finiteLoss r12 (sIv cx iv) l (cx * S) = finiteLoss r12 iv l S := by
  cases l with
  | fin v => rfl
  | inf => simp only [finiteLoss, sIv, scale_ratio hx]

theorem keyLt_scale (S : α) (a b : Ival α × Loss α) :
    keyLt r12 (cx * S) (sIv cx a.1, a.2) (sIv cx b.1, b.2) = keyLt r12 S a b := by
  simp only [keyLt, finiteLoss_scale r12 hx, ivalLt_scale hx]

theorem linsert_scale (S : α) (e : Ival α × Loss α) (l : List (Ival α × Loss α)) :
    linsert r12 (cx * S) (sIv cx e.1, e.2) (sTab cx l) = sTab cx (linsert r12 S e l) := by
  induction l with
  | nil => rfl
  | cons g r ih =>
    simp only [sTab, List.map_cons, linsert, keyLt_scale r12 hx]
    split
    · rfl
    · simp only [List.map_cons]
      exact congrArg _ ih

theorem lerase_scale (iv : Ival α) (l : List (Ival α × Loss α)) :
    lerase (sIv cx iv) (sTab cx l) = sTab cx (lerase iv l) := by
  simp only [lerase, sTab, List.filter_map]
  congr 1
  apply List.filter_congr
  intro e _
  simp only [Function.comp, sIv_inj hx]

theorem lset_scale (S : α) (iv : Ival α) (v : Loss α) (l : List (Ival α × Loss α)) :
    lset r12 (cx * S) (sIv cx iv) v (sTab cx l) = sTab cx (lset r12 S iv v l) := by
  unfold lset
  rw [lerase_scale hx]
  exact linsert_scale r12 hx S (iv, v) _

theorem lget_scale (iv : Ival α) (l : List (Ival α × Loss α)) :
    lget (sIv cx iv) (sTab cx l) = lget iv l := by
  unfold lget sTab
  induction l with
  | nil => rfl
  | cons e r ih =>
    simp only [List.map_cons, List.find?_cons, sIv_inj hx]
    split
    · rfl
    · exact ih

theorem mulDiv_scale (c : α) (l : Loss α) (d : α) :
    Loss.mulDiv (cx * c) l (cx * d) = Loss.mulDiv c l d := by
  cases l with
  | inf => rfl
  | fin v =>
    simp only [Loss.mulDiv]
    rw [mul_assoc, mul_div_mul_left _ _ (ne_of_gt hx)]

theorem tkeys_sTab (l : List (Ival α × Loss α)) :
    (sTab cx l).map Prod.fst = (l.map Prod.fst).map (sIv cx) := by
  simp only [sTab, List.map_map]
  rfl

end tables

/-! ## `linspace`, `npLinspace` -/

theorem linspace_scale (c a b : α) (n : Nat) :
    linspace (c * a) (c * b) n = (linspace a b n).map (fun x => c * x) := by
  unfold linspace
  split
  · rfl
  · simp only [List.map_map]
    apply List.map_congr_left
    intro i _
    simp only [Function.comp]
    rw [← mul_sub, mul_div_assoc]
    ring

theorem npLinspace_scale (c a b : α) (n : Nat) :
    npLinspace (c * a) (c * b) n = (npLinspace a b n).map (fun x => c * x) := by
  unfold npLinspace
  split
  · rfl
  · split
    · rfl
    · simp only [List.map_append, List.map_map, List.map_cons, List.map_nil]
      congr 1
      apply List.map_congr_left
      intro i _
      simp only [Function.comp]
      rw [← mul_sub, mul_div_assoc]
      ring

/-! ## the `quals` of `ask` -/
section quals
variable (r12 : α → α) {cx : α} (hx : 0 < cx)
include hx

theorem qualFinite_scale (S : α) (q : Qual α) :
    qualFinite r12 (cx * S) (sQual cx q) = qualFinite r12 S q := by
  obtain ⟨l, r, n, loss⟩ := q
  cases loss with
  | fin v => rfl
  | inf => simp only [qualFinite, sQual, scale_ratio hx]

theorem qualIvalLt_scale (a b : Qual α) : qualIvalLt (sQual cx a) (sQual cx b) = qualIvalLt a b := by
  obtain ⟨al, ar, an, _⟩ := a
  obtain ⟨bl, br, bn, _⟩ := b
  show (decide (cx * al < cx * bl) || (decide (cx * al = cx * bl) &&
    (decide (cx * ar < cx * br) || (decide (cx * ar = cx * br) && decide (an < bn))))) =
    (decide (al < bl) || (decide (al = bl) && (decide (ar < br) || (decide (ar = br) && decide (an < bn)))))
  simp only [smul_lt hx, smul_eq hx]

theorem qualKeyLt_scale (S : α) (a b : Qual α) :
    qualKeyLt r12 (cx * S) (sQual cx a) (sQual cx b) = qualKeyLt r12 S a b := by
  simp only [qualKeyLt, qualFinite_scale r12 hx, qualIvalLt_scale hx]

theorem qinsert_scale (S : α) (q : Qual α) (l : List (Qual α)) :
    qinsert r12 (cx * S) (sQual cx q) (l.map (sQual cx)) = (qinsert r12 S q l).map (sQual cx) := by
  induction l with
  | nil => rfl
  | cons g r ih =>
    simp only [List.map_cons, qinsert, qualKeyLt_scale r12 hx]
    split
    · rfl
    · simp only [List.map_cons, ih]

theorem ivalGeQual_scale (cy : α) (s : State α) (e : Ival α × Loss α) (q : Qual α) :
    ivalGeQual r12 (scaleState cx cy s) (sIv cx e.1, e.2) (sQual cx q) = ivalGeQual r12 s e q := by
  unfold ivalGeQual
  show (let le := finiteLoss r12 (sIv cx e.1) e.2 (cx * s.scaleX)
        let lq := qualFinite r12 (cx * s.scaleX) (sQual cx q)
        if lq < le then true else if le < lq then false else
        if cx * q.l < cx * e.1.1 then true else if cx * e.1.1 < cx * q.l then false else
        if cx * q.r < cx * e.1.2 then true else false) = _
  simp only [finiteLoss_scale r12 hx, qualFinite_scale r12 hx, smul_lt hx]

end quals

end L1D
