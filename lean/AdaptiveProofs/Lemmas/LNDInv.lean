import AdaptiveProofs.Lemmas.LNDKeys

/-! A generic induction principle for the LearnerND model (C04): a state predicate that is preserved by the
five building blocks (`tri` property, `tell_pending`, `tell`, `_ask_best_point`, `remove_unfinished`) and by the
consumption of a random number is preserved by every operation and every history. -/
set_option linter.unusedSectionVars false
set_option linter.unusedSimpArgs false
set_option linter.unusedVariables false
namespace LND
variable {α : Type} [Sub α] [Mul α] [Div α] [LT α] [DecidableLT α]

/-- `I` is preserved by the building blocks of the model -/
structure Preserved (env : Env α) (I : State α → Prop) : Prop where
  hTouch : ∀ {s s' : State α}, I s → touchTri env s = .ok s' → I s'
  hPend : ∀ {s s' : State α} (p : Pt) (hint : Option Simplex), I s → tellPending env s p hint = .ok s' → I s'
  hTell : ∀ {s s' : State α} (p : Pt) (a b : α), I s → tell env s p a b = .ok s' → I s'
  hBest : ∀ {s s' : State α} {vs : List Pt} {r : Pt × α}, I s → s.tri = some vs →
    askBest env s vs = .ok (r, s') → I s'
  hRemove : ∀ {s : State α}, I s → I (removeUnfinished env s)
  hRand : ∀ {s : State α}, I s → I { s with nrand := s.nrand + 1 }

theorem askOne_inv (env : Env α) {I : State α → Prop} (P : Preserved env I) {s s' : State α} {r : Pt × α}
    (hi : I s) (h : askOne env s = .ok (r, s')) : I s' := by
  rcases askOne_form env h with ⟨p, _, _, h1⟩ | ⟨_, s1, h1, hcase⟩
  · exact P.hPend p none hi h1
  · have i1 := P.hTouch hi h1
    rcases hcase with ⟨_, _, h2⟩ | ⟨vs, hvs, h2⟩
    · exact P.hPend _ none (P.hRand i1) h2
    · exact P.hBest i1 hvs h2

theorem askLoop_inv (env : Env α) {I : State α → Prop} (P : Preserved env I) (n : Nat) :
    ∀ {s s' : State α} {rs : List (Pt × α)}, I s → askLoop env n s = .ok (rs, s') → I s' := by
  induction n with
  | zero =>
    intro s s' rs hi h
    simp only [askLoop, Except.ok.injEq, Prod.mk.injEq] at h
    rw [← h.2]; exact hi
  | succ n ih =>
    intro s s' rs hi h
    unfold askLoop at h
    split at h
    · exact absurd h (by simp)
    · rename_i r s1 h1
      split at h
      · exact absurd h (by simp)
      · rename_i rs' s2 h2
        simp only [Except.ok.injEq, Prod.mk.injEq] at h
        rw [← h.2]
        exact ih (askOne_inv env P hi h1) h2

theorem step_inv (env : Env α) {I : State α → Prop} (P : Preserved env I) {s s' : State α} (op : Op α)
    (hi : I s) (h : step env s op = .ok s') : I s' := by
  cases op with
  | tell p a b => exact P.hTell p a b hi h
  | tellPending p => exact P.hPend p none hi h
  | ask n c =>
    simp only [step] at h
    cases ha : ask env s n c with
    | error e => rw [ha] at h; simp [Except.map] at h
    | ok r =>
      rw [ha] at h
      simp only [Except.map, Except.ok.injEq] at h
      subst h
      unfold ask at ha
      split at ha
      · exact absurd ha (by simp)
      · rename_i rs' s1 h1
        simp only [Except.ok.injEq] at ha
        subst ha
        cases c
        · exact hi
        · exact askLoop_inv env P n hi h1
  | removeUnfinished =>
    simp only [step, Except.ok.injEq] at h
    subst h; exact P.hRemove hi
  | loss =>
    simp only [step] at h
    cases ha : lossOp env s with
    | error e => rw [ha] at h; simp [Except.map] at h
    | ok r =>
      rw [ha] at h
      simp only [Except.map, Except.ok.injEq] at h
      subst h
      unfold lossOp at ha
      split at ha
      · exact absurd ha (by simp)
      · rename_i s1 h1
        have i1 := P.hTouch hi h1
        split at ha <;> (simp only [Except.ok.injEq] at ha; subst ha; exact i1)

theorem run_inv (env : Env α) {I : State α → Prop} (P : Preserved env I) (ops : List (Op α)) :
    ∀ {s s' : State α}, I s → run env s ops = .ok s' → I s' := by
  induction ops with
  | nil => intro s s' hi h; simp only [run, Except.ok.injEq] at h; subst h; exact hi
  | cons op ops ih =>
    intro s s' hi h
    unfold run at h
    split at h
    · exact absurd h (by simp)
    · rename_i s1 h1
      exact ih (step_inv env P op hi h1) h

end LND
