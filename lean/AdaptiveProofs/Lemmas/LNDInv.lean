import AdaptiveProofs.Lemmas.LNDKeys

/-! A generic induction principle for the LearnerND model (C04): a state predicate that is preserved by the
five building blocks (`tri` property, `tell_pending`, `tell`, `_ask_best_point`, `remove_unfinished`) and by the
consumption of a random number is preserved by every operation and every history. -/
set_option linter.unusedSectionVars false
set_option linter.unusedSimpArgs false
set_option linter.unusedVariables false
namespace LND
variable {α : Type} [Sub α] [Mul α] [Div α] [LT α] [DecidableLT α]

/-- `I` is preserved by the building blocks of the model -/
structure Preserved (env : Env α) (I : State α → Prop) : Prop where
  hTouch : ∀ {s s' : State α}, I s → touchTri env s = .ok s' → I s'
  hPend : ∀ {s s' : State α} (p : Pt) (hint : Option Simplex), I s → tellPending env s p hint = .ok s' → I s'
  hTell : ∀ {s s' : State α} (p : Pt) (a b : α), I s → tell env s p a b = .ok s' → I s'
  hBest : ∀ {s s' : State α} {vs : List Pt} {r : Pt × α}, I s → s.tri = some vs →
    askBest env s vs = .ok (r, s') → I s'
  hRemove : ∀ {s : State α}, I s → I (removeUnfinished env s)
  hRand : ∀ {s : State α}, I s → I { s with nrand := s.nrand + 1 }

theorem askOne_inv (env : Env α) {I : State α → Prop} (P : Preserved env I) {s s' : State α} {r : Pt × α}
    (hi : I s) (h : askOne env s = .ok (r, s')) : I s' := by
  rcases askOne_form env h with ⟨p, _, _, h1⟩ | ⟨_, s1, h1, hcase⟩
  · exact P.hPend p none hi h1
  · have i1 := P.hTouch hi h1
    rcases hcase with ⟨_, _, h2⟩ | ⟨vs, hvs, h2⟩
    · exact P.hPend _ none (P.hRand i1) h2
    · exact P.hBest i1 hvs h2

theorem askLoop_inv (env : Env α) {I : State α → Prop} (P : Preserved env I) (n : Nat) :
    ∀ {s s' : State α} {rs : List (Pt × α)}, I s → askLoop env n s = .ok (rs, s') → I s' := by
  induction n with
  | zero =>
    intro s s' rs hi h
    simp only [askLoop, Except.ok.injEq, Prod.mk.injEq] at h
    rw [← h.2]; exact hi
  | succ n ih =>
    intro s s' rs hi h
    unfold askLoop at h
    split at h
    · exact absurd h (by simp)
    · rename_i r s1 h1
      split at h
      · exact absurd h (by simp)
      · rename_i rs' s2 h2
        simp only [Except.ok.injEq, Prod.mk.injEq] at h
        rw [← h.2]
        exact ih (askOne_inv env P hi h1) h2

theorem step_inv (env : Env α) {I : State α → Prop} (P : Preserved env I) {s s' : State α} (op : Op α)
    (hi : I s) (h : step env s op = .ok s') : I s' := by
  cases op with
  | tell p a b => exact P.hTell p a b hi h
  | tellPending p => exact P.hPend p none hi h
  | ask n c =>
    simp only [step] at h
    cases ha : ask env s n c with
    | error e => rw [ha] at h; simp [Except.map] at h
    | ok r =>
      rw [ha] at h
      simp only [Except.map, Except.ok.injEq] at h
      subst h
      unfold ask at ha
      split at ha
      · exact absurd ha (by simp)
      · rename_i rs' s1 h1
        simp only [Except.ok.injEq] at ha
        subst ha
        cases c
        · exact hi
        · exact askLoop_inv env P n hi h1
  | removeUnfinished =>
    simp only [step, Except.ok.injEq] at h
    subst h; exact P.hRemove hi
  | loss =>
    simp only [step] at h
    cases ha : lossOp env s with
    | error e => rw [ha] at h; simp [Except.map] at h
    | ok r =>
      rw [ha] at h
      simp only [Except.map, Except.ok.injEq] at h
      subst h
      unfold lossOp at ha
      split at ha
      · exact absurd ha (by simp)
      · rename_i s1 h1
        have i1 := P.hTouch hi h1
        split at ha <;> (simp only [Except.ok.injEq] at ha; subst ha; exact i1)

theorem run_inv (env : Env α) {I : State α → Prop} (P : Preserved env I) (ops : List (Op α)) :
    ∀ {s s' : State α}, I s → run env s ops = .ok s' → I s' := by
  induction ops with
  | nil => intro s s' hi h; simp only [run, Except.ok.injEq] at h; subst h; exact hi
  | cons op ops ih =>
    intro s s' hi h
    unfold run at h
    split at h
    · exact absurd h (by simp)
    · rename_i s1 h1
      exact ih (step_inv env P op hi h1) h

/-! ### preservation under a side condition on the states `_ask_best_point` starts from

Since the repair `fix: LearnerND.tell_pending marked an already evaluated point as pending`, `tell_pending` of a
point that has a value is a no-op; a predicate about the queue is then preserved by `_ask_best_point` only if the
point it chose has no value.  `PreservedIf env C I` is `Preserved env I` with that extra premise `C` on the state
`_ask_best_point` starts from; `Along` / `AlongRun` say that `C` holds in all those states of an `ask(n)` / of a
history. -/

/-- `P` holds in every state (after the `tri` property was evaluated) from which one of the `n` calls of `_ask`
made by `ask(n)` in state `s` picks a point that is not a missing corner -/
def Along (env : Env α) (P : State α → Prop) : Nat → State α → Prop
  | 0, _ => True
  | n + 1, s => (missingBound env s = none → ∀ t, touchTri env s = .ok t → P t) ∧
      ∀ r s1, askOne env s = .ok (r, s1) → Along env P n s1

/-- `C` holds in every state from which a call of `_ask` made by a COMMITTING `ask` of the history `ops` (run
from `s`) picks a point that is not a missing corner (a non-committing `ask` is rolled back) -/
def AlongRun (env : Env α) (C : State α → Prop) : State α → List (Op α) → Prop
  | _, [] => True
  | s, op :: ops =>
    (match op with
      | .ask n true => Along env C n s
      | _ => True) ∧
    ∀ s1, step env s op = .ok s1 → AlongRun env C s1 ops

/-- `I` is preserved by the building blocks of the model, by `_ask_best_point` if it starts in a state with `C` -/
structure PreservedIf (env : Env α) (C I : State α → Prop) : Prop where
  hTouch : ∀ {s s' : State α}, I s → touchTri env s = .ok s' → I s'
  hPend : ∀ {s s' : State α} (p : Pt) (hint : Option Simplex), I s → tellPending env s p hint = .ok s' → I s'
  hTell : ∀ {s s' : State α} (p : Pt) (a b : α), I s → tell env s p a b = .ok s' → I s'
  hBest : ∀ {s s' : State α} {vs : List Pt} {r : Pt × α}, C s → I s → s.tri = some vs →
    askBest env s vs = .ok (r, s') → I s'
  hRemove : ∀ {s : State α}, I s → I (removeUnfinished env s)
  hRand : ∀ {s : State α}, I s → I { s with nrand := s.nrand + 1 }

theorem Preserved.toIf {env : Env α} {I : State α → Prop} (P : Preserved env I) (C : State α → Prop) :
    PreservedIf env C I :=
  ⟨P.hTouch, P.hPend, P.hTell, fun _ => P.hBest, P.hRemove, P.hRand⟩

theorem askOne_invIf (env : Env α) {C I : State α → Prop} (P : PreservedIf env C I) {s s' : State α} {r : Pt × α}
    (hc : missingBound env s = none → ∀ t, touchTri env s = .ok t → C t)
    (hi : I s) (h : askOne env s = .ok (r, s')) : I s' := by
  rcases askOne_form env h with ⟨p, _, _, h1⟩ | ⟨hm, s1, h1, hcase⟩
  · exact P.hPend p none hi h1
  · have i1 := P.hTouch hi h1
    rcases hcase with ⟨_, _, h2⟩ | ⟨vs, hvs, h2⟩
    · exact P.hPend _ none (P.hRand i1) h2
    · exact P.hBest (hc hm s1 h1) i1 hvs h2

theorem askLoop_invIf (env : Env α) {C I : State α → Prop} (P : PreservedIf env C I) (n : Nat) :
    ∀ {s s' : State α} {rs : List (Pt × α)}, Along env C n s → I s → askLoop env n s = .ok (rs, s') → I s' := by
  induction n with
  | zero =>
    intro s s' rs _ hi h
    simp only [askLoop, Except.ok.injEq, Prod.mk.injEq] at h
    rw [← h.2]; exact hi
  | succ n ih =>
    intro s s' rs ha hi h
    unfold askLoop at h
    split at h
    · exact absurd h (by simp)
    · rename_i r s1 h1
      split at h
      · exact absurd h (by simp)
      · rename_i rs' s2 h2
        simp only [Except.ok.injEq, Prod.mk.injEq] at h
        rw [← h.2]
        exact ih (ha.2 r s1 h1) (askOne_invIf env P ha.1 hi h1) h2

theorem step_invIf (env : Env α) {C I : State α → Prop} (P : PreservedIf env C I) {s s' : State α} (op : Op α)
    (hc : match op with
      | .ask n true => Along env C n s
      | _ => True)
    (hi : I s) (h : step env s op = .ok s') : I s' := by
  cases op with
  | tell p a b => exact P.hTell p a b hi h
  | tellPending p => exact P.hPend p none hi h
  | ask n c =>
    simp only [step] at h
    cases ha : ask env s n c with
    | error e => rw [ha] at h; simp [Except.map] at h
    | ok r =>
      rw [ha] at h
      simp only [Except.map, Except.ok.injEq] at h
      subst h
      unfold ask at ha
      split at ha
      · exact absurd ha (by simp)
      · rename_i rs' s1 h1
        simp only [Except.ok.injEq] at ha
        subst ha
        cases c
        · exact hi
        · exact askLoop_invIf env P n hc hi h1
  | removeUnfinished =>
    simp only [step, Except.ok.injEq] at h
    subst h; exact P.hRemove hi
  | loss =>
    simp only [step] at h
    cases ha : lossOp env s with
    | error e => rw [ha] at h; simp [Except.map] at h
    | ok r =>
      rw [ha] at h
      simp only [Except.map, Except.ok.injEq] at h
      subst h
      unfold lossOp at ha
      split at ha
      · exact absurd ha (by simp)
      · rename_i s1 h1
        have i1 := P.hTouch hi h1
        split at ha <;> (simp only [Except.ok.injEq] at ha; subst ha; exact i1)

theorem run_invIf (env : Env α) {C I : State α → Prop} (P : PreservedIf env C I) (ops : List (Op α)) :
    ∀ {s s' : State α}, AlongRun env C s ops → I s → run env s ops = .ok s' → I s' := by
  induction ops with
  | nil => intro s s' _ hi h; simp only [run, Except.ok.injEq] at h; subst h; exact hi
  | cons op ops ih =>
    intro s s' hc hi h
    unfold run at h
    split at h
    · exact absurd h (by simp)
    · rename_i s1 h1
      exact ih (hc.2 s1 h1) (step_invIf env P op hc.1 hi h1) h

/-- executable version of `Along` for a decidable condition (used to check `AlongRun` on concrete histories) -/
def alongB (env : Env α) (c : State α → Bool) : Nat → State α → Bool
  | 0, _ => true
  | n + 1, s =>
    (match missingBound env s with
      | some _ => true
      | none =>
        match touchTri env s with
        | .ok t => c t
        | .error _ => true) &&
    (match askOne env s with
      | .ok (_, s1) => alongB env c n s1
      | .error _ => true)

/-- executable version of `AlongRun` -/
def alongRunB (env : Env α) (c : State α → Bool) : State α → List (Op α) → Bool
  | _, [] => true
  | s, op :: ops =>
    (match op with
      | .ask n true => alongB env c n s
      | _ => true) &&
    (match step env s op with
      | .ok s1 => alongRunB env c s1 ops
      | .error _ => true)

theorem alongB_sound (env : Env α) {c : State α → Bool} {C : State α → Prop} (hc : ∀ t, c t = true → C t)
    (n : Nat) : ∀ s, alongB env c n s = true → Along env C n s := by
  induction n with
  | zero => intro s _; trivial
  | succ n ih =>
    intro s h
    simp only [alongB, Bool.and_eq_true] at h
    obtain ⟨h1, h2⟩ := h
    refine ⟨?_, ?_⟩
    · intro hm t ht
      rw [hm, ht] at h1
      exact hc t h1
    · intro r s1 ha
      rw [ha] at h2
      exact ih s1 h2

theorem alongRunB_sound (env : Env α) {c : State α → Bool} {C : State α → Prop} (hc : ∀ t, c t = true → C t)
    (ops : List (Op α)) : ∀ s, alongRunB env c s ops = true → AlongRun env C s ops := by
  induction ops with
  | nil => intro s _; trivial
  | cons op ops ih =>
    intro s h
    simp only [alongRunB, Bool.and_eq_true] at h
    obtain ⟨h1, h2⟩ := h
    refine ⟨?_, ?_⟩
    · cases op with
      | ask n c' =>
        cases c' with
        | false => trivial
        | true => exact alongB_sound env hc n s h1
      | _ => trivial
    · intro s1 hs
      rw [hs] at h2
      exact ih s1 h2

/-- a condition that holds in every state holds along every history -/
theorem AlongRun.of_forall (env : Env α) {C : State α → Prop} (hC : ∀ t, C t) (ops : List (Op α)) :
    ∀ s, AlongRun env C s ops := by
  have hA : ∀ n s, Along env C n s := by
    intro n
    induction n with
    | zero => intro s; trivial
    | succ n ih => intro s; exact ⟨fun _ t _ => hC t, fun _ s1 _ => ih s1⟩
  induction ops with
  | nil => intro s; trivial
  | cons op ops ih =>
    intro s
    refine ⟨?_, fun s1 _ => ih s1⟩
    cases op with
    | ask n c => cases c <;> first | trivial | exact hA n s
    | _ => trivial

end LND
