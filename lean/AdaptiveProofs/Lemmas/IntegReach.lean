import AdaptiveProofs.Lemmas.IntegCutFull
import AdaptiveProofs.Lemmas.IntegFuel
/-!
C07 (deepening): small reachable-state facts used by the property theorems — the forest is never empty, the first
interval keeps the end points of the domain — and the combination of forest invariants.
-/
set_option linter.unusedSectionVars false
set_option linter.unusedSimpArgs false
set_option linter.unusedVariables false
namespace Integ
namespace Cut
open Safe
variable {α : Type} [OfNat α 0] [DecidableEq α] [Div α] [OfNat α 2] [LT α] [DecidableLT α] [Sub α] [Mul α] [Add α] [Neg α]

theorem Pres.and {R1 R2 : Forest α → Prop} (h1 : Pres R1) (h2 : Pres R2) : Pres (fun F => R1 F ∧ R2 F) where
  frame := fun hs h => ⟨h1.frame hs h.1, h2.frame hs h.2⟩
  prop := fun F i h => ⟨h1.prop F i h.1, h2.prop F i h.2⟩
  split := fun F i m h hi hc => ⟨h1.split F i m h.1 hi hc, h2.split F i m h.2 hi hc⟩

/-- the forest is not empty and interval 0 spans `[a, b]` -/
def RootAB (a b : α) (F : Forest α) : Prop := 1 ≤ F.length ∧ (getI F 0).a = a ∧ (getI F 0).b = b

theorem pres_rootAB (a b : α) : Pres (RootAB a b) where
  frame := fun hs h => ⟨by rw [hs.1]; exact h.1, by rw [hs.a]; exact h.2.1, by rw [hs.b]; exact h.2.2⟩
  prop := fun F i h => by
    have hs := propagateDone_skS F i
    exact ⟨by rw [hs.1]; exact h.1, by rw [(hs.2 0).1]; exact h.2.1, by rw [(hs.2 0).2.1]; exact h.2.2⟩
  split := fun F i m h hi hc => by
    refine ⟨by rw [splitF_length]; omega, ?_, ?_⟩
    · rw [getI_splitF, if_pos (by omega)]
      split
      · rename_i e; rw [← e]; exact h.2.1
      · exact h.2.1
    · rw [getI_splitF, if_pos (by omega)]
      split
      · rename_i e; rw [← e]; exact h.2.2
      · exact h.2.2

theorem rootAB_reach (O : Oracle α) (P : Params α) (a b e : α) (ops : List (Op α)) :
    RootAB a b (run O P (start O P a b e) ops).F :=
  (reach_keep (pres_rootAB a b) O P a b e ⟨by simp [rootF], rfl, rfl⟩ ops).1

end Cut
end Integ
