import AdaptiveProofs.Lemmas.LNDSubVerts
import AdaptiveProofs.Lemmas.LNDCover

/-! Queue completeness of the LearnerND model WITHOUT the ghost flag `geomOK` (C04): under explicit truthfulness
hypotheses on the oracles `choose_point_in_simplex` / `point_in_simplex` / `inside_bounds` / sub-triangulation
`add_point` (`ChooseGeom`), the (sub)simplex `_ask_best_point` chooses for subdivision is no longer a live queue
key afterwards — which is what the ghost recorded — so the queue is complete in every reachable state.

Since the repair `fix: LearnerND.tell_pending marked an already evaluated point as pending` this needs one more
hypothesis: the chosen point has NO VALUE (`ChooseNewAt`, along a history `AskNew`).  `tell_pending` of a point that has
a value is a no-op now, so `_ask_best_point` — having popped the queue entry — would leave the (sub)simplex live and
unqueued (before the repair the call went on into `subtri.add_point`, which raises for a vertex). -/
set_option linter.unusedSectionVars false
set_option linter.unusedSimpArgs false
set_option linter.unusedVariables false
namespace LND
variable {α : Type} [Sub α] [Mul α] [Div α] [LT α] [DecidableLT α]

/-- truthfulness of the oracles around `choose_point_in_simplex`, as far as "the chosen (sub)simplex is really
subdivided" needs it -/
structure ChooseGeom (env : Env α) : Prop where
  /-- the chosen point lies in the domain (`inside_bounds`; the domain is convex and contains the simplices) -/
  inside : ∀ pts, env.inside (env.choose pts) = true
  /-- `point_in_simplex` accepts the point chosen in a simplex for that simplex -/
  inSimplex : ∀ pts, env.pis (env.choose pts) pts = true
  /-- `point_in_simplex` accepts the point chosen in a simplex of a sub-triangulation for the simplex that owns
  the sub-triangulation — whose corners are the first `dim+1` vertices of the sub-triangulation (`run_subVerts`) -/
  inOwner : ∀ sv, ∀ ss ∈ env.subSimps sv,
    env.pis (env.choose (ptsOf sv ss)) (sv.take (env.dim + 1)) = true
  /-- inserting the point chosen in a simplex of a sub-triangulation into that sub-triangulation removes the
  simplex (Bowyer–Watson deletes the simplices containing the point) -/
  split : ∀ sv, ∀ ss ∈ env.subSimps sv, ∀ D A, env.subAdd sv (env.choose (ptsOf sv ss)) = some (D, A) →
    ss ∉ env.subSimps (sv ++ [env.choose (ptsOf sv ss)])
  /-- `tri.simplices` is a set -/
  nodup : ∀ n, (env.triSimps n).Nodup

/-- a point accepted by `point_in_simplex` is inserted into the simplex' sub-triangulation -/
theorem tryAdd_of_pis (env : Env α) (vs : List Pt) {b b' : Book α} (p : Pt) (t : Simplex)
    {r : Option (List Simplex)} (hp : env.pis p (ptsOf vs t) = true) (h : tryAdd env vs b p t = .ok (b', r)) :
    ∃ D A, r = some A ∧ env.subAdd ((get? t b.subs).getD (ptsOf vs t)) p = some (D, A) ∧
      b'.subs = put t ((get? t b.subs).getD (ptsOf vs t) ++ [p]) b.subs := by
  rcases (tryAdd_spec env vs p t h).2.2 with ⟨hr, _⟩ | h2
  · exfalso
    unfold tryAdd at h
    rw [if_pos hp] at h
    simp only at h
    split at h
    · exact absurd h (by simp)
    · simp only [Except.ok.injEq, Prod.mk.injEq] at h
      rw [hr] at h; exact absurd h.2 (by simp)
  · exact h2

/-- the loop of `tell_pending` touches only the sub-triangulations of the simplices it visits -/
theorem pendLoop_subs_other (env : Env α) (vs : List Pt) (losses : List (Simplex × α)) (p : Pt)
    (ts : List Simplex) : ∀ {b b' : Book α}, pendLoop env vs losses p b ts = .ok b' →
      ∀ x, x ∉ ts → get? x b'.subs = get? x b.subs := by
  induction ts with
  | nil => intro b b' h x _; simp only [pendLoop, Except.ok.injEq] at h; subst h; rfl
  | cons t ts ih =>
    intro b b' h x hx
    have hne : x ≠ t := fun c => hx (c ▸ List.mem_cons_self ..)
    have hr : x ∉ ts := fun c => hx (List.mem_cons_of_mem _ c)
    have step1 : ∀ {b1 : Book α} {r : Option (List Simplex)}, tryAdd env vs b p t = .ok (b1, r) →
        get? x b1.subs = get? x b.subs := by
      intro b1 r h1
      rcases (tryAdd_spec env vs p t h1).2.2 with ⟨_, hb⟩ | ⟨D, A, _, _, hsubs⟩
      · rw [hb]
      · rw [hsubs, get?_put_ne hne]
    unfold pendLoop at h
    split at h
    · exact absurd h (by simp)
    · rename_i b1 h1
      rw [ih h x hr, step1 h1]
    · rename_i b1 A h1
      split at h
      · exact absurd h (by simp)
      · rename_i b2 h2
        obtain ⟨u1, _⟩ := updateSubLosses_spec env vs losses t A h2
        rw [ih h x hr, u1, step1 h1]

/-- a visited simplex that `point_in_simplex` accepts for the point gets the point appended to its
sub-triangulation (created from the simplex' corners if there was none) -/
theorem pendLoop_hit (env : Env α) (vs : List Pt) (losses : List (Simplex × α)) (p : Pt) (ts : List Simplex) :
    ∀ {b b' : Book α}, ts.Nodup → pendLoop env vs losses p b ts = .ok b' →
      ∀ x ∈ ts, env.pis p (ptsOf vs x) = true →
        ∃ D A, env.subAdd ((get? x b.subs).getD (ptsOf vs x)) p = some (D, A) ∧
          get? x b'.subs = some ((get? x b.subs).getD (ptsOf vs x) ++ [p]) := by
  induction ts with
  | nil => intro b b' _ _ x hx; exact absurd hx (by simp)
  | cons t ts ih =>
    intro b b' hnd h x hx hp
    obtain ⟨hnt, hnd'⟩ := List.nodup_cons.1 hnd
    unfold pendLoop at h
    split at h
    · exact absurd h (by simp)
    · rename_i b1 h1
      rcases List.mem_cons.1 hx with hxt | hxt
      · subst hxt
        obtain ⟨D, A, hr, _⟩ := tryAdd_of_pis env vs p x hp h1
        exact absurd hr (by simp)
      · have hne : x ≠ t := fun c => hnt (c ▸ hxt)
        have e1 : get? x b1.subs = get? x b.subs := by
          rcases (tryAdd_spec env vs p t h1).2.2 with ⟨_, hb⟩ | ⟨D, A, _, _, hsubs⟩
          · rw [hb]
          · rw [hsubs, get?_put_ne hne]
        have := ih hnd' h x hxt hp
        rw [e1] at this
        exact this
    · rename_i b1 A h1
      split at h
      · exact absurd h (by simp)
      · rename_i b2 h2
        obtain ⟨u1, _⟩ := updateSubLosses_spec env vs losses t A h2
        rcases List.mem_cons.1 hx with hxt | hxt
        · subst hxt
          obtain ⟨D, A', _, hadd, hsubs⟩ := tryAdd_of_pis env vs p x hp h1
          refine ⟨D, A', hadd, ?_⟩
          rw [pendLoop_subs_other env vs losses p ts h x hnt, u1, hsubs, get?_put_self]
        · have hne : x ≠ t := fun c => hnt (c ▸ hxt)
          have e1 : get? x b2.subs = get? x b.subs := by
            rw [u1]
            rcases (tryAdd_spec env vs p t h1).2.2 with ⟨_, hb⟩ | ⟨D, A', _, _, hsubs⟩
            · rw [hb]
            · rw [hsubs, get?_put_ne hne]
          have := ih hnd' h x hxt hp
          rw [e1] at this
          exact this

theorem mem_neighborsOf_self {simps : List Simplex} {sx : Simplex} (h : sx ∈ simps) (hne : sx ≠ []) :
    sx ∈ neighborsOf simps sx := by
  unfold neighborsOf
  rw [List.mem_filter]
  refine ⟨h, ?_⟩
  rw [List.any_eq_true]
  cases sx with
  | nil => exact absurd rfl hne
  | cons i l => exact ⟨i, List.mem_cons_self .., by simp⟩

/-- `tell_pending(point, simplex=hint)` with an existing triangulation, a point of the domain that has no value
and a non-empty hint: the loop over the hint's neighbours runs -/
theorem tellPending_hint (env : Env α) {s s' : State α} {vs : List Pt} (p : Pt) (sx : Simplex)
    (ht : s.tri = some vs) (hd : p ∉ s.data) (hin : env.inside p = true) (hne : sx ≠ [])
    (h : tellPending env s p (some sx) = .ok s') :
    ∃ b, pendLoop env vs s.losses p s.book (neighborsOf (env.triSimps vs.length) sx) = .ok b ∧
      s'.tri = some vs ∧ s'.book = b := by
  unfold tellPending at h
  have hd' : s.data.contains p = false := by
    cases hc : s.data.contains p with
    | false => rfl
    | true => exact absurd (List.contains_iff_mem.1 hc) hd
  simp only [hd', hin, Bool.not_true, Bool.false_eq_true, if_false] at h
  have h1 : touchTri env { s with pending := if s.pending.contains p then s.pending else s.pending ++ [p] } =
      .ok { s with pending := if s.pending.contains p then s.pending else s.pending ++ [p] } :=
    touchTri_some env ht
  rw [h1] at h
  simp only [ht] at h
  have hsx : hintOr env vs.length p (some sx) = sx := by
    cases sx with
    | nil => exact absurd rfl hne
    | cons i l => simp [hintOr]
  rw [hsx] at h
  have hemp : sx.isEmpty = false := by
    cases sx with
    | nil => exact absurd rfl hne
    | cons i l => rfl
  simp only [hemp, Bool.false_eq_true, if_false] at h
  split at h
  · exact absurd h (by simp)
  · rename_i b' hb
    simp only [Except.ok.injEq] at h
    subst h
    exact ⟨b', hb, rfl, rfl⟩

/-- the points `_ask_best_point` hands to `choose_point_in_simplex` -/
def chosenPts (vs : List Pt) (subs : List (Simplex × List Pt)) (e : QE α) : List Pt :=
  match e.sub with
  | none => ptsOf vs e.simplex
  | some ss => ptsOf ((get? e.simplex subs).getD []) ss

/-- the point `_ask_best_point` would choose in state `t` (for the queue entry it pops there) has no value.  Needed
since the repair `fix: LearnerND.tell_pending marked an already evaluated point as pending`: `tell_pending` of a
point that has a value is a no-op now, so the popped (sub)simplex would stay live without a queue entry.  (The data
half of `ChooseFreshAt`; true of the real code — a chosen point is interior to its simplex or an edge midpoint, never a
vertex of a valid triangulation.) -/
def ChooseNewAt (env : Env α) (t : State α) : Prop :=
  ∀ vs e q, t.tri = some vs →
    popHighest env (env.triSimps vs.length) t.book.subs t.book.queue = some (e, q) →
    env.choose (chosenPts vs t.book.subs e) ∉ t.data

/-- `ChooseNewAt`, executable -/
def chooseNewB (env : Env α) (t : State α) : Bool :=
  match t.tri with
  | none => true
  | some vs =>
    match popHighest env (env.triSimps vs.length) t.book.subs t.book.queue with
    | none => true
    | some (e, _) => !(t.data.contains (env.choose (chosenPts vs t.book.subs e)))

theorem chooseNewB_sound (env : Env α) (t : State α) (h : chooseNewB env t = true) : ChooseNewAt env t := by
  intro vs e q ht hp hc
  unfold chooseNewB at h
  rw [ht] at h
  simp only [hp, List.contains_iff_mem.2 hc, Bool.not_true] at h
  exact absurd h (by simp)

/-- in every state from which a committing `ask` of the history `ops` calls `_ask_best_point`, the chosen point has
no value -/
def AskNew (env : Env α) (ops : List (Op α)) : Prop := AlongRun env (ChooseNewAt env) (init env) ops

/-- `AskNew` of a concrete history can be checked by evaluation -/
theorem askNew_of_check (env : Env α) (ops : List (Op α))
    (h : alongRunB env (chooseNewB env) (init env) ops = true) : AskNew env ops :=
  alongRunB_sound env (chooseNewB_sound env) ops _ h

/-- THE GHOST, PROVED: after `_ask_best_point` told the chosen point (which has no value) pending, the (sub)simplex
it had chosen for subdivision is not a live queue key any more -/
theorem chosen_dead (env : Env α) (hG : SubGeom env) (hC : ChooseGeom env) {s s2 : State α} {vs : List Pt}
    (ht : s.tri = some vs) (hv : SubVerts env s) {e : QE α} {q : List (QE α)} {p2s' : List (Pt × Simplex)}
    (hp : popHighest env (env.triSimps vs.length) s.book.subs s.book.queue = some (e, q))
    (hnew : env.choose (chosenPts vs s.book.subs e) ∉ s.data)
    (h2 : tellPending env { s with book := { s.book with queue := q, p2s := p2s' } }
      (env.choose (chosenPts vs s.book.subs e)) (some e.simplex) = .ok s2) :
    live env (simplices env s2.tri) s2.book.subs e = false := by
  obtain ⟨_, _, hlive, _⟩ := popHighest_spec env _ _ hp
  rw [live_iff] at hlive
  obtain ⟨hmem, hls⟩ := hlive
  have hlen : e.simplex.length = env.dim + 1 := hG.size _ _ hmem
  have hne : e.simplex ≠ [] := by
    intro c; rw [c] at hlen; simp at hlen
  obtain ⟨b, hloop, t2, hb⟩ :=
    tellPending_hint env (s := { s with book := { s.book with queue := q, p2s := p2s' } })
      (env.choose (chosenPts vs s.book.subs e)) e.simplex ht hnew (hC.inside _) hne h2
  have hnb : e.simplex ∈ neighborsOf (env.triSimps vs.length) e.simplex := mem_neighborsOf_self hmem hne
  have hnd : (neighborsOf (env.triSimps vs.length) e.simplex).Nodup := (hC.nodup _).filter _
  rw [t2, hb]
  simp only [simplices]
  cases ho : e.sub with
  | none =>
    have hpis : env.pis (env.choose (chosenPts vs s.book.subs e)) (ptsOf vs e.simplex) = true := by
      simp only [chosenPts, ho]; exact hC.inSimplex _
    obtain ⟨D, A, _, hget⟩ := pendLoop_hit env vs _ _ _ hnd hloop e.simplex hnb hpis
    simp [live, ho, hget]
  | some ss =>
    simp only [pairOf, ho, liveSub] at hls
    obtain ⟨sv, hsv, hss⟩ := hls
    obtain ⟨_, pend, hform⟩ := hv.2 vs ht e.simplex sv hsv
    have hcp : chosenPts vs s.book.subs e = ptsOf sv ss := by
      simp only [chosenPts, ho, hsv, Option.getD_some]
    have htake : sv.take (env.dim + 1) = ptsOf vs e.simplex := by
      rw [hform]
      exact List.take_left' (by rw [ptsOf_length]; exact hlen)
    have hpis : env.pis (env.choose (chosenPts vs s.book.subs e)) (ptsOf vs e.simplex) = true := by
      rw [hcp, ← htake]; exact hC.inOwner sv ss hss
    obtain ⟨D, A, hadd, hget⟩ := pendLoop_hit env vs _ _ _ hnd hloop e.simplex hnb hpis
    have hsv' : get? e.simplex
        ({ s with book := { s.book with queue := q, p2s := p2s' } } : State α).book.subs = some sv := hsv
    rw [hsv', Option.getD_some, hcp] at hadd hget
    have hsplit := hC.split sv ss hss D A hadd
    simp [live, ho, hget, hsplit]

/-- the point `_ask_best_point` returns is the oracle's choice for the popped entry -/
theorem askBest_point (env : Env α) {s s' : State α} {vs : List Pt} {r : Pt × α} {e : QE α} {q : List (QE α)}
    (hp : popHighest env (env.triSimps vs.length) s.book.subs s.book.queue = some (e, q))
    (h : askBest env s vs = .ok (r, s')) : r.1 = env.choose (chosenPts vs s.book.subs e) := by
  unfold askBest at h
  rw [hp] at h
  simp only at h
  split at h
  · exact absurd h (by simp)
  · simp only [Except.ok.injEq, Prod.mk.injEq] at h
    rw [← h.1]; rfl

/-- `_ask_best_point` keeps the queue complete — no ghost -/
theorem askBest_cover' (env : Env α) (hG : SubGeom env) (hC : ChooseGeom env) {s s' : State α} {vs : List Pt}
    {r : Pt × α} (hN : ChooseNewAt env s) (ht : s.tri = some vs) (hv : SubVerts env s) (hc : Cover env s)
    (h : askBest env s vs = .ok (r, s')) : Cover env s' := by
  obtain ⟨e, q, s2, hp, _, h2, rfl⟩ := askBest_form env h
  have hr1 : r.1 = env.choose (chosenPts vs s.book.subs e) := askBest_point env hp h
  have hq0 : QCov env (env.triSimps vs.length) s.losses
      { s.book with queue := q, p2s := put r.1 e.simplex s.book.p2s } (some (pairOf e)) := by
    intro pr hpr hl hne
    have hne' : pr ≠ pairOf e := fun c => hne (by rw [c])
    have hcov := hc pr.1 (by simp only [ht, simplices]; exact hpr) pr.2 hl
    exact CovP_of_pop env hp pr hpr hl hne' hcov
  obtain ⟨t2, l2, _, hq2⟩ :=
    tellPending_cov_exc env hG (s := { s with book := { s.book with queue := q, p2s := put r.1 e.simplex s.book.p2s } })
      r.1 (some e.simplex) (some (pairOf e)) ht hq0 h2
  have hdead : live env (simplices env s2.tri) s2.book.subs e = false := by
    rw [hr1] at h2
    exact chosen_dead env hG hC ht hv hp (hN vs e q ht hp) h2
  intro x hx o hl
  simp only [t2, simplices] at hx hdead
  have hne : some (x, o) ≠ some (pairOf e) := by
    intro c
    simp only [Option.some.injEq] at c
    have hlive : live env (env.triSimps vs.length) s2.book.subs e = true := by
      have c1 : e.simplex = x := by
        have := congrArg Prod.fst c; simp only [pairOf] at this; exact this.symm
      rw [live_iff, ← c, c1]; exact ⟨hx, hl⟩
    rw [hlive] at hdead; exact absurd hdead (by simp)
  exact hq2 (x, o) hx hl hne

/-- the invariant behind the ghost-free queue theorems: one loss per simplex, the vertex lists of the
sub-triangulations, and the completeness of the queue -/
def QFull (env : Env α) (s : State α) : Prop := KeysInv env s ∧ SubVerts env s ∧ Cover env s

theorem qfull_preserved (env : Env α) (hT : TriGeom env) (hG : SubGeom env) (hC : ChooseGeom env) :
    PreservedIf env (ChooseNewAt env) (QFull env) where
  hTouch := fun hi h =>
    ⟨touchTri_keys env hi.1 h, touchTri_subVerts env hi.2.1 h, (touchTri_cover env hi.2.2 h).1⟩
  hPend := fun p hint hi h =>
    ⟨tellPending_keys env p hint hi.1 h, tellPending_subVerts env p hint hi.2.1 h,
      (tellPending_cover env hG p hint hi.2.2 h).1⟩
  hTell := fun p a b hi h =>
    ⟨tell_keys env hT.report p a b hi.1 h, tell_subVerts env hT p a b hi.2.1 h,
      (tell_cover env hT.report p a b hi.2.2 h).1⟩
  hBest := fun hN hi ht h =>
    ⟨askBest_keys env hi.1 h, askBest_subVerts env hi.2.1 h, askBest_cover' env hG hC hN ht hi.2.1 hi.2.2 h⟩
  hRemove := fun {s} hi =>
    ⟨hi.1, (subVerts_preserved env hT).hRemove hi.2.1, removeUnfinished_cover env s hi.1⟩
  hRand := fun hi => ⟨hi.1, ⟨hi.2.1.1, hi.2.1.2⟩, hi.2.2⟩

theorem init_qfull (env : Env α) : QFull env (init env) :=
  ⟨init_keys env, init_subVerts env, by intro x hx; simp [init, simplices] at hx⟩

/-- the queue is complete in every reachable state of every history in which the points `_ask_best_point` chose had
no value — no ghost -/
theorem run_cover (env : Env α) (hT : TriGeom env) (hG : SubGeom env) (hC : ChooseGeom env) (ops : List (Op α))
    (hN : AskNew env ops) {s : State α} (h : run env (init env) ops = .ok s) : Cover env s :=
  (run_invIf env (qfull_preserved env hT hG hC) ops hN (init_qfull env) h).2.2

/-- `_ask_best_point` leaves the ghost flag as it was: the geometric side condition it records holds -/
theorem askBest_geomOK (env : Env α) (hG : SubGeom env) (hC : ChooseGeom env) {s s' : State α} {vs : List Pt}
    {r : Pt × α} (hN : ChooseNewAt env s) (ht : s.tri = some vs) (hv : SubVerts env s)
    (h : askBest env s vs = .ok (r, s')) :
    s'.book.geomOK = s.book.geomOK := by
  obtain ⟨e, q, s2, hp, _, h2, rfl⟩ := askBest_form env h
  have hr1 : r.1 = env.choose (chosenPts vs s.book.subs e) := askBest_point env hp h
  have g2 : s2.book.geomOK = s.book.geomOK :=
    tellPending_geom env (s := { s with book := { s.book with queue := q, p2s := put r.1 e.simplex s.book.p2s } })
      _ _ h2
  have hdead : live env (simplices env s2.tri) s2.book.subs e = false := by
    rw [hr1] at h2
    exact chosen_dead env hG hC ht hv hp (hN vs e q ht hp) h2
  show (s2.book.geomOK && !(live env (simplices env s2.tri) s2.book.subs e)) = s.book.geomOK
  rw [hdead, g2]; simp

/-- `QFull` and the ghost flag is (still) true -/
def QFullG (env : Env α) (s : State α) : Prop := QFull env s ∧ s.book.geomOK = true

theorem qfullG_preserved (env : Env α) (hT : TriGeom env) (hG : SubGeom env) (hC : ChooseGeom env) :
    PreservedIf env (ChooseNewAt env) (QFullG env) where
  hTouch := fun hi h =>
    ⟨(qfull_preserved env hT hG hC).hTouch hi.1 h, (touchTri_geom env h).trans hi.2⟩
  hPend := fun p hint hi h =>
    ⟨(qfull_preserved env hT hG hC).hPend p hint hi.1 h, (tellPending_geom env p hint h).trans hi.2⟩
  hTell := fun p a b hi h =>
    ⟨(qfull_preserved env hT hG hC).hTell p a b hi.1 h, (tell_cover env hT.report p a b hi.1.2.2 h).2.trans hi.2⟩
  hBest := fun hN hi ht h =>
    ⟨(qfull_preserved env hT hG hC).hBest hN hi.1 ht h, (askBest_geomOK env hG hC hN ht hi.1.2.1 h).trans hi.2⟩
  hRemove := fun hi => ⟨(qfull_preserved env hT hG hC).hRemove hi.1, hi.2⟩
  hRand := fun hi => ⟨(qfull_preserved env hT hG hC).hRand hi.1, hi.2⟩

/-- under the truthfulness hypotheses (and `AskNew`) the ghost flag of the model is true in every reachable state -/
theorem run_geomOK (env : Env α) (hT : TriGeom env) (hG : SubGeom env) (hC : ChooseGeom env) (ops : List (Op α))
    (hN : AskNew env ops) {s : State α} (h : run env (init env) ops = .ok s) : s.book.geomOK = true :=
  (run_invIf env (qfullG_preserved env hT hG hC) ops hN ⟨init_qfull env, rfl⟩ h).2

end LND
