import AdaptiveProofs.Lemmas.LNDAssoc

/-! Frame lemmas of the LearnerND model and the invariant `keys losses = simplices` (C04, `lnd_losses_keys`). -/
set_option linter.unusedSectionVars false
set_option linter.unusedSimpArgs false
set_option linter.unusedVariables false
namespace LND
variable {α : Type} [Sub α] [Mul α] [Div α] [LT α] [DecidableLT α]

/-- C03's `tri_report_exact` for the learner's triangulation: the `(deleted, added)` pair returned by
`add_point` describes the change of `tri.simplices` exactly -/
def ReportExact (env : Env α) : Prop :=
  ∀ n h D A, env.triAdd n h = some (D, A) →
    ∀ x, x ∈ env.triSimps (n + 1) ↔ (x ∈ env.triSimps n ∧ x ∉ D) ∨ x ∈ A

/-- one loss per simplex -/
def KeysInv (env : Env α) (s : State α) : Prop :=
  ∀ x, x ∈ keys s.losses ↔ x ∈ simplices env s.tri

/-- everything except `losses` and `book` is unchanged -/
def SameFrame (s s' : State α) : Prop :=
  s'.data = s.data ∧ s'.pending = s.pending ∧ s'.tri = s.tri ∧ s'.range = s.range ∧ s'.mult = s.mult ∧
    s'.nrand = s.nrand

theorem SameFrame.refl (s : State α) : SameFrame s s := ⟨rfl, rfl, rfl, rfl, rfl, rfl⟩

theorem dropDeleted_keys (losses : List (Simplex × α)) (subs : List (Simplex × List Pt)) (unb : List Pt)
    (D : List Simplex) (x : Simplex) :
    x ∈ keys (dropDeleted losses subs unb D).1 ↔ x ∈ keys losses ∧ x ∉ D := by
  induction D generalizing losses subs unb with
  | nil => simp [dropDeleted]
  | cons sx rest ih =>
    unfold dropDeleted
    cases hg : get? sx subs with
    | none =>
      simp only [ih, mem_keys_del, List.mem_cons, not_or]
      tauto
    | some sv =>
      simp only [ih, mem_keys_del, List.mem_cons, not_or]
      tauto

theorem addLoop_keys (env : Env α) (vs : List Pt) (m : α) (unb : List Pt) (A : List Simplex) :
    ∀ (losses : List (Simplex × α)) (b : Book α) (l' : List (Simplex × α)) (b' : Book α),
      addLoop env vs m unb losses b A = .ok (l', b') → ∀ x, x ∈ keys l' ↔ x ∈ keys losses ∨ x ∈ A := by
  induction A with
  | nil =>
    intro losses b l' b' h x
    simp only [addLoop, Except.ok.injEq, Prod.mk.injEq] at h
    simp [← h.1]
  | cons sx rest ih =>
    intro losses b l' b' h x
    unfold addLoop at h
    simp only at h
    split at h
    · exact absurd h (by simp)
    · rename_i b1 hb1
      split at h
      · have := ih _ _ _ _ h x
        rw [this, mem_keys_put, List.mem_cons]; tauto
      · split at h
        · exact absurd h (by simp)
        · have := ih _ _ _ _ h x
          rw [this, mem_keys_put, List.mem_cons]; tauto

theorem updateLosses_none (env : Env α) (s : State α) (D A : List Simplex) (h : s.tri = none) :
    updateLosses env s D A = .ok s := by
  unfold updateLosses; rw [h]

theorem updateLosses_spec (env : Env α) {s s' : State α} {vs : List Pt} (D A : List Simplex)
    (ht : s.tri = some vs) (h : updateLosses env s D A = .ok s') :
    SameFrame s s' ∧ ∀ x, x ∈ keys s'.losses ↔ (x ∈ keys s.losses ∧ x ∉ D) ∨ x ∈ A := by
  unfold updateLosses at h
  rw [ht] at h
  simp only at h
  split at h
  · exact absurd h (by simp)
  · rename_i l b hl
    simp only [Except.ok.injEq] at h
    subst h
    refine ⟨⟨rfl, rfl, ht.symm, rfl, rfl, rfl⟩, ?_⟩
    intro x
    have h1 := addLoop_keys env vs s.mult _ A _ _ _ _ hl x
    have h2 := dropDeleted_keys s.losses s.book.subs [] D x
    simp only at h2 ⊢
    rw [h1, h2]

theorem touchTri_some (env : Env α) {s : State α} {vs : List Pt} (h : s.tri = some vs) :
    touchTri env s = .ok s := by
  unfold touchTri; rw [h]

/-- frame of the `tri` property -/
theorem touchTri_frame (env : Env α) {s s' : State α} (h : touchTri env s = .ok s') :
    s'.data = s.data ∧ s'.pending = s.pending ∧ s'.range = s.range ∧ s'.mult = s.mult ∧ s'.nrand = s.nrand ∧
      (s'.tri = s.tri ∨ (s.tri = none ∧ s'.tri = some s.data)) := by
  unfold touchTri at h
  cases ht : s.tri with
  | some vs =>
    rw [ht] at h; simp only [Except.ok.injEq] at h; subst h
    exact ⟨rfl, rfl, rfl, rfl, rfl, Or.inl ht⟩
  | none =>
    rw [ht] at h
    simp only at h
    split at h
    · obtain ⟨⟨a, b, c, d, e, f⟩, _⟩ :=
        updateLosses_spec (s := { s with tri := some s.data }) env [] (env.triSimps s.data.length) rfl h
      exact ⟨a, b, d, e, f, Or.inr ⟨rfl, c⟩⟩
    · simp only [Except.ok.injEq] at h; subst h
      exact ⟨rfl, rfl, rfl, rfl, rfl, Or.inl ht⟩

theorem touchTri_tri_some (env : Env α) {s s' : State α} {vs : List Pt} (h : touchTri env s = .ok s')
    (ht : s.tri = some vs) : s' = s := by
  rw [touchTri_some env ht] at h; simp only [Except.ok.injEq] at h; exact h.symm

theorem touchTri_keys (env : Env α) {s s' : State α} (hk : KeysInv env s) (h : touchTri env s = .ok s') :
    KeysInv env s' := by
  unfold touchTri at h
  cases ht : s.tri with
  | some vs => rw [ht] at h; simp only [Except.ok.injEq] at h; subst h; exact hk
  | none =>
    rw [ht] at h
    simp only at h
    split at h
    · obtain ⟨⟨a, b, c, d, e, f⟩, hkeys⟩ :=
        updateLosses_spec (s := { s with tri := some s.data }) env [] (env.triSimps s.data.length) rfl h
      intro x
      rw [hkeys x, c]
      have h0 : x ∉ keys s.losses := by
        intro hx; have := (hk x).1 hx; rw [ht] at this; simp [simplices] at this
      simp only [simplices]
      constructor
      · rintro (⟨hx, _⟩ | hx)
        · exact absurd hx h0
        · exact hx
      · intro hx; exact Or.inr hx
    · simp only [Except.ok.injEq] at h; subst h; exact hk

theorem recomputeAll_frame (env : Env α) {s s' : State α} (h : recomputeAll env s = .ok s') :
    s'.data = s.data ∧ s'.pending = s.pending ∧ s'.range = s.range ∧ s'.mult = s.mult ∧ s'.nrand = s.nrand ∧
      (s'.tri = s.tri ∨ (s.tri = none ∧ s'.tri = some s.data)) := by
  unfold recomputeAll at h
  split at h
  · exact absurd h (by simp)
  · rename_i s1 h1
    have f1 := touchTri_frame env h1
    split at h
    · simp only [Except.ok.injEq] at h; subst h; exact f1
    · rename_i vs hvs
      split at h
      · exact absurd h (by simp)
      · simp only [Except.ok.injEq] at h; subst h; exact f1

theorem recomputeAll_keys (env : Env α) {s s' : State α} (hk : KeysInv env s) (h : recomputeAll env s = .ok s') :
    KeysInv env s' := by
  unfold recomputeAll at h
  split at h
  · exact absurd h (by simp)
  · rename_i s1 h1
    have k1 := touchTri_keys env hk h1
    split at h
    · simp only [Except.ok.injEq] at h; subst h; exact k1
    · rename_i vs hvs
      split at h
      · exact absurd h (by simp)
      · rename_i l b hl
        simp only [Except.ok.injEq] at h; subst h
        intro x
        have := addLoop_keys env vs s1.mult [] _ _ _ _ _ hl x
        simp only
        rw [this, hvs]
        have k := k1 x
        rw [hvs] at k
        simp only [simplices] at k ⊢
        rw [k]; tauto

/-- `_update_range` changes the range state and the output multiplier and then either recomputes all losses
or does nothing else -/
theorem updateRange_form (env : Env α) (s : State α) (a b : α) :
    ∃ r m, updateRange env s a b = recomputeAll env { s with range := r, mult := m } ∨
      updateRange env s a b = .ok { s with range := r, mult := m } := by
  unfold updateRange
  rcases rangeStep env s.range s.mult a b with ⟨r, m, _ | _⟩
  · exact ⟨r, m, Or.inr rfl⟩
  · exact ⟨r, m, Or.inl rfl⟩

theorem updateRange_frame (env : Env α) {s s' : State α} (a b : α) (h : updateRange env s a b = .ok s') :
    s'.data = s.data ∧ s'.pending = s.pending ∧ s'.nrand = s.nrand ∧
      (s'.tri = s.tri ∨ (s.tri = none ∧ s'.tri = some s.data)) := by
  obtain ⟨r, m, hf | hf⟩ := updateRange_form env s a b
  · rw [hf] at h
    obtain ⟨a1, a2, _, _, a5, a6⟩ := recomputeAll_frame env h
    exact ⟨a1, a2, a5, a6⟩
  · rw [hf] at h; simp only [Except.ok.injEq] at h; subst h; exact ⟨rfl, rfl, rfl, Or.inl rfl⟩

theorem updateRange_keys (env : Env α) {s s' : State α} (a b : α) (hk : KeysInv env s)
    (h : updateRange env s a b = .ok s') : KeysInv env s' := by
  obtain ⟨r, m, hf | hf⟩ := updateRange_form env s a b
  · rw [hf] at h
    exact recomputeAll_keys env (s := { s with range := r, mult := m }) hk h
  · rw [hf] at h; simp only [Except.ok.injEq] at h; subst h; exact hk

/-- new pending list of `tell_pending(p)` -/
def addPending (l : List Pt) (p : Pt) : List Pt := if l.contains p then l else l ++ [p]

/-- shape of `tell_pending`: for a point that already has a value (fix: LearnerND.tell_pending marked an
already evaluated point as pending) or lies outside the domain nothing happens; otherwise the point becomes
pending, the triangulation is touched and only the sub-triangulation book changes (by the loop over the
neighbours) -/
theorem tellPending_form (env : Env α) {s s' : State α} (p : Pt) (hint : Option Simplex)
    (h : tellPending env s p hint = .ok s') :
    ((s.data.contains p = true ∨ env.inside p = false) ∧ s' = s) ∨
    ((s.data.contains p = false ∧ env.inside p = true) ∧
      ∃ s1 b, touchTri env { s with pending := addPending s.pending p } = .ok s1 ∧
      s' = { s1 with book := b } ∧
      (b = s1.book ∨ ∃ vs sx, s1.tri = some vs ∧
        pendLoop env vs s1.losses p s1.book (neighborsOf (env.triSimps vs.length) sx) = .ok b)) := by
  unfold tellPending at h
  by_cases hd : s.data.contains p = true
  · left
    simp only [hd, if_true, Except.ok.injEq] at h
    exact ⟨Or.inl hd, h.symm⟩
  simp only [Bool.not_eq_true] at hd
  simp only [hd, Bool.false_eq_true, if_false] at h
  by_cases hin : env.inside p = true
  · right
    refine ⟨⟨hd, hin⟩, ?_⟩
    simp only [hin, Bool.not_true, Bool.false_eq_true, if_false] at h
    split at h
    · exact absurd h (by simp)
    · rename_i s1 h1
      refine ⟨s1, ?_⟩
      split at h
      · simp only [Except.ok.injEq] at h; subst h; exact ⟨_, h1, rfl, Or.inl rfl⟩
      · rename_i vs hvs
        split at h
        · simp only [Except.ok.injEq] at h; subst h; exact ⟨_, h1, rfl, Or.inl rfl⟩
        · split at h
          · exact absurd h (by simp)
          · rename_i b hb
            simp only [Except.ok.injEq] at h; subst h
            exact ⟨b, h1, rfl, Or.inr ⟨vs, _, hvs, hb⟩⟩
  · left
    simp only [Bool.not_eq_true] at hin
    simp only [hin, Bool.not_false, if_true, Except.ok.injEq] at h
    exact ⟨Or.inr hin, h.symm⟩

/-- `tell_pending` of a point that already has a value changes nothing -/
theorem tellPending_known (env : Env α) (s : State α) (p : Pt) (hint : Option Simplex)
    (h : s.data.contains p = true) : tellPending env s p hint = .ok s := by
  unfold tellPending; rw [if_pos h]

theorem tellPending_frame (env : Env α) {s s' : State α} (p : Pt) (hint : Option Simplex)
    (h : tellPending env s p hint = .ok s') :
    s'.data = s.data ∧ s'.nrand = s.nrand ∧ s'.range = s.range ∧ s'.mult = s.mult ∧
      s'.pending = (if (!s.data.contains p && env.inside p) then addPending s.pending p else s.pending) ∧
      (s'.tri = s.tri ∨ (s.tri = none ∧ s'.tri = some s.data)) := by
  rcases tellPending_form env p hint h with ⟨hin, rfl⟩ | ⟨⟨hd, hin⟩, s1, b, h1, rfl, _⟩
  · refine ⟨rfl, rfl, rfl, rfl, ?_, Or.inl rfl⟩
    rcases hin with hin | hin <;> simp only [hin, Bool.not_true, Bool.false_and, Bool.and_false,
      Bool.false_eq_true, if_false]
  · obtain ⟨a1, a2, a3, a4, a5, a6⟩ := touchTri_frame env h1
    refine ⟨a1, a5, a3, a4, ?_, a6⟩
    simp only [hin, hd, Bool.not_false, Bool.and_self, if_true]
    exact a2

theorem tellPending_keys (env : Env α) {s s' : State α} (p : Pt) (hint : Option Simplex)
    (hk : KeysInv env s) (h : tellPending env s p hint = .ok s') : KeysInv env s' := by
  rcases tellPending_form env p hint h with ⟨hin, rfl⟩ | ⟨hin, s1, b, h1, rfl, _⟩
  · exact hk
  · have k1 : KeysInv env s1 := touchTri_keys env (s := { s with pending := addPending s.pending p }) hk h1
    exact k1

/-- shape of `tell` -/
theorem tell_form (env : Env α) {s s' : State α} (p : Pt) (a b : α) (h : tell env s p a b = .ok s') :
    (s.data.contains p = true ∧ s' = s) ∨
    (s.data.contains p = false ∧ ∃ s1, touchTri env { s with pending := s.pending.filter (· ≠ p) } = .ok s1 ∧
      ((env.inside p = false ∧ s' = { s1 with data := s1.data ++ [p] }) ∨
       (env.inside p = true ∧ ∃ s3, updateRange env { s1 with data := s1.data ++ [p] } a b = .ok s3 ∧
          ((s1.tri = none ∧ s' = s3) ∨
           (∃ vs hint D A, s1.tri = some vs ∧ env.triAdd vs.length hint = some (D, A) ∧
              updateLosses env { s3 with tri := some (vs ++ [p]) } D A = .ok s'))))) := by
  unfold tell at h
  by_cases hc : s.data.contains p = true
  · left
    simp only [hc, if_true, Except.ok.injEq] at h
    exact ⟨hc, h.symm⟩
  · right
    simp only [Bool.not_eq_true] at hc
    refine ⟨hc, ?_⟩
    simp only [hc, Bool.false_eq_true, if_false] at h
    split at h
    · exact absurd h (by simp)
    · rename_i s1 h1
      refine ⟨s1, h1, ?_⟩
      by_cases hin : env.inside p = true
      · right
        refine ⟨hin, ?_⟩
        simp only [hin, Bool.not_true, Bool.false_eq_true, if_false] at h
        split at h
        · exact absurd h (by simp)
        · rename_i s3 h3
          refine ⟨s3, h3, ?_⟩
          split at h
          · rename_i hn
            left
            simp only [Except.ok.injEq] at h
            exact ⟨hn, h.symm⟩
          · rename_i vs hvs
            right
            split at h
            · exact absurd h (by simp)
            · rename_i D A hadd
              exact ⟨vs, _, D, A, hvs, hadd, h⟩
      · left
        simp only [Bool.not_eq_true] at hin
        simp only [hin, Bool.not_false, if_true, Except.ok.injEq] at h
        exact ⟨hin, h.symm⟩

theorem tell_keys (env : Env α) (hR : ReportExact env) {s s' : State α} (p : Pt) (a b : α)
    (hk : KeysInv env s) (h : tell env s p a b = .ok s') : KeysInv env s' := by
  rcases tell_form env p a b h with ⟨_, rfl⟩ | ⟨_, s1, h1, hcase⟩
  · exact hk
  · have k1 : KeysInv env s1 := touchTri_keys env (s := { s with pending := s.pending.filter (· ≠ p) }) hk h1
    rcases hcase with ⟨_, rfl⟩ | ⟨_, s3, h3, hcase⟩
    · exact k1
    · have k3 : KeysInv env s3 := updateRange_keys env (s := { s1 with data := s1.data ++ [p] }) a b k1 h3
      rcases hcase with ⟨_, rfl⟩ | ⟨vs, hint, D, A, hvs, hadd, hu⟩
      · exact k3
      · obtain ⟨_, _, _, f3⟩ := updateRange_frame env a b h3
        have t3 : s3.tri = some vs := by
          rcases f3 with f | ⟨f, _⟩
          · rw [f]; exact hvs
          · simp only [hvs] at f; exact absurd f (by simp)
        obtain ⟨⟨_, _, c, _, _, _⟩, hkeys⟩ :=
          updateLosses_spec (s := { s3 with tri := some (vs ++ [p]) }) env D A rfl hu
        intro x
        rw [hkeys x, c]
        have k := k3 x
        rw [t3] at k
        simp only [simplices, List.length_append, List.length_cons, List.length_nil] at k ⊢
        rw [k, hR _ _ _ _ hadd x]

/-- shape of `_ask_best_point` -/
theorem askBest_form (env : Env α) {s s' : State α} {vs : List Pt} {r : Pt × α} (h : askBest env s vs = .ok (r, s')) :
    ∃ e q s2, popHighest env (env.triSimps vs.length) s.book.subs s.book.queue = some (e, q) ∧
      r.2 = env.abs e.loss ∧
      tellPending env { s with book := { s.book with queue := q, p2s := put r.1 e.simplex s.book.p2s } } r.1
        (some e.simplex) = .ok s2 ∧
      s' = { s2 with book := { s2.book with geomOK := s2.book.geomOK &&
              !(live env (simplices env s2.tri) s2.book.subs e) } } := by
  unfold askBest at h
  split at h
  · exact absurd h (by simp)
  · rename_i e q hp
    simp only at h
    split at h
    · exact absurd h (by simp)
    · rename_i s2 h2
      simp only [Except.ok.injEq, Prod.mk.injEq] at h
      obtain ⟨h1, h3⟩ := h
      subst h1
      exact ⟨e, q, s2, hp, rfl, h2, h3.symm⟩

theorem askBest_keys (env : Env α) {s s' : State α} {vs : List Pt} {r : Pt × α} (hk : KeysInv env s)
    (h : askBest env s vs = .ok (r, s')) : KeysInv env s' := by
  obtain ⟨e, q, s2, _, _, h2, rfl⟩ := askBest_form env h
  have k2 : KeysInv env s2 :=
    tellPending_keys env (s := { s with book := { s.book with queue := q, p2s := put r.1 e.simplex s.book.p2s } })
      r.1 (some e.simplex) hk h2
  exact k2

/-- shape of `_ask` -/
theorem askOne_form (env : Env α) {s s' : State α} {r : Pt × α} (h : askOne env s = .ok (r, s')) :
    (∃ p, missingBound env s = some p ∧ r = (p, env.inf) ∧ tellPending env s p none = .ok s') ∨
    (missingBound env s = none ∧ ∃ s1, touchTri env s = .ok s1 ∧
      ((s1.tri = none ∧ r = (env.randPt s1.nrand, env.inf) ∧
          tellPending env { s1 with nrand := s1.nrand + 1 } (env.randPt s1.nrand) none = .ok s') ∨
       (∃ vs, s1.tri = some vs ∧ askBest env s1 vs = .ok (r, s')))) := by
  unfold askOne at h
  split at h
  · rename_i p hp
    left
    split at h
    · exact absurd h (by simp)
    · rename_i s1 h1
      simp only [Except.ok.injEq, Prod.mk.injEq] at h
      obtain ⟨h2, h3⟩ := h
      subst h3
      exact ⟨p, hp, h2.symm, h1⟩
  · rename_i hm
    right
    refine ⟨hm, ?_⟩
    split at h
    · exact absurd h (by simp)
    · rename_i s1 h1
      refine ⟨s1, h1, ?_⟩
      split at h
      · rename_i hn
        left
        simp only at h
        split at h
        · exact absurd h (by simp)
        · rename_i s2 h2
          simp only [Except.ok.injEq, Prod.mk.injEq] at h
          obtain ⟨h3, h4⟩ := h
          subst h4
          exact ⟨hn, h3.symm, h2⟩
      · rename_i vs hvs
        right
        exact ⟨vs, hvs, h⟩

theorem askOne_keys (env : Env α) {s s' : State α} {r : Pt × α} (hk : KeysInv env s)
    (h : askOne env s = .ok (r, s')) : KeysInv env s' := by
  rcases askOne_form env h with ⟨p, _, _, h1⟩ | ⟨_, s1, h1, hcase⟩
  · exact tellPending_keys env p none hk h1
  · have k1 := touchTri_keys env hk h1
    rcases hcase with ⟨_, _, h2⟩ | ⟨vs, _, h2⟩
    · exact tellPending_keys env (s := { s1 with nrand := s1.nrand + 1 }) _ none k1 h2
    · exact askBest_keys env k1 h2

theorem askLoop_keys (env : Env α) (n : Nat) : ∀ {s s' : State α} {rs : List (Pt × α)}, KeysInv env s →
    askLoop env n s = .ok (rs, s') → KeysInv env s' := by
  induction n with
  | zero =>
    intro s s' rs hk h
    simp only [askLoop, Except.ok.injEq, Prod.mk.injEq] at h
    rw [← h.2]; exact hk
  | succ n ih =>
    intro s s' rs hk h
    unfold askLoop at h
    split at h
    · exact absurd h (by simp)
    · rename_i r s1 h1
      split at h
      · exact absurd h (by simp)
      · rename_i rs' s2 h2
        simp only [Except.ok.injEq, Prod.mk.injEq] at h
        rw [← h.2]
        exact ih (askOne_keys env hk h1) h2

theorem ask_keys (env : Env α) {s s' : State α} {rs : List (Pt × α)} (n : Nat) (c : Bool) (hk : KeysInv env s)
    (h : ask env s n c = .ok (rs, s')) : KeysInv env s' := by
  unfold ask at h
  split at h
  · exact absurd h (by simp)
  · rename_i rs' s1 h1
    simp only [Except.ok.injEq, Prod.mk.injEq] at h
    rw [← h.2]
    cases c
    · exact hk
    · exact askLoop_keys env n hk h1

theorem lossOp_keys (env : Env α) {s s' : State α} {v : α} (hk : KeysInv env s)
    (h : lossOp env s = .ok (v, s')) : KeysInv env s' := by
  unfold lossOp at h
  split at h
  · exact absurd h (by simp)
  · rename_i s1 h1
    have k1 := touchTri_keys env hk h1
    split at h <;> (simp only [Except.ok.injEq, Prod.mk.injEq] at h; rw [← h.2]; exact k1)

theorem step_keys (env : Env α) (hR : ReportExact env) {s s' : State α} (op : Op α) (hk : KeysInv env s)
    (h : step env s op = .ok s') : KeysInv env s' := by
  cases op with
  | tell p a b => exact tell_keys env hR p a b hk h
  | tellPending p => exact tellPending_keys env p none hk h
  | ask n c =>
    simp only [step] at h
    cases ha : ask env s n c with
    | error e => rw [ha] at h; simp [Except.map] at h
    | ok r =>
      rw [ha] at h
      simp only [Except.map, Except.ok.injEq] at h
      subst h
      exact ask_keys env (rs := r.1) n c hk (by rw [ha])
  | removeUnfinished =>
    simp only [step, Except.ok.injEq] at h
    subst h; exact hk
  | loss =>
    simp only [step] at h
    cases ha : lossOp env s with
    | error e => rw [ha] at h; simp [Except.map] at h
    | ok r =>
      rw [ha] at h
      simp only [Except.map, Except.ok.injEq] at h
      subst h
      exact lossOp_keys env (v := r.1) hk (by rw [ha])

theorem run_keys (env : Env α) (hR : ReportExact env) (ops : List (Op α)) : ∀ {s s' : State α}, KeysInv env s →
    run env s ops = .ok s' → KeysInv env s' := by
  induction ops with
  | nil => intro s s' hk h; simp only [run, Except.ok.injEq] at h; subst h; exact hk
  | cons op ops ih =>
    intro s s' hk h
    unfold run at h
    split at h
    · exact absurd h (by simp)
    · rename_i s1 h1
      exact ih (step_keys env hR op hk h1) h

theorem init_keys (env : Env α) : KeysInv env (init env) := by
  intro x; simp [init, keys, simplices]

end LND
