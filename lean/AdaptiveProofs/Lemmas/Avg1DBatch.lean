import AdaptiveProofs.Lemmas.Avg1DTell

/-!
Closed forms of `Avg1D.tellManyAtPoint`, preservation of the bookkeeping invariant by
batches (C16.j) and agreement of a batch with the same samples told one by one (C16.i).
-/

set_option linter.unusedSectionVars false

namespace Avg1D
variable {α : Type} [Field α] [LinearOrder α] [IsStrictOrderedRing α]

/-! ### closed forms of `tellManyAtPoint` -/

/-- the point after a batch of samples -/
def batchPt (sqrt : α → α) (tq : Nat → α) (p : Pt α) (mapping : List (Nat × α)) : Pt α :=
  let ys := mapping.map Prod.snd
  let samples' := dictUpdate p.samples mapping
  let n' := ys.length + p.n
  let npMean := ys.foldl (· + ·) 0 / (ys.length : α)
  let mean' := (npMean * (ys.length : α) + p.mean * (p.n : α)) / (n' : α)
  { p with samples := samples', mean := mean', n := n',
           err := some (calcError sqrt tq (samples'.map Prod.snd) mean' n') }

def batchState (sqrt : α → α) (tq : Nat → α) (s : State α) (x : α) (p : Pt α)
    (mapping : List (Nat × α)) : State α :=
  { s with pts := updatePt (batchPt sqrt tq p mapping) s.pts,
           under := if (mapping.map Prod.snd).length + p.n > s.minSamples
                    then s.under.erase x else s.under }

theorem tellMany_nil (sqrt : α → α) (tq : Nat → α) (s : State α) (x : α) :
    tellManyAtPoint sqrt tq s x [] = s := by
  unfold tellManyAtPoint
  cases hf : find? s x <;> simp [hf]

theorem tellMany_some_cons (sqrt : α → α) (tq : Nat → α) (s : State α) (x : α) (p : Pt α)
    (kv : Nat × α) (rest : List (Nat × α)) (h : find? s x = some p) :
    tellManyAtPoint sqrt tq s x (kv :: rest) = batchState sqrt tq s x p (kv :: rest) := by
  unfold tellManyAtPoint
  simp only [h]
  rfl

theorem tellMany_none_cons (sqrt : α → α) (tq : Nat → α) (s : State α) (x : α)
    (seed : Nat) (y : α) (rest : List (Nat × α)) (h : find? s x = none) :
    tellManyAtPoint sqrt tq s x ((seed, y) :: rest) =
      tellManyAtPoint sqrt tq (tell sqrt tq s seed x y) x rest := by
  have h1 := find?_tell_new sqrt tq s seed x y h
  cases rest with
  | nil =>
    rw [tellMany_nil]
    unfold tellManyAtPoint
    simp only [h, h1]
  | cons kv rest =>
    rw [tellMany_some_cons _ _ _ _ _ _ _ h1]
    unfold tellManyAtPoint
    simp only [h, h1]
    rfl

theorem batchPt_samples (sqrt : α → α) (tq : Nat → α) (p : Pt α) (mapping : List (Nat × α))
    (hnd : (mapping.map Prod.fst).Nodup)
    (hfresh : ∀ k ∈ mapping.map Prod.fst, k ∉ p.samples.map Prod.fst) :
    (batchPt sqrt tq p mapping).samples = p.samples ++ mapping :=
  dictUpdate_fresh mapping p.samples hnd hfresh

theorem batchPt_n (sqrt : α → α) (tq : Nat → α) (p : Pt α) (mapping : List (Nat × α)) :
    (batchPt sqrt tq p mapping).n = mapping.length + p.n := by
  show (mapping.map Prod.snd).length + p.n = _
  rw [List.length_map]

/-- `mean' · n' = Σ ys + mean · n` -/
theorem batchPt_mean_mul (sqrt : α → α) (tq : Nat → α) (p : Pt α) (mapping : List (Nat × α))
    (hne : mapping ≠ []) :
    (batchPt sqrt tq p mapping).mean * ((mapping.length + p.n : Nat) : α) =
      (mapping.map Prod.snd).sum + p.mean * (p.n : α) := by
  have hlen : 0 < mapping.length := List.length_pos_iff.2 hne
  have h1 : ((mapping.map Prod.snd).length : α) ≠ 0 := by
    rw [List.length_map]; exact Nat.cast_ne_zero.2 hlen.ne'
  have h2 : (((mapping.map Prod.snd).length + p.n : Nat) : α) ≠ 0 :=
    Nat.cast_ne_zero.2 (by rw [List.length_map]; omega)
  show ((mapping.map Prod.snd).foldl (· + ·) 0 / ((mapping.map Prod.snd).length : α)
      * ((mapping.map Prod.snd).length : α) + p.mean * (p.n : α))
      / (((mapping.map Prod.snd).length + p.n : Nat) : α) * ((mapping.length + p.n : Nat) : α) = _
  rw [div_mul_cancel₀ _ h1, foldl_add_zero]
  rw [List.length_map] at h2 ⊢
  rw [div_mul_cancel₀ _ h2]

theorem ptGood_batchPt (sqrt : α → α) (tq : Nat → α) (p : Pt α) (mapping : List (Nat × α))
    (hg : PtGood p) (hne : mapping ≠ []) (hnd : (mapping.map Prod.fst).Nodup)
    (hfresh : ∀ k ∈ mapping.map Prod.fst, k ∉ p.samples.map Prod.fst) :
    PtGood (batchPt sqrt tq p mapping) := by
  obtain ⟨h1, h2, h3, h4⟩ := hg
  have hs := batchPt_samples sqrt tq p mapping hnd hfresh
  have hn := batchPt_n sqrt tq p mapping
  refine ⟨?_, ?_, ?_, ?_⟩
  · rw [hs, hn, List.length_append, h1]; omega
  · rw [hn]; omega
  · rw [hs, List.map_append, List.nodup_append]
    refine ⟨h3, hnd, ?_⟩
    intro a ha b hb hab
    subst hab
    exact hfresh a hb ha
  · rw [hn, batchPt_mean_mul sqrt tq p mapping hne, hs, h4, List.map_append, List.sum_append]
    ring

theorem stGood_batchState (sqrt : α → α) (tq : Nat → α) (s : State α) (h : StGood s) (x : α)
    (p : Pt α) (mapping : List (Nat × α)) (hf : find? s x = some p) (hne : mapping ≠ [])
    (hnd : (mapping.map Prod.fst).Nodup)
    (hfresh : ∀ k ∈ mapping.map Prod.fst, k ∉ p.samples.map Prod.fst) :
    StGood (batchState sqrt tq s x p mapping) := by
  obtain ⟨hp, hpx⟩ := find?_some hf
  unfold batchState
  apply stGood_update s h p (batchPt sqrt tq p mapping) _ hp rfl
    (ptGood_batchPt sqrt tq p mapping (h.2.1 p hp) hne hnd hfresh)
  · rw [batchPt_n]; omega
  · rw [batchPt_n, hpx, List.length_map]
    split
    · exact Or.inr ⟨rfl, by omega⟩
    · exact Or.inl rfl

/-- C16.j core -/
theorem stGood_tellMany (sqrt : α → α) (tq : Nat → α) (s : State α) (h : StGood s) (x : α)
    (mapping : List (Nat × α)) (hnd : (mapping.map Prod.fst).Nodup)
    (hfresh : ∀ p, find? s x = some p → ∀ k ∈ mapping.map Prod.fst, k ∉ p.samples.map Prod.fst) :
    StGood (tellManyAtPoint sqrt tq s x mapping) := by
  cases mapping with
  | nil => rw [tellMany_nil]; exact h
  | cons kv rest =>
    cases hf : find? s x with
    | some p =>
      rw [tellMany_some_cons _ _ _ _ _ _ _ hf]
      exact stGood_batchState sqrt tq s h x p _ hf (by simp) hnd (hfresh p hf)
    | none =>
      obtain ⟨seed, y⟩ := kv
      rw [tellMany_none_cons _ _ _ _ _ _ _ hf]
      have h1 := find?_tell_new sqrt tq s seed x y hf
      have hg1 := stGood_tell sqrt tq s h seed x y
      rw [List.map_cons] at hnd
      obtain ⟨hseed, hnd'⟩ := List.nodup_cons.1 hnd
      cases rest with
      | nil => rw [tellMany_nil]; exact hg1
      | cons kv2 rest =>
        rw [tellMany_some_cons _ _ _ _ _ _ _ h1]
        apply stGood_batchState sqrt tq _ hg1 x _ _ h1 (by simp) hnd'
        intro k hk hk2
        have : k = seed := by simpa [newPt] using hk2
        subst this
        exact hseed hk

/-! ### a batch versus the same samples told one by one -/

/-- the point at `x` along a sequence of single tells of fresh seeds -/
theorem foldl_tell_find (sqrt : α → α) (tq : Nat → α) (x : α) (mapping : List (Nat × α))
    (s : State α) (p : Pt α) (hf : find? s x = some p) (hg : PtGood p)
    (hnd : (mapping.map Prod.fst).Nodup)
    (hfresh : ∀ k ∈ mapping.map Prod.fst, k ∉ p.samples.map Prod.fst) :
    ∃ q, find? (mapping.foldl (fun s kv => tell sqrt tq s kv.1 x kv.2) s) x = some q ∧
      PtGood q ∧ q.samples = p.samples ++ mapping ∧ q.n = p.n + mapping.length := by
  induction mapping generalizing s p with
  | nil => exact ⟨p, hf, hg, by simp, by simp⟩
  | cons kv rest ih =>
    rw [List.map_cons] at hnd
    obtain ⟨hkv, hnd'⟩ := List.nodup_cons.1 hnd
    have hk : kv.1 ∉ p.samples.map Prod.fst := hfresh kv.1 (by simp)
    have hf1 := find?_tell_resample sqrt tq s kv.1 x kv.2 p hf hk
    have hg1 := ptGood_resamplePt sqrt tq p kv.1 kv.2 hg hk
    have hfresh1 : ∀ k ∈ rest.map Prod.fst,
        k ∉ (resamplePt sqrt tq p kv.1 kv.2).samples.map Prod.fst := by
      intro k hk1 hk2
      change k ∈ (p.samples ++ [(kv.1, kv.2)]).map Prod.fst at hk2
      simp only [List.map_append, List.map_cons, List.map_nil, List.mem_append,
        List.mem_singleton] at hk2
      rcases hk2 with hk2 | hk2
      · exact hfresh k (by simp only [List.map_cons, List.mem_cons]; exact Or.inr hk1) hk2
      · subst hk2; exact hkv hk1
    obtain ⟨q, hq1, hq2, hq3, hq4⟩ := ih _ _ hf1 hg1 hnd' hfresh1
    refine ⟨q, by simpa only [List.foldl_cons] using hq1, hq2, ?_, ?_⟩
    · rw [hq3]
      show (p.samples ++ [(kv.1, kv.2)]) ++ rest = p.samples ++ kv :: rest
      simp
    · rw [hq4]
      show p.n + 1 + rest.length = p.n + (rest.length + 1)
      omega

/-- after at least one re-sampling tell the stored error is the error of the point held -/
theorem foldl_tell_err (sqrt : α → α) (tq : Nat → α) (x : α) (mapping : List (Nat × α))
    (s : State α) (p : Pt α) (hf : find? s x = some p) (hg : PtGood p)
    (hnd : (mapping.map Prod.fst).Nodup)
    (hfresh : ∀ k ∈ mapping.map Prod.fst, k ∉ p.samples.map Prod.fst) (hne : mapping ≠ []) :
    ∃ q, find? (mapping.foldl (fun s kv => tell sqrt tq s kv.1 x kv.2) s) x = some q ∧
      q.err = some (calcError sqrt tq (q.samples.map Prod.snd) q.mean q.n) := by
  obtain ⟨ini, last, rfl⟩ : ∃ ini last, mapping = ini ++ [last] :=
    ⟨mapping.dropLast, mapping.getLast hne, (List.dropLast_append_getLast hne).symm⟩
  rw [List.map_append, List.nodup_append] at hnd
  obtain ⟨hnd1, -, hdisj⟩ := hnd
  obtain ⟨q0, hq1, hq2, hq3, -⟩ := foldl_tell_find sqrt tq x ini s p hf hg hnd1
    (fun k hk => hfresh k (by simp only [List.map_append, List.mem_append]; exact Or.inl hk))
  have hk : last.1 ∉ q0.samples.map Prod.fst := by
    rw [hq3, List.map_append, List.mem_append]
    rintro (hk | hk)
    · exact hfresh last.1 (by simp) hk
    · exact hdisj last.1 hk last.1 (by simp) rfl
  refine ⟨resamplePt sqrt tq q0 last.1 last.2, ?_, rfl⟩
  rw [List.foldl_append]
  exact find?_tell_resample sqrt tq _ last.1 x last.2 q0 hq1 hk

theorem batch_eq_single_some (sqrt : α → α) (tq : Nat → α) (s : State α) (x : α) (p : Pt α)
    (mapping : List (Nat × α)) (hf : find? s x = some p) (hg : PtGood p) (hne : mapping ≠ [])
    (hnd : (mapping.map Prod.fst).Nodup)
    (hfresh : ∀ k ∈ mapping.map Prod.fst, k ∉ p.samples.map Prod.fst) :
    ∃ pb ps, find? (batchState sqrt tq s x p mapping) x = some pb ∧
      find? (mapping.foldl (fun s kv => tell sqrt tq s kv.1 x kv.2) s) x = some ps ∧
      pb.mean = ps.mean ∧ pb.n = ps.n ∧ pb.samples = ps.samples ∧ pb.err = ps.err := by
  obtain ⟨ps, hs1, hs2, hs3, hs4⟩ := foldl_tell_find sqrt tq x mapping s p hf hg hnd hfresh
  obtain ⟨ps', hs1', hserr⟩ := foldl_tell_err sqrt tq x mapping s p hf hg hnd hfresh hne
  obtain rfl : ps' = ps := Option.some.inj (hs1'.symm.trans hs1)
  have hb1 : find? (batchState sqrt tq s x p mapping) x = some (batchPt sqrt tq p mapping) := by
    unfold find? at hf ⊢
    exact find?_list_updatePt (batchPt sqrt tq p mapping) x (find?_some hf).2 s.pts p hf
  have hbs := batchPt_samples sqrt tq p mapping hnd hfresh
  have hbn := batchPt_n sqrt tq p mapping
  have hn : (batchPt sqrt tq p mapping).n = ps'.n := by rw [hbn, hs4]; omega
  have hsm : (batchPt sqrt tq p mapping).samples = ps'.samples := by rw [hbs, hs3]
  have hmean : (batchPt sqrt tq p mapping).mean = ps'.mean := by
    have e1 := batchPt_mean_mul sqrt tq p mapping hne
    have e2 := hs2.2.2.2
    have hN : ((mapping.length + p.n : Nat) : α) ≠ 0 :=
      Nat.cast_ne_zero.2 (by have := hg.2.1; omega)
    apply mul_right_cancel₀ hN
    rw [e1, ← hbn, hn, e2, hs3, List.map_append, List.sum_append, hg.2.2.2]
    ring
  refine ⟨_, ps', hb1, hs1, hmean, hn, hsm, ?_⟩
  rw [hserr, ← hmean, ← hn, ← hsm]
  rfl

/-- C16.i core -/
theorem batch_eq_single_aux (sqrt : α → α) (tq : Nat → α) (s : State α) (h : StGood s)
    (x : α) (mapping : List (Nat × α)) (hne : 2 ≤ mapping.length)
    (hnd : (mapping.map Prod.fst).Nodup)
    (hfresh : ∀ p, find? s x = some p → ∀ k ∈ mapping.map Prod.fst, k ∉ p.samples.map Prod.fst) :
    ∃ pb ps, find? (tellManyAtPoint sqrt tq s x mapping) x = some pb ∧
      find? (mapping.foldl (fun s kv => tell sqrt tq s kv.1 x kv.2) s) x = some ps ∧
      pb.mean = ps.mean ∧ pb.n = ps.n ∧ pb.samples = ps.samples ∧ pb.err = ps.err := by
  obtain ⟨kv, rest, rfl⟩ : ∃ kv rest, mapping = kv :: rest := by
    cases mapping with
    | nil => simp at hne
    | cons kv rest => exact ⟨kv, rest, rfl⟩
  cases hf : find? s x with
  | some p =>
    rw [tellMany_some_cons _ _ _ _ _ _ _ hf]
    exact batch_eq_single_some sqrt tq s x p _ hf (h.2.1 p (find?_some hf).1) (by simp) hnd
      (hfresh p hf)
  | none =>
    obtain ⟨seed, y⟩ := kv
    obtain ⟨kv2, rest, rfl⟩ : ∃ kv2 rest2, rest = kv2 :: rest2 := by
      cases rest with
      | nil => simp at hne
      | cons kv2 rest2 => exact ⟨kv2, rest2, rfl⟩
    have h1 := find?_tell_new sqrt tq s seed x y hf
    rw [List.map_cons] at hnd
    obtain ⟨hseed, hnd'⟩ := List.nodup_cons.1 hnd
    rw [tellMany_none_cons _ _ _ _ _ _ _ hf, tellMany_some_cons _ _ _ _ _ _ _ h1]
    rw [List.foldl_cons]
    apply batch_eq_single_some sqrt tq _ x _ _ h1 (ptGood_newPt x seed y) (by simp) hnd'
    intro k hk hk2
    have : k = seed := by simpa [newPt] using hk2
    subst this
    exact hseed hk

end Avg1D
