import AdaptiveProofs.Lemmas.LNDDead
import AdaptiveProofs.Lemmas.LNDAsk

/-! Freshness of the points `ask(n)` returns (C04, `lnd_ask_fresh_statement`): they are distinct and none of them
is evaluated or pending, GIVEN that in every state one `_ask` of this `ask(n)` starts from the point the oracle
`choose_point_in_simplex` picks for the popped (sub)simplex — and the random bootstrap point — is neither
evaluated nor pending and lies in the domain (`ChooseFresh`).  A second layer reduces that state-level hypothesis
to local truthfulness of `choose` (`ChooseLocal`) plus the bookkeeping fact `PointsBound` ("every evaluated or
pending point lying in a simplex is a vertex of that simplex' sub-triangulation"), which is where the real code
fails in the known-finding scenario. -/
set_option linter.unusedSectionVars false
set_option linter.unusedSimpArgs false
set_option linter.unusedVariables false
namespace LND
variable {α : Type} [Sub α] [Mul α] [Div α] [LT α] [DecidableLT α]

/-- in state `t` (the `tri` property already evaluated) the point `choose_point_in_simplex` returns for the
(sub)simplex `_pop_highest_existing_simplex` pops is neither evaluated nor pending, and lies in the domain -/
def ChooseFreshAt (env : Env α) (t : State α) : Prop :=
  ∀ vs e q, t.tri = some vs →
    popHighest env (env.triSimps vs.length) t.book.subs t.book.queue = some (e, q) →
    env.choose (chosenPts vs t.book.subs e) ∉ t.data ∧ env.choose (chosenPts vs t.book.subs e) ∉ t.pending ∧
      env.inside (env.choose (chosenPts vs t.book.subs e)) = true

/-- in state `t` without triangulation the next random bootstrap point is neither evaluated nor pending (the real
code only guarantees that it lies in the domain; a collision has probability zero) -/
def RandFreshAt (env : Env α) (t : State α) : Prop :=
  t.tri = none → env.randPt t.nrand ∉ t.data ∧ env.randPt t.nrand ∉ t.pending ∧
    env.inside (env.randPt t.nrand) = true

def FreshAt (env : Env α) (t : State α) : Prop := ChooseFreshAt env t ∧ RandFreshAt env t

/-- the hypothesis of `lnd_ask_fresh`: along `ask(n)` from `s`, the oracles `choose_point_in_simplex` and the
random bootstrap return points that are neither evaluated nor pending -/
def ChooseFresh (env : Env α) (n : Nat) (s : State α) : Prop := Along env (FreshAt env) n s

theorem Along.mono (env : Env α) {P Q I : State α → Prop} (pres : Preserved env I)
    (hPQ : ∀ t, I t → P t → Q t) (n : Nat) : ∀ {s : State α}, I s → Along env P n s → Along env Q n s := by
  induction n with
  | zero => intro s _ _; trivial
  | succ n ih =>
    intro s hi h
    obtain ⟨h1, h2⟩ := h
    refine ⟨fun hm t ht => hPQ t (pres.hTouch hi ht) (h1 hm t ht), ?_⟩
    intro r s1 ha
    exact ih (askOne_inv env pres hi ha) (h2 r s1 ha)

theorem AlongRun.mono (env : Env α) {P Q I : State α → Prop} (pres : Preserved env I)
    (hPQ : ∀ t, I t → P t → Q t) (ops : List (Op α)) :
    ∀ {s : State α}, I s → AlongRun env P s ops → AlongRun env Q s ops := by
  induction ops with
  | nil => intro s _ _; trivial
  | cons op ops ih =>
    intro s hi h
    obtain ⟨h1, h2⟩ := h
    refine ⟨?_, fun s1 hs => ih (step_inv env pres op hi hs) (h2 s1 hs)⟩
    cases op with
    | ask n c =>
      cases c with
      | false => trivial
      | true => exact Along.mono env pres hPQ n hi h1
    | _ => trivial

theorem not_mem_of_contains_false {l : List Pt} {p : Pt} (h : (!l.contains p) = true) : p ∉ l := by
  intro c
  rw [List.contains_iff_mem.2 c] at h
  exact absurd h (by simp)

theorem contains_false_of_not_mem {l : List Pt} {p : Pt} (h : p ∉ l) : l.contains p = false := by
  cases hc : l.contains p with
  | false => rfl
  | true => exact absurd (List.contains_iff_mem.1 hc) h

/-- one `_ask`: the returned point is fresh, and afterwards it is pending (nothing else changed in `data` /
`pending_points`) -/
theorem askOne_fresh (env : Env α) (hin : ∀ p ∈ env.boundsPts, env.inside p = true) {s s' : State α}
    {r : Pt × α} (hf : missingBound env s = none → ∀ t, touchTri env s = .ok t → FreshAt env t)
    (h : askOne env s = .ok (r, s')) :
    r.1 ∉ s.data ∧ r.1 ∉ s.pending ∧ s'.data = s.data ∧ s'.pending = addPending s.pending r.1 := by
  rcases askOne_form env h with ⟨p, hp, hr, h1⟩ | ⟨hm, s1, h1, hcase⟩
  · unfold missingBound at hp
    have hmem := List.mem_of_find?_eq_some hp
    have hpred := List.find?_some hp
    simp only [Bool.and_eq_true] at hpred
    have hpin := hin p hmem
    obtain ⟨fd, _, _, _, fp, _⟩ := tellPending_frame env p none h1
    rw [hr]
    simp only [hpin, contains_false_of_not_mem (not_mem_of_contains_false hpred.1), Bool.not_false,
      Bool.and_self, if_true] at fp
    exact ⟨not_mem_of_contains_false hpred.1, not_mem_of_contains_false hpred.2, fd, fp⟩
  · obtain ⟨hc, hrand⟩ := hf hm s1 h1
    obtain ⟨d1, p1, _, _, _, _⟩ := touchTri_frame env h1
    rcases hcase with ⟨hn, hr, h2⟩ | ⟨vs, hvs, h2⟩
    · obtain ⟨a, b, c⟩ := hrand hn
      obtain ⟨fd, _, _, _, fp, _⟩ :=
        tellPending_frame env (s := { s1 with nrand := s1.nrand + 1 }) (env.randPt s1.nrand) none h2
      rw [hr]
      simp only [c, contains_false_of_not_mem a, Bool.not_false, Bool.and_self, if_true] at fp
      refine ⟨d1 ▸ a, p1 ▸ b, fd.trans d1, ?_⟩
      rw [fp, p1]
    · obtain ⟨e, q, s2, hp, _, h3, rfl⟩ := askBest_form env h2
      have hr1 := askBest_point env hp h2
      obtain ⟨a, b, c⟩ := hc vs e q hvs hp
      rw [← hr1] at a b c
      obtain ⟨fd, _, _, _, fp, _⟩ := tellPending_frame env
        (s := { s1 with book := { s1.book with queue := q, p2s := put r.1 e.simplex s1.book.p2s } }) r.1
        (some e.simplex) h3
      simp only [c, contains_false_of_not_mem a, Bool.not_false, Bool.and_self, if_true] at fp
      refine ⟨d1 ▸ a, p1 ▸ b, fd.trans d1, ?_⟩
      show s2.pending = _
      rw [fp, p1]

theorem mem_addPending_self (l : List Pt) (p : Pt) : p ∈ addPending l p := by
  unfold addPending
  split
  · rename_i h; exact List.contains_iff_mem.1 h
  · simp

theorem mem_addPending_of_mem {l : List Pt} {p x : Pt} (h : x ∈ l) : x ∈ addPending l p := by
  unfold addPending
  split
  · exact h
  · exact List.mem_append_left _ h

/-- `_ask_and_tell_pending(n)`: under `ChooseFresh` the returned points are distinct, not evaluated, not pending -/
theorem askLoop_fresh (env : Env α) (hin : ∀ p ∈ env.boundsPts, env.inside p = true) (n : Nat) :
    ∀ {s s' : State α} {rs : List (Pt × α)}, ChooseFresh env n s → askLoop env n s = .ok (rs, s') →
      (rs.map (·.1)).Nodup ∧ ∀ p ∈ rs.map (·.1), p ∉ s.data ∧ p ∉ s.pending := by
  induction n with
  | zero =>
    intro s s' rs _ h
    simp only [askLoop, Except.ok.injEq, Prod.mk.injEq] at h
    rw [← h.1]
    exact ⟨List.nodup_nil, fun p hp => absurd hp (by simp)⟩
  | succ n ih =>
    intro s s' rs hf h
    obtain ⟨hf1, hf2⟩ := hf
    unfold askLoop at h
    split at h
    · exact absurd h (by simp)
    · rename_i r s1 h1
      split at h
      · exact absurd h (by simp)
      · rename_i rs' s2 h2
        simp only [Except.ok.injEq, Prod.mk.injEq] at h
        rw [← h.1]
        obtain ⟨a, b, fd, fp⟩ := askOne_fresh env hin hf1 h1
        obtain ⟨hnd, hfr⟩ := ih (hf2 r s1 h1) h2
        simp only [List.map_cons, List.nodup_cons, List.mem_cons]
        refine ⟨⟨?_, hnd⟩, ?_⟩
        · intro c
          have := (hfr r.1 c).2
          rw [fp] at this
          exact this (mem_addPending_self _ _)
        · intro p hp
          rcases hp with rfl | hp
          · exact ⟨a, b⟩
          · obtain ⟨c, d⟩ := hfr p hp
            rw [fd] at c
            rw [fp] at d
            exact ⟨c, fun hc => d (mem_addPending_of_mem hc)⟩

/-! ### second layer: `ChooseFreshAt` from local truthfulness of `choose` and a bookkeeping fact -/

/-- local truthfulness of `choose_point_in_simplex`: the chosen point is not a corner of its simplex, and the
point chosen in a simplex of a sub-triangulation is not a vertex of that sub-triangulation (corners of the owning
simplex and points already pending there) -/
structure ChooseLocal (env : Env α) : Prop where
  notCorner : ∀ pts, env.choose pts ∉ pts
  notVertex : ∀ sv, ∀ ss ∈ env.subSimps sv, env.choose (ptsOf sv ss) ∉ sv

/-- every evaluated or pending point that `point_in_simplex` accepts for a simplex of the triangulation is a
vertex of that simplex' sub-triangulation (a corner of the simplex if it has none).  NOT an invariant of the real
code: a pending point that lies outside the hull of the data (or on a hull face), or that was told pending before
the triangulation existed, is not put into the simplices created later around it. -/
def PointsBound (env : Env α) (t : State α) : Prop :=
  ∀ vs, t.tri = some vs → ∀ x ∈ env.triSimps vs.length, ∀ p, (p ∈ t.data ∨ p ∈ t.pending) →
    env.pis p (ptsOf vs x) = true → p ∈ (get? x t.book.subs).getD (ptsOf vs x)

/-- `point_in_simplex` accepts the point chosen for a live queue key for the key's simplex -/
theorem chosen_pis (env : Env α) (hG : SubGeom env) (hC : ChooseGeom env) {s : State α} {vs : List Pt}
    (ht : s.tri = some vs) (hv : SubVerts env s) {e : QE α} (hmem : e.simplex ∈ env.triSimps vs.length)
    (hls : liveSub env s.book.subs (pairOf e)) :
    env.pis (env.choose (chosenPts vs s.book.subs e)) (ptsOf vs e.simplex) = true := by
  have hlen : e.simplex.length = env.dim + 1 := hG.size _ _ hmem
  cases ho : e.sub with
  | none => simp only [chosenPts, ho]; exact hC.inSimplex _
  | some ss =>
    simp only [pairOf, ho, liveSub] at hls
    obtain ⟨sv, hsv, hss⟩ := hls
    obtain ⟨_, pend, hform⟩ := hv.2 vs ht e.simplex sv hsv
    have hcp : chosenPts vs s.book.subs e = ptsOf sv ss := by
      simp only [chosenPts, ho, hsv, Option.getD_some]
    have htake : sv.take (env.dim + 1) = ptsOf vs e.simplex := by
      rw [hform]
      exact List.take_left' (by rw [ptsOf_length]; exact hlen)
    rw [hcp, ← htake]; exact hC.inOwner sv ss hss

theorem chooseFreshAt_of_bound (env : Env α) (hG : SubGeom env) (hC : ChooseGeom env) (hL : ChooseLocal env)
    {t : State α} (hv : SubVerts env t) (hb : PointsBound env t) : ChooseFreshAt env t := by
  intro vs e q ht hp
  obtain ⟨_, _, hlive, _⟩ := popHighest_spec env _ _ hp
  rw [live_iff] at hlive
  obtain ⟨hmem, hls⟩ := hlive
  have hpis := chosen_pis env hG hC ht hv hmem hls
  have hnot : env.choose (chosenPts vs t.book.subs e) ∉ (get? e.simplex t.book.subs).getD (ptsOf vs e.simplex) := by
    cases ho : e.sub with
    | none =>
      simp only [pairOf, ho, liveSub] at hls
      simp only [chosenPts, ho, hls, Option.getD_none]
      exact hL.notCorner _
    | some ss =>
      simp only [pairOf, ho, liveSub] at hls
      obtain ⟨sv, hsv, hss⟩ := hls
      simp only [chosenPts, ho, hsv, Option.getD_some]
      exact hL.notVertex sv ss hss
  refine ⟨fun c => hnot (hb vs ht _ hmem _ (Or.inl c) hpis), fun c => hnot (hb vs ht _ hmem _ (Or.inr c) hpis),
    hC.inside _⟩

/-- a fresh chosen point has no value: `ChooseNewAt` (what the completeness of the queue needs since the repair of
`tell_pending`) is the data third of `ChooseFreshAt` -/
theorem ChooseFreshAt.new {env : Env α} {t : State α} (h : ChooseFreshAt env t) : ChooseNewAt env t :=
  fun vs e q ht hp => (h vs e q ht hp).1

/-- the data half of `PointsBound`: every EVALUATED point that `point_in_simplex` accepts for a simplex of the
triangulation is a vertex of that simplex' sub-triangulation (a corner of the simplex if it has none).  Unlike
`PointsBound` this is true of a valid triangulation (a vertex lies in a simplex only as one of its corners). -/
def DataBound (env : Env α) (t : State α) : Prop :=
  ∀ vs, t.tri = some vs → ∀ x ∈ env.triSimps vs.length, ∀ p ∈ t.data,
    env.pis p (ptsOf vs x) = true → p ∈ (get? x t.book.subs).getD (ptsOf vs x)

theorem PointsBound.data {env : Env α} {t : State α} (h : PointsBound env t) : DataBound env t :=
  fun vs ht x hx p hp => h vs ht x hx p (Or.inl hp)

/-- `ChooseNewAt` from local truthfulness of `choose` and `DataBound` -/
theorem chooseNewAt_of_bound (env : Env α) (hG : SubGeom env) (hC : ChooseGeom env) (hL : ChooseLocal env)
    {t : State α} (hv : SubVerts env t) (hb : DataBound env t) : ChooseNewAt env t := by
  intro vs e q ht hp
  obtain ⟨_, _, hlive, _⟩ := popHighest_spec env _ _ hp
  rw [live_iff] at hlive
  obtain ⟨hmem, hls⟩ := hlive
  have hpis := chosen_pis env hG hC ht hv hmem hls
  have hnot : env.choose (chosenPts vs t.book.subs e) ∉ (get? e.simplex t.book.subs).getD (ptsOf vs e.simplex) := by
    cases ho : e.sub with
    | none =>
      simp only [pairOf, ho, liveSub] at hls
      simp only [chosenPts, ho, hls, Option.getD_none]
      exact hL.notCorner _
    | some ss =>
      simp only [pairOf, ho, liveSub] at hls
      obtain ⟨sv, hsv, hss⟩ := hls
      simp only [chosenPts, ho, hsv, Option.getD_some]
      exact hL.notVertex sv ss hss
  exact fun c => hnot (hb vs ht _ hmem _ c hpis)

/-- `AskNew` (the chosen points of a history had no value) from local truthfulness of `choose` and `DataBound` in the
states `_ask_best_point` starts from -/
theorem askNew_of_bound (env : Env α) (hT : TriGeom env) (hG : SubGeom env) (hC : ChooseGeom env)
    (hL : ChooseLocal env) (ops : List (Op α)) (h : AlongRun env (DataBound env) (init env) ops) : AskNew env ops :=
  AlongRun.mono env (subVerts_preserved env hT)
    (fun t hv hb => chooseNewAt_of_bound env hG hC hL hv hb) ops (init_subVerts env) h

/-- `ChooseFresh` from `PointsBound` (and freshness of the random bootstrap points) along the `ask(n)`, for a state
in which the sub-triangulation vertex lists have their form (every reachable state, `run_subVerts`) -/
theorem chooseFresh_of_bound (env : Env α) (hT : TriGeom env) (hG : SubGeom env) (hC : ChooseGeom env)
    (hL : ChooseLocal env) (n : Nat) {s : State α} (hv : SubVerts env s)
    (h : Along env (fun t => PointsBound env t ∧ RandFreshAt env t) n s) : ChooseFresh env n s :=
  Along.mono env (subVerts_preserved env hT)
    (fun t hvt hp => ⟨chooseFreshAt_of_bound env hG hC hL hvt hp.1, hp.2⟩) n hv h

end LND
