import AdaptiveProofs.Lemmas.L1DBounds
import Mathlib.Data.List.Dedup

/-!
# Learner1D model: telling is faithful bookkeeping (C10) and the data round trip (C13)

All statements are for arbitrary `lossFn`, `r12`, `nn`, over an arbitrary linearly ordered field,
for op lists of arbitrary length.

* §0  how every operation acts on `data` and `pending`.
* A.1 a re-tell of a known point changes nothing (`tell_known_noop`, `tellPending_known_noop`,
      `foldl_tell_known_noop`, `tellMany_known_noop`; the batch path keeps `data`:
      `tellManyBatch_known_data`).
* A.2 `firstTold`, `data_is_first_told`, `hasData_iff_told`, `data_length_eq_distinct_told`.
* A.3 `told_not_pending*`.
* A.4 `ask_commit_marks_pending`, `pending_stays_step`, `pending_stays_run`.
* A.5 `removeUnfinished_spec`.
* D   `setData_getData`, `setData_getData_data`.
-/
set_option linter.unusedSectionVars false
namespace L1D
variable {α : Type} [Field α] [LinearOrder α] [IsStrictOrderedRing α]
variable (lossFn : List (Option α) → List (Option (List α)) → Loss α) (r12 : α → α)

/-! ## 0. the action of every operation on `data` and `pending` -/

theorem data_of_core {s s' : State α} (h : core s' = core s) : s'.data = s.data := by
  show (core s').data = (core s).data
  rw [h]

theorem pending_of_core {s s' : State α} (h : core s' = core s) : s'.pending = s.pending := by
  show (core s').pending = (core s).pending
  rw [h]

theorem maybeRescale_data (u : State α) : (maybeRescale lossFn r12 u).data = u.data := by
  have hc := core_maybeRescale lossFn r12 u
  split at hc
  · exact (data_of_core hc).trans rfl
  · exact (data_of_core hc).trans rfl

theorem maybeRescale_pending (u : State α) : (maybeRescale lossFn r12 u).pending = u.pending := by
  have hc := core_maybeRescale lossFn r12 u
  split at hc
  · exact (pending_of_core hc).trans rfl
  · exact (pending_of_core hc).trans rfl

theorem hasData_eq (s : State α) (x : α) : hasData s x = (dataGet s.data x).isSome := rfl

/-- `tell` acts on `data` as `dataSet`: it appends `(x, y)` unless `x` is already known -/
theorem tell_data (s : State α) (x : α) (y : List α) :
    (tell lossFn r12 s x y).data = dataSet s.data x y := by
  rw [tell_eq]
  unfold dataSet
  rw [← hasData_eq]
  by_cases h : hasData s x = true
  · rw [if_pos h, if_pos h]
  · rw [if_neg h, if_neg h, maybeRescale_data,
      data_of_core (core_updateLosses lossFn r12 _ _ _)]
    rfl

theorem tell_pending (s : State α) (x : α) (y : List α) :
    (tell lossFn r12 s x y).pending = if hasData s x then s.pending else s.pending.erase x := by
  rw [tell_eq]
  by_cases h : hasData s x = true
  · rw [if_pos h, if_pos h]
  · rw [if_neg h, if_neg h, maybeRescale_pending,
      pending_of_core (core_updateLosses lossFn r12 _ _ _)]
    rfl

theorem tellPending_data (s : State α) (x : α) : (tellPending lossFn r12 s x).data = s.data := by
  have hc := core_tellPending lossFn r12 s x
  split at hc
  · exact (data_of_core hc).trans rfl
  · exact (data_of_core hc).trans rfl

theorem tellPending_pending (s : State α) (x : α) :
    (tellPending lossFn r12 s x).pending =
      if hasData s x then s.pending else if x ∈ s.pending then s.pending else x :: s.pending := by
  have hc := core_tellPending lossFn r12 s x
  by_cases h : hasData s x = true
  · rw [if_pos h] at hc ⊢; exact pending_of_core hc
  · rw [if_neg h] at hc ⊢; exact (pending_of_core hc).trans rfl

theorem foldl_tellPending_data (pts : List α) (s : State α) :
    (pts.foldl (tellPending lossFn r12) s).data = s.data := by
  induction pts generalizing s with
  | nil => rfl
  | cons p ps ih => rw [List.foldl_cons, ih, tellPending_data]

theorem ask_data (s : State α) (n : Nat) (c : Bool) : (ask lossFn r12 s n c).2.data = s.data := by
  unfold ask
  dsimp only
  split
  · exact foldl_tellPending_data lossFn r12 _ _
  · rfl

theorem foldl_tell_data (pts : List (α × List α)) (s : State α) :
    (pts.foldl (fun s kv => tell lossFn r12 s kv.1 kv.2) s).data =
      pts.foldl (fun d kv => dataSet d kv.1 kv.2) s.data := by
  induction pts generalizing s with
  | nil => rfl
  | cons p ps ih => rw [List.foldl_cons, List.foldl_cons, ih, tell_data]

theorem tellManyBatch_data (s : State α) (pts : List (α × List α)) :
    (tellManyBatch lossFn r12 s pts).data = pts.foldl (fun d kv => dataSet d kv.1 kv.2) s.data :=
  data_of_core (core_tellManyBatch lossFn r12 s pts)

theorem tellManyBatch_pending (s : State α) (pts : List (α × List α)) :
    (tellManyBatch lossFn r12 s pts).pending =
      s.pending.filter (fun p => !(pts.any (fun kv => decide (kv.1 = p)))) :=
  pending_of_core (core_tellManyBatch lossFn r12 s pts)

/-- both paths of `tell_many` act on `data` in the same way -/
theorem tellMany_data (s : State α) (pts : List (α × List α)) (force : Bool) :
    (tellMany lossFn r12 s pts force).data = pts.foldl (fun d kv => dataSet d kv.1 kv.2) s.data := by
  unfold tellMany
  split
  · exact foldl_tell_data lossFn r12 pts s
  · exact tellManyBatch_data lossFn r12 s pts

/-! ## A.1 a re-tell of a known point changes nothing -/

/-- telling a point that already has a value — with the same or a different value — leaves the
whole state unchanged -/
theorem tell_known_noop {s : State α} {x : α} (y : List α) (h : hasData s x = true) :
    tell lossFn r12 s x y = s := by
  unfold tell
  rw [if_pos h]

theorem tellPending_known_noop {s : State α} {x : α} (h : hasData s x = true) :
    tellPending lossFn r12 s x = s := by
  unfold tellPending
  rw [if_pos h]

theorem foldl_tell_known_noop {s : State α} (pts : List (α × List α))
    (h : ∀ kv ∈ pts, hasData s kv.1 = true) :
    pts.foldl (fun s kv => tell lossFn r12 s kv.1 kv.2) s = s := by
  induction pts with
  | nil => rfl
  | cons p ps ih =>
    rw [List.foldl_cons, tell_known_noop lossFn r12 p.2 (h p List.mem_cons_self)]
    exact ih (fun kv hkv => h kv (List.mem_cons_of_mem _ hkv))

/-- the loop path of `tell_many` (not forced, and not "more than two points and more than half of
the data") on known points leaves the whole state unchanged -/
theorem tellMany_known_noop {s : State α} (pts : List (α × List α))
    (hpath : ¬ (s.data.length < 2 * pts.length ∧ 2 < pts.length))
    (h : ∀ kv ∈ pts, hasData s kv.1 = true) :
    tellMany lossFn r12 s pts false = s := by
  unfold tellMany
  rw [if_pos]
  · exact foldl_tell_known_noop lossFn r12 pts h
  · simp only [Bool.not_false, Bool.true_and, Bool.not_eq_true', Bool.and_eq_false_imp,
      decide_eq_true_eq, decide_eq_false_iff_not]
    intro h1 h2
    exact hpath ⟨h1, h2⟩

theorem dataSet_known {d : List (α × List α)} {x : α} (y : List α)
    (h : (dataGet d x).isSome = true) : dataSet d x y = d := by
  unfold dataSet
  rw [if_pos h]

theorem foldl_dataSet_known (pts : List (α × List α)) {d : List (α × List α)}
    (h : ∀ kv ∈ pts, (dataGet d kv.1).isSome = true) :
    pts.foldl (fun d kv => dataSet d kv.1 kv.2) d = d := by
  induction pts with
  | nil => rfl
  | cons p ps ih =>
    rw [List.foldl_cons, dataSet_known p.2 (h p List.mem_cons_self)]
    exact ih (fun kv hkv => h kv (List.mem_cons_of_mem _ hkv))

/-- the batch path re-derives the loss tables, but on known points it keeps every stored value -/
theorem tellManyBatch_known_data {s : State α} (pts : List (α × List α))
    (h : ∀ kv ∈ pts, hasData s kv.1 = true) :
    (tellManyBatch lossFn r12 s pts).data = s.data := by
  rw [tellManyBatch_data]
  exact foldl_dataSet_known pts h

/-- whichever path `tell_many` takes, on known points it keeps `data` -/
theorem tellMany_known_data {s : State α} (pts : List (α × List α)) (force : Bool)
    (h : ∀ kv ∈ pts, hasData s kv.1 = true) :
    (tellMany lossFn r12 s pts force).data = s.data := by
  rw [tellMany_data]
  exact foldl_dataSet_known pts h

/-! ## A.2 `data` holds the first value told for every abscissa -/

/-- the value of the first `tell x _` / the first occurrence of `x` in a `tellMany` batch along the
op list (`tellsOf op` are the pairs the operation tells; `dataGet` returns the first match) -/
def firstTold : List (Op α) → α → Option (List α)
  | [], _ => none
  | op :: ops, x => (dataGet (tellsOf op) x).or (firstTold ops x)

/-- sanity check of the definition: first `tell` wins, first occurrence in a batch wins -/
example : firstTold [Op.tell (0 : Int) [1], .tellPending 1,
    .tellMany [(0, [2]), (1, [3]), (1, [4])] true, .tell 1 [5]] 1 = some [3] := by decide
example : firstTold [Op.tell (0 : Int) [1], .tellPending 1,
    .tellMany [(0, [2]), (1, [3]), (1, [4])] true, .tell 1 [5]] 0 = some [1] := by decide
example : firstTold [Op.tell (0 : Int) [1], .tellPending 1,
    .tellMany [(0, [2]), (1, [3]), (1, [4])] true, .tell 1 [5]] 2 = none := by decide

/-- all told abscissae along the op list, with repetitions -/
def toldKeys (ops : List (Op α)) : List α := ops.flatMap (fun op => (tellsOf op).map Prod.fst)

theorem dataGet_nil (x : α) : dataGet ([] : List (α × List α)) x = none := rfl

theorem dataGet_append (d e : List (α × List α)) (x : α) :
    dataGet (d ++ e) x = (dataGet d x).or (dataGet e x) := by
  unfold dataGet
  rw [List.find?_append]
  cases d.find? (fun kv => decide (kv.1 = x)) <;> rfl

theorem dataGet_singleton (x z : α) (y : List α) :
    dataGet [(x, y)] z = if x = z then some y else none := by
  unfold dataGet
  by_cases h : x = z
  · simp [h]
  · simp [h]

theorem dataGet_cons (kv : α × List α) (d : List (α × List α)) (x : α) :
    dataGet (kv :: d) x = (dataGet [kv] x).or (dataGet d x) :=
  dataGet_append [kv] d x

/-- `firstTold` is the first match in the concatenation of everything told -/
theorem firstTold_eq_flatMap (ops : List (Op α)) (x : α) :
    firstTold ops x = dataGet (ops.flatMap tellsOf) x := by
  induction ops with
  | nil => rfl
  | cons op ops ih => rw [List.flatMap_cons, dataGet_append, ← ih]; rfl

theorem dataGet_dataSet (d : List (α × List α)) (x z : α) (y : List α) :
    dataGet (dataSet d x y) z = (dataGet d z).or (dataGet [(x, y)] z) := by
  unfold dataSet
  split
  · rename_i h
    rw [dataGet_singleton]
    by_cases hxz : x = z
    · subst hxz
      obtain ⟨v, hv⟩ := Option.isSome_iff_exists.1 h
      rw [hv]; rfl
    · rw [if_neg hxz, Option.or_none]
  · exact dataGet_append d _ z

theorem dataGet_foldl_dataSet (pts : List (α × List α)) (d : List (α × List α)) (z : α) :
    dataGet (pts.foldl (fun d kv => dataSet d kv.1 kv.2) d) z = (dataGet d z).or (dataGet pts z) := by
  induction pts generalizing d with
  | nil => rw [List.foldl_nil, dataGet_nil, Option.or_none]
  | cons p ps ih =>
    rw [List.foldl_cons, ih, dataGet_dataSet, Option.or_assoc, ← dataGet_cons]

/-- how one operation acts on the stored value of `x` -/
theorem dataGet_step (s : State α) (op : Op α) (x : α) :
    dataGet (step lossFn r12 s op).data x = (dataGet s.data x).or (dataGet (tellsOf op) x) := by
  cases op with
  | tell x' y =>
    show dataGet (tell lossFn r12 s x' y).data x = _
    rw [tell_data, dataGet_dataSet]; rfl
  | tellPending x' =>
    show dataGet (tellPending lossFn r12 s x').data x = _
    rw [tellPending_data]
    show _ = (dataGet s.data x).or none
    rw [Option.or_none]
  | tellMany pts f =>
    show dataGet (tellMany lossFn r12 s pts f).data x = _
    rw [tellMany_data, dataGet_foldl_dataSet]; rfl
  | removeUnfinished =>
    show dataGet s.data x = (dataGet s.data x).or none
    rw [Option.or_none]
  | ask n c =>
    show dataGet (ask lossFn r12 s n c).2.data x = (dataGet s.data x).or none
    rw [ask_data, Option.or_none]

/-- from any state: a stored value is kept, otherwise the first value told is stored -/
theorem dataGet_run (ops : List (Op α)) (s : State α) (x : α) :
    dataGet (run lossFn r12 s ops).data x = (dataGet s.data x).or (firstTold ops x) := by
  induction ops generalizing s with
  | nil => show _ = (dataGet s.data x).or none; rw [Option.or_none]; rfl
  | cons op ops ih =>
    show dataGet (run lossFn r12 (step lossFn r12 s op) ops).data x = _
    rw [ih, dataGet_step, Option.or_assoc]; rfl

/-- **C10 / A.2**  In every reachable state (every op list, both `tell_many` paths) the value stored
for `x` is the first value that was told for `x`. -/
theorem data_is_first_told (lo hi factor dxEps : α) (nn : Nat) (ops : List (Op α)) (x : α) :
    dataGet (run lossFn r12 (init lo hi factor dxEps nn) ops).data x = firstTold ops x := by
  rw [dataGet_run]; rfl

theorem dataGet_isSome_iff (d : List (α × List α)) (x : α) :
    (dataGet d x).isSome = true ↔ x ∈ d.map Prod.fst := dataGet_isSome

theorem firstTold_isSome_iff (ops : List (Op α)) (x : α) :
    (firstTold ops x).isSome = true ↔ x ∈ toldKeys ops := by
  rw [firstTold_eq_flatMap, dataGet_isSome_iff, toldKeys, List.map_flatMap]

theorem mem_toldKeys {ops : List (Op α)} {x : α} :
    x ∈ toldKeys ops ↔
      (∃ y, Op.tell x y ∈ ops) ∨ (∃ pts f, Op.tellMany pts f ∈ ops ∧ x ∈ pts.map Prod.fst) := by
  unfold toldKeys
  rw [List.mem_flatMap]
  constructor
  · rintro ⟨op, hop, hx⟩
    cases op with
    | tell x' y =>
      simp only [tellsOf, List.map_cons, List.map_nil, List.mem_singleton] at hx
      subst hx
      exact Or.inl ⟨y, hop⟩
    | tellMany pts f => exact Or.inr ⟨pts, f, hop, hx⟩
    | tellPending x' => simp [tellsOf] at hx
    | removeUnfinished => simp [tellsOf] at hx
    | ask n c => simp [tellsOf] at hx
  · rintro (⟨y, h⟩ | ⟨pts, f, h, hx⟩)
    · exact ⟨_, h, by simp [tellsOf]⟩
    · exact ⟨_, h, hx⟩

/-- a point has data iff it was told at least once -/
theorem hasData_iff_told (lo hi factor dxEps : α) (nn : Nat) (ops : List (Op α)) (x : α) :
    hasData (run lossFn r12 (init lo hi factor dxEps nn) ops) x = true ↔ x ∈ toldKeys ops := by
  rw [hasData_eq, data_is_first_told, firstTold_isSome_iff]

theorem hasData_iff_told' (lo hi factor dxEps : α) (nn : Nat) (ops : List (Op α)) (x : α) :
    hasData (run lossFn r12 (init lo hi factor dxEps nn) ops) x = true ↔
      (∃ y, Op.tell x y ∈ ops) ∨ (∃ pts f, Op.tellMany pts f ∈ ops ∧ x ∈ pts.map Prod.fst) := by
  rw [hasData_iff_told, mem_toldKeys]

/-- the number of stored points is the number of distinct told abscissae -/
theorem data_length_eq_distinct_told (lo hi factor dxEps : α) (nn : Nat) (ops : List (Op α)) :
    (run lossFn r12 (init lo hi factor dxEps nn) ops).data.length = (toldKeys ops).dedup.length := by
  have hI := inv_run lossFn r12 lo hi factor dxEps nn ops
  have hperm : ((run lossFn r12 (init lo hi factor dxEps nn) ops).data.map Prod.fst).Perm
      (toldKeys ops).dedup := by
    rw [List.perm_ext_iff_of_nodup hI.data_nodup (List.nodup_dedup _)]
    intro x
    rw [List.mem_dedup, ← hasData_iff_told lossFn r12 lo hi factor dxEps nn ops x, hasData_eq,
      dataGet_isSome_iff]
  rw [← hperm.length_eq, List.length_map]

/-! ## A.3 a told point is not pending -/

/-- in a state with the structural invariant no pending point has data (`Inv.pend_nodata`) and no
point with data is pending -/
theorem told_not_pending {s : State α} (hI : Inv s) :
    (∀ x ∈ s.pending, hasData s x = false) ∧ (∀ x, hasData s x = true → x ∉ s.pending) := by
  refine ⟨hI.pend_nodata, ?_⟩
  intro x hx hp
  rw [hI.pend_nodata x hp] at hx
  exact Bool.false_ne_true hx

/-- in every reachable state no pending point has data -/
theorem told_not_pending_run (lo hi factor dxEps : α) (nn : Nat) (ops : List (Op α)) :
    let s := run lossFn r12 (init lo hi factor dxEps nn) ops
    (∀ x ∈ s.pending, hasData s x = false) ∧ (∀ x, hasData s x = true → x ∉ s.pending) :=
  told_not_pending (inv_run lossFn r12 lo hi factor dxEps nn ops)

theorem hasData_tell_self (s : State α) (x : α) (y : List α) :
    hasData (tell lossFn r12 s x y) x = true := by
  rw [hasData_eq, tell_data, dataGet_dataSet, dataGet_singleton, if_pos rfl]
  cases dataGet s.data x <;> rfl

theorem hasData_tellMany_mem (s : State α) {pts : List (α × List α)} (force : Bool) {x : α}
    (hx : x ∈ pts.map Prod.fst) : hasData (tellMany lossFn r12 s pts force) x = true := by
  rw [hasData_eq, tellMany_data, dataGet_foldl_dataSet]
  have := (dataGet_isSome_iff pts x).2 hx
  obtain ⟨v, hv⟩ := Option.isSome_iff_exists.1 this
  rw [hv]
  cases dataGet s.data x <;> rfl

/-- right after `tell x y` the point `x` has data and is not pending -/
theorem tell_not_pending {s : State α} (hI : Inv s) (x : α) (y : List α) :
    hasData (tell lossFn r12 s x y) x = true ∧ x ∉ (tell lossFn r12 s x y).pending :=
  ⟨hasData_tell_self lossFn r12 s x y,
    (told_not_pending (inv_tell lossFn r12 hI x y)).2 x (hasData_tell_self lossFn r12 s x y)⟩

/-- right after a `tell_many` (either path) containing `x`, the point `x` has data and is not
pending -/
theorem tellMany_not_pending {s : State α} (hI : Inv s) {pts : List (α × List α)} (force : Bool)
    {x : α} (hx : x ∈ pts.map Prod.fst) :
    hasData (tellMany lossFn r12 s pts force) x = true ∧
      x ∉ (tellMany lossFn r12 s pts force).pending :=
  ⟨hasData_tellMany_mem lossFn r12 s force hx,
    (told_not_pending (inv_tellMany lossFn r12 hI pts force)).2 x
      (hasData_tellMany_mem lossFn r12 s force hx)⟩

/-- once told, a point never becomes pending again, whatever follows -/
theorem told_never_pending {s : State α} (hI : Inv s) {x : α} (hx : hasData s x = true)
    (ops : List (Op α)) :
    hasData (run lossFn r12 s ops) x = true ∧ x ∉ (run lossFn r12 s ops).pending := by
  have h1 : hasData (run lossFn r12 s ops) x = true := by
    rw [hasData_eq, dataGet_run]
    obtain ⟨v, hv⟩ := Option.isSome_iff_exists.1 hx
    rw [hv]; rfl
  exact ⟨h1, (told_not_pending (inv_run_of lossFn r12 hI ops)).2 x h1⟩

/-! ## A.4 a committing `ask` marks its points pending, and they stay pending -/

theorem mem_foldl_tellPending_pending (pts : List α) (s : State α) (z : α) :
    z ∈ (pts.foldl (tellPending lossFn r12) s).pending ↔
      z ∈ s.pending ∨ (z ∈ pts ∧ hasData s z = false) := by
  induction pts generalizing s with
  | nil => simp
  | cons p ps ih =>
    rw [List.foldl_cons, ih, tellPending_pending]
    have hd : hasData (tellPending lossFn r12 s p) z = hasData s z := by
      rw [hasData_eq, hasData_eq, tellPending_data]
    rw [hd]
    by_cases hp : hasData s p = true
    · rw [if_pos hp]
      simp only [List.mem_cons]
      constructor
      · rintro (h | ⟨h1, h2⟩)
        · exact Or.inl h
        · exact Or.inr ⟨Or.inr h1, h2⟩
      · rintro (h | ⟨h1 | h1, h2⟩)
        · exact Or.inl h
        · subst h1; rw [hp] at h2; exact absurd h2 (by simp)
        · exact Or.inr ⟨h1, h2⟩
    · rw [if_neg hp]
      have hp' : hasData s p = false := by simpa using hp
      split
      · rename_i hm
        simp only [List.mem_cons]
        constructor
        · rintro (h | ⟨h1, h2⟩)
          · exact Or.inl h
          · exact Or.inr ⟨Or.inr h1, h2⟩
        · rintro (h | ⟨h1 | h1, h2⟩)
          · exact Or.inl h
          · subst h1; exact Or.inl hm
          · exact Or.inr ⟨h1, h2⟩
      · simp only [List.mem_cons]
        constructor
        · rintro ((h | h) | ⟨h1, h2⟩)
          · subst h; exact Or.inr ⟨Or.inl rfl, hp'⟩
          · exact Or.inl h
          · exact Or.inr ⟨Or.inr h1, h2⟩
        · rintro (h | ⟨h1 | h1, h2⟩)
          · exact Or.inl (Or.inr h)
          · exact Or.inl (Or.inl h1)
          · exact Or.inr ⟨h1, h2⟩

/-- what a committing `ask` does to `pending`: exactly the returned points that have no data are
added -/
theorem mem_ask_commit_pending (s : State α) (n : Nat) (z : α) :
    z ∈ (ask lossFn r12 s n true).2.pending ↔
      z ∈ s.pending ∨ (z ∈ (ask lossFn r12 s n true).1.1 ∧ hasData s z = false) :=
  mem_foldl_tellPending_pending lossFn r12 _ s z

/-- the operation neither tells `x` nor is `remove_unfinished` -/
def KeepsPending (x : α) : Op α → Prop
  | .tell x' _ => x' ≠ x
  | .tellPending _ => True
  | .tellMany pts _ => x ∉ pts.map Prod.fst
  | .removeUnfinished => False
  | .ask _ _ => True

theorem mem_foldl_tell_pending_of_ne (pts : List (α × List α)) {s : State α} {x : α}
    (hx : x ∈ s.pending) (hne : x ∉ pts.map Prod.fst) :
    x ∈ (pts.foldl (fun s kv => tell lossFn r12 s kv.1 kv.2) s).pending := by
  induction pts generalizing s with
  | nil => exact hx
  | cons p ps ih =>
    rw [List.map_cons, List.mem_cons, not_or] at hne
    rw [List.foldl_cons]
    apply ih _ hne.2
    rw [tell_pending]
    split
    · exact hx
    · exact (List.mem_erase_of_ne hne.1).2 hx

/-- a pending point stays pending under `tell` / `tell_many` of other points, under `tell_pending`
and under `ask` -/
theorem pending_stays_step {s : State α} {x : α} (hx : x ∈ s.pending) {op : Op α}
    (hop : KeepsPending x op) : x ∈ (step lossFn r12 s op).pending := by
  cases op with
  | tell x' y =>
    show x ∈ (tell lossFn r12 s x' y).pending
    rw [tell_pending]
    split
    · exact hx
    · exact (List.mem_erase_of_ne (Ne.symm hop)).2 hx
  | tellPending x' =>
    show x ∈ (tellPending lossFn r12 s x').pending
    rw [tellPending_pending]
    split
    · exact hx
    · split
      · exact hx
      · exact List.mem_cons_of_mem _ hx
  | tellMany pts f =>
    show x ∈ (tellMany lossFn r12 s pts f).pending
    unfold tellMany
    split
    · exact mem_foldl_tell_pending_of_ne lossFn r12 pts hx hop
    · rw [tellManyBatch_pending, List.mem_filter]
      refine ⟨hx, ?_⟩
      rw [Bool.not_eq_true', ← Bool.not_eq_true, any_key_iff]
      exact hop
  | removeUnfinished => exact absurd hop id
  | ask n c =>
    show x ∈ (ask lossFn r12 s n c).2.pending
    cases c
    · exact hx
    · exact (mem_ask_commit_pending lossFn r12 s n x).2 (Or.inl hx)

theorem pending_stays_run {s : State α} {x : α} (hx : x ∈ s.pending) (ops : List (Op α))
    (hops : ∀ op ∈ ops, KeepsPending x op) : x ∈ (run lossFn r12 s ops).pending := by
  induction ops generalizing s with
  | nil => exact hx
  | cons op ops ih =>
    exact ih (pending_stays_step lossFn r12 hx (hops op List.mem_cons_self))
      (fun o ho => hops o (List.mem_cons_of_mem _ ho))

/-- **C10 / A.4**  In a state with the structural and the in-bounds invariant (every state reachable
by a valid history: `inv_run`, `binv_run`), every point returned by `ask n true` is pending in the
resulting state, and stays pending along any continuation that neither tells that point nor calls
`remove_unfinished`. -/
theorem ask_commit_marks_pending {s : State α} (hI : Inv s) (hb : BInv s) (n : Nat) :
    ∀ x ∈ (ask lossFn r12 s n true).1.1,
      x ∈ (ask lossFn r12 s n true).2.pending ∧
      ∀ ops : List (Op α), (∀ op ∈ ops, KeepsPending x op) →
        x ∈ (run lossFn r12 (ask lossFn r12 s n true).2 ops).pending := by
  intro x hx
  have hfresh := (ask_props r12 hI hb n).2.1 x hx
  have h1 : x ∈ (ask lossFn r12 s n true).2.pending :=
    (mem_ask_commit_pending lossFn r12 s n x).2 (Or.inr ⟨hx, hfresh.2.2.2.1⟩)
  exact ⟨h1, fun ops hops => pending_stays_run lossFn r12 h1 ops hops⟩

/-- the same along valid histories from `init` -/
theorem ask_commit_marks_pending_run {lo hi : α} (hlt : lo < hi) (factor dxEps : α) (nn : Nat)
    (ops : List (Op α)) (hv : ValidOps lossFn r12 (init lo hi factor dxEps nn) ops) (n : Nat) :
    let s := run lossFn r12 (init lo hi factor dxEps nn) ops
    ∀ x ∈ (ask lossFn r12 s n true).1.1,
      x ∈ (ask lossFn r12 s n true).2.pending ∧
      ∀ ops' : List (Op α), (∀ op ∈ ops', KeepsPending x op) →
        x ∈ (run lossFn r12 (ask lossFn r12 s n true).2 ops').pending := by
  intro s
  obtain ⟨hb, hI⟩ := binv_run lossFn r12 hlt factor dxEps nn ops hv
  exact ask_commit_marks_pending lossFn r12 hI hb n

/-- … until it is told: then it has data and is no longer pending -/
theorem pending_until_told {s : State α} (hI : Inv s) (x : α) (y : List α) :
    x ∉ (tell lossFn r12 s x y).pending := (tell_not_pending lossFn r12 hI x y).2

/-! ## A.5 `remove_unfinished` -/

/-- `remove_unfinished` empties `pending`, makes the combined loss equal the real loss, and keeps
`data` -/
theorem removeUnfinished_spec (s : State α) :
    (removeUnfinished s).pending = [] ∧
    loss (removeUnfinished s) false = loss (removeUnfinished s) true ∧
    (removeUnfinished s).data = s.data ∧
    (∀ x, hasData (removeUnfinished s) x = hasData s x) :=
  ⟨rfl, rfl, rfl, fun _ => rfl⟩

/-! ## D. the data round trip (C13) -/

/-- `_get_data` -/
def getData (s : State α) : List (α × List α) := s.data

/-- `_set_data(data)`: `tell_many(*zip(*data.items()))` -/
def setData (s : State α) (d : List (α × List α)) : State α := tellMany lossFn r12 s d false

/-- **C13 (values)**  Loading the saved data into a fresh learner reproduces the value of every
point (for every state `s`; no invariant is needed because both `tell_many` and the lookup take the
first entry of a key). -/
theorem setData_getData (lo hi factor dxEps : α) (nn : Nat) (s : State α) (x : α) :
    dataGet (setData lossFn r12 (init lo hi factor dxEps nn) (getData s)).data x =
      dataGet s.data x := by
  unfold setData getData
  rw [tellMany_data, dataGet_foldl_dataSet]
  rfl

theorem foldl_dataSet_fresh (pts : List (α × List α)) (d : List (α × List α))
    (h : ((d ++ pts).map Prod.fst).Nodup) :
    pts.foldl (fun d kv => dataSet d kv.1 kv.2) d = d ++ pts := by
  induction pts generalizing d with
  | nil => rw [List.foldl_nil, List.append_nil]
  | cons p ps ih =>
    have hp : dataSet d p.1 p.2 = d ++ [p] := by
      unfold dataSet
      rw [if_neg]
      intro hs
      rw [dataGet_isSome_iff] at hs
      rw [List.map_append, List.nodup_append] at h
      exact h.2.2 p.1 hs p.1 (by simp) rfl
    rw [List.foldl_cons, hp, ih]
    · rw [List.append_assoc]; rfl
    · rw [List.append_assoc]; exact h

/-- **C13 (the dict itself)**  When the keys of `s.data` are distinct (`Inv.data_nodup`, every
reachable state) the restored `data` is the saved one, in the same insertion order. -/
theorem setData_getData_data (lo hi factor dxEps : α) (nn : Nat) {s : State α} (hI : Inv s) :
    (setData lossFn r12 (init lo hi factor dxEps nn) (getData s)).data = s.data := by
  unfold setData getData
  rw [tellMany_data]
  show s.data.foldl (fun d kv => dataSet d kv.1 kv.2) [] = s.data
  rw [foldl_dataSet_fresh s.data [] (by rw [List.nil_append]; exact hI.data_nodup), List.nil_append]

/-- … hence the restored learner knows exactly the same points -/
theorem setData_getData_hasData (lo hi factor dxEps : α) (nn : Nat) (s : State α) (x : α) :
    hasData (setData lossFn r12 (init lo hi factor dxEps nn) (getData s)) x = hasData s x := by
  rw [hasData_eq, hasData_eq, setData_getData]

end L1D
