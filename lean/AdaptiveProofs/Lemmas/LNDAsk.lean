import AdaptiveProofs.Lemmas.LNDKeys
import Mathlib.Order.Defs.LinearOrder
import Mathlib.Order.Basic

/-! `loss()` is the maximum of the table; `ask` hands out the missing corners first (C04). -/
set_option linter.unusedSectionVars false
set_option linter.unusedSimpArgs false
set_option linter.unusedVariables false
namespace LND

section maxof
variable {α : Type} [LinearOrder α]

theorem foldl_max_spec (xs : List α) : ∀ x : α,
    (xs.foldl (fun m y => if m < y then y else m) x) ∈ x :: xs ∧
    ∀ y ∈ x :: xs, y ≤ xs.foldl (fun m y => if m < y then y else m) x := by
  induction xs with
  | nil => intro x; simp
  | cons a xs ih =>
    intro x
    simp only [List.foldl_cons]
    obtain ⟨h1, h2⟩ := ih (if x < a then a else x)
    constructor
    · rcases List.mem_cons.1 h1 with h | h
      · rw [h]; split <;> simp
      · exact List.mem_cons_of_mem _ (List.mem_cons_of_mem _ h)
    · intro y hy
      have hm := h2 (if x < a then a else x) (List.mem_cons_self ..)
      rcases List.mem_cons.1 hy with rfl | hy
      · refine le_trans ?_ hm
        split
        · exact le_of_lt ‹_›
        · exact le_refl _
      · rcases List.mem_cons.1 hy with rfl | hy
        · refine le_trans ?_ hm
          split
          · exact le_refl _
          · exact not_lt.1 ‹_›
        · exact h2 y (List.mem_cons_of_mem _ hy)

theorem maxOf_spec (d : α) (l : List α) (hl : l ≠ []) : maxOf d l ∈ l ∧ ∀ x ∈ l, x ≤ maxOf d l := by
  cases l with
  | nil => exact absurd rfl hl
  | cons x xs => exact foldl_max_spec xs x

end maxof

section bounds
variable {α : Type} [Sub α] [Mul α] [Div α] [LT α] [DecidableLT α]

/-- the corners of the domain that are neither evaluated nor pending, in `_bounds_points` order -/
def missing (env : Env α) (s : State α) : List Pt :=
  env.boundsPts.filter (fun p => !s.data.contains p && !s.pending.contains p)

theorem missingBound_eq (env : Env α) (s : State α) : missingBound env s = (missing env s).head? := by
  unfold missingBound missing
  induction env.boundsPts with
  | nil => rfl
  | cons p ps ih =>
    simp only [List.find?_cons, List.filter_cons]
    cases h : (!s.data.contains p && !s.pending.contains p) <;> simp [ih]

theorem missing_after (env : Env α) (hnd : env.boundsPts.Nodup) {s s1 : State α} {p : Pt} {m : List Pt}
    (hm : missing env s = p :: m) (hd : s1.data = s.data) (hp : s1.pending = addPending s.pending p) :
    missing env s1 = m := by
  have hmem : p ∈ missing env s := by rw [hm]; exact List.mem_cons_self ..
  have hpn : s.pending.contains p = false := by
    simp only [missing, List.mem_filter, Bool.and_eq_true, Bool.not_eq_eq_eq_not, Bool.not_true] at hmem
    exact hmem.2.2
  have hnd' : (missing env s).Nodup := hnd.filter _
  have hpm : p ∉ m := by rw [hm] at hnd'; exact (List.nodup_cons.1 hnd').1
  have e1 : missing env s1 = (missing env s).filter (fun q => decide (q ≠ p)) := by
    unfold missing
    rw [List.filter_filter, hd, hp]
    apply List.filter_congr
    intro q _
    simp only [addPending, hpn, Bool.false_eq_true, if_false]
    by_cases hq : q = p
    · subst hq; simp
    · simp [hq]
  rw [e1, hm, List.filter_cons]
  simp only [ne_eq, not_true_eq_false, decide_false, Bool.false_eq_true, if_false]
  rw [List.filter_eq_self]
  intro q hq
  simp only [decide_eq_true_eq]
  rintro rfl; exact hpm hq

/-- while corners are missing, `ask` returns them, in order, each with improvement `inf` -/
theorem askLoop_bounds_first (env : Env α) (hin : ∀ p ∈ env.boundsPts, env.inside p = true)
    (hnd : env.boundsPts.Nodup) (n : Nat) : ∀ {s s' : State α} {rs : List (Pt × α)},
    askLoop env n s = .ok (rs, s') →
    ∃ rest, rs = ((missing env s).take n).map (fun p => (p, env.inf)) ++ rest := by
  induction n with
  | zero =>
    intro s s' rs h
    simp only [askLoop, Except.ok.injEq, Prod.mk.injEq] at h
    exact ⟨[], by simp [← h.1]⟩
  | succ n ih =>
    intro s s' rs h
    unfold askLoop at h
    split at h
    · exact absurd h (by simp)
    · rename_i r s1 h1
      split at h
      · exact absurd h (by simp)
      · rename_i rs' s2 h2
        simp only [Except.ok.injEq, Prod.mk.injEq] at h
        obtain ⟨hrs, _⟩ := h
        subst hrs
        cases hm : missing env s with
        | nil => exact ⟨r :: rs', by simp⟩
        | cons p m =>
          have hb : missingBound env s = some p := by rw [missingBound_eq, hm]; rfl
          rcases askOne_form env h1 with ⟨p', hp', hr, ht⟩ | ⟨hnone, _⟩
          · rw [hb] at hp'
            simp only [Option.some.injEq] at hp'
            subst hp'
            have hpin : env.inside p = true := by
              apply hin
              have : p ∈ missing env s := by rw [hm]; exact List.mem_cons_self ..
              exact (List.mem_filter.1 this).1
            have hpd : s.data.contains p = false := by
              have : p ∈ missing env s := by rw [hm]; exact List.mem_cons_self ..
              simp only [missing, List.mem_filter, Bool.and_eq_true, Bool.not_eq_eq_eq_not, Bool.not_true] at this
              exact this.2.1
            obtain ⟨fd, _, _, _, fp, _⟩ := tellPending_frame env p none ht
            simp only [hpin, hpd, Bool.not_false, Bool.and_self, if_true] at fp
            have hm1 : missing env s1 = m := missing_after env hnd hm fd fp
            obtain ⟨rest, hrest⟩ := ih h2
            refine ⟨rest, ?_⟩
            rw [hrest, hm1, hr]
            simp [List.take_succ_cons]
          · rw [hb] at hnone; exact absurd hnone (by simp)

theorem askLoop_length (env : Env α) (n : Nat) : ∀ {s s' : State α} {rs : List (Pt × α)},
    askLoop env n s = .ok (rs, s') → rs.length = n := by
  induction n with
  | zero =>
    intro s s' rs h
    simp only [askLoop, Except.ok.injEq, Prod.mk.injEq] at h
    rw [← h.1]; rfl
  | succ n ih =>
    intro s s' rs h
    unfold askLoop at h
    split at h
    · exact absurd h (by simp)
    · rename_i r s1 h1
      split at h
      · exact absurd h (by simp)
      · rename_i rs' s2 h2
        simp only [Except.ok.injEq, Prod.mk.injEq] at h
        rw [← h.1, List.length_cons, ih h2]

theorem missing_fresh (env : Env α) (hnd : env.boundsPts.Nodup) (s : State α) :
    (missing env s).Nodup ∧ ∀ p ∈ missing env s, p ∉ s.data ∧ p ∉ s.pending := by
  refine ⟨hnd.filter _, ?_⟩
  intro p hp
  simp only [missing, List.mem_filter, Bool.and_eq_true, Bool.not_eq_eq_eq_not, Bool.not_true] at hp
  obtain ⟨_, h1, h2⟩ := hp
  constructor
  · intro c; rw [List.contains_iff_mem.2 c] at h1; exact absurd h1 (by simp)
  · intro c; rw [List.contains_iff_mem.2 c] at h2; exact absurd h2 (by simp)

end bounds
end LND
