import AdaptiveModel.L2D
import Mathlib.Data.List.Dedup
import Mathlib.Data.List.Basic

/-!
# Learner2D bookkeeping model (`AdaptiveModel/L2D.lean`): C10 (telling is faithful bookkeeping) and C09 (the non-committing ask)

Everything is proved for ALL oracles (the candidate lists of `_fill_stack`), every `ask` operation of a history carrying
its own oracle, and for every state reachable from `init` by any operation list.

The model follows `Learner2D.ask` after its two repairs (e806eb2, 844d031).  What they make true, for EVERY state and oracle:
* `ask_false_pending` / `ask_false_pending_failed`: a non-committing `ask` leaves `pending_points` exactly as it was (before:
  only for stack keys and candidates that were not pending - `CandsNotPending`);
* `ask_false_failed_noop`: a non-committing `ask` that raises returns the state it was given (before: the stack entries it
  had taken were gone and pending);
* `ask_pending_mono` / `pending_stays_run_any`: no `ask` whatsoever removes a point from the pending set;
* `ask_false_noop` no longer needs "the first `n` stack keys are not pending".
What did NOT change: a non-committing `ask` that returns REWRITES the stack (section F), a committing `ask` that raises
keeps its marks, and the invariant `Inv1` (no stack key pending / evaluated) still needs fresh oracles (`CandsFresh`).
-/
namespace L2D
variable {V L α : Type}

/-- the keys of an `OrderedDict` -/
def keys (l : List (Nat × α)) : List Nat := l.map Prod.fst

/-! ## A. `OrderedDict` / `set` primitives -/

@[simp] theorem keys_nil : keys ([] : List (Nat × α)) = [] := rfl
@[simp] theorem keys_cons (e : Nat × α) (l : List (Nat × α)) : keys (e :: l) = e.1 :: keys l := rfl
@[simp] theorem keys_append (a b : List (Nat × α)) : keys (a ++ b) = keys a ++ keys b := by simp [keys]

theorem mem_keys_of_mem {l : List (Nat × α)} {e : Nat × α} (h : e ∈ l) : e.1 ∈ keys l :=
  List.mem_map_of_mem h

theorem mem_keys_of_mem_take {l : List (Nat × α)} {n q : Nat} (h : q ∈ keys (l.take n)) : q ∈ keys l := by
  obtain ⟨e, he, rfl⟩ := List.mem_map.1 h
  exact mem_keys_of_mem (List.mem_of_mem_take he)

theorem hasKey_iff (l : List (Nat × α)) (k : Nat) : hasKey l k = true ↔ k ∈ keys l := by
  induction l with
  | nil => simp [hasKey]
  | cons e t ih =>
    simp only [hasKey, List.any_cons, Bool.or_eq_true, beq_iff_eq, keys_cons, List.mem_cons] at ih ⊢
    rw [ih]; constructor
    · rintro (h | h); exact Or.inl h.symm; exact Or.inr h
    · rintro (h | h); exact Or.inl h.symm; exact Or.inr h

theorem mem_keys_aset (l : List (Nat × α)) (k : Nat) (v : α) (q : Nat) :
    q ∈ keys (aset l k v) ↔ q = k ∨ q ∈ keys l := by
  induction l with
  | nil => simp [aset]
  | cons e t ih =>
    obtain ⟨k', v'⟩ := e
    simp only [aset]
    split
    · rename_i h; subst h; simp
    · simp only [keys_cons, List.mem_cons, ih]; tauto

theorem keys_aset_of_mem {l : List (Nat × α)} {k : Nat} (v : α) (h : k ∈ keys l) :
    keys (aset l k v) = keys l := by
  induction l with
  | nil => simp at h
  | cons e t ih =>
    obtain ⟨k', v'⟩ := e
    simp only [aset]
    split
    · rename_i h'; subst h'; rfl
    · rename_i h'
      simp only [keys_cons, List.mem_cons] at h
      rcases h with h | h
      · exact absurd h.symm h'
      · simp [ih h]

theorem aset_of_not_mem {l : List (Nat × α)} {k : Nat} (v : α) (h : k ∉ keys l) :
    aset l k v = l ++ [(k, v)] := by
  induction l with
  | nil => rfl
  | cons e t ih =>
    obtain ⟨k', v'⟩ := e
    simp only [keys_cons, List.mem_cons, not_or] at h
    simp only [aset]
    rw [if_neg (fun h' => h.1 h'.symm), ih h.2]; rfl

theorem nodup_keys_aset {l : List (Nat × α)} (h : (keys l).Nodup) (k : Nat) (v : α) :
    (keys (aset l k v)).Nodup := by
  by_cases hk : k ∈ keys l
  · rw [keys_aset_of_mem v hk]; exact h
  · rw [aset_of_not_mem v hk, keys_append]
    exact List.Nodup.append h (by simp [keys]) (by
      intro a ha hb; simp [keys] at hb; subst hb; exact hk ha)

theorem length_aset_ge (l : List (Nat × α)) (k : Nat) (v : α) : l.length ≤ (aset l k v).length := by
  induction l with
  | nil => simp [aset]
  | cons e t ih =>
    obtain ⟨k', v'⟩ := e
    simp only [aset]; split <;> simp [ih]

theorem aget_aset_self (l : List (Nat × α)) (k : Nat) (v : α) : aget (aset l k v) k = some v := by
  induction l with
  | nil => simp [aset, aget]
  | cons e t ih =>
    obtain ⟨k', v'⟩ := e
    simp only [aset]
    split
    · simp [aget]
    · rename_i h; simp [aget, h, ih]

theorem aget_aset_other (l : List (Nat × α)) {k q : Nat} (v : α) (h : q ≠ k) :
    aget (aset l k v) q = aget l q := by
  induction l with
  | nil => simp [aset, aget, Ne.symm h]
  | cons e t ih =>
    obtain ⟨k', v'⟩ := e
    simp only [aset]
    split
    · rename_i h'; subst h'; simp [aget, Ne.symm h]
    · simp [aget, ih]

theorem aget_eq_none_iff (l : List (Nat × α)) (k : Nat) : aget l k = none ↔ k ∉ keys l := by
  induction l with
  | nil => simp [aget]
  | cons e t ih =>
    obtain ⟨k', v'⟩ := e
    simp only [aget, keys_cons, List.mem_cons, not_or]
    split
    · rename_i h; subst h; simp
    · rename_i h; rw [ih]; constructor
      · intro h2; exact ⟨fun h3 => h h3.symm, h2⟩
      · exact fun h2 => h2.2

/-- assigning the value a key already has changes nothing -/
theorem aset_same {l : List (Nat × α)} {k : Nat} {v : α} (h : aget l k = some v) : aset l k v = l := by
  induction l with
  | nil => simp [aget] at h
  | cons e t ih =>
    obtain ⟨k', v'⟩ := e
    simp only [aget] at h
    simp only [aset]
    split
    · rename_i h'; subst h'; simp at h; rw [h]
    · rename_i h'; rw [if_neg h'] at h; rw [ih h]

theorem keys_apop (l : List (Nat × α)) (k : Nat) : keys (apop l k) = (keys l).filter (fun q => q != k) := by
  simp [keys, apop, List.filter_map, Function.comp_def]

theorem mem_keys_apop (l : List (Nat × α)) (k q : Nat) : q ∈ keys (apop l k) ↔ q ∈ keys l ∧ q ≠ k := by
  simp [keys_apop]

theorem nodup_keys_apop {l : List (Nat × α)} (h : (keys l).Nodup) (k : Nat) : (keys (apop l k)).Nodup := by
  rw [keys_apop]; exact h.filter _

theorem apop_of_not_mem {l : List (Nat × α)} {k : Nat} (h : k ∉ keys l) : apop l k = l := by
  unfold apop
  rw [List.filter_eq_self]
  intro e he
  simp only [bne_iff_ne, ne_eq]
  intro h'; exact h (h' ▸ mem_keys_of_mem he)

theorem mem_padd (l : List Nat) (p q : Nat) : q ∈ padd l p ↔ q = p ∨ q ∈ l := by
  unfold padd
  split
  · rename_i h; simp only [List.contains_iff_mem] at h; constructor
    · exact Or.inr
    · rintro (h' | h'); subst h'; exact h; exact h'
  · simp; tauto

theorem nodup_padd {l : List Nat} (h : l.Nodup) (p : Nat) : (padd l p).Nodup := by
  unfold padd
  split
  · exact h
  · rename_i h'
    simp only [List.contains_iff_mem] at h'
    exact List.Nodup.append h (List.nodup_singleton p) (by
      intro a ha hb; simp at hb; subst hb; exact h' ha)

theorem mem_pdiscard (l : List Nat) (p q : Nat) : q ∈ pdiscard l p ↔ q ∈ l ∧ q ≠ p := by
  simp [pdiscard]

theorem nodup_pdiscard {l : List Nat} (h : l.Nodup) (p : Nat) : (pdiscard l p).Nodup := h.filter _

theorem pdiscard_of_not_mem {l : List Nat} {p : Nat} (h : p ∉ l) : pdiscard l p = l := by
  unfold pdiscard
  rw [List.filter_eq_self]
  intro q hq; simp only [bne_iff_ne, ne_eq]; intro h'; exact h (h' ▸ hq)

theorem nodup_keys_ofPairs (l : List (Nat × α)) : (keys (ofPairs l)).Nodup := by
  unfold ofPairs
  suffices ∀ (d : List (Nat × α)), (keys d).Nodup → (keys (l.foldl (fun d e => aset d e.1 e.2) d)).Nodup from
    this [] (by simp)
  induction l with
  | nil => intro d h; exact h
  | cons e t ih => intro d h; exact ih _ (nodup_keys_aset h _ _)

theorem foldl_aset_nodup (l d : List (Nat × α)) (h : (keys (d ++ l)).Nodup) :
    l.foldl (fun d e => aset d e.1 e.2) d = d ++ l := by
  induction l generalizing d with
  | nil => simp
  | cons e t ih =>
    simp only [List.foldl_cons]
    have hk : e.1 ∉ keys d := by
      simp only [keys_append, keys_cons] at h
      have := (List.nodup_append.1 h).2.2
      intro hd; exact this _ hd _ (List.mem_cons_self) rfl
    rw [aset_of_not_mem _ hk, ih]
    · simp
    · simpa using h

/-- `OrderedDict(pairs)` of pairs with distinct keys is the pair list itself -/
theorem ofPairs_nodup {l : List (Nat × α)} (h : (keys l).Nodup) : ofPairs l = l := by
  have := foldl_aset_nodup l [] (by simpa using h)
  simpa [ofPairs] using this

theorem mem_keys_ofPairs (l : List (Nat × α)) (q : Nat) : q ∈ keys (ofPairs l) ↔ q ∈ keys l := by
  unfold ofPairs
  suffices ∀ (d : List (Nat × α)), q ∈ keys (l.foldl (fun d e => aset d e.1 e.2) d) ↔ q ∈ keys d ∨ q ∈ keys l by
    simpa using this []
  induction l with
  | nil => intro d; simp
  | cons e t ih =>
    intro d
    simp only [List.foldl_cons, ih, mem_keys_aset, keys_cons, List.mem_cons]; tauto


/-! ## B. operations, histories, field-wise facts -/

/-- the operations of a history; every `ask` carries the oracle (candidate lists) it runs against -/
inductive Op (V L : Type) where
  | tell (p : Nat) (v : V)
  | tellPending (p : Nat)
  | ask (n : Nat) (commit : Bool) (cands : Oracle V L)
  | removeUnfinished

def step (c : Cfg L) (s : State V L) : Op V L → State V L
  | .tell p v => tell c s p v
  | .tellPending p => tellPending c s p
  | .ask n commit cands => (ask c cands s n commit).1
  | .removeUnfinished => removeUnfinished c s

def run (c : Cfg L) (s : State V L) (ops : List (Op V L)) : State V L := ops.foldl (step c) s

/-- reachable from a fresh learner by any operation list (any oracles) -/
def Reach (c : Cfg L) (s : State V L) : Prop := ∃ ops : List (Op V L), s = run c (init c) ops

@[simp] theorem run_nil (c : Cfg L) (s : State V L) : run c s [] = s := rfl
@[simp] theorem run_cons (c : Cfg L) (s : State V L) (op : Op V L) (ops : List (Op V L)) :
    run c s (op :: ops) = run c (step c s op) ops := rfl
theorem run_append (c : Cfg L) (s : State V L) (a b : List (Op V L)) :
    run c s (a ++ b) = run c (run c s a) b := by simp [run]

/-! ### `tell_pending` -/
@[simp] theorem tellPending_data (c : Cfg L) (s : State V L) (p : Nat) : (tellPending c s p).data = s.data := by
  unfold tellPending; split <;> rfl

theorem tellPendingAll_nil (c : Cfg L) (s : State V L) : tellPendingAll c s [] = s := rfl
theorem tellPendingAll_cons (c : Cfg L) (s : State V L) (e : Nat × L) (t : List (Nat × L)) :
    tellPendingAll c s (e :: t) = tellPendingAll c (tellPending c s e.1) t := rfl

/-- induction principle: a property preserved by `tell_pending` survives `for p in pts: tell_pending(p)` -/
theorem tellPendingAll_induct (c : Cfg L) (Q : State V L → Prop) (h : ∀ s p, Q s → Q (tellPending c s p))
    (s : State V L) (pts : List (Nat × L)) (hs : Q s) : Q (tellPendingAll c s pts) := by
  induction pts generalizing s with
  | nil => exact hs
  | cons e t ih => exact ih _ (h s e.1 hs)

@[simp] theorem tellPendingAll_data (c : Cfg L) (s : State V L) (pts : List (Nat × L)) :
    (tellPendingAll c s pts).data = s.data :=
  tellPendingAll_induct c (fun s' => s'.data = s.data) (fun s' p h => by simp [h]) s pts rfl

theorem mem_pending_tellPending (c : Cfg L) (s : State V L) (p q : Nat) :
    q ∈ (tellPending c s p).pending ↔ q ∈ s.pending ∨ (q = p ∧ c.inB p = true) := by
  unfold tellPending
  split
  · rename_i h; simp [mem_padd, h]; tauto
  · rename_i h; simp [h]

theorem mem_stack_tellPending (c : Cfg L) (s : State V L) (p q : Nat) :
    q ∈ keys (tellPending c s p).stack ↔ q ∈ keys s.stack ∧ ¬ (q = p ∧ c.inB p = true) := by
  unfold tellPending
  split
  · rename_i h; simp [mem_keys_apop, h]
  · rename_i h; simp [h]

theorem mem_pending_tellPendingAll (c : Cfg L) (s : State V L) (pts : List (Nat × L)) (q : Nat) :
    q ∈ (tellPendingAll c s pts).pending ↔ q ∈ s.pending ∨ (q ∈ keys pts ∧ c.inB q = true) := by
  induction pts generalizing s with
  | nil => simp [tellPendingAll_nil]
  | cons e t ih =>
    rw [tellPendingAll_cons, ih, mem_pending_tellPending]
    simp only [keys_cons, List.mem_cons]
    constructor
    · rintro ((h | ⟨h, hb⟩) | h)
      · exact Or.inl h
      · exact Or.inr ⟨Or.inl h, h ▸ hb⟩
      · exact Or.inr ⟨Or.inr h.1, h.2⟩
    · rintro (h | ⟨h | h, hb⟩)
      · exact Or.inl (Or.inl h)
      · exact Or.inl (Or.inr ⟨h, h ▸ hb⟩)
      · exact Or.inr ⟨h, hb⟩

theorem mem_stack_tellPendingAll (c : Cfg L) (s : State V L) (pts : List (Nat × L)) (q : Nat) :
    q ∈ keys (tellPendingAll c s pts).stack ↔ q ∈ keys s.stack ∧ ¬ (q ∈ keys pts ∧ c.inB q = true) := by
  induction pts generalizing s with
  | nil => simp [tellPendingAll_nil]
  | cons e t ih =>
    rw [tellPendingAll_cons, ih, mem_stack_tellPending]
    simp only [keys_cons, List.mem_cons]
    constructor
    · rintro ⟨⟨h1, h2⟩, h3⟩
      refine ⟨h1, ?_⟩
      rintro ⟨h | h, hb⟩
      · exact h2 ⟨h, h ▸ hb⟩
      · exact h3 ⟨h, hb⟩
    · rintro ⟨h1, h2⟩
      exact ⟨⟨h1, fun h => h2 ⟨Or.inl h.1, h.1 ▸ h.2⟩⟩, fun h => h2 ⟨Or.inr h.1, h.2⟩⟩

/-! ### `_fill_stack` -/
theorem fillLoop_new_prefix (till : Nat) (cs st : List (Nat × L)) : (fillLoop till cs st).2 <+: cs := by
  induction cs generalizing st with
  | nil => simp [fillLoop]
  | cons e t ih =>
    simp only [fillLoop]
    split
    · simp [List.prefix_cons_iff]
    · simpa [List.prefix_cons_iff] using ih _

theorem fillLoop_nodup (till : Nat) (cs st : List (Nat × L)) (h : (keys st).Nodup) :
    (keys (fillLoop till cs st).1).Nodup := by
  induction cs generalizing st with
  | nil => simpa [fillLoop] using h
  | cons e t ih =>
    simp only [fillLoop]
    split
    · exact nodup_keys_aset h _ _
    · exact ih _ (nodup_keys_aset h _ _)

/-- the stack after the loop: the old keys and the visited candidates -/
theorem mem_keys_fillLoop (till : Nat) (cs st : List (Nat × L)) (q : Nat) :
    q ∈ keys (fillLoop till cs st).1 ↔ q ∈ keys st ∨ q ∈ keys (fillLoop till cs st).2 := by
  induction cs generalizing st with
  | nil => simp [fillLoop]
  | cons e t ih =>
    simp only [fillLoop]
    split
    · simp [mem_keys_aset]; tauto
    · simp only [ih, mem_keys_aset, keys_cons, List.mem_cons]; tauto

theorem fillStack_some {cands : Oracle V L} {s s1 : State V L} {till : Nat} {new : List (Nat × L)}
    (h : fillStack cands s till = some (s1, new)) :
    s1 = { s with stack := (fillLoop till (cands s.data s.pending) s.stack).1 } ∧
    new = (fillLoop till (cands s.data s.pending) s.stack).2 := by
  unfold fillStack at h
  split at h
  · cases h
  · simp only [Option.some.injEq, Prod.mk.injEq] at h; exact ⟨h.1.symm, h.2.symm⟩


/-! ### the `while n_left > 0` loop of `ask` -/

/-- a state property preserved by `_fill_stack` and `tell_pending` holds after the loop, however it ends -/
theorem askLoop_state_induct (c : Cfg L) (cands : Oracle V L) (Q : State V L → Prop)
    (hfill : ∀ s till s1 new, Q s → fillStack cands s till = some (s1, new) → Q s1)
    (htp : ∀ s p, Q s → Q (tellPending c s p)) :
    ∀ fuel nl s pts, Q s → Q (askLoop c cands fuel nl s pts).1 := by
  intro fuel
  induction fuel with
  | zero => intro nl s pts h; cases nl <;> simpa [askLoop] using h
  | succ fuel ih =>
    intro nl s pts h
    cases nl with
    | zero => simpa [askLoop] using h
    | succ nl =>
      simp only [askLoop]
      split
      · exact h
      · rename_i s1 new hf
        have h1 := hfill _ _ _ _ h hf
        split
        · exact h1
        · exact ih _ _ _ (tellPendingAll_induct c Q htp _ _ h1)

/-- loop invariant principle for the runs of the loop that return -/
theorem askLoop_induct (c : Cfg L) (cands : Oracle V L) (P : Nat → State V L → List (Nat × L) → Prop)
    (hstep : ∀ nl s pts s1 new, P (nl + 1) s pts →
      fillStack cands s (max (nl + 1) c.stackSize) = some (s1, new) → new ≠ [] →
      P (nl + 1 - new.length) (tellPendingAll c s1 (new.take (nl + 1))) (pts ++ new)) :
    ∀ fuel nl s pts s2 pts2, P nl s pts → askLoop c cands fuel nl s pts = (s2, .ok pts2) → P 0 s2 pts2 := by
  intro fuel
  induction fuel with
  | zero =>
    intro nl s pts s2 pts2 h he
    cases nl with
    | zero => simp only [askLoop, Prod.mk.injEq, Outcome.ok.injEq] at he; rw [← he.1, ← he.2]; exact h
    | succ nl => simp [askLoop] at he
  | succ fuel ih =>
    intro nl s pts s2 pts2 h he
    cases nl with
    | zero => simp only [askLoop, Prod.mk.injEq, Outcome.ok.injEq] at he; rw [← he.1, ← he.2]; exact h
    | succ nl =>
      simp only [askLoop] at he
      split at he
      · simp at he
      · rename_i s1 new hf
        split at he
        · simp at he
        · rename_i hne
          exact ih _ _ _ _ _ (hstep _ _ _ _ _ h hf (by simpa using hne)) he

/-- `fuel = n_left` rounds are enough: more fuel changes nothing, so `diverge` is only ever reported for a round
without candidates -/
theorem askLoop_fuel (c : Cfg L) (cands : Oracle V L) :
    ∀ fuel nl (s : State V L) pts, nl ≤ fuel → askLoop c cands (fuel + 1) nl s pts = askLoop c cands fuel nl s pts := by
  intro fuel
  induction fuel with
  | zero => intro nl s pts h; obtain rfl : nl = 0 := by omega
            simp [askLoop]
  | succ fuel ih =>
    intro nl s pts h
    cases nl with
    | zero => simp [askLoop]
    | succ nl =>
      rw [askLoop, askLoop]
      split
      · rfl
      · rename_i s1 new hf
        split
        · rfl
        · rename_i hne
          have : 0 < new.length := by
            cases new with
            | nil => simp at hne
            | cons _ _ => simp
          exact ih _ _ _ (by omega)

theorem askLoop_fuel_ge (c : Cfg L) (cands : Oracle V L) (nl : Nat) (s : State V L) (pts : List (Nat × L)) :
    ∀ k, askLoop c cands (nl + k) nl s pts = askLoop c cands nl nl s pts := by
  intro k
  induction k with
  | zero => rfl
  | succ k ih => rw [← Nat.add_assoc, askLoop_fuel c cands _ _ _ _ (by omega), ih]

/-- with enough fuel the loop reports `diverge` only out of a round in which `_fill_stack` returned no point: the state
of that round is unchanged by the round, so the real `while` loop repeats it for ever -/
theorem askLoop_diverge_iff_empty_round (c : Cfg L) (cands : Oracle V L) :
    ∀ fuel nl (s : State V L) pts s2, nl ≤ fuel → askLoop c cands fuel nl s pts = (s2, .diverge) →
      ∃ till, fillStack cands s2 till = some (s2, []) := by
  intro fuel
  induction fuel with
  | zero => intro nl s pts s2 h he; obtain rfl : nl = 0 := by omega
            simp [askLoop] at he
  | succ fuel ih =>
    intro nl s pts s2 h he
    cases nl with
    | zero => simp [askLoop] at he
    | succ nl =>
      simp only [askLoop] at he
      split at he
      · simp at he
      · rename_i s1 new hf
        split at he
        · rename_i hemp
          simp only [Prod.mk.injEq, and_true] at he
          subst he
          have hnew : new = [] := by simpa using hemp
          subst hnew
          obtain ⟨h1, h2⟩ := fillStack_some hf
          have hs : s1 = s := by
            rw [h1]
            generalize hcs : cands s.data s.pending = cs at h1 h2
            cases cs with
            | nil => simp [fillLoop]
            | cons e t =>
              simp only [fillLoop] at h2
              split at h2 <;> simp at h2
          exact ⟨_, by rw [hs] at hf ⊢; exact hf⟩
        · rename_i hne
          have : 0 < new.length := by
            cases new with
            | nil => simp at hne
            | cons _ _ => simp
          exact ih _ _ _ _ (by omega) he


/-! ## C. `ask`: shape, data, the pending bookkeeping of the loop -/

/-- the three ways the state of `ask` comes about: the state of `askCore` as it is (committing, or the loop cannot make
progress), the `if not tell_pending` block after a loop that returned, the `except` block after a loop that raised -/
theorem ask_fst_cases (c : Cfg L) (cands : Oracle V L) (s : State V L) (n : Nat) (commit : Bool) :
    (ask c cands s n commit).1 = (askCore c cands s n).1 ∨
    (∃ pts, askCore c cands s n = ((askCore c cands s n).1, .ok pts) ∧ commit = false ∧
      (ask c cands s n commit).1 = uncommit c (askCore c cands s n).1 pts n s.pending) ∨
    (askCore c cands s n = ((askCore c cands s n).1, .tooFew) ∧ commit = false ∧
      (ask c cands s n commit).1 = unwind s (askCore c cands s n).1) := by
  unfold ask
  generalize askCore c cands s n = r
  obtain ⟨s2, o⟩ := r
  cases o with
  | ok pts => cases commit <;> simp
  | tooFew => cases commit <;> simp
  | diverge => simp

/-- how `ask` ends is how its loop ends (the answer cut to `n` points) -/
theorem ask_snd (c : Cfg L) (cands : Oracle V L) (s : State V L) (n : Nat) (commit : Bool) :
    (ask c cands s n commit).2 =
      match (askCore c cands s n).2 with
      | .ok pts => .ok (pts.take n)
      | o => o := by
  unfold ask
  generalize askCore c cands s n = r
  obtain ⟨s2, o⟩ := r
  cases o <;> cases commit <;> simp

theorem ask_ok_iff (c : Cfg L) (cands : Oracle V L) (s : State V L) (n : Nat) (commit : Bool) (s' : State V L)
    (ret : List (Nat × L)) :
    ask c cands s n commit = (s', .ok ret) ↔
      ∃ s2 pts, askCore c cands s n = (s2, .ok pts) ∧ ret = pts.take n ∧
        s' = if commit then s2 else uncommit c s2 pts n s.pending := by
  unfold ask
  generalize askCore c cands s n = r
  obtain ⟨s2, o⟩ := r
  cases o with
  | ok pts =>
    cases commit <;> simp <;> constructor <;> (try rintro ⟨h1, h2⟩) <;> simp_all
  | tooFew => cases commit <;> simp
  | diverge => simp

/-- `ask` raises exactly when its loop raises; the state is then the one the loop raised in (committing) or the unwound one -/
theorem ask_tooFew_iff (c : Cfg L) (cands : Oracle V L) (s : State V L) (n : Nat) (commit : Bool) (s' : State V L) :
    ask c cands s n commit = (s', .tooFew) ↔
      ∃ s2, askCore c cands s n = (s2, .tooFew) ∧ s' = if commit then s2 else unwind s s2 := by
  unfold ask
  generalize askCore c cands s n = r
  obtain ⟨s2, o⟩ := r
  cases o with
  | ok pts => cases commit <;> simp
  | tooFew => cases commit <;> simp <;> exact eq_comm
  | diverge => simp

/-- a state property preserved by `_fill_stack` and `tell_pending` holds after `askCore`, however it ends -/
theorem askCore_state_induct (c : Cfg L) (cands : Oracle V L) (Q : State V L → Prop)
    (hfill : ∀ s till s1 new, Q s → fillStack cands s till = some (s1, new) → Q s1)
    (htp : ∀ s p, Q s → Q (tellPending c s p)) (s : State V L) (n : Nat) (h : Q s) :
    Q (askCore c cands s n).1 :=
  askLoop_state_induct c cands Q hfill htp _ _ _ _ (tellPendingAll_induct c Q htp _ _ h)

@[simp] theorem uncommit_data (c : Cfg L) (s : State V L) (pts : List (Nat × L)) (n : Nat) (pd0 : List Nat) :
    (uncommit c s pts n pd0).data = s.data := rfl

@[simp] theorem unwind_data (s0 s : State V L) : (unwind s0 s).data = s.data := rfl
@[simp] theorem unwind_pending (s0 s : State V L) : (unwind s0 s).pending = s0.pending := rfl
@[simp] theorem unwind_stack (s0 s : State V L) : (unwind s0 s).stack = ofPairs s0.stack := rfl

theorem askCore_data (c : Cfg L) (cands : Oracle V L) (s : State V L) (n : Nat) :
    (askCore c cands s n).1.data = s.data :=
  askCore_state_induct c cands (fun s' => s'.data = s.data)
    (fun s0 till s1 new h hf => by rw [(fillStack_some hf).1]; exact h)
    (fun s0 p h => by simpa using h) s n rfl

/-- **C09** `ask` never touches `data` (committing or not, returning or raising) -/
theorem ask_data (c : Cfg L) (cands : Oracle V L) (s : State V L) (n : Nat) (commit : Bool) :
    (ask c cands s n commit).1.data = s.data := by
  have h := askCore_data c cands s n
  rcases ask_fst_cases c cands s n commit with h' | ⟨pts, _, _, h'⟩ | ⟨_, _, h'⟩
  · rw [h', h]
  · rw [h', uncommit_data, h]
  · rw [h', unwind_data, h]

theorem ask_npoints (c : Cfg L) (cands : Oracle V L) (s : State V L) (n : Nat) (commit : Bool) :
    npoints (ask c cands s n commit).1 = npoints s := by
  unfold npoints; rw [ask_data]

/-- **C09** the two flavours of `ask` return the same points and loss improvements (and raise alike) -/
theorem ask_ret_eq (c : Cfg L) (cands : Oracle V L) (s : State V L) (n : Nat) :
    (ask c cands s n false).2 = (ask c cands s n true).2 := by
  unfold ask
  generalize askCore c cands s n = r
  obtain ⟨s2, o⟩ := r
  cases o <;> simp

/-- **C09** a non-committing `ask` that raises `too few points` leaves the learner as it found it: `data` is never touched,
`pending_points` is set back to `was_pending`, `_stack` is re-built from the entries it held when `ask` was called (a stack
with one entry per key - every reachable one: `inv0_reach` - is reproduced entry by entry).  Every oracle. -/
theorem ask_false_failed_noop (c : Cfg L) (cands : Oracle V L) (s : State V L) (n : Nat) (hnd : (keys s.stack).Nodup)
    {s' : State V L} (h : ask c cands s n false = (s', .tooFew)) : s' = s := by
  obtain ⟨s2, hcore, hs'⟩ := (ask_tooFew_iff c cands s n false s').1 h
  simp only [Bool.false_eq_true, if_false] at hs'
  have hd : s2.data = s.data := by have := askCore_data c cands s n; rw [hcore] at this; exact this
  rw [hs']
  unfold unwind
  rw [ofPairs_nodup hnd, hd]

theorem take_append_new {pts new : List (Nat × L)} {nl n : Nat} (h : pts.length + (nl + 1) = n) :
    (pts ++ new).take n = pts ++ new.take (nl + 1) := by
  rw [List.take_append, List.take_of_length_le (by omega)]
  congr 2; omega

theorem tellPendingAll_pending_append (c : Cfg L) (s : State V L) (pts : List (Nat × L)) :
    ∃ extra, (tellPendingAll c s pts).pending = s.pending ++ extra ∧ ∀ q ∈ extra, q ∈ keys pts := by
  induction pts generalizing s with
  | nil => exact ⟨[], by simp [tellPendingAll_nil], by simp⟩
  | cons e t ih =>
    obtain ⟨ex, h1, h2⟩ := ih (tellPending c s e.1)
    rw [tellPendingAll_cons, h1]
    unfold tellPending
    split
    · simp only [padd]
      split
      · exact ⟨ex, rfl, fun q hq => by simp [h2 q hq]⟩
      · refine ⟨e.1 :: ex, by simp, fun q hq => ?_⟩
        simp only [List.mem_cons] at hq
        rcases hq with hq | hq
        · simp [hq]
        · simp [h2 q hq]
    · exact ⟨ex, rfl, fun q hq => by simp [h2 q hq]⟩

/-- … and the marks that `tell_pending` ADDS are points that were not pending -/
theorem tellPendingAll_pending_append_new (c : Cfg L) (s : State V L) (pts : List (Nat × L)) :
    ∃ extra, (tellPendingAll c s pts).pending = s.pending ++ extra ∧ ∀ q ∈ extra, q ∈ keys pts ∧ q ∉ s.pending := by
  induction pts generalizing s with
  | nil => exact ⟨[], by simp [tellPendingAll_nil], by simp⟩
  | cons e t ih =>
    obtain ⟨ex, h1, h2⟩ := ih (tellPending c s e.1)
    rw [tellPendingAll_cons, h1]
    unfold tellPending at h2 ⊢
    split
    · rename_i hb
      simp only [hb, if_true, padd] at h2 ⊢
      split
      · rename_i hc
        simp only [hc, if_true] at h2
        exact ⟨ex, rfl, fun q hq => ⟨by simp [(h2 q hq).1], (h2 q hq).2⟩⟩
      · rename_i hc
        simp only [hc] at h2
        refine ⟨e.1 :: ex, by simp, fun q hq => ?_⟩
        simp only [List.mem_cons] at hq
        rcases hq with hq | hq
        · subst hq; exact ⟨by simp, by simpa using hc⟩
        · exact ⟨by simp [(h2 q hq).1], fun hq' => (h2 q hq).2 (List.mem_append_left _ hq')⟩
    · rename_i hb
      simp only [hb] at h2
      exact ⟨ex, rfl, fun q hq => ⟨by simp [(h2 q hq).1], (h2 q hq).2⟩⟩

theorem foldl_pdiscard_eq_filter (pd : List Nat) (l : List (Nat × L)) :
    l.foldl (fun pd e => pdiscard pd e.1) pd = pd.filter (fun q => !(keys l).contains q) := by
  induction l generalizing pd with
  | nil => simp
  | cons e t ih =>
    simp only [List.foldl_cons]
    rw [ih, pdiscard, List.filter_filter]
    congr 1; funext q
    simp only [keys_cons, List.contains_cons, Bool.not_or]
    by_cases h : q = e.1 <;> simp [h, Bool.and_comm, bne]

theorem mem_foldl_pdiscard (pd : List Nat) (l : List (Nat × L)) (q : Nat) :
    q ∈ l.foldl (fun pd e => pdiscard pd e.1) pd ↔ q ∈ pd ∧ q ∉ keys l := by
  rw [foldl_pdiscard_eq_filter]; simp

/-- the clean-up loop of the repaired `ask`: `for point in points[:n]: if point not in was_pending: discard(point)` -/
theorem foldl_cond_pdiscard_eq_filter (pd0 pd : List Nat) (l : List (Nat × L)) :
    l.foldl (fun pd e => if pd0.contains e.1 then pd else pdiscard pd e.1) pd =
      pd.filter (fun q => !((keys l).contains q && !pd0.contains q)) := by
  induction l generalizing pd with
  | nil => simp
  | cons e t ih =>
    simp only [List.foldl_cons]
    rw [ih]
    by_cases hc : pd0.contains e.1 = true
    · rw [if_pos hc]
      have hc' : e.1 ∈ pd0 := by simpa using hc
      congr 1; funext q
      by_cases h : q = e.1
      · subst h; simp [hc']
      · simp [keys_cons, h]
    · rw [if_neg hc, pdiscard, List.filter_filter]
      have hc' : e.1 ∉ pd0 := by simpa using hc
      congr 1; funext q
      by_cases h : q = e.1
      · subst h; simp [hc']
      · simp [keys_cons, h, bne]

theorem mem_foldl_cond_pdiscard (pd0 pd : List Nat) (l : List (Nat × L)) (q : Nat) :
    q ∈ l.foldl (fun pd e => if pd0.contains e.1 then pd else pdiscard pd e.1) pd ↔
      q ∈ pd ∧ (q ∈ keys l → q ∈ pd0) := by
  rw [foldl_cond_pdiscard_eq_filter]; simp only [List.mem_filter]; simp; intro _; tauto

/-- the marks a non-committing `ask` made are exactly what its clean-up takes back: if the pending list grew by points of `l`
that were not pending before, the clean-up over `l` gives the old list - whatever else `l` contains -/
theorem restore_pending_new {pd pd2 extra : List Nat} {l : List (Nat × L)} (h : pd2 = pd ++ extra)
    (hex : ∀ q ∈ extra, q ∈ keys l ∧ q ∉ pd) :
    l.foldl (fun pd' e => if pd.contains e.1 then pd' else pdiscard pd' e.1) pd2 = pd := by
  rw [foldl_cond_pdiscard_eq_filter, h, List.filter_append]
  have h1 : pd.filter (fun q => !((keys l).contains q && !pd.contains q)) = pd := by
    rw [List.filter_eq_self]
    intro q hq
    simp [hq]
  have h2 : extra.filter (fun q => !((keys l).contains q && !pd.contains q)) = [] := by
    rw [List.filter_eq_nil_iff]
    intro q hq
    simp [(hex q hq).1, (hex q hq).2]
  rw [h1, h2, List.append_nil]

/-- bookkeeping invariant of the loop of `ask n`, for EVERY start state and EVERY oracle: the pending list is the original
one plus points among `points[:n]` that were not pending originally -/
def LoopQ (_c : Cfg L) (n : Nat) (pd0 : List Nat) (nl : Nat) (s : State V L) (pts : List (Nat × L)) : Prop :=
  (0 < nl → pts.length + nl = n) ∧
  (∃ extra, s.pending = pd0 ++ extra ∧ ∀ q ∈ extra, q ∈ keys (pts.take n) ∧ q ∉ pd0)

/-- bookkeeping invariant of the loop of `ask n`, for a start state whose stack keys are not pending and an oracle whose
candidates are not pending: the pending list is the original one plus points among `points[:n]`; no collected point was
pending originally (the third clause is what `Inv1` needs: the rewritten stack holds no pending key; the pending set itself
is restored without these hypotheses - `LoopQ`) -/
def LoopP (_c : Cfg L) (n : Nat) (pd0 : List Nat) (nl : Nat) (s : State V L) (pts : List (Nat × L)) : Prop :=
  (0 < nl → pts.length + nl = n) ∧
  (∃ extra, s.pending = pd0 ++ extra ∧ ∀ q ∈ extra, q ∈ keys (pts.take n)) ∧
  (∀ p ∈ keys pts, p ∉ pd0)

/-- candidates are not pending -/
def CandsNotPending (cands : Oracle V L) : Prop := ∀ d pd e, e ∈ cands d pd → e.1 ∉ pd
/-- candidates have no value yet -/
def CandsNotEvaluated (cands : Oracle V L) : Prop := ∀ d pd e, e ∈ cands d pd → e.1 ∉ keys d
/-- **the explicit hypothesis on the geometry**: the candidate points `_fill_stack` proposes are new - neither pending nor
evaluated.  (The oracle is only ever consulted by `ask` after the stack has been marked pending, so "not on the stack" is
implied for in-bounds points.) -/
def CandsFresh (cands : Oracle V L) : Prop := CandsNotPending cands ∧ CandsNotEvaluated cands

theorem mem_new_of_fillStack {cands : Oracle V L} {s s1 : State V L} {till : Nat} {new : List (Nat × L)}
    (hf : fillStack cands s till = some (s1, new)) {e : Nat × L} (he : e ∈ new) : e ∈ cands s.data s.pending := by
  rw [(fillStack_some hf).2] at he
  exact (fillLoop_new_prefix _ _ _).subset he

theorem key_new_of_fillStack {cands : Oracle V L} {s s1 : State V L} {till : Nat} {new : List (Nat × L)}
    (hf : fillStack cands s till = some (s1, new)) {q : Nat} (hq : q ∈ keys new) :
    ∃ e ∈ cands s.data s.pending, e.1 = q := by
  obtain ⟨e, he, rfl⟩ := List.mem_map.1 hq
  exact ⟨e, mem_new_of_fillStack hf he, rfl⟩

theorem loopP_step (c : Cfg L) (cands : Oracle V L) (hc : CandsNotPending cands) (n : Nat) (pd0 : List Nat)
    (nl : Nat) (s : State V L) (pts : List (Nat × L)) (s1 : State V L) (new : List (Nat × L))
    (h : LoopP c n pd0 (nl + 1) s pts)
    (hf : fillStack cands s (max (nl + 1) c.stackSize) = some (s1, new)) (_hne : new ≠ []) :
    LoopP c n pd0 (nl + 1 - new.length) (tellPendingAll c s1 (new.take (nl + 1))) (pts ++ new) := by
  obtain ⟨hlen, ⟨extra, hpd, hex⟩, hnp⟩ := h
  have hlen := hlen (by omega)
  have hs1 : s1.pending = s.pending := by rw [(fillStack_some hf).1]
  have htake := take_append_new (pts := pts) (new := new) hlen
  refine ⟨fun h0 => by simp only [List.length_append]; omega, ?_, ?_⟩
  · obtain ⟨ex2, h1, h2⟩ := tellPendingAll_pending_append c s1 (new.take (nl + 1))
    refine ⟨extra ++ ex2, by rw [h1, hs1, hpd, List.append_assoc], fun q hq => ?_⟩
    rw [htake, keys_append]
    rcases List.mem_append.1 hq with hq | hq
    · have := hex q hq
      rw [List.take_of_length_le (by omega)] at this
      exact List.mem_append_left _ this
    · exact List.mem_append_right _ (h2 q hq)
  · intro p hp
    rw [keys_append] at hp
    rcases List.mem_append.1 hp with hp | hp
    · exact hnp p hp
    · obtain ⟨e, he, rfl⟩ := key_new_of_fillStack hf hp
      intro hp0
      exact hc _ _ e he (by rw [hpd]; exact List.mem_append_left _ hp0)

theorem loopP_init (c : Cfg L) (s : State V L) (n : Nat) (hs : ∀ p ∈ keys s.stack, p ∉ s.pending) :
    LoopP c n s.pending (n - s.stack.length) (tellPendingAll c s (s.stack.take n)) s.stack := by
  refine ⟨fun h => by omega, ?_, hs⟩
  obtain ⟨ex, h1, h2⟩ := tellPendingAll_pending_append c s (s.stack.take n)
  exact ⟨ex, h1, h2⟩

theorem askCore_loopP (c : Cfg L) (cands : Oracle V L) (hc : CandsNotPending cands) (s : State V L) (n : Nat)
    (hs : ∀ p ∈ keys s.stack, p ∉ s.pending) {s2 : State V L} {pts : List (Nat × L)}
    (h : askCore c cands s n = (s2, .ok pts)) : LoopP c n s.pending 0 s2 pts :=
  askLoop_induct c cands (LoopP c n s.pending) (loopP_step c cands hc n s.pending) _ _ _ _ _ _
    (loopP_init c s n hs) h

theorem loopQ_step (c : Cfg L) (cands : Oracle V L) (n : Nat) (pd0 : List Nat)
    (nl : Nat) (s : State V L) (pts : List (Nat × L)) (s1 : State V L) (new : List (Nat × L))
    (h : LoopQ c n pd0 (nl + 1) s pts)
    (hf : fillStack cands s (max (nl + 1) c.stackSize) = some (s1, new)) (_hne : new ≠ []) :
    LoopQ c n pd0 (nl + 1 - new.length) (tellPendingAll c s1 (new.take (nl + 1))) (pts ++ new) := by
  obtain ⟨hlen, extra, hpd, hex⟩ := h
  have hlen := hlen (by omega)
  have hs1 : s1.pending = s.pending := by rw [(fillStack_some hf).1]
  have htake := take_append_new (pts := pts) (new := new) hlen
  refine ⟨fun h0 => by simp only [List.length_append]; omega, ?_⟩
  obtain ⟨ex2, h1, h2⟩ := tellPendingAll_pending_append_new c s1 (new.take (nl + 1))
  refine ⟨extra ++ ex2, by rw [h1, hs1, hpd, List.append_assoc], fun q hq => ?_⟩
  rw [htake, keys_append]
  rcases List.mem_append.1 hq with hq | hq
  · have := (hex q hq).1
    rw [List.take_of_length_le (by omega)] at this
    exact ⟨List.mem_append_left _ this, (hex q hq).2⟩
  · refine ⟨List.mem_append_right _ (h2 q hq).1, fun hq0 => (h2 q hq).2 ?_⟩
    rw [hs1, hpd]; exact List.mem_append_left _ hq0

theorem loopQ_init (c : Cfg L) (s : State V L) (n : Nat) :
    LoopQ c n s.pending (n - s.stack.length) (tellPendingAll c s (s.stack.take n)) s.stack := by
  refine ⟨fun h => by omega, ?_⟩
  obtain ⟨ex, h1, h2⟩ := tellPendingAll_pending_append_new c s (s.stack.take n)
  exact ⟨ex, h1, h2⟩

theorem askCore_loopQ (c : Cfg L) (cands : Oracle V L) (s : State V L) (n : Nat)
    {s2 : State V L} {pts : List (Nat × L)}
    (h : askCore c cands s n = (s2, .ok pts)) : LoopQ c n s.pending 0 s2 pts :=
  askLoop_induct c cands (LoopQ c n s.pending) (loopQ_step c cands n s.pending) _ _ _ _ _ _
    (loopQ_init c s n) h

/-- the `if not tell_pending` block gives back the pending list `ask` was called with: every state, every oracle -/
theorem uncommit_pending_of_core (c : Cfg L) (cands : Oracle V L) (s : State V L) (n : Nat) {s2 : State V L}
    {pts : List (Nat × L)} (h : askCore c cands s n = (s2, .ok pts)) :
    (uncommit c s2 pts n s.pending).pending = s.pending := by
  obtain ⟨-, extra, hpd, hex⟩ := askCore_loopQ c cands s n h
  exact restore_pending_new hpd hex

/-- **C09** a non-committing `ask` that returns leaves `pending_points` exactly as it was: EVERY state, EVERY oracle (the
marks the call adds are points of `points[:n]` that were not pending; the clean-up discards exactly those) -/
theorem ask_false_pending (c : Cfg L) (cands : Oracle V L) (s : State V L) (n : Nat)
    {s' : State V L} {ret : List (Nat × L)}
    (h : ask c cands s n false = (s', .ok ret)) : s'.pending = s.pending := by
  obtain ⟨s2, pts, hcore, -, hs'⟩ := (ask_ok_iff c cands s n false s' ret).1 h
  simp only [Bool.false_eq_true, if_false] at hs'
  rw [hs']
  exact uncommit_pending_of_core c cands s n hcore

/-- **C09** … and so does one that raises (`pending_points = was_pending`) -/
theorem ask_false_pending_failed (c : Cfg L) (cands : Oracle V L) (s : State V L) (n : Nat)
    {s' : State V L} (h : ask c cands s n false = (s', .tooFew)) : s'.pending = s.pending := by
  obtain ⟨s2, -, hs'⟩ := (ask_tooFew_iff c cands s n false s').1 h
  simp only [Bool.false_eq_true, if_false] at hs'
  rw [hs']; rfl

/-- **C09/C10** no `ask` - committing or not, returning, raising or stuck, whatever the oracle proposes - takes a point out
of the pending set -/
theorem ask_pending_mono (c : Cfg L) (cands : Oracle V L) (s : State V L) (n : Nat) (commit : Bool) {p : Nat}
    (hp : p ∈ s.pending) : p ∈ (ask c cands s n commit).1.pending := by
  have hcore : p ∈ (askCore c cands s n).1.pending :=
    askCore_state_induct c cands (fun s' => p ∈ s'.pending)
      (fun _ _ _ _ h hf => by rw [(fillStack_some hf).1]; exact h)
      (fun _ q h => (mem_pending_tellPending _ _ _ _).2 (Or.inl h)) s n hp
  rcases ask_fst_cases c cands s n commit with h' | ⟨pts, hcr, _, h'⟩ | ⟨_, _, h'⟩
  · rw [h']; exact hcore
  · rw [h', uncommit_pending_of_core c cands s n hcr]; exact hp
  · rw [h']; exact hp


/-! ## D. invariants of every reachable state -/

/-- holds in every reachable state, whatever the oracles answer -/
structure Inv0 (c : Cfg L) (s : State V L) : Prop where
  pendNodup : s.pending.Nodup
  stackNodup : (keys s.stack).Nodup
  dataNodup : (keys s.data).Nodup
  pendInB : ∀ p ∈ s.pending, c.inB p = true

/-- holds in every state reachable with `CandsFresh` oracles (and fails without: `inv1_needs_fresh`) -/
structure Inv1 (c : Cfg L) (s : State V L) : Prop where
  stackNotPending : ∀ p ∈ keys s.stack, p ∉ s.pending
  stackNotEval : ∀ p ∈ keys s.stack, c.inB p = true → p ∉ keys s.data

theorem foldl_keys_nodup {β : Type} (f : List (Nat × α) → β → List (Nat × α))
    (hf : ∀ st b, (keys st).Nodup → (keys (f st b)).Nodup) (l : List β) (st : List (Nat × α))
    (h : (keys st).Nodup) : (keys (l.foldl f st)).Nodup := by
  induction l generalizing st with
  | nil => exact h
  | cons b t ih => exact ih _ (hf _ _ h)

theorem inv0_init (c : Cfg L) : Inv0 c (init c : State V L) :=
  ⟨by simp [init], foldl_keys_nodup _ (fun st p h => nodup_keys_aset h _ _) _ _ (by simp), by simp [init],
   by simp [init]⟩

theorem inv0_tell {c : Cfg L} {s : State V L} (h : Inv0 c s) (p : Nat) (v : V) : Inv0 c (tell c s p v) := by
  unfold tell
  split
  · exact ⟨nodup_pdiscard h.pendNodup _, nodup_keys_apop h.stackNodup _, nodup_keys_aset h.dataNodup _ _,
      fun q hq => h.pendInB q ((mem_pdiscard _ _ _).1 hq).1⟩
  · exact ⟨h.pendNodup, h.stackNodup, nodup_keys_aset h.dataNodup _ _, h.pendInB⟩

theorem inv0_tellPending {c : Cfg L} {s : State V L} (h : Inv0 c s) (p : Nat) : Inv0 c (tellPending c s p) := by
  unfold tellPending
  split
  · rename_i hp
    refine ⟨nodup_padd h.pendNodup _, nodup_keys_apop h.stackNodup _, h.dataNodup, fun q hq => ?_⟩
    rcases (mem_padd _ _ _).1 hq with rfl | hq
    · exact hp
    · exact h.pendInB q hq
  · exact h

theorem inv0_fillStack {c : Cfg L} {cands : Oracle V L} {s s1 : State V L} {till : Nat} {new : List (Nat × L)}
    (h : Inv0 c s) (hf : fillStack cands s till = some (s1, new)) : Inv0 c s1 := by
  rw [(fillStack_some hf).1]
  exact ⟨h.pendNodup, fillLoop_nodup _ _ _ h.stackNodup, h.dataNodup, h.pendInB⟩

theorem inv0_uncommit {c : Cfg L} {s : State V L} (h : Inv0 c s) (pts : List (Nat × L)) (n : Nat) (pd0 : List Nat) :
    Inv0 c (uncommit c s pts n pd0) := by
  refine ⟨?_, nodup_keys_ofPairs _, h.dataNodup, fun q hq => ?_⟩
  · simp only [uncommit, foldl_cond_pdiscard_eq_filter]; exact h.pendNodup.filter _
  · exact h.pendInB q ((mem_foldl_cond_pdiscard _ _ _ _).1 hq).1

theorem inv0_removeUnfinished {c : Cfg L} {s : State V L} (h : Inv0 c s) : Inv0 c (removeUnfinished c s) :=
  ⟨by simp [removeUnfinished],
   foldl_keys_nodup _ (fun st p hst => by split; exact hst; exact nodup_keys_aset hst _ _) _ _ h.stackNodup,
   h.dataNodup, by simp [removeUnfinished]⟩

theorem inv0_ask {c : Cfg L} {s : State V L} (h : Inv0 c s) (cands : Oracle V L) (n : Nat) (commit : Bool) :
    Inv0 c (ask c cands s n commit).1 := by
  have hcore : Inv0 c (askCore c cands s n).1 :=
    askCore_state_induct c cands (Inv0 c) (fun _ _ _ _ h hf => inv0_fillStack h hf)
      (fun _ p h => inv0_tellPending h p) s n h
  rcases ask_fst_cases c cands s n commit with h' | ⟨pts, _, _, h'⟩ | ⟨_, _, h'⟩
  · rw [h']; exact hcore
  · rw [h']; exact inv0_uncommit hcore _ _ _
  · rw [h']; exact ⟨h.pendNodup, nodup_keys_ofPairs _, hcore.dataNodup, h.pendInB⟩

theorem inv0_step {c : Cfg L} {s : State V L} (h : Inv0 c s) (op : Op V L) : Inv0 c (step c s op) := by
  cases op with
  | tell p v => exact inv0_tell h p v
  | tellPending p => exact inv0_tellPending h p
  | ask n commit cands => exact inv0_ask h cands n commit
  | removeUnfinished => exact inv0_removeUnfinished h

theorem inv0_run {c : Cfg L} {s : State V L} (h : Inv0 c s) (ops : List (Op V L)) : Inv0 c (run c s ops) := by
  induction ops generalizing s with
  | nil => exact h
  | cons op ops ih => exact ih (inv0_step h op)

/-- **C10 invariants, unconditional**: in every reachable state `pending_points` is duplicate free, the stack and `data` have
one entry per key, and only in-bounds points are pending -/
theorem inv0_reach {c : Cfg L} {s : State V L} (h : Reach c s) : Inv0 c s := by
  obtain ⟨ops, rfl⟩ := h; exact inv0_run (inv0_init c) ops

/-! ### the conditional invariant -/

/-- the oracle of an `ask` operation proposes fresh points -/
def OpFresh : Op V L → Prop
  | .ask _ _ cands => CandsFresh cands
  | _ => True

theorem inv1_init (c : Cfg L) : Inv1 c (init c : State V L) := ⟨by simp [init], by simp [init]⟩

theorem inv1_tell {c : Cfg L} {s : State V L} (h : Inv1 c s) (p : Nat) (v : V) : Inv1 c (tell c s p v) := by
  unfold tell
  split
  · refine ⟨fun q hq hq' => ?_, fun q hq hb hd => ?_⟩
    · exact h.stackNotPending q ((mem_keys_apop _ _ _).1 hq).1 ((mem_pdiscard _ _ _).1 hq').1
    · obtain ⟨hq1, hq2⟩ := (mem_keys_apop _ _ _).1 hq
      rcases (mem_keys_aset _ _ _ _).1 hd with hd | hd
      · exact hq2 hd
      · exact h.stackNotEval q hq1 hb hd
  · rename_i hp
    refine ⟨h.stackNotPending, fun q hq hb hd => ?_⟩
    rcases (mem_keys_aset _ _ _ _).1 hd with hd | hd
    · subst hd; exact hp hb
    · exact h.stackNotEval q hq hb hd

theorem inv1_tellPending {c : Cfg L} {s : State V L} (h : Inv1 c s) (p : Nat) : Inv1 c (tellPending c s p) := by
  refine ⟨fun q hq hq' => ?_, fun q hq hb hd => ?_⟩
  · obtain ⟨h1, h2⟩ := (mem_stack_tellPending _ _ _ _).1 hq
    rcases (mem_pending_tellPending _ _ _ _).1 hq' with h3 | h3
    · exact h.stackNotPending q h1 h3
    · exact h2 h3
  · rw [tellPending_data] at hd
    exact h.stackNotEval q ((mem_stack_tellPending _ _ _ _).1 hq).1 hb hd

theorem inv1_fillStack {c : Cfg L} {cands : Oracle V L} (hc : CandsFresh cands) {s s1 : State V L} {till : Nat}
    {new : List (Nat × L)} (h : Inv1 c s) (hf : fillStack cands s till = some (s1, new)) : Inv1 c s1 := by
  have hs1 := (fillStack_some hf).1
  have hnew := (fillStack_some hf).2
  have hk : ∀ q ∈ keys s1.stack, q ∈ keys s.stack ∨ ∃ e ∈ cands s.data s.pending, e.1 = q := by
    intro q hq
    rw [hs1] at hq
    rcases (mem_keys_fillLoop _ _ _ _).1 hq with hq | hq
    · exact Or.inl hq
    · rw [← hnew] at hq; exact Or.inr (key_new_of_fillStack hf hq)
  have hp : s1.pending = s.pending := by rw [hs1]
  have hd : s1.data = s.data := by rw [hs1]
  refine ⟨fun q hq => ?_, fun q hq hb => ?_⟩
  · rw [hp]
    rcases hk q hq with hq | ⟨e, he, rfl⟩
    · exact h.stackNotPending q hq
    · exact hc.1 _ _ e he
  · rw [hd]
    rcases hk q hq with hq | ⟨e, he, rfl⟩
    · exact h.stackNotEval q hq hb
    · exact hc.2 _ _ e he

theorem inv1_removeUnfinished {c : Cfg L} {s : State V L} (h : Inv1 c s) : Inv1 c (removeUnfinished c s) := by
  refine ⟨by simp [removeUnfinished], ?_⟩
  show ∀ p ∈ keys (c.corners.foldl (fun st p => if hasKey s.data p then st else aset st p c.inf) s.stack),
    c.inB p = true → p ∉ keys s.data
  generalize c.corners = l
  have : ∀ st : List (Nat × L), (∀ p ∈ keys st, c.inB p = true → p ∉ keys s.data) →
      ∀ p ∈ keys (l.foldl (fun st p => if hasKey s.data p then st else aset st p c.inf) st),
        c.inB p = true → p ∉ keys s.data := by
    induction l with
    | nil => intro st h; exact h
    | cons a t ih =>
      intro st h
      apply ih
      show ∀ p ∈ keys (if hasKey s.data a = true then st else aset st a c.inf), _
      split
      · exact h
      · rename_i hk
        intro p hp hb
        rcases (mem_keys_aset _ _ _ _).1 hp with rfl | hp
        · rwa [hasKey_iff] at hk
        · exact h p hp hb
  exact this _ h.stackNotEval

/-- the collected points of `ask` have no value (in bounds): they come off the stack or out of a fresh oracle -/
theorem askCore_pts_notEval (c : Cfg L) (cands : Oracle V L) (hc : CandsNotEvaluated cands) (s : State V L) (n : Nat)
    (hs : ∀ p ∈ keys s.stack, c.inB p = true → p ∉ keys s.data) {s2 : State V L} {pts : List (Nat × L)}
    (h : askCore c cands s n = (s2, .ok pts)) : ∀ p ∈ keys pts, c.inB p = true → p ∉ keys s.data := by
  have := askLoop_induct c cands
    (fun _ s' pts => s'.data = s.data ∧ ∀ p ∈ keys pts, c.inB p = true → p ∉ keys s.data)
    (fun nl s0 pts s1 new hP hf _ => by
      refine ⟨by simp [(fillStack_some hf).1, hP.1], fun p hp hb => ?_⟩
      rw [keys_append] at hp
      rcases List.mem_append.1 hp with hp | hp
      · exact hP.2 p hp hb
      · obtain ⟨e, he, rfl⟩ := key_new_of_fillStack hf hp
        rw [← hP.1]; exact hc _ _ e he)
    _ _ _ _ _ _ ⟨by simp, hs⟩ h
  exact this.2

theorem inv1_ask {c : Cfg L} {s : State V L} (h : Inv1 c s) (cands : Oracle V L) (hc : CandsFresh cands) (n : Nat)
    (commit : Bool) : Inv1 c (ask c cands s n commit).1 := by
  have hcore : Inv1 c (askCore c cands s n).1 :=
    askCore_state_induct c cands (Inv1 c) (fun _ _ _ _ h hf => inv1_fillStack hc h hf)
      (fun _ p h => inv1_tellPending h p) s n h
  have hdata := askCore_data c cands s n
  rcases ask_fst_cases c cands s n commit with h' | ⟨pts, hcr, _, h'⟩ | ⟨_, _, h'⟩
  · rw [h']; exact hcore
  · rw [h']
    obtain ⟨-, -, hnp⟩ := askCore_loopP c cands hc.1 s n h.stackNotPending hcr
    have hne := askCore_pts_notEval c cands hc.2 s n h.stackNotEval hcr
    refine ⟨fun q hq hq' => ?_, fun q hq hb => ?_⟩
    · have hq1 : q ∈ keys pts := mem_keys_of_mem_take ((mem_keys_ofPairs _ _).1 hq)
      rw [uncommit_pending_of_core c cands s n hcr] at hq'
      exact hnp q hq1 hq'
    · rw [uncommit_data, hdata]
      exact hne q (mem_keys_of_mem_take ((mem_keys_ofPairs _ _).1 hq)) hb
  · rw [h']
    refine ⟨fun q hq => ?_, fun q hq hb => ?_⟩
    · exact h.stackNotPending q ((mem_keys_ofPairs _ _).1 hq)
    · rw [unwind_data, hdata]
      exact h.stackNotEval q ((mem_keys_ofPairs _ _).1 hq) hb

theorem inv1_step {c : Cfg L} {s : State V L} (h : Inv1 c s) (op : Op V L) (hop : OpFresh op) :
    Inv1 c (step c s op) := by
  cases op with
  | tell p v => exact inv1_tell h p v
  | tellPending p => exact inv1_tellPending h p
  | ask n commit cands => exact inv1_ask h cands hop n commit
  | removeUnfinished => exact inv1_removeUnfinished h

theorem inv1_run {c : Cfg L} {s : State V L} (h : Inv1 c s) (ops : List (Op V L)) (hops : ∀ op ∈ ops, OpFresh op) :
    Inv1 c (run c s ops) := by
  induction ops generalizing s with
  | nil => exact h
  | cons op ops ih =>
    exact ih (inv1_step h op (hops op (List.mem_cons_self))) (fun o ho => hops o (List.mem_cons_of_mem _ ho))

/-- **C10 invariant under `CandsFresh`**: no stack key is pending, no in-bounds stack key is evaluated -/
theorem inv1_reach (c : Cfg L) (ops : List (Op V L)) (hops : ∀ op ∈ ops, OpFresh op) :
    Inv1 c (run c (init c) ops) := inv1_run (inv1_init c) ops hops


/-! ## E. C10: telling is faithful bookkeeping -/

theorem tell_data (c : Cfg L) (s : State V L) (p : Nat) (v : V) : (tell c s p v).data = aset s.data p v := by
  unfold tell; split <;> rfl

/-- **C10** after `tell p v`, `data[p]` is `v` (an earlier value is OVERWRITTEN) and no other entry changed -/
theorem tell_overwrites (c : Cfg L) (s : State V L) (p : Nat) (v : V) :
    aget (tell c s p v).data p = some v ∧ ∀ q, q ≠ p → aget (tell c s p v).data q = aget s.data q := by
  rw [tell_data]; exact ⟨aget_aset_self _ _ _, fun q hq => aget_aset_other _ _ hq⟩

/-- **C10** an in-bounds told point is neither pending nor on the stack -/
theorem tell_inB_clears (c : Cfg L) (s : State V L) (p : Nat) (v : V) (hp : c.inB p = true) :
    p ∉ (tell c s p v).pending ∧ p ∉ keys (tell c s p v).stack := by
  unfold tell; rw [if_pos hp]
  exact ⟨fun h => ((mem_pdiscard _ _ _).1 h).2 rfl, fun h => ((mem_keys_apop _ _ _).1 h).2 rfl⟩

/-- **C10** a point outside the bounds is stored and nothing else happens -/
theorem tell_outside (c : Cfg L) (s : State V L) (p : Nat) (v : V) (hp : c.inB p = false) :
    (tell c s p v).pending = s.pending ∧ (tell c s p v).stack = s.stack := by
  unfold tell; simp [hp]

/-- **C10** a re-tell with the SAME value: `data` (order included) and `npoints` are unchanged; the only effect is the
`discard`/`pop` of the point from the pending set and the stack -/
theorem retell_same (c : Cfg L) (s : State V L) (p : Nat) (v : V) (h : aget s.data p = some v) :
    (tell c s p v).data = s.data ∧ npoints (tell c s p v) = npoints s ∧
    (tell c s p v).pending = (if c.inB p then pdiscard s.pending p else s.pending) ∧
    (tell c s p v).stack = (if c.inB p then apop s.stack p else s.stack) := by
  have hd : (tell c s p v).data = s.data := by rw [tell_data, aset_same h]
  refine ⟨hd, by unfold npoints; rw [hd], ?_, ?_⟩ <;> (unfold tell; split <;> rfl)

/-- … and when the point is neither pending nor on the stack the re-tell changes nothing at all -/
theorem retell_same_noop (c : Cfg L) (s : State V L) (p : Nat) (v : V) (h : aget s.data p = some v)
    (hp : p ∉ s.pending) (hs : p ∉ keys s.stack) : tell c s p v = s := by
  unfold tell
  rw [aset_same h, pdiscard_of_not_mem hp, apop_of_not_mem hs]
  split <;> rfl

/-- a re-tell with another value changes the value only: same keys in the same order, same `npoints` -/
theorem retell_other (c : Cfg L) (s : State V L) (p : Nat) (v : V) (h : p ∈ keys s.data) :
    keys (tell c s p v).data = keys s.data ∧ npoints (tell c s p v) = npoints s := by
  have hk : keys (tell c s p v).data = keys s.data := by rw [tell_data]; exact keys_aset_of_mem v h
  refine ⟨hk, ?_⟩
  have := congrArg List.length hk
  simpa [keys, npoints] using this

/-- the points of the `tell` operations of a history, in order -/
def toldPts : List (Op V L) → List Nat
  | [] => []
  | .tell p _ :: t => p :: toldPts t
  | _ :: t => toldPts t

/-- the value of the last `tell p _` of a history (`start` if there is none) -/
def lastToldFrom (start : Option V) (ops : List (Op V L)) (p : Nat) : Option V :=
  ops.foldl (fun acc op => match op with
    | .tell q v => if q = p then some v else acc
    | _ => acc) start

def lastTold (ops : List (Op V L)) (p : Nat) : Option V := lastToldFrom none ops p

theorem step_data (c : Cfg L) (s : State V L) (op : Op V L) :
    (step c s op).data = match op with
      | .tell p v => aset s.data p v
      | _ => s.data := by
  cases op with
  | tell p v => exact tell_data c s p v
  | tellPending p => exact tellPending_data c s p
  | ask n commit cands => exact ask_data c cands s n commit
  | removeUnfinished => rfl

theorem aget_run (c : Cfg L) (ops : List (Op V L)) (s : State V L) (p : Nat) :
    aget (run c s ops).data p = lastToldFrom (aget s.data p) ops p := by
  induction ops generalizing s with
  | nil => rfl
  | cons op ops ih =>
    rw [run_cons, ih]
    simp only [lastToldFrom, List.foldl_cons]
    congr 1
    rw [step_data]
    cases op with
    | tell q v =>
      by_cases hq : q = p
      · subst hq; simp [aget_aset_self]
      · simp [hq, aget_aset_other _ _ (Ne.symm hq)]
    | tellPending q => rfl
    | ask n commit cands => rfl
    | removeUnfinished => rfl

/-- **C10** for every history (any oracles): `data[p]` is the value told LAST for `p`, `None` if `p` was never told -/
theorem data_is_last_told (c : Cfg L) (ops : List (Op V L)) (p : Nat) :
    aget (run c (init c) ops).data p = lastTold ops p := by
  rw [aget_run]; rfl

theorem mem_keys_run (c : Cfg L) (ops : List (Op V L)) (s : State V L) (p : Nat) :
    p ∈ keys (run c s ops).data ↔ p ∈ keys s.data ∨ p ∈ toldPts ops := by
  induction ops generalizing s with
  | nil => simp [toldPts]
  | cons op ops ih =>
    rw [run_cons, ih, step_data]
    cases op with
    | tell q v => simp only [mem_keys_aset, toldPts, List.mem_cons]; tauto
    | tellPending q => simp [toldPts]
    | ask n commit cands => simp [toldPts]
    | removeUnfinished => simp [toldPts]

/-- **C10** `npoints` is the number of DISTINCT told points -/
theorem npoints_eq_distinct_told (c : Cfg L) (ops : List (Op V L)) :
    npoints (run c (init c) ops) = (toldPts ops).dedup.length := by
  have hnd := (inv0_run (inv0_init c) ops).dataNodup
  have hperm : (keys (run c (init c) ops).data).Perm (toldPts ops).dedup := by
    rw [List.perm_ext_iff_of_nodup hnd (List.nodup_dedup _)]
    intro p
    rw [List.mem_dedup, mem_keys_run]
    simp [init]
  unfold npoints
  rw [← hperm.length_eq, keys, List.length_map]

/-! ### committed points are pending until told -/

/-- `ask` only ever ADDS pending points before the `if not tell_pending` block -/
theorem askCore_pending_mono (c : Cfg L) (cands : Oracle V L) (s : State V L) (n : Nat) {p : Nat}
    (hp : p ∈ s.pending) : p ∈ (askCore c cands s n).1.pending :=
  askCore_state_induct c cands (fun s' => p ∈ s'.pending)
    (fun _ _ _ _ h hf => by rw [(fillStack_some hf).1]; exact h)
    (fun _ q h => (mem_pending_tellPending _ _ _ _).2 (Or.inl h)) s n hp

/-- every in-bounds point among `points[:n]` is pending before the `if not tell_pending` block -/
theorem askCore_marks_pending (c : Cfg L) (cands : Oracle V L) (s : State V L) (n : Nat) {s2 : State V L}
    {pts : List (Nat × L)} (h : askCore c cands s n = (s2, .ok pts)) :
    ∀ q ∈ keys (pts.take n), c.inB q = true → q ∈ s2.pending := by
  have := askLoop_induct c cands
    (fun nl s' pts => (0 < nl → pts.length + nl = n) ∧ ∀ q ∈ keys (pts.take n), c.inB q = true → q ∈ s'.pending)
    (fun nl s0 pts s1 new hP hf _ => by
      have hlen := hP.1 (by omega)
      refine ⟨fun _ => by simp only [List.length_append]; omega, fun q hq hb => ?_⟩
      rw [take_append_new hlen, keys_append] at hq
      rw [mem_pending_tellPendingAll]
      rcases List.mem_append.1 hq with hq | hq
      · left
        rw [(fillStack_some hf).1]
        exact hP.2 q (by rw [List.take_of_length_le (by omega)]; exact hq) hb
      · exact Or.inr ⟨hq, hb⟩)
    _ _ _ _ _ _ ⟨fun _ => by omega, fun q hq hb => (mem_pending_tellPendingAll _ _ _ _).2 (Or.inr ⟨hq, hb⟩)⟩ h
  exact this.2

/-- **C10** every in-bounds point returned by a committing `ask` is pending afterwards -/
theorem ask_commit_marks_pending (c : Cfg L) (cands : Oracle V L) (s : State V L) (n : Nat) {s' : State V L}
    {ret : List (Nat × L)} (h : ask c cands s n true = (s', .ok ret)) :
    ∀ q ∈ keys ret, c.inB q = true → q ∈ s'.pending := by
  obtain ⟨s2, pts, hcore, rfl, hs'⟩ := (ask_ok_iff c cands s n true s' ret).1 h
  simp only [if_true] at hs'
  subst hs'
  exact askCore_marks_pending c cands s n hcore

/-- the operation neither tells `p` nor is `remove_unfinished`, and its oracle (if any) proposes fresh points (needed for
`Inv1` only; for the pending set `KeepsPendingAny` is enough) -/
def KeepsPending (p : Nat) : Op V L → Prop
  | .tell q _ => q ≠ p
  | .removeUnfinished => False
  | .ask _ _ cands => CandsFresh cands
  | _ => True

theorem keepsPending_fresh {p : Nat} {op : Op V L} (h : KeepsPending p op) : OpFresh op := by
  cases op <;> simp_all [KeepsPending, OpFresh]

theorem pending_stays_step {c : Cfg L} {s : State V L} (_hinv : ∀ q ∈ keys s.stack, q ∉ s.pending) {p : Nat}
    (hp : p ∈ s.pending) {op : Op V L} (hop : KeepsPending p op) : p ∈ (step c s op).pending := by
  cases op with
  | tell q v =>
    simp only [step, tell]
    split
    · exact (mem_pdiscard _ _ _).2 ⟨hp, Ne.symm hop⟩
    · exact hp
  | tellPending q => exact (mem_pending_tellPending _ _ _ _).2 (Or.inl hp)
  | removeUnfinished => exact absurd hop id
  | ask n commit cands =>
    exact ask_pending_mono c cands s n commit hp

/-- **C10** a pending point stays pending along every continuation that neither tells it nor calls `remove_unfinished`
(oracles fresh).  Superseded by `pending_stays_run_any`: since the repair of the non-committing `ask` neither the invariant
nor fresh oracles are needed (`Ex.nocommit_ask_keeps_prior_pending`) -/
theorem pending_stays_run {c : Cfg L} {s : State V L} (hinv : Inv1 c s) {p : Nat} (hp : p ∈ s.pending)
    (ops : List (Op V L)) (hops : ∀ op ∈ ops, KeepsPending p op) : p ∈ (run c s ops).pending := by
  induction ops generalizing s with
  | nil => exact hp
  | cons op ops ih =>
    have hop := hops op List.mem_cons_self
    exact ih (inv1_step hinv op (keepsPending_fresh hop)) (pending_stays_step hinv.stackNotPending hp hop)
      (fun o ho => hops o (List.mem_cons_of_mem _ ho))

/-- the operation neither tells `p` nor is `remove_unfinished`; an `ask` is any `ask`, against any oracle -/
def KeepsPendingAny (p : Nat) : Op V L → Prop
  | .tell q _ => q ≠ p
  | .removeUnfinished => False
  | _ => True

theorem keepsPendingAny_of_keepsPending {p : Nat} {op : Op V L} (h : KeepsPending p op) : KeepsPendingAny p op := by
  cases op <;> simp_all [KeepsPending, KeepsPendingAny]

/-- **C10** (after the repair of the non-committing `ask`) a pending point stays pending along EVERY continuation that
neither tells it nor calls `remove_unfinished`: any start state, any oracles - no `ask` takes a mark away that it did not
make (`ask_pending_mono`) -/
theorem pending_stays_run_any {c : Cfg L} {s : State V L} {p : Nat} (hp : p ∈ s.pending)
    (ops : List (Op V L)) (hops : ∀ op ∈ ops, KeepsPendingAny p op) : p ∈ (run c s ops).pending := by
  induction ops generalizing s with
  | nil => exact hp
  | cons op ops ih =>
    have hop := hops op List.mem_cons_self
    refine ih ?_ (fun o ho => hops o (List.mem_cons_of_mem _ ho))
    cases op with
    | tell q v =>
      simp only [step, tell]
      split
      · exact (mem_pdiscard _ _ _).2 ⟨hp, Ne.symm hop⟩
      · exact hp
    | tellPending q => exact (mem_pending_tellPending _ _ _ _).2 (Or.inl hp)
    | removeUnfinished => exact absurd hop id
    | ask n commit cands => exact ask_pending_mono c cands s n commit hp

/-- **C10** `remove_unfinished` empties the pending set, keeps `data`, and every corner without a value is on the stack
at `inf` afterwards -/
theorem removeUnfinished_spec (c : Cfg L) (s : State V L) :
    (removeUnfinished c s).pending = [] ∧ (removeUnfinished c s).data = s.data ∧
    ∀ p ∈ c.corners, p ∉ keys s.data → aget (removeUnfinished c s).stack p = some c.inf := by
  refine ⟨rfl, rfl, ?_⟩
  show ∀ p ∈ c.corners, p ∉ keys s.data →
    aget (c.corners.foldl (fun st p => if hasKey s.data p then st else aset st p c.inf) s.stack) p = some c.inf
  generalize c.corners = l
  generalize s.stack = st
  induction l generalizing st with
  | nil => simp
  | cons a t ih =>
    intro p hp hd
    simp only [List.foldl_cons]
    by_cases hpt : p ∈ t
    · exact ih _ p hpt hd
    · have hpa : p = a := by simpa [hpt] using hp
      subst hpa
      have hk : hasKey s.data p = false := by
        rw [Bool.eq_false_iff]; intro h; exact hd ((hasKey_iff _ _).1 h)
      simp only [hk, Bool.false_eq_true, if_false]
      -- later corners either skip or re-assign `inf`; `p` keeps `inf`
      have : ∀ (t : List Nat) (st : List (Nat × L)), aget st p = some c.inf →
          aget (t.foldl (fun st p => if hasKey s.data p then st else aset st p c.inf) st) p = some c.inf := by
        intro t
        induction t with
        | nil => intro st h; exact h
        | cons b t ih2 =>
          intro st h
          simp only [List.foldl_cons]
          apply ih2
          split
          · exact h
          · by_cases hb : p = b
            · subst hb; exact aget_aset_self _ _ _
            · rw [aget_aset_other _ _ hb]; exact h
      exact this t _ (aget_aset_self _ _ _)


/-! ## F. C09: what a non-committing `ask` does to the private stack (unchanged by the repairs: it still rewrites it) -/

/-- **C09 mechanism** (every oracle, every state): a non-committing `ask` that returns gives the same answer as the
committing one, leaves `data` alone, and REWRITES the stack with `OrderedDict(zip(points[:stack_size], loss_improvements))`
where `points` is the complete list the call collected (old stack, then every `_fill_stack` round) -/
theorem ask_false_vs_true (c : Cfg L) (cands : Oracle V L) (s : State V L) (n : Nat) {s' : State V L}
    {ret : List (Nat × L)} (h : ask c cands s n false = (s', .ok ret)) :
    ∃ s2 pts, askCore c cands s n = (s2, .ok pts) ∧ ask c cands s n true = (s2, .ok ret) ∧ ret = pts.take n ∧
      s'.stack = ofPairs (pts.take c.stackSize) ∧ s'.data = s.data := by
  obtain ⟨s2, pts, hcore, hret, hs'⟩ := (ask_ok_iff c cands s n false s' ret).1 h
  simp only [Bool.false_eq_true, if_false] at hs'
  refine ⟨s2, pts, hcore, ?_, hret, by rw [hs']; rfl, ?_⟩
  · rw [ask_ok_iff]; exact ⟨s2, pts, hcore, hret, by simp⟩
  · have := ask_data c cands s n false; rw [h] at this; exact this

/-- well-behaved geometry: candidates are fresh, pairwise distinct and inside the bounds (the real candidates are clipped
into the bounds) -/
structure CandsGood (c : Cfg L) (cands : Oracle V L) : Prop where
  fresh : CandsFresh cands
  nodup : ∀ d pd, (keys (cands d pd)).Nodup
  inB : ∀ d pd e, e ∈ cands d pd → c.inB e.1 = true

/-- the stack holds distinct in-bounds points none of which is pending -/
structure StackGood (c : Cfg L) (s : State V L) : Prop where
  nodup : (keys s.stack).Nodup
  inB : ∀ p ∈ keys s.stack, c.inB p = true
  notPending : ∀ p ∈ keys s.stack, p ∉ s.pending

theorem fillLoop_fresh (till : Nat) (cs st : List (Nat × L)) (hnd : (keys cs).Nodup)
    (hd : ∀ q ∈ keys cs, q ∉ keys st) : (fillLoop till cs st).1 = st ++ (fillLoop till cs st).2 := by
  induction cs generalizing st with
  | nil => simp [fillLoop]
  | cons e t ih =>
    have he : e.1 ∉ keys st := hd e.1 (by simp)
    simp only [fillLoop, aset_of_not_mem _ he]
    split
    · rfl
    · simp only [keys_cons, List.nodup_cons] at hnd
      rw [ih _ hnd.2]
      · simp
      · intro q hq hq'
        rw [keys_append] at hq'
        rcases List.mem_append.1 hq' with hq' | hq'
        · exact hd q (by simp [hq]) hq'
        · simp [keys] at hq'; subst hq'; exact hnd.1 hq

theorem tellPendingAll_stack_take (c : Cfg L) (st : List (Nat × L)) (hnd : (keys st).Nodup) (k : Nat)
    (hin : ∀ e ∈ st.take k, c.inB e.1 = true) (s : State V L) (hs : s.stack = st) :
    (tellPendingAll c s (st.take k)).stack = st.drop k := by
  induction st generalizing k s with
  | nil => simpa [tellPendingAll_nil] using hs
  | cons e t ih =>
    cases k with
    | zero => simpa [tellPendingAll_nil] using hs
    | succ k =>
      simp only [List.take_succ_cons, List.drop_succ_cons, tellPendingAll_cons]
      simp only [keys_cons, List.nodup_cons] at hnd
      apply ih hnd.2 k (fun e' he' => hin e' (by simp [List.take_succ_cons, he']))
      have hb : c.inB e.1 = true := hin e (by simp [List.take_succ_cons])
      unfold tellPending
      rw [if_pos hb, hs]
      show apop (e :: t) e.1 = t
      have : apop (e :: t) e.1 = apop t e.1 := by simp [apop]
      rw [this, apop_of_not_mem hnd.1]

/-- loop invariant of `ask n` for well-behaved geometry -/
def LoopG (_c : Cfg L) (n nl : Nat) (s : State V L) (pts : List (Nat × L)) : Prop :=
  (0 < nl → s.stack = [] ∧ pts.length + nl = n) ∧ pts = pts.take n ++ s.stack ∧ (keys pts).Nodup ∧
  (∀ p ∈ keys pts, p ∈ s.pending ∨ p ∈ keys s.stack)

theorem loopG_step (c : Cfg L) (cands : Oracle V L) (hc : CandsGood c cands) (n nl : Nat) (s : State V L)
    (pts : List (Nat × L)) (s1 : State V L) (new : List (Nat × L)) (h : LoopG c n (nl + 1) s pts)
    (hf : fillStack cands s (max (nl + 1) c.stackSize) = some (s1, new)) (_hne : new ≠ []) :
    LoopG c n (nl + 1 - new.length) (tellPendingAll c s1 (new.take (nl + 1))) (pts ++ new) := by
  obtain ⟨h0, hsplit, hnd, hmem⟩ := h
  obtain ⟨hst, hlen⟩ := h0 (by omega)
  obtain ⟨hs1, hnew⟩ := fillStack_some hf
  have hpre : new <+: cands s.data s.pending := hnew ▸ fillLoop_new_prefix _ _ _
  have hcnd := hc.nodup s.data s.pending
  have hnewnd : (keys new).Nodup := (hpre.sublist.map Prod.fst).nodup hcnd
  have hs1stack : s1.stack = new := by
    rw [hs1, hnew]
    have := fillLoop_fresh (max (nl + 1) c.stackSize) (cands s.data s.pending) s.stack hcnd (by simp [hst])
    simpa [hst] using this
  have hs1pd : s1.pending = s.pending := by rw [hs1]
  have hstack' : (tellPendingAll c s1 (new.take (nl + 1))).stack = new.drop (nl + 1) :=
    tellPendingAll_stack_take c new hnewnd (nl + 1)
      (fun e he => hc.inB _ _ e (hpre.subset (List.mem_of_mem_take he))) s1 hs1stack
  have htake := take_append_new (pts := pts) (new := new) hlen
  refine ⟨fun hpos => ⟨?_, by simp only [List.length_append]; omega⟩, ?_, ?_, ?_⟩
  · rw [hstack', List.drop_eq_nil_iff]; omega
  · rw [hstack', htake, List.append_assoc, List.take_append_drop]
  · rw [keys_append]
    refine List.Nodup.append hnd hnewnd ?_
    intro a ha hb
    obtain ⟨e, he, rfl⟩ := key_new_of_fillStack hf hb
    rcases hmem _ ha with hp | hp
    · exact hc.fresh.1 _ _ e he hp
    · simp [hst] at hp
  · intro p hp
    rw [keys_append] at hp
    rw [mem_pending_tellPendingAll, hstack', hs1pd]
    rcases List.mem_append.1 hp with hp | hp
    · rcases hmem p hp with hp | hp
      · exact Or.inl (Or.inl hp)
      · simp [hst] at hp
    · have : p ∈ keys (new.take (nl + 1)) ∨ p ∈ keys (new.drop (nl + 1)) := by
        rw [← List.mem_append, ← keys_append, List.take_append_drop]; exact hp
      rcases this with h1 | h1
      · obtain ⟨e, he, rfl⟩ := key_new_of_fillStack hf hp
        exact Or.inl (Or.inr ⟨h1, hc.inB _ _ e he⟩)
      · exact Or.inr h1

theorem loopG_init (c : Cfg L) (s : State V L) (hs : StackGood c s) (n : Nat) :
    LoopG c n (n - s.stack.length) (tellPendingAll c s (s.stack.take n)) s.stack := by
  have hstack : (tellPendingAll c s (s.stack.take n)).stack = s.stack.drop n :=
    tellPendingAll_stack_take c s.stack hs.nodup n
      (fun e he => hs.inB _ (mem_keys_of_mem (List.mem_of_mem_take he))) s rfl
  refine ⟨fun hpos => ⟨?_, by omega⟩, ?_, hs.nodup, fun p hp => ?_⟩
  · rw [hstack, List.drop_eq_nil_iff]; omega
  · rw [hstack, List.take_append_drop]
  · rw [mem_pending_tellPendingAll, hstack]
    have : p ∈ keys (s.stack.take n) ∨ p ∈ keys (s.stack.drop n) := by
      rw [← List.mem_append, ← keys_append, List.take_append_drop]; exact hp
    rcases this with h1 | h1
    · exact Or.inl (Or.inr ⟨h1, hs.inB p hp⟩)
    · exact Or.inr h1

/-- for well-behaved geometry the complete list `ask` collects is (what it returns) ++ (what the committing `ask` leaves
on the stack), without repetition -/
theorem askCore_split (c : Cfg L) (cands : Oracle V L) (hc : CandsGood c cands) (s : State V L) (hs : StackGood c s)
    (n : Nat) {s2 : State V L} {pts : List (Nat × L)} (h : askCore c cands s n = (s2, .ok pts)) :
    pts = pts.take n ++ s2.stack ∧ (keys pts).Nodup := by
  have := askLoop_induct c cands (LoopG c n) (loopG_step c cands hc n) _ _ _ _ _ _ (loopG_init c s hs n) h
  exact ⟨this.2.1, this.2.2.1⟩

/-- **C09 characterisation** (well-behaved geometry): the stack after `ask n false` is exactly the first `stack_size`
entries of (returned points ++ the stack the committing `ask` leaves) -/
theorem ask_false_stack_char (c : Cfg L) (cands : Oracle V L) (hc : CandsGood c cands) (s : State V L)
    (hs : StackGood c s) (n : Nat) {s' : State V L} {ret : List (Nat × L)}
    (h : ask c cands s n false = (s', .ok ret)) :
    ∃ s2, ask c cands s n true = (s2, .ok ret) ∧ s'.stack = (ret ++ s2.stack).take c.stackSize := by
  obtain ⟨s2, pts, hcore, htrue, hret, hstack, -⟩ := ask_false_vs_true c cands s n h
  obtain ⟨hsplit, hnd⟩ := askCore_split c cands hc s hs n hcore
  refine ⟨s2, htrue, ?_⟩
  rw [hstack, hret, ← hsplit]
  exact ofPairs_nodup (((List.take_sublist _ _).map Prod.fst).nodup hnd)

/-- **C09** when the stack already holds the `n` requested entries (and is not longer than `stack_size`) a non-committing
`ask` changes NOTHING: the state it returns is the state it was given - also when some of these entries are pending (the
repaired clean-up keeps what was pending) -/
theorem ask_false_noop (c : Cfg L) (cands : Oracle V L) (s : State V L) (n : Nat) (hn : n ≤ s.stack.length)
    (hk : s.stack.length ≤ c.stackSize) (hnd : (keys s.stack).Nodup) :
    ask c cands s n false = (s, .ok (s.stack.take n)) := by
  have hcore : askCore c cands s n = (tellPendingAll c s (s.stack.take n), .ok s.stack) := by
    unfold askCore
    have : n - s.stack.length = 0 := by omega
    rw [this]; simp [askLoop]
  unfold ask
  rw [hcore]
  simp only [Bool.false_eq_true, if_false, Prod.mk.injEq, and_true]
  obtain ⟨extra, h1, h2⟩ := tellPendingAll_pending_append_new c s (s.stack.take n)
  have hpd := restore_pending_new (l := s.stack.take n) h1 h2
  have hst : ofPairs (s.stack.take c.stackSize) = s.stack := by
    rw [List.take_of_length_le hk]; exact ofPairs_nodup hnd
  have hd := tellPendingAll_data c s (s.stack.take n)
  unfold uncommit
  rw [hpd, hst]
  cases s
  simp_all


/-! ### `StackGood` holds in every state reachable with well-behaved geometry (corners inside the bounds) -/

/-- every stack key is inside the bounds -/
def Inv2 (c : Cfg L) (s : State V L) : Prop := ∀ p ∈ keys s.stack, c.inB p = true

theorem foldl_keys_all {β : Type} (P : Nat → Prop) (f : List (Nat × α) → β → List (Nat × α)) (l : List β)
    (hf : ∀ st b, b ∈ l → (∀ p ∈ keys st, P p) → ∀ p ∈ keys (f st b), P p) (st : List (Nat × α))
    (h : ∀ p ∈ keys st, P p) : ∀ p ∈ keys (l.foldl f st), P p := by
  induction l generalizing st with
  | nil => exact h
  | cons b t ih =>
    exact ih (fun st b' hb' => hf st b' (List.mem_cons_of_mem _ hb')) _ (hf st b List.mem_cons_self h)

/-- the oracle of an `ask` operation is well behaved -/
def OpGood (c : Cfg L) : Op V L → Prop
  | .ask _ _ cands => CandsGood c cands
  | _ => True

theorem opGood_fresh {c : Cfg L} {op : Op V L} (h : OpGood c op) : OpFresh op := by
  cases op <;> simp_all [OpGood, OpFresh]
  exact h.fresh

theorem inv2_init (c : Cfg L) (hcor : ∀ p ∈ c.corners, c.inB p = true) : Inv2 c (init c : State V L) :=
  foldl_keys_all (fun p => c.inB p = true) _ c.corners
    (fun st b hb h p hp => by
      rcases (mem_keys_aset _ _ _ _).1 hp with rfl | hp
      · exact hcor _ hb
      · exact h p hp) [] (by simp)

theorem inv2_tellPending {c : Cfg L} {s : State V L} (h : Inv2 c s) (p : Nat) : Inv2 c (tellPending c s p) :=
  fun q hq => h q ((mem_stack_tellPending _ _ _ _).1 hq).1

theorem inv2_fillStack {c : Cfg L} {cands : Oracle V L} (hc : ∀ d pd e, e ∈ cands d pd → c.inB e.1 = true)
    {s s1 : State V L} {till : Nat} {new : List (Nat × L)} (h : Inv2 c s)
    (hf : fillStack cands s till = some (s1, new)) : Inv2 c s1 := by
  intro q hq
  rw [(fillStack_some hf).1] at hq
  rcases (mem_keys_fillLoop _ _ _ _).1 hq with hq | hq
  · exact h q hq
  · rw [← (fillStack_some hf).2] at hq
    obtain ⟨e, he, rfl⟩ := key_new_of_fillStack hf hq
    exact hc _ _ e he

theorem inv2_step {c : Cfg L} (hcor : ∀ p ∈ c.corners, c.inB p = true) {s : State V L} (h : Inv2 c s) (op : Op V L)
    (hop : OpGood c op) : Inv2 c (step c s op) := by
  cases op with
  | tell p v =>
    simp only [step, tell]
    split
    · exact fun q hq => h q ((mem_keys_apop _ _ _).1 hq).1
    · exact h
  | tellPending p => exact inv2_tellPending h p
  | removeUnfinished =>
    exact foldl_keys_all (fun p => c.inB p = true) _ c.corners
      (fun st b hb hst p hp => by
        by_cases hk : hasKey s.data b = true
        · simp only [hk, if_true] at hp; exact hst p hp
        · simp only [hk] at hp
          rcases (mem_keys_aset _ _ _ _).1 hp with rfl | hp
          · exact hcor _ hb
          · exact hst p hp) s.stack h
  | ask n commit cands =>
    have hcore : Inv2 c (askCore c cands s n).1 :=
      askCore_state_induct c cands (Inv2 c) (fun _ _ _ _ h hf => inv2_fillStack hop.inB h hf)
        (fun _ p h => inv2_tellPending h p) s n h
    show Inv2 c (ask c cands s n commit).1
    rcases ask_fst_cases c cands s n commit with h' | ⟨pts, hcr, _, h'⟩ | ⟨_, _, h'⟩
    · rw [h']; exact hcore
    · rw [h']
      have hpts : ∀ p ∈ keys pts, c.inB p = true :=
        askLoop_induct c cands (fun _ _ pts => ∀ p ∈ keys pts, c.inB p = true)
          (fun nl s0 pts s1 new hP hf _ p hp => by
            rw [keys_append] at hp
            rcases List.mem_append.1 hp with hp | hp
            · exact hP p hp
            · obtain ⟨e, he, rfl⟩ := key_new_of_fillStack hf hp
              exact hop.inB _ _ e he) _ _ _ _ _ _ h hcr
      exact fun q hq => hpts q (mem_keys_of_mem_take ((mem_keys_ofPairs _ _).1 hq))
    · rw [h']; exact fun q hq => h q ((mem_keys_ofPairs _ _).1 hq)

/-- with corners inside the bounds and well-behaved oracles every reachable state is `StackGood` -/
theorem stackGood_reach (c : Cfg L) (hcor : ∀ p ∈ c.corners, c.inB p = true) (ops : List (Op V L))
    (hops : ∀ op ∈ ops, OpGood c op) : StackGood c (run c (init c) ops) := by
  have h2 : Inv2 c (run c (init c) ops) := by
    suffices ∀ s : State V L, Inv2 c s → Inv2 c (run c s ops) from this _ (inv2_init c hcor)
    induction ops with
    | nil => exact fun s h => h
    | cons op ops ih =>
      intro s h
      exact ih (fun o ho => hops o (List.mem_cons_of_mem _ ho)) _ (inv2_step hcor h op (hops op List.mem_cons_self))
  exact ⟨(inv0_run (inv0_init c) ops).stackNodup, h2,
    (inv1_reach c ops (fun op hop => opGood_fresh (hops op hop))).stackNotPending⟩

/-- **C09 characterisation along histories**: corners in bounds, well-behaved geometry throughout -/
theorem ask_false_stack_char_reach (c : Cfg L) (hcor : ∀ p ∈ c.corners, c.inB p = true) (ops : List (Op V L))
    (hops : ∀ op ∈ ops, OpGood c op) (cands : Oracle V L) (hc : CandsGood c cands) (n : Nat) {s' : State V L}
    {ret : List (Nat × L)} (h : ask c cands (run c (init c) ops) n false = (s', .ok ret)) :
    ∃ s2, ask c cands (run c (init c) ops) n true = (s2, .ok ret) ∧
      s'.stack = (ret ++ s2.stack).take c.stackSize :=
  ask_false_stack_char c cands hc _ (stackGood_reach c hcor ops hops) n h

/-! ## G. kernel-checked examples and counterexamples (concrete oracles, `decide`) -/
namespace Ex

/-- four corners `0..3`, everything below 100 in bounds, `inf = 1000`, `stack_size = 10` -/
def cfg : Cfg Nat := { inB := fun p => p < 100, corners := [0, 1, 2, 3], inf := 1000, stackSize := 10 }
/-- the same learner with `stack_size = 2` -/
def cfg2 : Cfg Nat := { cfg with stackSize := 2 }

/-- a fresh learner whose four corners have been asked for (all pending, stack empty) -/
def s4 : State Nat Nat := (ask cfg (fun _ _ => []) (init cfg) 4 true).1

example : s4 = { data := [], pending := [0, 1, 2, 3], stack := [] } := by decide

/-- an oracle that proposes the new point 9 and then the PENDING corner 0 -/
def stale : Oracle Nat Nat := fun _ _ => [(9, 5), (0, 4)]

/-- **counterexample (C10 invariant without `CandsFresh`)**: `_fill_stack` assigns whatever the geometry proposes; a
proposed pending point ends up on the stack while pending -/
theorem inv1_needs_fresh :
    let s := (ask cfg stale s4 1 true).1
    Reach cfg s ∧ 0 ∈ keys s.stack ∧ 0 ∈ s.pending :=
  ⟨⟨[.ask 4 true (fun _ _ => []), .ask 1 true stale], rfl⟩, by decide, by decide⟩

/-- the same for an EVALUATED point: corner 0 has a value and is proposed again -/
theorem inv1_needs_fresh_evaluated :
    let s := (ask cfg stale (tell cfg s4 0 77) 1 true).1
    0 ∈ keys s.stack ∧ 0 ∈ keys s.data ∧ cfg.inB 0 = true := by decide

/-- **regression example (C09/C10 without `CandsFresh`; was the counterexample `nocommit_ask_can_unpend` before the repair
e806eb2)**: point 7 is pending; a NON-committing `ask` whose geometry proposes 7 returns 7 and KEEPS it pending (`if point not
in was_pending: self.pending_points.discard(point)`); before the repair the clean-up discarded it -/
theorem nocommit_ask_keeps_prior_pending :
    let s := tellPending cfg s4 7
    let r := ask cfg (fun _ _ => [(7, 5)]) s 1 false
    7 ∈ s.pending ∧ r.2 = .ok [(7, 5)] ∧ 7 ∈ r.1.pending ∧ r.1.pending = s.pending ∧ r.1.data = s.data := by decide

/-- … also when pending points sit on the stack (an `Inv1`-violating state, reachable with stale oracles: `inv1_needs_fresh`):
the non-committing `ask` takes the pending corner 0 off the stack, returns it, and leaves the pending set as it was -/
example :
    let s := (ask cfg stale s4 1 true).1
    let r := ask cfg stale s 2 false
    s.pending = [0, 1, 2, 3, 9] ∧ s.stack = [(0, 4)] ∧ r.2 = .ok [(0, 4), (9, 5)] ∧ r.1.pending = s.pending := by decide

/-- a well-behaved oracle: two points above everything known -/
def fresh2 : Oracle Nat Nat := fun d pd =>
  let m := (keys d ++ pd).foldl max 0
  [(m + 1, 50), (m + 2, 40)]

theorem le_foldl_max (l : List Nat) (a : Nat) : a ≤ l.foldl max a ∧ ∀ x ∈ l, x ≤ l.foldl max a := by
  induction l generalizing a with
  | nil => simp
  | cons b t ih =>
    simp only [List.foldl_cons, List.mem_cons]
    obtain ⟨h1, h2⟩ := ih (max a b)
    refine ⟨Nat.le_trans (Nat.le_max_left a b) h1, ?_⟩
    rintro x (rfl | hx)
    · exact Nat.le_trans (Nat.le_max_right a x) h1
    · exact h2 x hx

theorem fresh2_fresh : CandsFresh fresh2 := by
  refine ⟨fun d pd e he hp => ?_, fun d pd e he hp => ?_⟩ <;>
  · have hle := (le_foldl_max (keys d ++ pd) 0).2 e.1 (by simp [hp])
    simp only [fresh2, List.mem_cons, List.not_mem_nil, or_false] at he
    rcases he with rfl | rfl <;> simp at hle <;> omega

/-- every point in bounds -/
def cfgAll : Cfg Nat := { cfg with inB := fun _ => true }

theorem fresh2_good : CandsGood cfgAll fresh2 :=
  ⟨fresh2_fresh, fun d pd => by simp [fresh2, keys], fun _ _ _ _ => rfl⟩

/-- the characterisation is not vacuous: a history with well-behaved oracles, then `ask 6 false`: the stack is
(returned ++ stack left by the committing ask)[:stack_size] -/
example :
    let ops : List (Op Nat Nat) := [.ask 5 true fresh2, .tell 0 7, .tell 4 8, .ask 2 false fresh2]
    let s := run cfgAll (init cfgAll) ops
    (∀ op ∈ ops, OpGood cfgAll op) ∧
    (ask cfgAll fresh2 s 6 false).2 = .ok [(5, 40), (6, 50), (7, 40), (8, 50), (9, 40), (10, 50)] ∧
    (ask cfgAll fresh2 s 6 false).1.stack = [(5, 40), (6, 50), (7, 40), (8, 50), (9, 40), (10, 50), (11, 40)] ∧
    (ask cfgAll fresh2 s 6 true).1.stack = [(11, 40)] := by
  refine ⟨fun op hop => ?_, by decide, by decide, by decide⟩
  simp only [List.mem_cons, List.not_mem_nil, or_false] at hop
  rcases hop with rfl | rfl | rfl | rfl <;> first | exact fresh2_good | trivial

/-- **C09 example**: from a fresh learner `ask 5 false` returns the four corners and one new point, leaves `data` and
`pending` alone - and REWRITES the stack: it now also holds the two candidates -/
theorem nocommit_rewrites_stack :
    let r := ask cfg fresh2 (init cfg) 5 false
    r.2 = .ok [(0, 1000), (1, 1000), (2, 1000), (3, 1000), (4, 50)] ∧
    r.1.data = [] ∧ r.1.pending = [] ∧
    (init cfg : State Nat Nat).stack = [(0, 1000), (1, 1000), (2, 1000), (3, 1000)] ∧
    r.1.stack = [(0, 1000), (1, 1000), (2, 1000), (3, 1000), (4, 50), (5, 40)] := by decide

/-- … so LATER ANSWERS DIFFER: tell corner 0, then ask for 4 points.  Without the non-committing `ask` the fourth point
comes from the geometry of the moment (`fresh2` after the tell: point 4 at loss 50 - with the real learner a point computed
from the data INCLUDING the told value); after the non-committing `ask` it is the stale stack entry, and the stale point 5 is
still queued behind it -/
theorem nocommit_changes_later_answers :
    let cur : Oracle Nat Nat := fun _ _ => [(8, 7)]
    (ask cfg cur (tell cfg (init cfg) 0 77) 4 true).2 = .ok [(1, 1000), (2, 1000), (3, 1000), (8, 7)] ∧
    (ask cfg cur (tell cfg (ask cfg fresh2 (init cfg) 5 false).1 0 77) 4 true).2 =
      .ok [(1, 1000), (2, 1000), (3, 1000), (4, 50)] := by decide

/-- **counterexample to "enough entries on the stack ⇒ nothing changes" without the `stack_size` guard**: a stack longer than
`stack_size` (it happens in the real learner: `remove_unfinished` appends the corners to a full stack) is TRUNCATED by
`ask(0, tell_pending=False)`; the dropped corners are then neither on the stack nor pending nor evaluated -/
theorem nocommit_truncates_long_stack :
    let r := ask cfg2 (fun _ _ => []) (init cfg2 : State Nat Nat) 0 false
    r.2 = .ok [] ∧ (init cfg2 : State Nat Nat).stack.length = 4 ∧ r.1.stack = [(0, 1000), (1, 1000)] ∧
    boundsAreDone cfg2 r.1 = false ∧ 3 ∉ keys r.1.stack ∧ 3 ∉ r.1.pending := by decide

/-- the no-op theorem is not vacuous -/
example : ask cfg fresh2 (init cfg) 3 false = (init cfg, .ok [(0, 1000), (1, 1000), (2, 1000)]) :=
  ask_false_noop cfg fresh2 (init cfg) 3 (by decide) (by decide) (by decide)

/-- an oracle without candidates: the loop of `ask` cannot make progress (the real `while n_left > 0` never ends) -/
theorem empty_oracle_diverges : (ask cfg (fun _ _ => []) s4 1 true).2 = .diverge := by decide

/-- **regression example (was `too_few_points_midway` before the repair 844d031)**: fewer than three points known:
`_fill_stack` raises out of `ask`, which has ALREADY marked the stack pending.  The non-committing `ask` takes the marks back
and puts the stack entries back - the state is the state before the call; the committing `ask` keeps marks and shortened
stack, as before -/
theorem too_few_points_unwound :
    let c1 : Cfg Nat := { cfg with corners := [0, 1] }
    let r := ask c1 fresh2 (init c1) 3 false
    let r' := ask c1 fresh2 (init c1) 3 true
    r.2 = .tooFew ∧ r.1 = init c1 ∧ r.1.pending = [] ∧ r.1.stack = [(0, 1000), (1, 1000)] ∧
    r'.2 = .tooFew ∧ r'.1.pending = [0, 1] ∧ r'.1.stack = [] := by decide

/-- the failed-request theorem is not vacuous, and holds with points pending beforehand -/
example :
    let c1 : Cfg Nat := { cfg with corners := [0] }
    let s := tellPending c1 (init c1) 7
    ask c1 fresh2 s 2 false = (s, .tooFew) ∧ s.pending = [7] ∧ s.stack = [(0, 1000)] ∧
    (ask c1 fresh2 s 2 true).1.pending = [7, 0] := by
  intro c1 s
  refine ⟨?_, by decide, by decide, by decide⟩
  have h : (ask c1 fresh2 s 2 false).2 = .tooFew := by decide
  exact Prod.ext (ask_false_failed_noop c1 fresh2 s 2 (by decide) (Prod.ext rfl h)) h

/-- re-tell with another value overwrites; with the same value nothing changes; `npoints` counts distinct points -/
example :
    let s := run cfg (init cfg) [.tell 0 5, .tell 200 6, .tell 0 9, (.tell 0 9 : Op Nat Nat)]
    s.data = [(0, 9), (200, 6)] ∧ npoints s = 2 ∧ s.stack = [(1, 1000), (2, 1000), (3, 1000)] ∧ s.pending = [] := by
  decide

/-- committed points stay pending until told / `remove_unfinished` -/
example :
    let s := (ask cfg fresh2 (init cfg) 5 true).1
    s.pending = [0, 1, 2, 3, 4] ∧ s.stack = [(5, 40)] ∧
    (tell cfg s 4 1).pending = [0, 1, 2, 3] ∧ (removeUnfinished cfg s).pending = [] ∧
    (removeUnfinished cfg (tell cfg s 0 1)).stack = [(5, 40), (1, 1000), (2, 1000), (3, 1000)] := by decide

end Ex

end L2D


/-! # Saving / restoring (C13) and order independence of the bookkeeping (C11)

Model: `getData`, `setData`, `restoreFile`, `getState`, `setState` at the end of `AdaptiveModel/L2D.lean`.  All statements are for
every configuration, every state (reachable or not unless said otherwise), every oracle. -/
namespace L2D
variable {V L α : Type}

/-! ## H. C13: saving / restoring -/

/-- the stack of a fresh learner: the corner points at `inf` (first occurrences, in corner order) -/
def initStack (c : Cfg L) : List (Nat × L) := c.corners.foldl (fun st p => aset st p c.inf) []

@[simp] theorem init_stack (c : Cfg L) : (init c : State V L).stack = initStack c := rfl
@[simp] theorem init_data (c : Cfg L) : (init c : State V L).data = [] := rfl
@[simp] theorem init_pending (c : Cfg L) : (init c : State V L).pending = [] := rfl

/-- the stack of a learner restored from the data `d`: the fresh stack without the points that have a value -/
def cornerStack (c : Cfg L) (d : List (Nat × V)) : List (Nat × L) :=
  (initStack c).filter (fun e => !hasKey d e.1)

theorem setData_loop (d : List (Nat × V)) (l st : List (Nat × L)) :
    l.foldl (fun st e => if hasKey d e.1 then apop st e.1 else st) st =
      st.filter (fun e => !(hasKey d e.1 && (keys l).contains e.1)) := by
  induction l generalizing st with
  | nil => simp
  | cons a t ih =>
    simp only [List.foldl_cons]
    rw [ih]
    by_cases ha : hasKey d a.1 = true
    · simp only [ha, if_true, apop, List.filter_filter]
      apply List.filter_congr
      intro e _
      by_cases hea : e.1 = a.1
      · simp [hea, ha]
      · simp [hea, keys_cons]
    · simp only [ha]
      apply List.filter_congr
      intro e _
      by_cases hea : e.1 = a.1
      · simp [hea, ha]
      · simp [hea, keys_cons]

/-- `_set_data`: exactly the stack entries whose point has a value in the new data are popped -/
theorem setData_stack (c : Cfg L) (s : State V L) (d : List (Nat × V)) :
    (setData c s d).stack = s.stack.filter (fun e => !hasKey d e.1) := by
  show s.stack.foldl (fun st e => if hasKey d e.1 then apop st e.1 else st) s.stack = _
  rw [setData_loop]
  apply List.filter_congr
  intro e he
  have : e.1 ∈ keys s.stack := mem_keys_of_mem he
  simp [this]

@[simp] theorem setData_data (c : Cfg L) (s : State V L) (d : List (Nat × V)) : (setData c s d).data = d := rfl
@[simp] theorem setData_pending (c : Cfg L) (s : State V L) (d : List (Nat × V)) :
    (setData c s d).pending = s.pending := rfl

theorem restoreFile_eq (c : Cfg L) (d : List (Nat × V)) :
    restoreFile c d = { data := d, pending := [], stack := cornerStack c d } := by
  have h := setData_stack c (init c) d
  unfold restoreFile
  cases hs : setData c (init c) d with
  | mk dd pp ss =>
    have h1 : dd = d := by have := setData_data c (init c) d; rw [hs] at this; exact this
    have h2 : pp = [] := by have := setData_pending c (init c) d; rw [hs] at this; exact this
    have h3 : ss = cornerStack c d := by rw [hs] at h; exact h
    rw [h1, h2, h3]

theorem initStack_eq_map (c : Cfg L) (hnd : c.corners.Nodup) : initStack c = c.corners.map (fun p => (p, c.inf)) := by
  have h := foldl_aset_nodup (c.corners.map (fun p => (p, c.inf))) [] (by
    simpa [keys, List.map_map, Function.comp_def] using hnd)
  rw [List.foldl_map] at h
  simpa [initStack] using h

/-- with pairwise distinct corners the restored stack is: the corners that have no value, at `inf`, in corner order -/
theorem cornerStack_eq (c : Cfg L) (hnd : c.corners.Nodup) (d : List (Nat × V)) :
    cornerStack c d = (c.corners.filter (fun p => !hasKey d p)).map (fun p => (p, c.inf)) := by
  unfold cornerStack
  rw [initStack_eq_map c hnd, List.filter_map]
  rfl

theorem mem_keys_initStack (c : Cfg L) (p : Nat) : p ∈ keys (initStack c) ↔ p ∈ c.corners := by
  unfold initStack
  suffices ∀ st : List (Nat × L), p ∈ keys (c.corners.foldl (fun st p => aset st p c.inf) st) ↔
      p ∈ keys st ∨ p ∈ c.corners by simpa using this []
  generalize c.corners = l
  induction l with
  | nil => intro st; simp
  | cons a t ih => intro st; simp only [List.foldl_cons, ih, mem_keys_aset, List.mem_cons]; tauto

theorem initStack_values (c : Cfg L) : ∀ e ∈ initStack c, e.2 = c.inf := by
  unfold initStack
  suffices ∀ st : List (Nat × L), (∀ e ∈ st, e.2 = c.inf) →
      ∀ e ∈ c.corners.foldl (fun st p => aset st p c.inf) st, e.2 = c.inf from this [] (by simp)
  generalize c.corners = l
  induction l with
  | nil => intro st h; exact h
  | cons a t ih =>
    intro st h
    simp only [List.foldl_cons]
    apply ih
    intro e he
    clear ih
    induction st with
    | nil => simp [aset] at he; rw [he]
    | cons x xs ih2 =>
      obtain ⟨k', v'⟩ := x
      simp only [aset] at he
      split at he
      · simp only [List.mem_cons] at he
        rcases he with rfl | he
        · rfl
        · exact h e (List.mem_cons_of_mem _ he)
      · simp only [List.mem_cons] at he
        rcases he with rfl | he
        · exact h _ List.mem_cons_self
        · exact ih2 (fun e he => h e (List.mem_cons_of_mem _ he)) he

/-- in general (corners possibly repeated): the restored stack holds exactly the corners without a value, all at `inf`,
one entry per point -/
theorem cornerStack_spec (c : Cfg L) (d : List (Nat × V)) :
    (∀ p, p ∈ keys (cornerStack c d) ↔ p ∈ c.corners ∧ p ∉ keys d) ∧ (∀ e ∈ cornerStack c d, e.2 = c.inf) ∧
    (keys (cornerStack c d)).Nodup := by
  refine ⟨fun p => ?_, fun e he => initStack_values c e (List.mem_of_mem_filter he), ?_⟩
  · unfold cornerStack
    rw [← mem_keys_initStack (L := L) c p]
    simp only [keys, List.mem_map, List.mem_filter]
    constructor
    · rintro ⟨e, ⟨he, hk⟩, rfl⟩
      refine ⟨⟨e, he, rfl⟩, fun hd => ?_⟩
      have := (hasKey_iff d e.1).2 (by simpa [keys] using hd)
      simp [this] at hk
    · rintro ⟨⟨e, he, rfl⟩, hd⟩
      refine ⟨e, ⟨he, ?_⟩, rfl⟩
      have : hasKey d e.1 ≠ true := fun h => hd (by simpa [keys] using (hasKey_iff d e.1).1 h)
      simpa using this
  · unfold cornerStack
    have h0 : (keys (initStack c)).Nodup := (inv0_init (V := V) c).stackNodup
    rw [keys] at h0 ⊢
    exact (List.Sublist.map _ List.filter_sublist).nodup h0

/-- **C13 (file / copy_from)** a learner restored from the saved data holds the SAME data (keys, values and order) and the
same `npoints`; nothing is pending; its stack is `cornerStack` (the corners without a value at `inf`: `cornerStack_eq`,
`cornerStack_spec`) -/
theorem l2d_file_roundtrip_data (c : Cfg L) (s : State V L) :
    (restoreFile c (getData s)).data = s.data ∧ npoints (restoreFile c (getData s)) = npoints s ∧
    (restoreFile c (getData s)).pending = [] ∧ (restoreFile c (getData s)).stack = cornerStack c s.data := by
  rw [restoreFile_eq]; exact ⟨rfl, rfl, rfl, rfl⟩

/-- `__setstate__(__getstate__())`: the same learner with an emptied pending set -/
theorem setState_getState (c : Cfg L) (s : State V L) : setState c (getState s) = { s with pending := [] } := rfl

/-- **C13 (pickle)** the unpickled learner has the same data and the same stack, and an empty pending set; so when nothing
was pending it IS the original (equal states) -/
theorem l2d_pickle_roundtrip (c : Cfg L) (s : State V L) :
    (setState c (getState s)).data = s.data ∧ (setState c (getState s)).stack = s.stack ∧
    (setState c (getState s)).pending = [] ∧ npoints (setState c (getState s)) = npoints s ∧
    (s.pending = [] → setState c (getState s) = s) := by
  refine ⟨rfl, rfl, rfl, rfl, fun h => ?_⟩
  rw [setState_getState]; cases s; simp_all

/-- … hence every later state and every later answer agree, for every continuation and every oracle -/
theorem l2d_pickle_same_future (c : Cfg L) (s : State V L) (hp : s.pending = []) (ops : List (Op V L)) :
    run c (setState c (getState s)) ops = run c s ops ∧
    ∀ (cands : Oracle V L) n commit,
      ask c cands (run c (setState c (getState s)) ops) n commit = ask c cands (run c s ops) n commit := by
  rw [(l2d_pickle_roundtrip c s).2.2.2.2 hp]; exact ⟨rfl, fun _ _ _ => rfl⟩

/-- … along histories: a history from a fresh learner that ends with nothing pending -/
theorem l2d_pickle_same_future_reach (c : Cfg L) (h ops : List (Op V L)) (hp : (run c (init c) h).pending = []) :
    run c (setState c (getState (run c (init c) h))) ops = run c (init c) (h ++ ops) := by
  rw [run_append]; exact (l2d_pickle_same_future c _ hp ops).1

/-- **C13 (file / copy_from), exact difference**: with nothing pending the restored learner is the original with its stack
replaced by `cornerStack` - nothing else differs -/
theorem l2d_file_restore_vs_original (c : Cfg L) (s : State V L) (hp : s.pending = []) :
    restoreFile c (getData s) = { s with stack := cornerStack c s.data } := by
  rw [restoreFile_eq]; cases s; simp_all [getData]

/-- the file restore reproduces the learner exactly iff nothing is pending and the stack is the corner stack -/
theorem restoreFile_eq_self_iff (c : Cfg L) (s : State V L) :
    restoreFile c (getData s) = s ↔ s.pending = [] ∧ s.stack = cornerStack c s.data := by
  rw [restoreFile_eq]
  cases s with
  | mk d p st =>
    simp only [getData, State.mk.injEq, true_and]
    constructor
    · rintro ⟨h1, h2⟩; exact ⟨h1.symm, h2.symm⟩
    · rintro ⟨h1, h2⟩; exact ⟨h1.symm, h2.symm⟩

/-! ### when does the file restore reproduce the learner exactly? -/

theorem filter_aset_pass (P : Nat → Bool) (st : List (Nat × L)) (k : Nat) (v : L) (hk : P k = true) :
    (aset st k v).filter (fun e => P e.1) = aset (st.filter (fun e => P e.1)) k v := by
  induction st with
  | nil => simp [aset, hk]
  | cons x xs ih =>
    obtain ⟨k', v'⟩ := x
    simp only [aset]
    split
    · rename_i h; subst h; simp [hk, aset]
    · rename_i h
      by_cases hp : P k' = true
      · simp [hp, aset, h, ih]
      · simp [hp, ih]

theorem filter_aset_fail (P : Nat → Bool) (st : List (Nat × L)) (k : Nat) (v : L) (hk : P k = false) :
    (aset st k v).filter (fun e => P e.1) = st.filter (fun e => P e.1) := by
  induction st with
  | nil => simp [aset, hk]
  | cons x xs ih =>
    obtain ⟨k', v'⟩ := x
    simp only [aset]
    split
    · rename_i h; subst h; simp [hk]
    · simp [List.filter_cons, ih]

/-- the loop of `remove_unfinished` on a filtered stack is the filtered loop of `__init__` -/
theorem removeUnfinished_loop (d : List (Nat × V)) (x : L) (l : List Nat) (st : List (Nat × L)) :
    l.foldl (fun st p => if hasKey d p then st else aset st p x) (st.filter (fun e => !hasKey d e.1)) =
      (l.foldl (fun st p => aset st p x) st).filter (fun e => !hasKey d e.1) := by
  induction l generalizing st with
  | nil => rfl
  | cons a t ih =>
    simp only [List.foldl_cons]
    rw [← ih]
    by_cases ha : hasKey d a = true
    · rw [if_pos ha, filter_aset_fail (fun k => !hasKey d k) st a x (by simp [ha])]
    · rw [if_neg ha, filter_aset_pass (fun k => !hasKey d k) st a x (by simpa using ha)]

/-- `remove_unfinished` on a learner whose stack has been consumed leaves exactly the corner stack -/
theorem removeUnfinished_stack_of_empty (c : Cfg L) (s : State V L) (h : s.stack = []) :
    (removeUnfinished c s).stack = cornerStack c s.data := by
  show c.corners.foldl (fun st p => if hasKey s.data p then st else aset st p c.inf) s.stack = _
  rw [h]
  exact removeUnfinished_loop s.data c.inf c.corners []

/-- **what a file restore is, for EVERY state**: forget the suggestion stack and the pending set, then `remove_unfinished` -/
theorem restoreFile_eq_removeUnfinished (c : Cfg L) (s : State V L) :
    restoreFile c (getData s) = removeUnfinished c { s with stack := [], pending := [] } := by
  rw [restoreFile_eq]
  have := removeUnfinished_stack_of_empty c ({ s with stack := [], pending := [] } : State V L) rfl
  cases hs : removeUnfinished c ({ s with stack := [], pending := [] } : State V L) with
  | mk dd pp ss =>
    rw [hs] at this
    have h1 : dd = s.data := by have : (removeUnfinished c ({ s with stack := [], pending := [] } : State V L)).data = s.data := rfl
                                rw [hs] at this; exact this
    have h2 : pp = [] := by have : (removeUnfinished c ({ s with stack := [], pending := [] } : State V L)).pending = [] := rfl
                            rw [hs] at this; exact this
    simp only at this
    rw [h1, h2, this]; rfl

/-- **positive statement 1**: right after `remove_unfinished` on a learner whose stack was consumed, the file restore IS the
learner (equal states) -/
theorem restoreFile_after_removeUnfinished (c : Cfg L) (s : State V L) (h : s.stack = []) :
    restoreFile c (getData (removeUnfinished c s)) = removeUnfinished c s :=
  (restoreFile_eq_self_iff c _).2 ⟨rfl, removeUnfinished_stack_of_empty c s h⟩

theorem aget_of_values {st : List (Nat × L)} {x : L} (hv : ∀ e ∈ st, e.2 = x) {p : Nat} (hp : p ∈ keys st) :
    aget st p = some x := by
  induction st with
  | nil => simp at hp
  | cons e t ih =>
    obtain ⟨k', v'⟩ := e
    simp only [aget]
    split
    · have := hv (k', v') List.mem_cons_self; simp at this; rw [this]
    · rename_i h
      simp only [keys_cons, List.mem_cons] at hp
      rcases hp with hp | hp
      · exact absurd hp.symm h
      · exact ih (fun e he => hv e (List.mem_cons_of_mem _ he)) hp

theorem hasKey_aset (d : List (Nat × V)) (p : Nat) (v : V) (k : Nat) :
    hasKey (aset d p v) k = (k == p || hasKey d k) := by
  rw [Bool.eq_iff_iff]
  simp only [hasKey_iff, mem_keys_aset, Bool.or_eq_true, beq_iff_eq]

/-- the stack is the corner stack of the data and nothing is pending -/
def CornerInv (c : Cfg L) (s : State V L) : Prop := s.pending = [] ∧ s.stack = cornerStack c s.data

theorem cornerInv_init (c : Cfg L) : CornerInv c (init c : State V L) := by
  refine ⟨rfl, ?_⟩
  simp [cornerStack, hasKey]

theorem cornerInv_tell {c : Cfg L} (hcor : ∀ p ∈ c.corners, c.inB p = true) {s : State V L} (h : CornerInv c s)
    (p : Nat) (v : V) : CornerInv c (tell c s p v) := by
  obtain ⟨hp, hs⟩ := h
  unfold tell
  by_cases hb : c.inB p = true
  · rw [if_pos hb]
    refine ⟨by simp [hp, pdiscard], ?_⟩
    show apop s.stack p = cornerStack c (aset s.data p v)
    rw [hs, cornerStack, cornerStack, apop, List.filter_filter]
    apply List.filter_congr
    intro e _
    rw [hasKey_aset]
    by_cases he : e.1 = p <;> simp [he, bne]
  · rw [if_neg hb]
    refine ⟨hp, ?_⟩
    show s.stack = cornerStack c (aset s.data p v)
    rw [hs, cornerStack, cornerStack]
    apply List.filter_congr
    intro e he
    rw [hasKey_aset]
    have : e.1 ≠ p := by
      intro h
      exact hb (h ▸ hcor e.1 ((mem_keys_initStack c e.1).1 (mem_keys_of_mem he)))
    simp [this]

theorem cornerInv_removeUnfinished {c : Cfg L} {s : State V L} (h : s.stack = cornerStack c s.data) :
    CornerInv c (removeUnfinished c s) := by
  refine ⟨rfl, ?_⟩
  show c.corners.foldl (fun st p => if hasKey s.data p then st else aset st p c.inf) s.stack = cornerStack c s.data
  rw [h, cornerStack, removeUnfinished_loop]
  congr 1
  -- assigning `inf` to the corners again leaves the fresh stack as it is
  suffices ∀ l : List Nat, (∀ p ∈ l, p ∈ c.corners) →
      l.foldl (fun st p => aset st p c.inf) (initStack c) = initStack c from this _ (fun _ h => h)
  intro l
  induction l with
  | nil => intro _; rfl
  | cons a t ih =>
    intro hl
    simp only [List.foldl_cons]
    rw [aset_same (aget_of_values (initStack_values c) ((mem_keys_initStack c a).2 (hl a List.mem_cons_self)))]
    exact ih (fun p hp => hl p (List.mem_cons_of_mem _ hp))

/-- operations that only feed data: `tell` (hence `tell_many`) and `remove_unfinished` -/
def DataOnly : Op V L → Prop
  | .tell _ _ => True
  | .removeUnfinished => True
  | _ => False

theorem cornerInv_run {c : Cfg L} (hcor : ∀ p ∈ c.corners, c.inB p = true) {s : State V L} (h : CornerInv c s)
    (ops : List (Op V L)) (hops : ∀ op ∈ ops, DataOnly op) : CornerInv c (run c s ops) := by
  induction ops generalizing s with
  | nil => exact h
  | cons op ops ih =>
    refine ih ?_ (fun o ho => hops o (List.mem_cons_of_mem _ ho))
    have hop := hops op List.mem_cons_self
    cases op with
    | tell p v => exact cornerInv_tell hcor h p v
    | removeUnfinished => exact cornerInv_removeUnfinished h.2
    | tellPending p => exact absurd hop id
    | ask n commit cands => exact absurd hop id

/-- **positive statement 2** (corners inside the bounds): a learner that has only ever been TOLD results (in any order, in or
out of bounds, re-tells, `remove_unfinished`) - e.g. one that was itself loaded from a file - is reproduced EXACTLY by a file
restore, and by induction so is every learner in a chain of such restores -/
theorem restoreFile_dataOnly (c : Cfg L) (hcor : ∀ p ∈ c.corners, c.inB p = true) (ops : List (Op V L))
    (hops : ∀ op ∈ ops, DataOnly op) :
    restoreFile c (getData (run c (init c) ops)) = run c (init c) ops :=
  (restoreFile_eq_self_iff c _).2 (cornerInv_run hcor (cornerInv_init c) ops hops)

/-- a file-restored learner satisfies `CornerInv`, so restoring it again (after any data-only continuation) is exact -/
theorem cornerInv_restoreFile (c : Cfg L) (d : List (Nat × V)) : CornerInv c (restoreFile c d) := by
  rw [restoreFile_eq]; exact ⟨rfl, rfl⟩

/-! ## I. C11: the bookkeeping does not depend on the order in which results are told -/

theorem tellMany_nil (c : Cfg L) (s : State V L) : tellMany c s [] = s := rfl
theorem tellMany_cons (c : Cfg L) (s : State V L) (e : Nat × V) (t : List (Nat × V)) :
    tellMany c s (e :: t) = tellMany c (tell c s e.1 e.2) t := rfl

/-- `tell_many` is the history of its `tell`s -/
theorem tellMany_eq_run (c : Cfg L) (s : State V L) (xs : List (Nat × V)) :
    tellMany c s xs = run c s (xs.map fun e => (Op.tell e.1 e.2 : Op V L)) := by
  induction xs generalizing s with
  | nil => rfl
  | cons e t ih => rw [tellMany_cons, ih]; rfl

/-- **C11, pending set** (every state, every list of tells, duplicates allowed): exactly the in-bounds told points are
discarded - the resulting LIST does not depend on the order -/
theorem tellMany_pending (c : Cfg L) (s : State V L) (xs : List (Nat × V)) :
    (tellMany c s xs).pending = s.pending.filter (fun q => !(c.inB q && (keys xs).contains q)) := by
  induction xs generalizing s with
  | nil => simp [tellMany_nil]
  | cons e t ih =>
    rw [tellMany_cons, ih]
    unfold tell
    by_cases hb : c.inB e.1 = true
    · simp only [hb, if_true, pdiscard, List.filter_filter]
      apply List.filter_congr
      intro q _
      by_cases hq : q = e.1
      · simp [hq, hb]
      · simp [hq, keys_cons]
    · simp only [hb]
      apply List.filter_congr
      intro q _
      by_cases hq : q = e.1
      · simp [hq, hb]
      · simp [hq, keys_cons]

/-- **C11, stack**: exactly the in-bounds told points are popped - the resulting stack (order and losses included) does not
depend on the order of the tells -/
theorem tellMany_stack (c : Cfg L) (s : State V L) (xs : List (Nat × V)) :
    (tellMany c s xs).stack = s.stack.filter (fun e => !(c.inB e.1 && (keys xs).contains e.1)) := by
  induction xs generalizing s with
  | nil => simp [tellMany_nil]
  | cons e t ih =>
    rw [tellMany_cons, ih]
    unfold tell
    by_cases hb : c.inB e.1 = true
    · simp only [hb, if_true, apop, List.filter_filter]
      apply List.filter_congr
      intro q _
      by_cases hq : q.1 = e.1
      · simp [hq, hb]
      · simp [hq, keys_cons]
    · simp only [hb]
      apply List.filter_congr
      intro q _
      by_cases hq : q.1 = e.1
      · simp [hq, hb]
      · simp [hq, keys_cons]

theorem tellMany_data (c : Cfg L) (s : State V L) (xs : List (Nat × V)) :
    (tellMany c s xs).data = xs.foldl (fun d e => aset d e.1 e.2) s.data := by
  induction xs generalizing s with
  | nil => rfl
  | cons e t ih => rw [tellMany_cons, ih, tell_data]; rfl

/-- a point that is not told keeps its value -/
theorem aget_tellMany_of_not_mem (c : Cfg L) (s : State V L) (xs : List (Nat × V)) {p : Nat} (hp : p ∉ keys xs) :
    aget (tellMany c s xs).data p = aget s.data p := by
  induction xs generalizing s with
  | nil => rfl
  | cons e t ih =>
    simp only [keys_cons, List.mem_cons, not_or] at hp
    rw [tellMany_cons, ih _ hp.2, tell_data, aget_aset_other _ _ hp.1]

/-- distinct points: every told point holds the value it was told with -/
theorem aget_tellMany_of_mem (c : Cfg L) (s : State V L) (xs : List (Nat × V)) (hnd : (keys xs).Nodup) {p : Nat} {v : V}
    (hp : (p, v) ∈ xs) : aget (tellMany c s xs).data p = some v := by
  induction xs generalizing s with
  | nil => simp at hp
  | cons e t ih =>
    simp only [keys_cons, List.nodup_cons] at hnd
    rw [tellMany_cons]
    simp only [List.mem_cons] at hp
    rcases hp with rfl | hp
    · rw [aget_tellMany_of_not_mem c _ t hnd.1, tell_data, aget_aset_self]
    · exact ih _ hnd.2 hp

/-- **C11, data order**: the keys of `data` after telling pairwise distinct points are the old keys in their old order followed by
the NEW points in the order they were told - this is where (and the only place where) the order of the tells shows -/
theorem keys_tellMany (c : Cfg L) (s : State V L) (xs : List (Nat × V)) (hnd : (keys xs).Nodup) :
    keys (tellMany c s xs).data = keys s.data ++ (keys xs).filter (fun p => !hasKey s.data p) := by
  induction xs generalizing s with
  | nil => simp [tellMany_nil]
  | cons e t ih =>
    simp only [keys_cons, List.nodup_cons] at hnd
    rw [tellMany_cons, ih _ hnd.2, tell_data, keys_cons]
    have hcongr : (keys t).filter (fun p => !hasKey (aset s.data e.1 e.2) p) =
        (keys t).filter (fun p => !hasKey s.data p) := by
      apply List.filter_congr
      intro q hq
      rw [hasKey_aset]
      have : q ≠ e.1 := fun h => hnd.1 (h ▸ hq)
      simp [this]
    rw [hcongr]
    by_cases hk : e.1 ∈ keys s.data
    · rw [keys_aset_of_mem _ hk, List.filter_cons]
      have : hasKey s.data e.1 = true := (hasKey_iff _ _).2 hk
      simp [this]
    · rw [aset_of_not_mem _ hk, keys_append, List.filter_cons]
      have : hasKey s.data e.1 ≠ true := fun h => hk ((hasKey_iff _ _).1 h)
      simp [this, keys]

/-- membership in an association list with distinct keys is `aget` -/
theorem mem_iff_aget {l : List (Nat × α)} (h : (keys l).Nodup) (k : Nat) (v : α) : (k, v) ∈ l ↔ aget l k = some v := by
  induction l with
  | nil => simp [aget]
  | cons e t ih =>
    obtain ⟨k', v'⟩ := e
    simp only [keys_cons, List.nodup_cons] at h
    simp only [List.mem_cons, Prod.mk.injEq, aget]
    split
    · rename_i hk; subst hk
      constructor
      · rintro (⟨-, rfl⟩ | hm)
        · rfl
        · exact absurd (mem_keys_of_mem hm) h.1
      · intro hv; simp only [Option.some.injEq] at hv; exact Or.inl ⟨rfl, hv.symm⟩
    · rename_i hk
      rw [← ih h.2]
      constructor
      · rintro (⟨rfl, -⟩ | hm)
        · exact absurd rfl hk
        · exact hm
      · exact Or.inr

/-- two association lists with distinct keys that agree as maps are permutations of each other -/
theorem perm_of_aget_eq {l₁ l₂ : List (Nat × α)} (h₁ : (keys l₁).Nodup) (h₂ : (keys l₂).Nodup)
    (h : ∀ k, aget l₁ k = aget l₂ k) : l₁.Perm l₂ := by
  rw [List.perm_ext_iff_of_nodup (List.Nodup.of_map _ h₁) (List.Nodup.of_map _ h₂)]
  rintro ⟨k, v⟩
  rw [mem_iff_aget h₁, mem_iff_aget h₂, h]

theorem nodup_keys_tellMany (c : Cfg L) (s : State V L) (xs : List (Nat × V)) (h : (keys s.data).Nodup) :
    (keys (tellMany c s xs).data).Nodup := by
  rw [tellMany_data]
  exact foldl_keys_nodup _ (fun st b hst => nodup_keys_aset hst _ _) xs _ h

/-- **C11 (Learner2D bookkeeping)**: two lists of tells that are permutations of each other, with pairwise distinct points
(inside the bounds or not), applied to the same state (ANY state: pending points and a filled stack allowed) give
* the same `data` as a map (`aget` agrees everywhere), the same key set, the same `npoints`,
* the same old part of `data` in the same order; only the newly inserted keys appear in told order (`keys_tellMany`),
* the SAME pending list and the SAME stack (equal lists, losses included) - these two without the distinctness hypothesis. -/
theorem l2d_tells_order_irrelevant (c : Cfg L) (s : State V L) {xs ys : List (Nat × V)} (hp : xs.Perm ys)
    (hnd : (keys xs).Nodup) :
    (∀ p, aget (tellMany c s xs).data p = aget (tellMany c s ys).data p) ∧
    (∀ p, p ∈ keys (tellMany c s xs).data ↔ p ∈ keys (tellMany c s ys).data) ∧
    npoints (tellMany c s xs) = npoints (tellMany c s ys) ∧
    (keys (tellMany c s xs).data).take s.data.length = (keys (tellMany c s ys).data).take s.data.length ∧
    (tellMany c s xs).pending = (tellMany c s ys).pending ∧
    (tellMany c s xs).stack = (tellMany c s ys).stack := by
  have hkp : (keys xs).Perm (keys ys) := hp.map _
  have hnd' : (keys ys).Nodup := hkp.nodup_iff.1 hnd
  have hmem : ∀ q, (keys xs).contains q = (keys ys).contains q := by
    intro q; rw [Bool.eq_iff_iff]; simp [hkp.mem_iff]
  have haget : ∀ p, aget (tellMany c s xs).data p = aget (tellMany c s ys).data p := by
    intro p
    by_cases hpx : p ∈ keys xs
    · obtain ⟨e, he, rfl⟩ := List.mem_map.1 hpx
      rw [aget_tellMany_of_mem c s xs hnd (v := e.2) he, aget_tellMany_of_mem c s ys hnd' (v := e.2) (hp.mem_iff.1 he)]
    · rw [aget_tellMany_of_not_mem c s xs hpx, aget_tellMany_of_not_mem c s ys (fun h => hpx (hkp.mem_iff.2 h))]
  have hkeys : ∀ p, p ∈ keys (tellMany c s xs).data ↔ p ∈ keys (tellMany c s ys).data := by
    intro p
    have h1 := aget_eq_none_iff (tellMany c s xs).data p
    have h2 := aget_eq_none_iff (tellMany c s ys).data p
    rw [haget p] at h1
    constructor
    · intro h; by_contra h'; exact (h1.1 (h2.2 h')) h
    · intro h; by_contra h'; exact (h2.1 (h1.2 h')) h
  refine ⟨haget, hkeys, ?_, ?_, ?_, ?_⟩
  · have hl : (keys (tellMany c s xs).data).length = (keys (tellMany c s ys).data).length := by
      rw [keys_tellMany c s xs hnd, keys_tellMany c s ys hnd', List.length_append, List.length_append]
      congr 1
      exact (hkp.filter _).length_eq
    simpa [keys, npoints] using hl
  · rw [keys_tellMany c s xs hnd, keys_tellMany c s ys hnd']
    have : s.data.length = (keys s.data).length := by simp [keys]
    rw [this, List.take_left, List.take_left]
  · rw [tellMany_pending, tellMany_pending]
    apply List.filter_congr; intro q _; rw [hmem]
  · rw [tellMany_stack, tellMany_stack]
    apply List.filter_congr; intro q _; rw [hmem]

/-- … and when the keys of the starting `data` are distinct (every reachable state: `inv0_reach`) the two `data` are
permutations of each other: the same (point, value) pairs -/
theorem l2d_tells_data_perm (c : Cfg L) (s : State V L) (hs : (keys s.data).Nodup) {xs ys : List (Nat × V)}
    (hp : xs.Perm ys) (hnd : (keys xs).Nodup) : (tellMany c s xs).data.Perm (tellMany c s ys).data :=
  perm_of_aget_eq (nodup_keys_tellMany c s xs hs) (nodup_keys_tellMany c s ys hs)
    (l2d_tells_order_irrelevant c s hp hnd).1

/-- association lists with distinct keys, the same key list and the same values are equal -/
theorem eq_of_keys_eq_of_aget_eq {l₁ l₂ : List (Nat × α)} (h₁ : (keys l₁).Nodup) (hk : keys l₁ = keys l₂)
    (h : ∀ k, aget l₁ k = aget l₂ k) : l₁ = l₂ := by
  induction l₁ generalizing l₂ with
  | nil => cases l₂ with
    | nil => rfl
    | cons _ _ => simp at hk
  | cons e t ih =>
    cases l₂ with
    | nil => simp at hk
    | cons e' t' =>
      obtain ⟨k, v⟩ := e
      obtain ⟨k', v'⟩ := e'
      simp only [keys_cons, List.cons.injEq] at hk
      obtain ⟨rfl, hkt⟩ := hk
      simp only [keys_cons, List.nodup_cons] at h₁
      have hv := h k
      simp only [aget, if_true, Option.some.injEq] at hv
      subst hv
      congr 1
      apply ih h₁.2 hkt
      intro q
      by_cases hq : q = k
      · subst hq
        rw [(aget_eq_none_iff t q).2 h₁.1, (aget_eq_none_iff t' q).2 (hkt ▸ h₁.1)]
      · have := h q
        simpa [aget, Ne.symm hq] using this

/-- **C11, when are the STATES equal?** when moreover the points that are new to `data` are told in the same relative order
(in particular when every told point already has a value: re-evaluations commute) -/
theorem l2d_tells_state_eq (c : Cfg L) (s : State V L) (hs : (keys s.data).Nodup) {xs ys : List (Nat × V)}
    (hp : xs.Perm ys) (hnd : (keys xs).Nodup)
    (hord : (keys xs).filter (fun p => !hasKey s.data p) = (keys ys).filter (fun p => !hasKey s.data p)) :
    tellMany c s xs = tellMany c s ys := by
  obtain ⟨haget, -, -, -, hpd, hst⟩ := l2d_tells_order_irrelevant c s hp hnd
  have hnd' : (keys ys).Nodup := (hp.map _ : (keys xs).Perm (keys ys)).nodup_iff.1 hnd
  have hd : (tellMany c s xs).data = (tellMany c s ys).data :=
    eq_of_keys_eq_of_aget_eq (nodup_keys_tellMany c s xs hs)
      (by rw [keys_tellMany c s xs hnd, keys_tellMany c s ys hnd', hord]) haget
  cases h1 : tellMany c s xs
  cases h2 : tellMany c s ys
  rw [h1, h2] at hd hpd hst
  simp_all

theorem l2d_retells_order_irrelevant (c : Cfg L) (s : State V L) (hs : (keys s.data).Nodup) {xs ys : List (Nat × V)}
    (hp : xs.Perm ys) (hnd : (keys xs).Nodup) (hold : ∀ p ∈ keys xs, p ∈ keys s.data) :
    tellMany c s xs = tellMany c s ys := by
  apply l2d_tells_state_eq c s hs hp hnd
  have hkp : (keys xs).Perm (keys ys) := hp.map _
  have e1 : (keys xs).filter (fun p => !hasKey s.data p) = [] := by
    rw [List.filter_eq_nil_iff]; intro p hp'; simp [(hasKey_iff _ _).2 (hold p hp')]
  have e2 : (keys ys).filter (fun p => !hasKey s.data p) = [] := by
    rw [List.filter_eq_nil_iff]; intro p hp'; simp [(hasKey_iff _ _).2 (hold p (hkp.mem_iff.2 hp'))]
  rw [e1, e2]

/-! ## J. kernel-checked examples for H and I -/
namespace Ex

/-- a history that ends with NO pending points: five points asked for (the corners and point 4), all five told.  The second
candidate of the `_fill_stack` call (point 5) is still on the private stack. -/
def hist : List (Op Nat Nat) :=
  [.ask 5 true fresh2, .tell 0 10, .tell 1 11, .tell 2 12, .tell 3 13, .tell 4 14]

/-- the geometry "of the moment" used for the next ask -/
def cur : Oracle Nat Nat := fun _ _ => [(8, 7)]

/-- **finding: the suggestion stack is not carried by file restores** (`save`/`load`, `copy_from`).  The history ends with
nothing pending; the restored learner has the same data - but the next `ask` answers DIFFERENTLY: the original serves the
stale stack entry (5, computed before the five values were known), the restored learner asks the geometry.  The pickle
round trip, which carries the stack, reproduces the original state exactly. -/
theorem file_restore_drops_stack :
    let s := run cfg (init cfg) hist
    s.pending = [] ∧ s.stack = [(5, 40)] ∧
    (restoreFile cfg (getData s)).data = s.data ∧ (restoreFile cfg (getData s)).stack = [] ∧
    restoreFile cfg (getData s) ≠ s ∧
    (ask cfg cur s 1 true).2 = .ok [(5, 40)] ∧
    (ask cfg cur (restoreFile cfg (getData s)) 1 true).2 = .ok [(8, 7)] ∧
    setState cfg (getState s) = s ∧
    (ask cfg cur (setState cfg (getState s)) 1 true).2 = .ok [(5, 40)] := by decide

/-- the same after a NON-committing ask (nothing pending, nothing told): the restored stack holds the corners only -/
example :
    let s := (ask cfg fresh2 (init cfg) 5 false).1
    s.pending = [] ∧ s.stack = [(0, 1000), (1, 1000), (2, 1000), (3, 1000), (4, 50), (5, 40)] ∧
    (restoreFile cfg (getData s)).stack = [(0, 1000), (1, 1000), (2, 1000), (3, 1000)] ∧
    restoreFile cfg (getData s) = init cfg := by decide

/-- the restored stack: the corners WITHOUT a value, in corner order, at `inf` -/
example : cornerStack cfg [(7, 1), (2, 5), (0, 5)] = [(1, 1000), (3, 1000)] := by decide

/-- `cornerStack_eq` needs pairwise distinct corners: a repeated corner is queued once -/
example :
    let c : Cfg Nat := { cfg with corners := [0, 0, 1] }
    cornerStack c ([] : List (Nat × Nat)) = [(0, 1000), (1, 1000)] ∧
    (c.corners.filter (fun p => !hasKey ([] : List (Nat × Nat)) p)).map (fun p => (p, c.inf)) =
      [(0, 1000), (0, 1000), (1, 1000)] := by decide

/-- **outside the property's proviso (points pending)**: pickling while the four corners are being evaluated loses them
altogether - `__getstate__` carries neither the pending set nor (any more) the corners on the stack.  The unpickled learner
reports `bounds_are_done`, has no data, and its `ask` raises "too few points". The file restore of the same learner re-queues
the corners (it is a fresh learner). -/
theorem pickle_with_pending_corners_loses_them :
    let s' : State Nat Nat := setState cfg (getState s4)
    s4.pending = [0, 1, 2, 3] ∧ s' = { data := [], pending := [], stack := [] } ∧ boundsAreDone cfg s' = true ∧
    (ask cfg fresh2 s' 1 true).2 = .tooFew ∧ restoreFile cfg (getData s4) = init cfg := by decide

/-- **positive statement 1 is not vacuous**: stack consumed, some results in, `remove_unfinished`, then save/load: equal -/
example :
    let s := tell cfg (tell cfg s4 0 10) 2 12
    s.stack = [] ∧ s.pending = [1, 3] ∧
    restoreFile cfg (getData (removeUnfinished cfg s)) = removeUnfinished cfg s ∧
    (removeUnfinished cfg s).stack = [(1, 1000), (3, 1000)] := by decide

example :
    let s := tell cfg (tell cfg s4 0 10) 2 12
    restoreFile cfg (getData (removeUnfinished cfg s)) = removeUnfinished cfg s :=
  restoreFile_after_removeUnfinished cfg _ (by decide)

/-- … and it needs the consumed stack: with a stale entry left the states differ -/
example :
    let s := run cfg (init cfg) hist
    removeUnfinished cfg s = s ∧ restoreFile cfg (getData (removeUnfinished cfg s)) ≠ removeUnfinished cfg s := by decide

/-- **positive statement 2 is not vacuous**: a learner that was only told data (in and out of bounds, a re-tell, a corner) -/
example :
    let ops : List (Op Nat Nat) := [.tell 7 1, .tell 200 2, .tell 2 3, .removeUnfinished, .tell 7 4]
    (∀ op ∈ ops, DataOnly op) ∧ restoreFile cfg (getData (run cfg (init cfg) ops)) = run cfg (init cfg) ops ∧
    (run cfg (init cfg) ops).data = [(7, 4), (200, 2), (2, 3)] ∧
    (run cfg (init cfg) ops).stack = [(0, 1000), (1, 1000), (3, 1000)] := by
  have hops : ∀ op ∈ ([.tell 7 1, .tell 200 2, .tell 2 3, .removeUnfinished, .tell 7 4] : List (Op Nat Nat)),
      DataOnly op := by
    intro op hop
    simp only [List.mem_cons, List.not_mem_nil, or_false] at hop
    rcases hop with rfl | rfl | rfl | rfl | rfl <;> trivial
  exact ⟨hops, restoreFile_dataOnly cfg (by decide) _ hops, by decide, by decide⟩

/-- positive statement 2 needs the corners inside the bounds: a corner outside is never popped by `tell` but is by `_set_data` -/
example :
    let c : Cfg Nat := { cfg with corners := [0, 1, 2, 300] }
    let s := tell c (init c) 300 5
    s.stack = [(0, 1000), (1, 1000), (2, 1000), (300, 1000)] ∧
    (restoreFile c (getData s)).stack = [(0, 1000), (1, 1000), (2, 1000)] := by decide

/-! ### C11 -/

/-- **C11: the order of `data` DOES depend on the order of the tells** (same map, same `npoints`, different `OrderedDict` order) -/
theorem tell_order_shows_in_data_order :
    (tellMany cfg (init cfg) [(5, 1), (6, 2)]).data = [(5, 1), (6, 2)] ∧
    (tellMany cfg (init cfg) [(6, 2), (5, 1)]).data = [(6, 2), (5, 1)] ∧
    tellMany cfg (init cfg) [(5, 1), (6, 2)] ≠ tellMany cfg (init cfg) [(6, 2), (5, 1)] := by decide

/-- **C11 needs distinct points**: the same point told twice with different values - the LAST value wins, so the order matters -/
theorem duplicate_tells_last_wins :
    List.Perm [(5, 1), (5, 2)] [(5, 2), ((5, 1) : Nat × Nat)] ∧
    (tellMany cfg (init cfg) [(5, 1), (5, 2)]).data = [(5, 2)] ∧
    (tellMany cfg (init cfg) [(5, 2), (5, 1)]).data = [(5, 1)] ∧
    aget (tellMany cfg (init cfg) [(5, 1), (5, 2)]).data 5 ≠ aget (tellMany cfg (init cfg) [(5, 2), (5, 1)]).data 5 :=
  ⟨List.Perm.swap _ _ _, by decide, by decide, by decide⟩

/-- the order-independence theorem is not vacuous: pending points and a filled stack at the start, an out-of-bounds point, a corner,
a point on the stack and a re-evaluation among the tells -/
example :
    let s := tell cfg (ask cfg fresh2 (init cfg) 5 true).1 4 9
    let xs : List (Nat × Nat) := [(1, 11), (200, 7), (5, 6), (4, 8), (50, 3)]
    let ys : List (Nat × Nat) := [(50, 3), (4, 8), (5, 6), (200, 7), (1, 11)]
    s.pending = [0, 1, 2, 3] ∧ s.stack = [(5, 40)] ∧ s.data = [(4, 9)] ∧ xs.Perm ys ∧ (keys xs).Nodup ∧
    (tellMany cfg s xs).data = [(4, 8), (1, 11), (200, 7), (5, 6), (50, 3)] ∧
    (tellMany cfg s ys).data = [(4, 8), (50, 3), (5, 6), (200, 7), (1, 11)] ∧
    (tellMany cfg s xs).pending = [0, 2, 3] ∧ (tellMany cfg s ys).pending = [0, 2, 3] ∧
    (tellMany cfg s xs).stack = [] ∧ (tellMany cfg s ys).stack = [] := by
  refine ⟨by decide, by decide, by decide, ?_, by decide, by decide, by decide, by decide, by decide, by decide, by decide⟩
  decide

end Ex
end L2D
