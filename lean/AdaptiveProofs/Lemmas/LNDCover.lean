import AdaptiveProofs.Lemmas.LNDKeys
import AdaptiveProofs.Lemmas.LNDQueue

/-! Queue completeness of the LearnerND model (C04, `lnd_queue_complete`): every live simplex without
sub-triangulation and every live sub-simplex has an entry in `_simplex_queue`. -/
set_option linter.unusedSectionVars false
set_option linter.unusedSimpArgs false
set_option linter.unusedVariables false
namespace LND
variable {α : Type} [Sub α] [Mul α] [Div α] [LT α] [DecidableLT α]

/-- a queue key: a simplex, or a sub-simplex of a simplex -/
abbrev Pair := Simplex × Option Simplex

def pairOf (e : QE α) : Pair := (e.simplex, e.sub)

/-- the pair is what the sub-triangulation table currently allows: a simplex without sub-triangulation, or a
current simplex of a simplex' sub-triangulation -/
def liveSub (env : Env α) (subs : List (Simplex × List Pt)) : Pair → Prop
  | (x, none) => get? x subs = none
  | (x, some ss) => ∃ sv, get? x subs = some sv ∧ ss ∈ env.subSimps sv

/-- the queue holds an entry for the pair; for a simplex, one carrying its current loss -/
def CovP (losses : List (Simplex × α)) (q : List (QE α)) : Pair → Prop
  | (x, none) => ∃ e ∈ q, e.simplex = x ∧ e.sub = none ∧ get? x losses = some e.loss
  | (x, some ss) => ∃ e ∈ q, e.simplex = x ∧ e.sub = some ss

/-- every live pair (other than `exc`) over the simplices `simps` is covered by the queue -/
def QCov (env : Env α) (simps : List Simplex) (losses : List (Simplex × α)) (b : Book α) (exc : Option Pair) :
    Prop :=
  ∀ pr : Pair, pr.1 ∈ simps → liveSub env b.subs pr → some pr ≠ exc → CovP losses b.queue pr

theorem live_iff (env : Env α) (simps : List Simplex) (subs : List (Simplex × List Pt)) (e : QE α) :
    live env simps subs e = true ↔ e.simplex ∈ simps ∧ liveSub env subs (pairOf e) := by
  unfold live pairOf liveSub
  cases hs : e.sub with
  | none =>
    simp only [Bool.and_eq_true, List.contains_iff_mem, Option.isNone_iff_eq_none]
  | some ss =>
    simp only
    cases hg : get? e.simplex subs with
    | none => simp
    | some sv => simp [Bool.and_eq_true, List.contains_iff_mem]

theorem CovP_mono {losses : List (Simplex × α)} {q q' : List (QE α)} (h : ∀ x ∈ q, x ∈ q') (pr : Pair)
    (hc : CovP losses q pr) : CovP losses q' pr := by
  obtain ⟨x, o⟩ := pr
  cases o with
  | none => obtain ⟨e, he, h1⟩ := hc; exact ⟨e, h e he, h1⟩
  | some ss => obtain ⟨e, he, h1⟩ := hc; exact ⟨e, h e he, h1⟩

/-- `_update_subsimplex_losses` only inserts entries `(·, simplex, subsimplex)` for the given sub-simplices -/
theorem updateSubLosses_spec (env : Env α) (vs : List Pt) (losses : List (Simplex × α)) {b b' : Book α}
    (sx : Simplex) (news : List Simplex) (h : updateSubLosses env vs losses b sx news = .ok b') :
    b'.subs = b.subs ∧ b'.p2s = b.p2s ∧ b'.geomOK = b.geomOK ∧
    (∀ x, x ∈ b.queue → x ∈ b'.queue) ∧
    (∀ ss ∈ news, ∃ e ∈ b'.queue, e.simplex = sx ∧ e.sub = some ss) ∧
    (∀ x ∈ b'.queue, x ∈ b.queue ∨ (x.simplex = sx ∧ ∃ ss ∈ news, x.sub = some ss)) := by
  unfold updateSubLosses at h
  split at h
  · rename_i loss sv hl hs
    simp only [Except.ok.injEq] at h
    subst h
    refine ⟨rfl, rfl, rfl, ?_, ?_, ?_⟩
    · intro x hx
      exact (mem_foldl_qinsert env _ news b.queue x).2 (Or.inl hx)
    · intro ss hss
      refine ⟨_, (mem_foldl_qinsert env _ news b.queue _).2 (Or.inr ⟨ss, hss, rfl⟩), rfl, rfl⟩
    · intro x hx
      rcases (mem_foldl_qinsert env _ news b.queue x).1 hx with h | ⟨ss, hss, rfl⟩
      · exact Or.inl h
      · exact Or.inr ⟨rfl, ss, hss, rfl⟩
  · exact absurd h (by simp)

/-- `_try_adding_pending_point_to_simplex` -/
theorem tryAdd_spec (env : Env α) (vs : List Pt) {b b' : Book α} (p : Pt) (t : Simplex)
    {r : Option (List Simplex)} (h : tryAdd env vs b p t = .ok (b', r)) :
    b'.queue = b.queue ∧ b'.geomOK = b.geomOK ∧
    ((r = none ∧ b' = b) ∨
     (∃ D A, r = some A ∧ env.subAdd ((get? t b.subs).getD (ptsOf vs t)) p = some (D, A) ∧
        b'.subs = put t ((get? t b.subs).getD (ptsOf vs t) ++ [p]) b.subs)) := by
  unfold tryAdd at h
  split at h
  · simp only at h
    split at h
    · exact absurd h (by simp)
    · rename_i D A hadd
      simp only [Except.ok.injEq, Prod.mk.injEq] at h
      obtain ⟨h1, h2⟩ := h
      subst h1 h2
      exact ⟨rfl, rfl, Or.inr ⟨D, A, rfl, hadd, rfl⟩⟩
  · simp only [Except.ok.injEq, Prod.mk.injEq] at h
    obtain ⟨h1, h2⟩ := h
    subst h1 h2
    exact ⟨rfl, rfl, Or.inl ⟨rfl, rfl⟩⟩

/-- truthful geometry of the sub-triangulations, as far as the queue needs it -/
structure SubGeom (env : Env α) : Prop where
  /-- C03 `tri_report_exact` for a sub-triangulation: a simplex present after `add_point` was present before
  or is reported as added -/
  subReport : ∀ sv p D A, env.subAdd sv p = some (D, A) →
    ∀ x ∈ env.subSimps (sv ++ [p]), x ∈ env.subSimps sv ∨ x ∈ A
  /-- the first point inserted into the sub-triangulation of a simplex (`dim+1` vertices, one simplex) replaces
  that simplex: everything present afterwards is reported as added -/
  fresh : ∀ sv p D A, sv.length = env.dim + 1 → env.subAdd sv p = some (D, A) →
    ∀ x ∈ env.subSimps (sv ++ [p]), x ∈ A
  /-- simplices of the triangulation have `dim+1` vertices (C03 `tri_index_inv`) -/
  size : ∀ n, ∀ sx ∈ env.triSimps n, sx.length = env.dim + 1

theorem liveSub_congr (env : Env α) {subs subs' : List (Simplex × List Pt)} (pr : Pair)
    (h : get? pr.1 subs' = get? pr.1 subs) (hl : liveSub env subs' pr) : liveSub env subs pr := by
  obtain ⟨x, o⟩ := pr
  cases o with
  | none => simp only [liveSub] at hl ⊢; rw [← h]; exact hl
  | some ss => simp only [liveSub] at hl ⊢; rw [← h]; exact hl

theorem ptsOf_length (vs : List Pt) (sx : Simplex) : (ptsOf vs sx).length = sx.length := by
  simp [ptsOf]

/-- one iteration of the loop of `tell_pending` keeps the queue complete -/
theorem pendStep_cov (env : Env α) (hG : SubGeom env) (vs : List Pt) (simps : List Simplex)
    (losses : List (Simplex × α)) (exc : Option Pair) {b b1 b2 : Book α} (p : Pt) (t : Simplex)
    (A : List Simplex) (ht : t.length = env.dim + 1)
    (h1 : tryAdd env vs b p t = .ok (b1, some A)) (h2 : updateSubLosses env vs losses b1 t A = .ok b2)
    (hq : QCov env simps losses b exc) : QCov env simps losses b2 exc := by
  obtain ⟨q1, _, hcase⟩ := tryAdd_spec env vs p t h1
  obtain ⟨u1, _, _, umono, unew, _⟩ := updateSubLosses_spec env vs losses t A h2
  rcases hcase with ⟨hr, _⟩ | ⟨D, A', hr, hadd, hsubs⟩
  · exact absurd hr (by simp)
  · simp only [Option.some.injEq] at hr
    subst hr
    have mono : ∀ x ∈ b.queue, x ∈ b2.queue := fun x hx => umono x (q1 ▸ hx)
    intro pr hpr hlive hne
    obtain ⟨x, o⟩ := pr
    by_cases hx : x = t
    · subst hx
      have hg : get? x b2.subs = some ((get? x b.subs).getD (ptsOf vs x) ++ [p]) := by
        rw [u1, hsubs, get?_put_self]
      cases o with
      | none => simp only [liveSub, hg] at hlive; exact absurd hlive (by simp)
      | some ss =>
        simp only [liveSub, hg, Option.some.injEq, exists_eq_left'] at hlive
        cases hb : get? x b.subs with
        | some sv0 =>
          rw [hb] at hlive hadd
          simp only [Option.getD_some] at hlive hadd
          rcases hG.subReport _ _ _ _ hadd ss hlive with hold | hnew
          · have : liveSub env b.subs (x, some ss) := ⟨sv0, hb, hold⟩
            exact CovP_mono mono _ (hq (x, some ss) hpr this hne)
          · exact unew ss hnew
        | none =>
          rw [hb] at hlive hadd
          simp only [Option.getD_none] at hlive hadd
          have hlen : (ptsOf vs x).length = env.dim + 1 := by rw [ptsOf_length]; exact ht
          exact unew ss (hG.fresh _ _ _ _ hlen hadd ss hlive)
    · have hg : get? x b2.subs = get? x b.subs := by
        rw [u1, hsubs, get?_put_ne hx]
      have hl' : liveSub env b.subs (x, o) := liveSub_congr env (x, o) hg hlive
      exact CovP_mono mono _ (hq (x, o) hpr hl' hne)

theorem pendLoop_cov (env : Env α) (hG : SubGeom env) (vs : List Pt) (simps : List Simplex)
    (losses : List (Simplex × α)) (exc : Option Pair) (p : Pt) (ts : List Simplex) :
    ∀ {b b' : Book α}, (∀ t ∈ ts, t.length = env.dim + 1) → pendLoop env vs losses p b ts = .ok b' →
      QCov env simps losses b exc → QCov env simps losses b' exc := by
  induction ts with
  | nil =>
    intro b b' _ h hq
    simp only [pendLoop, Except.ok.injEq] at h; subst h; exact hq
  | cons t ts ih =>
    intro b b' hts h hq
    unfold pendLoop at h
    split at h
    · exact absurd h (by simp)
    · rename_i b1 h1
      obtain ⟨_, _, hcase⟩ := tryAdd_spec env vs p t h1
      rcases hcase with ⟨_, hb⟩ | ⟨D, A, hr, _⟩
      · subst hb
        exact ih (fun t ht => hts t (List.mem_cons_of_mem _ ht)) h hq
      · exact absurd hr (by simp)
    · rename_i b1 A h1
      split at h
      · exact absurd h (by simp)
      · rename_i b2 h2
        have := pendStep_cov env hG vs simps losses exc p t A (hts t (List.mem_cons_self ..)) h1 h2 hq
        exact ih (fun t ht => hts t (List.mem_cons_of_mem _ ht)) h this

theorem pendLoop_frame (env : Env α) (vs : List Pt) (losses : List (Simplex × α)) (p : Pt) (ts : List Simplex) :
    ∀ {b b' : Book α}, pendLoop env vs losses p b ts = .ok b' → b'.geomOK = b.geomOK := by
  induction ts with
  | nil => intro b b' h; simp only [pendLoop, Except.ok.injEq] at h; subst h; rfl
  | cons t ts ih =>
    intro b b' h
    unfold pendLoop at h
    split at h
    · exact absurd h (by simp)
    · rename_i b1 h1
      obtain ⟨_, g, _⟩ := tryAdd_spec env vs p t h1
      rw [ih h, g]
    · rename_i b1 A h1
      split at h
      · exact absurd h (by simp)
      · rename_i b2 h2
        obtain ⟨_, g, _⟩ := tryAdd_spec env vs p t h1
        obtain ⟨_, _, g2, _⟩ := updateSubLosses_spec env vs losses t A h2
        rw [ih h, g2, g]

/-- every live pair of the simplex `x` is covered -/
def CovAll (env : Env α) (losses : List (Simplex × α)) (b : Book α) (x : Simplex) : Prop :=
  ∀ o, liveSub env b.subs (x, o) → CovP losses b.queue (x, o)

theorem QCov_none_iff (env : Env α) (simps : List Simplex) (losses : List (Simplex × α)) (b : Book α) :
    QCov env simps losses b none ↔ ∀ x ∈ simps, CovAll env losses b x := by
  constructor
  · intro h x hx o hl; exact h (x, o) hx hl (by simp)
  · intro h pr hpr hl _; exact h pr.1 hpr pr.2 hl

theorem CovAll_transfer (env : Env α) {losses losses' : List (Simplex × α)} {b b' : Book α} {x : Simplex}
    (hs : get? x b'.subs = get? x b.subs) (hl : get? x losses' = get? x losses)
    (hq : ∀ e ∈ b.queue, e ∈ b'.queue) (h : CovAll env losses b x) : CovAll env losses' b' x := by
  intro o hlive
  have h1 := h o (liveSub_congr env (x, o) hs hlive)
  cases o with
  | none =>
    obtain ⟨e, he, a, c, d⟩ := h1
    exact ⟨e, hq e he, a, c, by rw [hl]; exact d⟩
  | some ss =>
    obtain ⟨e, he, a, c⟩ := h1
    exact ⟨e, hq e he, a, c⟩

theorem addPts_spec (env : Env α) (vs : List Pt) (sx : Simplex) (ps : List Pt) :
    ∀ {b b' : Book α}, addPts env vs sx b ps = .ok b' →
      b'.queue = b.queue ∧ b'.geomOK = b.geomOK ∧ ∀ x, x ≠ sx → get? x b'.subs = get? x b.subs := by
  induction ps with
  | nil => intro b b' h; simp only [addPts, Except.ok.injEq] at h; subst h; exact ⟨rfl, rfl, fun _ _ => rfl⟩
  | cons p ps ih =>
    intro b b' h
    unfold addPts at h
    split at h
    · exact absurd h (by simp)
    · rename_i b1 r h1
      obtain ⟨q1, g1, hcase⟩ := tryAdd_spec env vs p sx h1
      obtain ⟨q2, g2, hs2⟩ := ih h
      refine ⟨q2.trans q1, g2.trans g1, ?_⟩
      intro x hx
      rw [hs2 x hx]
      rcases hcase with ⟨_, hb⟩ | ⟨D, A, _, _, hsubs⟩
      · rw [hb]
      · rw [hsubs, get?_put_ne hx]

theorem addLoop_cov (env : Env α) (vs : List Pt) (m : α) (unb : List Pt) (A : List Simplex) :
    ∀ {losses l' : List (Simplex × α)} {b b' : Book α}, addLoop env vs m unb losses b A = .ok (l', b') →
      (b'.geomOK = b.geomOK) ∧ ∀ x, (CovAll env losses b x ∨ x ∈ A) → CovAll env l' b' x := by
  induction A with
  | nil =>
    intro losses l' b b' h
    simp only [addLoop, Except.ok.injEq, Prod.mk.injEq] at h
    obtain ⟨h1, h2⟩ := h; subst h1 h2
    exact ⟨rfl, fun x hx => hx.elim id (fun h => absurd h (by simp))⟩
  | cons sx rest ih =>
    intro losses l' b b' h
    unfold addLoop at h
    simp only at h
    split at h
    · exact absurd h (by simp)
    · rename_i b1 hb1
      obtain ⟨q1, g1, s1⟩ := addPts_spec env vs sx unb hb1
      split at h
      · rename_i hnone
        obtain ⟨g, hcov⟩ := ih h
        refine ⟨by rw [g, g1], ?_⟩
        intro x hx
        apply hcov x
        by_cases hxs : x = sx
        · left
          subst hxs
          intro o hl
          cases o with
          | some ss => simp only [liveSub, hnone] at hl; obtain ⟨_, h0, _⟩ := hl; exact absurd h0 (by simp)
          | none =>
            exact ⟨_, (mem_qinsert env _ _ _).2 (Or.inl rfl), rfl, rfl, get?_put_self _ _ _⟩
        · rcases hx with hx | hx
          · left
            refine CovAll_transfer env (s1 x hxs) (get?_put_ne hxs _ _) ?_ hx
            intro e he
            exact (mem_qinsert env _ _ _).2 (Or.inr (q1 ▸ he))
          · rcases List.mem_cons.1 hx with hx | hx
            · exact absurd hx hxs
            · exact Or.inr hx
      · rename_i sv hsome
        split at h
        · exact absurd h (by simp)
        · rename_i b2 h2
          obtain ⟨u1, _, g2, umono, unew, _⟩ := updateSubLosses_spec env vs _ sx _ h2
          obtain ⟨g, hcov⟩ := ih h
          refine ⟨by rw [g, g2, g1], ?_⟩
          intro x hx
          apply hcov x
          by_cases hxs : x = sx
          · left
            subst hxs
            intro o hl
            cases o with
            | none => simp only [liveSub, u1, hsome] at hl; exact absurd hl (by simp)
            | some ss =>
              simp only [liveSub, u1, hsome, Option.some.injEq, exists_eq_left'] at hl
              exact unew ss hl
          · rcases hx with hx | hx
            · left
              refine CovAll_transfer env (by rw [u1]; exact s1 x hxs) (get?_put_ne hxs _ _) ?_ hx
              intro e he
              exact umono e (q1 ▸ he)
            · rcases List.mem_cons.1 hx with hx | hx
              · exact absurd hx hxs
              · exact Or.inr hx

theorem dropDeleted_get (D : List Simplex) : ∀ (losses : List (Simplex × α)) (subs : List (Simplex × List Pt))
    (unb : List Pt) (x : Simplex), x ∉ D →
      get? x (dropDeleted losses subs unb D).1 = get? x losses ∧
      get? x (dropDeleted losses subs unb D).2.1 = get? x subs := by
  induction D with
  | nil => intro losses subs unb x _; simp [dropDeleted]
  | cons sx rest ih =>
    intro losses subs unb x hx
    have hne : x ≠ sx := fun c => hx (c ▸ List.mem_cons_self ..)
    have hr : x ∉ rest := fun c => hx (List.mem_cons_of_mem _ c)
    unfold dropDeleted
    cases hg : get? sx subs with
    | none =>
      simp only
      obtain ⟨a, b⟩ := ih (del sx losses) subs unb x hr
      exact ⟨a.trans (get?_del_ne hne _), b⟩
    | some sv =>
      simp only
      obtain ⟨a, b⟩ := ih (del sx losses) (del sx subs) (unb ++ sv) x hr
      exact ⟨a.trans (get?_del_ne hne _), b.trans (get?_del_ne hne _)⟩

/-- `_update_losses` keeps the surviving simplices covered and covers the added ones -/
theorem updateLosses_cov (env : Env α) {s s' : State α} {vs : List Pt} (D A : List Simplex)
    (ht : s.tri = some vs) (h : updateLosses env s D A = .ok s') :
    s'.book.geomOK = s.book.geomOK ∧
    ∀ x, ((CovAll env s.losses s.book x ∧ x ∉ D) ∨ x ∈ A) → CovAll env s'.losses s'.book x := by
  unfold updateLosses at h
  rw [ht] at h
  simp only at h
  split at h
  · exact absurd h (by simp)
  · rename_i l b hl
    simp only [Except.ok.injEq] at h
    subst h
    obtain ⟨g, hcov⟩ := addLoop_cov env vs s.mult _ A hl
    refine ⟨g, ?_⟩
    intro x hx
    apply hcov x
    rcases hx with ⟨hc, hd⟩ | hx
    · left
      obtain ⟨e1, e2⟩ := dropDeleted_get D s.losses s.book.subs [] x hd
      exact CovAll_transfer env (b := s.book) e2 e1 (fun e he => he) hc
    · exact Or.inr hx

/-- the queue is complete: every live pair over the current simplices is covered -/
def Cover (env : Env α) (s : State α) : Prop :=
  ∀ x ∈ simplices env s.tri, CovAll env s.losses s.book x

theorem touchTri_cover (env : Env α) {s s' : State α} (hc : Cover env s) (h : touchTri env s = .ok s') :
    Cover env s' ∧ s'.book.geomOK = s.book.geomOK := by
  unfold touchTri at h
  cases ht : s.tri with
  | some vs => rw [ht] at h; simp only [Except.ok.injEq] at h; subst h; exact ⟨hc, rfl⟩
  | none =>
    rw [ht] at h
    simp only at h
    split at h
    · obtain ⟨⟨_, _, c, _, _, _⟩, _⟩ :=
        updateLosses_spec (s := { s with tri := some s.data }) env [] (env.triSimps s.data.length) rfl h
      obtain ⟨g, hcov⟩ :=
        updateLosses_cov (s := { s with tri := some s.data }) env [] (env.triSimps s.data.length) rfl h
      refine ⟨?_, g⟩
      intro x hx
      rw [c] at hx
      exact hcov x (Or.inr hx)
    · simp only [Except.ok.injEq] at h; subst h; exact ⟨hc, rfl⟩

theorem recomputeAll_cover (env : Env α) {s s' : State α} (hc : Cover env s) (h : recomputeAll env s = .ok s') :
    Cover env s' ∧ s'.book.geomOK = s.book.geomOK := by
  unfold recomputeAll at h
  split at h
  · exact absurd h (by simp)
  · rename_i s1 h1
    obtain ⟨c1, g1⟩ := touchTri_cover env hc h1
    split at h
    · simp only [Except.ok.injEq] at h; subst h; exact ⟨c1, g1⟩
    · rename_i vs hvs
      split at h
      · exact absurd h (by simp)
      · rename_i l b hl
        simp only [Except.ok.injEq] at h; subst h
        obtain ⟨g, hcov⟩ := addLoop_cov env vs s1.mult [] _ hl
        refine ⟨?_, by rw [g]; exact g1⟩
        intro x hx
        simp only [hvs, simplices] at hx
        exact hcov x (Or.inr hx)

theorem updateRange_cover (env : Env α) {s s' : State α} (a b : α) (hc : Cover env s)
    (h : updateRange env s a b = .ok s') : Cover env s' ∧ s'.book.geomOK = s.book.geomOK := by
  obtain ⟨r, m, hf | hf⟩ := updateRange_form env s a b
  · rw [hf] at h
    exact recomputeAll_cover env (s := { s with range := r, mult := m }) hc h
  · rw [hf] at h; simp only [Except.ok.injEq] at h; subst h; exact ⟨hc, rfl⟩

theorem mem_neighborsOf {simps : List Simplex} {sx t : Simplex} (h : t ∈ neighborsOf simps sx) : t ∈ simps :=
  (List.mem_filter.1 h).1

/-- `tell_pending` on an existing triangulation keeps the queue complete (up to an excluded pair) -/
theorem tellPending_cov_exc (env : Env α) (hG : SubGeom env) {s s' : State α} {vs : List Pt} (p : Pt)
    (hint : Option Simplex) (exc : Option Pair) (ht : s.tri = some vs)
    (hq : QCov env (env.triSimps vs.length) s.losses s.book exc) (h : tellPending env s p hint = .ok s') :
    s'.tri = some vs ∧ s'.losses = s.losses ∧ s'.book.geomOK = s.book.geomOK ∧
      QCov env (env.triSimps vs.length) s'.losses s'.book exc := by
  rcases tellPending_form env p hint h with ⟨_, rfl⟩ | ⟨_, s1, b, h1, rfl, hb⟩
  · exact ⟨ht, rfl, rfl, hq⟩
  · have e1 := touchTri_tri_some env (s := { s with pending := addPending s.pending p }) h1 ht
    subst e1
    rcases hb with rfl | ⟨vs', sx, hvs', hloop⟩
    · exact ⟨ht, rfl, rfl, hq⟩
    · simp only [ht, Option.some.injEq] at hvs'
      subst hvs'
      refine ⟨ht, rfl, pendLoop_frame env _ _ p _ hloop, ?_⟩
      exact pendLoop_cov env hG _ _ _ exc p _ (fun t ht' => hG.size _ t (mem_neighborsOf ht')) hloop hq

theorem tellPending_cover (env : Env α) (hG : SubGeom env) {s s' : State α} (p : Pt) (hint : Option Simplex)
    (hc : Cover env s) (h : tellPending env s p hint = .ok s') :
    Cover env s' ∧ s'.book.geomOK = s.book.geomOK := by
  rcases tellPending_form env p hint h with ⟨_, rfl⟩ | ⟨_, s1, b, h1, rfl, hb⟩
  · exact ⟨hc, rfl⟩
  · obtain ⟨c1, g1⟩ := touchTri_cover env (s := { s with pending := addPending s.pending p }) hc h1
    rcases hb with rfl | ⟨vs, sx, hvs, hloop⟩
    · exact ⟨c1, g1⟩
    · refine ⟨?_, (pendLoop_frame env _ _ p _ hloop).trans g1⟩
      have hq : QCov env (env.triSimps vs.length) s1.losses s1.book none := by
        rw [QCov_none_iff]; intro x hx; exact c1 x (by simp only [hvs, simplices]; exact hx)
      have := pendLoop_cov env hG _ _ _ none p _ (fun t ht' => hG.size _ t (mem_neighborsOf ht')) hloop hq
      rw [QCov_none_iff] at this
      intro x hx
      simp only [hvs, simplices] at hx
      exact this x hx

theorem tell_cover (env : Env α) (hR : ReportExact env) {s s' : State α} (p : Pt) (a b : α)
    (hc : Cover env s) (h : tell env s p a b = .ok s') : Cover env s' ∧ s'.book.geomOK = s.book.geomOK := by
  rcases tell_form env p a b h with ⟨_, rfl⟩ | ⟨_, s1, h1, hcase⟩
  · exact ⟨hc, rfl⟩
  · obtain ⟨c1, g1⟩ := touchTri_cover env (s := { s with pending := s.pending.filter (· ≠ p) }) hc h1
    rcases hcase with ⟨_, rfl⟩ | ⟨_, s3, h3, hcase⟩
    · exact ⟨c1, g1⟩
    · obtain ⟨c3, g3⟩ := updateRange_cover env (s := { s1 with data := s1.data ++ [p] }) a b c1 h3
      rcases hcase with ⟨_, rfl⟩ | ⟨vs, hint, D, A, hvs, hadd, hu⟩
      · exact ⟨c3, g3.trans g1⟩
      · obtain ⟨_, _, _, f3⟩ := updateRange_frame env a b h3
        have t3 : s3.tri = some vs := by
          rcases f3 with f | ⟨f, _⟩
          · rw [f]; exact hvs
          · simp only [hvs] at f; exact absurd f (by simp)
        obtain ⟨⟨_, _, c, _, _, _⟩, _⟩ :=
          updateLosses_spec (s := { s3 with tri := some (vs ++ [p]) }) env D A rfl hu
        obtain ⟨g, hcov⟩ := updateLosses_cov (s := { s3 with tri := some (vs ++ [p]) }) env D A rfl hu
        refine ⟨?_, g.trans (g3.trans g1)⟩
        intro x hx
        rw [c] at hx
        simp only [simplices, List.length_append, List.length_cons, List.length_nil] at hx
        rcases (hR _ _ _ _ hadd x).1 hx with ⟨hx1, hx2⟩ | hx1
        · refine hcov x (Or.inl ⟨?_, hx2⟩)
          exact c3 x (by simp only [t3, simplices]; exact hx1)
        · exact hcov x (Or.inr hx1)

theorem CovP_of_pop (env : Env α) {simps : List Simplex} {subs : List (Simplex × List Pt)}
    {losses : List (Simplex × α)} {q q' : List (QE α)} {e : QE α}
    (hp : popHighest env simps subs q = some (e, q')) (pr : Pair) (hpr : pr.1 ∈ simps)
    (hl : liveSub env subs pr) (hne : pr ≠ pairOf e) (hc : CovP losses q pr) : CovP losses q' pr := by
  obtain ⟨pre, hq, _, hdead⟩ := popHighest_spec env simps subs hp
  have key : ∀ w ∈ q, pairOf w = pr → w ∈ q' := by
    intro w hw hpw
    rw [hq] at hw
    rcases List.mem_append.1 hw with h | h
    · have := hdead w h
      have hlive : live env simps subs w = true := by
        rw [live_iff]; rw [hpw]; exact ⟨by rw [← hpw] at hpr; exact hpr, hl⟩
      rw [hlive] at this; exact absurd this (by simp)
    · rcases List.mem_cons.1 h with h | h
      · subst h; exact absurd hpw.symm hne
      · exact h
  obtain ⟨x, o⟩ := pr
  cases o with
  | none =>
    obtain ⟨w, hw, a, c, d⟩ := hc
    exact ⟨w, key w hw (by simp [pairOf, a, c]), a, c, d⟩
  | some ss =>
    obtain ⟨w, hw, a, c⟩ := hc
    exact ⟨w, key w hw (by simp [pairOf, a, c]), a, c⟩

/-- `_ask_best_point`: if the chosen (sub)simplex really was subdivided (ghost), the queue stays complete -/
theorem askBest_cover (env : Env α) (hG : SubGeom env) {s s' : State α} {vs : List Pt} {r : Pt × α}
    (ht : s.tri = some vs) (hc : Cover env s) (h : askBest env s vs = .ok (r, s')) :
    (s'.book.geomOK = true → s.book.geomOK = true) ∧ (s'.book.geomOK = true → Cover env s') := by
  obtain ⟨e, q, s2, hp, _, h2, rfl⟩ := askBest_form env h
  have hq0 : QCov env (env.triSimps vs.length) s.losses
      { s.book with queue := q, p2s := put r.1 e.simplex s.book.p2s } (some (pairOf e)) := by
    intro pr hpr hl hne
    have hne' : pr ≠ pairOf e := fun c => hne (by rw [c])
    have hcov := hc pr.1 (by simp only [ht, simplices]; exact hpr) pr.2 hl
    exact CovP_of_pop env hp pr hpr hl hne' hcov
  obtain ⟨t2, l2, g2, hq2⟩ :=
    tellPending_cov_exc env hG (s := { s with book := { s.book with queue := q, p2s := put r.1 e.simplex s.book.p2s } })
      r.1 (some e.simplex) (some (pairOf e)) ht hq0 h2
  constructor
  · intro hg
    simp only [Bool.and_eq_true] at hg
    rw [g2] at hg; exact hg.1
  · intro hg
    simp only [Bool.and_eq_true, Bool.not_eq_eq_eq_not, Bool.not_true] at hg
    obtain ⟨_, hdead⟩ := hg
    intro x hx o hl
    simp only [t2, simplices] at hx hdead
    have hne : some (x, o) ≠ some (pairOf e) := by
      intro c
      simp only [Option.some.injEq] at c
      have hlive : live env (env.triSimps vs.length) s2.book.subs e = true := by
        have c1 : e.simplex = x := by
          have := congrArg Prod.fst c; simp only [pairOf] at this; exact this.symm
        rw [live_iff, ← c, c1]; exact ⟨hx, hl⟩
      rw [hlive] at hdead; exact absurd hdead (by simp)
    exact hq2 (x, o) hx hl hne

theorem askOne_cover (env : Env α) (hG : SubGeom env) {s s' : State α} {r : Pt × α} (hc : Cover env s)
    (h : askOne env s = .ok (r, s')) :
    (s'.book.geomOK = true → s.book.geomOK = true) ∧ (s'.book.geomOK = true → Cover env s') := by
  rcases askOne_form env h with ⟨p, _, _, h1⟩ | ⟨_, s1, h1, hcase⟩
  · obtain ⟨c, g⟩ := tellPending_cover env hG p none hc h1
    exact ⟨fun hg => g ▸ hg, fun _ => c⟩
  · obtain ⟨c1, g1⟩ := touchTri_cover env hc h1
    rcases hcase with ⟨_, _, h2⟩ | ⟨vs, hvs, h2⟩
    · obtain ⟨c, g⟩ := tellPending_cover env hG (s := { s1 with nrand := s1.nrand + 1 }) _ none c1 h2
      exact ⟨fun hg => g1 ▸ g ▸ hg, fun _ => c⟩
    · obtain ⟨a, b⟩ := askBest_cover env hG hvs c1 h2
      exact ⟨fun hg => g1 ▸ a hg, b⟩

theorem touchTri_geom (env : Env α) {s s' : State α} (h : touchTri env s = .ok s') :
    s'.book.geomOK = s.book.geomOK := by
  unfold touchTri at h
  cases ht : s.tri with
  | some vs => rw [ht] at h; simp only [Except.ok.injEq] at h; subst h; rfl
  | none =>
    rw [ht] at h
    simp only at h
    split at h
    · exact (updateLosses_cov (s := { s with tri := some s.data }) env [] _ rfl h).1
    · simp only [Except.ok.injEq] at h; subst h; rfl

theorem tellPending_geom (env : Env α) {s s' : State α} (p : Pt) (hint : Option Simplex)
    (h : tellPending env s p hint = .ok s') : s'.book.geomOK = s.book.geomOK := by
  rcases tellPending_form env p hint h with ⟨_, rfl⟩ | ⟨_, s1, b, h1, rfl, hb⟩
  · rfl
  · have g1 := touchTri_geom env h1
    rcases hb with rfl | ⟨vs, sx, _, hloop⟩
    · exact g1
    · exact (pendLoop_frame env _ _ p _ hloop).trans g1

theorem askOne_geom (env : Env α) {s s' : State α} {r : Pt × α} (h : askOne env s = .ok (r, s')) :
    s'.book.geomOK = true → s.book.geomOK = true := by
  intro hg
  rcases askOne_form env h with ⟨p, _, _, h1⟩ | ⟨_, s1, h1, hcase⟩
  · rw [← tellPending_geom env p none h1]; exact hg
  · have g1 := touchTri_geom env h1
    rcases hcase with ⟨_, _, h2⟩ | ⟨vs, _, h2⟩
    · rw [← g1, ← tellPending_geom env _ none h2]; exact hg
    · obtain ⟨e, q, s2, _, _, h3, rfl⟩ := askBest_form env h2
      simp only [Bool.and_eq_true] at hg
      rw [← g1, ← tellPending_geom env _ _ h3]; exact hg.1

theorem askLoop_geom (env : Env α) (n : Nat) : ∀ {s s' : State α} {rs : List (Pt × α)},
    askLoop env n s = .ok (rs, s') → s'.book.geomOK = true → s.book.geomOK = true := by
  induction n with
  | zero =>
    intro s s' rs h
    simp only [askLoop, Except.ok.injEq, Prod.mk.injEq] at h
    rw [← h.2]; exact id
  | succ n ih =>
    intro s s' rs h hg
    unfold askLoop at h
    split at h
    · exact absurd h (by simp)
    · rename_i r s1 h1
      split at h
      · exact absurd h (by simp)
      · rename_i rs' s2 h2
        simp only [Except.ok.injEq, Prod.mk.injEq] at h
        rw [← h.2] at hg
        exact askOne_geom env h1 (ih h2 hg)

theorem askLoop_cover (env : Env α) (hG : SubGeom env) (n : Nat) : ∀ {s s' : State α} {rs : List (Pt × α)},
    Cover env s → askLoop env n s = .ok (rs, s') → s'.book.geomOK = true → Cover env s' := by
  induction n with
  | zero =>
    intro s s' rs hc h _
    simp only [askLoop, Except.ok.injEq, Prod.mk.injEq] at h
    rw [← h.2]; exact hc
  | succ n ih =>
    intro s s' rs hc h hg
    unfold askLoop at h
    split at h
    · exact absurd h (by simp)
    · rename_i r s1 h1
      split at h
      · exact absurd h (by simp)
      · rename_i rs' s2 h2
        simp only [Except.ok.injEq, Prod.mk.injEq] at h
        rw [← h.2] at hg ⊢
        have hg1 : s1.book.geomOK = true := askLoop_geom env n h2 hg
        exact ih ((askOne_cover env hG hc h1).2 hg1) h2 hg

theorem mem_requeueEntries (losses : List (Simplex × α)) (e : QE α) :
    e ∈ requeueEntries losses ↔ e.sub = none ∧ e.simplex ∈ keys losses ∧ get? e.simplex losses = some e.loss := by
  unfold requeueEntries
  simp only [List.mem_filterMap, Option.map_eq_some_iff]
  constructor
  · rintro ⟨x, hx, L, hL, rfl⟩
    exact ⟨rfl, hx, hL⟩
  · rintro ⟨h1, h2, h3⟩
    refine ⟨e.simplex, h2, e.loss, h3, ?_⟩
    cases e; simp only at h1; subst h1; rfl

/-- the queue `remove_unfinished` rebuilds holds exactly one kind of entry: `(loss, simplex, None)` for the items
of `_losses` -/
theorem removeUnfinished_queue (env : Env α) (s : State α) (e : QE α) :
    e ∈ (removeUnfinished env s).book.queue ↔
      e.sub = none ∧ e.simplex ∈ keys s.losses ∧ get? e.simplex s.losses = some e.loss := by
  rw [← mem_requeueEntries]
  simp only [removeUnfinished]
  rw [mem_foldl_qinsert env (fun e => e)]
  simp

theorem removeUnfinished_cover (env : Env α) (s : State α) (hk : KeysInv env s) :
    Cover env (removeUnfinished env s) := by
  intro x hx o hl
  have hx' : x ∈ simplices env s.tri := hx
  cases o with
  | some ss =>
    simp only [liveSub, removeUnfinished, get?, List.find?_nil, Option.map_none] at hl
    obtain ⟨_, h0, _⟩ := hl
    exact absurd h0 (by simp)
  | none =>
    have hkx : x ∈ keys s.losses := (hk x).2 hx'
    obtain ⟨L, hL⟩ := Option.isSome_iff_exists.1 ((get?_isSome_iff x s.losses).2 hkx)
    refine ⟨⟨L, x, none⟩, ?_, rfl, rfl, hL⟩
    rw [removeUnfinished_queue]
    exact ⟨rfl, hkx, hL⟩

/-- the invariant of `lnd_queue_complete`: as long as the ghost says every chosen (sub)simplex was subdivided,
the queue is complete -/
def QInv (env : Env α) (s : State α) : Prop := s.book.geomOK = true → Cover env s

theorem step_qinv (env : Env α) (hR : ReportExact env) (hG : SubGeom env) {s s' : State α} (op : Op α)
    (hk : KeysInv env s) (hq : QInv env s) (h : step env s op = .ok s') : QInv env s' := by
  cases op with
  | tell p a b =>
    intro hg
    have g := fun hc => (tell_cover env hR p a b hc h).2
    -- geomOK is unchanged by `tell`; obtain it without assuming the cover
    have g' : s'.book.geomOK = s.book.geomOK := by
      rcases tell_form env p a b h with ⟨_, rfl⟩ | ⟨_, s1, h1, hcase⟩
      · rfl
      · have g1 := touchTri_geom env h1
        rcases hcase with ⟨_, rfl⟩ | ⟨_, s3, h3, hcase⟩
        · exact g1
        · have g3 : s3.book.geomOK = s1.book.geomOK := by
            obtain ⟨r, m, hf | hf⟩ := updateRange_form env { s1 with data := s1.data ++ [p] } a b
            · rw [hf] at h3
              unfold recomputeAll at h3
              split at h3
              · exact absurd h3 (by simp)
              · rename_i s4 h4
                have g4 := touchTri_geom env h4
                split at h3
                · simp only [Except.ok.injEq] at h3; subst h3; exact g4
                · split at h3
                  · exact absurd h3 (by simp)
                  · rename_i l b' hl
                    simp only [Except.ok.injEq] at h3; subst h3
                    exact (addLoop_cov env _ _ [] _ hl).1.trans g4
            · rw [hf] at h3; simp only [Except.ok.injEq] at h3; subst h3; rfl
          rcases hcase with ⟨_, rfl⟩ | ⟨vs, hint, D, A, _, _, hu⟩
          · exact g3.trans g1
          · exact ((updateLosses_cov (s := { s3 with tri := some (vs ++ [p]) }) env D A rfl hu).1.trans g3).trans g1
    exact (tell_cover env hR p a b (hq (g' ▸ hg)) h).1
  | tellPending p =>
    intro hg
    have g := tellPending_geom env p none h
    exact (tellPending_cover env hG p none (hq (g ▸ hg)) h).1
  | ask n c =>
    simp only [step] at h
    cases ha : ask env s n c with
    | error e => rw [ha] at h; simp [Except.map] at h
    | ok r =>
      rw [ha] at h
      simp only [Except.map, Except.ok.injEq] at h
      subst h
      unfold ask at ha
      split at ha
      · exact absurd ha (by simp)
      · rename_i rs' s1 h1
        simp only [Except.ok.injEq] at ha
        subst ha
        cases c
        · exact hq
        · intro hg
          simp only [if_true] at hg ⊢
          exact askLoop_cover env hG n (hq (askLoop_geom env n h1 hg)) h1 hg
  | removeUnfinished =>
    simp only [step, Except.ok.injEq] at h
    subst h
    intro _
    exact removeUnfinished_cover env s hk
  | loss =>
    simp only [step] at h
    cases ha : lossOp env s with
    | error e => rw [ha] at h; simp [Except.map] at h
    | ok r =>
      rw [ha] at h
      simp only [Except.map, Except.ok.injEq] at h
      subst h
      unfold lossOp at ha
      split at ha
      · exact absurd ha (by simp)
      · rename_i s1 h1
        have g1 := touchTri_geom env h1
        intro hg
        split at ha <;>
          (simp only [Except.ok.injEq] at ha; subst ha; exact (touchTri_cover env (hq (g1 ▸ hg)) h1).1)

theorem run_qinv (env : Env α) (hR : ReportExact env) (hG : SubGeom env) (ops : List (Op α)) :
    ∀ {s s' : State α}, KeysInv env s → QInv env s → run env s ops = .ok s' → QInv env s' := by
  induction ops with
  | nil => intro s s' _ hq h; simp only [run, Except.ok.injEq] at h; subst h; exact hq
  | cons op ops ih =>
    intro s s' hk hq h
    unfold run at h
    split at h
    · exact absurd h (by simp)
    · rename_i s1 h1
      exact ih (step_keys env hR op hk h1) (step_qinv env hR hG op hk hq h1) h

theorem init_qinv (env : Env α) : QInv env (init env) := by
  intro _ x hx; simp [init, simplices] at hx

end LND
