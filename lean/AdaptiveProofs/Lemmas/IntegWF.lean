import AdaptiveProofs.Lemmas.IntegThread
/-!
C07 (deepening): WELL-FORMEDNESS of the interval forest, in every reachable state.
Children have larger numbers than their parent and point back to it, an interval is among the children of its parent,
children are listed once, and the end points obey the midpoint relation of `split`
(children of `[a, b]` are `[a, m]` and `[m, b]`; `refine` keeps `[a, b]`).
-/
set_option linter.unusedSectionVars false
set_option linter.unusedSimpArgs false
set_option linter.unusedVariables false
namespace Integ
namespace Cut
open Safe
variable {α : Type} [OfNat α 0] [DecidableEq α] [Div α] [OfNat α 2] [LT α] [DecidableLT α] [Sub α] [Mul α] [Add α] [Neg α]

/-- the midpoint relation at interval `j`: childless, or two children that share the midpoint and span `j` -/
def GeoAt (F : Forest α) (j : Nat) : Prop :=
  (getI F j).children = [] ∨ ∃ c1 c2, (getI F j).children = [c1, c2] ∧
    (getI F c1).a = (getI F j).a ∧ (getI F c1).b = (getI F c2).a ∧ (getI F c2).b = (getI F j).b

structure WF (F : Forest α) : Prop where
  child : ∀ j, ∀ c ∈ (getI F j).children, j < c ∧ c < F.length ∧ (getI F c).parent = some j
  par : ∀ j p, (getI F j).parent = some p → p < j ∧ j ∈ (getI F p).children
  nodup : ∀ j, (getI F j).children.Nodup
  geo : ∀ j, GeoAt F j

/-- frame of everything but `doneLeaves` -/
def SkS (F F' : Forest α) : Prop :=
  F'.length = F.length ∧ ∀ j, (getI F' j).a = (getI F j).a ∧ (getI F' j).b = (getI F j).b ∧
    (getI F' j).parent = (getI F j).parent ∧ (getI F' j).children = (getI F j).children

theorem SkS.refl (F : Forest α) : SkS F F := ⟨rfl, fun _ => ⟨rfl, rfl, rfl, rfl⟩⟩
theorem SkS.trans {F G H : Forest α} (h1 : SkS F G) (h2 : SkS G H) : SkS F H :=
  ⟨h2.1.trans h1.1, fun j => ⟨(h2.2 j).1.trans (h1.2 j).1, (h2.2 j).2.1.trans (h1.2 j).2.1,
    (h2.2 j).2.2.1.trans (h1.2 j).2.2.1, (h2.2 j).2.2.2.trans (h1.2 j).2.2.2⟩⟩
theorem Sk.toS {F G : Forest α} (h : Sk F G) : SkS F G := ⟨h.1, fun j => ⟨h.a j, h.b j, h.parent j, h.children j⟩⟩

theorem modAt_skS (F : Forest α) (i : Nat) (f : Ival α → Ival α)
    (hf : ∀ I, (f I).a = I.a ∧ (f I).b = I.b ∧ (f I).parent = I.parent ∧ (f I).children = I.children) :
    SkS F (modAt F i f) := by
  refine ⟨modAt_length _ _ _, fun j => ?_⟩
  rw [getI_modAt]
  split
  · rename_i h
    rw [h.1]; exact hf _
  · exact ⟨rfl, rfl, rfl, rfl⟩

theorem WF.of_skS {F G : Forest α} (hs : SkS F G) (h : WF F) : WF G := by
  refine ⟨?_, ?_, ?_, ?_⟩
  · intro j c hc
    rw [(hs.2 j).2.2.2] at hc
    rw [hs.1, (hs.2 c).2.2.1]
    exact h.child j c hc
  · intro j p hp
    rw [(hs.2 j).2.2.1] at hp
    rw [(hs.2 p).2.2.2]
    exact h.par j p hp
  · intro j; rw [(hs.2 j).2.2.2]; exact h.nodup j
  · intro j
    unfold GeoAt
    rw [(hs.2 j).2.2.2, (hs.2 j).1, (hs.2 j).2.1]
    rcases h.geo j with h0 | ⟨c1, c2, h1, h2, h3, h4⟩
    · exact Or.inl h0
    · exact Or.inr ⟨c1, c2, h1, by rw [(hs.2 c1).1]; exact h2, by rw [(hs.2 c1).2.1, (hs.2 c2).1]; exact h3,
        by rw [(hs.2 c2).2.1]; exact h4⟩

theorem walkStep_skS (F : Forest α) (p : Nat) (old : List Nat) (F' : Forest α) (old' : List Nat)
    (h : walkStep F p old = some (F', old')) : SkS F F' := by
  simp only [walkStep] at h
  split at h
  · simp only [Option.some.injEq, Prod.mk.injEq] at h
    rw [← h.1]
    refine SkS.trans ?_ (modAt_skS _ _ _ (fun I => ⟨rfl, rfl, rfl, rfl⟩))
    refine foldl_inv (fun (r : List Nat × Forest α) => SkS F r.2) _ ?_ _ _ (SkS.refl F)
    intro r c hr
    split
    · exact hr
    · exact SkS.trans hr (modAt_skS _ _ _ (fun I => ⟨rfl, rfl, rfl, rfl⟩))
  · cases h

theorem walkUp_skS : ∀ (fuel : Nat) (F : Forest α) (p : Option Nat) (old : List Nat), SkS F (walkUp fuel F p old)
  | 0, F, _, _ => by simp only [walkUp]; exact SkS.refl F
  | fuel + 1, F, none, _ => by simp only [walkUp]; exact SkS.refl F
  | fuel + 1, F, some p, old => by
    simp only [walkUp]
    split
    · exact SkS.refl F
    · rename_i F' old' h
      exact (walkStep_skS F p old F' old' h).trans (walkUp_skS fuel F' _ old')

theorem propagateDone_skS (F : Forest α) (i : Nat) : SkS F (propagateDone F i) := by
  simp only [propagateDone]
  split
  · refine SkS.trans ?_ (walkUp_skS _ _ _ _)
    exact modAt_skS _ _ _ (fun I => ⟨rfl, rfl, rfl, rfl⟩)
  · exact SkS.refl F

/-! ### `split` -/
theorem getI_ge (F : Forest α) (j : Nat) (h : F.length ≤ j) : getI F j = dummy := by
  simp only [getI, List.getD_eq_getElem?_getD]
  rw [List.getElem?_eq_none h]; rfl

theorem getI_splitF (F : Forest α) (i : Nat) (m : α) (j : Nat) :
    getI (splitF F i m) j =
      if j < F.length then
        (if j = i then { getI F i with children := [F.length, F.length + 1] } else getI F j)
      else if j = F.length then mkChild (getI F i) i (getI F i).a m
      else if j = F.length + 1 then mkChild (getI F i) i m (getI F i).b
      else dummy := by
  by_cases hj : j < F.length
  · rw [if_pos hj]
    have h1 : getI (splitF F i m) j = getI (modAt F i (fun I => { I with children := [F.length, F.length + 1] })) j := by
      simp only [getI, splitF, List.getD_eq_getElem?_getD]
      rw [List.getElem?_append_left (by rw [modAt_length]; exact hj)]
    rw [h1, getI_modAt]
    by_cases hji : j = i
    · rw [if_pos ⟨hji, hji ▸ hj⟩, if_pos hji]
    · rw [if_neg (fun hh => hji hh.1), if_neg hji]
  · rw [if_neg hj]
    simp only [getI, splitF, List.getD_eq_getElem?_getD]
    rw [List.getElem?_append_right (by rw [modAt_length]; omega), modAt_length]
    by_cases h1 : j = F.length
    · rw [if_pos h1, h1]; simp
    · rw [if_neg h1]
      by_cases h2 : j = F.length + 1
      · rw [if_pos h2, h2]; simp
      · rw [if_neg h2]
        have : j - F.length = (j - F.length - 2) + 2 := by omega
        rw [this]; simp

theorem dummy_children : (dummy : Ival α).children = [] := rfl
theorem dummy_parent : (dummy : Ival α).parent = none := rfl
theorem dummy_dl : (dummy : Ival α).doneLeaves = some [] := rfl

theorem children_ge {F : Forest α} (j : Nat) (h : F.length ≤ j) : (getI F j).children = [] := by
  rw [getI_ge F j h]; rfl

theorem splitF_children (F : Forest α) (i : Nat) (m : α) (hi : i < F.length) (j : Nat) :
    (getI (splitF F i m) j).children = if j = i then [F.length, F.length + 1] else (getI F j).children := by
  rw [getI_splitF]
  by_cases hj : j < F.length
  · by_cases hji : j = i
    · simp [hj, hji, hi]
    · simp [hj, hji]
  · have hd := children_ge (F := F) j (by omega)
    have h3 : ¬ F.length + 1 < F.length := by omega
    have h4 : ¬ F.length + 1 = F.length := by omega
    by_cases h1 : j = F.length
    · subst h1
      have hne : ¬ F.length = i := by omega
      simp [mkChild, hd, hne]
    · by_cases h2 : j = F.length + 1
      · subst h2
        have hne : ¬ F.length + 1 = i := by omega
        simp [mkChild, hd, hne, h3, h4]
      · have hji : ¬ j = i := by omega
        simp [hj, hji, h1, h2, hd, dummy_children]

theorem splitF_parent (F : Forest α) (i : Nat) (m : α) (hi : i < F.length) (j : Nat) :
    (getI (splitF F i m) j).parent = if j = F.length ∨ j = F.length + 1 then some i else (getI F j).parent := by
  rw [getI_splitF]
  by_cases hj : j < F.length
  · have h12 : ¬ (j = F.length ∨ j = F.length + 1) := by omega
    by_cases hji : j = i
    · simp [hj, hji, hi, h12]
      intro hh; omega
    · simp [hj, hji, h12]
  · have h3 : ¬ F.length + 1 < F.length := by omega
    have h4 : ¬ F.length + 1 = F.length := by omega
    by_cases h1 : j = F.length
    · subst h1; simp [mkChild]
    · by_cases h2 : j = F.length + 1
      · subst h2; simp [mkChild, h3, h4]
      · simp [hj, h1, h2, getI_ge F j (by omega), dummy_parent]

theorem splitF_dl (F : Forest α) (i : Nat) (m : α) (j : Nat) :
    (getI (splitF F i m) j).doneLeaves = (getI F j).doneLeaves := by
  rw [getI_splitF]
  by_cases hj : j < F.length
  · by_cases hji : j = i
    · subst hji; simp [hj]
    · simp [hj, hji]
  · have hd : (getI F j).doneLeaves = some [] := by rw [getI_ge F j (by omega)]; rfl
    have h3 : ¬ F.length + 1 < F.length := by omega
    have h4 : ¬ F.length + 1 = F.length := by omega
    by_cases h1 : j = F.length
    · subst h1; simp [mkChild, hd]
    · by_cases h2 : j = F.length + 1
      · subst h2; simp [mkChild, hd, h3, h4]
      · simp [hj, h1, h2, hd, dummy_dl]

theorem WF.splitF {F : Forest α} (h : WF F) (i : Nat) (m : α) (hi : i < F.length) (hc : (getI F i).children = []) :
    WF (splitF F i m) := by
  have hch := splitF_children F i m hi
  have hpar := splitF_parent F i m hi
  refine ⟨?_, ?_, ?_, ?_⟩
  · intro j c hcm
    rw [hch] at hcm
    rw [splitF_length, hpar]
    by_cases hji : j = i
    · rw [if_pos hji] at hcm
      simp only [List.mem_cons, List.not_mem_nil, or_false] at hcm
      rw [if_pos hcm, hji]
      rcases hcm with e | e <;> (rw [e]; refine ⟨by omega, by omega, rfl⟩)
    · rw [if_neg hji] at hcm
      have := h.child j c hcm
      rw [if_neg (by omega)]
      exact ⟨this.1, by omega, this.2.2⟩
  · intro j p hp
    rw [hpar] at hp
    rw [hch]
    by_cases hj : j = F.length ∨ j = F.length + 1
    · rw [if_pos hj] at hp
      cases hp
      rw [if_pos rfl]
      rcases hj with e | e <;> (rw [e]; exact ⟨by omega, by simp⟩)
    · rw [if_neg hj] at hp
      have := h.par j p hp
      refine ⟨this.1, ?_⟩
      by_cases hpi : p = i
      · rw [hpi, hc] at this; exact absurd this.2 (List.not_mem_nil)
      · rw [if_neg hpi]; exact this.2
  · intro j
    rw [hch]
    split
    · simp
    · exact h.nodup j
  · intro j
    unfold GeoAt
    rw [hch]
    by_cases hji : j = i
    · rw [if_pos hji]
      refine Or.inr ⟨F.length, F.length + 1, rfl, ?_, ?_, ?_⟩
      · rw [getI_splitF, if_neg (by omega), if_pos rfl, getI_splitF, if_pos (hji ▸ hi), if_pos hji]; rfl
      · rw [getI_splitF, if_neg (by omega), if_pos rfl, getI_splitF, if_neg (by omega), if_neg (by omega), if_pos rfl]; rfl
      · rw [getI_splitF F i m (F.length + 1), if_neg (by omega), if_neg (by omega), if_pos rfl, getI_splitF,
          if_pos (hji ▸ hi), if_pos hji]; rfl
    · rw [if_neg hji]
      rcases h.geo j with h0 | ⟨c1, c2, h1, h2, h3, h4⟩
      · exact Or.inl h0
      · have hc1 := h.child j c1 (by rw [h1]; simp)
        have hc2 := h.child j c2 (by rw [h1]; simp)
        have hab : ∀ c, c < F.length → (getI (Cut.splitF F i m) c).a = (getI F c).a ∧
            (getI (Cut.splitF F i m) c).b = (getI F c).b := by
          intro c hcl
          rw [getI_splitF, if_pos hcl]
          split
          · rename_i e; rw [e]; exact ⟨rfl, rfl⟩
          · exact ⟨rfl, rfl⟩
        have hjl : j < F.length := by omega
        refine Or.inr ⟨c1, c2, h1, ?_, ?_, ?_⟩
        · rw [(hab c1 hc1.2.1).1, (hab j hjl).1]; exact h2
        · rw [(hab c1 hc1.2.1).2, (hab c2 hc2.2.1).1]; exact h3
        · rw [(hab c2 hc2.2.1).2, (hab j hjl).2]; exact h4

theorem WF.root (a b e : α) : WF (rootF a b e) := by
  have hg : ∀ j, (getI (rootF a b e) j).children = [] ∧ (getI (rootF a b e) j).parent = none := by
    intro j
    cases j with
    | zero => exact ⟨rfl, rfl⟩
    | succ j => rw [getI_ge _ _ (by simp [rootF])]; exact ⟨rfl, rfl⟩
  refine ⟨?_, ?_, ?_, ?_⟩
  · intro j c hc; rw [(hg j).1] at hc; cases hc
  · intro j p hp; rw [(hg j).2] at hp; cases hp
  · intro j; rw [(hg j).1]; exact List.nodup_nil
  · intro j; exact Or.inl (hg j).1

theorem pres_WF : Pres (WF (α := α)) where
  frame := fun hs h => h.of_skS hs.toS
  prop := fun F i h => h.of_skS (propagateDone_skS F i)
  split := fun F i m h hi hc => h.splitF i m hi hc

/-- the forest of every reachable state is well formed -/
theorem wf_reach (O : Oracle α) (P : Params α) (a b e : α) (ops : List (Op α)) :
    WF (run O P (start O P a b e) ops).F :=
  (reach_keep pres_WF O P a b e (WF.root a b e) ops).1

end Cut
end Integ
