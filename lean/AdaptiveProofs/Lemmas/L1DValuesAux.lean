import AdaptiveProofs.Lemmas.L1DInv
import AdaptiveProofs.Lemmas.L1DScale
import Mathlib.Data.List.Induction

/-!
# Learner1D model: the VALUE invariant, part 1 — the combined table

Definitions `getLossAt`, `RealVals`, `CombVals` and the proof that `CombVals` holds in every
reachable state (`combVals_step`, `combVals_run`).  For arbitrary `lossFn`, `r12`; no validity
hypothesis on the operations.
-/
set_option linter.unusedSectionVars false
set_option linter.unusedVariables false

namespace L1D
variable {α : Type} [Field α] [LinearOrder α] [IsStrictOrderedRing α]

/-! ## statement-level definitions -/

/-- the loss function's value on the data of `s`, normalised with the output scale `sy` -/
def getLossAt (lossFn : List (Option α) → List (Option (List α)) → Loss α) (s : State α) (sy : α)
    (a b : α) : Loss α :=
  getLoss lossFn { s with scaleY := sy } a b

/-- every evaluated interval holds the loss function's value on the CURRENT data at an output
scale between `oldScaleY` and `scaleY` -/
def RealVals (lossFn : List (Option α) → List (Option (List α)) → Loss α) (s : State α) : Prop :=
  ∀ iv ∈ pairs s.xs, ∃ sy, s.oldScaleY ≤ sy ∧ sy ≤ s.scaleY ∧
    lget iv s.losses = some (getLossAt lossFn s sy iv.1 iv.2)

/-- every combined interval `(a, b)`: if it lies inside an evaluated interval `(l, r)` its expected
loss is `(b - a) * L(l, r) / (r - l)`; otherwise (no evaluated point `≤ a`, or none `≥ b`) it is
infinite -/
def CombVals (s : State α) : Prop :=
  ∀ a b, (a, b) ∈ pairs s.xsC →
    (∃ l r L, (l, r) ∈ pairs s.xs ∧ l ≤ a ∧ b ≤ r ∧ lget (l, r) s.losses = some L ∧
              lget (a, b) s.lossesC = some (Loss.mulDiv (b - a) L (r - l)))
    ∨ ((∀ x ∈ s.xs, a < x) ∨ (∀ x ∈ s.xs, x < b)) ∧ lget (a, b) s.lossesC = some .inf

/-- where the code copies a loss instead of computing the proportion the formula is the same -/
theorem mulDiv_self {c : α} (hc : c ≠ 0) (L : Loss α) : Loss.mulDiv c L c = L := by
  cases L with
  | fin v => simp only [Loss.mulDiv]; rw [mul_div_cancel_left₀ v hc]
  | inf => rfl

theorem mulDiv_sub_self {a b : α} (hab : a ≠ b) (L : Loss α) :
    Loss.mulDiv (b - a) L (b - a) = L :=
  mulDiv_self (sub_ne_zero.2 (Ne.symm hab)) L

/-! ## list-level form of `CombVals` -/

/-- the piece `(a, b)` holds its share of the loss stored for `(l, r)` -/
def PieceOK (losses lossesC : List (Ival α × Loss α)) (l r a b : α) : Prop :=
  ∃ L, lget (l, r) losses = some L ∧ lget (a, b) lossesC = some (Loss.mulDiv (b - a) L (r - l))

def CombV (xs xsC : List α) (losses lossesC : List (Ival α × Loss α)) : Prop :=
  ∀ a b, (a, b) ∈ pairs xsC →
    (∃ l r, (l, r) ∈ pairs xs ∧ l ≤ a ∧ b ≤ r ∧ PieceOK losses lossesC l r a b)
    ∨ ((∀ x ∈ xs, a < x) ∨ (∀ x ∈ xs, x < b)) ∧ lget (a, b) lossesC = some .inf

theorem combVals_iff {s : State α} : CombVals s ↔ CombV s.xs s.xsC s.losses s.lossesC := by
  unfold CombVals CombV PieceOK
  constructor
  · intro h a b hab
    rcases h a b hab with ⟨l, r, L, h1, h2, h3, h4, h5⟩ | h
    · exact Or.inl ⟨l, r, h1, h2, h3, L, h4, h5⟩
    · exact Or.inr h
  · intro h a b hab
    rcases h a b hab with ⟨l, r, h1, h2, h3, L, h4, h5⟩ | h
    · exact Or.inl ⟨l, r, L, h1, h2, h3, h4, h5⟩
    · exact Or.inr h

/-! ## geometry of enclosing intervals -/

theorem leftOf_of_pair {l : List α} (hs : l.Pairwise (· < ·)) {u x : α} (h : (u, x) ∈ pairs l) :
    leftOf x l = some u := by
  obtain ⟨hu, _, hux, hz⟩ := (mem_pairs_iff_adj hs).1 h
  rw [leftOf_eq_some hs]
  refine ⟨hu, hux, fun z hz' hzx => ?_⟩
  rcases hz z hz' with h1 | h1
  · exact h1
  · exact absurd hzx (not_lt.2 h1)

theorem rightOf_of_pair {l : List α} (hs : l.Pairwise (· < ·)) {x v : α} (h : (x, v) ∈ pairs l) :
    rightOf x l = some v := by
  obtain ⟨_, hv, hxv, hz⟩ := (mem_pairs_iff_adj hs).1 h
  rw [rightOf_eq_some hs]
  refine ⟨hv, hxv, fun z hz' hzx => ?_⟩
  rcases hz z hz' with h1 | h1
  · exact absurd hzx (not_lt.2 h1)
  · exact h1

/-- the neighbours of a point that is not in the list form a pair -/
theorem pair_of_leftOf_rightOf {l : List α} (hs : l.Pairwise (· < ·)) {x p q : α} (hx : x ∉ l)
    (hp : leftOf x l = some p) (hq : rightOf x l = some q) : (p, q) ∈ pairs l := by
  rw [leftOf_eq_some hs] at hp
  rw [rightOf_eq_some hs] at hq
  rw [mem_pairs_iff_adj hs]
  refine ⟨hp.1, hq.1, lt_trans hp.2.1 hq.2.1, fun z hz => ?_⟩
  rcases lt_trichotomy z x with h | h | h
  · exact Or.inl (hp.2.2 z hz h)
  · exact absurd (h ▸ hz) hx
  · exact Or.inr (hq.2.2 z hz h)

/-- at most one evaluated interval encloses a non-degenerate piece -/
theorem encl_unique {xs : List α} (hs : xs.Pairwise (· < ·)) {l r l' r' a b : α}
    (h1 : (l, r) ∈ pairs xs) (h2 : (l', r') ∈ pairs xs) (hab : a < b)
    (hl : l ≤ a) (hr : b ≤ r) (hl' : l' ≤ a) (hr' : b ≤ r') : (l', r') = (l, r) := by
  obtain ⟨m1, m2, m3, m4⟩ := (mem_pairs_iff_adj hs).1 h1
  obtain ⟨n1, n2, n3, n4⟩ := (mem_pairs_iff_adj hs).1 h2
  have e1 : l' = l := by
    rcases m4 l' n1 with h | h
    · rcases n4 l m1 with h' | h'
      · exact le_antisymm h h'
      · exfalso; linarith
    · exfalso; linarith
  have e2 : r' = r := by
    rcases m4 r' n2 with h | h
    · exfalso; linarith
    · rcases n4 r m2 with h' | h'
      · exfalso; linarith
      · exact le_antisymm h' h
  rw [e1, e2]

/-- a piece with an evaluated point on either side lies inside an evaluated interval -/
theorem encl_exists {xs xsC : List α} (hs : xs.Pairwise (· < ·)) (hsC : xsC.Pairwise (· < ·))
    (hsub : ∀ z ∈ xs, z ∈ xsC) {a b : α} (hab : (a, b) ∈ pairs xsC) {z1 z2 : α}
    (h1 : z1 ∈ xs) (h1' : z1 ≤ a) (h2 : z2 ∈ xs) (h2' : b ≤ z2) :
    ∃ l r, (l, r) ∈ pairs xs ∧ l ≤ a ∧ b ≤ r := by
  obtain ⟨_, _, hlt, hadj⟩ := (mem_pairs_iff_adj hsC).1 hab
  obtain ⟨l, hl⟩ := Option.isSome_iff_exists.1
    (leftOf_isSome.2 ⟨z1, h1, lt_of_le_of_lt h1' hlt⟩ : (leftOf b xs).isSome)
  have hl' := (leftOf_eq_some hs).1 hl
  obtain ⟨r, hr⟩ := Option.isSome_iff_exists.1
    (rightOf_isSome.2 ⟨z2, h2, lt_of_lt_of_le hl'.2.1 h2'⟩ : (rightOf l xs).isSome)
  have hr' := (rightOf_eq_some hs).1 hr
  refine ⟨l, r, right_pair_of_rightOf hs hl'.1 hr, ?_, ?_⟩
  · rcases hadj l (hsub l hl'.1) with h | h
    · exact h
    · exact absurd hl'.2.1 (not_lt.2 h)
  · by_contra hc
    have := hl'.2.2 r hr'.1 (not_le.1 hc)
    exact absurd hr'.2.1 (not_lt.2 this)

/-! ## `lget` through the stages of `updateLosses` -/
section stages
variable (lossFn : List (Option α) → List (Option (List α)) → Loss α) (r12 : α → α)

theorem lget_ulErase {s : State α} {a b : Option α} {k : Ival α}
    (h : ¬(a = some k.1 ∧ b = some k.2)) :
    lget k (ulErase s a b).lossesC = lget k s.lossesC := by
  unfold ulErase
  split
  · exact lget_lerase_ne (by rintro rfl; exact h ⟨rfl, rfl⟩) _
  · rfl

theorem lget_ulErase2_losses {s : State α} {a b : Option α} {k : Ival α}
    (h : ¬(a = some k.1 ∧ b = some k.2)) :
    lget k (ulErase2 s a b).losses = lget k s.losses := by
  unfold ulErase2
  split
  · exact lget_lerase_ne (by rintro rfl; exact h ⟨rfl, rfl⟩) _
  · rfl

theorem lget_ulErase2_lossesC {s : State α} {a b : Option α} {k : Ival α}
    (h : ¬(a = some k.1 ∧ b = some k.2)) :
    lget k (ulErase2 s a b).lossesC = lget k s.lossesC := by
  unfold ulErase2
  split
  · exact lget_lerase_ne (by rintro rfl; exact h ⟨rfl, rfl⟩) _
  · rfl

theorem lget_ulLeft {s : State α} {x : α} {a : Option α} {u : Bool} {k : Ival α} :
    lget k (ulLeft r12 s x a u).lossesC =
      if a = some k.1 ∧ k.2 = x ∧ u = true then some .inf else lget k s.lossesC := by
  obtain ⟨p, q⟩ := k
  unfold ulLeft
  split
  · rename_i a'
    split
    · rename_i hu
      show lget (p, q) (lset r12 s.lossScale (a', x) .inf s.lossesC) = _
      rw [lget_lset]
      by_cases h : (p, q) = (a', x)
      · rw [if_pos h]
        simp only [Prod.mk.injEq] at h
        rw [if_pos ⟨by rw [h.1], h.2, hu⟩]
      · rw [if_neg h, if_neg]
        rintro ⟨h1, h2, -⟩
        simp only [Option.some.injEq] at h1
        exact h (Prod.ext h1.symm h2)
    · rename_i hu
      rw [if_neg (fun h => hu h.2.2)]
  · rw [if_neg (fun h => by simp at h)]

theorem lget_ulRight {s : State α} {x : α} {b : Option α} {u : Bool} {k : Ival α} :
    lget k (ulRight r12 s x b u).lossesC =
      if k.1 = x ∧ b = some k.2 ∧ u = true then some .inf else lget k s.lossesC := by
  obtain ⟨p, q⟩ := k
  unfold ulRight
  split
  · rename_i b'
    split
    · rename_i hu
      show lget (p, q) (lset r12 s.lossScale (x, b') .inf s.lossesC) = _
      rw [lget_lset]
      by_cases h : (p, q) = (x, b')
      · rw [if_pos h]
        simp only [Prod.mk.injEq] at h
        rw [if_pos ⟨h.1, by rw [h.2], hu⟩]
      · rw [if_neg h, if_neg]
        rintro ⟨h1, h2, -⟩
        simp only [Option.some.injEq] at h2
        exact h (Prod.ext h1 h2.symm)
    · rename_i hu
      rw [if_neg (fun h => hu h.2.2)]
  · rw [if_neg (fun h => by simp at h)]

end stages

/-! ## `updInterp` and its folds keep the pieces consistent -/
section upd
variable (lossFn : List (Option α) → List (Option (List α)) → Loss α) (r12 : α → α)

theorem pieceOK_updInterp {s : State α} (hs : s.xs.Pairwise (· < ·))
    (hsC : s.xsC.Pairwise (· < ·)) {p q l r u v : α} (hpq : (p, q) ∈ pairs s.xs)
    (hlr : (l, r) ∈ pairs s.xs) (huv : (u, v) ∈ pairs s.xsC) (hl : l ≤ u) (hr : v ≤ r)
    (h : (p, q) = (l, r) ∨ PieceOK s.losses s.lossesC l r u v) :
    PieceOK (updInterp lossFn r12 s p q).losses (updInterp lossFn r12 s p q).lossesC l r u v := by
  by_cases he : (p, q) = (l, r)
  · simp only [Prod.mk.injEq] at he
    obtain ⟨rfl, rfl⟩ := he
    exact ⟨getLoss lossFn s p q, updInterp_losses_self lossFn r12 s p q,
      updInterp_lossesC_inside lossFn r12 hsC p q huv hl hr⟩
  · obtain ⟨L, h1, h2⟩ := h.resolve_left he
    refine ⟨L, ?_, ?_⟩
    · rw [updInterp_losses_ne lossFn r12 s p q (Ne.symm he)]; exact h1
    · rw [updInterp_lossesC_outside lossFn r12 hsC p q]
      · exact h2
      · rintro ⟨-, h3, h4⟩
        exact he (encl_unique hs hlr hpq (pairs_lt hsC huv) hl hr h3 h4)

theorem pieceOK_foldUpd {s : State α} (hs : s.xs.Pairwise (· < ·))
    (hsC : s.xsC.Pairwise (· < ·)) {ivs : List (Ival α)} (hivs : ∀ iv ∈ ivs, iv ∈ pairs s.xs)
    {l r u v : α} (hlr : (l, r) ∈ pairs s.xs) (huv : (u, v) ∈ pairs s.xsC) (hl : l ≤ u)
    (hr : v ≤ r) (h : (l, r) ∈ ivs ∨ PieceOK s.losses s.lossesC l r u v) :
    PieceOK (foldUpd lossFn r12 s ivs).losses (foldUpd lossFn r12 s ivs).lossesC l r u v := by
  induction ivs generalizing s with
  | nil =>
    rcases h with h | h
    · exact absurd h List.not_mem_nil
    · exact h
  | cons iv ivs ih =>
    show PieceOK (foldUpd lossFn r12 (updInterp lossFn r12 s iv.1 iv.2) ivs).losses
      (foldUpd lossFn r12 (updInterp lossFn r12 s iv.1 iv.2) ivs).lossesC l r u v
    apply ih (s := updInterp lossFn r12 s iv.1 iv.2) hs hsC
      (fun k hk => hivs k (List.mem_cons_of_mem _ hk)) hlr huv
    by_cases hm : (l, r) ∈ ivs
    · exact Or.inl hm
    · right
      apply pieceOK_updInterp lossFn r12 hs hsC (hivs iv (List.mem_cons_self ..)) hlr huv hl hr
      rcases h with h | h
      · rcases List.mem_cons.1 h with h | h
        · exact Or.inl h.symm
        · exact absurd h hm
      · exact Or.inr h

theorem foldUpd_lossesC_outside {s : State α} (hsC : s.xsC.Pairwise (· < ·))
    {ivs : List (Ival α)} {u v : α} (h : ∀ iv ∈ ivs, ¬(iv.1 ≤ u ∧ v ≤ iv.2)) :
    lget (u, v) (foldUpd lossFn r12 s ivs).lossesC = lget (u, v) s.lossesC := by
  induction ivs generalizing s with
  | nil => rfl
  | cons iv ivs ih =>
    show lget (u, v) (foldUpd lossFn r12 (updInterp lossFn r12 s iv.1 iv.2) ivs).lossesC = _
    rw [ih (s := updInterp lossFn r12 s iv.1 iv.2) hsC
      (fun k hk => h k (List.mem_cons_of_mem _ hk)),
      updInterp_lossesC_outside lossFn r12 hsC]
    rintro ⟨-, h1, h2⟩
    exact h iv (List.mem_cons_self ..) ⟨h1, h2⟩

theorem combV_updInterp {s : State α} (hs : s.xs.Pairwise (· < ·))
    (hsC : s.xsC.Pairwise (· < ·)) (hcv : CombV s.xs s.xsC s.losses s.lossesC) {p q : α}
    (hpq : (p, q) ∈ pairs s.xs) :
    CombV s.xs s.xsC (updInterp lossFn r12 s p q).losses
      (updInterp lossFn r12 s p q).lossesC := by
  intro a b hab
  rcases hcv a b hab with ⟨l, r, h1, h2, h3, h4⟩ | ⟨h1, h2⟩
  · exact Or.inl ⟨l, r, h1, h2, h3,
      pieceOK_updInterp lossFn r12 hs hsC hpq h1 hab h2 h3 (Or.inr h4)⟩
  · refine Or.inr ⟨h1, ?_⟩
    rw [updInterp_lossesC_outside lossFn r12 hsC]
    · exact h2
    · rintro ⟨-, h3, h4⟩
      have hm := mem_of_mem_pairs hpq
      rcases h1 with h1 | h1
      · exact absurd (h1 p hm.1) (not_lt.2 h3)
      · exact absurd (h1 q hm.2) (not_lt.2 h4)

theorem combVals_updInterp {s : State α} (hi : Inv s) (h : CombVals s) {p q : α}
    (hpq : (p, q) ∈ pairs s.xs) : CombVals (updInterp lossFn r12 s p q) := by
  rw [combVals_iff] at h ⊢
  exact combV_updInterp lossFn r12 hi.xs_sorted hi.xsC_sorted h hpq

theorem combVals_foldUpd {s : State α} {ivs : List (Ival α)} (hi : Inv s) (h : CombVals s)
    (hivs : ∀ iv ∈ ivs, iv ∈ pairs s.xs) : CombVals (foldUpd lossFn r12 s ivs) := by
  induction ivs generalizing s with
  | nil => exact h
  | cons iv ivs ih =>
    exact ih (inv_updInterp lossFn r12 hi (hivs iv (List.mem_cons_self ..)))
      (combVals_updInterp lossFn r12 hi h (hivs iv (List.mem_cons_self ..)))
      (fun k hk => hivs k (List.mem_cons_of_mem _ hk))

theorem combVals_maybeRescale {s : State α} (hi : Inv s) (h : CombVals s) :
    CombVals (maybeRescale lossFn r12 s) := by
  unfold maybeRescale
  split
  · have h1 : CombVals (foldUpd lossFn r12 s (s.losses.map Prod.fst).reverse) := by
      apply combVals_foldUpd lossFn r12 hi h
      intro iv hiv
      rw [List.mem_reverse] at hiv
      exact (hi.losses_keys iv).1 hiv
    exact h1
  · exact h

end upd

/-! ## `updateLosses … true` (the table part of `tell`) -/
section tellreal
variable (lossFn : List (Option α) → List (Option (List α)) → Loss α) (r12 : α → α)

theorem combV_updateLosses_true {s : State α} {x : α} {xs0 xsC0 : List α}
    (h0 : xs0.Pairwise (· < ·)) (hC0 : xsC0.Pairwise (· < ·))
    (hxs : s.xs = sinsert x xs0) (hxsC : s.xsC = sinsert x xsC0)
    (hsub : ∀ z ∈ s.xs, z ∈ s.xsC)
    (hcv : CombV xs0 xsC0 s.losses s.lossesC) :
    CombV s.xs s.xsC (updateLosses lossFn r12 s x true).losses
      (updateLosses lossFn r12 s x true).lossesC := by
  have hs : s.xs.Pairwise (· < ·) := hxs ▸ sorted_sinsert h0
  have hsC : s.xsC.Pairwise (· < ·) := hxsC ▸ sorted_sinsert hC0
  have hx : x ∈ s.xs := hxs ▸ mem_sinsert.2 (Or.inl rfl)
  have hxC : x ∈ s.xsC := hsub x hx
  have hsub0 : ∀ z ∈ xs0, z ∈ s.xs := fun z hz => hxs ▸ mem_sinsert.2 (Or.inr hz)
  rw [updateLosses_true_eq]
  simp only [Bool.not_true, Bool.false_and, Bool.or_false]
  -- facts about the first stage
  have hgi := getIntervals_congr (same_ulErase s (leftOf x s.xsC) (rightOf x s.xsC)).1
    (ulErase_nn s (leftOf x s.xsC) (rightOf x s.xsC)) x
  have e1xs : (ulErase s (leftOf x s.xsC) (rightOf x s.xsC)).xs = s.xs := (same_ulErase s _ _).1
  have e1xsC : (ulErase s (leftOf x s.xsC) (rightOf x s.xsC)).xsC = s.xsC :=
    (same_ulErase s _ _).2.1
  have e1l := ulErase_losses s (leftOf x s.xsC) (rightOf x s.xsC)
  have e1lC : ∀ k : Ival α, ¬(leftOf x s.xsC = some k.1 ∧ rightOf x s.xsC = some k.2) →
      lget k (ulErase s (leftOf x s.xsC) (rightOf x s.xsC)).lossesC = lget k s.lossesC :=
    fun k hk => lget_ulErase hk
  rw [hgi]
  generalize ulErase s (leftOf x s.xsC) (rightOf x s.xsC) = s1 at e1xs e1xsC e1l e1lC ⊢
  have hs1 : s1.xs.Pairwise (· < ·) := e1xs ▸ hs
  have hs1C : s1.xsC.Pairwise (· < ·) := e1xsC ▸ hsC
  have hgsub : ∀ iv ∈ getIntervals s x, iv ∈ pairs s1.xs := fun iv hiv =>
    e1xs ▸ getIntervals_sub hiv
  intro u v huv
  have huv_lt : u < v := pairs_lt hsC huv
  -- no pair of the new lists is split by `x`
  have nsC : ¬(u < x ∧ x < v) := fun h => not_straddle hsC hxC huv h.1 h.2
  have nsplitC : ¬(leftOf x s.xsC = some (u, v).1 ∧ rightOf x s.xsC = some (u, v).2) :=
    fun h => nsC ⟨((leftOf_eq_some hsC).1 h.1).2.1, ((rightOf_eq_some hsC).1 h.2).2.1⟩
  have nsplit : ¬(leftOf x s.xs = some (u, v).1 ∧ rightOf x s.xs = some (u, v).2) :=
    fun h => nsC ⟨((leftOf_eq_some hs).1 h.1).2.1, ((rightOf_eq_some hs).1 h.2).2.1⟩
  have nsplitR : ∀ l r, (l, r) ∈ pairs s.xs →
      ¬(leftOf x s.xs = some (l, r).1 ∧ rightOf x s.xs = some (l, r).2) := fun l r hlr h =>
    not_straddle hs hx hlr ((leftOf_eq_some hs).1 h.1).2.1 ((rightOf_eq_some hs).1 h.2).2.1
  -- pairs of the new lists that do not touch `x` are old pairs
  have oldC : u ≠ x → v ≠ x → (u, v) ∈ pairs xsC0 := by
    intro h1 h2
    have := huv
    rw [hxsC, mem_pairs_sinsert' hC0] at this
    rcases this with h | h | h
    · exact h.1
    · exact absurd h.2 h2
    · exact absurd h.1 h1
  by_cases hE : (∃ z1 ∈ s.xs, z1 ≤ u) ∧ (∃ z2 ∈ s.xs, v ≤ z2)
  · obtain ⟨⟨z1, hz1, hz1'⟩, ⟨z2, hz2, hz2'⟩⟩ := hE
    obtain ⟨l, r, hlr, hl, hr⟩ := encl_exists hs hsC hsub huv hz1 hz1' hz2 hz2'
    have hlrm := mem_of_mem_pairs hlr
    refine Or.inl ⟨l, r, hlr, hl, hr, ?_⟩
    have P2 : PieceOK (foldUpd lossFn r12 s1 (getIntervals s x)).losses
        (foldUpd lossFn r12 s1 (getIntervals s x)).lossesC l r u v := by
      apply pieceOK_foldUpd lossFn r12 hs1 hs1C hgsub (e1xs ▸ hlr) (e1xsC ▸ huv) hl hr
      by_cases hg : (l, r) ∈ getIntervals s x
      · exact Or.inl hg
      · right
        -- `(l, r)` is an old evaluated interval and `(u, v)` an old piece
        have hold : (l, r) ∈ pairs xs0 := by
          have := hlr
          rw [hxs, mem_pairs_sinsert' h0] at this
          rcases this with h | h | h
          · exact h.1
          · exfalso
            apply hg
            rw [← leftOf_sinsert h0, ← hxs] at h
            rw [h.2]
            exact left_mem_getIntervals hs hx h.1
          · exfalso
            apply hg
            rw [← rightOf_sinsert h0, ← hxs] at h
            rw [h.1]
            exact right_mem_getIntervals hs hx h.2
        have hadj := ((mem_pairs_iff_adj hs).1 hlr).2.2.2 x hx
        have hvx : v ≠ x := by
          rintro rfl
          apply hg
          have : r = v := by
            rcases hadj with h | h
            · exact absurd (lt_of_le_of_lt hl huv_lt) (not_lt.2 h)
            · exact le_antisymm h hr
          rw [this] at hlr ⊢
          exact left_mem_getIntervals hs hx (leftOf_of_pair hs hlr)
        have hux : u ≠ x := by
          rintro rfl
          apply hg
          have : l = u := by
            rcases hadj with h | h
            · exact le_antisymm hl h
            · exact absurd (lt_of_lt_of_le huv_lt hr) (not_lt.2 h)
          rw [this] at hlr ⊢
          exact right_mem_getIntervals hs hx (rightOf_of_pair hs hlr)
        rcases hcv u v (oldC hux hvx) with ⟨l0, r0, hp, hl0, hr0, L, hL1, hL2⟩ | ⟨hB, -⟩
        · have := encl_unique h0 hold hp huv_lt hl hr hl0 hr0
          simp only [Prod.mk.injEq] at this
          obtain ⟨rfl, rfl⟩ := this
          exact ⟨L, by rw [e1l]; exact hL1, by rw [e1lC _ nsplitC]; exact hL2⟩
        · exfalso
          have hm := mem_of_mem_pairs hold
          rcases hB with hB | hB
          · exact absurd (hB l hm.1) (not_lt.2 hl)
          · exact absurd (hB r hm.2) (not_lt.2 hr)
    obtain ⟨L, hL1, hL2⟩ := P2
    refine ⟨L, ?_, ?_⟩
    · rw [ulRight_losses, ulLeft_losses, lget_ulErase2_losses (nsplitR l r hlr)]
      exact hL1
    · rw [lget_ulRight, if_neg, lget_ulLeft, if_neg, lget_ulErase2_lossesC nsplit]
      · exact hL2
      · rintro ⟨-, h2, h3⟩
        have h2' : v = x := h2
        rw [Option.isNone_iff_eq_none, leftOf_eq_none] at h3
        exact h3 l hlrm.1 (lt_of_le_of_lt hl (h2' ▸ huv_lt))
      · rintro ⟨h1, -, h3⟩
        have h1' : u = x := h1
        rw [Option.isNone_iff_eq_none, rightOf_eq_none] at h3
        exact h3 r hlrm.2 (lt_of_lt_of_le (h1' ▸ huv_lt) hr)
  · right
    have hcond : (∀ z ∈ s.xs, u < z) ∨ (∀ z ∈ s.xs, z < v) := by
      rcases not_and_or.1 hE with h | h
      · exact Or.inl fun z hz => not_le.1 fun hle => h ⟨z, hz, hle⟩
      · exact Or.inr fun z hz => not_le.1 fun hle => h ⟨z, hz, hle⟩
    refine ⟨hcond, ?_⟩
    have hadjC := ((mem_pairs_iff_adj hsC).1 huv).2.2.2
    by_cases hvx : v = x
    · subst hvx
      have hU : ∀ z ∈ s.xs, u < z := by
        rcases hcond with h | h
        · exact h
        · exact absurd (h v hx) (lt_irrefl _)
      have hxl : leftOf v s.xs = none := by
        rw [leftOf_eq_none]
        intro z hz hzv
        rcases hadjC z (hsub z hz) with h | h
        · exact absurd (hU z hz) (not_lt.2 h)
        · exact absurd hzv (not_lt.2 h)
      rw [lget_ulRight, if_neg (fun h => (ne_of_lt huv_lt) h.1), lget_ulLeft,
        if_pos ⟨leftOf_of_pair hsC huv, rfl, by rw [hxl]; rfl⟩]
    · by_cases hux : u = x
      · subst hux
        have hV : ∀ z ∈ s.xs, z < v := by
          rcases hcond with h | h
          · exact absurd (h u hx) (lt_irrefl _)
          · exact h
        have hxr : rightOf u s.xs = none := by
          rw [rightOf_eq_none]
          intro z hz hzv
          rcases hadjC z (hsub z hz) with h | h
          · exact absurd hzv (not_lt.2 h)
          · exact absurd (hV z hz) (not_lt.2 h)
        rw [lget_ulRight, if_pos ⟨rfl, rightOf_of_pair hsC huv, by rw [hxr]; rfl⟩]
      · rcases hcv u v (oldC hux hvx) with ⟨l0, r0, hp, hl0, hr0, -⟩ | ⟨-, hB⟩
        · exfalso
          have hm := mem_of_mem_pairs hp
          exact hE ⟨⟨l0, hsub0 l0 hm.1, hl0⟩, ⟨r0, hsub0 r0 hm.2, hr0⟩⟩
        · rw [lget_ulRight, if_neg (fun h => hux h.1), lget_ulLeft, if_neg (fun h => hvx h.2.1),
            lget_ulErase2_lossesC nsplit, foldUpd_lossesC_outside lossFn r12 hs1C, e1lC _ nsplitC]
          · exact hB
          · intro iv hiv hc
            have hm := mem_of_mem_pairs (show (iv.1, iv.2) ∈ pairs s.xs from getIntervals_sub hiv)
            exact hE ⟨⟨iv.1, hm.1, hc.1⟩, ⟨iv.2, hm.2, hc.2⟩⟩

end tellreal

/-! ## `tell` -/
section tell
variable (lossFn : List (Option α) → List (Option (List α)) → Loss α) (r12 : α → α)

/-- `Inv` already holds before the rescale step of `tell` (the proof of `inv_tell`, stopped one
step earlier) -/
theorem inv_updateLosses_tellPre {s : State α} (hi : Inv s) {x : α} (y : List α)
    (hx : ¬ hasData s x = true) : Inv (updateLosses lossFn r12 (tellPre s x y) x true) := by
  have hxd : x ∉ dkeys s.data := by
    rw [← hasData_iff]; exact hx
  obtain ⟨hp, ht⟩ := inv_iff.1 hi
  rw [inv_iff]
  have hsame := same_updateLosses lossFn r12 (tellPre s x y) x true
  rw [hsame.1, hsame.2.1, hsame.2.2.1, hsame.2.2.2]
  have hp' : PInv (sinsert x s.xs) (sinsert x s.xsC) (s.data ++ [(x, y)]) (s.pending.erase x) := by
    refine ⟨sorted_sinsert hp.xs_sorted, sorted_sinsert hp.xsC_sorted, ?_, ?_, ?_,
      hp.pend_nodup.erase x, ?_⟩
    · intro z
      simp only [mem_sinsert, dkeys, List.map_append, List.mem_append, List.map_cons,
        List.map_nil, List.mem_singleton]
      rw [hp.xs_mem z]; exact or_comm
    · intro z
      simp only [mem_sinsert, dkeys, List.map_append, List.mem_append, List.map_cons,
        List.map_nil, List.mem_singleton]
      rw [hp.xsC_mem z, hp.pend_nodup.mem_erase_iff]
      by_cases hz : z = x
      · simp [hz]
      · simp [hz, dkeys]
    · intro z hz
      rw [hp.pend_nodup.mem_erase_iff] at hz
      simp only [dkeys, List.map_append, List.mem_append, List.map_cons, List.map_nil,
        List.mem_singleton, not_or]
      exact ⟨hp.pend_nodata z hz.2, hz.1⟩
    · simp only [dkeys, List.map_append, List.map_cons, List.map_nil]
      rw [List.nodup_append]
      refine ⟨hp.data_nodup, by simp, ?_⟩
      intro a ha b hb
      simp only [List.mem_singleton] at hb
      subst hb
      rintro rfl
      exact hxd ha
  refine ⟨hp', ?_⟩
  exact tinv_updateLosses_true lossFn r12 (s := tellPre s x y) (xs0 := s.xs) (xsC0 := s.xsC)
    hp.xs_sorted hp.xsC_sorted rfl rfl hp'.sub ht.losses_keys ht.lossesC_keys
    ⟨ht.losses_nodup, ht.lossesC_nodup⟩

theorem inv_sub {s : State α} (hi : Inv s) : ∀ z ∈ s.xs, z ∈ s.xsC :=
  fun z hz => (hi.xsC_mem z).2 (Or.inl ((hi.xs_mem z).1 hz))

theorem combVals_updateLosses_tellPre {s : State α} (hi : Inv s) (h : CombVals s) (x : α)
    (y : List α) : CombVals (updateLosses lossFn r12 (tellPre s x y) x true) := by
  rw [combVals_iff] at h ⊢
  have hsame := same_updateLosses lossFn r12 (tellPre s x y) x true
  rw [hsame.1, hsame.2.1]
  apply combV_updateLosses_true lossFn r12 (s := tellPre s x y) (xs0 := s.xs) (xsC0 := s.xsC)
    hi.xs_sorted hi.xsC_sorted rfl rfl
  · intro z hz
    have hz' : z ∈ sinsert x s.xs := hz
    show z ∈ sinsert x s.xsC
    rw [mem_sinsert] at hz' ⊢
    rcases hz' with h | h
    · exact Or.inl h
    · exact Or.inr (inv_sub hi z h)
  · exact h

theorem combVals_tell {s : State α} (hi : Inv s) (h : CombVals s) (x : α) (y : List α) :
    CombVals (tell lossFn r12 s x y) := by
  rw [tell_eq]
  split
  · exact h
  · rename_i hx
    exact combVals_maybeRescale lossFn r12 (inv_updateLosses_tellPre lossFn r12 hi y hx)
      (combVals_updateLosses_tellPre lossFn r12 hi h x y)

theorem combVals_foldl_tell {s : State α} (hi : Inv s) (h : CombVals s)
    (pts : List (α × List α)) :
    CombVals (pts.foldl (fun s kv => tell lossFn r12 s kv.1 kv.2) s) := by
  induction pts generalizing s with
  | nil => exact h
  | cons p pts ih => exact ih (inv_tell lossFn r12 hi p.1 p.2) (combVals_tell lossFn r12 hi h p.1 p.2)

end tell

/-! ## `updateLosses … false` (`tell_pending`) -/
section pend
variable (lossFn : List (Option α) → List (Option (List α)) → Loss α) (r12 : α → α)

theorem lget_ulPend_ne {s : State α} {x : α} {xl xr a b : Option α} {k : Ival α}
    (h1 : k.1 ≠ x) (h2 : k.2 ≠ x) :
    lget k (ulPend r12 s x xl xr a b).lossesC = lget k s.lossesC := by
  unfold ulPend
  split
  · dsimp only
    rw [lget_lset_ne, lget_lset_ne]
    · rintro rfl; exact h2 rfl
    · rintro rfl; exact h1 rfl
  · rfl

theorem lget_ulPend_left {s : State α} {x xl xr a b : α} (hax : a ≠ x) :
    lget (a, x) (ulPend r12 s x (some xl) (some xr) (some a) (some b)).lossesC =
      some (Loss.mulDiv (x - a) ((lget (xl, xr) s.losses).getD .inf) (xr - xl)) := by
  show lget (a, x) (lset r12 s.lossScale (x, b) _ (lset r12 s.lossScale (a, x) _ s.lossesC)) = _
  rw [lget_lset_ne r12 _ (by intro h; simp only [Prod.mk.injEq] at h; exact hax h.1),
    lget_lset_self]

theorem lget_ulPend_right {s : State α} {x xl xr a b : α} :
    lget (x, b) (ulPend r12 s x (some xl) (some xr) (some a) (some b)).lossesC =
      some (Loss.mulDiv (b - x) ((lget (xl, xr) s.losses).getD .inf) (xr - xl)) := by
  show lget (x, b) (lset r12 s.lossScale (x, b) _ (lset r12 s.lossScale (a, x) _ s.lossesC)) = _
  rw [lget_lset_self]

theorem combV_updateLosses_false {s : State α} {x : α} {xsC0 : List α}
    (hs : s.xs.Pairwise (· < ·)) (hC0 : xsC0.Pairwise (· < ·)) (hxsC : s.xsC = sinsert x xsC0)
    (hsub : ∀ z ∈ s.xs, z ∈ s.xsC) (hx : x ∉ s.xs)
    (hl : ∀ iv, iv ∈ pairs s.xs → iv ∈ tkeys s.losses)
    (hcv : CombV s.xs xsC0 s.losses s.lossesC) :
    CombV s.xs s.xsC (updateLosses lossFn r12 s x false).losses
      (updateLosses lossFn r12 s x false).lossesC := by
  have hsC : s.xsC.Pairwise (· < ·) := hxsC ▸ sorted_sinsert hC0
  have hxC : x ∈ s.xsC := hxsC ▸ mem_sinsert.2 (Or.inl rfl)
  rw [updateLosses_false_eq]
  simp only [Bool.not_false, Bool.true_and]
  rw [ulRight_losses, ulLeft_losses, ulPend_losses, ulErase_losses]
  intro u v huv
  have huv_lt : u < v := pairs_lt hsC huv
  have hadjC := ((mem_pairs_iff_adj hsC).1 huv).2.2.2
  have nsC : ¬(u < x ∧ x < v) := fun h => not_straddle hsC hxC huv h.1 h.2
  have nsplitC : ¬(leftOf x s.xsC = some (u, v).1 ∧ rightOf x s.xsC = some (u, v).2) :=
    fun h => nsC ⟨((leftOf_eq_some hsC).1 h.1).2.1, ((rightOf_eq_some hsC).1 h.2).2.1⟩
  -- what the two neighbours of `x` among the evaluated points say about a piece ending at `x`
  have hmid : ∀ xl xr, leftOf x s.xs = some xl → rightOf x s.xs = some xr →
      (xl, xr) ∈ pairs s.xs ∧ xl < x ∧ x < xr ∧
      ∃ L, lget (xl, xr) s.losses = some L := by
    intro xl xr h1 h2
    have hp := pair_of_leftOf_rightOf hs hx h1 h2
    obtain ⟨L, hL, -⟩ := lget_some_of_mem_tkeys (hl _ hp)
    exact ⟨hp, ((leftOf_eq_some hs).1 h1).2.1, ((rightOf_eq_some hs).1 h2).2.1, L, hL⟩
  by_cases hvx : v = x
  · subst hvx
    have ha : leftOf v s.xsC = some u := leftOf_of_pair hsC huv
    have hne : u ≠ v := ne_of_lt huv_lt
    rcases hxl : leftOf v s.xs with _ | xl
    · right
      refine ⟨Or.inl ?_, ?_⟩
      · intro z hz
        exact lt_of_lt_of_le huv_lt (not_lt.1 (leftOf_eq_none.1 hxl z hz))
      · rw [lget_ulRight, if_neg (fun h => hne h.1), lget_ulLeft, if_pos ⟨ha, rfl, rfl⟩]
    · rcases hxr : rightOf v s.xs with _ | xr
      · right
        refine ⟨Or.inr ?_, ?_⟩
        · intro z hz
          rcases lt_or_eq_of_le (not_lt.1 (rightOf_eq_none.1 hxr z hz)) with h | h
          · exact h
          · exact absurd (h ▸ hz) hx
        · rw [lget_ulRight, if_neg (fun h => hne h.1), lget_ulLeft, if_pos ⟨ha, rfl, rfl⟩]
      · left
        obtain ⟨hp, h1, h2, L, hL⟩ := hmid xl xr hxl hxr
        have hxlu : xl ≤ u := by
          rcases hadjC xl (hsub xl (mem_of_mem_pairs hp).1) with h | h
          · exact h
          · exact absurd h1 (not_lt.2 h)
        obtain ⟨b, hb⟩ := Option.isSome_iff_exists.1
          (rightOf_isSome.2 ⟨xr, hsub xr (mem_of_mem_pairs hp).2, h2⟩ :
            (rightOf v s.xsC).isSome)
        refine ⟨xl, xr, hp, hxlu, le_of_lt h2, L, hL, ?_⟩
        rw [lget_ulRight, if_neg (fun h => hne h.1), lget_ulLeft,
          if_neg (fun h => by simp at h), ha, hb, lget_ulPend_left r12 hne, ulErase_losses, hL]
        rfl
  · by_cases hux : u = x
    · subst hux
      have hb : rightOf u s.xsC = some v := rightOf_of_pair hsC huv
      rcases hxr : rightOf u s.xs with _ | xr
      · right
        refine ⟨Or.inr ?_, ?_⟩
        · intro z hz
          exact lt_of_le_of_lt (not_lt.1 (rightOf_eq_none.1 hxr z hz)) huv_lt
        · rw [lget_ulRight, if_pos ⟨rfl, hb, rfl⟩]
      · rcases hxl : leftOf u s.xs with _ | xl
        · right
          refine ⟨Or.inl ?_, ?_⟩
          · intro z hz
            rcases lt_or_eq_of_le (not_lt.1 (leftOf_eq_none.1 hxl z hz)) with h | h
            · exact h
            · exact absurd (h ▸ hz) hx
          · rw [lget_ulRight, if_pos ⟨rfl, hb, by simp⟩]
        · left
          obtain ⟨hp, h1, h2, L, hL⟩ := hmid xl xr hxl hxr
          have hvxr : v ≤ xr := by
            rcases hadjC xr (hsub xr (mem_of_mem_pairs hp).2) with h | h
            · exact absurd h2 (not_lt.2 h)
            · exact h
          obtain ⟨a, ha⟩ := Option.isSome_iff_exists.1
            (leftOf_isSome.2 ⟨xl, hsub xl (mem_of_mem_pairs hp).1, h1⟩ :
              (leftOf u s.xsC).isSome)
          refine ⟨xl, xr, hp, le_of_lt h1, hvxr, L, hL, ?_⟩
          rw [lget_ulRight, if_neg (fun h => by simp at h), lget_ulLeft,
            if_neg (fun h => hvx h.2.1), ha, hb, lget_ulPend_right r12, ulErase_losses, hL]
          rfl
    · have hold : (u, v) ∈ pairs xsC0 := by
        have := huv
        rw [hxsC, mem_pairs_sinsert' hC0] at this
        rcases this with h | h | h
        · exact h.1
        · exact absurd h.2 hvx
        · exact absurd h.1 hux
      have e : lget (u, v) (ulRight r12 (ulLeft r12 (ulPend r12
          (ulErase s (leftOf x s.xsC) (rightOf x s.xsC)) x (leftOf x s.xs) (rightOf x s.xs)
          (leftOf x s.xsC) (rightOf x s.xsC)) x (leftOf x s.xsC)
          ((leftOf x s.xs).isNone || (rightOf x s.xs).isNone)) x (rightOf x s.xsC)
          ((rightOf x s.xs).isNone || (leftOf x s.xs).isNone)).lossesC = lget (u, v) s.lossesC := by
        rw [lget_ulRight, if_neg (fun h => hux h.1), lget_ulLeft, if_neg (fun h => hvx h.2.1),
          lget_ulPend_ne r12 hux hvx, lget_ulErase nsplitC]
      have := hcv u v hold
      unfold PieceOK at this ⊢
      rw [e]
      exact this

end pend

/-! ## `tell_pending`, `remove_unfinished`, `ask` -/
section simpleops
variable (lossFn : List (Option α) → List (Option (List α)) → Loss α) (r12 : α → α)

theorem combVals_tellPending {s : State α} (hi : Inv s) (h : CombVals s) (x : α) :
    CombVals (tellPending lossFn r12 s x) := by
  unfold tellPending
  split
  · exact h
  · rename_i hx
    rw [combVals_iff] at h ⊢
    have hsame := same_updateLosses lossFn r12
      { s with pending := if x ∈ s.pending then s.pending else x :: s.pending,
               xsC := sinsert x s.xsC } x false
    rw [hsame.1, hsame.2.1]
    apply combV_updateLosses_false lossFn r12
      (s := { s with pending := if x ∈ s.pending then s.pending else x :: s.pending,
                     xsC := sinsert x s.xsC }) (xsC0 := s.xsC) hi.xs_sorted hi.xsC_sorted rfl
    · intro z hz
      exact mem_sinsert.2 (Or.inr (inv_sub hi z hz))
    · intro hm
      exact hx ((hi.xs_mem x).1 hm)
    · intro iv hiv
      exact (hi.losses_keys iv).2 hiv
    · exact h

/-- `remove_unfinished` copies the loss table: every piece is a whole evaluated interval -/
theorem combVals_removeUnfinished {s : State α} (hi : Inv s) : CombVals (removeUnfinished s) := by
  intro a b hab
  have hab' : (a, b) ∈ pairs s.xs := hab
  obtain ⟨L, hL, -⟩ := lget_some_of_mem_tkeys ((hi.losses_keys _).2 hab')
  left
  refine ⟨a, b, L, hab', le_refl _, le_refl _, hL, ?_⟩
  show lget (a, b) s.losses = _
  rw [mulDiv_sub_self (ne_of_lt (pairs_lt hi.xs_sorted hab')), hL]

theorem combVals_foldl_tellPending {s : State α} (hi : Inv s) (h : CombVals s) (pts : List α) :
    CombVals (pts.foldl (tellPending lossFn r12) s) := by
  induction pts generalizing s with
  | nil => exact h
  | cons p pts ih =>
    exact ih (inv_tellPending lossFn r12 hi p) (combVals_tellPending lossFn r12 hi h p)

theorem combVals_ask {s : State α} (hi : Inv s) (h : CombVals s) (n : Nat) (c : Bool) :
    CombVals (ask lossFn r12 s n c).2 := by
  unfold ask
  dsimp only
  split
  · exact combVals_foldl_tellPending lossFn r12 hi h _
  · exact h

end simpleops

/-! ## the batch path of `tell_many` -/

/-- the bookkeeping of the runs to interpolate in the batch path, as a pure function -/
def tiStep (hasL : Ival α → Bool) (hasD : α → Bool) (ti : List (Ival α)) (iv : Ival α) :
    List (Ival α) :=
  if hasL iv then ti else
  match ti.getLast? with
  | some (a, b) => if b = iv.1 ∧ !(hasD b) then ti.dropLast ++ [(a, iv.2)] else ti ++ [iv]
  | none => ti ++ [iv]

theorem pairs_append_two (q : List α) (y z : α) :
    pairs (q ++ [y, z]) = pairs (q ++ [y]) ++ [(y, z)] := by
  induction q with
  | nil => rfl
  | cons c q ih =>
    cases q with
    | nil => rfl
    | cons d q =>
      show (c, d) :: pairs (d :: q ++ [y, z]) = (c, d) :: pairs (d :: q ++ [y]) ++ [(y, z)]
      rw [ih]; rfl

theorem ti_complete (hasL : Ival α → Bool) (D : α → Bool) (q : List α) :
    ∀ z, (q ++ [z]).Pairwise (· < ·) →
    (∀ u v, (u, v) ∈ pairs (q ++ [z]) → (hasL (u, v) = true ↔ D u = true ∧ D v = true)) →
    (∀ l r, l ∈ q ++ [z] → r ∈ q ++ [z] → D l = true → D r = true → l < r →
        (∀ w ∈ q ++ [z], l < w → w < r → D w = false) → (l, r) ∉ pairs (q ++ [z]) →
        (l, r) ∈ (pairs (q ++ [z])).foldl (tiStep hasL D) []) ∧
    (∀ l, D z = false → l ∈ q → D l = true → (∀ w ∈ q ++ [z], l < w → D w = false) →
        ((pairs (q ++ [z])).foldl (tiStep hasL D) []).getLast? = some (l, z)) := by
  induction q using List.reverseRecOn with
  | nil =>
    intro z _ _
    refine ⟨?_, ?_⟩
    · intro l r hl hr _ _ hlr
      simp only [List.nil_append, List.mem_singleton] at hl hr
      rw [hl, hr] at hlr
      exact absurd hlr (lt_irrefl _)
    · intro l _ hl
      exact absurd hl List.not_mem_nil
  | append_singleton q y ih =>
    intro z hsort hL
    have e : q ++ [y] ++ [z] = q ++ [y, z] := by simp
    have ep : pairs (q ++ [y] ++ [z]) = pairs (q ++ [y]) ++ [(y, z)] := by
      rw [e, pairs_append_two]
    have hsort' : (q ++ [y]).Pairwise (· < ·) := (List.pairwise_append.1 hsort).1
    have hltz : ∀ w ∈ q ++ [y], w < z := fun w hw =>
      (List.pairwise_append.1 hsort).2.2 w hw z (by simp)
    have hlty : ∀ w ∈ q, w < y := fun w hw =>
      (List.pairwise_append.1 hsort').2.2 w hw y (by simp)
    have hyz : y < z := hltz y (by simp)
    obtain ⟨ih1, ih2⟩ := ih y hsort'
      (fun u v huv => hL u v (by rw [ep]; exact List.mem_append_left _ huv))
    have hLyz := hL y z (by rw [ep]; simp)
    rw [ep, List.foldl_append]
    simp only [List.foldl_cons, List.foldl_nil]
    generalize (pairs (q ++ [y])).foldl (tiStep hasL D) [] = T at ih1 ih2 ⊢
    have hmemz : ∀ w, w ∈ q ++ [y] ++ [z] → w ∈ q ++ [y] ∨ w = z := by
      intro w hw
      rcases List.mem_append.1 hw with h | h
      · exact Or.inl h
      · exact Or.inr (List.mem_singleton.1 h)
    constructor
    · intro l r hl hr hDl hDr hlr hbet hnp
      by_cases hrz : r = z
      · subst hrz
        have hl' : l ∈ q ++ [y] := by
          rcases hmemz l hl with h | h
          · exact h
          · exact absurd h (ne_of_lt hlr)
        have hly : l ≠ y := by
          rintro rfl; apply hnp; simp
        have hlq : l ∈ q := by
          rcases List.mem_append.1 hl' with h | h
          · exact h
          · exact absurd (List.mem_singleton.1 h) hly
        have hDy : D y = false := hbet y (by simp) (hlty l hlq) hyz
        have hlast := ih2 l hDy hlq hDl
          (fun w hw hlw => hbet w (List.mem_append_left _ hw) hlw (hltz w hw))
        have hnl : ¬ hasL (y, r) = true := fun h => by
          have := (hLyz.1 h).1; rw [hDy] at this; exact absurd this (by simp)
        unfold tiStep
        rw [if_neg hnl, hlast]
        simp [hDy]
      · have hr' : r ∈ q ++ [y] := (hmemz r hr).resolve_right hrz
        have hl' : l ∈ q ++ [y] := by
          rcases hmemz l hl with h | h
          · exact h
          · exact absurd (lt_trans (h ▸ hlr) (hltz r hr')) (lt_irrefl _)
        have hin : (l, r) ∈ T := ih1 l r hl' hr' hDl hDr hlr
          (fun w hw => hbet w (List.mem_append_left _ hw))
          (fun h => hnp (List.mem_append_left _ h))
        unfold tiStep
        split
        · exact hin
        · split
          · rename_i a b hlast
            split
            · rename_i hc
              have hTe : T.dropLast ++ [(a, b)] = T :=
                List.dropLast_append_getLast? (a, b) (by rw [hlast]; rfl)
              rw [← hTe] at hin
              rcases List.mem_append.1 hin with h | h
              · exact List.mem_append_left _ h
              · exfalso
                have h' := List.mem_singleton.1 h
                simp only [Prod.mk.injEq] at h'
                have h2 := hc.2
                rw [← h'.2, hDr] at h2
                simp at h2
            · exact List.mem_append_left _ hin
          · exact List.mem_append_left _ hin
    · intro l hDz hl hDl hbet
      have hnl : ¬ hasL (y, z) = true := fun h => by
        have := (hLyz.1 h).2; rw [hDz] at this; exact absurd this (by simp)
      by_cases hly : l = y
      · subst hly
        unfold tiStep
        rw [if_neg hnl]
        split
        · rename_i a b hlast
          split
          · rename_i hc
            exfalso
            have h1 : b = l := hc.1
            have h2 := hc.2
            rw [h1, hDl] at h2
            simp at h2
          · simp
        · simp
      · have hlq : l ∈ q := by
          rcases List.mem_append.1 hl with h | h
          · exact h
          · exact absurd (List.mem_singleton.1 h) hly
        have hDy : D y = false := hbet y (by simp) (hlty l hlq)
        have hlast := ih2 l hDy hlq hDl (fun w hw hlw => hbet w (List.mem_append_left _ hw) hlw)
        unfold tiStep
        rw [if_neg hnl, hlast]
        simp [hDy]
section batch
variable (lossFn : List (Option α) → List (Option (List α)) → Loss α) (r12 : α → α)

/-- per-piece form of `CombV` -/
def PairV (xs : List α) (losses lossesC : List (Ival α × Loss α)) (a b : α) : Prop :=
  (∃ l r, (l, r) ∈ pairs xs ∧ l ≤ a ∧ b ≤ r ∧ PieceOK losses lossesC l r a b)
    ∨ ((∀ x ∈ xs, a < x) ∨ (∀ x ∈ xs, x < b)) ∧ lget (a, b) lossesC = some .inf

theorem combV_iff_pairV {xs xsC : List α} {losses lossesC : List (Ival α × Loss α)} :
    CombV xs xsC losses lossesC ↔ ∀ a b, (a, b) ∈ pairs xsC → PairV xs losses lossesC a b :=
  Iff.rfl

theorem pairV_updInterp {s : State α} (hs : s.xs.Pairwise (· < ·))
    (hsC : s.xsC.Pairwise (· < ·)) {a b : α} (hab : (a, b) ∈ pairs s.xsC)
    (hv : PairV s.xs s.losses s.lossesC a b) {p q : α} (hpq : (p, q) ∈ pairs s.xs) :
    PairV s.xs (updInterp lossFn r12 s p q).losses (updInterp lossFn r12 s p q).lossesC a b := by
  rcases hv with ⟨l, r, h1, h2, h3, h4⟩ | ⟨h1, h2⟩
  · exact Or.inl ⟨l, r, h1, h2, h3,
      pieceOK_updInterp lossFn r12 hs hsC hpq h1 hab h2 h3 (Or.inr h4)⟩
  · refine Or.inr ⟨h1, ?_⟩
    rw [updInterp_lossesC_outside lossFn r12 hsC]
    · exact h2
    · rintro ⟨-, h3, h4⟩
      have hm := mem_of_mem_pairs hpq
      rcases h1 with h1 | h1
      · exact absurd (h1 p hm.1) (not_lt.2 h3)
      · exact absurd (h1 q hm.2) (not_lt.2 h4)

theorem batchStepC_snd (s : State α) (ti : List (Ival α)) (iv : Ival α) :
    (batchStepC r12 (s, ti) iv).2 =
      tiStep (fun k => (lget k s.losses).isSome) (hasData s) ti iv := by
  unfold batchStepC tiStep
  dsimp only
  split
  · rename_i v hv
    simp only [hv, Option.isSome_some, if_true]
  · rename_i hv
    simp only [hv, Option.isSome_none, Bool.false_eq_true, if_false]
    split
    · rename_i a b hl
      simp only [hl]
      exact apply_ite Prod.snd _ _ _
    · rename_i hl
      simp only [hl]

theorem batchC_snd (ivs : List (Ival α)) (acc : State α × List (Ival α)) :
    (ivs.foldl (batchStepC r12) acc).2 =
      ivs.foldl (tiStep (fun k => (lget k acc.1.losses).isSome) (hasData acc.1)) acc.2 := by
  induction ivs generalizing acc with
  | nil => rfl
  | cons iv ivs ih =>
    obtain ⟨s, ti⟩ := acc
    simp only [List.foldl_cons]
    rw [ih, batchStepC_snd, batchStepC_fst]
    rfl

theorem batchC_lossesC (ivs : List (Ival α)) (acc : State α × List (Ival α)) (k : Ival α) :
    lget k (ivs.foldl (batchStepC r12) acc).1.lossesC =
      if k ∈ ivs then some ((lget k acc.1.losses).getD .inf) else lget k acc.1.lossesC := by
  induction ivs generalizing acc with
  | nil => simp
  | cons iv ivs ih =>
    obtain ⟨s, ti⟩ := acc
    simp only [List.foldl_cons]
    rw [ih, batchStepC_fst]
    dsimp only
    rw [lget_lset]
    by_cases h1 : k ∈ ivs
    · simp [h1]
    · by_cases h2 : k = iv
      · subst h2; simp
      · simp [h1, h2]

/-- the state and the runs to interpolate after the first two loops of the batch path -/
def batchC (s : State α) (pts : List (α × List α)) : State α × List (Ival α) :=
  (pairs (batchInit s pts).xsC).foldl (batchStepC r12)
    (batchLoss lossFn r12 (batchInit s pts) (pairs (batchInit s pts).xs), [])

theorem tellManyBatch_eq' (s : State α) (pts : List (α × List α)) :
    tellManyBatch lossFn r12 s pts =
      batchInterp lossFn r12 (batchC lossFn r12 s pts).1 (batchC lossFn r12 s pts).2 := rfl

end batch

section batch2
variable (lossFn : List (Option α) → List (Option (List α)) → Loss α) (r12 : α → α)

/-- `Inv` already holds before the interpolation loop of the batch path (the proof of
`inv_tellManyBatch`, stopped one step earlier), and that loop's input has the same points and
`losses` as the freshly computed tables -/
theorem inv_batchC {s : State α} (hi : Inv s) (pts : List (α × List α)) :
    Inv (batchC lossFn r12 s pts).1 := by
  unfold batchC
  obtain ⟨hp, _⟩ := inv_iff.1 hi
  obtain ⟨a1, a2, a3, a4⟩ := batchLoss_spec lossFn r12 (batchInit s pts) (pairs (batchInit s pts).xs)
  obtain ⟨b1, b2, b3, b4⟩ := batchC_spec r12 (pairs (batchInit s pts).xsC)
    (batchLoss lossFn r12 (batchInit s pts) (pairs (batchInit s pts).xs), [])
  have hsame := a1.trans b1
  rw [inv_iff, hsame.1, hsame.2.1, hsame.2.2.1, hsame.2.2.2]
  obtain ⟨d1, d2⟩ := dkeys_foldl_dataSet pts s.data hp.data_nodup
  refine ⟨⟨sorted_sortList _, sorted_sortList _, ?_, ?_, ?_, ?_, d1⟩, ⟨?_, ?_, ?_, ?_⟩⟩
  · intro z; exact mem_sortList
  · intro z
    show z ∈ sortList _ ↔ _
    rw [mem_sortList, List.mem_append]
    exact or_comm
  · intro z hz
    have hz1 : z ∈ s.pending.filter (fun p => !(pts.any (fun kv => decide (kv.1 = p)))) := hz
    rw [List.mem_filter] at hz1
    have hz' : z ∈ s.pending ∧ z ∉ dkeys pts := by
      refine ⟨hz1.1, ?_⟩
      intro hm
      obtain ⟨kv, hkv, rfl⟩ := List.mem_map.1 hm
      have : pts.any (fun kv' => decide (kv'.1 = kv.1)) = true :=
        List.any_eq_true.2 ⟨kv, hkv, by simp⟩
      simp [this] at hz1
    show z ∉ dkeys (pts.foldl (fun d kv => dataSet d kv.1 kv.2) s.data)
    rw [d2 z, not_or]
    exact ⟨hz'.2, hp.pend_nodata z hz'.1⟩
  · exact hp.pend_nodup.filter _
  · intro k
    rw [b2, a3 k]
    show _ ∨ k ∈ tkeys [] ↔ _
    simp [tkeys]
  · intro k
    rw [b3 k]
    show _ ∨ k ∈ tkeys (batchLoss lossFn r12 (batchInit s pts) (pairs (batchInit s pts).xs)).lossesC ↔ _
    rw [a2]
    show _ ∨ k ∈ tkeys [] ↔ _
    simp [tkeys]
  · rw [b2]; exact a4 List.nodup_nil
  · apply b4
    show (tkeys (batchLoss lossFn r12 (batchInit s pts) (pairs (batchInit s pts).xs)).lossesC).Nodup
    rw [a2]; exact List.nodup_nil

/-- in a state satisfying `Inv`, the bookkeeping of the batch path collects every evaluated
interval that contains a pending point -/
theorem ti_covers {s : State α} (hi : Inv s) {l r : α} (hlr : (l, r) ∈ pairs s.xs)
    (hn : (l, r) ∉ pairs s.xsC) :
    (l, r) ∈ (pairs s.xsC).foldl
      (tiStep (fun k => (lget k s.losses).isSome) (hasData s)) [] := by
  have hm := mem_of_mem_pairs hlr
  have hadj := (mem_pairs_iff_adj hi.xs_sorted).1 hlr
  have hlC : l ∈ s.xsC := inv_sub hi l hm.1
  rcases List.eq_nil_or_concat s.xsC with h | ⟨q, z, e⟩
  · rw [h] at hlC; exact absurd hlC List.not_mem_nil
  · rw [List.concat_eq_append] at e
    have hsort := hi.xsC_sorted
    have hsub := inv_sub hi
    rw [e] at hsort hn hsub ⊢
    have hmemC : ∀ w, w ∈ q ++ [z] → (hasData s w = true ↔ w ∈ s.xs) := fun w _ =>
      (hi.xs_mem w).symm
    refine (ti_complete _ _ q z hsort ?_).1 l r (hsub l hm.1) (hsub r hm.2)
      ((hi.xs_mem l).1 hm.1) ((hi.xs_mem r).1 hm.2) hadj.2.2.1 ?_ hn
    · intro u v huv
      show (lget (u, v) s.losses).isSome = true ↔ _
      rw [lget_isSome, hi.losses_keys, ← hi.xs_mem, ← hi.xs_mem]
      constructor
      · intro h; exact mem_of_mem_pairs h
      · rintro ⟨hu, hv⟩
        have ha := (mem_pairs_iff_adj hsort).1 huv
        rw [mem_pairs_iff_adj hi.xs_sorted]
        exact ⟨hu, hv, ha.2.2.1, fun w hw => ha.2.2.2 w (hsub w hw)⟩
    · intro w hw h1 h2
      cases hd : hasData s w with
      | false => rfl
      | true =>
        exfalso
        rcases hadj.2.2.2 w ((hi.xs_mem w).2 hd) with h | h
        · exact absurd h1 (not_lt.2 h)
        · exact absurd h2 (not_lt.2 h)

theorem combVals_batchInterp {s : State α} (hi : Inv s) (ti : List (Ival α))
    (h : ∀ u v, (u, v) ∈ pairs s.xsC → PairV s.xs s.losses s.lossesC u v ∨
      ∃ l r, (l, r) ∈ ti ∧ (l, r) ∈ pairs s.xs ∧ l ≤ u ∧ v ≤ r) :
    CombVals (batchInterp lossFn r12 s ti) := by
  induction ti generalizing s with
  | nil =>
    rw [combVals_iff]
    intro u v huv
    rcases h u v huv with h1 | ⟨l, r, hm, -⟩
    · exact h1
    · exact absurd hm List.not_mem_nil
  | cons iv ti ih =>
    show CombVals (batchInterp lossFn r12
      (if (lget iv s.losses).isSome then updInterp lossFn r12 s iv.1 iv.2 else s) ti)
    by_cases hk : (lget iv s.losses).isSome = true
    · rw [if_pos hk]
      have hpq : (iv.1, iv.2) ∈ pairs s.xs := (hi.losses_keys iv).1 (lget_isSome.1 hk)
      apply ih (inv_updInterp lossFn r12 hi hpq)
      intro u v huv
      rcases h u v huv with h1 | ⟨l, r, hm, hp, hl, hr⟩
      · exact Or.inl (pairV_updInterp lossFn r12 hi.xs_sorted hi.xsC_sorted huv h1 hpq)
      · rcases List.mem_cons.1 hm with e | hm'
        · left; left
          exact ⟨l, r, hp, hl, hr, pieceOK_updInterp lossFn r12 hi.xs_sorted hi.xsC_sorted hpq hp
            huv hl hr (Or.inl e.symm)⟩
        · exact Or.inr ⟨l, r, hm', hp, hl, hr⟩
    · rw [if_neg hk]
      apply ih hi
      intro u v huv
      rcases h u v huv with h1 | ⟨l, r, hm, hp, hl, hr⟩
      · exact Or.inl h1
      · rcases List.mem_cons.1 hm with e | hm'
        · exfalso
          apply hk
          rw [lget_isSome, hi.losses_keys, ← e]
          exact hp
        · exact Or.inr ⟨l, r, hm', hp, hl, hr⟩

/-- the batch path of `tell_many` establishes `CombVals` from scratch -/
theorem combVals_tellManyBatch {s : State α} (hi : Inv s) (pts : List (α × List α)) :
    CombVals (tellManyBatch lossFn r12 s pts) := by
  rw [tellManyBatch_eq']
  have hiC := inv_batchC lossFn r12 hi pts
  apply combVals_batchInterp lossFn r12 hiC
  -- the runs to interpolate, and the combined table, in terms of the state `(batchC …).1`
  obtain ⟨b1, b2, -, -⟩ := batchC_spec r12 (pairs (batchInit s pts).xsC)
    (batchLoss lossFn r12 (batchInit s pts) (pairs (batchInit s pts).xs), [])
  obtain ⟨a1, a2, -, -⟩ := batchLoss_spec lossFn r12 (batchInit s pts) (pairs (batchInit s pts).xs)
  have hxsC : (batchC lossFn r12 s pts).1.xsC = (batchInit s pts).xsC := (a1.trans b1).2.1
  have hlo : (batchC lossFn r12 s pts).1.losses =
      (batchLoss lossFn r12 (batchInit s pts) (pairs (batchInit s pts).xs)).losses := b2
  have hdat : (batchC lossFn r12 s pts).1.data =
      (batchLoss lossFn r12 (batchInit s pts) (pairs (batchInit s pts).xs)).data := b1.2.2.1
  have hti : (batchC lossFn r12 s pts).2 = (pairs (batchC lossFn r12 s pts).1.xsC).foldl
      (tiStep (fun k => (lget k (batchC lossFn r12 s pts).1.losses).isSome)
        (hasData (batchC lossFn r12 s pts).1)) [] := by
    have hd : hasData (batchC lossFn r12 s pts).1 =
        hasData (batchLoss lossFn r12 (batchInit s pts) (pairs (batchInit s pts).xs)) := by
      funext w; unfold hasData; rw [hdat]
    rw [hd, hlo, hxsC]
    exact batchC_snd r12 _ _
  have hlC : ∀ k ∈ pairs (batchC lossFn r12 s pts).1.xsC,
      lget k (batchC lossFn r12 s pts).1.lossesC =
        some ((lget k (batchC lossFn r12 s pts).1.losses).getD .inf) := by
    intro k hk
    rw [hxsC] at hk
    rw [hlo]
    show lget k ((pairs (batchInit s pts).xsC).foldl (batchStepC r12) _).1.lossesC = _
    rw [batchC_lossesC, if_pos hk]
  rw [hti]
  generalize (batchC lossFn r12 s pts).1 = t at hiC hlC ⊢
  intro u v huv
  have huv_lt := pairs_lt hiC.xsC_sorted huv
  have hadjC := (mem_pairs_iff_adj hiC.xsC_sorted).1 huv
  by_cases hp : (u, v) ∈ pairs t.xs
  · obtain ⟨L, hL, -⟩ := lget_some_of_mem_tkeys ((hiC.losses_keys _).2 hp)
    left; left
    refine ⟨u, v, hp, le_refl _, le_refl _, L, hL, ?_⟩
    rw [hlC _ huv, hL, mulDiv_sub_self (ne_of_lt huv_lt)]
    rfl
  · have hnone : lget (u, v) t.losses = none := by
      cases hg : lget (u, v) t.losses with
      | none => rfl
      | some w => exact absurd ((hiC.losses_keys _).1 (mem_tkeys_of_lget hg)) hp
    have hinf : lget (u, v) t.lossesC = some .inf := by rw [hlC _ huv, hnone]; rfl
    by_cases hE : (∃ z1 ∈ t.xs, z1 ≤ u) ∧ (∃ z2 ∈ t.xs, v ≤ z2)
    · obtain ⟨⟨z1, hz1, hz1'⟩, ⟨z2, hz2, hz2'⟩⟩ := hE
      obtain ⟨l, r, hlr, hl, hr⟩ :=
        encl_exists hiC.xs_sorted hiC.xsC_sorted (inv_sub hiC) huv hz1 hz1' hz2 hz2'
      right
      refine ⟨l, r, ti_covers hiC hlr ?_, hlr, hl, hr⟩
      intro hlrC
      apply hp
      have hadj2 := (mem_pairs_iff_adj hiC.xsC_sorted).1 hlrC
      have e1 : l = u := by
        rcases hadj2.2.2.2 u hadjC.1 with h | h
        · exact le_antisymm hl h
        · exact absurd (lt_of_lt_of_le huv_lt hr) (not_lt.2 h)
      have e2 : r = v := by
        rcases hadj2.2.2.2 v hadjC.2.1 with h | h
        · exact absurd (lt_of_le_of_lt hl huv_lt) (not_lt.2 h)
        · exact le_antisymm h hr
      rw [← e1, ← e2]; exact hlr
    · left; right
      refine ⟨?_, hinf⟩
      rcases not_and_or.1 hE with h | h
      · exact Or.inl fun z hz => not_le.1 fun hle => h ⟨z, hz, hle⟩
      · exact Or.inr fun z hz => not_le.1 fun hle => h ⟨z, hz, hle⟩

end batch2


/-! ## `CombVals` is an invariant -/
section main
variable (lossFn : List (Option α) → List (Option (List α)) → Loss α) (r12 : α → α)

theorem combVals_tellMany {s : State α} (hi : Inv s) (h : CombVals s) (pts : List (α × List α))
    (force : Bool) : CombVals (tellMany lossFn r12 s pts force) := by
  unfold tellMany
  split
  · exact combVals_foldl_tell lossFn r12 hi h pts
  · exact combVals_tellManyBatch lossFn r12 hi pts

/-- Target 1: every operation preserves `CombVals` (no hypothesis on the operation) -/
theorem combVals_step {s : State α} (hi : Inv s) (h : CombVals s) (op : Op α) :
    CombVals (step lossFn r12 s op) := by
  cases op with
  | tell x y => exact combVals_tell lossFn r12 hi h x y
  | tellPending x => exact combVals_tellPending lossFn r12 hi h x
  | tellMany pts f => exact combVals_tellMany lossFn r12 hi h pts f
  | removeUnfinished => exact combVals_removeUnfinished hi
  | ask n c => exact combVals_ask lossFn r12 hi h n c

theorem combVals_init (lo hi factor dxEps : α) (nn : Nat) :
    CombVals (init lo hi factor dxEps nn) := by
  intro a b hab
  simp [init, pairs] at hab

theorem combVals_run_of {s : State α} (hi : Inv s) (h : CombVals s) (ops : List (Op α)) :
    CombVals (run lossFn r12 s ops) := by
  unfold run
  induction ops generalizing s with
  | nil => exact h
  | cons op ops ih => exact ih (inv_step lossFn r12 hi op) (combVals_step lossFn r12 hi h op)

/-- Target 1 (run form): in every reachable state, every piece of an evaluated interval cut by
pending points holds the interval's stored loss in proportion to its width, and a piece holds
`inf` exactly where one side has no evaluated point.  No validity hypothesis is needed. -/
theorem combVals_run (lo hi factor dxEps : α) (nn : Nat) (ops : List (Op α)) :
    CombVals (run lossFn r12 (init lo hi factor dxEps nn) ops) :=
  combVals_run_of lossFn r12 (inv_init lo hi factor dxEps nn) (combVals_init lo hi factor dxEps nn)
    ops

end main

end L1D
