import AdaptiveProofs.Lemmas.AvgBook
import Mathlib.Algebra.Order.Field.Rat

/-!
# C13 — restore-bisimilarity for the AverageLearner model

`_get_data` is `(data, npoints, sum_f, sum_f_sq)`, `_set_data` assigns the four fields of a fresh learner.
The only parts of the state that are NOT saved are the pending set and the construction parameters.  Hence:
for a history that ends with no pending points, the learner restored into a fresh learner constructed with
the same parameters IS the original (`restore_eq`, equality of states — also the order of `data`), and so
the two coincide after every common continuation, in every observable (`restore_bisimilar`).
"No pending points" cannot be dropped (last example).
-/
namespace Avg
variable {α : Type} [Field α] [LinearOrder α] [IsStrictOrderedRing α]

/-- the restored learner is the original, when the original has no pending points -/
theorem restore_eq (atol rtol : Option α) (m : Nat) (ops : List (Op α))
    (hp : (run (init atol rtol m) ops).pending = []) :
    setData (init atol rtol m) (getData (run (init atol rtol m) ops)) = run (init atol rtol m) ops := by
  have hpar := params_run ops (init atol rtol m)
  generalize run (init atol rtol m) ops = s at hp hpar
  obtain ⟨data, pending, npoints, sumF, sumFsq, atol', rtol', minN⟩ := s
  simp only [params, init, Prod.mk.injEq] at hpar
  obtain ⟨h1, h2, h3⟩ := hpar
  simp only at hp
  subst hp h1 h2 h3
  rfl

/-- **C13, restore-bisimilarity (AverageLearner).**  After every common continuation `t` (tells, pending
marks, discards, committing asks) the restored learner and the original are the same state; in particular
they report the same mean, standard deviation and loss and answer every `ask` alike. -/
theorem restore_bisimilar (sqrt : α → α) (atol rtol : Option α) (m : Nat) (ops : List (Op α))
    (hp : (run (init atol rtol m) ops).pending = []) (t : List (Op α)) :
    let s := run (run (init atol rtol m) ops) t
    let s' := run (setData (init atol rtol m) (getData (run (init atol rtol m) ops))) t
    s' = s ∧ mean s' = mean s ∧ std sqrt s' = std sqrt s ∧
    (∀ real, loss sqrt s' real = loss sqrt s real) ∧
    (∀ n choice, askPoints s' n choice = askPoints s n choice) := by
  intro s s'
  have e : s' = s := by
    show run (setData (init atol rtol m) (getData (run (init atol rtol m) ops))) t = _
    rw [restore_eq atol rtol m ops hp]
  rw [e]
  exact ⟨rfl, rfl, rfl, fun _ => rfl, fun _ _ => rfl⟩

/-- non-vacuity: a history with out-of-order tells, a pending mark that is told later, a committing ask and a
discard ends with no pending points -/
example : (run (init (none : Option Rat) (some 1) 2)
    [.tell 3 5, .tell 0 1, .tellPending 1, .tell 1 2, .askCommit [4, 5], .removeUnfinished]).pending = [] := by
  decide +kernel

/-- "no pending points" is needed: the pending set is not saved, and `ask` depends on it -/
example :
    askPoints (run (init (none : Option Rat) (some 1) 2) [.tell 0 1, .tellPending 1]) 1 [] ≠
    askPoints (setData (init (none : Option Rat) (some 1) 2)
      (getData (run (init (none : Option Rat) (some 1) 2) [.tell 0 1, .tellPending 1]))) 1 [] := by
  decide +kernel

end Avg
