import AdaptiveProofs.Lemmas.LNDSorted

/-! Queue soundness of the LearnerND model for entries of real simplices (C04, half of
`lnd_queue_sound_statement`): a queue entry `(loss, simplex, None)` whose simplex is a current simplex of the
triangulation carries that simplex' current stored loss. -/
set_option linter.unusedSectionVars false
set_option linter.unusedSimpArgs false
set_option linter.unusedVariables false
namespace LND
variable {α : Type} [Sub α] [Mul α] [Div α] [LT α] [DecidableLT α]

/-- truthful combinatorics of the main triangulation (C03: exact reports, vertex indices in range, every added
simplex contains the new vertex) -/
structure TriGeom (env : Env α) : Prop where
  report : ReportExact env
  idx : ∀ n, ∀ x ∈ env.triSimps n, ∀ i ∈ x, i < n
  fresh : ∀ n h D A, env.triAdd n h = some (D, A) → ∀ x ∈ A, n ∈ x

/-- every queue entry for a SIMPLEX (sub = none) that is currently a simplex of the triangulation carries that
simplex' current stored loss; plus the two auxiliary facts that make this inductive -/
def RealSound (env : Env α) (s : State α) : Prop :=
  (s.tri = none → s.book.queue = []) ∧
  ∀ vs, s.tri = some vs →
    (∀ e ∈ s.book.queue, ∀ i ∈ e.simplex, i < vs.length) ∧
    (∀ e ∈ s.book.queue, e.sub = none → e.simplex ∈ env.triSimps vs.length →
        get? e.simplex s.losses = some e.loss)

/-- the triangulation and the losses are unchanged, the queue only got entries of sub-simplices of current
simplices (or lost entries) -/
theorem RealSound.extend (env : Env α) (hT : TriGeom env) {s s' : State α} (hs : RealSound env s)
    (ht : s'.tri = s.tri) (hl : s'.losses = s.losses)
    (hq : ∀ e ∈ s'.book.queue, e ∈ s.book.queue ∨
      (e.sub ≠ none ∧ ∃ vs, s.tri = some vs ∧ e.simplex ∈ env.triSimps vs.length)) : RealSound env s' := by
  refine ⟨?_, ?_⟩
  · intro hn
    rw [ht] at hn
    have h0 := hs.1 hn
    rw [List.eq_nil_iff_forall_not_mem]
    intro e he
    rcases hq e he with h1 | ⟨_, vs, h1, _⟩
    · rw [h0] at h1; exact absurd h1 (by simp)
    · rw [hn] at h1; exact absurd h1 (by simp)
  · intro vs hvs
    rw [ht] at hvs
    obtain ⟨b1, b2⟩ := hs.2 vs hvs
    constructor
    · intro e he i hi
      rcases hq e he with h1 | ⟨_, vs', h1, h2⟩
      · exact b1 e h1 i hi
      · rw [hvs] at h1
        simp only [Option.some.injEq] at h1
        subst h1
        exact hT.idx _ _ h2 i hi
    · intro e he hsub hmem
      rcases hq e he with h1 | ⟨h1, _⟩
      · rw [hl]; exact b2 e h1 hsub hmem
      · exact absurd hsub h1

theorem RealSound.mono (env : Env α) (hT : TriGeom env) {s s' : State α} (hs : RealSound env s)
    (ht : s'.tri = s.tri) (hl : s'.losses = s.losses)
    (hq : ∀ e ∈ s'.book.queue, e ∈ s.book.queue) : RealSound env s' :=
  RealSound.extend env hT hs ht hl (fun e he => Or.inl (hq e he))

/-- the loop of `tell_pending` only adds entries of sub-simplices of the simplices it visits -/
theorem pendLoop_queue (env : Env α) (vs : List Pt) (losses : List (Simplex × α)) (p : Pt) (ts : List Simplex) :
    ∀ {b b' : Book α}, pendLoop env vs losses p b ts = .ok b' →
      ∀ e ∈ b'.queue, e ∈ b.queue ∨ (e.simplex ∈ ts ∧ e.sub ≠ none) := by
  induction ts with
  | nil => intro b b' h e he; simp only [pendLoop, Except.ok.injEq] at h; subst h; exact Or.inl he
  | cons t ts ih =>
    intro b b' h e he
    unfold pendLoop at h
    split at h
    · exact absurd h (by simp)
    · rename_i b1 h1
      have q1 := (tryAdd_spec env vs p t h1).1
      rcases ih h e he with h2 | ⟨h2, h3⟩
      · left; rw [← q1]; exact h2
      · exact Or.inr ⟨List.mem_cons_of_mem _ h2, h3⟩
    · rename_i b1 A h1
      have q1 := (tryAdd_spec env vs p t h1).1
      split at h
      · exact absurd h (by simp)
      · rename_i b2 h2
        obtain ⟨_, _, _, _, _, u⟩ := updateSubLosses_spec env vs losses t A h2
        rcases ih h e he with h3 | ⟨h3, h4⟩
        · rcases u e h3 with h5 | ⟨h5, ss, _, h6⟩
          · left; rw [← q1]; exact h5
          · right
            refine ⟨by rw [h5]; exact List.mem_cons_self .., ?_⟩
            rw [h6]; simp
        · exact Or.inr ⟨List.mem_cons_of_mem _ h3, h4⟩

/-- the loop of `_update_losses` / `_recompute_all_losses`: the processed simplices get their computed loss,
the other losses are untouched, and every new queue entry belongs to a processed simplex and (if it is an entry
of the simplex itself) carries the computed loss -/
theorem addLoop_sound (env : Env α) (vs : List Pt) (m : α) (unb : List Pt) (A : List Simplex) :
    ∀ {losses l' : List (Simplex × α)} {b b' : Book α}, addLoop env vs m unb losses b A = .ok (l', b') →
      (∀ x ∈ A, get? x l' = some (env.lossFn (ptsOf vs x) m)) ∧
      (∀ x, x ∉ A → get? x l' = get? x losses) ∧
      (∀ e ∈ b'.queue, e ∈ b.queue ∨
        (e.simplex ∈ A ∧ (e.sub = none → e.loss = env.lossFn (ptsOf vs e.simplex) m))) := by
  induction A with
  | nil =>
    intro losses l' b b' h
    simp only [addLoop, Except.ok.injEq, Prod.mk.injEq] at h
    obtain ⟨h1, h2⟩ := h; subst h1 h2
    exact ⟨fun x hx => absurd hx (by simp), fun _ _ => rfl, fun e he => Or.inl he⟩
  | cons sx rest ih =>
    intro losses l' b b' h
    unfold addLoop at h
    simp only at h
    split at h
    · exact absurd h (by simp)
    · rename_i b1 hb1
      obtain ⟨q1, _, _⟩ := addPts_spec env vs sx unb hb1
      have losses_part : ∀ {l' : List (Simplex × α)},
          (∀ x ∈ rest, get? x l' = some (env.lossFn (ptsOf vs x) m)) →
          (∀ x, x ∉ rest → get? x l' = get? x (put sx (env.lossFn (ptsOf vs sx) m) losses)) →
          (∀ x ∈ sx :: rest, get? x l' = some (env.lossFn (ptsOf vs x) m)) ∧
          (∀ x, x ∉ sx :: rest → get? x l' = get? x losses) := by
        intro l' i1 i2
        constructor
        · intro x hx
          by_cases hr : x ∈ rest
          · exact i1 x hr
          · rcases List.mem_cons.1 hx with hx | hx
            · subst hx; rw [i2 x hr, get?_put_self]
            · exact absurd hx hr
        · intro x hx
          have hne : x ≠ sx := fun c => hx (c ▸ List.mem_cons_self ..)
          have hr : x ∉ rest := fun c => hx (List.mem_cons_of_mem _ c)
          rw [i2 x hr, get?_put_ne hne]
      split at h
      · obtain ⟨i1, i2, i3⟩ := ih h
        obtain ⟨j1, j2⟩ := losses_part i1 i2
        refine ⟨j1, j2, ?_⟩
        intro e he
        rcases i3 e he with h1 | ⟨h1, h2⟩
        · rcases (mem_qinsert env _ e _).1 h1 with h3 | h3
          · subst h3
            exact Or.inr ⟨List.mem_cons_self .., fun _ => rfl⟩
          · left; rw [← q1]; exact h3
        · exact Or.inr ⟨List.mem_cons_of_mem _ h1, h2⟩
      · split at h
        · exact absurd h (by simp)
        · rename_i b2 h2
          obtain ⟨_, _, _, _, _, u⟩ := updateSubLosses_spec env vs _ sx _ h2
          obtain ⟨i1, i2, i3⟩ := ih h
          obtain ⟨j1, j2⟩ := losses_part i1 i2
          refine ⟨j1, j2, ?_⟩
          intro e he
          rcases i3 e he with h1 | ⟨h1, h3⟩
          · rcases u e h1 with h4 | ⟨h4, ss, _, h5⟩
            · left; rw [← q1]; exact h4
            · right
              refine ⟨by rw [h4]; exact List.mem_cons_self .., ?_⟩
              intro hn; rw [h5] at hn; exact absurd hn (by simp)
          · exact Or.inr ⟨List.mem_cons_of_mem _ h1, h3⟩

theorem updateLosses_sound (env : Env α) {s s' : State α} {vs : List Pt} (D A : List Simplex)
    (ht : s.tri = some vs) (h : updateLosses env s D A = .ok s') :
    (∀ x ∈ A, get? x s'.losses = some (env.lossFn (ptsOf vs x) s.mult)) ∧
    (∀ x, x ∉ A → x ∉ D → get? x s'.losses = get? x s.losses) ∧
    (∀ e ∈ s'.book.queue, e ∈ s.book.queue ∨
      (e.simplex ∈ A ∧ (e.sub = none → e.loss = env.lossFn (ptsOf vs e.simplex) s.mult))) := by
  unfold updateLosses at h
  rw [ht] at h
  simp only at h
  split at h
  · exact absurd h (by simp)
  · rename_i l b hl
    simp only [Except.ok.injEq] at h
    subst h
    obtain ⟨i1, i2, i3⟩ := addLoop_sound env vs s.mult _ A hl
    refine ⟨i1, ?_, i3⟩
    intro x hA hD
    rw [i2 x hA]
    exact (dropDeleted_get D s.losses s.book.subs [] x hD).1

theorem touchTri_realSound (env : Env α) (hT : TriGeom env) {s s' : State α} (hs : RealSound env s)
    (h : touchTri env s = .ok s') : RealSound env s' := by
  unfold touchTri at h
  cases ht : s.tri with
  | some vs => rw [ht] at h; simp only [Except.ok.injEq] at h; subst h; exact hs
  | none =>
    rw [ht] at h
    simp only at h
    split at h
    · obtain ⟨⟨_, _, c, _, _, _⟩, _⟩ :=
        updateLosses_spec (s := { s with tri := some s.data }) env [] (env.triSimps s.data.length) rfl h
      obtain ⟨u1, u2, u3⟩ :=
        updateLosses_sound (s := { s with tri := some s.data }) env [] (env.triSimps s.data.length) rfl h
      have hq : s.book.queue = [] := hs.1 ht
      have c' : s'.tri = some s.data := c
      have hnew : ∀ e ∈ s'.book.queue, e.simplex ∈ env.triSimps s.data.length ∧
          (e.sub = none → e.loss = env.lossFn (ptsOf s.data e.simplex) s.mult) := by
        intro e he
        rcases u3 e he with h1 | h1
        · have h1' : e ∈ s.book.queue := h1
          rw [hq] at h1'; exact absurd h1' (by simp)
        · exact h1
      refine ⟨fun hn => by rw [c'] at hn; exact absurd hn (by simp), ?_⟩
      intro vs hvs
      rw [c'] at hvs
      simp only [Option.some.injEq] at hvs
      subst hvs
      refine ⟨fun e he i hi => hT.idx _ _ (hnew e he).1 i hi, ?_⟩
      intro e he hsub _
      rw [u1 _ (hnew e he).1, (hnew e he).2 hsub]
    · simp only [Except.ok.injEq] at h; subst h; exact hs

theorem recomputeAll_realSound (env : Env α) (hT : TriGeom env) {s s' : State α} (hs : RealSound env s)
    (h : recomputeAll env s = .ok s') : RealSound env s' := by
  unfold recomputeAll at h
  split at h
  · exact absurd h (by simp)
  · rename_i s1 h1
    have k1 := touchTri_realSound env hT hs h1
    split at h
    · simp only [Except.ok.injEq] at h; subst h; exact k1
    · rename_i vs hvs
      split at h
      · exact absurd h (by simp)
      · rename_i l b hl
        simp only [Except.ok.injEq] at h; subst h
        obtain ⟨u1, u2, u3⟩ := addLoop_sound env vs s1.mult [] _ hl
        have hnew : ∀ e ∈ b.queue, e.simplex ∈ env.triSimps vs.length ∧
            (e.sub = none → e.loss = env.lossFn (ptsOf vs e.simplex) s1.mult) := by
          intro e he
          rcases u3 e he with h1 | h1
          · exact absurd h1 (by simp)
          · exact h1
        refine ⟨fun hn => ?_, ?_⟩
        · have hn' : s1.tri = none := hn
          rw [hvs] at hn'; exact absurd hn' (by simp)
        · intro vs' hvs'
          have hvs'' : s1.tri = some vs' := hvs'
          rw [hvs] at hvs''
          simp only [Option.some.injEq] at hvs''
          subst hvs''
          refine ⟨fun e he i hi => hT.idx _ _ (hnew e he).1 i hi, ?_⟩
          intro e he hsub _
          show get? e.simplex l = some e.loss
          rw [u1 _ (hnew e he).1, (hnew e he).2 hsub]

theorem updateRange_realSound (env : Env α) (hT : TriGeom env) {s s' : State α} (a b : α)
    (hs : RealSound env s) (h : updateRange env s a b = .ok s') : RealSound env s' := by
  obtain ⟨r, m, hf | hf⟩ := updateRange_form env s a b
  · rw [hf] at h
    exact recomputeAll_realSound env hT (s := { s with range := r, mult := m }) hs h
  · rw [hf] at h; simp only [Except.ok.injEq] at h; subst h; exact hs

theorem tellPending_realSound (env : Env α) (hT : TriGeom env) {s s' : State α} (p : Pt)
    (hint : Option Simplex) (hs : RealSound env s) (h : tellPending env s p hint = .ok s') :
    RealSound env s' := by
  rcases tellPending_form env p hint h with ⟨hin, rfl⟩ | ⟨hin, s1, b, h1, rfl, hb⟩
  · exact hs
  · have k1 : RealSound env s1 :=
      touchTri_realSound env hT (s := { s with pending := addPending s.pending p }) hs h1
    rcases hb with rfl | ⟨vs, sx, hvs, hb⟩
    · exact k1
    · refine RealSound.extend env hT k1 rfl rfl ?_
      intro e he
      rcases pendLoop_queue env vs s1.losses p _ hb e he with h2 | ⟨h2, h3⟩
      · exact Or.inl h2
      · exact Or.inr ⟨h3, vs, hvs, mem_neighborsOf h2⟩

theorem tell_realSound (env : Env α) (hT : TriGeom env) {s s' : State α} (p : Pt) (a b : α)
    (hs : RealSound env s) (h : tell env s p a b = .ok s') : RealSound env s' := by
  rcases tell_form env p a b h with ⟨_, rfl⟩ | ⟨_, s1, h1, hcase⟩
  · exact hs
  · have k1 : RealSound env s1 :=
      touchTri_realSound env hT (s := { s with pending := s.pending.filter (· ≠ p) }) hs h1
    rcases hcase with ⟨_, rfl⟩ | ⟨_, s3, h3, hcase⟩
    · exact k1
    · have k3 : RealSound env s3 :=
        updateRange_realSound env hT (s := { s1 with data := s1.data ++ [p] }) a b k1 h3
      rcases hcase with ⟨_, rfl⟩ | ⟨vs, hint, D, A, hvs, hadd, hu⟩
      · exact k3
      · obtain ⟨_, _, _, f3⟩ := updateRange_frame env a b h3
        have t3 : s3.tri = some vs := by
          rcases f3 with f | ⟨f, _⟩
          · rw [f]; exact hvs
          · simp only [hvs] at f; exact absurd f (by simp)
        obtain ⟨⟨_, _, c, _, _, _⟩, _⟩ :=
          updateLosses_spec (s := { s3 with tri := some (vs ++ [p]) }) env D A rfl hu
        obtain ⟨u1, u2, u3⟩ := updateLosses_sound (s := { s3 with tri := some (vs ++ [p]) }) env D A rfl hu
        have c' : s'.tri = some (vs ++ [p]) := c
        obtain ⟨b1, b2⟩ := k3.2 vs t3
        have hR := hT.report _ _ _ _ hadd
        have hA : ∀ x ∈ A, x ∈ env.triSimps (vs.length + 1) := fun x hx => (hR x).2 (Or.inr hx)
        have hold : ∀ e ∈ s'.book.queue, e ∈ s3.book.queue ∨
            (e.simplex ∈ A ∧ (e.sub = none → e.loss = env.lossFn (ptsOf (vs ++ [p]) e.simplex) s3.mult)) := u3
        have hget : ∀ x, x ∉ A → x ∉ D → get? x s'.losses = get? x s3.losses := u2
        refine ⟨fun hn => by rw [c'] at hn; exact absurd hn (by simp), ?_⟩
        intro vs' hvs'
        rw [c'] at hvs'
        simp only [Option.some.injEq] at hvs'
        subst hvs'
        simp only [List.length_append, List.length_cons, List.length_nil, Nat.zero_add]
        constructor
        · intro e he i hi
          rcases hold e he with h1 | ⟨h1, _⟩
          · have := b1 e h1 i hi; omega
          · exact hT.idx _ _ (hA _ h1) i hi
        · intro e he hsub hmem
          rcases hold e he with h1 | ⟨h1, h2⟩
          · have hnA : e.simplex ∉ A := by
              intro hc
              have m1 := hT.fresh _ _ _ _ hadd _ hc
              have m2 := b1 e h1 _ m1
              omega
            rcases (hR _).1 hmem with ⟨m1, m2⟩ | m
            · rw [hget _ hnA m2]; exact b2 e h1 hsub m1
            · exact absurd m hnA
          · rw [u1 _ h1, h2 hsub]

theorem askBest_realSound (env : Env α) (hT : TriGeom env) {s s' : State α} {vs : List Pt} {r : Pt × α}
    (hs : RealSound env s) (h : askBest env s vs = .ok (r, s')) : RealSound env s' := by
  obtain ⟨e, q, s2, hp, _, h2, rfl⟩ := askBest_form env h
  have kq : RealSound env
      { s with book := { s.book with queue := q, p2s := put r.1 e.simplex s.book.p2s } } :=
    RealSound.mono env hT hs rfl rfl (fun x hx => (popHighest_mem env _ _ hp).2 x hx)
  have k2 : RealSound env s2 := tellPending_realSound env hT r.1 (some e.simplex) kq h2
  exact k2

theorem askOne_realSound (env : Env α) (hT : TriGeom env) {s s' : State α} {r : Pt × α}
    (hs : RealSound env s) (h : askOne env s = .ok (r, s')) : RealSound env s' := by
  rcases askOne_form env h with ⟨p, _, _, h1⟩ | ⟨_, s1, h1, hcase⟩
  · exact tellPending_realSound env hT p none hs h1
  · have k1 := touchTri_realSound env hT hs h1
    rcases hcase with ⟨_, _, h2⟩ | ⟨vs, _, h2⟩
    · exact tellPending_realSound env hT (s := { s1 with nrand := s1.nrand + 1 }) _ none k1 h2
    · exact askBest_realSound env hT k1 h2

theorem askLoop_realSound (env : Env α) (hT : TriGeom env) (n : Nat) : ∀ {s s' : State α} {rs : List (Pt × α)},
    RealSound env s → askLoop env n s = .ok (rs, s') → RealSound env s' := by
  induction n with
  | zero =>
    intro s s' rs hs h
    simp only [askLoop, Except.ok.injEq, Prod.mk.injEq] at h
    rw [← h.2]; exact hs
  | succ n ih =>
    intro s s' rs hs h
    unfold askLoop at h
    split at h
    · exact absurd h (by simp)
    · rename_i r s1 h1
      split at h
      · exact absurd h (by simp)
      · rename_i rs' s2 h2
        simp only [Except.ok.injEq, Prod.mk.injEq] at h
        rw [← h.2]
        exact ih (askOne_realSound env hT hs h1) h2

theorem ask_realSound (env : Env α) (hT : TriGeom env) {s s' : State α} {rs : List (Pt × α)} (n : Nat) (c : Bool)
    (hs : RealSound env s) (h : ask env s n c = .ok (rs, s')) : RealSound env s' := by
  unfold ask at h
  split at h
  · exact absurd h (by simp)
  · rename_i rs' s1 h1
    simp only [Except.ok.injEq, Prod.mk.injEq] at h
    rw [← h.2]
    cases c
    · exact hs
    · exact askLoop_realSound env hT n hs h1

theorem lossOp_realSound (env : Env α) (hT : TriGeom env) {s s' : State α} {v : α} (hs : RealSound env s)
    (h : lossOp env s = .ok (v, s')) : RealSound env s' := by
  unfold lossOp at h
  split at h
  · exact absurd h (by simp)
  · rename_i s1 h1
    have k1 := touchTri_realSound env hT hs h1
    split at h <;> (simp only [Except.ok.injEq, Prod.mk.injEq] at h; rw [← h.2]; exact k1)

theorem init_realSound (env : Env α) : RealSound env (init env) := by
  refine ⟨fun _ => rfl, ?_⟩
  intro vs hvs
  exact absurd hvs (by simp [init])

/-- the queue rebuilt by `remove_unfinished` holds one entry per item of `_losses`, carrying that loss -/
theorem removeUnfinished_realSound (env : Env α) (hT : TriGeom env) (s : State α) (hk : KeysInv env s) :
    RealSound env (removeUnfinished env s) := by
  constructor
  · intro ht
    have ht' : s.tri = none := ht
    cases hq : (removeUnfinished env s).book.queue with
    | nil => rfl
    | cons e l =>
      have he : e ∈ (removeUnfinished env s).book.queue := by rw [hq]; exact List.mem_cons_self ..
      rw [removeUnfinished_queue] at he
      have := (hk e.simplex).1 he.2.1
      simp [ht', simplices] at this
  · intro vs ht
    have ht' : s.tri = some vs := ht
    constructor
    · intro e he i hi
      rw [removeUnfinished_queue] at he
      have := (hk e.simplex).1 he.2.1
      simp only [ht', simplices] at this
      exact hT.idx _ _ this i hi
    · intro e he _ _
      rw [removeUnfinished_queue] at he
      exact he.2.2

theorem step_realSound (env : Env α) (hT : TriGeom env) {s s' : State α} (op : Op α)
    (hk : KeysInv env s) (hs : RealSound env s) (h : step env s op = .ok s') : RealSound env s' := by
  cases op with
  | tell p a b => exact tell_realSound env hT p a b hs h
  | tellPending p => exact tellPending_realSound env hT p none hs h
  | ask n c =>
    simp only [step] at h
    cases ha : ask env s n c with
    | error e => rw [ha] at h; simp [Except.map] at h
    | ok r =>
      rw [ha] at h
      simp only [Except.map, Except.ok.injEq] at h
      subst h
      exact ask_realSound env hT (rs := r.1) n c hs (by rw [ha])
  | removeUnfinished =>
    simp only [step, Except.ok.injEq] at h
    subst h; exact removeUnfinished_realSound env hT s hk
  | loss =>
    simp only [step] at h
    cases ha : lossOp env s with
    | error e => rw [ha] at h; simp [Except.map] at h
    | ok r =>
      rw [ha] at h
      simp only [Except.map, Except.ok.injEq] at h
      subst h
      exact lossOp_realSound env hT (v := r.1) hs (by rw [ha])

theorem run_realSound (env : Env α) (hT : TriGeom env) (ops : List (Op α)) :
    ∀ {s s' : State α}, KeysInv env s → RealSound env s → run env s ops = .ok s' → RealSound env s' := by
  induction ops with
  | nil => intro s s' _ hs h; simp only [run, Except.ok.injEq] at h; subst h; exact hs
  | cons op ops ih =>
    intro s s' hk hs h
    unfold run at h
    split at h
    · exact absurd h (by simp)
    · rename_i s1 h1
      exact ih (step_keys env hT.report op hk h1) (step_realSound env hT op hk hs h1) h

end LND
