import AdaptiveModel.QuadPoly
import Mathlib.Analysis.SpecialFunctions.Trigonometric.Chebyshev.Basic
import Mathlib.Analysis.SpecialFunctions.Integrals.Basic
import Mathlib.Tactic.Ring
import Mathlib.Tactic.Linarith
import Mathlib.Tactic.FieldSimp
import Mathlib.Tactic.NormNum
import Mathlib.Tactic.Push

/-!
Generic facts about the coefficient-list polynomials of `AdaptiveModel/QuadPoly.lean` (C08, coefficient tables).

* `peval` is a ring homomorphism from the list operations (`padd`, `pscale`, `pshift`, `pmul`) and commutes with
  mapping the coefficients through a ring homomorphism;
* `inner` is symmetric, equals `integ (pmul p q)`, vanishes when the moments of the right factor vanish, and **is** the
  integral over `[-1, 1]` of the product of the two polynomial functions (`integral_peval_mul_peval`);
* `chebU k` is Mathlib's Chebyshev polynomial of the second kind `U ℝ k` (`peval_chebU`), hence the nodal polynomial
  `ccNodal n = (X²−1)·U_{n−2}/2^{n−2}` vanishes at every `−cos(kπ/(n−1))` (`peval_ccNodal_node`).
-/
namespace QuadPoly

/-- a Boolean check over `List.range n` gives the statement for every index below `n` -/
lemma all_range {n : Nat} {f : Nat → Bool} (h : (List.range n).all f = true) : ∀ k, k < n → f k = true := by
  intro k hk
  exact (List.all_eq_true.mp h) k (List.mem_range.mpr hk)

section ring
variable {α : Type} [CommRing α]

@[simp] lemma peval_nil (x : α) : peval ([] : List α) x = 0 := rfl

@[simp] lemma peval_cons (a : α) (p : List α) (x : α) : peval (a :: p) x = a + x * peval p x := rfl

lemma peval_padd (p q : List α) (x : α) : peval (padd p q) x = peval p x + peval q x := by
  induction p generalizing q with
  | nil => simp [padd]
  | cons a p ih =>
    cases q with
    | nil => simp [padd]
    | cons b q => simp only [padd, peval_cons, ih]; ring

lemma peval_pscale (c : α) (p : List α) (x : α) : peval (pscale c p) x = c * peval p x := by
  induction p with
  | nil => simp [pscale]
  | cons a p ih =>
    have : pscale c (a :: p) = (c * a) :: pscale c p := rfl
    rw [this, peval_cons, peval_cons, ih]; ring

lemma peval_pshift (p : List α) (x : α) : peval (pshift p) x = x * peval p x := by
  simp [pshift]

lemma peval_pmul (p q : List α) (x : α) : peval (pmul p q) x = peval p x * peval q x := by
  induction p with
  | nil => simp [pmul]
  | cons a p ih => simp only [pmul, peval_padd, peval_pscale, peval_pshift, ih, peval_cons]; ring

end ring

section hom
variable {α β : Type} [CommRing α] [CommRing β] (f : α →+* β)

lemma map_padd (p q : List α) : (padd p q).map f = padd (p.map f) (q.map f) := by
  induction p generalizing q with
  | nil => simp [padd]
  | cons a p ih =>
    cases q with
    | nil => simp [padd]
    | cons b q => simp [padd, ih]

lemma map_pscale (c : α) (p : List α) : (pscale c p).map f = pscale (f c) (p.map f) := by
  simp [pscale, List.map_map, Function.comp_def]

lemma map_pshift (p : List α) : (pshift p).map f = pshift (p.map f) := by
  simp [pshift]

lemma map_pmul (p q : List α) : (pmul p q).map f = pmul (p.map f) (q.map f) := by
  induction p with
  | nil => simp [pmul]
  | cons a p ih => simp [pmul, map_padd, map_pscale, map_pshift, ih]

/-- evaluation commutes with a ring homomorphism of the coefficients -/
lemma peval_map (p : List α) (x : α) : peval (p.map f) (f x) = f (peval p x) := by
  induction p with
  | nil => simp
  | cons a p ih => simp [ih]

end hom

/-! ## rows over a common denominator -/

lemma ratRow_eq (num : List Int) (den : Nat) :
    ratRow num den = pscale (1 / (den : ℚ)) (num.map (Int.castRingHom ℚ)) := by
  simp only [ratRow, pscale, List.map_map]
  apply List.map_congr_left
  intro a _
  simp only [Function.comp_def, eq_intCast]
  ring

lemma ratRow_length (num : List Int) (den : Nat) : (ratRow num den).length = num.length := by
  simp [ratRow]

/-- value of a row over the reals: the integer polynomial divided by the denominator -/
lemma peval_ratRow_real (num : List Int) (den : Nat) (x : ℝ) :
    peval ((ratRow num den).map (Rat.castHom ℝ)) x
      = peval (num.map (Int.castRingHom ℝ)) x / (den : ℝ) := by
  rw [ratRow_eq, map_pscale, peval_pscale, List.map_map]
  have : (⇑(Rat.castHom ℝ) ∘ ⇑(Int.castRingHom ℚ)) = ⇑(Int.castRingHom ℝ) := by
    funext a; simp
  rw [this]
  simp only [Rat.coe_castHom, one_div, Rat.cast_inv, Rat.cast_natCast]
  ring

/-! ## the exact integral -/

@[simp] lemma integFrom_nil (k : Nat) : integFrom k [] = 0 := rfl

@[simp] lemma integFrom_cons (k : Nat) (c : ℚ) (cs : List ℚ) :
    integFrom k (c :: cs) = c * mom k + integFrom (k + 1) cs := rfl

@[simp] lemma innerFrom_nil (k : Nat) (q : List ℚ) : innerFrom k [] q = 0 := rfl

@[simp] lemma innerFrom_cons (k : Nat) (a : ℚ) (p q : List ℚ) :
    innerFrom k (a :: p) q = a * integFrom k q + innerFrom (k + 1) p q := rfl

lemma innerFrom_nil_right (k : Nat) (p : List ℚ) : innerFrom k p [] = 0 := by
  induction p generalizing k with
  | nil => rfl
  | cons a p ih => simp [ih]

/-- expansion along the first coefficient of the right factor -/
lemma innerFrom_cons_right (k : Nat) (p : List ℚ) (b : ℚ) (q : List ℚ) :
    innerFrom k p (b :: q) = b * integFrom k p + innerFrom (k + 1) p q := by
  induction p generalizing k with
  | nil => simp
  | cons a p ih => simp only [innerFrom_cons, integFrom_cons, ih]; ring

lemma innerFrom_comm (k : Nat) (p q : List ℚ) : innerFrom k p q = innerFrom k q p := by
  induction p generalizing k q with
  | nil => simp [innerFrom_nil_right]
  | cons a p ih => rw [innerFrom_cons, innerFrom_cons_right, ih]

/-- the scalar product is symmetric -/
lemma inner_comm (p q : List ℚ) : inner p q = inner q p := innerFrom_comm 0 p q

/-- if the moments `∫ x^(k+a) q`, `a < |p|`, vanish then `∫ x^k p q = 0` -/
lemma innerFrom_eq_zero (k : Nat) (p q : List ℚ)
    (h : ∀ a, a < p.length → integFrom (k + a) q = 0) : innerFrom k p q = 0 := by
  induction p generalizing k with
  | nil => rfl
  | cons a p ih =>
    have h0 := h 0 (by simp)
    rw [Nat.add_zero] at h0
    rw [innerFrom_cons, h0, ih (k + 1)]
    · simp
    · intro b hb
      have := h (b + 1) (by simpa using hb)
      rwa [show k + 1 + b = k + (b + 1) by omega]

lemma inner_eq_zero (p q : List ℚ) (h : ∀ a, a < p.length → integFrom a q = 0) : inner p q = 0 :=
  innerFrom_eq_zero 0 p q (by simpa using h)

lemma integFrom_padd (k : Nat) (p q : List ℚ) :
    integFrom k (padd p q) = integFrom k p + integFrom k q := by
  induction p generalizing k q with
  | nil => simp [padd]
  | cons a p ih =>
    cases q with
    | nil => simp [padd]
    | cons b q => simp only [padd, integFrom_cons, ih]; ring

lemma integFrom_pscale (k : Nat) (c : ℚ) (p : List ℚ) :
    integFrom k (pscale c p) = c * integFrom k p := by
  induction p generalizing k with
  | nil => simp [pscale]
  | cons a p ih =>
    have : pscale c (a :: p) = (c * a) :: pscale c p := rfl
    rw [this, integFrom_cons, integFrom_cons, ih]; ring

lemma integFrom_pshift_of (k : Nat) (p : List ℚ) : integFrom k (pshift p) = integFrom (k + 1) p := by
  simp [pshift]

lemma integFrom_pmul (k : Nat) (p q : List ℚ) : integFrom k (pmul p q) = innerFrom k p q := by
  induction p generalizing k with
  | nil => simp [pmul]
  | cons a p ih =>
    simp only [pmul, integFrom_padd, integFrom_pscale, integFrom_pshift_of, ih, innerFrom_cons]

/-- `inner` is the integral of the product polynomial (the form `scalar_product` computes it in) -/
lemma inner_eq_integ_pmul (p q : List ℚ) : inner p q = integ (pmul p q) :=
  (integFrom_pmul 0 p q).symm

/-! ## … and it is the integral over the reals -/

open intervalIntegral in
lemma continuous_peval (p : List ℝ) : Continuous fun x => peval p x := by
  induction p with
  | nil => simpa using continuous_const
  | cons a p ih =>
    show Continuous fun x => a + x * peval p x
    exact continuous_const.add (continuous_id.mul ih)

lemma mom_cast (k : Nat) : ((mom k : ℚ) : ℝ) = ∫ x in (-1 : ℝ)..1, x ^ k := by
  rw [integral_pow]
  unfold mom
  rcases Nat.even_or_odd k with hk | hk
  · have h2 : k % 2 = 0 := Nat.even_iff.mp hk
    have : Odd (k + 1) := hk.add_one
    rw [if_pos h2, this.neg_one_pow]
    push_cast
    ring
  · have h2 : ¬ k % 2 = 0 := by rw [Nat.odd_iff.mp hk]; decide
    have : Even (k + 1) := hk.add_one
    rw [if_neg h2, this.neg_one_pow]
    simp

/-- `integFrom k q = ∫_{-1}^{1} x^k q(x) dx` -/
lemma integral_integFrom (k : Nat) (q : List ℚ) :
    ∫ x in (-1 : ℝ)..1, x ^ k * peval (q.map (Rat.castHom ℝ)) x = ((integFrom k q : ℚ) : ℝ) := by
  induction q generalizing k with
  | nil => simp
  | cons b q ih =>
    have hc : Continuous fun x : ℝ => x ^ (k + 1) * peval (q.map (Rat.castHom ℝ)) x :=
      (continuous_pow _).mul (continuous_peval _)
    have e : ∀ x : ℝ, x ^ k * peval ((b :: q).map (Rat.castHom ℝ)) x
        = (b : ℝ) * x ^ k + x ^ (k + 1) * peval (q.map (Rat.castHom ℝ)) x := by
      intro x; simp only [List.map_cons, peval_cons, Rat.coe_castHom]; ring
    simp_rw [e]
    rw [intervalIntegral.integral_add, intervalIntegral.integral_const_mul, ih, ← mom_cast]
    · simp
    · exact ((continuous_const.mul (continuous_pow _)).intervalIntegrable _ _)
    · exact hc.intervalIntegrable _ _

/-- `innerFrom k p q = ∫_{-1}^{1} x^k p(x) q(x) dx` -/
lemma integral_innerFrom (k : Nat) (p q : List ℚ) :
    ∫ x in (-1 : ℝ)..1, x ^ k * (peval (p.map (Rat.castHom ℝ)) x * peval (q.map (Rat.castHom ℝ)) x)
      = ((innerFrom k p q : ℚ) : ℝ) := by
  induction p generalizing k with
  | nil => simp
  | cons a p ih =>
    have e : ∀ x : ℝ, x ^ k * (peval ((a :: p).map (Rat.castHom ℝ)) x * peval (q.map (Rat.castHom ℝ)) x)
        = (a : ℝ) * (x ^ k * peval (q.map (Rat.castHom ℝ)) x)
          + x ^ (k + 1) * (peval (p.map (Rat.castHom ℝ)) x * peval (q.map (Rat.castHom ℝ)) x) := by
      intro x; simp only [List.map_cons, peval_cons, Rat.coe_castHom]; ring
    simp_rw [e]
    rw [intervalIntegral.integral_add, intervalIntegral.integral_const_mul, ih, integral_integFrom]
    · simp
    · exact ((continuous_const.mul ((continuous_pow _).mul (continuous_peval _))).intervalIntegrable _ _)
    · exact (((continuous_pow _).mul ((continuous_peval _).mul (continuous_peval _))).intervalIntegrable _ _)

/-- **`inner p q` is the integral of the product of the two polynomial functions over `[-1, 1]`.** -/
theorem integral_peval_mul_peval (p q : List ℚ) :
    ∫ x in (-1 : ℝ)..1, peval (p.map (Rat.castHom ℝ)) x * peval (q.map (Rat.castHom ℝ)) x
      = ((inner p q : ℚ) : ℝ) := by
  have := integral_innerFrom 0 p q
  simpa [inner] using this

/-! ## Chebyshev polynomials of the second kind and the Clenshaw–Curtis nodal polynomial -/

open Polynomial in
lemma peval_chebPair (k : Nat) (x : ℝ) :
    peval ((chebPair k).1.map (Int.castRingHom ℝ)) x = (Chebyshev.U ℝ (k : ℤ)).eval x ∧
    peval ((chebPair k).2.map (Int.castRingHom ℝ)) x = (Chebyshev.U ℝ ((k : ℤ) + 1)).eval x := by
  induction k with
  | zero =>
    refine ⟨by simp [chebPair], ?_⟩
    simp [chebPair]
    ring
  | succ k ih =>
    obtain ⟨h1, h2⟩ := ih
    refine ⟨by simpa [chebPair] using h2, ?_⟩
    have hU : Chebyshev.U ℝ (((k + 1 : ℕ) : ℤ) + 1)
        = 2 * X * Chebyshev.U ℝ ((k : ℤ) + 1) - Chebyshev.U ℝ (k : ℤ) := by
      have e : (((k + 1 : ℕ) : ℤ) + 1) = (k : ℤ) + 2 := by push_cast; ring
      rw [e, Chebyshev.U_add_two]
    rw [hU]
    simp only [chebPair, map_padd, map_pscale, map_pshift, peval_padd, peval_pscale, peval_pshift, h1, h2]
    simp
    ring

open Polynomial in
/-- `chebU k` is Mathlib's Chebyshev polynomial of the second kind -/
lemma peval_chebU (k : Nat) (x : ℝ) :
    peval ((chebU k).map (Int.castRingHom ℝ)) x = (Chebyshev.U ℝ (k : ℤ)).eval x :=
  (peval_chebPair k x).1

/-- value of the nodal polynomial -/
lemma peval_ccNodal (n : Nat) (x : ℝ) :
    peval ((ccNodal n).map (Rat.castHom ℝ)) x
      = (x ^ 2 - 1) * (Polynomial.Chebyshev.U ℝ ((n - 2 : ℕ) : ℤ)).eval x / 2 ^ (n - 2) := by
  rw [ccNodal, peval_ratRow_real, map_pmul, peval_pmul, peval_chebU]
  have h : peval (List.map (Int.castRingHom ℝ) [-1, 0, 1]) x = x ^ 2 - 1 := by
    simp
    ring
  rw [h]
  push_cast
  ring

/-- the nodal polynomial vanishes at every Clenshaw–Curtis node `−cos(kπ/(n−1))` (any integer `k`) -/
theorem peval_ccNodal_node (n : Nat) (hn : 2 ≤ n) (k : ℤ) :
    peval ((ccNodal n).map (Rat.castHom ℝ)) (-Real.cos (k * Real.pi / ((n : ℝ) - 1))) = 0 := by
  rw [peval_ccNodal]
  set θ : ℝ := k * Real.pi / ((n : ℝ) - 1) with hθ
  have hn1 : ((n : ℝ) - 1) ≠ 0 := by
    have : (2 : ℝ) ≤ n := by exact_mod_cast hn
    linarith
  -- −cos θ = cos (π − θ)
  have hc : -Real.cos θ = Real.cos (Real.pi - θ) := by rw [Real.cos_pi_sub]
  rw [hc]
  have hU := Polynomial.Chebyshev.U_real_cos (Real.pi - θ) ((n - 2 : ℕ) : ℤ)
  have hcast : (((n - 2 : ℕ) : ℤ) : ℝ) + 1 = (n : ℝ) - 1 := by
    have : ((n - 2 : ℕ) : ℝ) = (n : ℝ) - 2 := by
      rw [Nat.cast_sub hn]; simp
    push_cast
    rw [this]; ring
  have hs : Real.sin (((((n - 2 : ℕ) : ℤ) : ℝ) + 1) * (Real.pi - θ)) = 0 := by
    rw [hcast]
    have : ((n : ℝ) - 1) * (Real.pi - θ) = (((n : ℤ) - 1 - k : ℤ) : ℝ) * Real.pi := by
      rw [hθ]; push_cast; field_simp
    rw [this]
    exact Real.sin_int_mul_pi _
  rw [hs] at hU
  have hsq : Real.cos (Real.pi - θ) ^ 2 - 1 = -(Real.sin (Real.pi - θ) * Real.sin (Real.pi - θ)) := by
    have := Real.sin_sq_add_cos_sq (Real.pi - θ)
    linarith [this, sq (Real.sin (Real.pi - θ))]
  rw [hsq]
  have : -(Real.sin (Real.pi - θ) * Real.sin (Real.pi - θ))
      * Polynomial.eval (Real.cos (Real.pi - θ)) (Polynomial.Chebyshev.U ℝ ((n - 2 : ℕ) : ℤ))
      = -Real.sin (Real.pi - θ)
        * (Polynomial.eval (Real.cos (Real.pi - θ)) (Polynomial.Chebyshev.U ℝ ((n - 2 : ℕ) : ℤ))
            * Real.sin (Real.pi - θ)) := by ring
  rw [this, hU]
  simp

end QuadPoly
