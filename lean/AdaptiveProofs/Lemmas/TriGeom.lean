import Mathlib.Analysis.Convex.Hull
import Mathlib.Analysis.Normed.Module.FiniteDimension
import Mathlib.LinearAlgebra.AffineSpace.Independent
import Mathlib.LinearAlgebra.Matrix.Determinant.Basic
import Mathlib.Data.Real.Basic
import AdaptiveProofs.Lemmas.TriReach

/-!
Geometric reading of the combinatorial Triangulation model: what it means for the oracle answers of one
`add_point` to be the TRUE geometric predicates (exact arithmetic, eps = 0), and what "valid simplicial
tiling" and "Delaunay" mean.  Definitions only — they serve the visible statement `tiles_hull_statement`
of `Props/C03.lean`, which is not claimed as proved — plus the easy fact that a geometrically truthful
history is in particular a history (`GeomReachable.reachable`).
-/
namespace Tri
noncomputable section
open Set

/-- points of `ℝ^d` -/
abbrev Pt (d : ℕ) := Fin d → ℝ

variable {d : ℕ}

/-- the geometric simplex spanned by the vertices `t` (coordinates `x : vertex index → point`) -/
def cell (x : ℕ → Pt d) (t : Simplex) : Set (Pt d) := convexHull ℝ (x '' {v | v ∈ t})

/-- the convex hull of the first `n` points -/
def hullOf (x : ℕ → Pt d) (n : ℕ) : Set (Pt d) := convexHull ℝ (x '' {v | v < n})

/-- squared distance in the metric given by the diagonal scaling `a` (`transform = diag a`) -/
def mdist2 (a : Fin d → ℝ) (p q : Pt d) : ℝ := ∑ i, (a i * (p i - q i)) ^ 2

/-- `p` lies in the closed circumball of `t` (metric `a`) -/
def InCircumball (a : Fin d → ℝ) (x : ℕ → Pt d) (t : Simplex) (p : Pt d) : Prop :=
  ∃ (c : Pt d) (r : ℝ), (∀ v ∈ t, mdist2 a (x v) c = r) ∧ mdist2 a p c ≤ r

def sgn (r : ℝ) : ℤ := if 0 < r then 1 else if r < 0 then -1 else 0

/-- `orientation(face, origin)`: sign of `det (face - origin)` -/
def orientSign (x : ℕ → Pt d) (f : Simplex) (o : Pt d) : ℤ :=
  sgn (Matrix.det (Matrix.of fun (i j : Fin d) => x (f.getD i.val 0) j - o j))

/-- the vertices of `t` are affinely dependent (the simplex has zero volume) -/
def Degenerate (x : ℕ → Pt d) (t : Simplex) : Prop :=
  ¬ AffineIndependent ℝ (fun i : Fin t.length => x (t.get i))

/-- the simplex `add_point` works with: the hint, else the answer of `locate_point` -/
def resolved (hint : Option Simplex) (o : Oracle) : Simplex := (hint.orElse fun _ => o.locate).getD []

/-- every recorded answer of one `add_point(x n, hint)` call is the exact geometric predicate -/
structure Truthful (a : Fin d → ℝ) (x : ℕ → Pt d) (s : State) (hint : Option Simplex) (o : Oracle) : Prop where
  locate : ∀ l, o.locate = some l →
    (l = [] ∧ ∀ t ∈ s.simplices, x s.nVerts ∉ cell x t) ∨ (l ∈ s.simplices ∧ x s.nVerts ∈ cell x l)
  reduced : ∀ r, o.reduced = some r →
    (x s.nVerts ∉ cell x (resolved hint o) ∧ r = []) ∨
    (x s.nVerts ∈ cell x r ∧ (∀ v ∈ r, v ∈ resolved hint o) ∧
      ∀ v ∈ r, x s.nVerts ∉ convexHull ℝ (x '' {w | w ∈ r ∧ w ≠ v}))
  orient : ∀ f oi on, (f, oi, on) ∈ o.orient →
    ∃ c ∈ interior (hullOf x s.nVerts), oi = orientSign x f c ∧ on = orientSign x f (x s.nVerts)
  flat : ∀ t b, (t, b) ∈ o.flat → (b = true ↔ Degenerate x t)
  circ : ∀ t b, (t, b) ∈ o.circ → (b = true ↔ InCircumball a x t (x s.nVerts))

/-- "a valid simplicial tiling": every facet in at most two simplices, every point a vertex of some simplex,
the simplices cover exactly the convex hull of all points and their interiors are pairwise disjoint
(equivalently: the simplex volumes add up to the hull volume) -/
structure Tiling (x : ℕ → Pt d) (s : State) : Prop where
  facets : ∀ f, (facesOf s.dim s.simplices).count f ≤ 2
  used : ∀ v, v < s.nVerts → ∃ t ∈ s.simplices, v ∈ t
  cover : (⋃ t ∈ {t | t ∈ s.simplices}, cell x t) = hullOf x s.nVerts
  disjoint : ∀ t ∈ s.simplices, ∀ u ∈ s.simplices, t ≠ u → Disjoint (interior (cell x t)) (interior (cell x u))

/-- no vertex strictly inside the circumsphere of any simplex, in the metric `a` -/
def Delaunay (a : Fin d → ℝ) (x : ℕ → Pt d) (s : State) : Prop :=
  ∀ t ∈ s.simplices, ∀ (c : Pt d) (r : ℝ), (∀ v ∈ t, mdist2 a (x v) c = r) → ∀ w, w < s.nVerts → r ≤ mdist2 a (x w) c

/-- no `d+1` of the first `n` points affinely dependent, no `d+2` on a common sphere of the metric -/
def GeneralPosition (a : Fin d → ℝ) (x : ℕ → Pt d) (n : ℕ) : Prop :=
  (∀ t : Simplex, t.Nodup → (∀ v ∈ t, v < n) → t.length = d + 1 → ¬ Degenerate x t) ∧
  (∀ t : Simplex, t.Nodup → (∀ v ∈ t, v < n) → t.length = d + 2 →
    ¬ ∃ (c : Pt d) (r : ℝ), ∀ v ∈ t, mdist2 a (x v) c = r)

/-- the states of a `Triangulation` of the points `x 0, x 1, …` inserted in this order with truthful predicates,
started from a valid Delaunay tiling of the first `n` points (what SciPy is trusted to deliver) -/
inductive GeomReachable (a : Fin d → ℝ) (x : ℕ → Pt d) : State → Prop where
  | init {n : ℕ} {initial : List Simplex} {s : State} :
      (∀ t ∈ initial, ValidRaw d n t) → init d n initial = .ok s → Tiling x s → Delaunay a x s → GeomReachable a x s
  | insert {s s' : State} {hint : Option Simplex} {o : Oracle} {D A : List Simplex} :
      GeomReachable a x s → ValidHint s hint → Truthful a x s hint o → addPoint s hint o = .ok (s', D, A) →
      GeomReachable a x s'
  | reject {s s' : State} {hint : Option Simplex} {o : Oracle} {w : Reject} :
      GeomReachable a x s → Truthful a x s hint o → addPoint s hint o = .error (.reject w s') → GeomReachable a x s'

/-- a geometrically truthful history is a history: the index invariant holds along it -/
theorem GeomReachable.inv {a : Fin d → ℝ} {x : ℕ → Pt d} {s : State} (h : GeomReachable a x s) : Inv s := by
  induction h with
  | init hv hok _ _ => exact init_inv hv hok
  | insert _ hh _ hok ih => exact (addPoint_spec ih hh hok).1
  | reject _ _ hok ih => rw [addPoint_reject ih hok]; exact ih

end
end Tri
