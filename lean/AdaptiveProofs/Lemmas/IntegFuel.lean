import AdaptiveProofs.Lemmas.IntegWF
/-!
C07 (deepening): the FUEL of the tree recursions of the model (`updHeur`, `updNdivRec`, `removeDown`, `walkUp`) is never
exhausted on a well-formed forest: children have larger numbers than their parent and parents smaller ones, so
`F.length - j` (resp. `p + 1`) bounds the recursion depth; any larger fuel gives the same result, and `updNdivRec` never
reports `Err.fuel`.  The model calls all four with fuel `F.length`.
-/
set_option linter.unusedSectionVars false
set_option linter.unusedSimpArgs false
set_option linter.unusedVariables false
namespace Integ
namespace Cut
open Safe
variable {α : Type} [OfNat α 0] [DecidableEq α] [Div α] [OfNat α 2] [LT α] [DecidableLT α] [Sub α] [Mul α] [Add α] [Neg α]

theorem foldl_congr_inv {σ β : Type} (Q : σ → Prop) (g1 g2 : σ → β → σ) :
    ∀ (l : List β) (s : σ), Q s → (∀ s c, Q s → c ∈ l → g1 s c = g2 s c ∧ Q (g1 s c)) → l.foldl g1 s = l.foldl g2 s
  | [], _, _, _ => rfl
  | x :: r, s, hs, h => by
    simp only [List.foldl_cons]
    have := h s x hs (List.mem_cons_self ..)
    rw [← this.1]
    exact foldl_congr_inv Q g1 g2 r _ this.2 (fun s c hs hc => h s c hs (List.mem_cons_of_mem _ hc))

theorem forEach_congr_inv {σ β : Type} (Q : σ → Prop) (f1 f2 : σ → β → σ × Option Err) :
    ∀ (l : List β) (s : σ), Q s → (∀ s c, Q s → c ∈ l → f1 s c = f2 s c ∧ Q (f1 s c).1) →
      forEach f1 l s = forEach f2 l s
  | [], _, _, _ => rfl
  | x :: r, s, hs, h => by
    have := h s x hs (List.mem_cons_self ..)
    unfold forEach
    rw [← this.1]
    rcases hfx : f1 s x with ⟨s', _ | e⟩
    · simp only
      rw [hfx] at this
      exact forEach_congr_inv Q f1 f2 r s' this.2 (fun s c hs hc => h s c hs (List.mem_cons_of_mem _ hc))
    · rfl

/-- what is needed of the fuel at a child -/
theorem child_fuel {F G : Forest α} (hW : WF F) (hs : Sk F G) {j c a : Nat} (hc : c ∈ (getI G j).children)
    (hf : F.length - j ≤ a + 1) : 1 ≤ a ∧ G.length - c ≤ a := by
  rw [hs.children] at hc
  have := hW.child j c hc
  rw [hs.1]
  omega

theorem updHeur_fuel : ∀ (f1 : Nat) (F : Forest α) (j : Nat) (v : α) (f2 : Nat), WF F → 1 ≤ f1 → 1 ≤ f2 →
    F.length - j ≤ f1 → F.length - j ≤ f2 → updHeur f1 F j v = updHeur f2 F j v
  | 0, _, _, _, _, _, h, _, _, _ => by omega
  | _ + 1, _, _, _, 0, _, _, h, _, _ => by omega
  | a + 1, F, j, v, b + 1, hW, _, _, h1, h2 => by
    simp only [updHeur]
    have h0 : Sk F (modAt F j (fun I => { I with err := v })) := modAt_sk _ _ _ (fun I => rfl)
    apply foldl_congr_inv (fun G => Sk F G) _ _ _ _ h0
    intro G c hG hc
    rw [h0.children, ← hG.children] at hc
    obtain ⟨ha, hca⟩ := child_fuel hW hG hc h1
    obtain ⟨hb, hcb⟩ := child_fuel hW hG hc h2
    split
    · exact ⟨rfl, hG⟩
    · exact ⟨updHeur_fuel a G c _ b (hW.of_skS hG.toS) ha hb hca hcb, hG.trans (updHeur_sk a G c _)⟩

theorem updNdivRec_fuel (P : Params α) : ∀ (f1 : Nat) (F : Forest α) (j : Nat) (f2 : Nat), WF F → 1 ≤ f1 → 1 ≤ f2 →
    F.length - j ≤ f1 → F.length - j ≤ f2 → updNdivRec P f1 F j = updNdivRec P f2 F j
  | 0, _, _, _, _, h, _, _, _ => by omega
  | _ + 1, _, _, 0, _, _, h, _, _ => by omega
  | a + 1, F, j, b + 1, hW, _, _, h1, h2 => by
    simp only [updNdivRec]
    have h0 : Sk F (modAt F j (fun I => { I with ndiv := I.ndiv + 1 })) := modAt_sk _ _ _ (fun I => rfl)
    split
    · rfl
    · apply forEach_congr_inv (fun G => Sk F G) _ _ _ _ h0
      intro G c hG hc
      rw [h0.children, ← hG.children] at hc
      obtain ⟨ha, hca⟩ := child_fuel hW hG hc h1
      obtain ⟨hb, hcb⟩ := child_fuel hW hG hc h2
      exact ⟨updNdivRec_fuel P a G c b (hW.of_skS hG.toS) ha hb hca hcb, hG.trans (updNdivRec_sk P a G c)⟩

/-- `update_ndiv_recursively` never runs out of fuel -/
theorem updNdivRec_nofuel (P : Params α) : ∀ (f : Nat) (F : Forest α) (j : Nat), WF F → 1 ≤ f → F.length - j ≤ f →
    (updNdivRec P f F j).2 ≠ some Err.fuel
  | 0, _, _, _, h, _ => by omega
  | a + 1, F, j, hW, _, h1 => by
    simp only [updNdivRec]
    have h0 : Sk F (modAt F j (fun I => { I with ndiv := I.ndiv + 1 })) := modAt_sk _ _ _ (fun I => rfl)
    split
    · intro h; cases h
    · have hcs : ∀ c ∈ (getI (modAt F j (fun I => { I with ndiv := I.ndiv + 1 })) j).children,
          c ∈ (getI F j).children := fun c hc => by rw [h0.children] at hc; exact hc
      generalize (getI (modAt F j (fun I => { I with ndiv := I.ndiv + 1 })) j).children = cs at hcs
      have key : ∀ (l : List Nat) (G : Forest α), (∀ c ∈ l, c ∈ (getI F j).children) → Sk F G →
          (forEach (fun F c => updNdivRec P a F c) l G).2 ≠ some Err.fuel := by
        intro l
        induction l with
        | nil => intro G _ _ h; simp [forEach] at h
        | cons c r ih =>
          intro G hl hG
          have hc : c ∈ (getI G j).children := by rw [hG.children]; exact hl c (List.mem_cons_self ..)
          obtain ⟨ha, hca⟩ := child_fuel hW hG hc h1
          have h1' := updNdivRec_nofuel P a G c (hW.of_skS hG.toS) ha hca
          have h2' := updNdivRec_sk P a G c
          unfold forEach
          rcases hfx : updNdivRec P a G c with ⟨G', _ | e⟩
          · simp only
            rw [hfx] at h2'
            exact ih G' (fun c' hc' => hl c' (List.mem_cons_of_mem _ hc')) (hG.trans h2')
          · simp only
            rw [hfx] at h1'
            exact h1'
      exact key cs _ hcs h0

theorem removeDown_fuel : ∀ (f1 : Nat) (F : Forest α) (j : Nat) (f2 : Nat), WF F → 1 ≤ f1 → 1 ≤ f2 →
    F.length - j ≤ f1 → F.length - j ≤ f2 → removeDown f1 F j = removeDown f2 F j
  | 0, _, _, _, _, h, _, _, _ => by omega
  | _ + 1, _, _, 0, _, _, h, _, _ => by omega
  | a + 1, F, j, b + 1, hW, _, _, h1, h2 => by
    simp only [removeDown]
    have h0 : Sk F (modAt F j (fun I => { I with removed := true })) := modAt_sk _ _ _ (fun I => rfl)
    apply foldl_congr_inv (fun (r : Forest α × List Nat) => Sk F r.1) _ _ _ _ h0
    intro r c hG hc
    rw [h0.children, ← hG.children] at hc
    obtain ⟨ha, hca⟩ := child_fuel hW hG hc h1
    obtain ⟨hb, hcb⟩ := child_fuel hW hG hc h2
    simp only
    rw [removeDown_fuel a r.1 c b (hW.of_skS hG.toS) ha hb hca hcb]
    exact ⟨rfl, hG.trans (removeDown_sk b r.1 c)⟩

/-- the `while ival is not None` walk: fuel `p + 1` is enough to start at `p` -/
theorem walkUp_fuel : ∀ (f1 : Nat) (F : Forest α) (po : Option Nat) (old : List Nat) (f2 : Nat), WF F →
    (∀ p, po = some p → p < f1 ∧ p < f2) → walkUp f1 F po old = walkUp f2 F po old
  | 0, F, none, old, 0, _, _ => rfl
  | 0, F, none, old, _ + 1, _, _ => by simp only [walkUp]
  | _ + 1, F, none, old, 0, _, _ => by simp only [walkUp]
  | _ + 1, F, none, old, _ + 1, _, _ => by simp only [walkUp]
  | 0, F, some p, old, _, _, h => by have := h p rfl; omega
  | _ + 1, F, some p, old, 0, _, h => by have := h p rfl; omega
  | a + 1, F, some p, old, b + 1, hW, h => by
    simp only [walkUp]
    cases hws : walkStep F p old with
    | none => rfl
    | some r =>
      rcases r with ⟨F', old'⟩
      simp only
      have hs := walkStep_skS F p old F' old' hws
      have hW' := hW.of_skS hs
      apply walkUp_fuel a F' _ old' b hW'
      intro q hq
      have := (hW'.par p q hq).1
      have := h p rfl
      omega

/-- all four recursions at the fuel the model uses (`F.length`) agree with any larger fuel -/
theorem fuel_irrelevant {F : Forest α} (hW : WF F) (hne : 1 ≤ F.length) (P : Params α) (fuel : Nat) (hf : F.length ≤ fuel) :
    (∀ j v, updHeur fuel F j v = updHeur F.length F j v) ∧
    (∀ j, updNdivRec P fuel F j = updNdivRec P F.length F j ∧ (updNdivRec P F.length F j).2 ≠ some Err.fuel) ∧
    (∀ j, removeDown fuel F j = removeDown F.length F j) ∧
    (∀ p old, p < F.length → walkUp fuel F (some p) old = walkUp F.length F (some p) old) ∧
    (∀ old, walkUp fuel F none old = walkUp F.length F none old) := by
  refine ⟨fun j v => updHeur_fuel fuel F j v F.length hW (by omega) hne (by omega) (by omega),
    fun j => ⟨updNdivRec_fuel P fuel F j F.length hW (by omega) hne (by omega) (by omega),
      updNdivRec_nofuel P F.length F j hW hne (by omega)⟩,
    fun j => removeDown_fuel fuel F j F.length hW (by omega) hne (by omega) (by omega),
    fun p old hp => walkUp_fuel fuel F (some p) old F.length hW (fun q hq => by cases hq; omega),
    fun old => walkUp_fuel fuel F none old F.length hW (fun q hq => by cases hq)⟩

end Cut
end Integ
