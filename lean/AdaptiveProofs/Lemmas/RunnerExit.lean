import AdaptiveProofs.Lemmas.RunnerBound

/-!
Exit invariant of the runner model (C05.d; the part about raises also serves C06.e).
-/
namespace Runner

/-- calls that may happen after `remove_unfinished` -/
def PostCall (c : Call) : Prop :=
  (∃ f, c = .cancel f) ∨ (∃ f p x y, c = .tell f p x y) ∨
  (∃ f p, c = .evalFailed f p) ∨ (∃ p x, c = .raise p x)

/-- `processOne` appends only tells, failures and raises, and only removes pending futures -/
theorem processOne_trace (s : State) (fut : Nat) (o : Outcome) :
    (∃ tr, (processOne s fut o).1.trace = s.trace ++ tr ∧ ∀ c ∈ tr, PostCall c) ∧
    (∀ fp ∈ (processOne s fut o).1.pending, fp ∈ s.pending) := by
  cases h : aget fut s.pending with
  | none => simp [processOne_none h]
  | some pid =>
    have hm : ∀ fp ∈ aerase fut s.pending, fp ∈ s.pending := fun fp h => mem_of_mem_aerase h
    cases o with
    | ok y =>
      simp only [processOne_ok h, emit, logIf_trace, logIf_pending]
      exact ⟨⟨_, rfl, by simp [PostCall]⟩, hm⟩
    | fail =>
      rw [processOne_fail h]
      split
      · split
        · exact ⟨⟨_, rfl, by simp [PostCall]⟩, hm⟩
        · exact ⟨⟨_, rfl, by simp [PostCall]⟩, hm⟩
      · exact ⟨⟨_, rfl, by simp [PostCall]⟩, hm⟩

theorem processFutures_trace (l : List (Nat × Outcome)) (s : State) :
    (∃ tr, (processFutures s l).1.trace = s.trace ++ tr ∧ ∀ c ∈ tr, PostCall c) ∧
    (∀ fp ∈ (processFutures s l).1.pending, fp ∈ s.pending) := by
  refine processFutures_induct
    (fun s' => (∃ tr, s'.trace = s.trace ++ tr ∧ ∀ c ∈ tr, PostCall c) ∧
      (∀ fp ∈ s'.pending, fp ∈ s.pending)) l ?_ s ⟨⟨[], by simp⟩, fun _ h => h⟩
  intro s1 fut o _ ⟨⟨tr, e, hpc⟩, hm⟩
  obtain ⟨⟨tr', e', hpc'⟩, hm'⟩ := processOne_trace s1 fut o
  refine ⟨⟨tr ++ tr', by rw [e', e, List.append_assoc], ?_⟩, fun fp h => hm fp (hm' fp h)⟩
  intro c hc
  rcases List.mem_append.1 hc with h | h
  · exact hpc c h
  · exact hpc' c h

theorem processOne_raise {s : State} {fut : Nat} {o : Outcome} {pid x : Nat}
    (hr : (processOne s fut o).2 = some (pid, x)) :
    Call.raise pid x ∈ (processOne s fut o).1.trace := by
  cases h : aget fut s.pending with
  | none => simp [processOne_none h] at hr
  | some p =>
    cases o with
    | ok y => simp [processOne_ok h] at hr
    | fail =>
      rw [processOne_fail h] at hr ⊢
      split at hr
      · split at hr
        · simp only [Option.some.injEq, Prod.mk.injEq] at hr
          obtain ⟨rfl, rfl⟩ := hr
          rw [if_pos (by assumption), if_pos (by assumption)]
          simp
        · simp at hr
      · simp at hr

theorem processFutures_raise (l : List (Nat × Outcome)) : ∀ (s : State) {pid x : Nat},
    (processFutures s l).2 = some (pid, x) → Call.raise pid x ∈ (processFutures s l).1.trace := by
  induction l with
  | nil => intro s pid x h; simp [processFutures] at h
  | cons a r ih =>
    intro s pid x h
    obtain ⟨fut, o⟩ := a
    unfold processFutures at h ⊢
    split at h
    · rename_i s' e heq
      simp only at h ⊢
      have := @processOne_raise s fut o pid x (by rw [heq]; exact h)
      rw [heq] at this; exact this
    · rename_i s' heq
      split at h
      · simp at h
      · rename_i hst
        rw [if_neg hst]
        exact ih s' h

theorem stopped_phase_eq {st st' : Status} {ph : Phase} (hph : ph = .stopped st)
    (h : ph = .exitWait st' ∨ ph = .stopped st') : st' = st := by
  subst hph
  rcases h with h | h
  · cases h
  · injection h with h; exact h.symm

/-- what holds once `_remove_unfinished` ran with exit status `st` -/
def ExitFacts (s : State) (st : Status) : Prop :=
  (∃ tr1 tr2, s.trace = tr1 ++ Call.removeUnfinished :: tr2 ∧ ∀ c ∈ tr2, PostCall c) ∧
  (∀ fp ∈ s.pending, Call.cancel fp.1 ∈ s.trace) ∧
  (st = .finished → ∃ tr1 tr2, s.trace = tr1 ++ Call.goal true :: tr2 ∧
    ∀ c ∈ tr2, ∀ b, c ≠ .goal b) ∧
  (st = .cancelled → s.cfg.blocking = false) ∧
  (∀ pid x, st = .failed pid x → Call.raise pid x ∈ s.trace)

def ExitInv (s : State) : Prop :=
  ∀ st, (s.phase = .exitWait st ∨ s.phase = .stopped st) → ExitFacts s st

theorem exitInv_init (cfg : Cfg) : ExitInv (init cfg) := by
  intro st h; simp [init] at h

theorem exitFacts_beginExit (s : State) (st : Status)
    (h3 : st = .finished → ∃ tr1, s.trace = tr1 ++ [Call.goal true])
    (h4 : st = .cancelled → s.cfg.blocking = false)
    (h5 : ∀ pid x, st = .failed pid x → Call.raise pid x ∈ s.trace) :
    ExitInv (beginExit s st) := by
  intro st' hph
  have hst : st' = st := by
    rw [beginExit_eq] at hph
    simp only at hph
    split at hph <;> simp at hph <;> exact hph.symm
  subst hst
  rw [beginExit_eq]
  refine ⟨⟨s.trace, _, rfl, ?_⟩, ?_, ?_, h4, ?_⟩
  · intro c hc
    simp only [List.mem_map] at hc
    obtain ⟨fp, _, rfl⟩ := hc
    exact Or.inl ⟨_, rfl⟩
  · intro fp hfp
    simp only [List.mem_append, List.mem_cons, List.mem_map]
    exact Or.inr (Or.inr ⟨fp, hfp, rfl⟩)
  · intro e
    obtain ⟨tr1, e1⟩ := h3 e
    refine ⟨tr1, _, by simp only [e1, List.append_assoc, List.singleton_append]; rfl, ?_⟩
    intro c hc b
    simp only [List.mem_cons, List.mem_map] at hc
    rcases hc with rfl | ⟨fp, _, rfl⟩ <;> simp
  · intro pid x e
    simp only [List.mem_append]
    exact Or.inl (h5 pid x e)

/-- `ExitFacts` survive appending post-calls and shrinking `pending` -/
theorem exitFacts_mono {s s' : State} {st : Status} (h : ExitFacts s st) {tr : List Call}
    (htr : s'.trace = s.trace ++ tr) (hpc : ∀ c ∈ tr, PostCall c)
    (hp : ∀ fp ∈ s'.pending, fp ∈ s.pending) (hcfg : s'.cfg = s.cfg) : ExitFacts s' st := by
  obtain ⟨⟨t1, t2, e, h1⟩, h2, h3, h4, h5⟩ := h
  refine ⟨⟨t1, t2 ++ tr, by rw [htr, e]; simp, ?_⟩, ?_, ?_, ?_, ?_⟩
  · intro c hc
    rcases List.mem_append.1 hc with x | x
    · exact h1 c x
    · exact hpc c x
  · intro fp hfp
    rw [htr]; exact List.mem_append.2 (Or.inl (h2 fp (hp fp hfp)))
  · intro est
    obtain ⟨u1, u2, e', hu⟩ := h3 est
    refine ⟨u1, u2 ++ tr, by rw [htr, e']; simp, ?_⟩
    intro c hc b
    rcases List.mem_append.1 hc with x | x
    · exact hu c x b
    · rcases hpc c x with ⟨_, rfl⟩ | ⟨_, _, _, _, rfl⟩ | ⟨_, _, rfl⟩ | ⟨_, _, rfl⟩ <;> simp
  · rw [hcfg]; exact h4
  · intro pid x est
    rw [htr]; exact List.mem_append.2 (Or.inl (h5 pid x est))

theorem beginGet_phase (s : State) (st : Status) :
    (beginGet s).phase ≠ .exitWait st ∧ (beginGet s).phase ≠ .stopped st := by
  rcases beginGet_spec s with ⟨_, h⟩ | ⟨_, h⟩ <;> rw [h] <;> simp

theorem exitInv_step {s : State} (h : ExitInv s) (e : Ev) : ExitInv (step s e) := by
  unfold step
  split
  · -- head, goal
    rename_i b _
    simp only []
    split
    · rename_i hb
      apply exitFacts_beginExit
      · intro _; exact ⟨s.trace, by simp [emit, hb]⟩
      · intro e; cases e
      · intro pid x e; cases e
    · intro st hph
      rcases hph with hph | hph
      · exact absurd hph (beginGet_phase _ st).1
      · exact absurd hph (beginGet_phase _ st).2
  · -- asking, asked
    intro st hph
    simp [finishAsk] at hph
  · -- waiting, done
    split
    · intro st hph; simp at hph
    · rename_i l hw _
      have hr := fun pid x => @processFutures_raise l s pid x
      obtain ⟨_, _, c⟩ := processFutures_frame l s
      split
      · rename_i s' pid x heq
        rw [heq] at hr
        apply exitFacts_beginExit
        · intro e; cases e
        · intro e; cases e
        · intro p y e
          simp only [Status.failed.injEq] at e
          rw [← e.1, ← e.2]; exact hr _ _ rfl
      · rename_i s' heq
        rw [heq, hw] at c
        simp only at c
        split
        · rename_i hst; intro st hph; rw [hst] at hph; simp at hph
        · intro st hph; simp at hph
  · -- waiting, cancel
    split
    · intro st hph; simp at hph
    · rename_i hb
      apply exitFacts_beginExit
      · intro e; cases e
      · intro _; simpa using hb
      · intro p y e; cases e
  · -- exitWait, remaining
    rename_i st l hph
    have hf := h st (Or.inl hph)
    unfold finishExit
    obtain ⟨⟨tr, htr, hpc⟩, hp⟩ := processFutures_trace l s
    obtain ⟨hcfg, _, _⟩ := processFutures_frame l s
    have hr := fun pid x => @processFutures_raise l s pid x
    split
    · split
      · rename_i s' pid x heq
        rw [heq] at htr hp hcfg hr
        simp only at htr hp hcfg hr
        intro st' hph'
        have : st' = .failed pid x := stopped_phase_eq rfl hph'
        subst this
        have hm := exitFacts_mono (s' := s') hf htr hpc hp hcfg
        refine ⟨hm.1, hm.2.1, (by intro e; cases e), (by intro e; cases e), ?_⟩
        intro p y e
        simp only [Status.failed.injEq] at e
        rw [← e.1, ← e.2]; exact hr _ _ rfl
      · rename_i s' heq
        rw [heq] at htr hp hcfg
        simp only at htr hp hcfg
        split
        · rename_i hst; intro st' hph'; rw [hst] at hph'; simp at hph'
        · intro st' hph'
          have : st' = st := stopped_phase_eq rfl hph'
          subst this
          exact exitFacts_mono (s' := { s' with phase := .stopped st', cleaned := true })
            hf htr hpc hp hcfg
    · intro st' hph'
      have : st' = st := stopped_phase_eq rfl hph'
      subst this
      exact exitFacts_mono (tr := []) hf (by simp) (by simp) (fun _ h => h) rfl
  · -- exitWait, cancel
    rename_i st hph
    have hf := h st (Or.inl hph)
    split
    · intro st' hph'; simp at hph'
    · rename_i hb
      intro st' hph'
      have : st' = .cancelled := stopped_phase_eq rfl hph'
      subst this
      refine ⟨hf.1, hf.2.1, ?_, ?_, ?_⟩
      · intro e; cases e
      · intro _; simpa using hb
      · intro p y e; cases e
  · exact h
  · intro st hph; simp at hph

theorem exitInv_run (evs : List Ev) : ∀ s : State, ExitInv s → ExitInv (run s evs) := by
  induction evs with
  | nil => intro s h; exact h
  | cons e es ih => intro s h; exact ih (step s e) (exitInv_step h e)

end Runner
