import AdaptiveProofs.Lemmas.LNDPop
import AdaptiveProofs.Lemmas.LNDSubSound
import AdaptiveProofs.Lemmas.LNDAsk
import AdaptiveProofs.Lemmas.LNDFresh

/-! A small concrete environment (two triangles of a square, one pending point) used by the non-vacuity
examples of Props/C04.lean.  The oracles `choose` / `pis` are total and truthful in the sense of `ChooseGeom` and
`ChooseLocal`: the point chosen in a point list is a new id (`sum + 1`: 4 for the triangle `[0,1,2]`, 7 for
`[1,2,3]`, 6/7/8 for the three pieces of `[0,1,2]` around the pending point 4), `point_in_simplex` accepts a point
for the list it was chosen in, and the points chosen in the pieces of `[0,1,2]` for `[0,1,2]`. -/
namespace LND
def exEnv : Env Int where
  dim := 2
  boundsPts := [0, 1, 2, 3]
  inside _ := true
  one := 1
  inf := 1000000
  c15 := 0
  c2 := 1
  factor := 1
  abs x := if x < 0 then -x else x
  isZero x := x == 0
  rnd x := x
  lossFn pts _ := if pts = [0, 1, 2] then 6 else 4
  vol pts := if pts.contains 4 then 1 else 3
  pis p pts := p == pts.sum + 1 || (pts == [0, 1, 2] && (p == 6 || p == 7 || p == 8))
  choose pts := pts.sum + 1
  triInit n := n == 3
  triSimps n := if n = 3 then [[0, 1, 2]] else if n = 4 then [[0, 1, 2], [1, 2, 3]] else []
  triAdd n _ := if n = 3 then some ([], [[1, 2, 3]]) else none
  locate _ _ := []
  uord _ := []
  subSimps sv := if sv = [0, 1, 2] then [[0, 1, 2]] else if sv = [0, 1, 2, 4] then [[0, 1, 3], [0, 2, 3], [1, 2, 3]] else []
  subAdd sv p := if sv = [0, 1, 2] ∧ p = 4 then some ([[0, 1, 2]], [[0, 1, 3], [0, 2, 3], [1, 2, 3]]) else none
  randPt _ := 9

def exOps : List (Op Int) := [.tell 0 1 1, .tell 1 2 2, .tell 2 5 5, .tell 3 1 1, .ask 1 true, .loss]

theorem exEnv_report : ReportExact exEnv := by
  intro n h D A hadd x
  simp only [exEnv] at hadd ⊢
  split at hadd
  · rename_i h3
    subst h3
    simp only [Option.some.injEq, Prod.mk.injEq] at hadd
    obtain ⟨rfl, rfl⟩ := hadd
    simp
  · exact absurd hadd (by simp)

theorem exEnv_subGeom : SubGeom exEnv where
  subReport := by
    intro sv p D A hadd x hx
    simp only [exEnv] at hadd hx
    split at hadd
    · rename_i hc
      obtain ⟨rfl, rfl⟩ := hc
      simp only [Option.some.injEq, Prod.mk.injEq] at hadd
      obtain ⟨_, rfl⟩ := hadd
      right
      simpa using hx
    · exact absurd hadd (by simp)
  fresh := by
    intro sv p D A _ hadd x hx
    simp only [exEnv] at hadd hx
    split at hadd
    · rename_i hc
      obtain ⟨rfl, rfl⟩ := hc
      simp only [Option.some.injEq, Prod.mk.injEq] at hadd
      obtain ⟨_, rfl⟩ := hadd
      simpa using hx
    · exact absurd hadd (by simp)
  size := by
    intro n sx hsx
    simp only [exEnv] at hsx ⊢
    split at hsx
    · simp only [List.mem_singleton] at hsx; subst hsx; rfl
    · split at hsx
      · simp only [List.mem_cons, List.not_mem_nil, or_false] at hsx
        rcases hsx with rfl | rfl <;> rfl
      · exact absurd hsx (by simp)

theorem exEnv_triGeom : TriGeom exEnv where
  report := exEnv_report
  idx := by
    intro n x hx i hi
    simp only [exEnv] at hx
    split at hx
    · rename_i h3; subst h3
      simp only [List.mem_cons, List.not_mem_nil, or_false] at hx; subst hx
      simp only [List.mem_cons, List.not_mem_nil, or_false] at hi
      omega
    · split at hx
      · rename_i h4; subst h4
        simp only [List.mem_cons, List.not_mem_nil, or_false] at hx
        rcases hx with rfl | rfl <;>
          (simp only [List.mem_cons, List.not_mem_nil, or_false] at hi; omega)
      · exact absurd hx (by simp)
  fresh := by
    intro n h D A hadd x hx
    simp only [exEnv] at hadd
    split at hadd
    · rename_i h3; subst h3
      simp only [Option.some.injEq, Prod.mk.injEq] at hadd
      obtain ⟨_, rfl⟩ := hadd
      simp only [List.mem_cons, List.not_mem_nil, or_false] at hx; subst hx
      simp
    · exact absurd hadd (by simp)

theorem exEnv_subIdx : SubIdxGeom exEnv where
  subIdx := by
    intro sv ss hss i hi
    simp only [exEnv] at hss
    split at hss
    · rename_i h; subst h
      simp only [List.mem_cons, List.not_mem_nil, or_false] at hss; subst hss
      simp only [List.mem_cons, List.not_mem_nil, or_false] at hi
      simp only [List.length_cons, List.length_nil]; omega
    · split at hss
      · rename_i h; subst h
        simp only [List.mem_cons, List.not_mem_nil, or_false] at hss
        rcases hss with rfl | rfl | rfl <;>
          (simp only [List.mem_cons, List.not_mem_nil, or_false] at hi
           simp only [List.length_cons, List.length_nil]; omega)
      · exact absurd hss (by simp)
  subIn := by
    intro sv p D A hadd ss hss
    simp only [exEnv] at hadd ⊢
    split at hadd
    · rename_i hc
      obtain ⟨rfl, rfl⟩ := hc
      simp only [Option.some.injEq, Prod.mk.injEq] at hadd
      obtain ⟨_, rfl⟩ := hadd
      simpa using hss
    · exact absurd hadd (by simp)

theorem exRun : ∃ s, run exEnv (init exEnv) exOps = .ok s ∧ s.book.geomOK = true ∧
    s.tri = some [0, 1, 2, 3] ∧ s.pending = [4] ∧ s.book.subs = [([0, 1, 2], [0, 1, 2, 4])] :=
  ⟨_, rfl, rfl, rfl, rfl, rfl⟩

/-- the same history before the `ask`: nothing pending -/
def exOps0 : List (Op Int) := [.tell 0 1 1, .tell 1 2 2, .tell 2 5 5, .tell 3 1 1]

theorem exRun0 : ∃ s, run exEnv (init exEnv) exOps0 = .ok s ∧ s.book.geomOK = true ∧
    s.tri = some [0, 1, 2, 3] ∧ s.book.subs = [] ∧
    ∃ s', askBest exEnv s [0, 1, 2, 3] = .ok ((4, 6), s') :=
  ⟨_, rfl, rfl, rfl, rfl, _, rfl⟩

/-- the first history, then a discard and a new `ask`: the rebuilt queue serves the same worst simplex again -/
def exOps2 : List (Op Int) := exOps ++ [.removeUnfinished, .ask 1 true]

theorem exRun2 : ∃ s, run exEnv (init exEnv) exOps2 = .ok s ∧ s.book.geomOK = true ∧
    s.tri = some [0, 1, 2, 3] ∧ s.pending = [4] ∧ s.book.subs = [([0, 1, 2], [0, 1, 2, 4])] :=
  ⟨_, rfl, rfl, rfl, rfl, rfl⟩

/-! ### the hypotheses of the ghost-free queue theorems and of the freshness theorem -/

theorem exEnv_chooseGeom : ChooseGeom exEnv where
  inside := fun _ => rfl
  inSimplex := by intro pts; simp [exEnv]
  inOwner := by
    intro sv ss hss
    simp only [exEnv] at hss
    split at hss
    · rename_i h; subst h
      simp only [List.mem_cons, List.not_mem_nil, or_false] at hss; subst hss
      decide
    · split at hss
      · rename_i h; subst h
        simp only [List.mem_cons, List.not_mem_nil, or_false] at hss
        rcases hss with rfl | rfl | rfl <;> decide
      · exact absurd hss (by simp)
  split := by
    intro sv ss hss D A hadd
    simp only [exEnv] at hss
    split at hss
    · rename_i h; subst h
      simp only [List.mem_cons, List.not_mem_nil, or_false] at hss; subst hss
      decide
    · split at hss
      · rename_i h; subst h
        simp only [List.mem_cons, List.not_mem_nil, or_false] at hss
        rcases hss with rfl | rfl | rfl <;> (simp [exEnv] at hadd)
      · exact absurd hss (by simp)
  nodup := by
    intro n
    simp only [exEnv]
    split
    · decide
    · split <;> decide

/-- in the three example histories every `_ask_best_point` chose a point without a value -/
theorem exOps_askNew : AskNew exEnv exOps := askNew_of_check exEnv exOps rfl
theorem exOps0_askNew : AskNew exEnv exOps0 := askNew_of_check exEnv exOps0 rfl
theorem exOps2_askNew : AskNew exEnv exOps2 := askNew_of_check exEnv exOps2 rfl

/-- in the state after the four `tell`s the point `_ask_best_point` chooses (4) has no value -/
theorem exNew0 {s : State Int} (h : run exEnv (init exEnv) exOps0 = .ok s) : ChooseNewAt exEnv s := by
  obtain ⟨s0, h0, hp⟩ : ∃ s0, run exEnv (init exEnv) exOps0 = .ok s0 ∧ chooseNewB exEnv s0 = true := ⟨_, rfl, rfl⟩
  rw [h] at h0
  simp only [Except.ok.injEq] at h0
  subst h0
  exact chooseNewB_sound exEnv s hp

theorem le_sum_of_mem_nat {l : List Nat} {x : Nat} (h : x ∈ l) : x ≤ l.sum := by
  induction l with
  | nil => exact absurd h (by simp)
  | cons a t ih =>
    simp only [List.sum_cons]
    rcases List.mem_cons.1 h with rfl | h
    · omega
    · have := ih h; omega

theorem exEnv_chooseLocal : ChooseLocal exEnv where
  notCorner := by
    intro pts hc
    have := le_sum_of_mem_nat hc
    simp only [exEnv] at this
    omega
  notVertex := by
    intro sv ss hss
    simp only [exEnv] at hss
    split at hss
    · rename_i h; subst h
      simp only [List.mem_cons, List.not_mem_nil, or_false] at hss; subst hss
      decide
    · split at hss
      · rename_i h; subst h
        simp only [List.mem_cons, List.not_mem_nil, or_false] at hss
        rcases hss with rfl | rfl | rfl <;> decide
      · exact absurd hss (by simp)

theorem exRun0' : ∃ s, run exEnv (init exEnv) exOps0 = .ok s ∧ s.data = [0, 1, 2, 3] ∧ s.pending = [] ∧
    s.tri = some [0, 1, 2, 3] ∧ s.book.subs = [] ∧
    ∃ s', ask exEnv s 1 true = .ok ([(4, 6)], s') :=
  ⟨_, rfl, rfl, rfl, rfl, rfl, _, rfl⟩

/-- in the state after the four `tell`s `_pop_highest_existing_simplex` pops the simplex `[0,1,2]` -/
theorem exPop0 {s : State Int} (h : run exEnv (init exEnv) exOps0 = .ok s) :
    ∃ e q, popHighest exEnv (exEnv.triSimps 4) s.book.subs s.book.queue = some (e, q) ∧ e.simplex = [0, 1, 2] := by
  obtain ⟨s0, h0, hp⟩ : ∃ s0, run exEnv (init exEnv) exOps0 = .ok s0 ∧ ∃ e q,
      popHighest exEnv (exEnv.triSimps 4) s0.book.subs s0.book.queue = some (e, q) ∧ e.simplex = [0, 1, 2] :=
    ⟨_, rfl, _, _, rfl, rfl⟩
  rw [h] at h0
  simp only [Except.ok.injEq] at h0
  subst h0
  exact hp

/-- `ChooseFresh` holds for the `ask(1)` after the four `tell`s (by the second layer: every evaluated or pending
point lying in a simplex is one of its corners), and that `ask` returns the new point 4 -/
theorem exFresh : ∃ s, run exEnv (init exEnv) exOps0 = .ok s ∧ ChooseFresh exEnv 1 s ∧
    s.data = [0, 1, 2, 3] ∧ s.pending = [] ∧ ∃ s', ask exEnv s 1 true = .ok ([(4, 6)], s') := by
  obtain ⟨s, h, hd, hp, ht, hsub, ha⟩ := exRun0'
  refine ⟨s, h, ?_, hd, hp, ha⟩
  refine chooseFresh_of_bound exEnv exEnv_triGeom exEnv_subGeom exEnv_chooseGeom exEnv_chooseLocal 1
    (run_subVerts exEnv exEnv_triGeom exOps0 h) ⟨?_, fun _ _ _ => trivial⟩
  intro _ t htt
  have e : t = s := touchTri_tri_some exEnv htt ht
  subst e
  refine ⟨?_, fun hn => by rw [ht] at hn; exact absurd hn (by simp)⟩
  intro vs hvs x hx p hpm hpis
  rw [ht] at hvs
  simp only [Option.some.injEq] at hvs
  subst hvs
  rw [hd, hp] at hpm
  have hx' : x = [0, 1, 2] ∨ x = [1, 2, 3] := by simpa [exEnv] using hx
  have hp' : p = 0 ∨ p = 1 ∨ p = 2 ∨ p = 3 := by simpa using hpm
  rcases hx' with rfl | rfl <;> rcases hp' with rfl | rfl | rfl | rfl <;> exact absurd hpis (by decide)


/-! ### why the completeness of the queue needs `AskNew` since the repair of `tell_pending`

A segment `[0,1]` (dimension 1) whose oracle `choose_point_in_simplex` returns the first corner.  The oracles satisfy
`TriGeom`, `SubGeom` and `ChooseGeom` (`point_in_simplex` accepts everything, there are no sub-triangulations to be
untruthful about).  After the two corners are told, `ask(1)` pops the only queue entry, chooses the point 0 — which has
a value — and `tell_pending(0)` is a no-op: the simplex stays live, without sub-triangulation and without a queue
entry. -/
def cxEnv : Env Int where
  dim := 1
  boundsPts := [0, 1]
  inside _ := true
  one := 1
  inf := 1000000
  c15 := 0
  c2 := 1
  factor := 1
  abs x := if x < 0 then -x else x
  isZero x := x == 0
  rnd x := x
  lossFn _ _ := 1
  vol _ := 1
  pis _ _ := true
  choose pts := pts.headD 0
  triInit n := n == 2
  triSimps n := if n = 2 then [[0, 1]] else []
  triAdd _ _ := none
  locate _ _ := []
  uord _ := []
  subSimps _ := []
  subAdd _ _ := none
  randPt _ := 9

def cxOps : List (Op Int) := [.tell 0 1 1, .tell 1 2 2, .ask 1 true]

theorem cxEnv_triGeom : TriGeom cxEnv where
  report := by intro n h D A hadd; simp [cxEnv] at hadd
  idx := by
    intro n x hx i hi
    simp only [cxEnv] at hx
    split at hx
    · rename_i h2; subst h2
      simp only [List.mem_cons, List.not_mem_nil, or_false] at hx; subst hx
      simp only [List.mem_cons, List.not_mem_nil, or_false] at hi
      omega
    · exact absurd hx (by simp)
  fresh := by intro n h D A hadd; simp [cxEnv] at hadd

theorem cxEnv_subGeom : SubGeom cxEnv where
  subReport := by intro sv p D A hadd; simp [cxEnv] at hadd
  fresh := by intro sv p D A _ hadd; simp [cxEnv] at hadd
  size := by
    intro n sx hsx
    simp only [cxEnv] at hsx ⊢
    split at hsx
    · simp only [List.mem_singleton] at hsx; subst hsx; rfl
    · exact absurd hsx (by simp)

theorem cxEnv_chooseGeom : ChooseGeom cxEnv where
  inside := fun _ => rfl
  inSimplex := fun _ => rfl
  inOwner := by intro sv ss hss; simp [cxEnv] at hss
  split := by intro sv ss hss; simp [cxEnv] at hss
  nodup := by
    intro n
    simp only [cxEnv]
    split <;> decide

/-- the run succeeds (`ask` returns the evaluated point 0), and afterwards the only simplex is live, has no
sub-triangulation and no queue entry; the ghost flag is `false` -/
theorem cxRun : ∃ s rs s1, run cxEnv (init cxEnv) [.tell 0 1 1, .tell 1 2 2] = .ok s1 ∧
    ask cxEnv s1 1 true = .ok (rs, s) ∧ rs.map (·.1) = [0] ∧ s1.data = [0, 1] ∧
    run cxEnv (init cxEnv) cxOps = .ok s ∧ s.tri = some [0, 1] ∧ s.pending = [] ∧
    [0, 1] ∈ cxEnv.triSimps 2 ∧ get? [0, 1] s.book.subs = none ∧ s.book.queue.length = 0 ∧
    s.book.geomOK = false :=
  ⟨_, _, _, rfl, rfl, rfl, rfl, rfl, rfl, rfl, by decide, rfl, rfl, rfl⟩

end LND
