import AdaptiveProofs.Lemmas.LNDInv
import Mathlib.Data.List.Dedup
import Mathlib.Data.List.Perm.Basic
import AdaptiveProofs.Lemmas.IntegNoDup
import AdaptiveProofs.Lemmas.IntegWF
import AdaptiveProofs.Lemmas.Avg1DFullInv
import AdaptiveProofs.Lemmas.LNDExample

/-!
# Helper lemmas for `Props/C10More.lean` (C10, "telling is faithful bookkeeping", for the models of LearnerND,
IntegratorLearner and the full AverageLearner1D)

Four parts: namespace `LND` (part A), `Integ.Book` (part B), `Avg1DFull.Book` (part C), `Integ.Retell` (part B,
the full-state re-tell theorem); a last section holds the small concrete environments used by the examples.
-/
set_option linter.unusedSectionVars false
set_option linter.unusedSimpArgs false
set_option linter.unusedVariables false

/-! C10 for the LearnerND model (`AdaptiveModel/LND.lean`): what every operation does to `data` and to
`pending_points`, the histories of `tell` points, and the loss after `remove_unfinished`. -/
namespace LND
variable {α : Type} [Sub α] [Mul α] [Div α] [LT α] [DecidableLT α]

/-! ### lists with `set.add` semantics -/

theorem mem_addPending (l : List Pt) (p x : Pt) : x ∈ addPending l p ↔ x ∈ l ∨ x = p := by
  unfold addPending
  split
  · rename_i h
    have := List.contains_iff_mem.1 h
    constructor
    · exact Or.inl
    · rintro (h1 | rfl)
      · exact h1
      · exact this
  · simp [List.mem_append]

theorem nodup_addPending {l : List Pt} (p : Pt) (h : l.Nodup) : (addPending l p).Nodup := by
  unfold addPending
  split
  · exact h
  · rename_i hc
    have hp : p ∉ l := fun c => hc (List.contains_iff_mem.2 c)
    rw [List.nodup_append]
    refine ⟨h, List.nodup_singleton p, ?_⟩
    intro a ha b hb
    rw [List.mem_singleton] at hb
    subst hb
    intro hab
    subst hab
    exact hp ha

theorem addPending_of_mem {l : List Pt} {p : Pt} (h : p ∈ l) : addPending l p = l := by
  unfold addPending
  rw [if_pos (List.contains_iff_mem.2 h)]

/-- the distinct elements of `l` in order of first occurrence, appended to `d` -/
def addAll (d l : List Pt) : List Pt := l.foldl addPending d

theorem mem_addAll (l : List Pt) : ∀ (d : List Pt) (x : Pt), x ∈ addAll d l ↔ x ∈ d ∨ x ∈ l := by
  induction l with
  | nil => intro d x; simp [addAll]
  | cons p l ih =>
    intro d x
    show x ∈ addAll (addPending d p) l ↔ _
    rw [ih, mem_addPending, List.mem_cons]
    tauto

theorem nodup_addAll (l : List Pt) : ∀ {d : List Pt}, d.Nodup → (addAll d l).Nodup := by
  induction l with
  | nil => intro d h; exact h
  | cons p l ih => intro d h; exact ih (nodup_addPending p h)

theorem addAll_append (d l1 l2 : List Pt) : addAll d (l1 ++ l2) = addAll (addAll d l1) l2 := by
  simp [addAll, List.foldl_append]

theorem length_addAll_nil (l : List Pt) : (addAll [] l).length = l.dedup.length := by
  apply List.Perm.length_eq
  rw [List.perm_ext_iff_of_nodup (nodup_addAll l List.nodup_nil) (List.nodup_dedup l)]
  intro x
  rw [mem_addAll, List.mem_dedup]
  simp

/-! ### histories -/

/-- the points of the `tell` operations of a history, in order -/
def toldPts : List (Op α) → List Pt
  | [] => []
  | .tell p _ _ :: ops => p :: toldPts ops
  | .tellPending _ :: ops => toldPts ops
  | .ask _ _ :: ops => toldPts ops
  | .removeUnfinished :: ops => toldPts ops
  | .loss :: ops => toldPts ops

/-- `tell_pending(p)` on the pending list (`d` = the evaluated points): nothing for a point that has a value (fix:
LearnerND.tell_pending marked an already evaluated point as pending), nothing outside the domain -/
def markPending (env : Env α) (d l : List Pt) (p : Pt) : List Pt :=
  if (!d.contains p && env.inside p) then addPending l p else l

theorem mem_markPending_of_mem (env : Env α) (d : List Pt) {l : List Pt} {x : Pt} (p : Pt) (h : x ∈ l) :
    x ∈ markPending env d l p := by
  unfold markPending
  split
  · exact (mem_addPending l p x).2 (Or.inl h)
  · exact h

theorem mem_markPending (env : Env α) (d l : List Pt) (p x : Pt) :
    x ∈ markPending env d l p ↔ x ∈ l ∨ (x = p ∧ p ∉ d ∧ env.inside p = true) := by
  unfold markPending
  by_cases hd : p ∈ d
  · have hc : d.contains p = true := List.contains_iff_mem.2 hd
    simp [hc, hd]
  · have hc : d.contains p = false := by
      cases hh : d.contains p
      · rfl
      · exact absurd (List.contains_iff_mem.1 hh) hd
    by_cases hi : env.inside p = true
    · simp only [hc, hi, Bool.not_false, Bool.and_self, if_true, mem_addPending]
      simp [hd]
    · simp [hc, hi]

theorem mem_foldl_markPending (env : Env α) (d ps : List Pt) : ∀ (l : List Pt) (x : Pt),
    x ∈ ps.foldl (markPending env d) l ↔ x ∈ l ∨ (x ∈ ps ∧ x ∉ d ∧ env.inside x = true) := by
  induction ps with
  | nil => intro l x; simp
  | cons p ps ih =>
    intro l x
    rw [List.foldl_cons, ih, mem_markPending, List.mem_cons]
    constructor
    · rintro ((h | ⟨rfl, h⟩) | ⟨h1, h2⟩)
      · exact Or.inl h
      · exact Or.inr ⟨Or.inl rfl, h⟩
      · exact Or.inr ⟨Or.inr h1, h2⟩
    · rintro (h | ⟨rfl | h1, h2⟩)
      · exact Or.inl (Or.inl h)
      · exact Or.inl (Or.inr ⟨rfl, h2⟩)
      · exact Or.inr ⟨h1, h2⟩

/-! ### what each operation does to `data` and `pending_points` -/

theorem updateLosses_dp (env : Env α) {s s' : State α} (D A : List Simplex)
    (h : updateLosses env s D A = .ok s') : s'.data = s.data ∧ s'.pending = s.pending := by
  cases ht : s.tri with
  | none =>
    rw [updateLosses_none env s D A ht] at h
    simp only [Except.ok.injEq] at h; subst h; exact ⟨rfl, rfl⟩
  | some vs =>
    obtain ⟨⟨a, b, _⟩, _⟩ := updateLosses_spec env D A ht h
    exact ⟨a, b⟩

/-- `tell(p, v)`: the point is appended to `data` unless it is known; then nothing at all happens -/
theorem tell_dp (env : Env α) {s s' : State α} (p : Pt) (a b : α) (h : tell env s p a b = .ok s') :
    s'.data = addPending s.data p ∧
    s'.pending = (if s.data.contains p then s.pending else s.pending.filter (· ≠ p)) := by
  rcases tell_form env p a b h with ⟨hc, rfl⟩ | ⟨hc, s1, h1, hcase⟩
  · exact ⟨by unfold addPending; rw [if_pos hc], by rw [if_pos hc]⟩
  · obtain ⟨d1, p1, _⟩ := touchTri_frame env h1
    simp only at d1 p1
    have e1 : addPending s.data p = s.data ++ [p] := by
      unfold addPending; rw [if_neg (by rw [hc]; exact Bool.false_ne_true)]
    rw [e1, if_neg (by rw [hc]; exact Bool.false_ne_true)]
    rcases hcase with ⟨_, rfl⟩ | ⟨_, s3, h3, hcase⟩
    · exact ⟨by simp [d1], p1⟩
    · obtain ⟨d3, p3, _⟩ := updateRange_frame env a b h3
      simp only at d3 p3
      rcases hcase with ⟨_, rfl⟩ | ⟨vs, hint, D, A, _, _, hu⟩
      · exact ⟨by rw [d3, d1], by rw [p3, p1]⟩
      · obtain ⟨d4, p4⟩ := updateLosses_dp env D A hu
        simp only at d4 p4
        exact ⟨by rw [d4, d3, d1], by rw [p4, p3, p1]⟩

theorem tellPending_dp (env : Env α) {s s' : State α} (p : Pt) (hint : Option Simplex)
    (h : tellPending env s p hint = .ok s') :
    s'.data = s.data ∧ s'.pending = markPending env s.data s.pending p := by
  obtain ⟨a, _, _, _, b, _⟩ := tellPending_frame env p hint h
  exact ⟨a, b⟩

theorem askOne_dp (env : Env α) {s s' : State α} {r : Pt × α} (h : askOne env s = .ok (r, s')) :
    s'.data = s.data ∧ s'.pending = markPending env s.data s.pending r.1 := by
  rcases askOne_form env h with ⟨p, _, hr, h1⟩ | ⟨_, s1, h1, hcase⟩
  · rw [hr]; exact tellPending_dp env p none h1
  · obtain ⟨d1, p1, _⟩ := touchTri_frame env h1
    rcases hcase with ⟨_, hr, h2⟩ | ⟨vs, _, h2⟩
    · obtain ⟨d2, p2⟩ := tellPending_dp env (s := { s1 with nrand := s1.nrand + 1 }) _ none h2
      rw [hr]
      simp only at d2 p2 ⊢
      exact ⟨d2.trans d1, by rw [p2, p1, d1]⟩
    · obtain ⟨e, q, s2, _, _, h3, rfl⟩ := askBest_form env h2
      obtain ⟨d2, p2⟩ := tellPending_dp env
        (s := { s1 with book := { s1.book with queue := q, p2s := put r.1 e.simplex s1.book.p2s } }) _ _ h3
      simp only at d2 p2 ⊢
      exact ⟨d2.trans d1, by rw [p2, p1, d1]⟩

theorem askLoop_dp (env : Env α) (n : Nat) : ∀ {s s' : State α} {rs : List (Pt × α)},
    askLoop env n s = .ok (rs, s') →
    s'.data = s.data ∧ s'.pending = (rs.map (·.1)).foldl (markPending env s.data) s.pending := by
  induction n with
  | zero =>
    intro s s' rs h
    simp only [askLoop, Except.ok.injEq, Prod.mk.injEq] at h
    rw [← h.2, ← h.1]; exact ⟨rfl, rfl⟩
  | succ n ih =>
    intro s s' rs h
    unfold askLoop at h
    split at h
    · exact absurd h (by simp)
    · rename_i r s1 h1
      split at h
      · exact absurd h (by simp)
      · rename_i rs' s2 h2
        simp only [Except.ok.injEq, Prod.mk.injEq] at h
        rw [← h.2, ← h.1]
        obtain ⟨d1, p1⟩ := askOne_dp env h1
        obtain ⟨d2, p2⟩ := ih h2
        exact ⟨d2.trans d1, by rw [p2, p1, d1]; rfl⟩

theorem ask_dp (env : Env α) {s s' : State α} {rs : List (Pt × α)} (n : Nat) (c : Bool)
    (h : ask env s n c = .ok (rs, s')) :
    s'.data = s.data ∧
    s'.pending = (if c then (rs.map (·.1)).foldl (markPending env s.data) s.pending else s.pending) := by
  unfold ask at h
  split at h
  · exact absurd h (by simp)
  · rename_i rs' s1 h1
    simp only [Except.ok.injEq, Prod.mk.injEq] at h
    obtain ⟨h2, h3⟩ := h
    subst h2
    cases c
    · simp only [Bool.false_eq_true, if_false] at h3 ⊢; subst h3; exact ⟨rfl, rfl⟩
    · simp only [if_true] at h3 ⊢; subst h3; exact askLoop_dp env n h1

theorem lossOp_dp (env : Env α) {s s' : State α} {v : α} (h : lossOp env s = .ok (v, s')) :
    s'.data = s.data ∧ s'.pending = s.pending := by
  unfold lossOp at h
  split at h
  · exact absurd h (by simp)
  · rename_i s1 h1
    obtain ⟨d1, p1, _⟩ := touchTri_frame env h1
    split at h <;> (simp only [Except.ok.injEq, Prod.mk.injEq] at h; rw [← h.2]; exact ⟨d1, p1⟩)

/-- the step function on an `ask` -/
theorem step_ask (env : Env α) {s s' : State α} (n : Nat) (c : Bool) (h : step env s (.ask n c) = .ok s') :
    ∃ rs, ask env s n c = .ok (rs, s') := by
  simp only [step] at h
  cases ha : ask env s n c with
  | error e => rw [ha] at h; simp [Except.map] at h
  | ok r =>
    rw [ha] at h
    simp only [Except.map, Except.ok.injEq] at h
    subst h
    exact ⟨r.1, rfl⟩

theorem step_loss (env : Env α) {s s' : State α} (h : step env s .loss = .ok s') :
    ∃ v, lossOp env s = .ok (v, s') := by
  simp only [step] at h
  cases ha : lossOp env s with
  | error e => rw [ha] at h; simp [Except.map] at h
  | ok r =>
    rw [ha] at h
    simp only [Except.map, Except.ok.injEq] at h
    subst h
    exact ⟨r.1, rfl⟩

/-- `data` after one operation -/
theorem step_data (env : Env α) {s s' : State α} (op : Op α) (h : step env s op = .ok s') :
    s'.data = addAll s.data (toldPts [op]) := by
  cases op with
  | tell p a b => exact (tell_dp env p a b h).1
  | tellPending p => exact (tellPending_dp env p none h).1
  | ask n c => obtain ⟨rs, ha⟩ := step_ask env n c h; exact (ask_dp env n c ha).1
  | removeUnfinished => simp only [step, Except.ok.injEq] at h; subst h; rfl
  | loss => obtain ⟨v, ha⟩ := step_loss env h; exact (lossOp_dp env ha).1

theorem toldPts_cons (op : Op α) (ops : List (Op α)) : toldPts (op :: ops) = toldPts [op] ++ toldPts ops := by
  cases op <;> simp [toldPts]

theorem run_data (env : Env α) (ops : List (Op α)) : ∀ {s s' : State α}, run env s ops = .ok s' →
    s'.data = addAll s.data (toldPts ops) := by
  induction ops with
  | nil => intro s s' h; simp only [run, Except.ok.injEq] at h; subst h; rfl
  | cons op ops ih =>
    intro s s' h
    unfold run at h
    split at h
    · exact absurd h (by simp)
    · rename_i s1 h1
      rw [ih h, step_data env op h1, toldPts_cons op ops, addAll_append]

/-! ### pending points: who stays, who leaves -/

/-- operations that do not remove `p` from the pending set: everything but `tell(p, ·)` and `remove_unfinished` -/
def KeepsPending (p : Pt) : Op α → Prop
  | .tell q _ _ => q ≠ p
  | .removeUnfinished => False
  | _ => True

theorem step_keeps_pending (env : Env α) {s s' : State α} {p : Pt} (op : Op α) (hk : KeepsPending p op)
    (hp : p ∈ s.pending) (h : step env s op = .ok s') : p ∈ s'.pending := by
  cases op with
  | tell q a b =>
    rw [(tell_dp env q a b h).2]
    split
    · exact hp
    · exact List.mem_filter.2 ⟨hp, by simpa using (fun e : p = q => hk e.symm)⟩
  | tellPending q => rw [(tellPending_dp env q none h).2]; exact mem_markPending_of_mem env _ q hp
  | ask n c =>
    obtain ⟨rs, ha⟩ := step_ask env n c h
    rw [(ask_dp env n c ha).2]
    split
    · exact (mem_foldl_markPending env _ _ _ _).2 (Or.inl hp)
    · exact hp
  | removeUnfinished => exact absurd hk id
  | loss => obtain ⟨v, ha⟩ := step_loss env h; rw [(lossOp_dp env ha).2]; exact hp

theorem run_keeps_pending (env : Env α) {p : Pt} (ops : List (Op α)) : ∀ {s s' : State α},
    (∀ op ∈ ops, KeepsPending p op) → p ∈ s.pending → run env s ops = .ok s' → p ∈ s'.pending := by
  induction ops with
  | nil => intro s s' _ hp h; simp only [run, Except.ok.injEq] at h; subst h; exact hp
  | cons op ops ih =>
    intro s s' hk hp h
    unfold run at h
    split at h
    · exact absurd h (by simp)
    · rename_i s1 h1
      exact ih (fun o ho => hk o (List.mem_cons_of_mem _ ho))
        (step_keeps_pending env op (hk op List.mem_cons_self) hp h1) h

theorem mem_data_step (env : Env α) {s s' : State α} {p : Pt} (op : Op α) (hp : p ∈ s.data)
    (h : step env s op = .ok s') : p ∈ s'.data := by
  rw [step_data env op h, mem_addAll]; exact Or.inl hp

theorem mem_data_run (env : Env α) {s s' : State α} {p : Pt} (ops : List (Op α)) (hp : p ∈ s.data)
    (h : run env s ops = .ok s') : p ∈ s'.data := by
  rw [run_data env ops h, mem_addAll]; exact Or.inl hp

/-- a told point that is not pending stays so under EVERY operation: since the repair `fix: LearnerND.tell_pending
marked an already evaluated point as pending` neither `tell_pending(p)` nor a committing `ask` that returns `p` marks
a point that has a value (before, the proviso "the operation does not mark `p`" was needed) -/
theorem step_told_not_pending (env : Env α) {s s' : State α} {p : Pt} (op : Op α) (hd : p ∈ s.data)
    (hp : p ∉ s.pending) (h : step env s op = .ok s') : p ∉ s'.pending := by
  cases op with
  | tell q a b =>
    rw [(tell_dp env q a b h).2]
    split
    · exact hp
    · exact fun c => hp (List.mem_filter.1 c).1
  | tellPending q =>
    rw [(tellPending_dp env q none h).2, mem_markPending]
    rintro (c | ⟨c, hq, _⟩)
    · exact hp c
    · exact hq (c ▸ hd)
  | ask n c =>
    obtain ⟨rs, ha⟩ := step_ask env n c h
    rw [(ask_dp env n c ha).2]
    cases c
    · exact hp
    · simp only [if_true]
      rw [mem_foldl_markPending]
      rintro (c | ⟨_, c, _⟩)
      · exact hp c
      · exact c hd
  | removeUnfinished => simp only [step, Except.ok.injEq] at h; subst h; simp [removeUnfinished]
  | loss => obtain ⟨v, ha⟩ := step_loss env h; rw [(lossOp_dp env ha).2]; exact hp

/-- a `tell` of a point without value: afterwards the point is known and not pending -/
theorem tell_new_not_pending (env : Env α) {s s' : State α} (p : Pt) (a b : α) (hn : p ∉ s.data)
    (h : tell env s p a b = .ok s') : p ∈ s'.data ∧ p ∉ s'.pending := by
  obtain ⟨d, q⟩ := tell_dp env p a b h
  have hc : s.data.contains p = false := by
    cases hh : s.data.contains p
    · rfl
    · exact absurd (List.contains_iff_mem.1 hh) hn
  rw [d, q, hc]
  refine ⟨(mem_addPending _ _ _).2 (Or.inr rfl), ?_⟩
  simp only [Bool.false_eq_true, if_false]
  intro c
  have := (List.mem_filter.1 c).2
  simp at this

theorem mem_data_step_inv (env : Env α) {s s' : State α} {p : Pt} (op : Op α) (hp : p ∈ s'.data)
    (h : step env s op = .ok s') : p ∈ s.data ∨ (p ∉ s.data ∧ ∃ a b, op = .tell p a b) := by
  by_cases hd : p ∈ s.data
  · exact Or.inl hd
  · right
    refine ⟨hd, ?_⟩
    rw [step_data env op h, mem_addAll] at hp
    rcases hp with hp | hp
    · exact absurd hp hd
    · cases op with
      | tell q a b =>
        simp only [toldPts, List.mem_singleton] at hp
        exact ⟨a, b, by rw [hp]⟩
      | tellPending q => simp [toldPts] at hp
      | ask n c => simp [toldPts] at hp
      | removeUnfinished => simp [toldPts] at hp
      | loss => simp [toldPts] at hp

/-- one operation keeps `data` and `pending_points` disjoint — every operation, no proviso -/
theorem step_disjoint (env : Env α) {s s' : State α} (op : Op α) (hd : ∀ p ∈ s.data, p ∉ s.pending)
    (h : step env s op = .ok s') : ∀ p ∈ s'.data, p ∉ s'.pending := by
  intro p hp
  rcases mem_data_step_inv env op hp h with hp0 | ⟨hp0, a, b, rfl⟩
  · exact step_told_not_pending env op hp0 (hd p hp0) h
  · exact (tell_new_not_pending env p a b hp0 h).2

theorem run_disjoint (env : Env α) (ops : List (Op α)) : ∀ {s s' : State α},
    (∀ p ∈ s.data, p ∉ s.pending) → run env s ops = .ok s' → ∀ p ∈ s'.data, p ∉ s'.pending := by
  induction ops with
  | nil => intro s s' hd h; simp only [run, Except.ok.injEq] at h; subst h; exact hd
  | cons op ops ih =>
    intro s s' hd h
    unfold run at h
    split at h
    · exact absurd h (by simp)
    · rename_i s1 h1
      exact ih (step_disjoint env op hd h1) h

/-- the points a committing `ask` returns are pending afterwards unless they have a value or lie outside -/
theorem ask_returned_pending (env : Env α) {s s' : State α} {rs : List (Pt × α)} (n : Nat)
    (h : ask env s n true = .ok (rs, s')) (p : Pt) (hp : p ∈ rs.map (·.1)) (hnd : p ∉ s.data)
    (hin : env.inside p = true) : p ∈ s'.pending := by
  rw [(ask_dp env n true h).2]
  simp only [if_true]
  exact (mem_foldl_markPending env _ _ _ _).2 (Or.inr ⟨hp, hnd, hin⟩)

/-- a point that has a value and is returned by a committing `ask` is pending afterwards only if it was before -/
theorem ask_returned_known (env : Env α) {s s' : State α} {rs : List (Pt × α)} (n : Nat) (c : Bool)
    (h : ask env s n c = .ok (rs, s')) (p : Pt) (hd : p ∈ s.data) : p ∈ s'.pending ↔ p ∈ s.pending := by
  rw [(ask_dp env n c h).2]
  cases c
  · simp
  · simp only [if_true]
    rw [mem_foldl_markPending]
    constructor
    · rintro (c | ⟨_, c, _⟩)
      · exact c
      · exact absurd hd c
    · exact Or.inl

/-- a point that is both known and pending stays both until `remove_unfinished` (`tell` ignores a known point) -/
theorem step_known_pending (env : Env α) {s s' : State α} {p : Pt} (op : Op α) (hne : op ≠ .removeUnfinished)
    (hd : p ∈ s.data) (hp : p ∈ s.pending) (h : step env s op = .ok s') : p ∈ s'.data ∧ p ∈ s'.pending := by
  refine ⟨mem_data_step env op hd h, ?_⟩
  cases op with
  | tell q a b =>
    by_cases hq : q = p
    · subst hq; rw [(tell_dp env q a b h).2, if_pos (List.contains_iff_mem.2 hd)]; exact hp
    · exact step_keeps_pending env (.tell q a b) hq hp h
  | tellPending q => exact step_keeps_pending env (.tellPending q) trivial hp h
  | ask n c => exact step_keeps_pending env (.ask n c) trivial hp h
  | removeUnfinished => exact absurd rfl hne
  | loss => exact step_keeps_pending env .loss trivial hp h

theorem run_known_pending (env : Env α) {p : Pt} (ops : List (Op α)) : ∀ {s s' : State α},
    (∀ op ∈ ops, op ≠ .removeUnfinished) → p ∈ s.data → p ∈ s.pending → run env s ops = .ok s' →
    p ∈ s'.data ∧ p ∈ s'.pending := by
  induction ops with
  | nil => intro s s' _ hd hp h; simp only [run, Except.ok.injEq] at h; subst h; exact ⟨hd, hp⟩
  | cons op ops ih =>
    intro s s' hk hd hp h
    unfold run at h
    split at h
    · exact absurd h (by simp)
    · rename_i s1 h1
      obtain ⟨a, b⟩ := step_known_pending env op (hk op List.mem_cons_self) hd hp h1
      exact ih (fun o ho => hk o (List.mem_cons_of_mem _ ho)) a b h

/-! ### `remove_unfinished` and the loss -/

/-- `_recompute_all_losses`' loop without unbound pending points never fails, and the loss table it produces
does not depend on the sub-triangulation book -/
theorem addLoop_nil_losses (env : Env α) (vs : List Pt) (m : α) (A : List Simplex) :
    ∀ (losses : List (Simplex × α)) (b : Book α), ∃ b', addLoop env vs m [] losses b A =
      .ok (A.foldl (fun l sx => put sx (env.lossFn (ptsOf vs sx) m) l) losses, b') := by
  induction A with
  | nil => intro losses b; exact ⟨b, rfl⟩
  | cons sx A ih =>
    intro losses b
    unfold addLoop
    simp only [addPts, List.foldl_cons]
    cases hg : get? sx b.subs with
    | none => exact ih _ _
    | some sv =>
      simp only
      unfold updateSubLosses
      rw [get?_put_self, hg]
      exact ih _ _

/-- the `tri` property: the part of the result that `loss()` reads (`tri`, `losses`) does not depend on the
sub-triangulation book nor on the pending set, and neither does success -/
theorem touchTri_book_indep (env : Env α) (s : State α) (pd : List Pt) (bk : Book α) {s1 : State α}
    (h : touchTri env s = .ok s1) :
    ∃ s2, touchTri env { s with pending := pd, book := bk } = .ok s2 ∧ s2.tri = s1.tri ∧
      s2.losses = s1.losses ∧ s2.pending = pd ∧ s2.data = s1.data := by
  unfold touchTri at h ⊢
  cases ht : s.tri with
  | some vs =>
    rw [ht] at h
    simp only [ht, Except.ok.injEq] at h ⊢
    subst h
    exact ⟨_, rfl, ht.symm, rfl, rfl, rfl⟩
  | none =>
    rw [ht] at h
    simp only [ht] at h ⊢
    by_cases hi : env.triInit s.data.length = true
    · simp only [hi, if_true] at h ⊢
      unfold updateLosses at h ⊢
      have hf : ∀ l : List Pt, List.filter (fun p => ([] : List Pt).contains p) l = [] := by
        intro l; simp
      simp only [dropDeleted, List.filter_nil, dedup, List.append_nil, hf] at h ⊢
      obtain ⟨b1, e1⟩ := addLoop_nil_losses env s.data s.mult (env.triSimps s.data.length) s.losses s.book
      obtain ⟨b2, e2⟩ := addLoop_nil_losses env s.data s.mult (env.triSimps s.data.length) s.losses bk
      rw [e1] at h
      rw [e2]
      simp only [Except.ok.injEq] at h ⊢
      subst h
      exact ⟨_, rfl, rfl, rfl, rfl, rfl⟩
    · simp only [hi, if_false, Bool.false_eq_true, Except.ok.injEq] at h ⊢
      subst h
      exact ⟨_, rfl, ht.symm, rfl, rfl, rfl⟩

/-- `loss()` answers the same before and after `remove_unfinished` (it only reads `_losses`, which pending
points never enter), and `remove_unfinished` cannot make it fail -/
theorem lossOp_removeUnfinished (env : Env α) (s : State α) {v : α} {s1 : State α}
    (h : lossOp env s = .ok (v, s1)) :
    ∃ s2, lossOp env (removeUnfinished env s) = .ok (v, s2) ∧ s2.losses = s1.losses ∧ s2.tri = s1.tri ∧
      s2.data = s1.data ∧ s2.pending = [] := by
  unfold lossOp at h
  split at h
  · exact absurd h (by simp)
  · rename_i t1 h1
    obtain ⟨t2, e2, a, b, c, d⟩ := touchTri_book_indep env s [] (removeUnfinished env s).book h1
    have e2' : touchTri env (removeUnfinished env s) = .ok t2 := e2
    unfold lossOp
    rw [e2']
    simp only
    cases ht : t1.tri with
    | none =>
      rw [ht] at h a
      simp only [Except.ok.injEq, Prod.mk.injEq] at h
      obtain ⟨hv, hs⟩ := h
      subst hs
      rw [a]
      exact ⟨t2, by rw [hv], b, by rw [a, ht], d, c⟩
    | some vs =>
      rw [ht] at h a
      simp only [Except.ok.injEq, Prod.mk.injEq] at h
      obtain ⟨hv, hs⟩ := h
      subst hs
      rw [a]
      exact ⟨t2, by rw [← hv, b], b, by rw [a, ht], d, c⟩

end LND

/-! C10 for the IntegratorLearner model (`AdaptiveModel/Integ.lean`): `data`, `pending_points` and the abscissae
handed out, along every history of tell / ask / re-ordering. -/
namespace Integ
namespace Book
variable {α : Type}

/-- the abscissa bookkeeping of the learner: `_stack`, `pending_points`, keys of `data`, the three ghost lists and
`x_mapping` -/
def bView (s : St α) := (s.stack, s.pending, s.data, s.pushed, s.popped, s.handed, s.xmap)

/-- `pending_points` and `data` are disjoint duplicate-free sets -/
structure Good (s : St α) : Prop where
  disj : ∀ y ∈ s.pending, y ∉ s.data
  pnodup : s.pending.Nodup
  dnodup : s.data.Nodup

/-- a transition that keeps the evaluated abscissae, keeps unevaluated pending abscissae pending, and keeps `Good` -/
structure BK (s s' : St α) : Prop where
  data : s'.data = s.data
  pend : ∀ y, y ∉ s.data → y ∈ s.pending → y ∈ s'.pending
  good : Good s → Good s'

theorem BK.refl (s : St α) : BK s s := ⟨rfl, fun _ _ h => h, id⟩

theorem BK.trans {a b c : St α} (h1 : BK a b) (h2 : BK b c) : BK a c :=
  ⟨h2.data.trans h1.data, fun y hd hp => h2.pend y (by rw [h1.data]; exact hd) (h1.pend y hd hp),
   fun h => h2.good (h1.good h)⟩

theorem bView_pt {s s' : St α} (hv : bView s' = bView s) : ptView s' = ptView s := by
  simp only [bView, Prod.mk.injEq] at hv
  obtain ⟨h1, h2, h3, h4, h5, h6, _⟩ := hv
  simp only [ptView, h1, h2, h3, h4, h5, h6]

theorem BK.of_view {s s' : St α} (hv : ptView s' = ptView s) : BK s s' := by
  simp only [ptView, Prod.mk.injEq] at hv
  obtain ⟨_, h2, h3, _⟩ := hv
  refine ⟨h3, fun y _ hp => by rw [h2]; exact hp, fun h => ⟨?_, ?_, ?_⟩⟩
  · rw [h2, h3]; exact h.disj
  · rw [h2]; exact h.pnodup
  · rw [h3]; exact h.dnodup

theorem BK.step {a b c : St α} (h2 : BK b c) (h1 : ptView b = ptView a) : BK a c :=
  (BK.of_view h1).trans h2

theorem bk_of_eq {s t : St α} {r : St α × Option Err} {oe : Option Err} (heq : r = (t, oe))
    (h : BK s r.1) : BK s t := by
  subst heq; exact h

variable [OfNat α 0] [DecidableEq α] [Div α] [OfNat α 2] [LT α] [DecidableLT α] [Sub α] [Mul α] [Add α] [Neg α]

theorem forEach_bk {β : Type} (f : St α → β → St α × Option Err)
    (hf : ∀ s x, BK s (f s x).1) (l : List β) (s : St α) : BK s (forEach f l s).1 :=
  forEach_rel BK BK.refl (fun _ _ _ h1 h2 => h1.trans h2) f hf l s

theorem forEach_bview {β : Type} (f : St α → β → St α × Option Err)
    (hf : ∀ s x, bView (f s x).1 = bView s) (l : List β) (s : St α) :
    bView (forEach f l s).1 = bView s :=
  forEach_rel (fun s s' => bView s' = bView s) (fun _ => rfl) (fun _ _ _ h1 h2 => h2.trans h1) f hf l s

theorem depthStep_bview (O : Oracle α) (P : Params α) (i : Nat) (s : St α) (d : Nat) :
    bView (depthStep O P i s d).1 = bView s := by
  unfold depthStep
  simp only []
  repeat' split
  all_goals rfl

theorem tellIval_bview (O : Oracle α) (P : Params α) (x : α) (s : St α) (i : Nat) :
    bView (tellIval O P x s i).1 = bView s := by
  unfold tellIval
  exact forEach_bview _ (depthStep_bview O P i) _ _

/-! ### sets as lists -/

theorem nodup_sadd {β : Type} [DecidableEq β] (x : β) {l : List β} (h : l.Nodup) : (sadd x l).Nodup := by
  unfold sadd
  split
  · exact h
  · rename_i hx
    rw [List.nodup_append]
    refine ⟨h, List.nodup_singleton x, ?_⟩
    intro a ha b hb
    rw [List.mem_singleton] at hb
    subst hb
    intro hab
    subst hab
    exact hx ha

theorem sadd_of_mem {β : Type} [DecidableEq β] {x : β} {l : List β} (h : x ∈ l) : sadd x l = l := by
  unfold sadd; rw [if_pos h]

theorem filter_ne_of_not_mem {x : α} {l : List α} (h : x ∉ l) : l.filter (fun y => y ≠ x) = l := by
  rw [List.filter_eq_self]
  intro a ha
  simp only [ne_eq, decide_not, Bool.not_eq_eq_eq_not, Bool.not_true, decide_eq_false_iff_not]
  intro e; subst e; exact h ha

theorem mem_sunion {β : Type} [DecidableEq β] (m : List β) : ∀ (l : List β) (x : β),
    x ∈ sunion l m ↔ x ∈ l ∨ x ∈ m := by
  induction m with
  | nil => intro l x; simp [sunion]
  | cons p m ih =>
    intro l x
    show x ∈ sunion (sadd p l) m ↔ _
    rw [ih, mem_sadd, List.mem_cons]
    tauto

theorem nodup_sunion {β : Type} [DecidableEq β] (m : List β) : ∀ {l : List β}, l.Nodup → (sunion l m).Nodup := by
  induction m with
  | nil => intro l h; exact h
  | cons p m ih => intro l h; exact ih (nodup_sadd p h)

theorem sunion_append {β : Type} [DecidableEq β] (l m1 m2 : List β) :
    sunion l (m1 ++ m2) = sunion (sunion l m1) m2 := by
  simp [sunion, List.foldl_append]

theorem length_sunion_nil {β : Type} [DecidableEq β] (m : List β) : (sunion [] m).length = m.dedup.length := by
  apply List.Perm.length_eq
  rw [List.perm_ext_iff_of_nodup (nodup_sunion m List.nodup_nil) (List.nodup_dedup m)]
  intro x
  rw [mem_sunion, List.mem_dedup]
  simp

/-! ### `tell` -/

/-- `tell(x, v)`: an abscissa of no interval is rejected and nothing changes; otherwise `x` joins `data` and leaves
`pending_points`; stack, ghost lists and `x_mapping` are untouched -/
theorem tell_view (O : Oracle α) (P : Params α) (s : St α) (x : α) :
    bView (tell O P s x).1 =
      (if (xmapGet s.xmap x).isSome then
        (s.stack, s.pending.filter (fun y => y ≠ x), sadd x s.data, s.pushed, s.popped, s.handed, s.xmap)
       else bView s) := by
  unfold tell
  split
  · next h => simp [h]
  · next ids h =>
    rw [forEach_bview _ (tellIval_bview O P x)]
    simp [h, bView]

theorem tell_data (O : Oracle α) (P : Params α) (s : St α) (x : α) :
    (tell O P s x).1.data = if (xmapGet s.xmap x).isSome then sadd x s.data else s.data := by
  have h := congrArg (fun v => v.2.2.1) (tell_view O P s x)
  simp only [bView] at h
  rw [h]; split <;> rfl

theorem tell_pending (O : Oracle α) (P : Params α) (s : St α) (x : α) :
    (tell O P s x).1.pending =
      if (xmapGet s.xmap x).isSome then s.pending.filter (fun y => y ≠ x) else s.pending := by
  have h := congrArg (fun v => v.2.1) (tell_view O P s x)
  simp only [bView] at h
  rw [h]; split <;> rfl

theorem good_tell (O : Oracle α) (P : Params α) (s : St α) (x : α) (h : Good s) : Good (tell O P s x).1 := by
  refine ⟨?_, ?_, ?_⟩
  · rw [tell_pending, tell_data]
    split
    · intro y hy hd
      obtain ⟨hp, hne⟩ := List.mem_filter.1 hy
      have hne' : y ≠ x := by simpa using hne
      rcases (mem_sadd x y s.data).1 hd with e | e
      · exact hne' e
      · exact h.disj y hp e
    · exact h.disj
  · rw [tell_pending]
    split
    · exact h.pnodup.filter _
    · exact h.pnodup
  · rw [tell_data]
    split
    · exact nodup_sadd x h.dnodup
    · exact h.dnodup

/-- telling an abscissa that already has a value: the whole abscissa bookkeeping is unchanged -/
theorem retell_view (O : Oracle α) (P : Params α) (s : St α) (x : α) (h : Good s) (hx : x ∈ s.data) :
    bView (tell O P s x).1 = bView s := by
  rw [tell_view]
  split
  · have hp : x ∉ s.pending := fun c => h.disj x c hx
    rw [filter_ne_of_not_mem hp, sadd_of_mem hx]; rfl
  · rfl

theorem retell_bk (O : Oracle α) (P : Params α) (s : St α) (x : α) (hx : x ∈ s.data) :
    BK s (tell O P s x).1 := by
  refine ⟨?_, ?_, good_tell O P s x⟩
  · rw [tell_data]; split
    · exact sadd_of_mem hx
    · rfl
  · intro y hd hp
    rw [tell_pending]; split
    · refine List.mem_filter.2 ⟨hp, ?_⟩
      have : y ≠ x := fun e => hd (e ▸ hx)
      simpa using this
    · exact hp

/-! ### `ask`: the evaluated abscissae are untouched, pending ones stay pending -/

theorem addPoint_bk (O : Oracle α) (P : Params α) (i : Nat) (s : St α) (x : α) :
    BK s (addPoint O P i s x).1 := by
  unfold addPoint
  simp only []
  split
  · next hd =>
    exact BK.trans (b := { s with xmap := xmapAdd s.F x i s.xmap }) (BK.of_view rfl) (retell_bk O P _ x hd)
  · next hd =>
    split
    · next hp =>
      have hd' : x ∉ s.data := hd
      have hp' : x ∉ s.pending := hp
      refine ⟨rfl, fun y _ h => List.mem_append_left _ h, fun h => ⟨?_, ?_, h.dnodup⟩⟩
      · intro y hy
        show y ∉ s.data
        have hy' : y ∈ s.pending ++ [x] := hy
        rcases List.mem_append.1 hy' with h1 | h1
        · exact h.disj y h1
        · rw [List.mem_singleton] at h1; subst h1; exact hd'
      · show (s.pending ++ [x]).Nodup
        rw [List.nodup_append]
        refine ⟨h.pnodup, List.nodup_singleton x, ?_⟩
        intro a ha b hb
        rw [List.mem_singleton] at hb
        subst hb
        intro hab
        subst hab
        exact hp' ha
    · exact BK.of_view rfl

theorem addIval_bk (O : Oracle α) (P : Params α) (s : St α) (i : Nat) : BK s (addIval O P s i).1 := by
  unfold addIval
  simp only []
  have h1 := forEach_bk (addPoint O P i) (addPoint_bk O P i)
    (O.pts (getI s.F i).a (getI s.F i).b (getI s.F i).depth) s
  split
  · next s' e heq => rw [heq] at h1; exact h1
  · next s' heq => rw [heq] at h1; exact h1.trans (BK.of_view rfl)

theorem fillInner_bk (O : Oracle α) (P : Params α) (s : St α) (i : Nat) (pts : List α) (force : Bool) :
    BK s (fillInner O P s i pts force).1 := by
  unfold fillInner
  simp only [Integ.split]
  split
  · exact BK.of_view (removeIval_view s i)
  · split
    · have h1 := removeIval_view s i
      split
      · next s1 e heq => rw [heq] at h1; exact BK.of_view h1
      · next s1 heq =>
        rw [heq] at h1
        have hs1 : BK s s1 := BK.of_view h1
        split
        · next s2 e heq2 =>
          exact hs1.trans (BK.step (bk_of_eq heq2 (addIval_bk O P _ _)) rfl)
        · next s2 heq2 =>
          exact (hs1.trans (BK.step (bk_of_eq heq2 (addIval_bk O P _ _)) rfl)).trans
            (addIval_bk O P _ _)
    · exact BK.step (addIval_bk O P _ _) rfl

theorem fillStack_bk (O : Oracle α) (P : Params α) (s : St α) : BK s (fillStack O P s).1 := by
  unfold fillStack
  simp only [Integ.split]
  split
  · exact BK.of_view rfl
  · next i prio' hpick =>
    have hin := fillInner_bk O P { s with prio := prio' } i
      (O.pts (getI s.F i).a (getI s.F i).b (getI s.F i).depth) (!(dropDead s.ivals s.prio).isEmpty)
    split
    · exact BK.of_view rfl
    · split
      · next sR e heq =>
        exact BK.step (bk_of_eq heq hin) rfl
      · next sR heq =>
        have hs : BK s sR := BK.step (bk_of_eq heq hin) rfl
        split
        · split
          · exact hs.trans (BK.of_view rfl)
          · exact hs
        · exact hs

theorem popFromStack_bk (s : St α) (n : Nat) : BK s (popFromStack s n).1 := by
  unfold popFromStack
  exact ⟨rfl, fun _ _ h => h, fun h => ⟨h.disj, h.pnodup, h.dnodup⟩⟩

theorem askLoop_bk (O : Oracle α) (P : Params α) :
    ∀ (fuel : Nat) (s : St α) (nLeft : Nat) (pts imps : List α), BK s (askLoop O P fuel s nLeft pts imps).1
  | 0, s, nLeft, pts, imps => by simp only [askLoop]; exact BK.refl s
  | fuel + 1, s, nLeft, pts, imps => by
    unfold askLoop
    split
    · exact BK.refl s
    · have hf := fillStack_bk O P s
      split
      · next s' heq => exact bk_of_eq heq hf
      · next s' heq => exact bk_of_eq heq hf
      · rename_i heq
        exact bk_of_eq heq hf
      · next s' heq =>
        have hf' : BK s s' := bk_of_eq heq hf
        exact (hf'.trans (popFromStack_bk s' nLeft)).trans (askLoop_bk O P fuel _ _ _ _)

theorem askCommit_bk (O : Oracle α) (P : Params α) (fuel : Nat) (s : St α) (n : Nat) :
    BK s (askCommit O P fuel s n).1 := by
  unfold askCommit
  exact (popFromStack_bk s n).trans (askLoop_bk O P fuel _ _ _ _)

theorem ask_bk (O : Oracle α) (P : Params α) (fuel : Nat) (s : St α) (n : Nat) (c : Bool) :
    BK s (ask O P fuel s n c).1 := by
  have h := askCommit_bk O P fuel s n
  unfold ask
  split
  · next s' pts imps heq =>
    rw [heq] at h
    split
    · exact h.trans ⟨rfl, fun _ _ hp => hp, fun g => ⟨g.disj, g.pnodup, g.dnodup⟩⟩
    · exact BK.refl s
  · next s' e _ _ heq =>
    rw [heq] at h
    cases c
    · exact BK.refl s
    · exact h

theorem reorder_bk (s : St α) (x : α) (ids : List Nat) : BK s (reorder s x ids) :=
  BK.of_view (reorder_view s x ids)

/-! ### histories -/

/-- the abscissae told AND accepted (`x in self.x_mapping` at that moment) along a history, in order -/
def accepted (O : Oracle α) (P : Params α) : St α → List (Op α) → List α
  | _, [] => []
  | s, .tell x :: r =>
    (if (xmapGet s.xmap x).isSome then [x] else []) ++ accepted O P (step O P s (.tell x)) r
  | s, .ask fuel n c :: r => accepted O P (step O P s (.ask fuel n c)) r
  | s, .reorder x ids :: r => accepted O P (step O P s (.reorder x ids)) r

theorem good_step (O : Oracle α) (P : Params α) (s : St α) (op : Op α) (h : Good s) : Good (step O P s op) := by
  cases op with
  | tell x => exact good_tell O P s x h
  | ask fuel n c => exact (ask_bk O P fuel s n c).good h
  | reorder x ids => exact (reorder_bk s x ids).good h

theorem good_run (O : Oracle α) (P : Params α) (ops : List (Op α)) : ∀ (s : St α), Good s → Good (run O P s ops) := by
  induction ops with
  | nil => intro s h; exact h
  | cons op r ih => intro s h; exact ih (step O P s op) (good_step O P s op h)

theorem start_bk (O : Oracle α) (P : Params α) (a b e : α) :
    BK ({ F := [{ a := a, b := b, depth := 2, rdepth := 1, err := e, igral := 0 }] } : St α) (start O P a b e) := by
  unfold start init
  exact addIval_bk O P _ 0

theorem good_start (O : Oracle α) (P : Params α) (a b e : α) : Good (start O P a b e) :=
  (start_bk O P a b e).good ⟨fun _ h => absurd h List.not_mem_nil, List.nodup_nil, List.nodup_nil⟩

theorem data_start (O : Oracle α) (P : Params α) (a b e : α) : (start O P a b e).data = [] :=
  (start_bk O P a b e).data

theorem run_data (O : Oracle α) (P : Params α) (ops : List (Op α)) : ∀ (s : St α),
    (run O P s ops).data = sunion s.data (accepted O P s ops) := by
  induction ops with
  | nil => intro s; rfl
  | cons op r ih =>
    intro s
    show (run O P (step O P s op) r).data = _
    rw [ih]
    cases op with
    | tell x =>
      show sunion (tell O P s x).1.data _ = sunion s.data ((if (xmapGet s.xmap x).isSome then [x] else []) ++ _)
      rw [sunion_append, tell_data]
      split <;> rfl
    | ask fuel n c =>
      show sunion (ask O P fuel s n c).1.data _ = sunion s.data (accepted O P (step O P s (.ask fuel n c)) r)
      rw [(ask_bk O P fuel s n c).data]
    | reorder x ids =>
      show sunion (reorder s x ids).data _ = sunion s.data (accepted O P (step O P s (.reorder x ids)) r)
      rw [(reorder_bk s x ids).data]

/-- operations other than a `tell` of `x` -/
def NotTell (x : α) : Op α → Prop
  | .tell y => y ≠ x
  | _ => True

/-- an abscissa that is pending and has no value stays so until it is told -/
theorem step_keeps (O : Oracle α) (P : Params α) (s : St α) (op : Op α) (x : α) (hn : NotTell x op)
    (hp : x ∈ s.pending) (hd : x ∉ s.data) : x ∈ (step O P s op).pending ∧ x ∉ (step O P s op).data := by
  cases op with
  | tell y =>
    have hy : y ≠ x := hn
    show x ∈ (tell O P s y).1.pending ∧ x ∉ (tell O P s y).1.data
    rw [tell_pending, tell_data]
    split
    · refine ⟨List.mem_filter.2 ⟨hp, ?_⟩, ?_⟩
      · have : x ≠ y := fun e => hy e.symm
        simpa using this
      · intro c
        rcases (mem_sadd y x s.data).1 c with e | e
        · exact hy e.symm
        · exact hd e
    · exact ⟨hp, hd⟩
  | ask fuel n c =>
    have h := ask_bk O P fuel s n c
    exact ⟨h.pend x hd hp, by show x ∉ (ask O P fuel s n c).1.data; rw [h.data]; exact hd⟩
  | reorder y ids =>
    have h := reorder_bk s y ids
    exact ⟨h.pend x hd hp, by show x ∉ (reorder s y ids).data; rw [h.data]; exact hd⟩

theorem run_keeps (O : Oracle α) (P : Params α) (x : α) (ops : List (Op α)) : ∀ (s : St α),
    (∀ op ∈ ops, NotTell x op) → x ∈ s.pending → x ∉ s.data →
    x ∈ (run O P s ops).pending ∧ x ∉ (run O P s ops).data := by
  induction ops with
  | nil => intro s _ hp hd; exact ⟨hp, hd⟩
  | cons op r ih =>
    intro s hn hp hd
    obtain ⟨a, b⟩ := step_keeps O P s op x (hn op List.mem_cons_self) hp hd
    exact ih (step O P s op) (fun o ho => hn o (List.mem_cons_of_mem _ ho)) a b

/-- an abscissa with a value keeps it (and, in a good state, is never pending again) -/
theorem mem_data_step (O : Oracle α) (P : Params α) (s : St α) (op : Op α) (x : α) (hd : x ∈ s.data) :
    x ∈ (step O P s op).data := by
  cases op with
  | tell y =>
    show x ∈ (tell O P s y).1.data
    rw [tell_data]; split
    · exact (mem_sadd y x s.data).2 (Or.inr hd)
    · exact hd
  | ask fuel n c => show x ∈ (ask O P fuel s n c).1.data; rw [(ask_bk O P fuel s n c).data]; exact hd
  | reorder y ids => show x ∈ (reorder s y ids).data; rw [(reorder_bk s y ids).data]; exact hd

theorem mem_data_run (O : Oracle α) (P : Params α) (x : α) (ops : List (Op α)) : ∀ (s : St α),
    x ∈ s.data → x ∈ (run O P s ops).data := by
  induction ops with
  | nil => intro s h; exact h
  | cons op r ih => intro s h; exact ih (step O P s op) (mem_data_step O P s op x h)

/-- the abscissae a committing `ask` returns are popped from the stack: each is pending or already evaluated -/
theorem ask_returned_known (O : Oracle α) (P : Params α) (fuel : Nat) (s : St α) (n : Nat) (h : PtInv s) :
    ∀ x ∈ (ask O P fuel s n true).2.2.1,
      x ∈ (ask O P fuel s n true).1.pending ∨ x ∈ (ask O P fuel s n true).1.data := by
  intro x hx
  obtain ⟨h1, h2⟩ := ask_spec O P fuel s n true
  have hi := h1 h
  simp only [if_true] at h2
  have hh : x ∈ (ask O P fuel s n true).1.handed := by rw [h2]; exact List.mem_append_right _ hx
  have hpop : x ∈ (ask O P fuel s n true).1.popped := hi.handed.subset hh
  have hpush : x ∈ (ask O P fuel s n true).1.pushed := by
    rw [← hi.split]; exact List.mem_append_left _ hpop
  exact hi.known x hpush

end Book
end Integ

/-! C10 for the full AverageLearner1D model (`AdaptiveModel/Avg1DFull.lean`): the pending set `pending_points`
(pairs `(seed, x)`) under every operation, re-tells, and the sample keys / abscissae after a history. -/

namespace Avg1DFull
namespace Book
open L1D (Loss Ival)
variable {α : Type} [Field α] [LinearOrder α] [IsStrictOrderedRing α]
variable (lossFn : List (Option α) → List (Option (List α)) → Loss α) (r12 : α → α)
variable (sqrt : α → α) (tq : Nat → α) (hypot : α → α → α)

/-! ### the pending set under each operation -/

theorem mem_pendErase (l : List (Nat × α)) (seed : Nat) (x : α) (q : Nat × α) :
    q ∈ pendErase l seed x ↔ q ∈ l ∧ q ≠ (seed, x) := by
  unfold pendErase
  rw [List.mem_filter]
  obtain ⟨a, b⟩ := q
  simp only [Bool.not_eq_true', Bool.and_eq_false_iff, beq_eq_false_iff_ne, decide_eq_false_iff_not, ne_eq,
    Prod.mk.injEq, not_and]
  constructor
  · rintro ⟨h1, h2⟩
    refine ⟨h1, fun ha hb => ?_⟩
    rcases h2 with h | h
    · exact h ha
    · exact h hb
  · rintro ⟨h1, h2⟩
    refine ⟨h1, ?_⟩
    by_cases ha : a = seed
    · exact Or.inr (h2 ha)
    · exact Or.inl ha

theorem afterResample_pend (s : State α) (samp : Avg1D.State α) (x : α) (ys : List α) :
    (afterResample lossFn r12 hypot s samp x ys).pend = s.pend := by
  unfold afterResample
  dsimp only
  rw [popCheck_pend, updateRescaled_pend]
  rfl

theorem tellNew_pend (s : State α) (seed : Nat) (x y : α) :
    (tellNew lossFn r12 sqrt tq hypot s seed x y).pend = s.pend := by
  unfold tellNew
  dsimp only
  rw [updateRescaled_pend]
  rfl

/-- `tell((seed, x), y)` discards `(seed, x)` from the pending set — whether the sample is new or known -/
theorem tell_pend (s : State α) (seed : Nat) (x y : α) :
    (tell lossFn r12 sqrt tq hypot s seed x y).pend = pendErase s.pend seed x := by
  unfold tell
  dsimp only
  cases h : Avg1D.find? s.samp x with
  | none => dsimp only; rw [tellNew_pend]
  | some p =>
    dsimp only
    split
    · rfl
    · unfold tellResampled; rw [afterResample_pend]

theorem tellPending_pend (s : State α) (seed : Nat) (x : α) :
    (tellPending lossFn r12 s seed x).pend =
      (if s.pend.any (fun q => q.1 == seed && decide (q.2 = x)) then s.pend else (seed, x) :: s.pend) := by
  unfold tellPending
  dsimp only
  split <;> rfl

theorem mem_tellPending_pend (s : State α) (seed : Nat) (x : α) (q : Nat × α) :
    q ∈ (tellPending lossFn r12 s seed x).pend ↔ q ∈ s.pend ∨ q = (seed, x) := by
  rw [tellPending_pend]
  split
  · rename_i h
    obtain ⟨e, he, hq⟩ := List.any_eq_true.1 h
    have he' : e = (seed, x) := by
      obtain ⟨a, b⟩ := e
      simp only [Bool.and_eq_true, beq_iff_eq, decide_eq_true_eq] at hq
      rw [hq.1, hq.2]
    constructor
    · exact Or.inl
    · rintro (h1 | h1)
      · exact h1
      · rw [h1, ← he']; exact he
  · rw [List.mem_cons]; tauto

theorem mem_foldl_tellPending_pend (pts : List (Nat × α)) : ∀ (s : State α) (q : Nat × α),
    q ∈ (pts.foldl (fun s p => tellPending lossFn r12 s p.1 p.2) s).pend ↔ q ∈ s.pend ∨ q ∈ pts := by
  induction pts with
  | nil => intro s q; simp
  | cons p ps ih =>
    intro s q
    rw [List.foldl_cons, ih, mem_tellPending_pend, List.mem_cons]
    tauto

theorem mem_foldl_pendErase (m : List (Nat × α)) (x : α) : ∀ (l : List (Nat × α)) (q : Nat × α),
    q ∈ m.foldl (fun l kv => pendErase l kv.1 x) l ↔ q ∈ l ∧ ¬ (q.2 = x ∧ q.1 ∈ m.map Prod.fst) := by
  induction m with
  | nil => intro l q; simp
  | cons kv m ih =>
    intro l q
    rw [List.foldl_cons, ih, mem_pendErase]
    obtain ⟨a, b⟩ := q
    simp only [ne_eq, Prod.mk.injEq, not_and, List.map_cons, List.mem_cons]
    constructor
    · rintro ⟨⟨h1, h2⟩, h3⟩
      refine ⟨h1, fun hb hk => ?_⟩
      rcases hk with hk | hk
      · exact h2 hk hb
      · exact h3 hb hk
    · rintro ⟨h1, h2⟩
      exact ⟨⟨h1, fun ha hb => h2 hb (Or.inl ha)⟩, fun hb hk => h2 hb (Or.inr hk)⟩

/-- `tell_many_at_point(x, mapping)` discards `(seed, x)` for every seed of the mapping -/
theorem tellManyAtPoint_pend (s : State α) (x : α) (m : List (Nat × α)) :
    (tellManyAtPoint lossFn r12 sqrt tq hypot s x m).pend = m.foldl (fun l kv => pendErase l kv.1 x) s.pend := by
  unfold tellManyAtPoint
  dsimp only
  cases hf : Avg1D.find? s.samp x with
  | none =>
    cases m with
    | nil => rfl
    | cons kv rest =>
      obtain ⟨seed, y⟩ := kv
      cases rest with
      | nil => dsimp only; rw [tellNew_pend]
      | cons kv2 rest2 => dsimp only; rw [afterResample_pend, tellNew_pend]
  | some p =>
    cases m with
    | nil => rfl
    | cons kv rest => dsimp only; rw [afterResample_pend]

/-- the pending set after `ask`: the requests are added when committing, nothing changes otherwise -/
theorem mem_ask_pend (s : State α) (n : Nat) (c : α) (commit : Bool)
    (r : (List (Nat × α) × List (Loss α)) × State α) (h : ask lossFn r12 sqrt s n c commit = some r)
    (q : Nat × α) : q ∈ r.2.pend ↔ q ∈ s.pend ∨ (commit = true ∧ q ∈ r.1.1) := by
  unfold ask at h
  cases hp : askPts r12 sqrt s n c with
  | none => rw [hp] at h; cases h
  | some pr =>
    rw [hp] at h
    simp only [Option.map_some, Option.some.injEq] at h
    subst h
    dsimp only
    cases commit
    · simp
    · simp only [if_true, true_and]
      exact mem_foldl_tellPending_pend lossFn r12 _ s q

/-! ### `tell_many`: the keys of the groups are the keys of the argument -/

theorem mem_dictUpdate_single {d : List (Nat × α)} {k : Nat} {v : α} {e : Nat × α}
    (h : e ∈ Avg1D.dictUpdate d [(k, v)]) : e ∈ d ∨ e = (k, v) := by
  unfold Avg1D.dictUpdate at h
  simp only [List.foldl_cons, List.foldl_nil] at h
  split at h
  · obtain ⟨f, hf, hfe⟩ := List.mem_map.1 h
    split at hfe
    · exact Or.inr hfe.symm
    · exact Or.inl (hfe ▸ hf)
  · rcases List.mem_append.1 h with h1 | h1
    · exact Or.inl h1
    · exact Or.inr (List.mem_singleton.1 h1)

theorem key_mem_dictUpdate_single (d : List (Nat × α)) (k : Nat) (v : α) :
    k ∈ (Avg1D.dictUpdate d [(k, v)]).map Prod.fst := by
  unfold Avg1D.dictUpdate
  simp only [List.foldl_cons, List.foldl_nil]
  split
  · rename_i h
    obtain ⟨e, he, hk⟩ := List.any_eq_true.1 h
    have hk' : e.1 = k := by simpa using hk
    refine List.mem_map.2 ⟨(k, v), List.mem_map.2 ⟨e, he, ?_⟩, rfl⟩
    simp [hk']
  · simp

theorem keys_mono_dictUpdate_single (d : List (Nat × α)) (k : Nat) (v : α) {j : Nat}
    (h : j ∈ d.map Prod.fst) : j ∈ (Avg1D.dictUpdate d [(k, v)]).map Prod.fst := by
  unfold Avg1D.dictUpdate
  simp only [List.foldl_cons, List.foldl_nil]
  obtain ⟨e, he, hj⟩ := List.mem_map.1 h
  split
  · by_cases hek : e.1 = k
    · refine List.mem_map.2 ⟨(k, v), List.mem_map.2 ⟨e, he, by simp [hek]⟩, ?_⟩
      rw [← hj, hek]
    · refine List.mem_map.2 ⟨e, List.mem_map.2 ⟨e, he, by simp [hek]⟩, hj⟩
  · rw [List.map_append]; exact List.mem_append_left _ h

/-- one step of `groupPts` -/
def groupStep (m : List (α × List (Nat × α))) (p : (Nat × α) × α) : List (α × List (Nat × α)) :=
  if m.any (fun e => decide (e.1 = p.1.2)) then
    m.map (fun e => if e.1 = p.1.2 then (e.1, Avg1D.dictUpdate e.2 [(p.1.1, p.2)]) else e)
  else m ++ [(p.1.2, [(p.1.1, p.2)])]

theorem groupPts_eq (pts : List ((Nat × α) × α)) : groupPts pts = pts.foldl groupStep [] := rfl

theorem groupStep_sound (A : Nat × α → Prop) (m : List (α × List (Nat × α))) (p : (Nat × α) × α)
    (hm : ∀ g ∈ m, ∀ kv ∈ g.2, A (kv.1, g.1)) (hp : A p.1) :
    ∀ g ∈ groupStep m p, ∀ kv ∈ g.2, A (kv.1, g.1) := by
  intro g hg kv hkv
  unfold groupStep at hg
  split at hg
  · obtain ⟨e, he, heg⟩ := List.mem_map.1 hg
    split at heg
    · rename_i hx
      subst heg
      rcases mem_dictUpdate_single hkv with h1 | h1
      · exact hm e he kv h1
      · rw [h1]
        show A (p.1.1, e.1)
        rw [hx]; exact hp
    · subst heg; exact hm e he kv hkv
  · rcases List.mem_append.1 hg with h1 | h1
    · exact hm g h1 kv hkv
    · rw [List.mem_singleton] at h1
      subst h1
      rw [List.mem_singleton] at hkv
      subst hkv
      exact hp

theorem foldl_groupStep_sound (A : Nat × α → Prop) (pts : List ((Nat × α) × α)) :
    ∀ (m : List (α × List (Nat × α))), (∀ g ∈ m, ∀ kv ∈ g.2, A (kv.1, g.1)) → (∀ p ∈ pts, A p.1) →
    ∀ g ∈ pts.foldl groupStep m, ∀ kv ∈ g.2, A (kv.1, g.1) := by
  induction pts with
  | nil => intro m hm _; exact hm
  | cons p pts ih =>
    intro m hm hp
    rw [List.foldl_cons]
    exact ih _ (groupStep_sound A m p hm (hp p List.mem_cons_self))
      (fun q hq => hp q (List.mem_cons_of_mem _ hq))

/-- every `(seed, x)` a group of `tell_many` carries is a key of the argument -/
theorem groupPts_sound (pts : List ((Nat × α) × α)) :
    ∀ g ∈ groupPts pts, ∀ kv ∈ g.2, (kv.1, g.1) ∈ pts.map Prod.fst := by
  rw [groupPts_eq]
  exact foldl_groupStep_sound (fun q => q ∈ pts.map Prod.fst) pts [] (fun g hg => absurd hg List.not_mem_nil)
    (fun p hp => List.mem_map_of_mem hp)

/-- a key `(k, x)` is carried by the groups -/
def Carried (m : List (α × List (Nat × α))) (q : Nat × α) : Prop :=
  ∃ g ∈ m, g.1 = q.2 ∧ q.1 ∈ g.2.map Prod.fst

theorem groupStep_carried_self (m : List (α × List (Nat × α))) (p : (Nat × α) × α) :
    Carried (groupStep m p) p.1 := by
  unfold groupStep
  split
  · rename_i h
    obtain ⟨e, he, hx⟩ := List.any_eq_true.1 h
    have hx' : e.1 = p.1.2 := by simpa using hx
    refine ⟨(e.1, Avg1D.dictUpdate e.2 [(p.1.1, p.2)]), List.mem_map.2 ⟨e, he, by simp [hx']⟩, hx', ?_⟩
    exact key_mem_dictUpdate_single e.2 p.1.1 p.2
  · exact ⟨(p.1.2, [(p.1.1, p.2)]), List.mem_append_right _ (List.mem_singleton.2 rfl), rfl, by simp⟩

theorem groupStep_carried_mono (m : List (α × List (Nat × α))) (p : (Nat × α) × α) {q : Nat × α}
    (h : Carried m q) : Carried (groupStep m p) q := by
  obtain ⟨g, hg, hx, hk⟩ := h
  unfold groupStep
  split
  · by_cases hgx : g.1 = p.1.2
    · exact ⟨(g.1, Avg1D.dictUpdate g.2 [(p.1.1, p.2)]), List.mem_map.2 ⟨g, hg, by simp [hgx]⟩, hx,
        keys_mono_dictUpdate_single g.2 p.1.1 p.2 hk⟩
    · exact ⟨g, List.mem_map.2 ⟨g, hg, by simp [hgx]⟩, hx, hk⟩
  · exact ⟨g, List.mem_append_left _ hg, hx, hk⟩

theorem foldl_groupStep_carried (pts : List ((Nat × α) × α)) : ∀ (m : List (α × List (Nat × α))) (q : Nat × α),
    (Carried m q ∨ q ∈ pts.map Prod.fst) → Carried (pts.foldl groupStep m) q := by
  induction pts with
  | nil =>
    intro m q h
    rcases h with h | h
    · exact h
    · simp at h
  | cons p pts ih =>
    intro m q h
    rw [List.foldl_cons]
    apply ih
    rcases h with h | h
    · exact Or.inl (groupStep_carried_mono m p h)
    · rw [List.map_cons, List.mem_cons] at h
      rcases h with h | h
      · rw [h]; exact Or.inl (groupStep_carried_self m p)
      · exact Or.inr h

/-- every key of the argument of `tell_many` is carried by a group -/
theorem groupPts_complete (pts : List ((Nat × α) × α)) (q : Nat × α) (h : q ∈ pts.map Prod.fst) :
    Carried (groupPts pts) q := by
  rw [groupPts_eq]; exact foldl_groupStep_carried pts [] q (Or.inr h)

/-! ### histories: which `(seed, x)` an operation tells -/

/-- the `(seed, x)` keys an operation supplies a value for -/
def toldKeysOp : Op α → List (Nat × α)
  | .tell seed x _ => [(seed, x)]
  | .tellMany pts => pts.map Prod.fst
  | .tellManyAtPoint x m => m.map (fun kv => (kv.1, x))
  | _ => []

/-- all `(seed, x)` keys told along a history -/
def toldKeys (ops : List (Op α)) : List (Nat × α) := ops.flatMap toldKeysOp

theorem mem_toldKeysOp_groupOp {g : α × List (Nat × α)} {op : Op α} (h : groupOp g = some op) (q : Nat × α) :
    q ∈ toldKeysOp op ↔ (g.1 = q.2 ∧ q.1 ∈ g.2.map Prod.fst) := by
  obtain ⟨x, m⟩ := g
  obtain ⟨a, b⟩ := q
  unfold groupOp at h
  split at h
  · cases h
  · rename_i seed y hm
    simp only [Option.some.injEq] at h
    subst h
    simp only at hm
    subst hm
    simp only [toldKeysOp, List.mem_singleton, Prod.mk.injEq, List.map_cons, List.map_nil]
    tauto
  · simp only [Option.some.injEq] at h
    subst h
    simp only [toldKeysOp, List.mem_map, Prod.mk.injEq]
    constructor
    · rintro ⟨kv, hkv, h1, h2⟩
      exact ⟨h2, kv, hkv, h1⟩
    · rintro ⟨h2, kv, hkv, h1⟩
      exact ⟨kv, hkv, h1, h2⟩

/-- the operations `tell_many` performs tell exactly the keys of its argument -/
theorem mem_toldKeys_groupOps (pts : List ((Nat × α) × α)) (q : Nat × α) :
    q ∈ toldKeys (groupOps pts) ↔ q ∈ pts.map Prod.fst := by
  unfold toldKeys groupOps
  rw [List.mem_flatMap]
  constructor
  · rintro ⟨op, hop, hq⟩
    obtain ⟨g, hg, hgo⟩ := List.mem_filterMap.1 hop
    obtain ⟨hx, hk⟩ := (mem_toldKeysOp_groupOp hgo q).1 hq
    obtain ⟨kv, hkv, hkq⟩ := List.mem_map.1 hk
    have := groupPts_sound pts g hg kv hkv
    rw [hkq, hx] at this
    exact this
  · intro h
    obtain ⟨g, hg, hx, hk⟩ := groupPts_complete pts q h
    have hne : g.2 ≠ [] := by
      intro e; rw [e] at hk; simp at hk
    have : ∃ op, groupOp g = some op := by
      unfold groupOp
      split
      · rename_i e; exact absurd e hne
      · exact ⟨_, rfl⟩
      · exact ⟨_, rfl⟩
    obtain ⟨op, hop⟩ := this
    exact ⟨op, List.mem_filterMap.2 ⟨g, hg, hop⟩, (mem_toldKeysOp_groupOp hop q).2 ⟨hx, hk⟩⟩

theorem mem_toldKeys_expandOps (ops : List (Op α)) (q : Nat × α) :
    q ∈ toldKeys (expandOps ops) ↔ q ∈ toldKeys ops := by
  induction ops with
  | nil => rfl
  | cons op ops ih =>
    have hcons : expandOps (op :: ops) = expandOps [op] ++ expandOps ops := by
      unfold expandOps; simp [List.flatMap_cons]
    have h1 : toldKeys (op :: ops) = toldKeysOp op ++ toldKeys ops := by
      unfold toldKeys; simp [List.flatMap_cons]
    have h2 : toldKeys (expandOps [op] ++ expandOps ops) = toldKeys (expandOps [op]) ++ toldKeys (expandOps ops) := by
      unfold toldKeys; simp [List.flatMap_append]
    rw [hcons, h1, h2, List.mem_append, List.mem_append, ih]
    have h3 : q ∈ toldKeys (expandOps [op]) ↔ q ∈ toldKeysOp op := by
      cases op with
      | tellMany pts =>
        have : expandOps [Op.tellMany pts] = groupOps pts := by unfold expandOps; simp [List.flatMap_cons]
        rw [this, mem_toldKeys_groupOps]; rfl
      | tell a b c => unfold expandOps toldKeys; simp [List.flatMap_cons]
      | tellPending a b => unfold expandOps toldKeys; simp [List.flatMap_cons]
      | tellManyAtPoint a b => unfold expandOps toldKeys; simp [List.flatMap_cons]
      | removeUnfinished => unfold expandOps toldKeys; simp [List.flatMap_cons]
      | ask a b c => unfold expandOps toldKeys; simp [List.flatMap_cons]
    rw [h3]

/-! ### pending points: who stays, who leaves -/

/-- operations that do not remove `q = (seed, x)` from the pending set: every operation that does not supply a value
for `q` and is not `remove_unfinished` -/
def KeepsPending (q : Nat × α) (op : Op α) : Prop := q ∉ toldKeysOp op ∧ op ≠ .removeUnfinished

theorem step_ask_pend (s : State α) (n : Nat) (c : α) (commit : Bool) (q : Nat × α) (hq : q ∈ s.pend) :
    q ∈ (step lossFn r12 sqrt tq hypot s (.ask n c commit)).pend := by
  show q ∈ (match ask lossFn r12 sqrt s n c commit with
    | some r => r.2
    | none => s).pend
  cases hr : ask lossFn r12 sqrt s n c commit with
  | none => exact hq
  | some r => exact (mem_ask_pend lossFn r12 sqrt s n c commit r hr q).2 (Or.inl hq)

theorem step_keeps_pending_basic (s : State α) (op : Op α) (hop : ∀ pts, op ≠ .tellMany pts) (q : Nat × α)
    (hk : KeepsPending q op) (hq : q ∈ s.pend) : q ∈ (step lossFn r12 sqrt tq hypot s op).pend := by
  obtain ⟨hk1, hk2⟩ := hk
  cases op with
  | tell seed x y =>
    show q ∈ (tell lossFn r12 sqrt tq hypot s seed x y).pend
    rw [tell_pend, mem_pendErase]
    refine ⟨hq, fun e => hk1 ?_⟩
    rw [e]; simp [toldKeysOp]
  | tellPending seed x =>
    exact (mem_tellPending_pend lossFn r12 s seed x q).2 (Or.inl hq)
  | tellMany pts => exact absurd rfl (hop pts)
  | tellManyAtPoint x m =>
    show q ∈ (tellManyAtPoint lossFn r12 sqrt tq hypot s x m).pend
    rw [tellManyAtPoint_pend, mem_foldl_pendErase]
    refine ⟨hq, ?_⟩
    rintro ⟨h1, h2⟩
    apply hk1
    obtain ⟨kv, hkv, hk⟩ := List.mem_map.1 h2
    simp only [toldKeysOp, List.mem_map]
    refine ⟨kv, hkv, ?_⟩
    obtain ⟨a, b⟩ := q
    simp only at h1 hk
    rw [hk, h1]
  | removeUnfinished => exact absurd rfl hk2
  | ask n c commit => exact step_ask_pend lossFn r12 sqrt tq hypot s n c commit q hq

theorem run_keeps_pending_basic (ops : List (Op α)) : ∀ (s : State α), NoTellMany ops → ∀ (q : Nat × α),
    (∀ op ∈ ops, KeepsPending q op) → q ∈ s.pend → q ∈ (run lossFn r12 sqrt tq hypot s ops).pend := by
  induction ops with
  | nil => intro s _ q _ hq; exact hq
  | cons op ops ih =>
    intro s hn q hk hq
    show q ∈ (run lossFn r12 sqrt tq hypot (step lossFn r12 sqrt tq hypot s op) ops).pend
    exact ih _ (fun o ho => hn o (List.mem_cons_of_mem _ ho)) q (fun o ho => hk o (List.mem_cons_of_mem _ ho))
      (step_keeps_pending_basic lossFn r12 sqrt tq hypot s op (hn op List.mem_cons_self) q
        (hk op List.mem_cons_self) hq)

theorem mem_toldKeys_of_mem {ops : List (Op α)} {op : Op α} (h : op ∈ ops) {q : Nat × α}
    (hq : q ∈ toldKeysOp op) : q ∈ toldKeys ops :=
  List.mem_flatMap.2 ⟨op, h, hq⟩

theorem groupOps_ne_remove (pts : List ((Nat × α) × α)) : ∀ op ∈ groupOps pts, op ≠ .removeUnfinished := by
  intro op hop
  unfold groupOps at hop
  obtain ⟨g, -, hg⟩ := List.mem_filterMap.1 hop
  unfold groupOp at hg
  split at hg
  · cases hg
  · cases hg; intro h; cases h
  · cases hg; intro h; cases h

theorem step_keeps_pending (s : State α) (op : Op α) (q : Nat × α) (hk : KeepsPending q op) (hq : q ∈ s.pend) :
    q ∈ (step lossFn r12 sqrt tq hypot s op).pend := by
  cases op with
  | tellMany pts =>
    show q ∈ (tellMany lossFn r12 sqrt tq hypot s pts).pend
    rw [tellMany_eq_run]
    refine run_keeps_pending_basic lossFn r12 sqrt tq hypot _ s (noTellMany_groupOps pts) q ?_ hq
    intro o ho
    refine ⟨fun c => hk.1 ?_, groupOps_ne_remove pts o ho⟩
    exact (mem_toldKeys_groupOps pts q).1 (mem_toldKeys_of_mem ho c)
  | tell a b c => exact step_keeps_pending_basic lossFn r12 sqrt tq hypot s _ (fun _ h => by cases h) q hk hq
  | tellPending a b => exact step_keeps_pending_basic lossFn r12 sqrt tq hypot s _ (fun _ h => by cases h) q hk hq
  | tellManyAtPoint a b =>
    exact step_keeps_pending_basic lossFn r12 sqrt tq hypot s _ (fun _ h => by cases h) q hk hq
  | removeUnfinished => exact step_keeps_pending_basic lossFn r12 sqrt tq hypot s _ (fun _ h => by cases h) q hk hq
  | ask a b c => exact step_keeps_pending_basic lossFn r12 sqrt tq hypot s _ (fun _ h => by cases h) q hk hq

theorem run_keeps_pending (ops : List (Op α)) : ∀ (s : State α) (q : Nat × α),
    (∀ op ∈ ops, KeepsPending q op) → q ∈ s.pend → q ∈ (run lossFn r12 sqrt tq hypot s ops).pend := by
  induction ops with
  | nil => intro s q _ hq; exact hq
  | cons op ops ih =>
    intro s q hk hq
    show q ∈ (run lossFn r12 sqrt tq hypot (step lossFn r12 sqrt tq hypot s op) ops).pend
    exact ih _ q (fun o ho => hk o (List.mem_cons_of_mem _ ho))
      (step_keeps_pending lossFn r12 sqrt tq hypot s op q (hk op List.mem_cons_self) hq)

/-! ### a told key is not pending -/

/-- the pending set never grows under operations other than `tell_pending` and a committing `ask` -/
theorem step_pend_subset_basic (s : State α) (op : Op α) (hop : ∀ pts, op ≠ .tellMany pts)
    (h1 : ∀ seed x, op ≠ .tellPending seed x) (h2 : ∀ n c, op ≠ .ask n c true) (q : Nat × α)
    (hq : q ∈ (step lossFn r12 sqrt tq hypot s op).pend) : q ∈ s.pend ∧ q ∉ toldKeysOp op := by
  cases op with
  | tell seed x y =>
    have hq' : q ∈ (tell lossFn r12 sqrt tq hypot s seed x y).pend := hq
    rw [tell_pend, mem_pendErase] at hq'
    exact ⟨hq'.1, by simp only [toldKeysOp, List.mem_singleton]; exact hq'.2⟩
  | tellPending seed x => exact absurd rfl (h1 seed x)
  | tellMany pts => exact absurd rfl (hop pts)
  | tellManyAtPoint x m =>
    have hq' : q ∈ (tellManyAtPoint lossFn r12 sqrt tq hypot s x m).pend := hq
    rw [tellManyAtPoint_pend, mem_foldl_pendErase] at hq'
    refine ⟨hq'.1, fun c => hq'.2 ?_⟩
    simp only [toldKeysOp, List.mem_map] at c
    obtain ⟨kv, hkv, e⟩ := c
    rw [← e]
    exact ⟨rfl, List.mem_map.2 ⟨kv, hkv, rfl⟩⟩
  | removeUnfinished =>
    have hq' : q ∈ ([] : List (Nat × α)) := hq
    exact absurd hq' List.not_mem_nil
  | ask n c commit =>
    cases commit
    · have hq' : q ∈ (match ask lossFn r12 sqrt s n c false with
        | some r => r.2
        | none => s).pend := hq
      cases hr : ask lossFn r12 sqrt s n c false with
      | none => rw [hr] at hq'; exact ⟨hq', by simp [toldKeysOp]⟩
      | some r =>
        rw [hr] at hq'
        rcases (mem_ask_pend lossFn r12 sqrt s n c false r hr q).1 hq' with h | h
        · exact ⟨h, by simp [toldKeysOp]⟩
        · exact absurd h.1 (by simp)
    · exact absurd rfl (h2 n c)

theorem run_pend_subset_tells (ops : List (Op α)) : ∀ (s : State α),
    (∀ op ∈ ops, (∃ seed x y, op = .tell seed x y) ∨ ∃ x m, op = .tellManyAtPoint x m) → ∀ (q : Nat × α),
    q ∈ (run lossFn r12 sqrt tq hypot s ops).pend → q ∈ s.pend ∧ q ∉ toldKeys ops := by
  induction ops with
  | nil => intro s _ q hq; exact ⟨hq, by simp [toldKeys]⟩
  | cons op ops ih =>
    intro s hops q hq
    have hq' : q ∈ (run lossFn r12 sqrt tq hypot (step lossFn r12 sqrt tq hypot s op) ops).pend := hq
    obtain ⟨a, b⟩ := ih _ (fun o ho => hops o (List.mem_cons_of_mem _ ho)) q hq'
    have hform := hops op List.mem_cons_self
    have hs := step_pend_subset_basic lossFn r12 sqrt tq hypot s op
      (by rintro pts rfl; rcases hform with ⟨_, _, _, h⟩ | ⟨_, _, h⟩ <;> cases h)
      (by rintro seed x rfl; rcases hform with ⟨_, _, _, h⟩ | ⟨_, _, h⟩ <;> cases h)
      (by rintro n c rfl; rcases hform with ⟨_, _, _, h⟩ | ⟨_, _, h⟩ <;> cases h) q a
    refine ⟨hs.1, ?_⟩
    have h1 : toldKeys (op :: ops) = toldKeysOp op ++ toldKeys ops := by
      unfold toldKeys; simp [List.flatMap_cons]
    rw [h1, List.mem_append]
    rintro (c | c)
    · exact hs.2 c
    · exact b c

theorem groupOps_form (pts : List ((Nat × α) × α)) :
    ∀ op ∈ groupOps pts, (∃ seed x y, op = .tell seed x y) ∨ ∃ x m, op = .tellManyAtPoint x m := by
  intro op hop
  unfold groupOps at hop
  obtain ⟨g, -, hg⟩ := List.mem_filterMap.1 hop
  unfold groupOp at hg
  split at hg
  · cases hg
  · cases hg; exact Or.inl ⟨_, _, _, rfl⟩
  · cases hg; exact Or.inr ⟨_, _, rfl⟩

/-- after any telling operation none of the keys it supplied is pending, and nothing became pending -/
theorem step_told_not_pending (s : State α) (op : Op α) (h1 : ∀ seed x, op ≠ .tellPending seed x)
    (h2 : ∀ n c, op ≠ .ask n c true) (q : Nat × α) (hq : q ∈ (step lossFn r12 sqrt tq hypot s op).pend) :
    q ∈ s.pend ∧ q ∉ toldKeysOp op := by
  cases op with
  | tellMany pts =>
    have hq' : q ∈ (tellMany lossFn r12 sqrt tq hypot s pts).pend := hq
    rw [tellMany_eq_run] at hq'
    obtain ⟨a, b⟩ := run_pend_subset_tells lossFn r12 sqrt tq hypot _ s (groupOps_form pts) q hq'
    exact ⟨a, fun c => b ((mem_toldKeys_groupOps pts q).2 c)⟩
  | tell a b c => exact step_pend_subset_basic lossFn r12 sqrt tq hypot s _ (fun _ h => by cases h) h1 h2 q hq
  | tellPending a b => exact step_pend_subset_basic lossFn r12 sqrt tq hypot s _ (fun _ h => by cases h) h1 h2 q hq
  | tellManyAtPoint a b =>
    exact step_pend_subset_basic lossFn r12 sqrt tq hypot s _ (fun _ h => by cases h) h1 h2 q hq
  | removeUnfinished =>
    exact step_pend_subset_basic lossFn r12 sqrt tq hypot s _ (fun _ h => by cases h) h1 h2 q hq
  | ask a b c => exact step_pend_subset_basic lossFn r12 sqrt tq hypot s _ (fun _ h => by cases h) h1 h2 q hq

/-! ### the sample store: which `(seed, x)` hold a sample after a history -/

/-- the seeds of `_data_samples[x]` -/
def sampleKeys (t : Avg1D.State α) (x : α) : List Nat := match Avg1D.find? t x with
  | some p => p.samples.map Prod.fst
  | none => []

theorem mem_keys_dictUpdate_single (d : List (Nat × α)) (k : Nat) (v : α) (j : Nat) :
    j ∈ (Avg1D.dictUpdate d [(k, v)]).map Prod.fst ↔ j ∈ d.map Prod.fst ∨ j = k := by
  constructor
  · intro h
    obtain ⟨e, he, hj⟩ := List.mem_map.1 h
    rcases mem_dictUpdate_single he with h1 | h1
    · exact Or.inl (List.mem_map.2 ⟨e, h1, hj⟩)
    · rw [h1] at hj; exact Or.inr hj.symm
  · rintro (h | h)
    · exact keys_mono_dictUpdate_single d k v h
    · rw [h]; exact key_mem_dictUpdate_single d k v

theorem mem_keys_dictUpdate (m : List (Nat × α)) : ∀ (d : List (Nat × α)) (j : Nat),
    j ∈ (Avg1D.dictUpdate d m).map Prod.fst ↔ j ∈ d.map Prod.fst ∨ j ∈ m.map Prod.fst := by
  induction m with
  | nil => intro d j; simp [Avg1D.dictUpdate]
  | cons kv m ih =>
    intro d j
    have e : Avg1D.dictUpdate d (kv :: m) = Avg1D.dictUpdate (Avg1D.dictUpdate d [(kv.1, kv.2)]) m := rfl
    rw [e, ih, mem_keys_dictUpdate_single, List.map_cons, List.mem_cons]
    tauto

theorem mem_sampleKeys_tell (t : Avg1D.State α) (seed : Nat) (x y z : α) (k : Nat) :
    k ∈ sampleKeys (Avg1D.tell sqrt tq t seed x y) z ↔ k ∈ sampleKeys t z ∨ (k = seed ∧ z = x) := by
  by_cases hz : x = z
  · subst hz
    cases hf : Avg1D.find? t x with
    | none =>
      unfold sampleKeys
      rw [Avg1D.find?_tell_new sqrt tq t seed x y hf, hf]
      simp [Avg1D.newPt]
    | some p =>
      by_cases hk : seed ∈ p.samples.map Prod.fst
      · rw [Avg1D.tell_known sqrt tq t seed x y p hf hk]
        unfold sampleKeys
        rw [hf]
        constructor
        · exact Or.inl
        · rintro (h | ⟨h, -⟩)
          · exact h
          · rw [h]; exact hk
      · unfold sampleKeys
        rw [Avg1D.find?_tell_resample sqrt tq t seed x y p hf hk, hf]
        simp [Avg1D.resamplePt]
  · unfold sampleKeys
    rw [Avg1D.find?_tell_other sqrt tq t seed x y z hz]
    constructor
    · exact Or.inl
    · rintro (h | ⟨-, h⟩)
      · exact h
      · exact absurd h.symm hz

theorem mem_sampleKeys_tellMany_some (t : Avg1D.State α) (x : α) (m : List (Nat × α)) (p : Avg1D.Pt α)
    (hf : Avg1D.find? t x = some p) (k : Nat) :
    k ∈ sampleKeys (Avg1D.tellManyAtPoint sqrt tq t x m) x ↔ k ∈ sampleKeys t x ∨ k ∈ m.map Prod.fst := by
  cases m with
  | nil => rw [Avg1D.tellMany_nil]; simp
  | cons kv rest =>
    unfold sampleKeys
    rw [Avg1D.tellMany_some_cons sqrt tq t x p kv rest hf, Avg1D.find?_batchState sqrt tq t x p _ hf, hf]
    exact mem_keys_dictUpdate (kv :: rest) p.samples k

theorem mem_sampleKeys_tellMany (t : Avg1D.State α) (x z : α) (m : List (Nat × α)) (k : Nat) :
    k ∈ sampleKeys (Avg1D.tellManyAtPoint sqrt tq t x m) z ↔
      k ∈ sampleKeys t z ∨ (z = x ∧ k ∈ m.map Prod.fst) := by
  by_cases hz : x = z
  · subst hz
    simp only [true_and]
    cases hf : Avg1D.find? t x with
    | some p => exact mem_sampleKeys_tellMany_some sqrt tq t x m p hf k
    | none =>
      cases m with
      | nil => rw [Avg1D.tellMany_nil]; simp
      | cons kv rest =>
        obtain ⟨seed, y⟩ := kv
        rw [Avg1D.tellMany_none_cons sqrt tq t x seed y rest hf,
          mem_sampleKeys_tellMany_some sqrt tq _ x rest _ (Avg1D.find?_tell_new sqrt tq t seed x y hf) k,
          mem_sampleKeys_tell, List.map_cons, List.mem_cons]
        simp only [and_true]
        tauto
  · unfold sampleKeys
    rw [Avg1D.find?_tellMany_other sqrt tq t x z m hz]
    constructor
    · exact Or.inl
    · rintro (h | ⟨h, -⟩)
      · exact h
      · exact absurd h.symm hz

theorem mem_sampleKeys_sampStep (t : Avg1D.State α) (op : Op α) (hop : ∀ pts, op ≠ .tellMany pts) (z : α)
    (k : Nat) : k ∈ sampleKeys (sampStep sqrt tq t op) z ↔ k ∈ sampleKeys t z ∨ (k, z) ∈ toldKeysOp op := by
  cases op with
  | tell seed x y =>
    show k ∈ sampleKeys (Avg1D.tell sqrt tq t seed x y) z ↔ _
    rw [mem_sampleKeys_tell]; simp [toldKeysOp]
  | tellPending seed x => simp [sampStep, toldKeysOp]
  | tellMany pts => exact absurd rfl (hop pts)
  | tellManyAtPoint x m =>
    show k ∈ sampleKeys (Avg1D.tellManyAtPoint sqrt tq t x m) z ↔ _
    rw [mem_sampleKeys_tellMany]
    simp only [toldKeysOp, List.mem_map, Prod.mk.injEq]
    constructor
    · rintro (h | ⟨h1, kv, hkv, h2⟩)
      · exact Or.inl h
      · exact Or.inr ⟨kv, hkv, h2, h1.symm⟩
    · rintro (h | ⟨kv, hkv, h2, h1⟩)
      · exact Or.inl h
      · exact Or.inr ⟨h1.symm, kv, hkv, h2⟩
  | removeUnfinished => simp [sampStep, toldKeysOp]
  | ask n c commit => simp [sampStep, toldKeysOp]

theorem mem_sampleKeys_foldl (ops : List (Op α)) : ∀ (t : Avg1D.State α), NoTellMany ops → ∀ (z : α) (k : Nat),
    k ∈ sampleKeys (ops.foldl (sampStep sqrt tq) t) z ↔ k ∈ sampleKeys t z ∨ (k, z) ∈ toldKeys ops := by
  induction ops with
  | nil => intro t _ z k; simp [toldKeys]
  | cons op ops ih =>
    intro t hn z k
    have h1 : toldKeys (op :: ops) = toldKeysOp op ++ toldKeys ops := by
      unfold toldKeys; simp [List.flatMap_cons]
    rw [List.foldl_cons, ih _ (fun o ho => hn o (List.mem_cons_of_mem _ ho)),
      mem_sampleKeys_sampStep sqrt tq t op (hn op List.mem_cons_self), h1, List.mem_append]
    tauto

/-- after any history: `(seed, x)` holds a sample iff it held one before or was told -/
theorem mem_sampleKeys_run (s : State α) (ops : List (Op α)) (z : α) (k : Nat) :
    k ∈ sampleKeys (run lossFn r12 sqrt tq hypot s ops).samp z ↔
      k ∈ sampleKeys s.samp z ∨ (k, z) ∈ toldKeys ops := by
  rw [run_expandOps, run_samp lossFn r12 sqrt tq hypot s _ (noTellMany_expandOps ops),
    mem_sampleKeys_foldl sqrt tq _ _ (noTellMany_expandOps ops), mem_toldKeys_expandOps]

/-! ### the evaluated abscissae -/

theorem isSome_sampStep (t : Avg1D.State α) (op : Op α) (hop : ∀ pts, op ≠ .tellMany pts) (z : α) :
    (Avg1D.find? (sampStep sqrt tq t op) z).isSome = true ↔
      (Avg1D.find? t z).isSome = true ∨ ∃ k, (k, z) ∈ toldKeysOp op := by
  cases op with
  | tell seed x y =>
    show (Avg1D.find? (Avg1D.tell sqrt tq t seed x y) z).isSome = true ↔ _
    by_cases hz : x = z
    · subst hz
      rw [Avg1D.find?_tell_isSome]
      simp [toldKeysOp]
    · rw [Avg1D.find?_tell_other sqrt tq t seed x y z hz]
      simp only [toldKeysOp, List.mem_singleton, Prod.mk.injEq]
      constructor
      · exact Or.inl
      · rintro (h | ⟨k, -, h⟩)
        · exact h
        · exact absurd h.symm hz
  | tellPending seed x => simp [sampStep, toldKeysOp]
  | tellMany pts => exact absurd rfl (hop pts)
  | tellManyAtPoint x m =>
    show (Avg1D.find? (Avg1D.tellManyAtPoint sqrt tq t x m) z).isSome = true ↔ _
    by_cases hz : x = z
    · subst hz
      cases m with
      | nil => rw [Avg1D.tellMany_nil]; simp [toldKeysOp]
      | cons kv rest =>
        have hs : (Avg1D.find? (Avg1D.tellManyAtPoint sqrt tq t x (kv :: rest)) x).isSome = true := by
          cases hf : Avg1D.find? t x with
          | some p => exact find?_tellMany_isSome sqrt tq t x _ (by rw [hf]; rfl)
          | none =>
            obtain ⟨seed, y⟩ := kv
            rw [Avg1D.tellMany_none_cons sqrt tq t x seed y rest hf]
            exact find?_tellMany_isSome sqrt tq _ x _ (Avg1D.find?_tell_isSome sqrt tq t seed x y)
        rw [hs]
        simp only [true_iff]
        exact Or.inr ⟨kv.1, by simp [toldKeysOp]⟩
    · rw [Avg1D.find?_tellMany_other sqrt tq t x z m hz]
      simp only [toldKeysOp, List.mem_map, Prod.mk.injEq]
      constructor
      · exact Or.inl
      · rintro (h | ⟨k, kv, -, -, h⟩)
        · exact h
        · exact absurd h hz
  | removeUnfinished => simp [sampStep, toldKeysOp]
  | ask n c commit => simp [sampStep, toldKeysOp]

theorem isSome_foldl (ops : List (Op α)) : ∀ (t : Avg1D.State α), NoTellMany ops → ∀ (z : α),
    (Avg1D.find? (ops.foldl (sampStep sqrt tq) t) z).isSome = true ↔
      (Avg1D.find? t z).isSome = true ∨ ∃ k, (k, z) ∈ toldKeys ops := by
  induction ops with
  | nil => intro t _ z; simp [toldKeys]
  | cons op ops ih =>
    intro t hn z
    have h1 : toldKeys (op :: ops) = toldKeysOp op ++ toldKeys ops := by
      unfold toldKeys; simp [List.flatMap_cons]
    rw [List.foldl_cons, ih _ (fun o ho => hn o (List.mem_cons_of_mem _ ho)),
      isSome_sampStep sqrt tq t op (hn op List.mem_cons_self), h1]
    simp only [List.mem_append]
    constructor
    · rintro ((h | ⟨k, h⟩) | ⟨k, h⟩)
      · exact Or.inl h
      · exact Or.inr ⟨k, Or.inl h⟩
      · exact Or.inr ⟨k, Or.inr h⟩
    · rintro (h | ⟨k, h | h⟩)
      · exact Or.inl (Or.inl h)
      · exact Or.inl (Or.inr ⟨k, h⟩)
      · exact Or.inr ⟨k, h⟩

/-- after any history: an abscissa holds samples iff it did before or one of its `(seed, x)` was told -/
theorem isSome_run (s : State α) (ops : List (Op α)) (z : α) :
    (Avg1D.find? (run lossFn r12 sqrt tq hypot s ops).samp z).isSome = true ↔
      (Avg1D.find? s.samp z).isSome = true ∨ ∃ k, (k, z) ∈ toldKeys ops := by
  rw [run_expandOps, run_samp lossFn r12 sqrt tq hypot s _ (noTellMany_expandOps ops),
    isSome_foldl sqrt tq _ _ (noTellMany_expandOps ops)]
  constructor
  · rintro (h | ⟨k, h⟩)
    · exact Or.inl h
    · exact Or.inr ⟨k, (mem_toldKeys_expandOps ops _).1 h⟩
  · rintro (h | ⟨k, h⟩)
    · exact Or.inl h
    · exact Or.inr ⟨k, (mem_toldKeys_expandOps ops _).2 h⟩

theorem dataGet_isSome_iff (d : List (α × List α)) (x : α) :
    (L1D.dataGet d x).isSome = true ↔ x ∈ d.map Prod.fst := by
  simp only [L1D.dataGet, Option.isSome_map, List.find?_isSome, decide_eq_true_eq, List.mem_map]

end Book
end Avg1DFull

/-! C10.B4 (deepening): in every state the IntegratorLearner model reaches WITHOUT an exception, a `tell` of an abscissa
that already has a value is the identity on the WHOLE state (interval forest included).  Hypotheses on the abscissa
oracle: `Nested` (C07) and `Fresh` (a finer rule has an abscissa the coarser one lacks). -/
namespace Integ
namespace Retell
open Safe Book Cut
variable {α : Type} [OfNat α 0] [DecidableEq α] [Div α] [OfNat α 2] [LT α] [DecidableLT α] [Sub α] [Mul α] [Add α] [Neg α]

/-! ### the part of an interval that `tell` reads, and its frame -/

/-- what `tell` reads of an interval -/
def vw (I : Ival α) : α × α × Nat × List α × Option Nat × Option Nat :=
  (I.a, I.b, I.depth, I.data, I.parent, I.depthComplete)

/-- frame: nothing `tell` reads has changed -/
def Vf (F F' : Forest α) : Prop := F'.length = F.length ∧ ∀ j, vw (getI F' j) = vw (getI F j)

theorem Vf.refl (F : Forest α) : Vf F F := ⟨rfl, fun _ => rfl⟩
theorem Vf.trans {F G H : Forest α} (h1 : Vf F G) (h2 : Vf G H) : Vf F H :=
  ⟨h2.1.trans h1.1, fun j => (h2.2 j).trans (h1.2 j)⟩

theorem modAt_vf (F : Forest α) (i : Nat) (f : Ival α → Ival α) (hf : ∀ I, vw (f I) = vw I) : Vf F (modAt F i f) := by
  refine ⟨modAt_length _ _ _, fun j => ?_⟩
  rw [getI_modAt]
  split
  · rename_i h
    rw [h.1]; exact hf _
  · rfl

theorem updHeur_vf : ∀ (fuel : Nat) (F : Forest α) (j : Nat) (v : α), Vf F (updHeur fuel F j v)
  | 0, F, _, _ => by simp only [updHeur]; exact Vf.refl F
  | fuel + 1, F, j, v => by
    simp only [updHeur]
    refine foldl_inv (fun G => Vf F G) _ ?_ _ _ (modAt_vf _ _ _ (fun I => rfl))
    intro G c hG
    split
    · exact hG
    · exact hG.trans (updHeur_vf fuel G c _)

theorem calcErr_vf (F : Forest α) (j : Nat) (e : α) : Vf F (calcErr F j e) := by
  simp only [calcErr]
  refine foldl_inv (fun G => Vf F G) _ ?_ _ _ (modAt_vf _ _ _ (fun I => rfl))
  intro G c hG
  split
  · exact hG.trans (updHeur_vf _ G c _)
  · exact hG

theorem forEach_vf {β : Type} (F : Forest α) (f : Forest α → β → Forest α × Option Err)
    (hf : ∀ G x, Vf G (f G x).1) (l : List β) (G : Forest α) (hG : Vf F G) : Vf F (forEach f l G).1 :=
  (forEach_inv (fun G => Vf F G) (fun _ => True) trivial f
    (fun G x h => ⟨h.trans (hf G x), trivial⟩) l G hG).1

theorem updNdivRec_vf (P : Params α) : ∀ (fuel : Nat) (F : Forest α) (j : Nat), Vf F (updNdivRec P fuel F j).1
  | 0, F, _ => by simp only [updNdivRec]; exact Vf.refl F
  | fuel + 1, F, j => by
    simp only [updNdivRec]
    have h0 : Vf F (modAt F j (fun I => { I with ndiv := I.ndiv + 1 })) := modAt_vf _ _ _ (fun I => rfl)
    split
    · exact h0
    · exact forEach_vf F _ (fun G c => updNdivRec_vf P fuel G c) _ _ h0

theorem calcNdiv_vf (P : Params α) (F : Forest α) (j : Nat) (dv : Bool) : Vf F (calcNdiv P F j dv).1 := by
  have h0 : Vf F (modAt F j (fun I => { I with ndiv := I.ndiv + (if dv then 1 else 0) })) :=
    modAt_vf _ _ _ (fun I => rfl)
  unfold calcNdiv
  by_cases hd : divergent P (getI (modAt F j (fun I => { I with ndiv := I.ndiv + (if dv then 1 else 0) })) j) = true
  · simp only [hd, if_true]
    exact h0
  · simp only [hd]
    cases dv
    · exact h0
    · exact forEach_vf F _ (fun G c => updNdivRec_vf P _ G c) _ _ h0

theorem cpChildren_vf (P : Params α) (o : CPOut α) : ∀ (l : List Nat) (k : Nat) (F : Forest α),
    Vf F (cpChildren P o l k F).1
  | [], _, F => by simp only [cpChildren]; exact Vf.refl F
  | c :: r, k, F => by
    simp only [cpChildren]
    have key : Vf F (if (getI F c).depthComplete.isSome then calcNdiv P F c (o.childDiv.getD k false) else (F, none)).1 := by
      split
      · exact calcNdiv_vf P F c _
      · exact Vf.refl F
    split
    · rename_i G e heq
      rw [heq] at key
      exact key
    · rename_i G heq
      rw [heq] at key
      have h2 : Vf F (if (getI G c).depthComplete = some 0 then calcErr G c (o.childErr.getD k 0) else G) := by
        split
        · exact key.trans (calcErr_vf _ _ _)
        · exact key
      exact h2.trans (cpChildren_vf P o r (k + 1) _)

theorem removeDown_vf : ∀ (fuel : Nat) (F : Forest α) (j : Nat), Vf F (removeDown fuel F j).1
  | 0, F, _ => by simp only [removeDown]; exact Vf.refl F
  | fuel + 1, F, j => by
    simp only [removeDown]
    refine foldl_inv (fun (r : Forest α × List Nat) => Vf F r.1) _ ?_ _ _ (modAt_vf _ _ _ (fun I => rfl))
    intro r c hr
    exact Vf.trans hr (removeDown_vf fuel r.1 c)

theorem walkStep_vf (F : Forest α) (p : Nat) (old : List Nat) (F' : Forest α) (old' : List Nat)
    (h : walkStep F p old = some (F', old')) : Vf F F' := by
  simp only [walkStep] at h
  split at h
  · simp only [Option.some.injEq, Prod.mk.injEq] at h
    rw [← h.1]
    refine Vf.trans ?_ (modAt_vf _ _ _ (fun I => rfl))
    refine foldl_inv (fun (r : List Nat × Forest α) => Vf F r.2) _ ?_ _ _ (Vf.refl F)
    intro r c hr
    split
    · exact hr
    · exact Vf.trans hr (modAt_vf _ _ _ (fun I => rfl))
  · cases h

theorem walkUp_vf : ∀ (fuel : Nat) (F : Forest α) (p : Option Nat) (old : List Nat), Vf F (walkUp fuel F p old)
  | 0, F, _, _ => by simp only [walkUp]; exact Vf.refl F
  | fuel + 1, F, none, _ => by simp only [walkUp]; exact Vf.refl F
  | fuel + 1, F, some p, old => by
    simp only [walkUp]
    split
    · exact Vf.refl F
    · rename_i F' old' h
      exact (walkStep_vf F p old F' old' h).trans (walkUp_vf fuel F' _ old')

theorem propagateDone_vf (F : Forest α) (i : Nat) : Vf F (propagateDone F i) := by
  simp only [propagateDone]
  split
  · refine Vf.trans ?_ (walkUp_vf _ _ _ _)
    exact modAt_vf _ _ _ (fun I => rfl)
  · exact Vf.refl F

theorem cpR1_vf (P : Params α) (o : CPOut α) (F : Forest α) (i : Nat) (par : Option Nat) :
    Vf F (cpR1 P o F i par).1 := by
  cases par with
  | none => exact Vf.refl F
  | some p =>
    simp only [cpR1]
    split
    · exact (calcErr_vf _ _ _).trans (calcNdiv_vf P _ _ _)
    · exact Vf.refl F

theorem cpR_vf (P : Params α) (o : CPOut α) (F : Forest α) (i d : Nat) (par : Option Nat) :
    Vf F (cpR P o F i d par).1 := by
  unfold cpR
  have key := cpR1_vf P o F i par
  split
  · exact calcErr_vf _ _ _
  · split
    · rename_i G e heq
      rw [heq] at key
      exact key
    · rename_i G heq
      rw [heq] at key
      exact key.trans (cpChildren_vf P o _ _ _)

theorem cpFin_vf (o : CPOut α) (i : Nat) (F : Forest α) (r : Forest α × Option Err × Bool) (h : Vf F r.1) :
    Vf F (cpFin o i r).F := by
  rcases r with ⟨G, _ | e, fs⟩
  · exact h.trans (propagateDone_vf _ _)
  · exact h

/-- `complete_process(depth)` of interval `i`, when it raises nothing: apart from `i.depth_complete = depth`, nothing
`tell` reads changes -/
theorem cp_vf (O : Oracle α) (P : Params α) (F : Forest α) (i d : Nat)
    (he : (completeProcess O P F i d).err = none) :
    Vf (modAt F i (fun I => { I with depthComplete := some d })) (completeProcess O P F i d).F := by
  rw [completeProcess_eq] at he ⊢
  split at he
  · cases he
  · rename_i hc
    rw [if_neg hc]
    split
    · exact Vf.refl _
    · refine cpFin_vf _ i _ _ ?_
      exact (modAt_vf _ i (fun I => { I with igral := (O.cp i d).igral }) (fun I => rfl)).trans (cpR_vf P _ _ i d _)

/-! ### quiescent intervals -/

/-- `from_depth` of `tell` -/
def fromD (I : Ival α) : Nat := match I.depthComplete with
  | none => if I.parent.isSome then 0 else 2
  | some d => d + 1

/-- no rule of the interval between `from_depth` and `depth` is complete: a `tell` has nothing to process -/
def Quiet (O : Oracle α) (I : Ival α) : Prop :=
  ∀ d, fromD I ≤ d → d ≤ I.depth → refinementComplete O I d = false

theorem vw_fields {I I' : Ival α} (h : vw I' = vw I) :
    I'.a = I.a ∧ I'.b = I.b ∧ I'.depth = I.depth ∧ I'.data = I.data ∧ I'.parent = I.parent ∧
    I'.depthComplete = I.depthComplete := by
  simp only [vw, Prod.mk.injEq] at h
  exact h

theorem rc_congr (O : Oracle α) {I I' : Ival α} (ha : I'.a = I.a) (hb : I'.b = I.b) (hd : I'.data = I.data)
    (d : Nat) : refinementComplete O I' d = refinementComplete O I d := by
  unfold refinementComplete
  rw [ha, hb, hd]

theorem fromD_congr {I I' : Ival α} (hp : I'.parent = I.parent) (hc : I'.depthComplete = I.depthComplete) :
    fromD I' = fromD I := by
  unfold fromD
  rw [hp, hc]

theorem quiet_congr (O : Oracle α) {I I' : Ival α} (h : vw I' = vw I) (hq : Quiet O I) : Quiet O I' := by
  obtain ⟨ha, hb, hdp, hd, hp, hc⟩ := vw_fields h
  intro d h1 h2
  rw [rc_congr O ha hb hd]
  exact hq d (by rw [← fromD_congr hp hc]; exact h1) (by rw [← hdp]; exact h2)

theorem ns_pos (d : Nat) : 0 < ns d := by
  rcases d with _ | _ | _ | d <;> simp [ns]

theorem rc_nil (O : Oracle α) (I : Ival α) (h : I.data = []) (d : Nat) : refinementComplete O I d = false := by
  unfold refinementComplete
  rw [h, if_pos (by simpa using ns_pos d)]

theorem quiet_nil (O : Oracle α) (I : Ival α) (h : I.data = []) : Quiet O I := fun d _ _ => rc_nil O I h d

theorem getI_ge (F : Forest α) (i : Nat) (h : F.length ≤ i) : getI F i = dummy := by
  simp only [getI, List.getD_eq_getElem?_getD]
  rw [List.getElem?_eq_none h]; rfl

theorem rc_inrange (O : Oracle α) (F : Forest α) (i d : Nat) (h : refinementComplete O (getI F i) d = true) :
    i < F.length := by
  by_contra hn
  rw [getI_ge F i (by omega), rc_nil O dummy rfl] at h
  cases h

/-! ### the frame of one interval's processing -/

def vw0 (I : Ival α) : α × α × Nat × List α × Option Nat := (I.a, I.b, I.depth, I.data, I.parent)

/-- frame of the processing of interval `i`: only `i.depth_complete` may have changed (of what `tell` reads) -/
def Vi (i : Nat) (F F' : Forest α) : Prop :=
  F'.length = F.length ∧ (∀ j, vw0 (getI F' j) = vw0 (getI F j)) ∧
  ∀ j, j ≠ i → (getI F' j).depthComplete = (getI F j).depthComplete

theorem Vi.refl (i : Nat) (F : Forest α) : Vi i F F := ⟨rfl, fun _ => rfl, fun _ _ => rfl⟩
theorem Vi.trans {i : Nat} {F G H : Forest α} (h1 : Vi i F G) (h2 : Vi i G H) : Vi i F H :=
  ⟨h2.1.trans h1.1, fun j => (h2.2.1 j).trans (h1.2.1 j), fun j hj => (h2.2.2 j hj).trans (h1.2.2 j hj)⟩

theorem Vf.toVi {F G : Forest α} (h : Vf F G) (i : Nat) : Vi i F G := by
  refine ⟨h.1, fun j => ?_, fun j _ => (vw_fields (h.2 j)).2.2.2.2.2⟩
  obtain ⟨a, b, c, d, e, _⟩ := vw_fields (h.2 j)
  simp only [vw0, a, b, c, d, e]

theorem vw0_fields {I I' : Ival α} (h : vw0 I' = vw0 I) :
    I'.a = I.a ∧ I'.b = I.b ∧ I'.depth = I.depth ∧ I'.data = I.data ∧ I'.parent = I.parent := by
  simp only [vw0, Prod.mk.injEq] at h
  exact h

theorem Vi.vw_other {i : Nat} {F G : Forest α} (h : Vi i F G) {j : Nat} (hj : j ≠ i) :
    vw (getI G j) = vw (getI F j) := by
  obtain ⟨a, b, c, d, e⟩ := vw0_fields (h.2.1 j)
  simp only [vw, a, b, c, d, e, h.2.2 j hj]

theorem modAt_dc_vi (F : Forest α) (i : Nat) (v : Option Nat) :
    Vi i F (modAt F i (fun I => { I with depthComplete := v })) := by
  refine ⟨modAt_length _ _ _, fun j => ?_, fun j hj => ?_⟩
  · rw [getI_modAt]; split
    · rename_i h; rw [h.1]; rfl
    · rfl
  · rw [getI_modAt, if_neg (fun h => hj h.1)]

/-- one round of the depth loop of `tell`, when it raises nothing -/
theorem depthStep_ok (O : Oracle α) (P : Params α) (i : Nat) (s : St α) (d : Nat)
    (he : (depthStep O P i s d).2 = none) :
    Vi i s.F (depthStep O P i s d).1.F ∧ (∀ k ∈ (depthStep O P i s d).1.ivals, k ∈ s.ivals) ∧
    (refinementComplete O (getI s.F i) d = true → (getI (depthStep O P i s d).1.F i).depthComplete = some d) ∧
    (refinementComplete O (getI s.F i) d = false → (depthStep O P i s d).1 = s) := by
  by_cases hrc : refinementComplete O (getI s.F i) d = true
  · have hin := rc_inrange O s.F i d hrc
    unfold depthStep at he ⊢
    simp only [hrc, if_true] at he ⊢
    have hcp := cp_vf O P s.F i d
    generalize completeProcess O P s.F i d = r at he hcp
    rcases r with ⟨rF, rerr, rfs, rrm⟩
    simp only at he hcp ⊢
    cases rerr with
    | some e => simp at he
    | none =>
      have hv : Vf (modAt s.F i (fun I => { I with depthComplete := some d })) rF := hcp rfl
      have hdc : ∀ G, Vf rF G → Vi i s.F G ∧ (getI G i).depthComplete = some d := by
        intro G hG
        have h2 := hv.trans hG
        refine ⟨(modAt_dc_vi s.F i (some d)).trans (h2.toVi i), ?_⟩
        rw [(vw_fields (h2.2 i)).2.2.2.2.2, getI_modAt, if_pos ⟨rfl, hin⟩]
      simp only
      split
      · obtain ⟨a, b⟩ := hdc _ (removeDown_vf _ rF i)
        exact ⟨a, fun k hk => (List.mem_filter.1 hk).1, fun _ => b, fun h => (by cases h)⟩
      · split
        · obtain ⟨a, b⟩ := hdc _ (Vf.refl rF)
          exact ⟨a, fun k hk => hk, fun _ => b, fun h => (by cases h)⟩
        · obtain ⟨a, b⟩ := hdc _ (Vf.refl rF)
          exact ⟨a, fun k hk => hk, fun _ => b, fun h => (by cases h)⟩
  · have hrc' : refinementComplete O (getI s.F i) d = false := by simpa using hrc
    have hs : depthStep O P i s d = (s, none) := by
      unfold depthStep
      simp only [hrc', Bool.false_eq_true, if_false]
    rw [hs]
    exact ⟨Vi.refl i s.F, fun k hk => hk, fun h => (by rw [hrc'] at h; cases h), fun _ => rfl⟩

/-- invariant of the depth loop: the next depth is `from_depth`, or the interval is stuck below it -/
def Linv (O : Oracle α) (i : Nat) (s : St α) (d : Nat) : Prop :=
  fromD (getI s.F i) = d ∨
  (fromD (getI s.F i) ≤ d ∧ ∀ d', fromD (getI s.F i) ≤ d' → refinementComplete O (getI s.F i) d' = false)

theorem fromD_some {I : Ival α} {d : Nat} (h : I.depthComplete = some d) : fromD I = d + 1 := by
  unfold fromD; rw [h]

theorem depthStep_linv (O : Oracle α) (P : Params α) (hN : Nested O) (i : Nat) (s : St α) (d : Nat)
    (he : (depthStep O P i s d).2 = none) (hL : Linv O i s d) : Linv O i (depthStep O P i s d).1 (d + 1) := by
  obtain ⟨_, _, h3, h4⟩ := depthStep_ok O P i s d he
  by_cases hrc : refinementComplete O (getI s.F i) d = true
  · rcases hL with hA | ⟨hB1, hB2⟩
    · exact Or.inl (fromD_some (h3 hrc))
    · rw [hB2 d hB1] at hrc; cases hrc
  · have hrc' : refinementComplete O (getI s.F i) d = false := by simpa using hrc
    rw [h4 hrc']
    rcases hL with hA | ⟨hB1, hB2⟩
    · right
      rw [hA]
      exact ⟨by omega, fun d' hd' => rc_stuck O hN _ d hrc' d' hd'⟩
    · exact Or.inr ⟨by omega, hB2⟩

theorem loop_ok (O : Oracle α) (P : Params α) (hN : Nested O) (i : Nat) :
    ∀ (n d : Nat) (s : St α), (forEach (depthStep O P i) (List.range' d n) s).2 = none → Linv O i s d →
      Vi i s.F (forEach (depthStep O P i) (List.range' d n) s).1.F ∧
      (∀ k ∈ (forEach (depthStep O P i) (List.range' d n) s).1.ivals, k ∈ s.ivals) ∧
      Linv O i (forEach (depthStep O P i) (List.range' d n) s).1 (d + n)
  | 0, d, s, _, hL => by
    simp only [List.range'_zero, forEach]
    exact ⟨Vi.refl i s.F, fun k hk => hk, hL⟩
  | n + 1, d, s, he, hL => by
    simp only [List.range'_succ, forEach] at he ⊢
    rcases hds : depthStep O P i s d with ⟨s', _ | e⟩
    · rw [hds] at he
      simp only at he ⊢
      have hd2 : (depthStep O P i s d).2 = none := by rw [hds]
      have h1 := depthStep_ok O P i s d hd2
      have h2 := depthStep_linv O P hN i s d hd2 hL
      rw [hds] at h1 h2
      obtain ⟨a, b, c⟩ := loop_ok O P hN i n (d + 1) s' he h2
      refine ⟨h1.1.trans a, fun k hk => h1.2.1 k (b k hk), ?_⟩
      have : d + (n + 1) = d + 1 + n := by omega
      rw [this]; exact c
    · rw [hds] at he
      simp at he

theorem tellIval_eq (O : Oracle α) (P : Params α) (x : α) (s : St α) (i : Nat) :
    tellIval O P x s i =
      forEach (depthStep O P i)
        (List.range' (fromD (getI (modAt s.F i (fun I => { I with data := sadd x I.data })) i))
          ((getI (modAt s.F i (fun I => { I with data := sadd x I.data })) i).depth + 1 -
            fromD (getI (modAt s.F i (fun I => { I with data := sadd x I.data })) i)))
        { s with F := modAt s.F i (fun I => { I with data := sadd x I.data }) } := rfl

/-- the processing of interval `i` by `tell(x)`, when it raises nothing: afterwards `i` is quiescent -/
theorem tellIval_ok (O : Oracle α) (P : Params α) (hN : Nested O) (x : α) (s : St α) (i : Nat)
    (he : (tellIval O P x s i).2 = none) :
    Vi i (modAt s.F i (fun I => { I with data := sadd x I.data })) (tellIval O P x s i).1.F ∧
    (∀ k ∈ (tellIval O P x s i).1.ivals, k ∈ s.ivals) ∧ Quiet O (getI (tellIval O P x s i).1.F i) := by
  rw [tellIval_eq] at he ⊢
  obtain ⟨a, b, c⟩ := loop_ok O P hN i _ _ _ he (Or.inl rfl)
  refine ⟨a, b, ?_⟩
  obtain ⟨_, _, hdp, _, _⟩ := vw0_fields (a.2.1 i)
  simp only at hdp
  intro d h1 h2
  rcases c with c | ⟨_, c⟩
  · rw [hdp] at h2
    omega
  · exact c d h1

theorem modAt_eq_self {β : Type} (f : β → β) : ∀ (F : List β) (i : Nat), (∀ I, F[i]? = some I → f I = I) →
    modAt F i f = F
  | [], _, _ => rfl
  | y :: r, 0, h => by simp only [modAt]; rw [h y rfl]
  | y :: r, i + 1, h => by
    simp only [modAt]
    rw [modAt_eq_self f r i (fun I hI => h I (by simpa using hI))]

theorem getI_of_getElem? (F : Forest α) (i : Nat) (I : Ival α) (h : F[i]? = some I) : getI F i = I := by
  simp only [getI, List.getD_eq_getElem?_getD, h, Option.getD_some]

theorem forEach_const {σ β : Type} (f : σ → β → σ × Option Err) (s : σ) :
    ∀ (l : List β), (∀ x ∈ l, f s x = (s, none)) → forEach f l s = (s, none)
  | [], _ => rfl
  | x :: r, h => by
    unfold forEach
    rw [h x List.mem_cons_self]
    exact forEach_const f s r (fun y hy => h y (List.mem_cons_of_mem _ hy))

/-- a quiescent interval that already holds `x` is not touched by `tell(x)` -/
theorem tellIval_noop (O : Oracle α) (P : Params α) (x : α) (s : St α) (i : Nat)
    (hx : x ∈ (getI s.F i).data) (hq : Quiet O (getI s.F i)) : tellIval O P x s i = (s, none) := by
  have hF : modAt s.F i (fun I => { I with data := sadd x I.data }) = s.F := by
    apply modAt_eq_self
    intro I hI
    have := getI_of_getElem? s.F i I hI
    rw [this] at hx
    rw [sadd_of_mem hx]
  rw [tellIval_eq, hF]
  apply forEach_const
  intro d hd
  rw [List.mem_range'_1] at hd
  have hrc := hq d hd.1 (by omega)
  unfold depthStep
  simp only [hrc, Bool.false_eq_true, if_false]

/-! ### `x_mapping` -/

theorem mem_insByRdepth (F : Forest α) (i : Nat) : ∀ (l : List Nat) (k : Nat), k ∈ insByRdepth F i l ↔ k = i ∨ k ∈ l
  | [], k => by simp [insByRdepth]
  | j :: r, k => by
    simp only [insByRdepth]
    split
    · simp only [List.mem_cons]
    · simp only [List.mem_cons, mem_insByRdepth F i r k]
      tauto

theorem xmapGet_cons (e : α × List Nat) (m : List (α × List Nat)) (y : α) :
    xmapGet (e :: m) y = if e.1 = y then some e.2 else xmapGet m y := by
  unfold xmapGet
  rw [List.find?_cons]
  by_cases h : e.1 = y
  · simp [h]
  · simp [h]

theorem xmapGet_xmapAdd_ne (F : Forest α) (x : α) (i : Nat) {y : α} (hy : y ≠ x) :
    ∀ (m : List (α × List Nat)), xmapGet (xmapAdd F x i m) y = xmapGet m y
  | [] => by
    simp only [xmapAdd, xmapGet_cons]
    rw [if_neg (fun h => hy h.symm)]
  | (z, l) :: r => by
    simp only [xmapAdd]
    split
    · rename_i hz
      rw [xmapGet_cons, xmapGet_cons]
      have hzy : ¬ z = y := fun h => hy (by rw [← h, hz])
      simp only [hzy, if_false]
    · rw [xmapGet_cons, xmapGet_cons, xmapGet_xmapAdd_ne F x i hy r]

theorem xmapGet_xmapAdd_self (F : Forest α) (x : α) (i : Nat) :
    ∀ (m : List (α × List Nat)) (ids' : List Nat), xmapGet (xmapAdd F x i m) x = some ids' →
      ∀ k ∈ ids', k = i ∨ ∃ ids, xmapGet m x = some ids ∧ k ∈ ids
  | [], ids', h => by
    simp only [xmapAdd, xmapGet_cons, if_true, Option.some.injEq] at h
    intro k hk
    rw [← h] at hk
    exact Or.inl (List.mem_singleton.1 hk)
  | (z, l) :: r, ids', h => by
    simp only [xmapAdd] at h
    split at h
    · rename_i hz
      rw [xmapGet_cons] at h
      simp only [hz, if_true, Option.some.injEq] at h
      intro k hk
      rw [← h] at hk
      have hget : xmapGet ((z, l) :: r) x = some l := by rw [xmapGet_cons]; simp [hz]
      split at hk
      · exact Or.inr ⟨l, hget, hk⟩
      · rcases (mem_insByRdepth F i l k).1 hk with h1 | h1
        · exact Or.inl h1
        · exact Or.inr ⟨l, hget, h1⟩
    · rename_i hz
      rw [xmapGet_cons] at h
      simp only [hz, if_false] at h
      intro k hk
      rcases xmapGet_xmapAdd_self F x i r ids' h k hk with h1 | ⟨ids, h1, h2⟩
      · exact Or.inl h1
      · exact Or.inr ⟨ids, by rw [xmapGet_cons]; simp only [hz, if_false]; exact h1, h2⟩

theorem xmapGet_xmapAdd_isSome (F : Forest α) (x : α) (i : Nat) :
    ∀ (m : List (α × List Nat)), (xmapGet (xmapAdd F x i m) x).isSome = true
  | [] => by simp only [xmapAdd, xmapGet_cons, if_true]; rfl
  | (z, l) :: r => by
    simp only [xmapAdd]
    split
    · rename_i hz; rw [xmapGet_cons]; simp only [hz, if_true]; rfl
    · rename_i hz; rw [xmapGet_cons]; simp only [hz, if_false]; exact xmapGet_xmapAdd_isSome F x i r

/-! ### the invariant -/

/-- a finer rule has an abscissa the coarser one lacks (true of the Clenshaw–Curtis rules with 5, 9, 17, 33 nodes) -/
def Fresh (O : Oracle α) : Prop := ∀ a b d, d < 3 → ∃ p ∈ O.pts a b (d + 1), p ∉ O.pts a b d

/-- invariant behind the re-tell theorem; `E` = abscissae exempt from the first clause (inside `add_ival`) -/
structure RInv (O : Oracle α) (E : α → Prop) (s : St α) : Prop where
  /-- every interval that lists an evaluated abscissa holds its value -/
  held : ∀ y ∈ s.data, ¬ E y → ∀ ids, xmapGet s.xmap y = some ids → ∀ i ∈ ids, y ∈ (getI s.F i).data
  /-- no interval has an unprocessed complete rule -/
  quiet : ∀ j, Quiet O (getI s.F j)
  /-- an interval only holds values at abscissae of its current rule -/
  inpts : ∀ j, ∀ y ∈ (getI s.F j).data, y ∈ O.pts (getI s.F j).a (getI s.F j).b (getI s.F j).depth
  /-- `x_mapping[y]` lists existing intervals, and `y` is an abscissa of their current rule -/
  mapped : ∀ y ids, xmapGet s.xmap y = some ids → ∀ i ∈ ids,
    i < s.F.length ∧ y ∈ O.pts (getI s.F i).a (getI s.F i).b (getI s.F i).depth
  depth3 : ∀ j, (getI s.F j).depth ≤ 3
  live : ∀ i ∈ s.ivals, i < s.F.length
  /-- every evaluated abscissa is a key of `x_mapping` -/
  keyed : ∀ y ∈ s.data, (xmapGet s.xmap y).isSome = true

/-- the intervals' end points and depths are unchanged -/
def Str (F F' : Forest α) : Prop :=
  F'.length = F.length ∧ ∀ j, (getI F' j).a = (getI F j).a ∧ (getI F' j).b = (getI F j).b ∧
    (getI F' j).depth = (getI F j).depth

theorem Str.refl (F : Forest α) : Str F F := ⟨rfl, fun _ => ⟨rfl, rfl, rfl⟩⟩
theorem Str.trans {F G H : Forest α} (h1 : Str F G) (h2 : Str G H) : Str F H :=
  ⟨h2.1.trans h1.1, fun j => ⟨(h2.2 j).1.trans (h1.2 j).1, (h2.2 j).2.1.trans (h1.2 j).2.1,
    (h2.2 j).2.2.trans (h1.2 j).2.2⟩⟩

/-! ### `tell` -/

/-- what the loop over `x_mapping[x]` does to the forest (of what `tell` reads) -/
structure TellRel (O : Oracle α) (x : α) (ids : List Nat) (F F' : Forest α) : Prop where
  str : Str F F'
  other : ∀ j, j ∉ ids → vw (getI F' j) = vw (getI F j)
  grow : ∀ j, ∀ y ∈ (getI F j).data, y ∈ (getI F' j).data
  only : ∀ j, ∀ y ∈ (getI F' j).data, y ∈ (getI F j).data ∨ (y = x ∧ j ∈ ids)
  got : ∀ j ∈ ids, x ∈ (getI F' j).data ∧ Quiet O (getI F' j)

theorem TellRel.nil (O : Oracle α) (x : α) (F : Forest α) : TellRel O x [] F F :=
  ⟨Str.refl F, fun _ _ => rfl, fun _ _ h => h, fun _ _ h => Or.inl h, fun _ h => absurd h List.not_mem_nil⟩

theorem TellRel.cons {O : Oracle α} {x : α} {i : Nat} {rest : List Nat} {F G H : Forest α}
    (h1 : TellRel O x [i] F G) (h2 : TellRel O x rest G H) : TellRel O x (i :: rest) F H := by
  refine ⟨h1.str.trans h2.str, ?_, ?_, ?_, ?_⟩
  · intro j hj
    rw [List.mem_cons, not_or] at hj
    rw [h2.other j hj.2, h1.other j (by simpa using hj.1)]
  · intro j y hy; exact h2.grow j y (h1.grow j y hy)
  · intro j y hy
    rcases h2.only j y hy with h | ⟨h, h'⟩
    · rcases h1.only j y h with h3 | ⟨h3, h4⟩
      · exact Or.inl h3
      · exact Or.inr ⟨h3, by rw [List.mem_singleton] at h4; rw [h4]; exact List.mem_cons_self⟩
    · exact Or.inr ⟨h, List.mem_cons_of_mem _ h'⟩
  · intro j hj
    by_cases hr : j ∈ rest
    · exact h2.got j hr
    · have hji : j = i := by
        rcases List.mem_cons.1 hj with h | h
        · exact h
        · exact absurd h hr
      have hv := h2.other j hr
      obtain ⟨a, b⟩ := h1.got j (by rw [hji]; exact List.mem_singleton.2 rfl)
      refine ⟨?_, quiet_congr O hv b⟩
      rw [(vw_fields hv).2.2.2.1]; exact a

/-- one interval of the loop -/
theorem tellIval_rel (O : Oracle α) (P : Params α) (hN : Nested O) (x : α) (s : St α) (i : Nat)
    (hi : i < s.F.length) (he : (tellIval O P x s i).2 = none) :
    TellRel O x [i] s.F (tellIval O P x s i).1.F := by
  obtain ⟨hv, _, hq⟩ := tellIval_ok O P hN x s i he
  have hmod : ∀ j, getI (modAt s.F i (fun I => { I with data := sadd x I.data })) j =
      if j = i then { getI s.F i with data := sadd x (getI s.F i).data } else getI s.F j := by
    intro j
    rw [getI_modAt]
    by_cases hj : j = i
    · rw [if_pos ⟨hj, hi⟩, if_pos hj]
    · rw [if_neg (fun h => hj h.1), if_neg hj]
  have hfield : ∀ j, (getI (tellIval O P x s i).1.F j).a = (getI s.F j).a ∧
      (getI (tellIval O P x s i).1.F j).b = (getI s.F j).b ∧
      (getI (tellIval O P x s i).1.F j).depth = (getI s.F j).depth ∧
      (getI (tellIval O P x s i).1.F j).parent = (getI s.F j).parent ∧
      (getI (tellIval O P x s i).1.F j).data = (if j = i then sadd x (getI s.F i).data else (getI s.F j).data) := by
    intro j
    obtain ⟨a, b, c, d, e⟩ := vw0_fields (hv.2.1 j)
    rw [hmod j] at a b c d e
    by_cases hj : j = i
    · simp only [hj, if_true] at a b c d e ⊢
      exact ⟨a, b, c, e, d⟩
    · simp only [hj, if_false] at a b c d e ⊢
      exact ⟨a, b, c, e, d⟩
  refine ⟨⟨hv.1.trans (modAt_length _ _ _), fun j => ⟨(hfield j).1, (hfield j).2.1, (hfield j).2.2.1⟩⟩, ?_, ?_, ?_, ?_⟩
  · intro j hj
    have hji : j ≠ i := by simpa using hj
    have h1 := hv.vw_other hji
    rw [h1, hmod j, if_neg hji]
  · intro j y hy
    rw [(hfield j).2.2.2.2]
    split
    · rename_i hj; rw [hj] at hy; exact (mem_sadd x y _).2 (Or.inr hy)
    · exact hy
  · intro j y hy
    rw [(hfield j).2.2.2.2] at hy
    split at hy
    · rename_i hj
      rcases (mem_sadd x y _).1 hy with h | h
      · exact Or.inr ⟨h, by rw [hj]; exact List.mem_singleton.2 rfl⟩
      · exact Or.inl (by rw [hj]; exact h)
    · exact Or.inl hy
  · intro j hj
    rw [List.mem_singleton] at hj
    subst hj
    refine ⟨?_, hq⟩
    rw [(hfield j).2.2.2.2, if_pos rfl]
    exact (mem_sadd x x _).2 (Or.inl rfl)

theorem tellLoop_rel (O : Oracle α) (P : Params α) (hN : Nested O) (x : α) :
    ∀ (ids : List Nat) (s : St α), (∀ i ∈ ids, i < s.F.length) →
      (forEach (tellIval O P x) ids s).2 = none →
      TellRel O x ids s.F (forEach (tellIval O P x) ids s).1.F ∧
      (∀ k ∈ (forEach (tellIval O P x) ids s).1.ivals, k ∈ s.ivals)
  | [], s, _, _ => by simp only [forEach]; exact ⟨TellRel.nil O x s.F, fun k hk => hk⟩
  | i :: rest, s, hin, he => by
    simp only [forEach] at he ⊢
    rcases hti : tellIval O P x s i with ⟨s1, _ | e⟩
    · rw [hti] at he
      simp only at he ⊢
      have he1 : (tellIval O P x s i).2 = none := by rw [hti]
      have h1 := tellIval_rel O P hN x s i (hin i List.mem_cons_self) he1
      have hiv := (tellIval_ok O P hN x s i he1).2.1
      rw [hti] at h1 hiv
      have hlen : s1.F.length = s.F.length := h1.str.1
      obtain ⟨h2, h3⟩ := tellLoop_rel O P hN x rest s1
        (fun k hk => by rw [hlen]; exact hin k (List.mem_cons_of_mem _ hk)) he
      exact ⟨h1.cons h2, fun k hk => hiv k (h3 k hk)⟩
    · rw [hti] at he
      simp at he

/-- `tell(x)`, when it raises nothing, re-establishes the invariant — also for `x` itself -/
theorem tell_rinv (O : Oracle α) (P : Params α) (hN : Nested O) (s : St α) (x : α)
    (hI : RInv O (fun y => y = x) s) (he : (tell O P s x).2 = none) :
    RInv O (fun _ => False) (tell O P s x).1 ∧ Str s.F (tell O P s x).1.F := by
  have hview := tell_view O P s x
  unfold tell at he hview ⊢
  cases hg : xmapGet s.xmap x with
  | none => rw [hg] at he; simp at he
  | some ids =>
    rw [hg] at he hview
    simp only at he hview ⊢
    simp only [Option.isSome_some, if_true] at hview
    obtain ⟨hrel, hiv⟩ := tellLoop_rel O P hN x ids
      { s with data := sadd x s.data, pending := s.pending.filter (fun y => y ≠ x) }
      (fun i hi => (hI.mapped x ids hg i hi).1) he
    generalize (forEach (tellIval O P x) ids
      { s with data := sadd x s.data, pending := s.pending.filter (fun y => y ≠ x) }).1 = s' at hrel hiv hview
    simp only at hrel hiv
    simp only [bView, Prod.mk.injEq] at hview
    obtain ⟨_, _, hdata, _, _, _, hxmap⟩ := hview
    have hstr := hrel.str
    refine ⟨⟨?_, ?_, ?_, ?_, ?_, ?_, ?_⟩, hstr⟩
    · intro y hy _ ids' hg' i hi
      rw [hxmap] at hg'
      rw [hdata] at hy
      by_cases hyx : y = x
      · subst hyx
        rw [hg] at hg'
        simp only [Option.some.injEq] at hg'
        subst hg'
        exact (hrel.got i hi).1
      · rcases (mem_sadd x y s.data).1 hy with h | h
        · exact absurd h hyx
        · exact hrel.grow i y (hI.held y h hyx ids' hg' i hi)
    · intro j
      by_cases hj : j ∈ ids
      · exact (hrel.got j hj).2
      · exact quiet_congr O (hrel.other j hj) (hI.quiet j)
    · intro j y hy
      rw [(hstr.2 j).1, (hstr.2 j).2.1, (hstr.2 j).2.2]
      rcases hrel.only j y hy with h | ⟨h, h'⟩
      · exact hI.inpts j y h
      · rw [h]; exact (hI.mapped x ids hg j h').2
    · intro y ids' hg' i hi
      rw [hxmap] at hg'
      rw [hstr.1, (hstr.2 i).1, (hstr.2 i).2.1, (hstr.2 i).2.2]
      exact hI.mapped y ids' hg' i hi
    · intro j; rw [(hstr.2 j).2.2]; exact hI.depth3 j
    · intro i hi; rw [hstr.1]; exact hI.live i (hiv i hi)
    · intro y hy
      rw [hxmap]
      rw [hdata] at hy
      rcases (mem_sadd x y s.data).1 hy with h | h
      · rw [h, hg]; rfl
      · exact hI.keyed y h

/-! ### `add_ival` -/

theorem RInv.of_frame {O : Oracle α} {E : α → Prop} {s s' : St α} (h : RInv O E s) (hF : s'.F = s.F)
    (hd : s'.data = s.data) (hx : s'.xmap = s.xmap) (hi : ∀ k ∈ s'.ivals, k ∈ s.ivals) : RInv O E s' := by
  refine ⟨?_, ?_, ?_, ?_, ?_, ?_, ?_⟩
  · rw [hF, hd, hx]; exact h.held
  · rw [hF]; exact h.quiet
  · rw [hF]; exact h.inpts
  · rw [hF, hx]; exact h.mapped
  · rw [hF]; exact h.depth3
  · intro k hk; rw [hF]; exact h.live k (hi k hk)
  · rw [hd, hx]; exact h.keyed

theorem RInv.weaken {O : Oracle α} {E : α → Prop} {s : St α} (h : RInv O (fun _ => False) s) : RInv O E s :=
  ⟨fun y hy _ => h.held y hy (fun f => f), h.quiet, h.inpts, h.mapped, h.depth3, h.live, h.keyed⟩

/-- `add_ival`'s step for one abscissa `x` of interval `i`'s rule -/
theorem addPoint_rinv (O : Oracle α) (P : Params α) (hN : Nested O) (i : Nat) (s : St α) (x : α)
    (hI : RInv O (fun _ => False) s) (hi : i < s.F.length)
    (hx : x ∈ O.pts (getI s.F i).a (getI s.F i).b (getI s.F i).depth)
    (he : (addPoint O P i s x).2 = none) :
    RInv O (fun _ => False) (addPoint O P i s x).1 ∧ Str s.F (addPoint O P i s x).1.F := by
  have h1 : RInv O (fun y => y = x) { s with xmap := xmapAdd s.F x i s.xmap } := by
    refine ⟨?_, hI.quiet, hI.inpts, ?_, hI.depth3, hI.live, ?_⟩
    · intro y hy hyx ids hg k hk
      have hg' : xmapGet s.xmap y = some ids := by
        rw [← xmapGet_xmapAdd_ne s.F x i hyx s.xmap]; exact hg
      exact hI.held y hy (fun f => f) ids hg' k hk
    rotate_left
    · intro y hy
      by_cases hyx : y = x
      · rw [hyx]; exact xmapGet_xmapAdd_isSome s.F x i s.xmap
      · show (xmapGet (xmapAdd s.F x i s.xmap) y).isSome = true
        rw [xmapGet_xmapAdd_ne s.F x i hyx s.xmap]; exact hI.keyed y hy
    · intro y ids hg k hk
      by_cases hyx : y = x
      · subst hyx
        rcases xmapGet_xmapAdd_self s.F y i s.xmap ids hg k hk with h | ⟨ids0, h, h'⟩
        · rw [h]; exact ⟨hi, hx⟩
        · exact hI.mapped y ids0 h k h'
      · have hg' : xmapGet s.xmap y = some ids := by
          rw [← xmapGet_xmapAdd_ne s.F x i hyx s.xmap]; exact hg
        exact hI.mapped y ids hg' k hk
  unfold addPoint at he ⊢
  simp only at he ⊢
  split
  · rename_i hd
    rw [if_pos hd] at he
    exact tell_rinv O P hN _ x h1 he
  · rename_i hd
    have hd' : x ∉ s.data := hd
    have h2 : RInv O (fun _ => False) { s with xmap := xmapAdd s.F x i s.xmap } :=
      ⟨fun y hy _ => h1.held y hy (fun e => hd' (e ▸ hy)), h1.quiet, h1.inpts, h1.mapped, h1.depth3, h1.live, h1.keyed⟩
    split
    · exact ⟨h2.of_frame rfl rfl rfl (fun k hk => hk), Str.refl _⟩
    · exact ⟨h2, Str.refl _⟩

theorem forEach_ok {σ β : Type} (Q : σ → Prop) (f : σ → β → σ × Option Err) (l : List β)
    (hf : ∀ s x, x ∈ l → Q s → (f s x).2 = none → Q (f s x).1) :
    ∀ (l' : List β), (∀ x ∈ l', x ∈ l) → ∀ s, Q s → (forEach f l' s).2 = none → Q (forEach f l' s).1
  | [], _, s, h, _ => h
  | x :: r, hsub, s, h, he => by
    unfold forEach at he ⊢
    rcases hfx : f s x with ⟨s', _ | e⟩
    · rw [hfx] at he
      simp only at he ⊢
      have h1 := hf s x (hsub x List.mem_cons_self) h (by rw [hfx])
      rw [hfx] at h1
      exact forEach_ok Q f l hf r (fun y hy => hsub y (List.mem_cons_of_mem _ hy)) s' h1 he
    · rw [hfx] at he
      simp at he

theorem addIval_rinv (O : Oracle α) (P : Params α) (hN : Nested O) (s : St α) (i : Nat)
    (hI : RInv O (fun _ => False) s) (hi : i < s.F.length) (he : (addIval O P s i).2 = none) :
    RInv O (fun _ => False) (addIval O P s i).1 ∧ Str s.F (addIval O P s i).1.F := by
  have key := forEach_ok (fun (t : St α) => RInv O (fun _ => False) t ∧ Str s.F t.F) (addPoint O P i)
    (O.pts (getI s.F i).a (getI s.F i).b (getI s.F i).depth)
    (by
      intro t x hx ht hte
      have hi' : i < t.F.length := by rw [ht.2.1]; exact hi
      have hx' : x ∈ O.pts (getI t.F i).a (getI t.F i).b (getI t.F i).depth := by
        rw [(ht.2.2 i).1, (ht.2.2 i).2.1, (ht.2.2 i).2.2]; exact hx
      obtain ⟨a, b⟩ := addPoint_rinv O P hN i t x ht.1 hi' hx' hte
      exact ⟨a, ht.2.trans b⟩)
    _ (fun x hx => hx) s ⟨hI, Str.refl _⟩
  unfold addIval at he ⊢
  simp only at he ⊢
  rcases hfe : forEach (addPoint O P i) (O.pts (getI s.F i).a (getI s.F i).b (getI s.F i).depth) s with ⟨s', _ | e⟩
  · rw [hfe] at key
    simp only at key ⊢
    obtain ⟨a, b⟩ := key trivial
    refine ⟨⟨a.held, a.quiet, a.inpts, a.mapped, a.depth3, ?_, a.keyed⟩, b⟩
    intro k hk
    rcases (mem_sadd i k s'.ivals).1 hk with h | h
    · rw [h, b.1]; exact hi
    · exact a.live k h
  · rw [hfe] at he
    simp at he

/-! ### `_fill_stack` -/

/-- what `split` does to what `tell` reads: old intervals unchanged, everything from the old length on is empty at
depth 0 -/
theorem splitF_vw (F : Forest α) (i : Nat) (m : α) :
    (∀ j, j < F.length → vw (getI (splitF F i m) j) = vw (getI F j)) ∧
    (∀ j, F.length ≤ j → (getI (splitF F i m) j).data = [] ∧ (getI (splitF F i m) j).depth = 0) := by
  constructor
  · intro j hj
    rw [getI_splitF, if_pos hj]
    split
    · rename_i h; rw [h]; rfl
    · rfl
  · intro j hj
    rw [getI_splitF, if_neg (by omega)]
    split
    · exact ⟨rfl, rfl⟩
    · split
      · exact ⟨rfl, rfl⟩
      · exact ⟨rfl, rfl⟩

/-- `ival.split()` keeps the invariant: the children are empty intervals that no abscissa is mapped to yet -/
theorem split_rinv (O : Oracle α) (s : St α) (i : Nat) (pts : List α) (hI : RInv O (fun _ => False) s) :
    RInv O (fun _ => False) (split s i pts).1 := by
  obtain ⟨hlt, hge⟩ := splitF_vw s.F i (pts.getD (pts.length / 2) 0)
  have hlen := splitF_length s.F i (pts.getD (pts.length / 2) 0)
  rw [← split_F s i pts] at hlt hge hlen
  have hxm : (split s i pts).1.xmap = s.xmap := rfl
  have hdt : (split s i pts).1.data = s.data := rfl
  have hiv : (split s i pts).1.ivals = s.ivals := rfl
  generalize (split s i pts).1 = s' at hlt hge hlen hxm hdt hiv
  refine ⟨?_, ?_, ?_, ?_, ?_, ?_, by rw [hdt, hxm]; exact hI.keyed⟩
  · intro y hy _ ids hg k hk
    rw [hxm] at hg
    rw [hdt] at hy
    have hk' := (hI.mapped y ids hg k hk).1
    rw [(vw_fields (hlt k hk')).2.2.2.1]
    exact hI.held y hy (fun f => f) ids hg k hk
  · intro j
    by_cases hj : j < s.F.length
    · exact quiet_congr O (hlt j hj) (hI.quiet j)
    · exact quiet_nil O _ (hge j (by omega)).1
  · intro j y hy
    by_cases hj : j < s.F.length
    · obtain ⟨a, b, c, d, _⟩ := vw_fields (hlt j hj)
      rw [a, b, c]; rw [d] at hy
      exact hI.inpts j y hy
    · rw [(hge j (by omega)).1] at hy
      exact absurd hy List.not_mem_nil
  · intro y ids hg k hk
    rw [hxm] at hg
    obtain ⟨h1, h2⟩ := hI.mapped y ids hg k hk
    obtain ⟨a, b, c, _⟩ := vw_fields (hlt k h1)
    rw [a, b, c, hlen]
    exact ⟨by omega, h2⟩
  · intro j
    by_cases hj : j < s.F.length
    · rw [(vw_fields (hlt j hj)).2.2.1]; exact hI.depth3 j
    · rw [(hge j (by omega)).2]; omega
  · intro k hk
    rw [hiv] at hk
    rw [hlen]
    have := hI.live k hk
    omega

/-- `ival.refine()` (one more depth) keeps the invariant: the finer rule has an abscissa the interval cannot hold yet -/
theorem bump_rinv (O : Oracle α) (hN : Nested O) (hF : Fresh O) (s : St α) (i : Nat)
    (hI : RInv O (fun _ => False) s) (hd : (getI s.F i).depth ≠ 3) :
    RInv O (fun _ => False) { s with F := modAt s.F i (fun I => { I with depth := I.depth + 1 }) } := by
  have hget : ∀ j, getI (modAt s.F i (fun I => { I with depth := I.depth + 1 })) j =
      if j = i ∧ i < s.F.length then { getI s.F i with depth := (getI s.F i).depth + 1 } else getI s.F j :=
    fun j => getI_modAt s.F i j _
  have hd3 : (getI s.F i).depth < 3 := by have := hI.depth3 i; omega
  refine ⟨?_, ?_, ?_, ?_, ?_, ?_, hI.keyed⟩
  · intro y hy _ ids hg k hk
    show y ∈ (getI (modAt s.F i (fun I => { I with depth := I.depth + 1 })) k).data
    rw [hget k]
    split
    · rename_i h
      exact hI.held y hy (fun f => f) ids hg i (h.1 ▸ hk)
    · exact hI.held y hy (fun f => f) ids hg k hk
  · intro j
    show Quiet O (getI (modAt s.F i (fun I => { I with depth := I.depth + 1 })) j)
    rw [hget j]
    split
    · intro d h1 h2
      have hq := hI.quiet i
      by_cases hle : d ≤ (getI s.F i).depth
      · have := hq d h1 hle
        rw [← this]
        exact rc_congr O rfl rfl rfl d
      · have hdd : d = (getI s.F i).depth + 1 := by
          have : d ≤ (getI s.F i).depth + 1 := h2
          omega
        obtain ⟨p, hp1, hp2⟩ := hF (getI s.F i).a (getI s.F i).b (getI s.F i).depth hd3
        cases hrc : refinementComplete O { getI s.F i with depth := (getI s.F i).depth + 1 } d with
        | false => rfl
        | true =>
          exfalso
          unfold refinementComplete at hrc
          split at hrc
          · cases hrc
          · rw [List.all_eq_true] at hrc
            have := hrc p (by rw [hdd]; exact hp1)
            simp only [decide_eq_true_eq] at this
            exact hp2 (hI.inpts i p this)
    · exact hI.quiet j
  · intro j y hy
    have hy' : y ∈ (getI (modAt s.F i (fun I => { I with depth := I.depth + 1 })) j).data := hy
    show y ∈ O.pts (getI (modAt s.F i (fun I => { I with depth := I.depth + 1 })) j).a
      (getI (modAt s.F i (fun I => { I with depth := I.depth + 1 })) j).b
      (getI (modAt s.F i (fun I => { I with depth := I.depth + 1 })) j).depth
    rw [hget j] at hy' ⊢
    split
    · rename_i h
      rw [if_pos h] at hy'
      exact hN _ _ _ y (hI.inpts i y hy')
    · rename_i h
      rw [if_neg h] at hy'
      exact hI.inpts j y hy'
  · intro y ids hg k hk
    obtain ⟨h1, h2⟩ := hI.mapped y ids hg k hk
    show k < (modAt s.F i (fun I => { I with depth := I.depth + 1 })).length ∧
      y ∈ O.pts (getI (modAt s.F i (fun I => { I with depth := I.depth + 1 })) k).a
        (getI (modAt s.F i (fun I => { I with depth := I.depth + 1 })) k).b
        (getI (modAt s.F i (fun I => { I with depth := I.depth + 1 })) k).depth
    rw [modAt_length, hget k]
    refine ⟨h1, ?_⟩
    split
    · rename_i h; rw [h.1] at h2; exact hN _ _ _ y h2
    · exact h2
  · intro j
    show (getI (modAt s.F i (fun I => { I with depth := I.depth + 1 })) j).depth ≤ 3
    rw [hget j]
    split
    · show (getI s.F i).depth + 1 ≤ 3; omega
    · exact hI.depth3 j
  · intro k hk
    show k < (modAt s.F i (fun I => { I with depth := I.depth + 1 })).length
    rw [modAt_length]; exact hI.live k hk

theorem fsR_rinv (O : Oracle α) (P : Params α) (hN : Nested O) (hF : Fresh O) (s : St α) (i : Nat) (force : Bool)
    (hI : RInv O (fun _ => False) s) (hi : i ∈ s.ivals) (he : (fsR O P s i force).2 = none) :
    RInv O (fun _ => False) (fsR O P s i force).1 := by
  have hrem : removeIval s i = ({ s with ivals := s.ivals.filter (fun j => j ≠ i) }, none) := by
    simp only [removeIval, hi, if_true]
  have hI2 : RInv O (fun _ => False) { s with ivals := s.ivals.filter (fun j => j ≠ i) } :=
    hI.of_frame rfl rfl rfl (fun k hk => (List.mem_filter.1 hk).1)
  unfold fsR at he ⊢
  simp only at he ⊢
  split
  · rw [hrem]; exact hI2
  · rename_i hnarrow
    rw [if_neg hnarrow] at he
    split
    · rename_i hsplit
      rw [if_pos hsplit, hrem] at he
      rw [hrem]
      simp only at he ⊢
      have b1 := split_rinv O { s with ivals := s.ivals.filter (fun j => j ≠ i) } i
        (O.pts (getI s.F i).a (getI s.F i).b (getI s.F i).depth) hI2
      have hlen : (split ({ s with ivals := s.ivals.filter (fun j => j ≠ i) } : St α) i
        (O.pts (getI s.F i).a (getI s.F i).b (getI s.F i).depth)).1.F.length = s.F.length + 2 := by
        rw [split_F]; exact splitF_length _ _ _
      have hl : (split ({ s with ivals := s.ivals.filter (fun j => j ≠ i) } : St α) i
        (O.pts (getI s.F i).a (getI s.F i).b (getI s.F i).depth)).2.1 = s.F.length := rfl
      have hr : (split ({ s with ivals := s.ivals.filter (fun j => j ≠ i) } : St α) i
        (O.pts (getI s.F i).a (getI s.F i).b (getI s.F i).depth)).2.2 = s.F.length + 1 := rfl
      rcases hsp : split ({ s with ivals := s.ivals.filter (fun j => j ≠ i) } : St α) i
        (O.pts (getI s.F i).a (getI s.F i).b (getI s.F i).depth) with ⟨s3, l, r⟩
      rw [hsp] at b1 hlen hl hr he
      simp only at b1 hlen hl hr he ⊢
      rcases had : addIval O P s3 l with ⟨s4, _ | e⟩
      · rw [had] at he
        simp only at he ⊢
        have c := addIval_rinv O P hN s3 l b1 (by omega) (by rw [had])
        rw [had] at c
        exact (addIval_rinv O P hN s4 r c.1 (by rw [c.2.1]; omega) he).1
      · rw [had] at he
        simp at he
    · rename_i hsplit
      rw [if_neg hsplit] at he
      have hd : (getI s.F i).depth ≠ 3 := by
        intro h; apply hsplit; simp [h]
      have hb := bump_rinv O hN hF s i hI hd
      exact (addIval_rinv O P hN _ i hb (by
        show i < (modAt s.F i (fun I => { I with depth := I.depth + 1 })).length
        rw [modAt_length]; exact hI.live i hi) he).1

theorem fsFin_rinv (O : Oracle α) (P : Params α) (r : St α × Option Err)
    (h : r.2 = none → RInv O (fun _ => False) r.1) (he : (fsFin P r).2 = none) :
    RInv O (fun _ => False) (fsFin P r).1 := by
  rcases r with ⟨s, _ | e⟩
  · simp only [fsFin] at he ⊢
    have hs := h rfl
    split
    · rename_i h1
      rw [if_pos h1] at he
      split
      · exact hs.of_frame rfl rfl rfl (fun k hk => (List.mem_filter.1 hk).1)
      · rename_i h2
        rw [h2] at he
        simp at he
    · exact hs
  · simp [fsFin] at he

theorem fillStack_rinv (O : Oracle α) (P : Params α) (hN : Nested O) (hF : Fresh O) (s : St α)
    (hI : RInv O (fun _ => False) s) (he : (fillStack O P s).2 = none) :
    RInv O (fun _ => False) (fillStack O P s).1 := by
  rw [fillStack_eq] at he ⊢
  have hpick : ∀ i pr, fsPick { s with prio := dropDead s.ivals s.prio } = (some i, pr) → i ∈ s.ivals := by
    intro i pr h
    simp only [fsPick] at h
    split at h
    · simp only [Prod.mk.injEq] at h
      exact dropDead_last _ _ _ h.1
    · simp only [Prod.mk.injEq] at h
      exact argmax_mem _ _ _ h.1
  split
  · rename_i heq
    rw [heq] at he
    simp at he
  · rename_i i pr heq
    rw [heq] at he
    simp only at he ⊢
    have hI' : RInv O (fun _ => False) { s with prio := pr } := hI.of_frame rfl rfl rfl (fun k hk => hk)
    unfold fsBody at he ⊢
    split
    · rename_i hc
      rw [if_pos hc] at he
      simp at he
    · rename_i hc
      rw [if_neg hc] at he
      exact fsFin_rinv O P _ (fun h => fsR_rinv O P hN hF _ i _ hI' (hpick i pr heq) h) he

theorem askLoop_rinv (O : Oracle α) (P : Params α) (hN : Nested O) (hF : Fresh O) :
    ∀ (fuel : Nat) (s : St α) (nLeft : Nat) (pts imps : List α), RInv O (fun _ => False) s →
      (askLoop O P fuel s nLeft pts imps).2.1 = none → RInv O (fun _ => False) (askLoop O P fuel s nLeft pts imps).1
  | 0, s, nLeft, pts, imps, hI, _ => by simp only [askLoop]; exact hI
  | fuel + 1, s, nLeft, pts, imps, hI, he => by
    simp only [askLoop] at he ⊢
    split
    · exact hI
    · rename_i hn
      rw [if_neg hn] at he
      have key := fillStack_rinv O P hN hF s hI
      split
      · rename_i heq; rw [heq] at he; simp at he
      · rename_i heq; rw [heq] at he; simp at he
      · rename_i s' e h1 h2 heq
        rw [heq] at he
        simp at he
      · rename_i heq
        rw [heq] at he key
        simp only [popFromStack] at he ⊢
        exact askLoop_rinv O P hN hF fuel _ _ _ _ ((key rfl).of_frame rfl rfl rfl (fun k hk => hk)) he

theorem askCommit_rinv (O : Oracle α) (P : Params α) (hN : Nested O) (hF : Fresh O) (fuel : Nat) (s : St α) (n : Nat)
    (hI : RInv O (fun _ => False) s) (he : (askCommit O P fuel s n).2.1 = none) :
    RInv O (fun _ => False) (askCommit O P fuel s n).1 := by
  simp only [askCommit, popFromStack] at he ⊢
  exact askLoop_rinv O P hN hF fuel _ _ _ _ (hI.of_frame rfl rfl rfl (fun k hk => hk)) he

theorem ask_rinv (O : Oracle α) (P : Params α) (hN : Nested O) (hF : Fresh O) (fuel : Nat) (s : St α) (n : Nat)
    (c : Bool) (hI : RInv O (fun _ => False) s) (he : (ask O P fuel s n c).2.1 = none) :
    RInv O (fun _ => False) (ask O P fuel s n c).1 := by
  have key := askCommit_rinv O P hN hF fuel s n hI
  unfold ask at he ⊢
  split
  · rename_i heq
    rw [heq] at key
    split
    · exact (key rfl).of_frame rfl rfl rfl (fun k hk => hk)
    · exact hI
  · rename_i heq
    rw [heq] at he
    simp at he

theorem xmapGet_map_set (x : α) (ids : List Nat) (y : α) : ∀ (m : List (α × List Nat)),
    xmapGet (m.map (fun e => if e.1 = x then (e.1, ids) else e)) y =
      if y = x then (xmapGet m y).map (fun _ => ids) else xmapGet m y
  | [] => by simp [xmapGet]
  | e :: r => by
    rw [List.map_cons, xmapGet_cons, xmapGet_cons, xmapGet_map_set x ids y r]
    by_cases hex : e.1 = x
    · by_cases hey : e.1 = y
      · have hyx : y = x := by rw [← hey, hex]
        simp [hex, hyx]
      · have hyx : ¬ y = x := fun h => hey (by rw [hex, h])
        simp [hex, hey, hyx, Ne.symm hyx]
    · by_cases hey : e.1 = y
      · have hyx : ¬ y = x := fun h => hex (by rw [hey, h])
        simp [hex, hey, hyx]
      · simp [hex, hey]

theorem reorder_rinv (O : Oracle α) (s : St α) (x : α) (ids : List Nat) (hI : RInv O (fun _ => False) s) :
    RInv O (fun _ => False) (reorder s x ids) := by
  unfold reorder
  cases hg : xmapGet s.xmap x with
  | none => exact hI
  | some old =>
    simp only
    split
    · rename_i hc
      have hperm : ∀ k, k ∈ ids → k ∈ old := by
        intro k hk
        have hp : ids.isPerm old = true := by
          simp only [Bool.and_eq_true] at hc; exact hc.1
        exact (List.isPerm_iff.1 hp).mem_iff.1 hk
      have hget : ∀ y ids', xmapGet (s.xmap.map (fun e => if e.1 = x then (e.1, ids) else e)) y = some ids' →
          ∃ ids0, xmapGet s.xmap y = some ids0 ∧ ∀ k ∈ ids', k ∈ ids0 := by
        intro y ids' h
        rw [xmapGet_map_set] at h
        split at h
        · rename_i hyx
          rw [hyx, hg] at h
          simp only [Option.map_some, Option.some.injEq] at h
          exact ⟨old, by rw [hyx]; exact hg, fun k hk => hperm k (h ▸ hk)⟩
        · exact ⟨ids', h, fun k hk => hk⟩
      refine ⟨?_, hI.quiet, hI.inpts, ?_, hI.depth3, hI.live, ?_⟩
      · intro y hy _ ids' h k hk
        obtain ⟨ids0, h0, hsub⟩ := hget y ids' h
        exact hI.held y hy (fun f => f) ids0 h0 k (hsub k hk)
      · intro y ids' h k hk
        obtain ⟨ids0, h0, hsub⟩ := hget y ids' h
        exact hI.mapped y ids0 h0 k (hsub k hk)
      · intro y hy
        show (xmapGet (s.xmap.map (fun e => if e.1 = x then (e.1, ids) else e)) y).isSome = true
        rw [xmapGet_map_set]
        split
        · rw [Option.isSome_map]; exact hI.keyed y hy
        · exact hI.keyed y hy
    · exact hI

theorem rinv_start (O : Oracle α) (P : Params α) (hN : Nested O) (a b e : α) :
    RInv O (fun _ => False) (start O P a b e) := by
  have hnone := (init_spec O P a b e).2
  unfold start
  unfold init at hnone ⊢
  have hroot : ∀ j, (getI [({ a := a, b := b, depth := 2, rdepth := 1, err := e, igral := 0 } : Ival α)] j).data = [] ∧
      (getI [({ a := a, b := b, depth := 2, rdepth := 1, err := e, igral := 0 } : Ival α)] j).depth ≤ 3 := by
    intro j
    cases j with
    | zero => exact ⟨rfl, by show 2 ≤ 3; omega⟩
    | succ j => exact ⟨rfl, by show 0 ≤ 3; omega⟩
  have h0 : RInv O (fun _ => False)
      ({ F := [{ a := a, b := b, depth := 2, rdepth := 1, err := e, igral := 0 }] } : St α) := by
    refine ⟨?_, ?_, ?_, ?_, ?_, ?_, fun y hy => absurd hy List.not_mem_nil⟩
    · intro y hy; exact absurd hy List.not_mem_nil
    · intro j; exact quiet_nil O _ (hroot j).1
    · intro j y hy
      have hy' : y ∈ (getI [({ a := a, b := b, depth := 2, rdepth := 1, err := e, igral := 0 } : Ival α)] j).data := hy
      rw [(hroot j).1] at hy'
      exact absurd hy' List.not_mem_nil
    · intro y ids h; simp [xmapGet] at h
    · intro j; exact (hroot j).2
    · intro k hk; exact absurd hk List.not_mem_nil
  exact (addIval_rinv O P hN _ 0 h0 (by show 0 < 1; omega) hnone).1

/-- no operation of the history raised an exception -/
def Clean (O : Oracle α) (P : Params α) (s : St α) (ops : List (Op α)) : Prop :=
  ∀ r ∈ trace O P s ops, r = none

theorem rinv_step (O : Oracle α) (P : Params α) (hN : Nested O) (hF : Fresh O) (s : St α) (op : Op α)
    (hI : RInv O (fun _ => False) s) (he : (stepE O P s op).2 = none) :
    RInv O (fun _ => False) (step O P s op) := by
  cases op with
  | tell x => exact (tell_rinv O P hN s x hI.weaken he).1
  | ask fuel n c => exact ask_rinv O P hN hF fuel s n c hI he
  | reorder x ids => exact reorder_rinv O s x ids hI

theorem rinv_run (O : Oracle α) (P : Params α) (hN : Nested O) (hF : Fresh O) (ops : List (Op α)) :
    ∀ (s : St α), RInv O (fun _ => False) s → Clean O P s ops → RInv O (fun _ => False) (run O P s ops) := by
  induction ops with
  | nil => intro s h _; exact h
  | cons op r ih =>
    intro s h hc
    refine ih (step O P s op) (rinv_step O P hN hF s op h (hc _ List.mem_cons_self)) ?_
    intro e he
    exact hc e (List.mem_cons_of_mem _ he)

/-- the re-tell theorem on a state satisfying the invariant -/
theorem retell_noop (O : Oracle α) (P : Params α) (s : St α) (x : α) (hI : RInv O (fun _ => False) s)
    (hg : Good s) (hx : x ∈ s.data) :
    tell O P s x = (s, none) := by
  have hk := hI.keyed x hx
  unfold tell
  cases hget : xmapGet s.xmap x with
  | none => rw [hget] at hk; simp at hk
  | some ids =>
    simp only
    have hp : x ∉ s.pending := fun c => hg.disj x c hx
    have hs : ({ s with data := sadd x s.data, pending := s.pending.filter (fun y => y ≠ x) } : St α) = s := by
      rw [sadd_of_mem hx, filter_ne_of_not_mem hp]
    rw [hs]
    have hall : forEach (tellIval O P x) ids s = (s, none) := by
      apply forEach_const
      intro i hi
      exact tellIval_noop O P x s i (hI.held x hx (fun f => f) ids hget i hi) (hI.quiet i)
    rw [hall]

end Retell
end Integ

/-! ## concrete environments for the examples of `Props/C10More.lean` and `Examples/C10More.lean` -/
namespace C10More.Ex

/-- the LearnerND example environment of C04 with the corner `0` declared outside the domain -/
def lndEnvOut : LND.Env Int := { LND.exEnv with inside := fun p => p != 0 }

/-- integrator oracle: rule `d` of every interval has the abscissae `0 … ns d - 1` (nested), `complete_process` is
trivial -/
def intO : Integ.Oracle Int :=
  Integ.Oracle.mk (fun _ _ d => (List.range (Integ.ns d)).map Int.ofNat)
    (fun _ _ => Integ.CPOut.mk 0 false false 0 false [] [])
def intP : Integ.Params Int := { minSep := 0, tol := 0, inf := 0 }
/-- the integrator right after `__init__` on `[0, 16]` -/
def intS : Integ.St Int := Integ.start intO intP 0 16 100

theorem intO_nested : Integ.Nested intO := by
  intro a b d p hp
  simp only [intO, List.mem_map, List.mem_range] at hp ⊢
  obtain ⟨k, hk, rfl⟩ := hp
  refine ⟨k, Nat.lt_of_lt_of_le hk ?_, rfl⟩
  match d with
  | 0 => decide
  | 1 => decide
  | 2 => decide
  | n + 3 => simp [Integ.ns]

theorem intO_fresh : Integ.Retell.Fresh intO := by
  intro a b d hd
  refine ⟨Int.ofNat (Integ.ns d), ?_, ?_⟩
  · simp only [intO, List.mem_map, List.mem_range]
    refine ⟨Integ.ns d, ?_, rfl⟩
    match d with
    | 0 => decide
    | 1 => decide
    | 2 => decide
    | n + 3 => omega
  · simp only [intO, List.mem_map, List.mem_range, not_exists, not_and]
    intro k hk e
    have : k = Integ.ns d := Int.ofNat.inj e
    omega

/-- AverageLearner1D over ℚ on `[0, 1]`: constant loss, `sqrt = id`, `t`-quantile 1, `hypot a b = a² + b²` -/
def avLoss : List (Option ℚ) → List (Option (List ℚ)) → L1D.Loss ℚ := fun _ _ => .fin 1
def avHyp : ℚ → ℚ → ℚ := fun a b => a * a + b * b
def avInit : Avg1DFull.State ℚ := Avg1DFull.init 0 1 2 0 0 (1 / 5) 0 1 5 (1 / 2)
def avRun (ops : List (Avg1DFull.Op ℚ)) : Avg1DFull.State ℚ :=
  Avg1DFull.run avLoss id id (fun _ => 1) avHyp avInit ops

end C10More.Ex
