import AdaptiveModel.Avg1D
import Mathlib.Tactic.Ring
import Mathlib.Tactic.Linarith
import Mathlib.Tactic.LinearCombination
import Mathlib.Algebra.Order.Field.Basic
import Mathlib.Algebra.BigOperators.Group.List.Basic

/-!
Helper lemmas for C16 (AverageLearner1D part): sums as folds, list facts about
`find?` / `insertPt` / `updatePt` / `dictUpdate`, closed forms of `tell` and
`tellManyAtPoint`, and preservation of the bookkeeping invariant.
-/
set_option linter.unusedSectionVars false

namespace Avg1D
variable {α : Type} [Field α] [LinearOrder α] [IsStrictOrderedRing α]

/-! ### sums -/

theorem foldl_add_eq (ys : List α) (a : α) : ys.foldl (· + ·) a = a + ys.sum := by
  induction ys generalizing a with
  | nil => simp
  | cons y ys ih => simp only [List.foldl_cons, List.sum_cons, ih]; ring

theorem foldl_add_zero (ys : List α) : ys.foldl (· + ·) 0 = ys.sum := by
  rw [foldl_add_eq, zero_add]

theorem sumSqDev_aux (ys : List α) (m a : α) :
    ys.foldl (fun acc y => acc + (y - m) * (y - m)) a =
      a + (ys.map (fun v => (v - m) * (v - m))).sum := by
  induction ys generalizing a with
  | nil => simp
  | cons y ys ih => simp only [List.foldl_cons, List.map_cons, List.sum_cons, ih]; ring

/-- `sumSqDev` is the mapped sum of squared deviations -/
theorem sumSqDev_eq (ys : List α) (m : α) :
    sumSqDev ys m = (ys.map (fun v => (v - m) * (v - m))).sum := by
  unfold sumSqDev
  rw [sumSqDev_aux, zero_add]

theorem calcError_eq (sqrt : α → α) (tq : Nat → α) (ys : List α) (m : α) (n : Nat) :
    calcError sqrt tq ys m n =
      tq (n - 1) * sqrt (((ys.map (fun v => (v - m) * (v - m))).sum / ((n - 1 : Nat) : α)) / (n : α)) := by
  unfold calcError
  simp only [sumSqDev_eq]

/-- running-mean algebra: `(m·k/(k+1) + y/(k+1))·(k+1) = m·k + y` -/
theorem running_mean (m y : α) (k : Nat) :
    (m * (k : α) / ((k + 1 : Nat) : α) + y / ((k + 1 : Nat) : α)) * ((k + 1 : Nat) : α) =
      m * (k : α) + y := by
  have hk : ((k + 1 : Nat) : α) ≠ 0 := Nat.cast_ne_zero.2 (Nat.succ_ne_zero k)
  rw [add_mul, div_mul_cancel₀ _ hk, div_mul_cancel₀ _ hk]

/-! ### the point list -/

theorem find?_some {s : State α} {x : α} {p : Pt α} (h : find? s x = some p) :
    p ∈ s.pts ∧ p.x = x := by
  unfold find? at h
  exact ⟨List.mem_of_find?_eq_some h, by simpa using List.find?_some h⟩

theorem find?_none {s : State α} {x : α} (h : find? s x = none) : x ∉ s.pts.map (·.x) := by
  unfold find? at h
  intro hx
  obtain ⟨q, hq, rfl⟩ := List.mem_map.1 hx
  have := List.find?_eq_none.1 h q hq
  simp at this

theorem find?_list_updatePt (p' : Pt α) (x : α) (hx : p'.x = x) (l : List (Pt α)) (p : Pt α)
    (h : l.find? (fun q => q.x = x) = some p) :
    (updatePt p' l).find? (fun q => q.x = x) = some p' := by
  induction l with
  | nil => simp at h
  | cons q r ih =>
    unfold updatePt at ih ⊢
    simp only [List.map_cons, List.find?_cons]
    by_cases hq : q.x = x
    · simp [hq, hx]
    · have hq' : ¬ q.x = p'.x := by rw [hx]; exact hq
      simp only [hq', if_false, hq, decide_false]
      simp only [List.find?_cons, hq, decide_false] at h
      exact ih h

theorem find?_list_insertPt (p' : Pt α) (l : List (Pt α)) (h : p'.x ∉ l.map (·.x)) :
    (insertPt p' l).find? (fun q => q.x = p'.x) = some p' := by
  induction l with
  | nil => simp [insertPt]
  | cons q r ih =>
    unfold insertPt
    split
    · simp
    · have hq : ¬ q.x = p'.x := by
        intro e; apply h; simp [e]
      have hr : p'.x ∉ r.map (·.x) := by
        intro e; apply h; simp only [List.map_cons, List.mem_cons]; exact Or.inr e
      simp only [List.find?_cons, hq, decide_false]
      exact ih hr

theorem map_x_updatePt (p' : Pt α) (l : List (Pt α)) :
    (updatePt p' l).map (·.x) = l.map (·.x) := by
  unfold updatePt
  rw [List.map_map]
  apply List.map_congr_left
  intro q _
  simp only [Function.comp]
  split
  · rename_i e; exact e.symm
  · rfl

theorem mem_updatePt {p' q : Pt α} {l : List (Pt α)} (h : q ∈ updatePt p' l) :
    q = p' ∨ (q ∈ l ∧ q.x ≠ p'.x) := by
  unfold updatePt at h
  obtain ⟨a, ha, rfl⟩ := List.mem_map.1 h
  split
  · exact Or.inl rfl
  · rename_i e; exact Or.inr ⟨ha, e⟩

theorem insertPt_perm (p' : Pt α) (l : List (Pt α)) : (insertPt p' l).Perm (p' :: l) := by
  induction l with
  | nil => simp [insertPt]
  | cons q r ih =>
    unfold insertPt
    split
    · exact List.Perm.refl _
    · exact ((List.Perm.cons q ih).trans (List.Perm.swap p' q r))

/-- `dict.update` with fresh distinct keys appends -/
theorem dictUpdate_fresh (m d : List (Nat × α)) (hnd : (m.map Prod.fst).Nodup)
    (hfresh : ∀ k ∈ m.map Prod.fst, k ∉ d.map Prod.fst) : dictUpdate d m = d ++ m := by
  induction m generalizing d with
  | nil => simp [dictUpdate]
  | cons kv m ih =>
    have hk : kv.1 ∉ d.map Prod.fst := hfresh kv.1 (by simp)
    have hany : d.any (fun e => e.1 == kv.1) = false := by
      rw [Bool.eq_false_iff]
      intro h
      obtain ⟨e, he, hek⟩ := List.any_eq_true.1 h
      apply hk
      have : e.1 = kv.1 := by simpa using hek
      rw [← this]; exact List.mem_map_of_mem he
    have hnd' : kv.1 ∉ m.map Prod.fst ∧ (m.map Prod.fst).Nodup := by
      rw [List.map_cons] at hnd; exact List.nodup_cons.1 hnd
    unfold dictUpdate at ih ⊢
    simp only [List.foldl_cons, hany, Bool.false_eq_true, if_false]
    rw [ih (d ++ [kv]) hnd'.2]
    · simp
    · intro k hk1 hk2
      simp only [List.map_append, List.map_cons, List.map_nil, List.mem_append,
        List.mem_singleton] at hk2
      rcases hk2 with hk2 | hk2
      · exact hfresh k (by simp only [List.map_cons, List.mem_cons]; exact Or.inr hk1) hk2
      · subst hk2; exact hnd'.1 hk1

/-! ### the invariant (same text as `Avg1D.PtOK` / `Avg1D.Inv` of the property file) -/

def PtGood (p : Pt α) : Prop :=
  p.n = p.samples.length ∧ 1 ≤ p.n ∧ (p.samples.map Prod.fst).Nodup ∧
  p.mean * (p.n : α) = (p.samples.map Prod.snd).sum

def StGood (s : State α) : Prop :=
  (s.pts.map (·.x)).Nodup ∧ (∀ p ∈ s.pts, PtGood p) ∧
  (∀ p ∈ s.pts, p.n < s.minSamples → p.x ∈ s.under)

/-- replacing the point at an abscissa by a good one with at least as many samples -/
theorem stGood_update (s : State α) (h : StGood s) (p p' : Pt α) (u : List α)
    (hp : p ∈ s.pts) (hx : p'.x = p.x) (hg : PtGood p') (hn : p.n ≤ p'.n)
    (hu : u = s.under ∨ (u = s.under.erase p.x ∧ s.minSamples ≤ p'.n)) :
    StGood { s with pts := updatePt p' s.pts, under := u } := by
  obtain ⟨h1, h2, h3⟩ := h
  refine ⟨?_, ?_, ?_⟩
  · show ((updatePt p' s.pts).map (·.x)).Nodup
    rw [map_x_updatePt]; exact h1
  · intro q hq
    rcases mem_updatePt hq with rfl | ⟨hq', -⟩
    · exact hg
    · exact h2 q hq'
  · intro q hq hlt
    show q.x ∈ u
    change q.n < s.minSamples at hlt
    rcases mem_updatePt hq with rfl | ⟨hq', hne⟩
    · rcases hu with rfl | ⟨-, hge⟩
      · rw [hx]; exact h3 p hp (by omega)
      · omega
    · have hmem := h3 q hq' hlt
      rcases hu with rfl | ⟨rfl, -⟩
      · exact hmem
      · rw [hx] at hne
        exact (List.mem_erase_of_ne hne).2 hmem

/-- inserting a good point at a new abscissa -/
theorem stGood_insert (s : State α) (h : StGood s) (p' : Pt α) (u : List α)
    (hx : p'.x ∉ s.pts.map (·.x)) (hg : PtGood p') (hu1 : p'.x ∈ u)
    (hu2 : ∀ a ∈ s.under, a ∈ u) :
    StGood { s with pts := insertPt p' s.pts, under := u } := by
  obtain ⟨h1, h2, h3⟩ := h
  have hperm := insertPt_perm p' s.pts
  refine ⟨?_, ?_, ?_⟩
  · show ((insertPt p' s.pts).map (·.x)).Nodup
    rw [(hperm.map (·.x)).nodup_iff]
    simp only [List.map_cons]
    exact List.nodup_cons.2 ⟨hx, h1⟩
  · intro q hq
    rcases List.mem_cons.1 (hperm.mem_iff.1 hq) with rfl | hq'
    · exact hg
    · exact h2 q hq'
  · intro q hq hlt
    show q.x ∈ u
    rcases List.mem_cons.1 (hperm.mem_iff.1 hq) with rfl | hq'
    · exact hu1
    · exact hu2 _ (h3 q hq' hlt)

end Avg1D
