import AdaptiveProofs.Lemmas.QuadTablesPoly
import Mathlib.Algebra.Order.Field.Rat

/-!
Kernel computations over the generated node tables `xi` (exact values of the doubles), the Newton polynomials
`newton(n)` and the scalar constants of `integrator_coeffs.py`.  All `decide +kernel`: exact rational arithmetic in the
Lean kernel.
-/
namespace QuadPoly
open Gen.QuadTables

/-! ### shape -/

theorem ns_check : ns = [5, 9, 17, 33] ∧ ndivMax = 20 := by decide +kernel

theorem xi_shape_check :
    xiNum.length = 4 ∧ xiBits.length = 4 ∧ newtonNum.length = 4 ∧ newtonDen.length = 4 ∧
    (List.range 4).all (fun r => (xiRow r).length == nsAt r && (newtonP r).length == nsAt r + 1) = true := by
  decide +kernel

/-- the exact rationals of `xiNum/xiDen` are the values of the doubles with the bit patterns `xiBits` -/
theorem xi_bits_check : (List.range 4).all (fun r => (xiBits.getD r []).map bitsValue == xiRow r) = true := by
  decide +kernel

/-! ### antisymmetric, nested, sorted, end points -/

theorem xi_antisymm_check : (List.range 4).all (fun r => (xiRow r).reverse == (xiRow r).map (fun x => -x)) = true := by
  decide +kernel

theorem xi_nested_check :
    (List.range 3).all (fun r => (List.range (nsAt r)).all fun k =>
      (xiRow r).getD k 0 == (xiRow (r + 1)).getD (2 * k) 0) = true := by
  decide +kernel

/-- strictly increasing (Boolean form for the kernel) -/
def strictIncr : List Rat → Bool
  | [] => true
  | [_] => true
  | a :: b :: l => decide (a < b) && strictIncr (b :: l)

theorem xi_sorted_check : (List.range 4).all (fun r => strictIncr (xiRow r)) = true := by decide +kernel

theorem xi_ends_check :
    (List.range 4).all (fun r => (xiRow r).head? == some (-1) && (xiRow r).getLast? == some 1
      && (xiRow r).getD (nsAt r / 2) 7 == 0) = true := by
  decide +kernel

lemma strictIncr_iff (l : List ℚ) : strictIncr l = true ↔ l.IsChain (· < ·) := by
  induction l with
  | nil => simp [strictIncr]
  | cons a l ih =>
    cases l with
    | nil => simp [strictIncr]
    | cons b l => simp [strictIncr, ih]

lemma strictIncr_pairwise {l : List ℚ} (h : strictIncr l = true) : l.Pairwise (· < ·) :=
  List.isChain_iff_pairwise.mp ((strictIncr_iff l).mp h)

/-! ### Newton polynomials -/

/-- `newton(n)` is `(X²−1)·U_{n−2}/2^{n−2}`, coefficient by coefficient, for the four rule sizes -/
theorem newton_ccNodal_check : (List.range 4).all (fun r => newtonP r == ccNodal (nsAt r)) = true := by
  decide +kernel

theorem newton_monic_check : (List.range 4).all (fun r => (newtonP r).getLast? == some 1) = true := by
  decide +kernel

/-- residual of the exact Newton polynomial at the (double) nodes: at most `|ω'(node)|·2⁻⁵²` where
`|ω'| = (n−1)/2^(n−2)` is the slope of the nodal polynomial at its interior roots -/
def residualOK (r : Nat) : Bool :=
  (xiRow r).all fun x =>
    decide (|peval (newtonP r) x| ≤ ((nsAt r : Rat) - 1) / 2 ^ (nsAt r - 2) / 2 ^ 52)

theorem newton_residual_check : (List.range 4).all residualOK = true := by decide +kernel

/-! ### scalar constants -/

theorem consts_check :
    bitsValue epsBits = (epsNum : Rat) / epsDen ∧ (epsNum : Rat) / epsDen = 1 / 2 ^ 52 ∧
    bitsValue minSepBits = (minSepNum : Rat) / minSepDen ∧ (minSepNum : Rat) / minSepDen = 16 * (1 / 2 ^ 52) ∧
    bitsValue hintBits = (hintNum : Rat) / hintDen ∧ |(hintNum : Rat) / hintDen - 1 / 10| ≤ 1 / 2 ^ 57 := by
  decide +kernel

end QuadPoly
