import AdaptiveModel.Avg
import Mathlib.Tactic.Ring
import Mathlib.Tactic.Linarith
import Mathlib.Tactic.LinearCombination
import Mathlib.Algebra.Order.Field.Basic
import Mathlib.Algebra.BigOperators.Group.List.Basic
import Mathlib.Algebra.Order.BigOperators.Group.List

/-!
Helper lemmas for C16 (AverageLearner part): list sums, the moment invariant of the
`Avg` model along `run`, the variance identity, and the counting lemma behind `ask`.
-/
set_option linter.unusedSectionVars false

namespace AvgL

/-- sum of squared deviations, expanded -/
theorem sum_sq_dev {α : Type} [Field α] (l : List α) (m : α) :
    (l.map (fun v => (v - m) * (v - m))).sum =
      (l.map (fun v => v * v)).sum - 2 * m * l.sum + (l.length : α) * (m * m) := by
  induction l with
  | nil => simp
  | cons a l ih =>
    simp only [List.map_cons, List.sum_cons, List.length_cons, Nat.cast_add, Nat.cast_one]
    linear_combination ih

theorem sum_sq_nonneg {α : Type} [Field α] [LinearOrder α] [IsStrictOrderedRing α]
    (l : List α) (m : α) : 0 ≤ (l.map (fun v => (v - m) * (v - m))).sum := by
  apply List.sum_nonneg
  intro x hx
  obtain ⟨v, -, rfl⟩ := List.mem_map.1 hx
  exact mul_self_nonneg _

/-- pigeonhole counting: a duplicate-free list has at most `l.length` members in `l` -/
theorem length_filter_mem_le {β : Type} [DecidableEq β] (r l : List β) (h : r.Nodup) :
    (r.filter (fun x => decide (x ∈ l))).length ≤ l.length := by
  apply List.Subperm.length_le
  apply List.subperm_of_subset (h.sublist List.filter_sublist)
  intro x hx
  simpa using (List.mem_filter.1 hx).2

/-- a weaker predicate filters fewer elements -/
theorem length_filter_le_of_imp {β : Type} (p q : β → Bool) (r : List β)
    (h : ∀ x, p x = true → q x = true) : (r.filter p).length ≤ (r.filter q).length := by
  induction r with
  | nil => simp
  | cons a r ih =>
    simp only [List.filter_cons]
    by_cases hp : p a = true
    · simp only [hp, h a hp, if_true, List.length_cons]; omega
    · simp only [hp, Bool.false_eq_true, if_false]
      split
      · simp only [List.length_cons]; omega
      · exact ih

end AvgL

namespace Avg
variable {α : Type}

theorem hasKey_iff (k : Nat) (d : List (Nat × α)) : hasKey k d = true ↔ k ∈ d.map Prod.fst := by
  simp [hasKey]

theorem known_iff (s : State α) (p : Nat) :
    known s p = true ↔ p ∈ s.data.map Prod.fst ++ s.pending := by
  simp [known, hasKey]

variable [Field α] [LinearOrder α] [IsStrictOrderedRing α]

/-- the moment invariant of `AverageLearner` -/
def MomInv (s : State α) : Prop :=
  s.sumF = (s.data.map Prod.snd).sum ∧
  s.sumFsq = ((s.data.map Prod.snd).map (fun v => v * v)).sum ∧
  s.npoints = s.data.length ∧ (s.data.map Prod.fst).Nodup

theorem momInv_init (a r : Option α) (m : Nat) : MomInv (init a r m) := by
  simp [MomInv, init]

theorem momInv_tell (s : State α) (k : Nat) (v : α) (h : MomInv s) : MomInv (tell s k v) := by
  unfold tell
  by_cases hk : hasKey k s.data = true
  · simp [hk, h]
  · obtain ⟨h1, h2, h3, h4⟩ := h
    have hk' : k ∉ s.data.map Prod.fst := fun hm => hk ((hasKey_iff k s.data).2 hm)
    simp only [hk, Bool.false_eq_true, if_false]
    refine ⟨?_, ?_, ?_, ?_⟩
    · simp [h1]
    · simp [h2]
    · simp [h3]
    · simp only [List.map_append, List.map_cons, List.map_nil]
      rw [List.nodup_append]
      refine ⟨h4, by simp, ?_⟩
      intro a ha b hb
      simp at hb
      subst hb
      intro hab; subst hab; exact hk' ha

theorem momInv_tellPending (s : State α) (k : Nat) (h : MomInv s) : MomInv (tellPending s k) := by
  unfold tellPending
  split
  · exact h
  · split
    · exact h
    · exact h

theorem momInv_foldl_tellPending (pts : List Nat) (s : State α) (h : MomInv s) :
    MomInv (pts.foldl tellPending s) := by
  induction pts generalizing s with
  | nil => exact h
  | cons p pts ih => exact ih _ (momInv_tellPending s p h)

theorem momInv_step (s : State α) (op : Op α) (h : MomInv s) : MomInv (step s op) := by
  cases op with
  | tell k v => exact momInv_tell s k v h
  | tellPending k => exact momInv_tellPending s k h
  | removeUnfinished => exact h
  | askCommit pts => exact momInv_foldl_tellPending pts s h

theorem momInv_run (ops : List (Op α)) (s : State α) (h : MomInv s) : MomInv (run s ops) := by
  induction ops generalizing s with
  | nil => exact h
  | cons op ops ih => exact ih _ (momInv_step s op h)

/-- `mean · n = Σ v` -/
theorem mean_mul (s : State α) (h1 : s.sumF = (s.data.map Prod.snd).sum) (hn : s.npoints ≠ 0) :
    mean s * (s.npoints : α) = (s.data.map Prod.snd).sum := by
  have hn' : (s.npoints : α) ≠ 0 := Nat.cast_ne_zero.2 hn
  unfold mean
  rw [div_mul_cancel₀ _ hn', h1]

/-- `sum_f_sq − n·mean² = Σ (v − mean)²` -/
theorem varNumer_eq (s : State α)
    (h1 : s.sumF = (s.data.map Prod.snd).sum)
    (h2 : s.sumFsq = ((s.data.map Prod.snd).map (fun v => v * v)).sum)
    (h3 : s.npoints = s.data.length) (hn : s.npoints ≠ 0) :
    varNumer s = ((s.data.map Prod.snd).map (fun v => (v - mean s) * (v - mean s))).sum := by
  have e := mean_mul s h1 hn
  rw [AvgL.sum_sq_dev, List.length_map, ← h3, ← h2, ← e]
  unfold varNumer
  ring

theorem varNumer_nonneg (s : State α)
    (h1 : s.sumF = (s.data.map Prod.snd).sum)
    (h2 : s.sumFsq = ((s.data.map Prod.snd).map (fun v => v * v)).sum)
    (h3 : s.npoints = s.data.length) (hn : s.npoints ≠ 0) : 0 ≤ varNumer s := by
  rw [varNumer_eq s h1 h2 h3 hn]
  exact AvgL.sum_sq_nonneg _ _

theorem std_eq_none_iff (sqrt : α → α) (s : State α) :
    std sqrt s = none ↔ s.npoints < s.minNpoints := by
  unfold std
  by_cases h : s.npoints < s.minNpoints
  · simp [h]
  · simp only [h, if_false, iff_false]
    split <;> simp

/-- the value of `std` above `min_npoints`, with the clamp resolved -/
theorem std_eq_some (sqrt : α → α) (s : State α)
    (h1 : s.sumF = (s.data.map Prod.snd).sum)
    (h2 : s.sumFsq = ((s.data.map Prod.snd).map (fun v => v * v)).sum)
    (h3 : s.npoints = s.data.length) (hn : s.npoints ≠ 0) (hge : ¬ s.npoints < s.minNpoints) :
    std sqrt s = some (sqrt (varNumer s / ((s.npoints - 1 : Nat) : α))) := by
  unfold std
  have := varNumer_nonneg s h1 h2 h3 hn
  simp only [hge, if_false, not_lt.2 this]

/-- `if a < b then b else a` is `max a b` -/
theorem ite_lt_eq_max (a b : α) : (if a < b then b else a) = max a b := by
  split
  · rename_i h; exact (max_eq_right h.le).symm
  · rename_i h; exact (max_eq_left (not_lt.1 h)).symm

/-- `if m < 0 then -m else m` is `|m|` -/
theorem ite_neg_eq_abs (m : α) : (if m < 0 then -m else m) = |m| := by
  split
  · rename_i h; exact (abs_of_neg h).symm
  · rename_i h; exact (abs_of_nonneg (not_lt.1 h)).symm

/-! ### `ask` -/

theorem mem_freeSeeds {s : State α} {n p : Nat} (h : p ∈ freeSeeds s n) : known s p = false := by
  unfold freeSeeds at h
  simpa using (List.mem_filter.1 h).2

theorem freeSeeds_nodup (s : State α) (n : Nat) : (freeSeeds s n).Nodup :=
  List.nodup_range.sublist List.filter_sublist

/-- pigeonhole: at least `n` of the seeds `range (n_requested + n)` are free -/
theorem le_length_freeSeeds (s : State α) (n : Nat) (h3 : s.npoints = s.data.length) :
    n ≤ (freeSeeds s n).length := by
  have hsplit := List.length_eq_length_filter_add (l := List.range (nRequested s + n)) (known s)
  have hk : ((List.range (nRequested s + n)).filter (known s)).length ≤ nRequested s := by
    calc ((List.range (nRequested s + n)).filter (known s)).length
        ≤ ((List.range (nRequested s + n)).filter
            (fun x => decide (x ∈ s.data.map Prod.fst ++ s.pending))).length :=
          AvgL.length_filter_le_of_imp _ _ _ (fun x hx => by
            simpa using (known_iff s x).1 hx)
      _ ≤ (s.data.map Prod.fst ++ s.pending).length :=
          AvgL.length_filter_mem_le _ _ List.nodup_range
      _ = nRequested s := by simp [nRequested, h3]
  rw [List.length_range] at hsplit
  unfold freeSeeds
  omega

theorem validChoice_iff (s : State α) (n : Nat) (choice : List Nat) :
    validChoice s n choice = true ↔
      choice.length = n ∧ choice.Nodup ∧ ∀ p ∈ choice, p ∈ freeSeeds s n := by
  simp [validChoice, and_assoc]

end Avg
