import AdaptiveProofs.Lemmas.IntegWF
/-!
C07 (deepening): the tree VIEW of a forest (length, children, parent, `done_leaves`) and the set an interval
"holds" for its ancestors.

`held`: an interval all of whose children have `done_leaves = None` ("handed", `Hd`) passes on what its children hold;
every other interval stands for itself.  `hz T z j` is that set for interval `j`, with interval `z` (if given) treated as
standing for itself whatever its children say.  Pure tree combinatorics, no numbers.
-/
set_option linter.unusedSectionVars false
set_option linter.unusedSimpArgs false
set_option linter.unusedVariables false
namespace Integ
namespace Cut

structure View where
  len : Nat
  ch : Nat → List Nat
  par : Nat → Option Nat
  dl : Nat → Option (List Nat)

structure WFv (T : View) : Prop where
  child : ∀ j, ∀ c ∈ T.ch j, j < c ∧ c < T.len ∧ T.par c = some j
  par : ∀ j p, T.par j = some p → p < j ∧ j ∈ T.ch p
  nodup : ∀ j, (T.ch j).Nodup

/-- all children (there are some) have handed their leaves up -/
def Hd (T : View) (j : Nat) : Prop := T.ch j ≠ [] ∧ ∀ c ∈ T.ch j, T.dl c = none
instance (T : View) (j : Nat) : Decidable (Hd T j) := by unfold Hd; exact inferInstance

def Leaf (T : View) (z : Option Nat) (j : Nat) : Prop := some j = z ∨ ¬ Hd T j
instance (T : View) (z : Option Nat) (j : Nat) : Decidable (Leaf T z j) := by unfold Leaf; exact inferInstance

def heldZ (T : View) (z : Option Nat) : Nat → Nat → List Nat
  | 0, _ => []
  | fuel + 1, j => if Leaf T z j then [j] else (T.ch j).flatMap (heldZ T z fuel)

def hz (T : View) (z : Option Nat) (j : Nat) : List Nat := heldZ T z (T.len + 1) j

theorem tree_ind {T : View} (hW : WFv T) (P : Nat → Prop) (h : ∀ j, (∀ c ∈ T.ch j, P c) → P j) : ∀ j, P j := by
  have : ∀ n j, T.len - j ≤ n → P j := by
    intro n
    induction n with
    | zero =>
      intro j hj; apply h; intro c hc
      have := hW.child j c hc; omega
    | succ n ih =>
      intro j hj; apply h; intro c hc
      have := hW.child j c hc
      exact ih c (by omega)
  exact fun j => this _ j (Nat.le_refl _)

theorem flatMap_congr' {f g : Nat → List Nat} : ∀ (l : List Nat), (∀ c ∈ l, f c = g c) → l.flatMap f = l.flatMap g
  | [], _ => rfl
  | a :: r, h => by
    simp only [List.flatMap_cons]
    rw [h a (List.mem_cons_self ..), flatMap_congr' r (fun c hc => h c (List.mem_cons_of_mem _ hc))]

theorem heldZ_fuel {T : View} (hW : WFv T) (z : Option Nat) :
    ∀ j f1 f2, T.len - j < f1 → T.len - j < f2 → heldZ T z f1 j = heldZ T z f2 j := by
  refine tree_ind hW _ ?_
  intro j ih f1 f2 h1 h2
  cases f1 with
  | zero => omega
  | succ a =>
    cases f2 with
    | zero => omega
    | succ b =>
      simp only [heldZ]
      split
      · rfl
      · apply flatMap_congr'
        intro c hc
        have := hW.child j c hc
        exact ih c hc a b (by omega) (by omega)

theorem hz_unfold {T : View} (hW : WFv T) (z : Option Nat) (j : Nat) :
    hz T z j = if Leaf T z j then [j] else (T.ch j).flatMap (hz T z) := by
  simp only [hz, heldZ]
  split
  · rfl
  · apply flatMap_congr'
    intro c hc
    have := hW.child j c hc
    exact heldZ_fuel hW z c _ _ (by omega) (by omega)

theorem hz_leaf {T : View} (hW : WFv T) {z : Option Nat} {j : Nat} (h : Leaf T z j) : hz T z j = [j] := by
  rw [hz_unfold hW, if_pos h]

theorem hz_node {T : View} (hW : WFv T) {z : Option Nat} {j : Nat} (h : ¬ Leaf T z j) :
    hz T z j = (T.ch j).flatMap (hz T z) := by
  rw [hz_unfold hW, if_neg h]

/-! ### ancestors -/
inductive Anc (T : View) : Nat → Nat → Prop
  | refl (a : Nat) : Anc T a a
  | step {a x p : Nat} : T.par x = some p → Anc T a p → Anc T a x

theorem anc_le {T : View} (hW : WFv T) {a x : Nat} (h : Anc T a x) : a ≤ x := by
  induction h with
  | refl => exact Nat.le_refl _
  | step hp _ ih => have := (hW.par _ _ hp).1; omega

theorem anc_child {T : View} (hW : WFv T) {j c : Nat} (hc : c ∈ T.ch j) : Anc T j c :=
  Anc.step (hW.child j c hc).2.2 (Anc.refl j)

theorem anc_trans {T : View} {a b c : Nat} (h1 : Anc T a b) (h2 : Anc T b c) : Anc T a c := by
  induction h2 with
  | refl => exact h1
  | step hp _ ih => exact Anc.step hp ih

theorem anc_linear {T : View} {a b x : Nat} (h1 : Anc T a x) (h2 : Anc T b x) : Anc T a b ∨ Anc T b a := by
  induction h1 generalizing b with
  | refl => exact Or.inr h2
  | @step x p hp ha ih =>
    cases h2 with
    | refl => exact Or.inl (Anc.step hp ha)
    | @step _ p' hp' hb =>
      rw [hp] at hp'
      cases hp'
      exact ih hb

/-- a proper ancestor is an ancestor of the parent -/
theorem anc_proper {T : View} {a x : Nat} (h : Anc T a x) (hne : a ≠ x) : ∃ p, T.par x = some p ∧ Anc T a p := by
  cases h with
  | refl => exact absurd rfl hne
  | step hp ha => exact ⟨_, hp, ha⟩

theorem anc_cases {T : View} (hW : WFv T) {a x : Nat} (h : Anc T a x) : a = x ∨ ∃ c ∈ T.ch a, Anc T c x := by
  induction h with
  | refl => exact Or.inl rfl
  | @step x p hp ha ih =>
    rcases ih with e | ⟨c, hc, hcp⟩
    · right
      refine ⟨x, ?_, Anc.refl x⟩
      rw [e]; exact (hW.par _ _ hp).2
    · exact Or.inr ⟨c, hc, Anc.step hp hcp⟩

/-- two children of one interval that are both ancestors of `x` coincide -/
theorem sib_anc_eq {T : View} (hW : WFv T) {j c1 c2 x : Nat} (h1 : c1 ∈ T.ch j) (h2 : c2 ∈ T.ch j)
    (a1 : Anc T c1 x) (a2 : Anc T c2 x) : c1 = c2 := by
  have key : ∀ {u v : Nat}, u ∈ T.ch j → v ∈ T.ch j → Anc T u v → u = v := by
    intro u v hu hv huv
    by_cases e : u = v
    · exact e
    · obtain ⟨p, hp, hup⟩ := anc_proper huv e
      rw [(hW.child j v hv).2.2] at hp
      cases hp
      have := anc_le hW hup
      have := (hW.child j u hu).1
      omega
  rcases anc_linear a1 a2 with h | h
  · exact key h1 h2 h
  · exact (key h2 h1 h).symm

theorem anc_antisymm {T : View} (hW : WFv T) {a b : Nat} (h1 : Anc T a b) (h2 : Anc T b a) : a = b := by
  have := anc_le hW h1; have := anc_le hW h2; omega

/-! ### what is held -/
theorem mem_hz_anc {T : View} (hW : WFv T) (z : Option Nat) : ∀ j x, x ∈ hz T z j → Anc T j x := by
  refine tree_ind hW _ ?_
  intro j ih x hx
  rw [hz_unfold hW] at hx
  split at hx
  · simp only [List.mem_singleton] at hx; rw [hx]; exact Anc.refl j
  · simp only [List.mem_flatMap] at hx
    obtain ⟨c, hc, hxc⟩ := hx
    exact anc_trans (anc_child hW hc) (ih c hc x hxc)

theorem mem_hz_leaf {T : View} (hW : WFv T) (z : Option Nat) : ∀ j x, x ∈ hz T z j → Leaf T z x := by
  refine tree_ind hW _ ?_
  intro j ih x hx
  rw [hz_unfold hW] at hx
  split at hx
  · rename_i hl
    simp only [List.mem_singleton] at hx; rw [hx]; exact hl
  · simp only [List.mem_flatMap] at hx
    obtain ⟨c, hc, hxc⟩ := hx
    exact ih c hc x hxc

theorem hz_ne_nil {T : View} (hW : WFv T) (z : Option Nat) : ∀ j, hz T z j ≠ [] := by
  refine tree_ind hW _ ?_
  intro j ih
  rw [hz_unfold hW]
  split
  · simp
  · rename_i hl
    have hH : Hd T j := by
      unfold Leaf at hl
      exact Classical.not_not.mp (fun h => hl (Or.inr h))
    cases hcs : T.ch j with
    | nil => exact absurd hcs hH.1
    | cons c r =>
      have := ih c (by rw [hcs]; exact List.mem_cons_self ..)
      simp only [List.flatMap_cons]
      intro h
      exact this (List.append_eq_nil_iff.mp h).1

/-- everything strictly between `j` and a member of what `j` holds has handed its leaves up -/
theorem mem_hz_path {T : View} (hW : WFv T) (z : Option Nat) :
    ∀ j x y, x ∈ hz T z j → Anc T j y → Anc T y x → y ≠ j → T.dl y = none ∧ (y ≠ x → ¬ Leaf T z y) := by
  refine tree_ind hW _ ?_
  intro j ih x y hx hjy hyx hne
  rw [hz_unfold hW] at hx
  split at hx
  · simp only [List.mem_singleton] at hx
    rw [hx] at hyx
    exact absurd (anc_antisymm hW hyx hjy) hne
  · rename_i hl
    have hH : Hd T j := Classical.not_not.mp (fun h => hl (Or.inr h))
    simp only [List.mem_flatMap] at hx
    obtain ⟨c, hc, hxc⟩ := hx
    rcases anc_cases hW hjy with e | ⟨c', hc', hc'y⟩
    · exact absurd e.symm hne
    · have hcc : c' = c := sib_anc_eq hW hc' hc (anc_trans hc'y hyx) (mem_hz_anc hW z c x hxc)
      rw [hcc] at hc'y
      by_cases hyc : y = c
      · refine ⟨by rw [hyc]; exact hH.2 c hc, fun hyx' hly => ?_⟩
        rw [hyc] at hyx' hly
        rw [hz_leaf hW hly] at hxc
        simp only [List.mem_singleton] at hxc
        exact hyx' hxc.symm
      · exact ih c hc x y hxc hc'y hyx hyc

theorem hz_nodup {T : View} (hW : WFv T) (z : Option Nat) : ∀ j, (hz T z j).Nodup := by
  refine tree_ind hW _ ?_
  intro j ih
  rw [hz_unfold hW]
  split
  · simp
  · unfold List.Nodup
    rw [List.pairwise_flatMap]
    refine ⟨fun c hc => ih c hc, ?_⟩
    refine List.Pairwise.imp_of_mem ?_ (hW.nodup j)
    intro c1 c2 h1 h2 hne x hx1 y hy2 hxy
    rw [hxy] at hx1
    exact hne (sib_anc_eq hW h1 h2 (mem_hz_anc hW z c1 y hx1) (mem_hz_anc hW z c2 y hy2))

/-- `hz` only depends on which intervals are leaves and on the children of the others -/
theorem heldZ_congr {T T' : View} {z z' : Option Nat} (hl : ∀ x, Leaf T z x ↔ Leaf T' z' x)
    (hc : ∀ x, ¬ Leaf T z x → T'.ch x = T.ch x) : ∀ fuel j, heldZ T' z' fuel j = heldZ T z fuel j
  | 0, _ => rfl
  | fuel + 1, j => by
    simp only [heldZ]
    by_cases h : Leaf T z j
    · rw [if_pos h, if_pos ((hl j).mp h)]
    · rw [if_neg h, if_neg (fun h' => h ((hl j).mpr h')), hc j h]
      exact flatMap_congr' _ (fun c _ => heldZ_congr hl hc fuel c)

theorem hz_congr {T T' : View} {z z' : Option Nat} (hlen : T'.len = T.len) (hl : ∀ x, Leaf T z x ↔ Leaf T' z' x)
    (hc : ∀ x, ¬ Leaf T z x → T'.ch x = T.ch x) (j : Nat) : hz T' z' j = hz T z j := by
  unfold hz; rw [hlen]; exact heldZ_congr hl hc _ j

/-- expanding the interval `z` that was treated as standing for itself -/
theorem hz_expand {T : View} (hW : WFv T) (z : Nat) :
    ∀ j x, x ∈ hz T none j ↔ (x ∈ hz T (some z) j ∧ x ≠ z) ∨ (z ∈ hz T (some z) j ∧ x ∈ hz T none z) := by
  refine tree_ind hW _ ?_
  intro j ih x
  by_cases hjz : j = z
  · rw [hjz, hz_leaf hW (z := some z) (j := z) (Or.inl rfl)]
    simp only [List.mem_singleton, true_and]
    constructor
    · intro h; exact Or.inr h
    · intro h
      rcases h with ⟨h1, h2⟩ | h
      · exact absurd h1 h2
      · exact h
  · by_cases hH : Hd T j
    · have l1 : ¬ Leaf T none j := by
        intro h; rcases h with h | h
        · cases h
        · exact h hH
      have l2 : ¬ Leaf T (some z) j := by
        intro h; rcases h with h | h
        · cases h; exact hjz rfl
        · exact h hH
      rw [hz_node hW l1, hz_node hW l2]
      simp only [List.mem_flatMap]
      constructor
      · rintro ⟨c, hc, hxc⟩
        rcases (ih c hc x).mp hxc with ⟨h1, h2⟩ | ⟨h1, h2⟩
        · exact Or.inl ⟨⟨c, hc, h1⟩, h2⟩
        · exact Or.inr ⟨⟨c, hc, h1⟩, h2⟩
      · rintro (⟨⟨c, hc, h1⟩, h2⟩ | ⟨⟨c, hc, h1⟩, h2⟩)
        · exact ⟨c, hc, (ih c hc x).mpr (Or.inl ⟨h1, h2⟩)⟩
        · exact ⟨c, hc, (ih c hc x).mpr (Or.inr ⟨h1, h2⟩)⟩
    · rw [hz_leaf hW (z := none) (Or.inr hH), hz_leaf hW (z := some z) (Or.inr hH)]
      simp only [List.mem_singleton]
      constructor
      · intro h; rw [h]; exact Or.inl ⟨rfl, hjz⟩
      · rintro (⟨h1, _⟩ | ⟨h1, _⟩)
        · exact h1
        · exact absurd h1.symm hjz

end Cut
end Integ
