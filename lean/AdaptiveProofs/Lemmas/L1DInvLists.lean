import AdaptiveProofs.Lemmas.L1DDefs
import Mathlib.Order.Basic
import Mathlib.Data.List.Basic

/-! Pure list lemmas for the Learner1D invariant: `sinsert`, `leftOf`, `rightOf`, `pairs`,
`sortList`, and the loss tables `lset` / `lerase`. -/
set_option linter.unusedSectionVars false

namespace L1D
variable {α : Type} [LinearOrder α]

/-! ### `sinsert` -/

theorem mem_sinsert {x y : α} {l : List α} : y ∈ sinsert x l ↔ y = x ∨ y ∈ l := by
  induction l with
  | nil => simp [sinsert]
  | cons c r ih =>
    simp only [sinsert]
    split
    · simp
    · split
      · subst_vars; simp
      · simp only [List.mem_cons, ih]; tauto

theorem sorted_sinsert {x : α} {l : List α} (h : l.Pairwise (· < ·)) :
    (sinsert x l).Pairwise (· < ·) := by
  induction l with
  | nil => simp [sinsert]
  | cons c r ih =>
    simp only [sinsert]
    rw [List.pairwise_cons] at h
    split
    · rename_i hxc
      refine List.pairwise_cons.2 ⟨?_, List.pairwise_cons.2 h⟩
      intro z hz
      rcases List.mem_cons.1 hz with rfl | hz
      · exact hxc
      · exact lt_trans hxc (h.1 z hz)
    · split
      · exact List.pairwise_cons.2 h
      · rename_i h1 h2
        refine List.pairwise_cons.2 ⟨?_, ih h.2⟩
        intro z hz
        rcases mem_sinsert.1 hz with rfl | hz
        · exact lt_of_le_of_ne (not_lt.1 h1) (Ne.symm h2)
        · exact h.1 z hz

/-! ### adjacent pairs -/

/-- `a` and `b` are neighbours in `l` -/
def Adj (l : List α) (a b : α) : Prop :=
  a ∈ l ∧ b ∈ l ∧ a < b ∧ ∀ z ∈ l, z ≤ a ∨ b ≤ z

theorem mem_pairs_iff_adj {l : List α} (h : l.Pairwise (· < ·)) {a b : α} :
    (a, b) ∈ pairs l ↔ Adj l a b := by
  induction l with
  | nil => simp [pairs, Adj]
  | cons c r ih =>
    cases r with
    | nil =>
      simp only [pairs, Adj, List.mem_singleton, List.not_mem_nil, false_iff, not_and]
      intro h1 h2 h3
      subst h1 h2
      exact absurd h3 (lt_irrefl _)
    | cons d r =>
      rw [List.pairwise_cons] at h
      have ih := ih h.2
      have h2 := List.pairwise_cons.1 h.2
      simp only [pairs, List.mem_cons, Prod.mk.injEq, ih]
      have hd : ∀ z, z = d ∨ z ∈ r → d ≤ z := by
        rintro z (rfl | hz)
        · exact le_refl _
        · exact le_of_lt (h2.1 z hz)
      have hc : ∀ z, z = d ∨ z ∈ r → c < z := fun z hz => h.1 z (List.mem_cons.2 hz)
      simp only [Adj, List.mem_cons]
      constructor
      · rintro (⟨rfl, rfl⟩ | ⟨ha, hb, hab, hz⟩)
        · refine ⟨Or.inl rfl, Or.inr (Or.inl rfl), hc _ (Or.inl rfl), ?_⟩
          rintro z (rfl | hz)
          · exact Or.inl (le_refl _)
          · exact Or.inr (hd z hz)
        · refine ⟨Or.inr ha, Or.inr hb, hab, ?_⟩
          rintro z (rfl | hz')
          · exact Or.inl (le_of_lt (hc _ ha))
          · exact hz z hz'
      · rintro ⟨ha, hb, hab, hz⟩
        rcases ha with rfl | ha
        · left
          refine ⟨rfl, ?_⟩
          rcases hb with rfl | hb
          · exact absurd hab (lt_irrefl _)
          · rcases hz d (Or.inr (Or.inl rfl)) with h3 | h3
            · exact absurd (hc d (Or.inl rfl)) (not_lt.2 h3)
            · exact le_antisymm h3 (hd _ hb)
        · right
          rcases hb with rfl | hb
          · exact absurd (lt_trans hab (hc _ ha)) (lt_irrefl _)
          · exact ⟨ha, hb, hab, fun z hz' => hz z (Or.inr hz')⟩


theorem adj_lt {l : List α} {a b : α} (h : Adj l a b) : a < b := h.2.2.1

theorem pairs_lt {l : List α} (h : l.Pairwise (· < ·)) {a b : α} (hab : (a, b) ∈ pairs l) :
    a < b := adj_lt ((mem_pairs_iff_adj h).1 hab)

/-! ### `leftOf`, `rightOf` -/

theorem getLast?_sorted {l : List α} (h : l.Pairwise (· < ·)) {a : α} :
    l.getLast? = some a ↔ a ∈ l ∧ ∀ z ∈ l, z ≤ a := by
  have key : ∀ c, l.getLast? = some c → c ∈ l ∧ ∀ z ∈ l, z ≤ c := by
    intro c hc
    obtain ⟨t, rfl⟩ := List.getLast?_eq_some_iff.1 hc
    rw [List.pairwise_append] at h
    refine ⟨by simp, ?_⟩
    intro z hz
    rcases List.mem_append.1 hz with hz | hz
    · exact le_of_lt (h.2.2 z hz c (by simp))
    · simp only [List.mem_singleton] at hz; exact le_of_eq hz
  constructor
  · exact key a
  · rintro ⟨ha, hz⟩
    cases hl : l.getLast? with
    | none => rw [List.getLast?_eq_none_iff] at hl; subst hl; simp at ha
    | some c =>
      obtain ⟨hc, hzc⟩ := key c hl
      exact congrArg some (le_antisymm (hz c hc) (hzc a ha))

theorem head?_sorted {l : List α} (h : l.Pairwise (· < ·)) {a : α} :
    l.head? = some a ↔ a ∈ l ∧ ∀ z ∈ l, a ≤ z := by
  cases l with
  | nil => simp
  | cons c t =>
    rw [List.pairwise_cons] at h
    simp only [List.head?_cons, Option.some.injEq, List.mem_cons]
    constructor
    · rintro rfl
      refine ⟨Or.inl rfl, ?_⟩
      rintro z (rfl | hz)
      · exact le_refl _
      · exact le_of_lt (h.1 z hz)
    · rintro ⟨ha | ha, hz⟩
      · exact ha.symm
      · exact le_antisymm (le_of_lt (h.1 a ha)) (hz c (Or.inl rfl)) 

theorem leftOf_eq_some {l : List α} (h : l.Pairwise (· < ·)) {x a : α} :
    leftOf x l = some a ↔ a ∈ l ∧ a < x ∧ ∀ z ∈ l, z < x → z ≤ a := by
  unfold leftOf
  rw [getLast?_sorted (h.sublist List.filter_sublist)]
  simp only [List.mem_filter, decide_eq_true_eq]
  constructor
  · rintro ⟨⟨h1, h2⟩, h3⟩; exact ⟨h1, h2, fun z hz hzx => h3 z ⟨hz, hzx⟩⟩
  · rintro ⟨h1, h2, h3⟩; exact ⟨⟨h1, h2⟩, fun z hz => h3 z hz.1 hz.2⟩

theorem leftOf_eq_none {l : List α} {x : α} :
    leftOf x l = none ↔ ∀ z ∈ l, ¬ z < x := by
  unfold leftOf
  rw [List.getLast?_eq_none_iff, List.filter_eq_nil_iff]
  simp only [decide_eq_true_eq]

theorem rightOf_eq_some {l : List α} (h : l.Pairwise (· < ·)) {x b : α} :
    rightOf x l = some b ↔ b ∈ l ∧ x < b ∧ ∀ z ∈ l, x < z → b ≤ z := by
  unfold rightOf
  rw [head?_sorted (h.sublist List.filter_sublist)]
  simp only [List.mem_filter, decide_eq_true_eq]
  constructor
  · rintro ⟨⟨h1, h2⟩, h3⟩; exact ⟨h1, h2, fun z hz hzx => h3 z ⟨hz, hzx⟩⟩
  · rintro ⟨h1, h2, h3⟩; exact ⟨⟨h1, h2⟩, fun z hz => h3 z hz.1 hz.2⟩

theorem rightOf_eq_none {l : List α} {x : α} :
    rightOf x l = none ↔ ∀ z ∈ l, ¬ x < z := by
  unfold rightOf
  rw [List.head?_eq_none_iff, List.filter_eq_nil_iff]
  simp only [decide_eq_true_eq]

/-- a point to the left exists iff `leftOf` is `some` -/
theorem leftOf_isSome {l : List α} {x : α} : (leftOf x l).isSome ↔ ∃ z ∈ l, z < x := by
  rw [← Option.ne_none_iff_isSome, Ne, leftOf_eq_none]; push Not; rfl

theorem rightOf_isSome {l : List α} {x : α} : (rightOf x l).isSome ↔ ∃ z ∈ l, x < z := by
  rw [← Option.ne_none_iff_isSome, Ne, rightOf_eq_none]; push Not; rfl

/-! ### `pairs` by index, contiguous sub-lists -/

theorem mem_pairs_iff_getElem? {l : List α} {a b : α} :
    (a, b) ∈ pairs l ↔ ∃ j, l[j]? = some a ∧ l[j + 1]? = some b := by
  induction l with
  | nil => simp [pairs]
  | cons c r ih =>
    cases r with
    | nil => simp [pairs]
    | cons d r =>
      simp only [pairs, List.mem_cons, Prod.mk.injEq, ih]
      constructor
      · rintro (⟨rfl, rfl⟩ | ⟨j, h1, h2⟩)
        · exact ⟨0, rfl, rfl⟩
        · exact ⟨j + 1, by simpa using h1, by simpa using h2⟩
      · rintro ⟨j, h1, h2⟩
        cases j with
        | zero => left; simp at h1 h2; exact ⟨h1.symm, h2.symm⟩
        | succ j => right; exact ⟨j, by simpa using h1, by simpa using h2⟩

theorem pairs_take_subset {l : List α} {k : Nat} {iv : Ival α} (h : iv ∈ pairs (l.take k)) :
    iv ∈ pairs l := by
  obtain ⟨a, b⟩ := iv
  rw [mem_pairs_iff_getElem?] at h ⊢
  obtain ⟨j, h1, h2⟩ := h
  rw [List.getElem?_take] at h1 h2
  refine ⟨j, ?_, ?_⟩
  · split at h1 <;> simp_all
  · split at h2 <;> simp_all

theorem pairs_drop_subset {l : List α} {k : Nat} {iv : Ival α} (h : iv ∈ pairs (l.drop k)) :
    iv ∈ pairs l := by
  obtain ⟨a, b⟩ := iv
  rw [mem_pairs_iff_getElem?] at h ⊢
  obtain ⟨j, h1, h2⟩ := h
  rw [List.getElem?_drop] at h1 h2
  exact ⟨k + j, h1, by rw [← h2]; congr 1⟩

/-- `pairs` of a contiguous sub-list are pairs of the list -/
theorem pairs_window_subset {l : List α} {i k : Nat} {iv : Ival α}
    (h : iv ∈ pairs ((l.drop i).take k)) : iv ∈ pairs l :=
  pairs_drop_subset (pairs_take_subset h)

theorem sorted_getElem?_lt {l : List α} (h : l.Pairwise (· < ·)) {i j : Nat} {a b : α}
    (hi : l[i]? = some a) (hj : l[j]? = some b) (hij : i < j) : a < b := by
  obtain ⟨hi', rfl⟩ := List.getElem?_eq_some_iff.1 hi
  obtain ⟨hj', rfl⟩ := List.getElem?_eq_some_iff.1 hj
  exact List.pairwise_iff_getElem.1 h i j hi' hj' hij

theorem sorted_findIdx {l : List α} (h : l.Pairwise (· < ·)) {i : Nat} {x : α}
    (hi : l[i]? = some x) : l.findIdx (fun y => decide (y = x)) = i := by
  obtain ⟨hi', hx⟩ := List.getElem?_eq_some_iff.1 hi
  rw [List.findIdx_eq hi']
  refine ⟨by simpa using hx, ?_⟩
  intro j hji
  have := sorted_getElem?_lt h (List.getElem?_eq_getElem (lt_trans hji hi')) hi hji
  simpa using ne_of_lt this

/-- a pair `(l[j], l[j+1])` lies in every window `[start, stop)` with `start ≤ j`, `j + 1 < stop` -/
theorem mem_pairs_window {l : List α} {j start stop : Nat} {a b : α}
    (h1 : l[j]? = some a) (h2 : l[j + 1]? = some b) (hs : start ≤ j) (he : j + 1 < stop) :
    (a, b) ∈ pairs ((l.drop start).take (stop - start)) := by
  rw [mem_pairs_iff_getElem?]
  refine ⟨j - start, ?_, ?_⟩
  · rw [List.getElem?_take, if_pos (by omega), List.getElem?_drop, ← h1]; congr 1; omega
  · rw [List.getElem?_take, if_pos (by omega), List.getElem?_drop, ← h2]; congr 1; omega

theorem pairs_nodup {l : List α} (h : l.Pairwise (· < ·)) : (pairs l).Nodup := by
  induction l with
  | nil => simp [pairs]
  | cons c r ih =>
    cases r with
    | nil => simp [pairs]
    | cons d r =>
      rw [List.pairwise_cons] at h
      simp only [pairs, List.nodup_cons]
      refine ⟨?_, ih h.2⟩
      intro hm
      have := ((mem_pairs_iff_adj h.2).1 hm).1
      exact lt_irrefl _ (h.1 c this)

/-! ### the points of a closed interval -/

/-- the points of `l` in `[p, q]` (the model's `between` in `updInterp`) -/
def between (p q : α) (l : List α) : List α :=
  l.filter (fun y => !(decide (y < p)) && !(decide (q < y)))

theorem mem_between {p q y : α} {l : List α} : y ∈ between p q l ↔ y ∈ l ∧ p ≤ y ∧ y ≤ q := by
  simp [between]

theorem between_eq_filter (p q : α) (l : List α) :
    between p q l = l.filter (fun y => ¬ y < p ∧ ¬ q < y) := by
  unfold between
  apply List.filter_congr
  intro y _
  by_cases h1 : y < p <;> by_cases h2 : q < y <;> simp [h1, h2]

theorem sorted_between {p q : α} {l : List α} (h : l.Pairwise (· < ·)) :
    (between p q l).Pairwise (· < ·) := h.sublist List.filter_sublist

theorem mem_pairs_between {p q a b : α} {l : List α} (h : l.Pairwise (· < ·)) :
    (a, b) ∈ pairs (between p q l) ↔ (a, b) ∈ pairs l ∧ p ≤ a ∧ b ≤ q := by
  rw [mem_pairs_iff_adj h, mem_pairs_iff_adj (sorted_between h)]
  simp only [Adj, mem_between]
  constructor
  · rintro ⟨⟨ha, hpa, haq⟩, ⟨hb, hpb, hbq⟩, hab, hz⟩
    refine ⟨⟨ha, hb, hab, ?_⟩, hpa, hbq⟩
    intro z hz'
    rcases lt_or_ge z p with h1 | h1
    · exact Or.inl (le_of_lt (lt_of_lt_of_le h1 hpa))
    · rcases lt_or_ge q z with h2 | h2
      · exact Or.inr (le_of_lt (lt_of_le_of_lt hbq h2))
      · exact hz z ⟨hz', h1, h2⟩
  · rintro ⟨⟨ha, hb, hab, hz⟩, hpa, hbq⟩
    exact ⟨⟨ha, hpa, le_trans (le_of_lt hab) hbq⟩, ⟨hb, le_trans hpa (le_of_lt hab), hbq⟩, hab,
      fun z hz' => hz z hz'.1⟩

/-! ### `pairs` after an insertion -/

/-- The adjacent pairs after inserting `x` (whether or not `x` was present): the old pairs except
the one split by `x`, plus the two pairs formed with the neighbours of `x`. -/
theorem mem_pairs_sinsert {l : List α} (h : l.Pairwise (· < ·)) {x u v : α} :
    (u, v) ∈ pairs (sinsert x l) ↔
      ((u, v) ∈ pairs l ∧
          ¬(leftOf x (sinsert x l) = some u ∧ rightOf x (sinsert x l) = some v)) ∨
      (leftOf x (sinsert x l) = some u ∧ v = x) ∨
      (u = x ∧ rightOf x (sinsert x l) = some v) := by
  have hs := sorted_sinsert (x := x) h
  rw [mem_pairs_iff_adj h, mem_pairs_iff_adj hs, leftOf_eq_some hs, rightOf_eq_some hs]
  simp only [Adj, mem_sinsert]
  constructor
  · rintro ⟨hu, hv, huv, hz⟩
    rcases hz x (Or.inl rfl) with hx | hx
    · rcases eq_or_lt_of_le hx with rfl | hx
      · right; right
        refine ⟨rfl, hv, huv, ?_⟩
        intro z hz' hxz
        rcases hz z hz' with h1 | h1
        · exact absurd hxz (not_lt.2 h1)
        · exact h1
      · left
        have hu' : u ∈ l := hu.resolve_left (ne_of_gt hx)
        have hv' : v ∈ l := hv.resolve_left (ne_of_gt (lt_trans hx huv))
        refine ⟨⟨hu', hv', huv, fun z hz' => hz z (Or.inr hz')⟩, ?_⟩
        rintro ⟨⟨_, h1, _⟩, _⟩
        exact lt_asymm hx h1
    · rcases eq_or_lt_of_le hx with rfl | hx
      · right; left
        refine ⟨⟨hu, huv, ?_⟩, rfl⟩
        intro z hz' hxz
        rcases hz z hz' with h1 | h1
        · exact h1
        · exact absurd hxz (not_lt.2 h1)
      · left
        have hv' : v ∈ l := hv.resolve_left (ne_of_lt hx)
        have hu' : u ∈ l := hu.resolve_left (ne_of_lt (lt_trans huv hx))
        refine ⟨⟨hu', hv', huv, fun z hz' => hz z (Or.inr hz')⟩, ?_⟩
        rintro ⟨_, ⟨_, h1, _⟩⟩
        exact lt_asymm hx h1
  · rintro (⟨⟨hu, hv, huv, hz⟩, hn⟩ | ⟨⟨hu, hux, hz⟩, rfl⟩ | ⟨rfl, hv, hxv, hz⟩)
    · refine ⟨Or.inr hu, Or.inr hv, huv, ?_⟩
      rintro z (rfl | hz')
      · by_contra hc
        rw [not_or, not_le, not_le] at hc
        apply hn
        refine ⟨⟨Or.inr hu, hc.1, ?_⟩, ⟨Or.inr hv, hc.2, ?_⟩⟩
        · rintro y (rfl | hy) hyz
          · exact absurd hyz (lt_irrefl _)
          · rcases hz y hy with h1 | h1
            · exact h1
            · exact absurd (lt_trans hc.2 (lt_of_le_of_lt h1 hyz)) (lt_irrefl _)
        · rintro y (rfl | hy) hyz
          · exact absurd hyz (lt_irrefl _)
          · rcases hz y hy with h1 | h1
            · exact absurd (lt_trans hc.1 (lt_of_lt_of_le hyz h1)) (lt_irrefl _)
            · exact h1
      · exact hz z hz'
    · refine ⟨hu, Or.inl rfl, hux, ?_⟩
      intro z hz'
      rcases lt_or_ge z v with h1 | h1
      · exact Or.inl (hz z hz' h1)
      · exact Or.inr h1
    · refine ⟨Or.inl rfl, hv, hxv, ?_⟩
      intro z hz'
      rcases lt_or_ge u z with h1 | h1
      · exact Or.inr (hz z hz' h1)
      · exact Or.inl h1

theorem leftOf_sinsert {l : List α} (h : l.Pairwise (· < ·)) {x : α} :
    leftOf x (sinsert x l) = leftOf x l := by
  apply Option.ext
  intro a
  rw [leftOf_eq_some h, leftOf_eq_some (sorted_sinsert h)]
  simp only [mem_sinsert]
  constructor
  · rintro ⟨h1, h2, h3⟩
    exact ⟨h1.resolve_left (ne_of_lt h2), h2, fun z hz => h3 z (Or.inr hz)⟩
  · rintro ⟨h1, h2, h3⟩
    refine ⟨Or.inr h1, h2, ?_⟩
    rintro z (rfl | hz) hzx
    · exact absurd hzx (lt_irrefl _)
    · exact h3 z hz hzx

theorem rightOf_sinsert {l : List α} (h : l.Pairwise (· < ·)) {x : α} :
    rightOf x (sinsert x l) = rightOf x l := by
  apply Option.ext
  intro a
  rw [rightOf_eq_some h, rightOf_eq_some (sorted_sinsert h)]
  simp only [mem_sinsert]
  constructor
  · rintro ⟨h1, h2, h3⟩
    exact ⟨h1.resolve_left (ne_of_gt h2), h2, fun z hz => h3 z (Or.inr hz)⟩
  · rintro ⟨h1, h2, h3⟩
    refine ⟨Or.inr h1, h2, ?_⟩
    rintro z (rfl | hz) hzx
    · exact absurd hzx (lt_irrefl _)
    · exact h3 z hz hzx

/-- the statement of `mem_pairs_sinsert` with the neighbours taken in the old list -/
theorem mem_pairs_sinsert' {l : List α} (h : l.Pairwise (· < ·)) {x u v : α} :
    (u, v) ∈ pairs (sinsert x l) ↔
      ((u, v) ∈ pairs l ∧ ¬(leftOf x l = some u ∧ rightOf x l = some v)) ∨
      (leftOf x l = some u ∧ v = x) ∨ (u = x ∧ rightOf x l = some v) := by
  rw [mem_pairs_sinsert h, leftOf_sinsert h, rightOf_sinsert h]

/-- inserting a present point changes nothing -/
theorem sinsert_of_mem {l : List α} (h : l.Pairwise (· < ·)) {x : α} (hx : x ∈ l) :
    sinsert x l = l := by
  induction l with
  | nil => simp at hx
  | cons c r ih =>
    rw [List.pairwise_cons] at h
    simp only [sinsert]
    rcases List.mem_cons.1 hx with rfl | hx
    · simp
    · have := h.1 x hx
      rw [if_neg (lt_asymm this), if_neg (ne_of_gt this), ih h.2 hx]

/-! ### `sortList` -/

theorem sortList_aux (l acc : List α) (h : acc.Pairwise (· < ·)) :
    (l.foldl (fun acc x => sinsert x acc) acc).Pairwise (· < ·) ∧
      ∀ y, y ∈ l.foldl (fun acc x => sinsert x acc) acc ↔ y ∈ l ∨ y ∈ acc := by
  induction l generalizing acc with
  | nil => simp [h]
  | cons c r ih =>
    simp only [List.foldl_cons]
    refine ⟨(ih _ (sorted_sinsert h)).1, ?_⟩
    intro y
    rw [(ih _ (sorted_sinsert h)).2, mem_sinsert, List.mem_cons]
    tauto

theorem sorted_sortList (l : List α) : (sortList l).Pairwise (· < ·) :=
  (sortList_aux l [] List.Pairwise.nil).1

theorem mem_sortList {l : List α} {y : α} : y ∈ sortList l ↔ y ∈ l := by
  unfold sortList
  rw [(sortList_aux l [] List.Pairwise.nil).2]; simp

/-! ### loss tables -/
section tables
variable [Field α] (r12 : α → α) (sc : α)

theorem linsert_perm (e : Ival α × Loss α) (l : List (Ival α × Loss α)) :
    (linsert r12 sc e l).Perm (e :: l) := by
  induction l with
  | nil => simp [linsert]
  | cons f r ih =>
    simp only [linsert]
    split
    · exact List.Perm.refl _
    · exact ((List.Perm.cons f ih).trans (List.Perm.swap e f r))

theorem tkeys_linsert_perm (e : Ival α × Loss α) (l : List (Ival α × Loss α)) :
    (tkeys (linsert r12 sc e l)).Perm (e.1 :: tkeys l) := by
  have := (linsert_perm r12 sc e l).map Prod.fst
  simpa [tkeys] using this

theorem tkeys_lerase (iv : Ival α) (l : List (Ival α × Loss α)) :
    tkeys (lerase iv l) = (tkeys l).filter (fun k => !(decide (k = iv))) := by
  simp only [tkeys, lerase, List.filter_map]
  rfl

theorem mem_tkeys_lerase {iv k : Ival α} {l : List (Ival α × Loss α)} :
    k ∈ tkeys (lerase iv l) ↔ k ∈ tkeys l ∧ k ≠ iv := by
  rw [tkeys_lerase]; simp

theorem nodup_tkeys_lerase {iv : Ival α} {l : List (Ival α × Loss α)} (h : (tkeys l).Nodup) :
    (tkeys (lerase iv l)).Nodup := by
  rw [tkeys_lerase]; exact h.filter _

theorem mem_tkeys_lset {iv k : Ival α} {v : Loss α} {l : List (Ival α × Loss α)} :
    k ∈ tkeys (lset r12 sc iv v l) ↔ k = iv ∨ k ∈ tkeys l := by
  unfold lset
  rw [(tkeys_linsert_perm r12 sc _ _).mem_iff, List.mem_cons, mem_tkeys_lerase]
  constructor
  · rintro (h | h)
    · exact Or.inl h
    · exact Or.inr h.1
  · rintro (h | h)
    · exact Or.inl h
    · by_cases hk : k = iv
      · exact Or.inl hk
      · exact Or.inr ⟨h, hk⟩

theorem nodup_tkeys_lset {iv : Ival α} {v : Loss α} {l : List (Ival α × Loss α)}
    (h : (tkeys l).Nodup) : (tkeys (lset r12 sc iv v l)).Nodup := by
  unfold lset
  rw [(tkeys_linsert_perm r12 sc _ _).nodup_iff, List.nodup_cons]
  refine ⟨?_, nodup_tkeys_lerase h⟩
  rw [mem_tkeys_lerase]
  exact fun h => h.2 rfl

theorem lget_isSome {iv : Ival α} {l : List (Ival α × Loss α)} :
    (lget iv l).isSome = true ↔ iv ∈ tkeys l := by
  simp only [lget, Option.isSome_map, List.find?_isSome, decide_eq_true_eq, tkeys, List.mem_map]

/-- a fold of `lset` over a list of keys adds exactly these keys -/
theorem mem_tkeys_foldl_lset {β : Type} (ps : List β) (key : β → Ival α)
    (val : List (Ival α × Loss α) → β → Loss α) (l : List (Ival α × Loss α)) (k : Ival α) :
    k ∈ tkeys (ps.foldl (fun lc p => lset r12 sc (key p) (val lc p) lc) l) ↔
      (∃ p ∈ ps, k = key p) ∨ k ∈ tkeys l := by
  induction ps generalizing l with
  | nil => simp
  | cons p ps ih =>
    simp only [List.foldl_cons, ih, mem_tkeys_lset, List.mem_cons, exists_eq_or_imp]
    constructor
    · rintro (h | h | h)
      · exact Or.inl (Or.inr h)
      · exact Or.inl (Or.inl h)
      · exact Or.inr h
    · rintro ((h | h) | h)
      · exact Or.inr (Or.inl h)
      · exact Or.inl h
      · exact Or.inr (Or.inr h)

theorem nodup_tkeys_foldl_lset {β : Type} (ps : List β) (key : β → Ival α)
    (val : List (Ival α × Loss α) → β → Loss α) (l : List (Ival α × Loss α))
    (h : (tkeys l).Nodup) :
    (tkeys (ps.foldl (fun lc p => lset r12 sc (key p) (val lc p) lc) l)).Nodup := by
  induction ps generalizing l with
  | nil => simpa using h
  | cons p ps ih =>
    simp only [List.foldl_cons]
    exact ih _ (nodup_tkeys_lset r12 sc h)

end tables

end L1D
