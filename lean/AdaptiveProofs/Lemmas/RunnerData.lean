import AdaptiveProofs.Lemmas.RunnerCoreOps
import AdaptiveProofs.Lemmas.RunnerBound

/-!
The bookkeeping invariant on states of the runner model and its preservation by `Runner.step`.
-/
namespace Runner

/-- the bookkeeping invariant of a state -/
abbrev DInv (s : State) : Prop :=
  Core s.cfg s.pending s.idToPoint s.toRetry s.tracebacks s.nextId s.nextFut s.trace

/-- inside `_ask`: the retry pids about to be resubmitted -/
def AskOK (s : State) : Prop :=
  ∀ n pids, s.phase = .asking n pids →
    pids.Nodup ∧ ∀ p ∈ pids, (aget p s.toRetry).isSome = true ∧ p ∉ s.pending.map Prod.snd

def Inv (s : State) : Prop := DInv s ∧ AskOK s

theorem inv_init (cfg : Cfg) : Inv (init cfg) :=
  ⟨core_init cfg, by intro n pids h; simp [init] at h⟩

theorem dinv_logIf {s : State} (e : LogEntry) (h : DInv s) : DInv (logIf s e) := by
  simp only [DInv, logIf_cfg, logIf_pending, logIf_idToPoint, logIf_toRetry, logIf_tracebacks,
    logIf_nextId, logIf_nextFut, logIf_trace]
  exact h

theorem dinv_emit_inert {s : State} {c : Call} (h : DInv s) (hc : Inert c)
    (hr : ∀ p x, c ≠ .raise p x) : DInv (emit s c) :=
  Core.snoc_inert h hc (fun p x e => absurd e (hr p x))

theorem core_inerts {cfg : Cfg} {pend idp rty : List (Nat × Nat)} {tb : List Nat} {nid nfut : Nat}
    (l : List Call) : ∀ {tr : List Call}, Core cfg pend idp rty tb nid nfut tr →
    (∀ c ∈ l, Inert c ∧ ∀ p x, c ≠ .raise p x) → Core cfg pend idp rty tb nid nfut (tr ++ l) := by
  induction l with
  | nil => intro tr h _; simpa using h
  | cons c r ih =>
    intro tr h hl
    have h1 := Core.snoc_inert h (hl c (by simp)).1 (fun p x e => absurd e ((hl c (by simp)).2 p x))
    have := ih h1 (fun c' hc' => hl c' (by simp [hc']))
    simpa using this

theorem dinv_beginExit {s : State} (h : DInv s) (st : Status) : DInv (beginExit s st) := by
  rw [beginExit_eq]
  refine core_inerts _ h ?_
  intro c hc
  simp only [List.mem_cons, List.mem_map] at hc
  rcases hc with rfl | ⟨fp, _, rfl⟩
  · exact ⟨Or.inr (Or.inl rfl), by simp⟩
  · exact ⟨Or.inr (Or.inr (Or.inl ⟨_, rfl⟩)), by simp⟩

theorem dinv_submitAll (l : List Nat) : ∀ s : State, DInv s → l.Nodup →
    (∀ p ∈ l, (aget p s.idToPoint).isSome = true ∧ p ∉ s.pending.map Prod.snd ∧
      ((aget p s.toRetry).isSome = true ∨ nFail p s.trace = 0)) →
    DInv (submitAll s l) := by
  induction l with
  | nil => intro s h _ _; exact h
  | cons pid r ih =>
    intro s h hnd hl
    rw [List.nodup_cons] at hnd
    obtain ⟨h1, h2, h3⟩ := hl pid (by simp)
    obtain ⟨x, hx⟩ := Option.isSome_iff_exists.1 h1
    unfold submitAll
    apply ih
    · have := Core.submit h hx h2 h3
      simpa [emit, hx] using this
    · exact hnd.2
    · intro p hp
      obtain ⟨a, b, c⟩ := hl p (by simp [hp])
      have hne : p ≠ pid := by rintro rfl; exact hnd.1 hp
      refine ⟨a, ?_, ?_⟩
      · simp only [emit, List.map_append, List.mem_append, List.map_cons, List.map_nil,
          List.mem_singleton, not_or]
        exact ⟨b, hne⟩
      · simpa [emit] using c

theorem dinv_processOne {s : State} (h : DInv s) (fut : Nat) (o : Outcome) :
    DInv (processOne s fut o).1 := by
  cases hp : aget fut s.pending with
  | none => rw [processOne_none hp]; exact h
  | some pid =>
    have hm := mem_of_aget hp
    obtain ⟨_, x, hx, _⟩ := h.pend_spec fut pid hm
    have hfail := h.pend_fail hm
    cases o with
    | ok y =>
      rw [processOne_ok hp]
      simp only [DInv, emit, logIf_cfg, logIf_pending, logIf_idToPoint, logIf_toRetry,
        logIf_tracebacks, logIf_nextId, logIf_nextFut, logIf_trace, hx, Option.getD_some]
      exact Core.tell h y hp hx
    | fail =>
      rw [processOne_fail hp]
      have hex : (aget pid s.toRetry).getD 0 + 1 > s.cfg.retries →
          Core s.cfg (aerase fut s.pending) s.idToPoint (aerase pid s.toRetry)
            (if pid ∈ s.tracebacks then s.tracebacks else s.tracebacks ++ [pid]) s.nextId s.nextFut
            (s.trace ++ [Call.evalFailed fut pid]) := by
        intro hgt
        refine Core.fail h hp (aerase_keys_nodup h.rty_keys) (fun p hne => aget_aerase_ne hne)
          (Or.inr ⟨aget_aerase_self h.rty_keys, ?_⟩)
        rw [hfail.1]; exact hgt
      split
      · rename_i hgt
        have hc := hex hgt
        split
        · rename_i hraise
          have := Core.snoc_inert hc (c := .raise pid ((aget pid s.idToPoint).getD 0))
            (Or.inr (Or.inr (Or.inr ⟨_, _, rfl⟩))) (by
              intro p x' e
              cases e
              refine ⟨hraise, ?_, ?_⟩
              · rw [hx]; exact hc.id_spec pid x hx
              · simp only [nFail_snoc, if_true]
                have := hfail.1; have := hfail.2
                omega)
          simpa using this
        · exact hc
      · rename_i hle
        refine Core.fail h hp (aset_keys_nodup h.rty_keys) (fun p hne => by rw [aget_aset, if_neg hne])
          (Or.inl ⟨?_, ?_⟩)
        · rw [aget_aset, if_pos rfl, hfail.1]
        · rw [hfail.1]; omega

theorem dinv_processFutures {s : State} (h : DInv s) (l : List (Nat × Outcome)) :
    DInv (processFutures s l).1 :=
  processFutures_induct DInv l (fun _ fut o _ hs => dinv_processOne hs fut o) s h

theorem retryPids_spec {s : State} (h : DInv s) :
    (retryPids s).Nodup ∧
    ∀ p ∈ retryPids s, (aget p s.toRetry).isSome = true ∧ p ∉ s.pending.map Prod.snd := by
  refine ⟨h.rty_keys.sublist List.filter_sublist, ?_⟩
  intro p hp
  simp only [retryPids, List.mem_filter, Bool.not_eq_true', ← Bool.not_eq_true, any_pid_iff] at hp
  exact ⟨aget_isSome_iff.2 hp.1, hp.2⟩

theorem dinv_beginGet {s : State} (h : DInv s) : DInv (beginGet s) ∧ AskOK (beginGet s) := by
  obtain ⟨hnd, hr⟩ := retryPids_spec h
  rcases beginGet_spec s with ⟨_, e⟩ | ⟨_, e⟩
  · rw [e]
    refine ⟨dinv_logIf _ h, ?_⟩
    intro n pids hph
    simp only [Phase.asking.injEq] at hph
    obtain ⟨_, rfl⟩ := hph
    simpa using And.intro hnd hr
  · rw [e]
    refine ⟨?_, by intro n pids hph; simp at hph⟩
    refine dinv_submitAll _ _ (dinv_logIf _ h) (hnd.sublist (List.take_sublist _ _)) ?_
    intro p hp
    obtain ⟨a, b⟩ := hr p (List.mem_of_mem_take hp)
    obtain ⟨c, hc⟩ := Option.isSome_iff_exists.1 a
    simp only [logIf_idToPoint, logIf_pending, logIf_toRetry, logIf_trace]
    exact ⟨(h.rty_spec p c hc).2.2.2, b, Or.inl a⟩

theorem dinv_finishAsk {s : State} (h : DInv s) {n : Nat} {pids : List Nat} (pts : List Nat)
    (hnd : pids.Nodup)
    (hp : ∀ p ∈ pids, (aget p s.toRetry).isSome = true ∧ p ∉ s.pending.map Prod.snd) :
    DInv (finishAsk s n pids pts) := by
  unfold finishAsk
  simp only []
  have hc := Core.ask h (n - pids.length) pts
  have hidlt : ∀ p, (aget p s.idToPoint).isSome = true → p < s.nextId := by
    intro p hp
    obtain ⟨x, hx⟩ := Option.isSome_iff_exists.1 hp
    exact h.id_lt hx
  have hpid : ∀ p ∈ pids, (aget p s.idToPoint).isSome = true := by
    intro p hpm
    obtain ⟨c, hc⟩ := Option.isSome_iff_exists.1 (hp p hpm).1
    exact (h.rty_spec p c hc).2.2.2
  refine dinv_submitAll _ _ hc ?_ ?_
  · refine List.nodup_append.2 ⟨hnd, List.nodup_range', ?_⟩
    intro a ha b hb
    have := hidlt a (hpid a ha)
    have := (List.mem_range'_1.1 hb).1
    simp only [emit] at this
    omega
  · intro p hpm
    simp only [emit]
    rcases List.mem_append.1 hpm with hpm | hpm
    · obtain ⟨x, hx⟩ := Option.isSome_iff_exists.1 (hpid p hpm)
      exact ⟨by rw [aget_append_of_some hx]; rfl, (hp p hpm).2, Or.inl (hp p hpm).1⟩
    · have hr := List.mem_range'_1.1 hpm
      simp only [emit] at hr
      refine ⟨?_, ?_, Or.inr ?_⟩
      · rw [aget_isSome_iff, List.map_append, keys_zip_range']
        exact List.mem_append.2 (Or.inr hpm)
      · intro hm
        obtain ⟨⟨f, p'⟩, hm', rfl⟩ := List.mem_map.1 hm
        obtain ⟨_, x, hx, _⟩ := h.pend_spec f p' hm'
        have := h.id_lt hx
        omega
      · simpa using (h.fresh p hr.1).1

/-- the only way into `_ask` -/
theorem step_asking {s : State} {e : Ev} {n : Nat} {pids : List Nat}
    (h : (step s e).phase = .asking n pids) :
    (s.phase = .head ∧ e = .goal false) ∨ (step s e = s) := by
  unfold step at h ⊢
  split at h
  · rename_i b hph
    simp only at h ⊢
    split at h
    · rw [beginExit_eq] at h; simp only at h; split at h <;> simp at h
    · left; rename_i hb; simp at hb; exact ⟨hph, by rw [hb]⟩
  · simp [finishAsk] at h
  · split at h
    · simp at h
    · rename_i l hw _
      obtain ⟨_, _, c⟩ := processFutures_frame l s
      rw [hw] at c
      split at h
      · rw [beginExit_eq] at h; simp only at h; split at h <;> simp at h
      · rename_i s' heq
        rw [heq] at c; simp only at c
        split at h
        · rename_i hst; rw [hst] at h; cases h
        · simp at h
  · split at h
    · simp at h
    · rw [beginExit_eq] at h; simp only at h; split at h <;> simp at h
  · rename_i st l hph
    unfold finishExit at h
    obtain ⟨_, _, c⟩ := processFutures_frame l s
    rw [hph] at c
    split at h
    · split at h
      · simp at h
      · rename_i s' heq
        rw [heq] at c; simp only at c
        split at h
        · rename_i hst; rw [hst] at h; cases h
        · simp at h
    · simp at h
  · split at h <;> simp at h
  · right; rfl
  · simp at h

theorem inv_step {s : State} (h : Inv s) (e : Ev) : Inv (step s e) := by
  obtain ⟨hd, ha⟩ := h
  have hdinv : DInv (step s e) := by
    unfold step
    split
    · rename_i b _
      simp only []
      have h1 : DInv (emit s (.goal b)) :=
        dinv_emit_inert hd (Or.inl ⟨_, rfl⟩) (by simp)
      split
      · exact dinv_beginExit h1 _
      · exact (dinv_beginGet h1).1
    · rename_i n pids pts hph
      obtain ⟨a, b⟩ := ha n pids hph
      exact dinv_finishAsk hd pts a b
    · split
      · exact hd
      · rename_i l _ _
        have := dinv_processFutures hd l
        split
        · rename_i heq; rw [heq] at this; exact dinv_beginExit this _
        · rename_i heq; rw [heq] at this
          split <;> exact this
    · split
      · exact hd
      · exact dinv_beginExit hd _
    · rename_i st l _
      unfold finishExit
      have := dinv_processFutures hd l
      split
      · split
        · rename_i heq; rw [heq] at this; exact this
        · rename_i heq; rw [heq] at this
          split <;> exact this
      · exact hd
    · split <;> exact hd
    · exact hd
    · exact hd
  refine ⟨hdinv, ?_⟩
  intro n pids hph
  rcases step_asking hph with ⟨hh, rfl⟩ | hs
  · have hstep : step s (.goal false) = beginGet (emit s (.goal false)) := by
      unfold step; simp [hh]
    rw [hstep] at hph ⊢
    have h1 : DInv (emit s (.goal false)) := dinv_emit_inert hd (Or.inl ⟨_, rfl⟩) (by simp)
    exact (dinv_beginGet h1).2 n pids hph
  · rw [hs] at hph ⊢; exact ha n pids hph

theorem inv_run (evs : List Ev) : ∀ s : State, Inv s → Inv (run s evs) := by
  induction evs with
  | nil => intro s h; exact h
  | cons e es ih => intro s h; exact ih (step s e) (inv_step h e)

end Runner
