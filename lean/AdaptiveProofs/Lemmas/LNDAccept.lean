import AdaptiveProofs.Lemmas.LNDDead
import AdaptiveProofs.Lemmas.LNDVerts
import AdaptiveProofs.Lemmas.LNDFresh

/-! Two invariants of the reachable states of the LearnerND model (C04) that turn the state-level hypotheses of the
2-D queue theorems (`SubVertsInOwner`, `ChosenInDomainAt` / `AskDom`) into THEOREMS:

* `SubsAccepted env s` — every stored sub-triangulation `(x, sv)` belongs to a simplex `x` of the triangulation, its
  vertex list is `ptsOf vs x ++ pend` (the owner's corners, then the points put into it) and EVERY point of `pend` was
  accepted by `point_in_simplex` for the owner: `env.pis p (ptsOf vs x) = true`.  Invariant of every `step`
  (`subsAccepted_preserved`, `run_subsAccepted`; needs only the combinatorial `TriGeom`): the only place that appends
  a vertex is `_try_adding_pending_point_to_simplex` (`tryAdd`), guarded by `pis`; `tell` / `_update_losses` delete
  sub-triangulations and re-add their points through `tryAdd`; `remove_unfinished` deletes all.
* `VertsInDomain env s` — every evaluated point, every vertex of the triangulation and every point put into a
  sub-triangulation passes `inside_bounds`.  Invariant of every step whose TOLD point lies in the domain (`InDomain`,
  the property's quantifier): `tell_pending` ignores points outside the domain, so neither `Op.tellPending` nor `ask`
  needs a hypothesis (`vertsInDomain_preserved`, `run_vertsInDomain`).

Both are instances of `SubsG env G` (`G p` an extra property of the points put into sub-triangulations).

From them: `ChosenInDomainAt` (`chosenInDomainAt_of_inv`), the state-relative sub-vertex fact `SubVertsInOwnerAt`
(`subVertsInOwnerAt_of_inv`), and the queue theorems for `ChooseGeomAcc` (the geometric field `inOwner` only for
vertex lists whose later entries the owner accepts): `run_cover_reach`, `run_geomOK_reach`, `chosen_dead_acc`. -/
set_option linter.unusedSectionVars false
set_option linter.unusedSimpArgs false
set_option linter.unusedVariables false
namespace LND
variable {α : Type} [Sub α] [Mul α] [Div α] [LT α] [DecidableLT α]

/-! ### the generic invariant -/

/-- every sub-triangulation belongs to a simplex of `simps`; its vertices are that simplex' corners followed by points
`p` that `point_in_simplex` accepted for the simplex and that satisfy `G` -/
def SubFormG (env : Env α) (G : Pt → Prop) (vs : List Pt) (simps : List Simplex)
    (subs : List (Simplex × List Pt)) : Prop :=
  ∀ x sv, get? x subs = some sv → x ∈ simps ∧ ∃ pend, sv = ptsOf vs x ++ pend ∧
    ∀ p ∈ pend, env.pis p (ptsOf vs x) = true ∧ G p

/-- `SubFormG` in a state; without triangulation there is no sub-triangulation -/
def SubsG (env : Env α) (G : Pt → Prop) (s : State α) : Prop :=
  (s.tri = none → s.book.subs = []) ∧
  ∀ vs, s.tri = some vs → SubFormG env G vs (env.triSimps vs.length) s.book.subs

theorem SubFormG.nil (env : Env α) (G : Pt → Prop) (vs : List Pt) (simps : List Simplex) :
    SubFormG env G vs simps [] := by
  intro x sv h; simp [get?] at h

theorem SubFormG.mono (env : Env α) {G G' : Pt → Prop} (hGG : ∀ p, G p → G' p) {vs : List Pt} {simps : List Simplex}
    {subs : List (Simplex × List Pt)} (h : SubFormG env G vs simps subs) : SubFormG env G' vs simps subs := by
  intro x sv hx
  obtain ⟨a, pend, b, c⟩ := h x sv hx
  exact ⟨a, pend, b, fun p hp => ⟨(c p hp).1, hGG p (c p hp).2⟩⟩

theorem SubsG.mono (env : Env α) {G G' : Pt → Prop} (hGG : ∀ p, G p → G' p) {s : State α} (h : SubsG env G s) :
    SubsG env G' s :=
  ⟨h.1, fun vs hvs => SubFormG.mono env hGG (h.2 vs hvs)⟩

theorem SubsG.subVerts (env : Env α) {G : Pt → Prop} {s : State α} (h : SubsG env G s) : SubVerts env s :=
  ⟨h.1, fun vs hvs x sv hx => by
    obtain ⟨a, pend, b, _⟩ := h.2 vs hvs x sv hx
    exact ⟨a, pend, b⟩⟩

theorem mem_of_mem_ptsOf {vs : List Pt} {x : Simplex} (h : ∀ i ∈ x, i < vs.length) {p : Pt}
    (hp : p ∈ ptsOf vs x) : p ∈ vs := by
  simp only [ptsOf, List.mem_map] at hp
  obtain ⟨i, hi, rfl⟩ := hp
  have hil := h i hi
  rw [List.getD_eq_getElem?_getD, List.getElem?_eq_getElem hil, Option.getD_some]; exact List.getElem_mem hil

theorem mem_of_mem_dedup : ∀ (l : List Pt) (p : Pt), p ∈ dedup l → p ∈ l
  | [], p, h => by simp [dedup] at h
  | q :: qs, p, h => by
    unfold dedup at h
    split at h
    · exact List.mem_cons_of_mem _ (mem_of_mem_dedup qs p h)
    · rcases List.mem_cons.1 h with h | h
      · rw [h]; exact List.mem_cons_self ..
      · exact List.mem_cons_of_mem _ (mem_of_mem_dedup qs p h)

/-- THE KEY STEP: `_try_adding_pending_point_to_simplex` appends the point only if `point_in_simplex` accepted it -/
theorem tryAdd_subFormG (env : Env α) (G : Pt → Prop) (vs : List Pt) (simps : List Simplex) {b b' : Book α} (p : Pt)
    (t : Simplex) {r : Option (List Simplex)} (ht : t ∈ simps) (hG : G p) (h : tryAdd env vs b p t = .ok (b', r))
    (hf : SubFormG env G vs simps b.subs) : SubFormG env G vs simps b'.subs := by
  by_cases hp : env.pis p (ptsOf vs t) = true
  · obtain ⟨D, A, _, _, hsubs⟩ := tryAdd_of_pis env vs p t hp h
    rw [hsubs]
    intro x sv hx
    by_cases hxt : x = t
    · rw [hxt] at hx ⊢
      rw [get?_put_self] at hx
      simp only [Option.some.injEq] at hx
      refine ⟨ht, ?_⟩
      cases hg : get? t b.subs with
      | none =>
        rw [hg] at hx
        refine ⟨[p], by rw [← hx]; rfl, ?_⟩
        intro q hq
        simp only [List.mem_singleton] at hq
        subst hq; exact ⟨hp, hG⟩
      | some sv0 =>
        rw [hg] at hx
        obtain ⟨_, pend, hpe, hall⟩ := hf t sv0 hg
        refine ⟨pend ++ [p], by rw [← hx, Option.getD_some, hpe, List.append_assoc], ?_⟩
        intro q hq
        rcases List.mem_append.1 hq with hq | hq
        · exact hall q hq
        · simp only [List.mem_singleton] at hq
          subst hq; exact ⟨hp, hG⟩
    · rw [get?_put_ne hxt] at hx
      exact hf x sv hx
  · have hb : b' = b := by
      unfold tryAdd at h
      rw [if_neg hp] at h
      simp only [Except.ok.injEq, Prod.mk.injEq] at h
      exact h.1.symm
    rw [hb]; exact hf

theorem pendLoop_subFormG (env : Env α) (G : Pt → Prop) (vs : List Pt) (simps : List Simplex)
    (losses : List (Simplex × α)) (p : Pt) (hG : G p) (ts : List Simplex) :
    ∀ {b b' : Book α}, (∀ t ∈ ts, t ∈ simps) →
      pendLoop env vs losses p b ts = .ok b' → SubFormG env G vs simps b.subs → SubFormG env G vs simps b'.subs := by
  induction ts with
  | nil => intro b b' _ h hf; simp only [pendLoop, Except.ok.injEq] at h; subst h; exact hf
  | cons t ts ih =>
    intro b b' hts h hf
    have ht := hts t (List.mem_cons_self ..)
    have hts' : ∀ t' ∈ ts, t' ∈ simps := fun t' h' => hts t' (List.mem_cons_of_mem _ h')
    unfold pendLoop at h
    split at h
    · exact absurd h (by simp)
    · rename_i b1 h1
      exact ih hts' h (tryAdd_subFormG env G vs simps p t ht hG h1 hf)
    · rename_i b1 A h1
      split at h
      · exact absurd h (by simp)
      · rename_i b2 h2
        have f1 := tryAdd_subFormG env G vs simps p t ht hG h1 hf
        obtain ⟨u1, _⟩ := updateSubLosses_spec env vs losses t A h2
        exact ih hts' h (by rw [u1]; exact f1)

theorem addPts_subFormG (env : Env α) (G : Pt → Prop) (vs : List Pt) (simps : List Simplex) (sx : Simplex)
    (hsx : sx ∈ simps) (ps : List Pt) : ∀ {b b' : Book α}, (∀ p ∈ ps, G p) → addPts env vs sx b ps = .ok b' →
      SubFormG env G vs simps b.subs → SubFormG env G vs simps b'.subs := by
  induction ps with
  | nil => intro b b' _ h hf; simp only [addPts, Except.ok.injEq] at h; subst h; exact hf
  | cons p ps ih =>
    intro b b' hG h hf
    unfold addPts at h
    split at h
    · exact absurd h (by simp)
    · rename_i b1 r h1
      exact ih (fun q hq => hG q (List.mem_cons_of_mem _ hq)) h
        (tryAdd_subFormG env G vs simps p sx hsx (hG p (List.mem_cons_self ..)) h1 hf)

theorem addLoop_subFormG (env : Env α) (G : Pt → Prop) (vs : List Pt) (simps : List Simplex) (m : α) (unb : List Pt)
    (hG : ∀ p ∈ unb, G p) (A : List Simplex) :
    ∀ {losses l' : List (Simplex × α)} {b b' : Book α}, (∀ x ∈ A, x ∈ simps) →
      addLoop env vs m unb losses b A = .ok (l', b') → SubFormG env G vs simps b.subs →
      SubFormG env G vs simps b'.subs := by
  induction A with
  | nil =>
    intro losses l' b b' _ h hf
    simp only [addLoop, Except.ok.injEq, Prod.mk.injEq] at h
    obtain ⟨_, h2⟩ := h; subst h2; exact hf
  | cons sx rest ih =>
    intro losses l' b b' hA h hf
    have hsx := hA sx (List.mem_cons_self ..)
    have hA' : ∀ x ∈ rest, x ∈ simps := fun x hx => hA x (List.mem_cons_of_mem _ hx)
    unfold addLoop at h
    simp only at h
    split at h
    · exact absurd h (by simp)
    · rename_i b1 hb1
      have f1 := addPts_subFormG env G vs simps sx hsx unb hG hb1 hf
      split at h
      · exact ih hA' h f1
      · split at h
        · exact absurd h (by simp)
        · rename_i b2 h2
          obtain ⟨u1, _⟩ := updateSubLosses_spec env vs _ sx _ h2
          exact ih hA' h (by rw [u1]; exact f1)

/-- the points `_update_losses` re-adds (`pending_points_unbound`) are vertices of deleted sub-triangulations -/
theorem dropDeleted_unb (D : List Simplex) : ∀ (losses : List (Simplex × α)) (subs : List (Simplex × List Pt))
    (unb : List Pt) (p : Pt), p ∈ (dropDeleted losses subs unb D).2.2 →
      p ∈ unb ∨ ∃ x sv, get? x subs = some sv ∧ p ∈ sv := by
  induction D with
  | nil => intro losses subs unb p h; simp only [dropDeleted] at h; exact Or.inl h
  | cons sx rest ih =>
    intro losses subs unb p h
    unfold dropDeleted at h
    cases hg : get? sx subs with
    | none =>
      rw [hg] at h
      simp only at h
      exact ih _ _ _ p h
    | some sv' =>
      rw [hg] at h
      simp only at h
      rcases ih _ _ _ p h with h1 | ⟨x, sv, hx, hp⟩
      · rcases List.mem_append.1 h1 with h1 | h1
        · exact Or.inl h1
        · exact Or.inr ⟨sx, sv', hg, h1⟩
      · have hne : x ≠ sx := by
          intro c; rw [c, get?_del_self] at hx; exact absurd hx (by simp)
        rw [get?_del_ne hne] at hx
        exact Or.inr ⟨x, sv, hx, hp⟩

theorem updateLosses_subFormG (env : Env α) (G : Pt → Prop) {s s' : State α} {vs : List Pt} (simps : List Simplex)
    (D A : List Simplex) (ht : s.tri = some vs) (h : updateLosses env s D A = .ok s')
    (hpre : ∀ x sv, get? x s.book.subs = some sv → x ∉ D → x ∈ simps ∧ ∃ pend, sv = ptsOf vs x ++ pend ∧
      ∀ p ∈ pend, env.pis p (ptsOf vs x) = true ∧ G p)
    (hU : ∀ x sv, get? x s.book.subs = some sv → ∀ p ∈ sv, G p)
    (hA : ∀ x ∈ A, x ∈ simps) : SubFormG env G vs simps s'.book.subs := by
  unfold updateLosses at h
  rw [ht] at h
  simp only at h
  split at h
  · exact absurd h (by simp)
  · rename_i l b hl
    simp only [Except.ok.injEq] at h
    subst h
    refine addLoop_subFormG env G vs simps s.mult _ ?_ A hA hl ?_
    · intro p hp
      have hp1 : p ∈ (dropDeleted s.losses s.book.subs [] D).2.2 := by
        rcases List.mem_append.1 hp with hp | hp
        · have := (List.mem_filter.1 hp).2
          exact (List.mem_filter.1 (mem_of_mem_dedup _ _ (List.contains_iff_mem.1 this))).1
        · exact (List.mem_filter.1 (mem_of_mem_dedup _ _ (List.mem_filter.1 hp).1)).1
      rcases dropDeleted_unb D _ _ _ p hp1 with h0 | ⟨x, sv, hx, hpm⟩
      · exact absurd h0 (by simp)
      · exact hU x sv hx p hpm
    · intro x sv hx
      obtain ⟨h1, h2⟩ := dropDeleted_subs D s.losses s.book.subs [] x sv hx
      exact hpre x sv h1 h2

theorem touchTri_subsG (env : Env α) (G : Pt → Prop) {s s' : State α} (hs : SubsG env G s)
    (h : touchTri env s = .ok s') : SubsG env G s' := by
  unfold touchTri at h
  cases ht : s.tri with
  | some vs => rw [ht] at h; simp only [Except.ok.injEq] at h; subst h; exact hs
  | none =>
    rw [ht] at h
    simp only at h
    split at h
    · obtain ⟨⟨_, _, c, _, _, _⟩, _⟩ :=
        updateLosses_spec (s := { s with tri := some s.data }) env [] (env.triSimps s.data.length) rfl h
      have c' : s'.tri = some s.data := c
      have hsub : s.book.subs = [] := hs.1 ht
      refine ⟨fun hn => by rw [c'] at hn; exact absurd hn (by simp), ?_⟩
      intro vs hvs
      rw [c'] at hvs
      simp only [Option.some.injEq] at hvs
      subst hvs
      refine updateLosses_subFormG (s := { s with tri := some s.data }) env G _ [] _ rfl h ?_ ?_ (fun x hx => hx)
      · intro x sv hx
        have hx' : get? x s.book.subs = some sv := hx
        rw [hsub] at hx'
        simp [get?] at hx'
      · intro x sv hx
        have hx' : get? x s.book.subs = some sv := hx
        rw [hsub] at hx'
        simp [get?] at hx'
    · simp only [Except.ok.injEq] at h; subst h; exact hs

theorem recomputeAll_subsG (env : Env α) (G : Pt → Prop) {s s' : State α} (hs : SubsG env G s)
    (h : recomputeAll env s = .ok s') : SubsG env G s' := by
  unfold recomputeAll at h
  split at h
  · exact absurd h (by simp)
  · rename_i s1 h1
    have k1 := touchTri_subsG env G hs h1
    split at h
    · simp only [Except.ok.injEq] at h; subst h; exact k1
    · rename_i vs hvs
      split at h
      · exact absurd h (by simp)
      · rename_i l b hl
        simp only [Except.ok.injEq] at h; subst h
        refine ⟨fun hn => ?_, ?_⟩
        · have hn' : s1.tri = none := hn
          rw [hvs] at hn'; exact absurd hn' (by simp)
        · intro vs' hvs'
          have hvs'' : s1.tri = some vs' := hvs'
          rw [hvs] at hvs''
          simp only [Option.some.injEq] at hvs''
          subst hvs''
          exact addLoop_subFormG env G vs _ s1.mult [] (fun p hp => absurd hp (by simp)) _ (fun x hx => hx) hl
            (k1.2 vs hvs)

theorem updateRange_subsG (env : Env α) (G : Pt → Prop) {s s' : State α} (a b : α) (hs : SubsG env G s)
    (h : updateRange env s a b = .ok s') : SubsG env G s' := by
  obtain ⟨r, m, hf | hf⟩ := updateRange_form env s a b
  · rw [hf] at h
    exact recomputeAll_subsG env G (s := { s with range := r, mult := m }) hs h
  · rw [hf] at h; simp only [Except.ok.injEq] at h; subst h; exact hs

/-- `tell_pending` ignores points outside the domain: the point it puts into sub-triangulations passed
`inside_bounds` -/
theorem tellPending_subsG (env : Env α) (G : Pt → Prop) {s s' : State α} (p : Pt) (hint : Option Simplex)
    (hG : env.inside p = true → G p) (hs : SubsG env G s) (h : tellPending env s p hint = .ok s') :
    SubsG env G s' := by
  rcases tellPending_form env p hint h with ⟨_, rfl⟩ | ⟨⟨_, hin⟩, s1, b, h1, rfl, hb⟩
  · exact hs
  · have k1 : SubsG env G s1 := touchTri_subsG env G (s := { s with pending := addPending s.pending p }) hs h1
    rcases hb with rfl | ⟨vs, sx, hvs, hb⟩
    · exact k1
    · refine ⟨fun hn => ?_, ?_⟩
      · have hn' : s1.tri = none := hn
        rw [hvs] at hn'; exact absurd hn' (by simp)
      · intro vs' hvs'
        have hvs'' : s1.tri = some vs' := hvs'
        rw [hvs] at hvs''
        simp only [Option.some.injEq] at hvs''
        subst hvs''
        exact pendLoop_subFormG env G vs _ s1.losses p (hG hin) _ (fun t ht => mem_neighborsOf ht) hb (k1.2 vs hvs)

/-- every vertex of a stored sub-triangulation satisfies `G` when the vertices of the triangulation do -/
theorem SubFormG.all (env : Env α) (hT : TriGeom env) {G : Pt → Prop} {vs : List Pt}
    {subs : List (Simplex × List Pt)} (hf : SubFormG env G vs (env.triSimps vs.length) subs)
    (hvs : ∀ v ∈ vs, G v) : ∀ x sv, get? x subs = some sv → ∀ p ∈ sv, G p := by
  intro x sv hx p hp
  obtain ⟨hm, pend, rfl, hall⟩ := hf x sv hx
  rcases List.mem_append.1 hp with hp | hp
  · exact hvs p (mem_of_mem_ptsOf (hT.idx _ _ hm) hp)
  · exact (hall p hp).2

theorem tell_subsG (env : Env α) (hT : TriGeom env) (G : Pt → Prop) {s s' : State α} (p : Pt) (a b : α)
    (hdata : ∀ v ∈ s.data, G v) (hverts : ∀ vs, s.tri = some vs → ∀ v ∈ vs, G v)
    (hs : SubsG env G s) (h : tell env s p a b = .ok s') : SubsG env G s' := by
  rcases tell_form env p a b h with ⟨_, rfl⟩ | ⟨_, s1, h1, hcase⟩
  · exact hs
  · have k1 : SubsG env G s1 :=
      touchTri_subsG env G (s := { s with pending := s.pending.filter (· ≠ p) }) hs h1
    obtain ⟨d1, _, _, _, _, t1⟩ := touchTri_frame env h1
    rcases hcase with ⟨_, rfl⟩ | ⟨_, s3, h3, hcase⟩
    · exact k1
    · have k3 : SubsG env G s3 := updateRange_subsG env G (s := { s1 with data := s1.data ++ [p] }) a b k1 h3
      rcases hcase with ⟨_, rfl⟩ | ⟨vs, hint, D, A, hvs, hadd, hu⟩
      · exact k3
      · obtain ⟨_, _, _, f3⟩ := updateRange_frame env a b h3
        have t3 : s3.tri = some vs := by
          rcases f3 with f | ⟨f, _⟩
          · rw [f]; exact hvs
          · simp only [hvs] at f; exact absurd f (by simp)
        have hvG : ∀ v ∈ vs, G v := by
          rcases t1 with t1 | ⟨t0, t1⟩
          · exact hverts vs (by rw [← t1]; exact hvs)
          · rw [hvs] at t1
            simp only [Option.some.injEq] at t1
            rw [t1]; exact hdata
        obtain ⟨⟨_, _, c, _, _, _⟩, _⟩ :=
          updateLosses_spec (s := { s3 with tri := some (vs ++ [p]) }) env D A rfl hu
        have c' : s'.tri = some (vs ++ [p]) := c
        have hR := hT.report _ _ _ _ hadd
        refine ⟨fun hn => by rw [c'] at hn; exact absurd hn (by simp), ?_⟩
        intro vs' hvs'
        rw [c'] at hvs'
        simp only [Option.some.injEq] at hvs'
        subst hvs'
        have hlen : (vs ++ [p]).length = vs.length + 1 := by simp
        rw [hlen]
        refine updateLosses_subFormG (s := { s3 with tri := some (vs ++ [p]) }) env G _ D A rfl hu ?_ ?_ ?_
        · intro x sv hx hD
          have hx' : get? x s3.book.subs = some sv := hx
          obtain ⟨m1, pend, hp, hall⟩ := k3.2 vs t3 x sv hx'
          refine ⟨(hR x).2 (Or.inl ⟨m1, hD⟩), pend, ?_, ?_⟩
          · rw [ptsOf_append_of_lt [p] (hT.idx _ _ m1)]
            exact hp
          · rw [ptsOf_append_of_lt [p] (hT.idx _ _ m1)]
            exact hall
        · intro x sv hx
          have hx' : get? x s3.book.subs = some sv := hx
          exact SubFormG.all env hT (k3.2 vs t3) hvG x sv hx'
        · intro x hx
          exact (hR x).2 (Or.inr hx)

theorem askBest_subsG (env : Env α) (G : Pt → Prop) (hG : ∀ p, env.inside p = true → G p) {s s' : State α}
    {vs : List Pt} {r : Pt × α} (hs : SubsG env G s) (h : askBest env s vs = .ok (r, s')) : SubsG env G s' := by
  obtain ⟨e, q, s2, _, _, h2, rfl⟩ := askBest_form env h
  have kq : SubsG env G
      { s with book := { s.book with queue := q, p2s := put r.1 e.simplex s.book.p2s } } := ⟨hs.1, hs.2⟩
  have k2 : SubsG env G s2 := tellPending_subsG env G r.1 (some e.simplex) (hG r.1) kq h2
  exact ⟨k2.1, k2.2⟩

theorem init_subsG (env : Env α) (G : Pt → Prop) : SubsG env G (init env) :=
  ⟨fun _ => rfl, fun vs h => absurd h (by simp [init])⟩

/-! ### (1) `SubsAccepted`: the sub-vertex invariant of `_try_adding_pending_point_to_simplex` -/

/-- every stored sub-triangulation `(x, sv)`: `x` is a simplex of the triangulation, `sv = ptsOf vs x ++ pend` (the
owner's corners, then the points put in) and `point_in_simplex` accepted every point of `pend` for the owner -/
def SubsAccepted (env : Env α) (s : State α) : Prop := SubsG env (fun _ => True) s

/-- `SubsAccepted`, spelled out with `dim+1` (simplices have `dim+1` vertices: `SubGeom.size`) -/
theorem SubsAccepted.spec {env : Env α} (hG : SubGeom env) {s : State α} (h : SubsAccepted env s) {vs : List Pt}
    (ht : s.tri = some vs) {x : Simplex} {sv : List Pt} (hx : get? x s.book.subs = some sv) :
    x ∈ env.triSimps vs.length ∧ env.dim + 1 ≤ sv.length ∧ sv.take (env.dim + 1) = ptsOf vs x ∧
      ∀ p ∈ sv.drop (env.dim + 1), env.pis p (ptsOf vs x) = true := by
  obtain ⟨hm, pend, rfl, hall⟩ := h.2 vs ht x sv hx
  have hl : (ptsOf vs x).length = env.dim + 1 := by rw [ptsOf_length]; exact hG.size _ _ hm
  refine ⟨hm, by rw [List.length_append, hl]; omega, List.take_left' hl, ?_⟩
  rw [List.drop_left' hl]
  exact fun p hp => (hall p hp).1

theorem subsAccepted_preserved (env : Env α) (hT : TriGeom env) : Preserved env (SubsAccepted env) where
  hTouch := fun hi h => touchTri_subsG env _ hi h
  hPend := fun p hint hi h => tellPending_subsG env _ p hint (fun _ => trivial) hi h
  hTell := fun p a b hi h => tell_subsG env hT _ p a b (fun _ _ => trivial) (fun _ _ _ _ => trivial) hi h
  hBest := fun hi _ h => askBest_subsG env _ (fun _ _ => trivial) hi h
  hRemove := fun {s} _ => ⟨fun _ => rfl, fun vs _ => SubFormG.nil env _ vs _⟩
  hRand := fun hi => ⟨hi.1, hi.2⟩

theorem init_subsAccepted (env : Env α) : SubsAccepted env (init env) := init_subsG env _

/-- (1) in every reachable state of EVERY history (no hypothesis on the told points) every vertex of a stored
sub-triangulation beyond the owner's corners was accepted by `point_in_simplex` for the owner -/
theorem run_subsAccepted (env : Env α) (hT : TriGeom env) (ops : List (Op α)) {s : State α}
    (h : run env (init env) ops = .ok s) : SubsAccepted env s :=
  run_inv env (subsAccepted_preserved env hT) ops (init_subsAccepted env) h

/-! ### (3) `VertsInDomain` -/

/-- evaluated points, pending points and the vertices of the triangulation lie in the domain -/
def DomBase (env : Env α) (s : State α) : Prop :=
  (∀ p ∈ s.data, env.inside p = true) ∧ (∀ p ∈ s.pending, env.inside p = true) ∧
  ∀ vs, s.tri = some vs → ∀ p ∈ vs, env.inside p = true

/-- every evaluated point, every pending point, every vertex of the triangulation and every point put into a
sub-triangulation passes `inside_bounds` (and the sub-triangulations are `SubsAccepted`) -/
def VertsInDomain (env : Env α) (s : State α) : Prop :=
  DomBase env s ∧ SubsG env (fun p => env.inside p = true) s

theorem VertsInDomain.subsAccepted {env : Env α} {s : State α} (h : VertsInDomain env s) : SubsAccepted env s :=
  SubsG.mono env (fun _ _ => trivial) h.2

theorem DomBase.of_frame {env : Env α} {s s' : State α} (hd : s'.data = s.data)
    (hp : ∀ p ∈ s'.pending, p ∈ s.pending ∨ env.inside p = true)
    (ht : s'.tri = s.tri ∨ (s.tri = none ∧ s'.tri = some s.data)) (h : DomBase env s) : DomBase env s' := by
  obtain ⟨h1, h2, h3⟩ := h
  refine ⟨by rw [hd]; exact h1, ?_, ?_⟩
  · intro p hpm
    rcases hp p hpm with c | c
    · exact h2 p c
    · exact c
  · intro vs hvs
    rcases ht with ht | ⟨_, ht⟩
    · exact h3 vs (by rw [← ht]; exact hvs)
    · rw [ht] at hvs
      simp only [Option.some.injEq] at hvs
      rw [← hvs]; exact h1

theorem mem_addPending_cases {l : List Pt} {p x : Pt} (h : x ∈ addPending l p) : x ∈ l ∨ x = p := by
  unfold addPending at h
  split at h
  · exact Or.inl h
  · rcases List.mem_append.1 h with h | h
    · exact Or.inl h
    · exact Or.inr (by simpa using h)

theorem touchTri_domBase (env : Env α) {s s' : State α} (hs : DomBase env s) (h : touchTri env s = .ok s') :
    DomBase env s' := by
  obtain ⟨a, b, _, _, _, c⟩ := touchTri_frame env h
  exact DomBase.of_frame a (fun p hp => Or.inl (by rw [← b]; exact hp)) c hs

theorem tellPending_domBase (env : Env α) {s s' : State α} (p : Pt) (hint : Option Simplex) (hs : DomBase env s)
    (h : tellPending env s p hint = .ok s') : DomBase env s' := by
  obtain ⟨a, _, _, _, b, c⟩ := tellPending_frame env p hint h
  refine DomBase.of_frame a ?_ c hs
  intro x hx
  rw [b] at hx
  split at hx
  · rename_i hc
    simp only [Bool.and_eq_true] at hc
    rcases mem_addPending_cases hx with hx | hx
    · exact Or.inl hx
    · rw [hx]; exact Or.inr hc.2
  · exact Or.inl hx

theorem tell_domBase (env : Env α) {s s' : State α} (p : Pt) (a b : α) (hin : env.inside p = true)
    (hs : DomBase env s) (h : tell env s p a b = .ok s') : DomBase env s' := by
  rcases tell_form env p a b h with ⟨_, rfl⟩ | ⟨_, s1, h1, hcase⟩
  · exact hs
  · have k0 : DomBase env { s with pending := s.pending.filter (· ≠ p) } :=
      ⟨hs.1, fun x hx => hs.2.1 x (List.mem_filter.1 hx).1, hs.2.2⟩
    have k1 : DomBase env s1 := touchTri_domBase env k0 h1
    rcases hcase with ⟨hout, _⟩ | ⟨_, s3, h3, hcase⟩
    · rw [hin] at hout; exact absurd hout (by simp)
    · have k2 : DomBase env { s1 with data := s1.data ++ [p] } := by
        refine ⟨?_, k1.2.1, k1.2.2⟩
        intro x hx
        rcases List.mem_append.1 hx with hx | hx
        · exact k1.1 x hx
        · simp only [List.mem_singleton] at hx
          rw [hx]; exact hin
      obtain ⟨d3, p3, _, f3⟩ := updateRange_frame env a b h3
      have k3 : DomBase env s3 := DomBase.of_frame d3 (fun x hx => Or.inl (by rw [← p3]; exact hx)) f3 k2
      rcases hcase with ⟨_, rfl⟩ | ⟨vs, hint, D, A, hvs, hadd, hu⟩
      · exact k3
      · have t3 : s3.tri = some vs := by
          rcases f3 with f | ⟨f, _⟩
          · rw [f]; exact hvs
          · simp only [hvs] at f; exact absurd f (by simp)
        obtain ⟨⟨d, pp, c, _, _, _⟩, _⟩ :=
          updateLosses_spec (s := { s3 with tri := some (vs ++ [p]) }) env D A rfl hu
        refine ⟨by rw [d]; exact k3.1, by rw [pp]; exact k3.2.1, ?_⟩
        intro vs' hvs'
        rw [c] at hvs'
        simp only [Option.some.injEq] at hvs'
        subst hvs'
        intro x hx
        rcases List.mem_append.1 hx with hx | hx
        · exact k3.2.2 vs t3 x hx
        · simp only [List.mem_singleton] at hx
          rw [hx]; exact hin

theorem askBest_domBase (env : Env α) {s s' : State α} {vs : List Pt} {r : Pt × α} (hs : DomBase env s)
    (h : askBest env s vs = .ok (r, s')) : DomBase env s' := by
  obtain ⟨e, q, s2, _, _, h2, rfl⟩ := askBest_form env h
  have kq : DomBase env
      { s with book := { s.book with queue := q, p2s := put r.1 e.simplex s.book.p2s } } := hs
  have k2 : DomBase env s2 := tellPending_domBase env r.1 (some e.simplex) kq h2
  exact ⟨k2.1, k2.2.1, k2.2.2⟩

/-- `I` is preserved by the building blocks of the model — by `tell` for points of the domain -/
structure PreservedDom (env : Env α) (I : State α → Prop) : Prop where
  hTouch : ∀ {s s' : State α}, I s → touchTri env s = .ok s' → I s'
  hPend : ∀ {s s' : State α} (p : Pt) (hint : Option Simplex), I s → tellPending env s p hint = .ok s' → I s'
  hTell : ∀ {s s' : State α} (p : Pt) (a b : α), env.inside p = true → I s → tell env s p a b = .ok s' → I s'
  hBest : ∀ {s s' : State α} {vs : List Pt} {r : Pt × α}, I s → s.tri = some vs →
    askBest env s vs = .ok (r, s') → I s'
  hRemove : ∀ {s : State α}, I s → I (removeUnfinished env s)
  hRand : ∀ {s : State α}, I s → I { s with nrand := s.nrand + 1 }

theorem Preserved.toDom {env : Env α} {I : State α → Prop} (P : Preserved env I) : PreservedDom env I :=
  ⟨P.hTouch, P.hPend, fun p a b _ => P.hTell p a b, P.hBest, P.hRemove, P.hRand⟩

theorem vertsInDomain_preserved (env : Env α) (hT : TriGeom env) : PreservedDom env (VertsInDomain env) where
  hTouch := fun hi h => ⟨touchTri_domBase env hi.1 h, touchTri_subsG env _ hi.2 h⟩
  hPend := fun p hint hi h => ⟨tellPending_domBase env p hint hi.1 h, tellPending_subsG env _ p hint (fun c => c) hi.2 h⟩
  hTell := fun p a b hin hi h =>
    ⟨tell_domBase env p a b hin hi.1 h, tell_subsG env hT _ p a b hi.1.1 hi.1.2.2 hi.2 h⟩
  hBest := fun hi _ h => ⟨askBest_domBase env hi.1 h, askBest_subsG env _ (fun _ c => c) hi.2 h⟩
  hRemove := fun {s} hi =>
    ⟨⟨hi.1.1, fun p hp => absurd hp (by simp [removeUnfinished]), hi.1.2.2⟩,
      fun _ => rfl, fun vs _ => SubFormG.nil env _ vs _⟩
  hRand := fun hi => ⟨⟨hi.1.1, hi.1.2.1, hi.1.2.2⟩, hi.2.1, hi.2.2⟩

theorem init_vertsInDomain (env : Env α) : VertsInDomain env (init env) :=
  ⟨⟨fun p hp => absurd hp (by simp [init]), fun p hp => absurd hp (by simp [init]),
    fun vs h => absurd h (by simp [init])⟩, init_subsG env _⟩

/-! ### induction over histories whose told points lie in the domain -/

/-- the told point of an operation (if it is a `tell`) lies in the domain -/
def TellIn (env : Env α) : Op α → Prop
  | .tell p _ _ => env.inside p = true
  | _ => True

theorem InDomain.head {env : Env α} {op : Op α} {ops : List (Op α)} (h : InDomain env (op :: ops)) :
    TellIn env op := by
  cases op with
  | tell p a b => exact h.1
  | _ => trivial

theorem InDomain.tail {env : Env α} {op : Op α} {ops : List (Op α)} (h : InDomain env (op :: ops)) :
    InDomain env ops := by
  cases op with
  | tell p a b => exact h.2
  | _ => exact h

theorem askOne_invDom (env : Env α) {I : State α → Prop} (P : PreservedDom env I) {s s' : State α} {r : Pt × α}
    (hi : I s) (h : askOne env s = .ok (r, s')) : I s' := by
  rcases askOne_form env h with ⟨p, _, _, h1⟩ | ⟨_, s1, h1, hcase⟩
  · exact P.hPend p none hi h1
  · have i1 := P.hTouch hi h1
    rcases hcase with ⟨_, _, h2⟩ | ⟨vs, hvs, h2⟩
    · exact P.hPend _ none (P.hRand i1) h2
    · exact P.hBest i1 hvs h2

theorem askLoop_invDom (env : Env α) {I : State α → Prop} (P : PreservedDom env I) (n : Nat) :
    ∀ {s s' : State α} {rs : List (Pt × α)}, I s → askLoop env n s = .ok (rs, s') → I s' := by
  induction n with
  | zero =>
    intro s s' rs hi h
    simp only [askLoop, Except.ok.injEq, Prod.mk.injEq] at h
    rw [← h.2]; exact hi
  | succ n ih =>
    intro s s' rs hi h
    unfold askLoop at h
    split at h
    · exact absurd h (by simp)
    · rename_i r s1 h1
      split at h
      · exact absurd h (by simp)
      · rename_i rs' s2 h2
        simp only [Except.ok.injEq, Prod.mk.injEq] at h
        rw [← h.2]
        exact ih (askOne_invDom env P hi h1) h2

theorem step_invDom (env : Env α) {I : State α → Prop} (P : PreservedDom env I) {s s' : State α} (op : Op α)
    (hin : TellIn env op)
    (hi : I s) (h : step env s op = .ok s') : I s' := by
  cases op with
  | tell p a b => exact P.hTell p a b hin hi h
  | tellPending p => exact P.hPend p none hi h
  | ask n c =>
    simp only [step] at h
    cases ha : ask env s n c with
    | error e => rw [ha] at h; simp [Except.map] at h
    | ok r =>
      rw [ha] at h
      simp only [Except.map, Except.ok.injEq] at h
      subst h
      unfold ask at ha
      split at ha
      · exact absurd ha (by simp)
      · rename_i rs' s1 h1
        simp only [Except.ok.injEq] at ha
        subst ha
        cases c
        · exact hi
        · exact askLoop_invDom env P n hi h1
  | removeUnfinished =>
    simp only [step, Except.ok.injEq] at h
    subst h; exact P.hRemove hi
  | loss =>
    simp only [step] at h
    cases ha : lossOp env s with
    | error e => rw [ha] at h; simp [Except.map] at h
    | ok r =>
      rw [ha] at h
      simp only [Except.map, Except.ok.injEq] at h
      subst h
      unfold lossOp at ha
      split at ha
      · exact absurd ha (by simp)
      · rename_i s1 h1
        have i1 := P.hTouch hi h1
        split at ha <;> (simp only [Except.ok.injEq] at ha; subst ha; exact i1)

theorem run_invDom (env : Env α) {I : State α → Prop} (P : PreservedDom env I) (ops : List (Op α)) :
    ∀ {s s' : State α}, InDomain env ops → I s → run env s ops = .ok s' → I s' := by
  induction ops with
  | nil => intro s s' _ hi h; simp only [run, Except.ok.injEq] at h; subst h; exact hi
  | cons op ops ih =>
    intro s s' hin hi h
    unfold run at h
    split at h
    · exact absurd h (by simp)
    · rename_i s1 h1
      exact ih hin.tail (step_invDom env P op hin.head hi h1) h

theorem Along.monoDom (env : Env α) {P Q I : State α → Prop} (pres : PreservedDom env I)
    (hPQ : ∀ t, I t → P t → Q t) (n : Nat) : ∀ {s : State α}, I s → Along env P n s → Along env Q n s := by
  induction n with
  | zero => intro s _ _; trivial
  | succ n ih =>
    intro s hi h
    obtain ⟨h1, h2⟩ := h
    refine ⟨fun hm t ht => hPQ t (pres.hTouch hi ht) (h1 hm t ht), ?_⟩
    intro r s1 ha
    exact ih (askOne_invDom env pres hi ha) (h2 r s1 ha)

theorem AlongRun.monoDom (env : Env α) {P Q I : State α → Prop} (pres : PreservedDom env I)
    (hPQ : ∀ t, I t → P t → Q t) (ops : List (Op α)) :
    ∀ {s : State α}, InDomain env ops → I s → AlongRun env P s ops → AlongRun env Q s ops := by
  induction ops with
  | nil => intro s _ _ _; trivial
  | cons op ops ih =>
    intro s hin hi h
    obtain ⟨h1, h2⟩ := h
    refine ⟨?_, fun s1 hs => ih hin.tail (step_invDom env pres op hin.head hi hs) (h2 s1 hs)⟩
    cases op with
    | ask n c =>
      cases c with
      | false => trivial
      | true => exact Along.monoDom env pres hPQ n hi h1
    | _ => trivial

/-- (3) in every reachable state of every history whose told points lie in the domain (`tell_pending` of arbitrary
points and `ask` allowed) all evaluated and pending points, all vertices of the triangulation and all points put into
sub-triangulations lie in the domain -/
theorem run_vertsInDomain (env : Env α) (hT : TriGeom env) (ops : List (Op α)) (hin : InDomain env ops) {s : State α}
    (h : run env (init env) ops = .ok s) : VertsInDomain env s :=
  run_invDom env (vertsInDomain_preserved env hT) ops hin (init_vertsInDomain env) h

end LND
