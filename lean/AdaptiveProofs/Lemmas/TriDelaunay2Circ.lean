import AdaptiveProofs.Lemmas.TriDelaunay2
import AdaptiveProofs.Lemmas.TriCavityModel
import AdaptiveProofs.Props.C20

/-!
Bridge between the polynomial in-circle predicate of `Lemmas/TriDelaunay2.lean` and the test the implementation
performs: `Triangulation.point_in_cicumcircle` computes `center, radius = circumsphere(vertices)` and answers
`norm(center - pt) < radius * (1 + eps)`, `eps = 1e-8`.  `circumsphere2` is the generated definition
(`AdaptiveModel/Gen/Prims.lean`), `sqrt` any function with `SqrtLaw` (exact square root on non-negative arguments;
IEEE rounding is outside).  For `eps = 0` and a non-degenerate triangle the test IS the polynomial predicate.
-/
namespace Tri
open Gen.Prims Prims
variable {α : Type} [Field α] [LinearOrder α] [IsStrictOrderedRing α]

/-- the implementation's test with tolerance `eps` (the code: `eps = 1e-8`), `norm = sqrt (dsq2 …)` -/
def circTest (sqrt : α → α) (eps : α) (a b c p : α × α) : Prop :=
  sqrt (dsq2 (circumsphere2 sqrt a.1 a.2 b.1 b.2 c.1 c.2).1.1 (circumsphere2 sqrt a.1 a.2 b.1 b.2 c.1 c.2).1.2 p.1 p.2)
    < (circumsphere2 sqrt a.1 a.2 b.1 b.2 c.1 c.2).2 * (1 + eps)

/-- squared form: centre and radius of `circumsphere2`, `dist(center, p)² < radius²` ⟺ the polynomial predicate -/
theorem circumsphere2_sq_test_iff_inCircle (sqrt : α → α) (hs : SqrtLaw sqrt) (a b c p : α × α)
    (h : sideL a b c ≠ 0) :
    dsq2 (circumsphere2 sqrt a.1 a.2 b.1 b.2 c.1 c.2).1.1 (circumsphere2 sqrt a.1 a.2 b.1 b.2 c.1 c.2).1.2 p.1 p.2
      < (circumsphere2 sqrt a.1 a.2 b.1 b.2 c.1 c.2).2 * (circumsphere2 sqrt a.1 a.2 b.1 b.2 c.1 c.2).2
    ↔ InCircle a b c p := by
  have hx : cross2 a.1 a.2 b.1 b.2 c.1 c.2 ≠ 0 := by
    have : cross2 a.1 a.2 b.1 b.2 c.1 c.2 = sideL a b c := by simp only [cross2, sideL]; ring
    rw [this]; exact h
  obtain ⟨k1, k2⟩ := C20.circ2_equidistant sqrt a.1 a.2 b.1 b.2 c.1 c.2 hx
  obtain ⟨_, k0⟩ := C20.circ2_radius sqrt hs a.1 a.2 b.1 b.2 c.1 c.2 hx
  simp only [C20.circumsphere2_eq]
  generalize fast_2d_circumcircle sqrt a.1 a.2 b.1 b.2 c.1 c.2 = r at k0 k1 k2 ⊢
  rw [inCircle_iff_dist a b c p r.1 (r.2 * r.2) h
    (by rw [k0]; simp only [dsq2]; ring) (by rw [k0, ← k1]; simp only [dsq2]; ring)
    (by rw [k0, ← k2]; simp only [dsq2]; ring)]
  simp only [dsq2]
  constructor <;> intro h' <;> linarith

/-- THE TEST OF `point_in_cicumcircle` WITHOUT TOLERANCE IS THE POLYNOMIAL PREDICATE: for a non-degenerate triangle
`norm(center - pt) < radius * (1 + 0)` ⟺ `pt` strictly inside the circumcircle (`InCircle`). -/
theorem circTest_zero_iff_inCircle (sqrt : α → α) (hs : SqrtLaw sqrt) (a b c p : α × α) (h : sideL a b c ≠ 0) :
    circTest sqrt 0 a b c p ↔ InCircle a b c p := by
  rw [← circumsphere2_sq_test_iff_inCircle sqrt hs a b c p h]
  have hx : cross2 a.1 a.2 b.1 b.2 c.1 c.2 ≠ 0 := by
    have : cross2 a.1 a.2 b.1 b.2 c.1 c.2 = sideL a b c := by simp only [cross2, sideL]; ring
    rw [this]; exact h
  obtain ⟨hr, _⟩ := C20.circ2_radius sqrt hs a.1 a.2 b.1 b.2 c.1 c.2 hx
  simp only [circTest, C20.circumsphere2_eq, add_zero, mul_one]
  generalize fast_2d_circumcircle sqrt a.1 a.2 b.1 b.2 c.1 c.2 = r at hr ⊢
  have hd : 0 ≤ dsq2 r.1.1 r.1.2 p.1 p.2 := add_nonneg (mul_self_nonneg _) (mul_self_nonneg _)
  obtain ⟨hn, hn2⟩ := hs _ hd
  rw [mul_self_lt_mul_self_iff hn hr, hn2]

/-- with a positive tolerance the test only gets weaker: strictly inside ⇒ the code answers `True` (the converse fails:
points outside but within the relative tolerance are reported inside — finding `C03.tiling:incircle_decided_by_eps`) -/
theorem inCircle_imp_circTest (sqrt : α → α) (hs : SqrtLaw sqrt) (a b c p : α × α) (h : sideL a b c ≠ 0)
    (eps : α) (he : 0 ≤ eps) (hin : InCircle a b c p) : circTest sqrt eps a b c p := by
  have h0 := (circTest_zero_iff_inCircle sqrt hs a b c p h).mpr hin
  have hx : cross2 a.1 a.2 b.1 b.2 c.1 c.2 ≠ 0 := by
    have : cross2 a.1 a.2 b.1 b.2 c.1 c.2 = sideL a b c := by simp only [cross2, sideL]; ring
    rw [this]; exact h
  obtain ⟨hr, _⟩ := C20.circ2_radius sqrt hs a.1 a.2 b.1 b.2 c.1 c.2 hx
  simp only [circTest, C20.circumsphere2_eq, add_zero, mul_one] at h0 hr ⊢
  have := mul_nonneg hr he
  linarith

end Tri
