import AdaptiveProofs.Lemmas.IntegInvB
/-!
C07 (deepening): the model's `walkStep` / `walkUp` / `propagateDone` seen through the tree view, and the proof that the
done-leaves invariant survives `complete_process`'s walk (using the phase A / phase B lemmas of `IntegInv*.lean`).
Also: the walk never runs out of fuel on a well-formed forest.
-/
set_option linter.unusedSectionVars false
set_option linter.unusedSimpArgs false
set_option linter.unusedVariables false
namespace Integ
namespace Cut
open Safe
variable {α : Type} [OfNat α 0] [DecidableEq α] [Div α] [OfNat α 2] [LT α] [DecidableLT α] [Sub α] [Mul α] [Add α] [Neg α]

/-- the tree view of a forest -/
def view (F : Forest α) : View :=
  ⟨F.length, fun j => (getI F j).children, fun j => (getI F j).parent, fun j => (getI F j).doneLeaves⟩

theorem view_wf {F : Forest α} (h : WF F) : WFv (view F) := ⟨h.child, h.par, h.nodup⟩

theorem view_eq_of_sk {F G : Forest α} (h : Sk F G) : view G = view F :=
  View.ext' h.1 (funext fun j => h.children j) (funext fun j => h.parent j) (fun j => h.dl j)

/-! ### `set` helpers -/
theorem mem_sadd_iff {β : Type} [DecidableEq β] {x y : β} {l : List β} : y ∈ sadd x l ↔ y = x ∨ y ∈ l := by
  unfold sadd
  split
  · rename_i h
    constructor
    · exact Or.inr
    · rintro (e | h')
      · rw [e]; exact h
      · exact h'
  · simp only [List.mem_append, List.mem_singleton]
    exact ⟨fun h => h.symm, fun h => h.symm⟩

theorem nodup_sadd {β : Type} [DecidableEq β] {x : β} {l : List β} (h : l.Nodup) : (sadd x l).Nodup := by
  unfold sadd
  split
  · exact h
  · rename_i hx
    rw [List.nodup_append]
    refine ⟨h, by simp, ?_⟩
    intro a ha b hb
    simp only [List.mem_singleton] at hb
    rw [hb]; intro e; rw [e] at ha; exact hx ha

theorem sunion_spec {β : Type} [DecidableEq β] : ∀ (m l : List β),
    (∀ x, x ∈ sunion l m ↔ x ∈ l ∨ x ∈ m) ∧ (l.Nodup → (sunion l m).Nodup)
  | [], l => by simp [sunion]
  | a :: r, l => by
    have ih := sunion_spec r (sadd a l)
    have e : sunion l (a :: r) = sunion (sadd a l) r := by simp [sunion]
    rw [e]
    constructor
    · intro x
      rw [ih.1 x, mem_sadd_iff]
      simp only [List.mem_cons]
      constructor
      · rintro ((h | h) | h)
        · exact Or.inr (Or.inl h)
        · exact Or.inl h
        · exact Or.inr (Or.inr h)
      · rintro (h | h | h)
        · exact Or.inl (Or.inr h)
        · exact Or.inl (Or.inl h)
        · exact Or.inr h
    · intro h; exact ih.2 (nodup_sadd h)

/-! ### one round of the walk -/
/-- the body of the `for child in ival.children` loop -/
def wsStep (r : List Nat × Forest α) (c : Nat) : List Nat × Forest α :=
  match (getI r.2 c).doneLeaves with
  | none => r
  | some l => (sunion r.1 l, modAt r.2 c (fun C => { C with doneLeaves := none }))

def wsFold (F : Forest α) (p : Nat) : List Nat × Forest α :=
  (getI F p).children.foldl wsStep ((getI F p).doneLeaves.getD [], F)

/-- `all(len(child.done_leaves) for child in unused_children)` -/
def wsCheck (F : Forest α) (p : Nat) : Bool :=
  ((getI F p).children.filter (fun c => (getI F c).doneLeaves.isSome)).all
    (fun c => match (getI F c).doneLeaves with | some l => !l.isEmpty | none => true)

theorem walkStep_eq (F : Forest α) (p : Nat) (old : List Nat) :
    walkStep F p old =
      if wsCheck F p then
        some (modAt (wsFold F p).2 p
          (fun I => { I with doneLeaves := some ((wsFold F p).1.filter (fun x => x ∉ sadd p old)) }), sadd p old)
      else none := rfl

theorem wsCheck_iff (F : Forest α) (p : Nat) :
    wsCheck F p = true ↔ ∀ c ∈ (getI F p).children, ∀ l, (getI F c).doneLeaves = some l → l ≠ [] := by
  unfold wsCheck
  rw [List.all_eq_true]
  constructor
  · intro h c hc l hl
    have := h c (List.mem_filter.mpr ⟨hc, by rw [hl]; rfl⟩)
    rw [hl] at this
    intro e; rw [e] at this; simp at this
  · intro h c hc
    have hc' := List.mem_filter.mp hc
    cases hd : (getI F c).doneLeaves with
    | none => rfl
    | some l =>
      have := h c hc'.1 l hd
      cases l with
      | nil => exact absurd rfl this
      | cons a r => rfl

theorem fold_char : ∀ (cs acc : List Nat) (G : Forest α), cs.Nodup → (∀ c ∈ cs, c < G.length) →
    SkS G (cs.foldl wsStep (acc, G)).2 ∧
    (∀ j, (getI (cs.foldl wsStep (acc, G)).2 j).doneLeaves = if j ∈ cs then none else (getI G j).doneLeaves) ∧
    (acc.Nodup → (cs.foldl wsStep (acc, G)).1.Nodup) ∧
    (∀ x, x ∈ (cs.foldl wsStep (acc, G)).1 ↔
      x ∈ acc ∨ ∃ c ∈ cs, ∃ Sc, (getI G c).doneLeaves = some Sc ∧ x ∈ Sc)
  | [], acc, G, _, _ => by
    exact ⟨SkS.refl G, fun j => by simp, id, fun x => by simp⟩
  | c :: r, acc, G, hnd, hlt => by
    have hnd' := (List.nodup_cons.mp hnd)
    simp only [List.foldl_cons]
    cases hd : (getI G c).doneLeaves with
    | none =>
      have e : wsStep (acc, G) c = (acc, G) := by simp only [wsStep, hd]
      rw [e]
      obtain ⟨i1, i2, i3, i4⟩ := fold_char r acc G hnd'.2 (fun c' hc' => hlt c' (List.mem_cons_of_mem _ hc'))
      refine ⟨i1, ?_, i3, ?_⟩
      · intro j
        rw [i2 j]
        by_cases hjc : j = c
        · rw [hjc, if_neg hnd'.1, if_pos (List.mem_cons_self ..), hd]
        · simp only [List.mem_cons, hjc, false_or]
      · intro x
        rw [i4 x]
        constructor
        · rintro (h | ⟨c', hc', Sc, h1, h2⟩)
          · exact Or.inl h
          · exact Or.inr ⟨c', List.mem_cons_of_mem _ hc', Sc, h1, h2⟩
        · rintro (h | ⟨c', hc', Sc, h1, h2⟩)
          · exact Or.inl h
          · rcases List.mem_cons.mp hc' with e' | hc''
            · rw [e', hd] at h1; cases h1
            · exact Or.inr ⟨c', hc'', Sc, h1, h2⟩
    | some l =>
      have e : wsStep (acc, G) c = (sunion acc l, modAt G c (fun C => { C with doneLeaves := none })) := by
        simp only [wsStep, hd]
      rw [e]
      have hcl := hlt c (List.mem_cons_self ..)
      have hG1 : ∀ j, (getI (modAt G c (fun C => { C with doneLeaves := none })) j).doneLeaves =
          if j = c then none else (getI G j).doneLeaves := by
        intro j
        rw [getI_modAt]
        by_cases hjc : j = c
        · rw [if_pos ⟨hjc, hcl⟩, if_pos hjc]
        · rw [if_neg (fun h => hjc h.1), if_neg hjc]
      obtain ⟨i1, i2, i3, i4⟩ := fold_char r (sunion acc l) (modAt G c (fun C => { C with doneLeaves := none })) hnd'.2
        (fun c' hc' => by rw [modAt_length]; exact hlt c' (List.mem_cons_of_mem _ hc'))
      refine ⟨(modAt_skS G c (fun C => { C with doneLeaves := none }) (fun I => ⟨rfl, rfl, rfl, rfl⟩)).trans i1, ?_, ?_, ?_⟩
      · intro j
        rw [i2 j, hG1 j]
        by_cases hjc : j = c
        · rw [hjc, if_neg hnd'.1, if_pos rfl, if_pos (List.mem_cons_self ..)]
        · simp only [List.mem_cons, hjc, false_or, if_false]
      · intro h; exact i3 ((sunion_spec l acc).2 h)
      · intro x
        rw [i4 x, (sunion_spec l acc).1 x]
        constructor
        · rintro ((h | h) | ⟨c', hc', Sc, h1, h2⟩)
          · exact Or.inl h
          · exact Or.inr ⟨c, List.mem_cons_self .., l, hd, h⟩
          · have hne : c' ≠ c := fun e' => hnd'.1 (e' ▸ hc')
            rw [hG1 c', if_neg hne] at h1
            exact Or.inr ⟨c', List.mem_cons_of_mem _ hc', Sc, h1, h2⟩
        · rintro (h | ⟨c', hc', Sc, h1, h2⟩)
          · exact Or.inl (Or.inl h)
          · rcases List.mem_cons.mp hc' with e' | hc''
            · rw [e', hd] at h1; cases h1; exact Or.inl (Or.inr h2)
            · have hne : c' ≠ c := fun e' => hnd'.1 (e' ▸ hc'')
              refine Or.inr ⟨c', hc'', Sc, ?_, h2⟩
              rw [hG1 c', if_neg hne]; exact h1

/-- a round whose test passes: the new forest, through the view -/
theorem walkStep_char {F : Forest α} (hW : WF F) (p : Nat) (old : List Nat) (hp : p < F.length)
    (hck : wsCheck F p = true) :
    ∃ F' S', walkStep F p old = some (F', sadd p old) ∧ WF F' ∧ StepRel (view F) (view F') p (sadd p old) S' := by
  have hcs : ∀ c ∈ (getI F p).children, c < F.length := fun c hc => (hW.child p c hc).2.1
  obtain ⟨i1, i2, i3, i4⟩ := fold_char (getI F p).children ((getI F p).doneLeaves.getD []) F (hW.nodup p) hcs
  have hsk : SkS F (modAt (wsFold F p).2 p
      (fun I => { I with doneLeaves := some ((wsFold F p).1.filter (fun x => x ∉ sadd p old)) })) :=
    i1.trans (modAt_skS _ _ _ (fun I => ⟨rfl, rfl, rfl, rfl⟩))
  refine ⟨_, (wsFold F p).1.filter (fun x => x ∉ sadd p old), by rw [walkStep_eq, if_pos hck], hW.of_skS hsk, ?_⟩
  refine ⟨hsk.1, funext fun j => (hsk.2 j).2.2.2, funext fun j => (hsk.2 j).2.2.1, ?_, ?_, ?_⟩
  · intro j
    show (getI _ j).doneLeaves = _
    rw [getI_modAt]
    have hlen : p < (wsFold F p).2.length := by unfold wsFold; rw [i1.1]; exact hp
    by_cases hjp : j = p
    · rw [if_pos ⟨hjp, hlen⟩, if_pos hjp]
    · rw [if_neg (fun h => hjp h.1), if_neg hjp]
      exact i2 j
  · intro h
    exact List.Nodup.sublist List.filter_sublist (i3 h)
  · intro x
    simp only [List.mem_filter, decide_eq_true_eq]
    rw [show (wsFold F p).1 = ((getI F p).children.foldl wsStep ((getI F p).doneLeaves.getD [], F)).1 from rfl, i4 x]
    rfl

/-! ### the whole walk -/
/-- conditions under which the walk is resumed: phase A (invariant holds, the interval the walk comes from carries an
estimate) or phase B -/
def WalkPre (F : Forest α) (fuel : Nat) (po : Option Nat) (old : List Nat) : Prop :=
  (RZ (view F) none ∧ (∀ x ∈ old, Hd (view F) x) ∧
      ∀ p, po = some p → p < fuel ∧ ∃ b ∈ (view F).ch p, (view F).dl b ≠ none) ∨
  (∃ b z Sb, BC (view F) b z old Sb ∧ po = (view F).par b ∧ b ≤ fuel)

theorem walkUp_inv : ∀ (fuel : Nat) (F : Forest α) (po : Option Nat) (old : List Nat), WF F →
    WalkPre F fuel po old → RZ (view (walkUp fuel F po old)) none
  | 0, F, po, old, hW, h => by
    simp only [walkUp]
    rcases h with h | ⟨b, z, Sb, hB, hpo, hb⟩
    · exact h.1
    · obtain ⟨q, hq⟩ := hB.rz.i4 b (by simp [setN])
      have := (hB.facts hq).1
      omega
  | fuel + 1, F, none, old, hW, h => by
    simp only [walkUp]
    rcases h with h | ⟨b, z, Sb, hB, hpo, hb⟩
    · exact h.1
    · obtain ⟨q, hq⟩ := hB.rz.i4 b (by simp [setN])
      have hq' : (view F).par b = some q := hq
      rw [hq'] at hpo; cases hpo
  | fuel + 1, F, some p, old, hW, h => by
    simp only [walkUp]
    have hold : ∀ x, x ∈ sadd p old ↔ x = p ∨ x ∈ old := fun x => mem_sadd_iff
    rcases h with ⟨hR, hoH, hp⟩ | ⟨b, z, Sb, hB, hpo, hb⟩
    · obtain ⟨hpf, b, hbc, hbn⟩ := hp p rfl
      have hpl : p < F.length := by have := hW.child p b hbc; omega
      by_cases hck : wsCheck F p = true
      · obtain ⟨F', S', hws, hW', hs⟩ := walkStep_char hW p old hpl hck
        rw [hws]
        simp only
        have hck' := (wsCheck_iff F p).mp hck
        apply walkUp_inv fuel F' _ _ hW'
        cases hd : (view F).dl p with
        | some D =>
          obtain ⟨hR', hoH', hdp⟩ := stepA_some hR hs hold ⟨b, hbc, hbn⟩ hck' hoH (by rw [hd]; simp)
          left
          refine ⟨hR', hoH', ?_⟩
          intro q hq
          have := (view_wf hW').par p q hq
          exact ⟨by omega, p, this.2, hdp⟩
        | none =>
          right
          exact ⟨p, p, S', stepA_none hR hs hold ⟨b, hbc, hbn⟩ hck' hoH hd, rfl, by omega⟩
      · have : walkStep F p old = none := by rw [walkStep_eq, if_neg hck]
        rw [this]; exact hR
    · have hq : (view F).par b = some p := hpo.symm
      obtain ⟨hqb, hbq, hbz, hsib, hHq, hck'⟩ := hB.facts hq
      have hpl : p < F.length := by have := hW.child p b hbq; omega
      have hck : wsCheck F p = true := (wsCheck_iff F p).mpr hck'
      obtain ⟨F', S', hws, hW', hs⟩ := walkStep_char hW p old hpl hck
      rw [hws]
      simp only
      apply walkUp_inv fuel F' _ _ hW'
      cases hd : (view F).dl p with
      | none =>
        right
        exact ⟨p, z, S', stepB_none hB hq hs hold hd, rfl, by omega⟩
      | some Sh =>
        obtain ⟨hR', hoH', hdp⟩ := stepB_some hB hq hs hold hd
        left
        refine ⟨hR', hoH', ?_⟩
        intro q' hq'
        have := (view_wf hW').par p q' hq'
        exact ⟨by omega, p, this.2, hdp⟩

theorem propagateDone_inv {F : Forest α} (hW : WF F) (hR : RZ (view F) none) (i : Nat) :
    RZ (view (propagateDone F i)) none := by
  unfold propagateDone
  split
  · rename_i heq
    have hsk1 : SkS F (modAt F i (fun I => { I with doneLeaves := some [i] })) :=
      modAt_skS _ _ _ (fun I => ⟨rfl, rfl, rfl, rfl⟩)
    have hW1 := hW.of_skS hsk1
    have hWv := view_wf hW
    have hWv1 := view_wf hW1
    have hch1 : (view (modAt F i (fun I => { I with doneLeaves := some [i] }))).ch = (view F).ch :=
      funext fun j => (hsk1.2 j).2.2.2
    have hpar1 : (view (modAt F i (fun I => { I with doneLeaves := some [i] }))).par = (view F).par :=
      funext fun j => (hsk1.2 j).2.2.1
    have hdl1 : ∀ j, (view (modAt F i (fun I => { I with doneLeaves := some [i] }))).dl j =
        if j = i ∧ i < F.length then some [i] else (view F).dl j := by
      intro j
      show (getI _ j).doneLeaves = _
      rw [getI_modAt]
      split
      · rfl
      · rfl
    have hdi : (view F).dl i = some [] := heq
    have hN : ∀ c, (view (modAt F i (fun I => { I with doneLeaves := some [i] }))).dl c = none ↔ (view F).dl c = none := by
      intro c
      rw [hdl1]
      split
      · rename_i h
        rw [h.1, hdi]
        exact ⟨fun h => (by cases h), fun h => (by cases h)⟩
      · exact Iff.rfl
    have hH : ∀ x, Hd (view (modAt F i (fun I => { I with doneLeaves := some [i] }))) x ↔ Hd (view F) x :=
      fun x => hd_iff hch1 x (fun c _ => hN c)
    have hhz : ∀ j, hz (view (modAt F i (fun I => { I with doneLeaves := some [i] }))) none j = hz (view F) none j :=
      fun j => hz_congr (T := view F) hsk1.1 (fun x => by unfold Leaf; rw [hH]) (fun x _ => by rw [hch1]) j
    have hnHi : ¬ Hd (view F) i := fun h => hR.i3 i h hdi
    have hR1 : RZ (view (modAt F i (fun I => { I with doneLeaves := some [i] }))) none := by
      refine ⟨hWv1, ?_, ?_, ?_, ?_⟩
      · intro j S hS
        rw [hdl1] at hS
        rw [hhz]
        split at hS
        · rename_i h
          cases hS
          right
          refine ⟨by simp, fun x => ?_⟩
          rw [h.1, hz_leaf hWv (leaf_none_iff.mpr hnHi)]
        · exact hR.i1 j S hS
      · intro j
        rw [hch1]
        rcases hR.i2 j with h | h
        · left; intro c hc; exact (hN c).mpr (h c hc)
        · right; intro c hc hn; exact h c hc ((hN c).mp hn)
      · intro j hHj
        rw [hdl1]
        split
        · intro h; cases h
        · exact hR.i3 j ((hH j).mp hHj)
      · intro j hn
        rw [hpar1]
        exact hR.i4 j ((hN j).mp hn)
    apply walkUp_inv _ _ _ _ hW1
    left
    refine ⟨hR1, fun x hx => (by cases hx), ?_⟩
    intro p hp
    have hp' : (view F).par i = some p := by
      have : (view (modAt F i (fun I => { I with doneLeaves := some [i] }))).par i = some p := hp
      rw [hpar1] at this; exact this
    have h1 := hWv.par i p hp'
    have h2 := hWv.child p i h1.2
    have hvl : (view F).len = F.length := rfl
    refine ⟨by rw [hsk1.1]; omega, i, by rw [hch1]; exact h1.2, ?_⟩
    rw [hdl1, if_pos ⟨rfl, h2.2.1⟩]
    intro h; cases h
  · exact hR

/-! ### the invariant in every reachable state -/
/-- well-formed forest with the done-leaves invariant -/
def RF (F : Forest α) : Prop := WF F ∧ RZ (view F) none

theorem RF.splitF {F : Forest α} (h : RF F) (i : Nat) (m : α) (hi : i < F.length) (hc : (getI F i).children = []) :
    RF (splitF F i m) := by
  obtain ⟨hW, hR⟩ := h
  have hW' := hW.splitF i m hi hc
  have hWv := view_wf hW
  have hWv' := view_wf hW'
  have hch : ∀ j, (view (Cut.splitF F i m)).ch j = if j = i then [F.length, F.length + 1] else (view F).ch j :=
    splitF_children F i m hi
  have hpar : ∀ j, (view (Cut.splitF F i m)).par j =
      if j = F.length ∨ j = F.length + 1 then some i else (view F).par j := splitF_parent F i m hi
  have hdl : ∀ j, (view (Cut.splitF F i m)).dl j = (view F).dl j := splitF_dl F i m
  have hdlen : ∀ j, F.length ≤ j → (view F).dl j ≠ none := by
    intro j hj h
    have : (getI F j).doneLeaves = none := h
    rw [getI_ge F j hj] at this; cases this
  have hnHi : ¬ Hd (view F) i := fun h => h.1 hc
  have hnHi' : ¬ Hd (view (Cut.splitF F i m)) i := by
    intro h
    have := h.2 F.length (by rw [hch, if_pos rfl]; simp)
    rw [hdl] at this
    exact hdlen _ (Nat.le_refl _) this
  have hH : ∀ x, Hd (view (Cut.splitF F i m)) x ↔ Hd (view F) x := by
    intro x
    by_cases hx : x = i
    · rw [hx]; exact ⟨fun h => absurd h hnHi', fun h => absurd h hnHi⟩
    · unfold Hd
      rw [hch, if_neg hx]
      constructor
      · intro ⟨h1, h2⟩; exact ⟨h1, fun c hc => by rw [← hdl]; exact h2 c hc⟩
      · intro ⟨h1, h2⟩; exact ⟨h1, fun c hc => by rw [hdl]; exact h2 c hc⟩
  have hleaf : ∀ x, Leaf (view F) none x ↔ Leaf (view (Cut.splitF F i m)) none x := by
    intro x; unfold Leaf; rw [hH]
  have hhz : ∀ j, hz (view (Cut.splitF F i m)) none j = hz (view F) none j := by
    intro j
    unfold hz
    rw [heldZ_congr (T := view F) hleaf (fun x hx => by
      rw [hch, if_neg]; intro e; rw [e] at hx; exact hx (leaf_none_iff.mpr hnHi))]
    exact heldZ_fuel hWv none j _ _ (by show F.length - j < (Cut.splitF F i m).length + 1; rw [splitF_length]; omega)
      (by show F.length - j < F.length + 1; omega)
  refine ⟨hW', hWv', ?_, ?_, ?_, ?_⟩
  · intro j S hS
    rw [hdl] at hS
    rw [hhz]
    exact hR.i1 j S hS
  · intro j
    by_cases hj : j = i
    · right
      intro c hc
      rw [hch, if_pos hj] at hc
      rw [hdl]
      apply hdlen
      simp only [List.mem_cons, List.not_mem_nil, or_false] at hc
      rcases hc with e | e <;> omega
    · rw [hch, if_neg hj]
      rcases hR.i2 j with h | h
      · left; intro c hc; rw [hdl]; exact h c hc
      · right; intro c hc; rw [hdl]; exact h c hc
  · intro j hHj
    rw [hdl]
    exact hR.i3 j ((hH j).mp hHj)
  · intro j hn
    rw [hdl] at hn
    rw [hpar]
    split
    · exact ⟨i, rfl⟩
    · exact hR.i4 j hn

theorem RF.root (a b e : α) : RF (rootF a b e) := by
  have hW := WF.root a b e
  have hg : ∀ j, (getI (rootF a b e) j).children = [] ∧ (getI (rootF a b e) j).doneLeaves = some [] := by
    intro j
    cases j with
    | zero => exact ⟨rfl, rfl⟩
    | succ j => rw [getI_ge _ _ (by simp [rootF])]; exact ⟨rfl, rfl⟩
  refine ⟨hW, view_wf hW, ?_, ?_, ?_, ?_⟩
  · intro j S hS
    have : (getI (rootF a b e) j).doneLeaves = some S := hS
    rw [(hg j).2] at this; cases this; exact Or.inl rfl
  · intro j; left; intro c hc
    have : c ∈ (getI (rootF a b e) j).children := hc
    rw [(hg j).1] at this; cases this
  · intro j h; exact absurd (hg j).1 h.1
  · intro j hn
    have : (getI (rootF a b e) j).doneLeaves = none := hn
    rw [(hg j).2] at this; cases this

theorem pres_RF : Pres (RF (α := α)) where
  frame := fun hs h => ⟨h.1.of_skS hs.toS, by rw [view_eq_of_sk hs]; exact h.2⟩
  prop := fun F i h => ⟨h.1.of_skS (propagateDone_skS F i), propagateDone_inv h.1 h.2 i⟩
  split := fun F i m h hi hc => h.splitF i m hi hc

/-- the done-leaves invariant holds in every reachable state -/
theorem rf_reach (O : Oracle α) (P : Params α) (a b e : α) (ops : List (Op α)) :
    RF (run O P (start O P a b e) ops).F :=
  (reach_keep pres_RF O P a b e (RF.root a b e) ops).1

end Cut
end Integ
