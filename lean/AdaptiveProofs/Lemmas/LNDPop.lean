import AdaptiveProofs.Lemmas.LNDSound
import Mathlib.Algebra.Order.Field.Basic
import Mathlib.Algebra.BigOperators.Group.List.Basic
import Mathlib.Tactic.Ring

/-! Consequences of queue completeness and order for `_pop_highest_existing_simplex`, and the
volume-proportional sub-losses (C04). -/
set_option linter.unusedSectionVars false
set_option linter.unusedSimpArgs false
set_option linter.unusedVariables false
namespace LND

section pop
variable {α : Type} [Sub α] [Mul α] [Div α] [LT α] [DecidableLT α]

/-- with a complete, ordered queue the popped entry is live and no live queue key — simplex without
sub-triangulation, or sub-simplex — has a larger rounded (sub)loss than the popped entry -/
theorem pop_max_over_cover (env : Env α) {s : State α} {vs : List Pt} (ht : s.tri = some vs)
    (hc : Cover env s) (hs : QSorted env s.book.queue) {e : QE α} {q : List (QE α)}
    (hp : popHighest env (env.triSimps vs.length) s.book.subs s.book.queue = some (e, q)) :
    live env (env.triSimps vs.length) s.book.subs e = true ∧
    ∀ pr : Pair, pr.1 ∈ env.triSimps vs.length → liveSub env s.book.subs pr →
      ∃ w ∈ s.book.queue, pairOf w = pr ∧ (pr.2 = none → get? pr.1 s.losses = some w.loss) ∧
        env.rnd w.loss ≤ env.rnd e.loss := by
  obtain ⟨pre, _, hlive, _⟩ := popHighest_spec env _ _ hp
  refine ⟨hlive, ?_⟩
  intro pr hpr hl
  have hcov := hc pr.1 (by simp only [ht, simplices]; exact hpr) pr.2 hl
  obtain ⟨x, o⟩ := pr
  cases o with
  | none =>
    obtain ⟨w, hw, a, c, d⟩ := hcov
    have hwl : live env (env.triSimps vs.length) s.book.subs w = true := by
      rw [live_iff]; simp only [pairOf, a, c]; exact ⟨hpr, hl⟩
    exact ⟨w, hw, by simp [pairOf, a, c], fun _ => d, popHighest_max env _ _ hs hp w hw hwl⟩
  | some ss =>
    obtain ⟨w, hw, a, c⟩ := hcov
    have hwl : live env (env.triSimps vs.length) s.book.subs w = true := by
      rw [live_iff]; simp only [pairOf, a, c]; exact ⟨hpr, hl⟩
    exact ⟨w, hw, by simp [pairOf, a, c], fun h => absurd h (by simp), popHighest_max env _ _ hs hp w hw hwl⟩

/-- nothing pending (no sub-triangulation): the popped entry's rounded loss is at least the rounded loss of
every simplex of the triangulation -/
theorem pop_max_nothing_pending (env : Env α) {s : State α} {vs : List Pt} (ht : s.tri = some vs)
    (hc : Cover env s) (hs : QSorted env s.book.queue) (hsub : s.book.subs = []) {e : QE α} {q : List (QE α)}
    (hp : popHighest env (env.triSimps vs.length) s.book.subs s.book.queue = some (e, q)) :
    e.sub = none ∧ e.simplex ∈ env.triSimps vs.length ∧
    ∀ x ∈ env.triSimps vs.length, ∀ L, get? x s.losses = some L → env.rnd L ≤ env.rnd e.loss := by
  obtain ⟨hlive, hmax⟩ := pop_max_over_cover env ht hc hs hp
  rw [live_iff] at hlive
  obtain ⟨hmem, hls⟩ := hlive
  refine ⟨?_, hmem, ?_⟩
  · cases ho : e.sub with
    | none => rfl
    | some ss =>
      simp only [pairOf, ho, liveSub, hsub, get?, List.find?_nil, Option.map_none] at hls
      obtain ⟨_, h0, _⟩ := hls
      exact absurd h0 (by simp)
  · intro x hx L hL
    have hl : liveSub env s.book.subs (x, none) := by
      simp [liveSub, hsub, get?]
    obtain ⟨w, _, _, hw, hle⟩ := hmax (x, none) hx hl
    have := hw rfl
    rw [hL] at this
    simp only [Option.some.injEq] at this
    rw [this]; exact hle

/-- a complete queue with at least one live key never runs empty: no `AssertionError` -/
theorem pop_succeeds (env : Env α) {s : State α} {vs : List Pt} (ht : s.tri = some vs) (hc : Cover env s)
    {pr : Pair} (hpr : pr.1 ∈ env.triSimps vs.length) (hl : liveSub env s.book.subs pr) :
    (popHighest env (env.triSimps vs.length) s.book.subs s.book.queue).isSome = true := by
  have hcov := hc pr.1 (by simp only [ht, simplices]; exact hpr) pr.2 hl
  obtain ⟨x, o⟩ := pr
  cases o with
  | none =>
    obtain ⟨w, hw, a, c, _⟩ := hcov
    exact popHighest_isSome_of_live env _ _ hw (by rw [live_iff]; simp only [pairOf, a, c]; exact ⟨hpr, hl⟩)
  | some ss =>
    obtain ⟨w, hw, a, c⟩ := hcov
    exact popHighest_isSome_of_live env _ _ hw (by rw [live_iff]; simp only [pairOf, a, c]; exact ⟨hpr, hl⟩)

/-- what `_ask_best_point` returns: the oracle's choice inside the popped (sub)simplex, and `abs` of the popped
entry's loss -/
theorem askBest_result (env : Env α) {s s' : State α} {vs : List Pt} {r : Pt × α}
    (h : askBest env s vs = .ok (r, s')) :
    ∃ e q, popHighest env (env.triSimps vs.length) s.book.subs s.book.queue = some (e, q) ∧
      r.2 = env.abs e.loss ∧
      r.1 = env.choose (match e.sub with
        | none => ptsOf vs e.simplex
        | some ss => ptsOf ((get? e.simplex s.book.subs).getD []) ss) := by
  unfold askBest at h
  split at h
  · exact absurd h (by simp)
  · rename_i e q hp
    simp only at h
    split at h
    · exact absurd h (by simp)
    · rename_i s2 h2
      simp only [Except.ok.injEq, Prod.mk.injEq] at h
      obtain ⟨h1, _⟩ := h
      subst h1
      exact ⟨e, q, hp, rfl, rfl⟩

end pop

section prop
variable {α : Type} [Field α] [LinearOrder α] [IsStrictOrderedRing α]

/-- `_update_subsimplex_losses` queues every given sub-simplex with the simplex' loss in proportion to volume,
and queues nothing else -/
theorem updateSubLosses_proportional (env : Env α) (vs : List Pt) (losses : List (Simplex × α)) {b b' : Book α}
    (sx : Simplex) (news : List Simplex) {L : α} {sv : List Pt} (hL : get? sx losses = some L)
    (hsv : get? sx b.subs = some sv) (h : updateSubLosses env vs losses b sx news = .ok b') :
    (∀ ss ∈ news, (⟨env.vol (ptsOf sv ss) / env.vol (ptsOf vs sx) * L, sx, some ss⟩ : QE α) ∈ b'.queue) ∧
    (∀ e ∈ b'.queue, e ∈ b.queue ∨
      ∃ ss ∈ news, e = ⟨env.vol (ptsOf sv ss) / env.vol (ptsOf vs sx) * L, sx, some ss⟩) := by
  unfold updateSubLosses at h
  rw [hL, hsv] at h
  simp only [Except.ok.injEq] at h
  subst h
  have e : ∀ ss, env.vol (ptsOf sv ss) * (L / env.vol (ptsOf vs sx)) =
      env.vol (ptsOf sv ss) / env.vol (ptsOf vs sx) * L := by intro ss; ring
  constructor
  · intro ss hss
    simp only
    rw [mem_foldl_qinsert]
    exact Or.inr ⟨ss, hss, by rw [e]⟩
  · intro x hx
    simp only at hx
    rw [mem_foldl_qinsert] at hx
    rcases hx with h | ⟨ss, hss, rfl⟩
    · exact Or.inl h
    · exact Or.inr ⟨ss, hss, by rw [e]⟩

theorem sum_map_scaled (V L : α) (vols : List α) :
    (vols.map (fun v => v / V * L)).sum = vols.sum * (L / V) := by
  induction vols with
  | nil => simp
  | cons a t ih => simp only [List.map_cons, List.sum_cons, ih]; ring

/-- if the sub-simplices' volumes add up to the simplex' volume, their queued losses add up to its loss -/
theorem sublosses_sum (V L : α) (vols : List α) (hV : V ≠ 0) (hsum : vols.sum = V) :
    (vols.map (fun v => v / V * L)).sum = L := by
  rw [sum_map_scaled, hsum, ← mul_div_assoc, mul_div_cancel_left₀ _ hV]

end prop
end LND
