import AdaptiveProofs.Lemmas.QuadTablesPoly

/-!
Kernel computation: the exact part of `integrator_coeffs.calc_bdef`.  `Gen.QuadTables.bdefNum/bdefDen` were produced by the
live `scalar_product(newton(n), P_k)` on `Fraction`s; here the kernel recomputes every entry as `inner (newtonP r) (legP k)`
(which is `∫_{-1}^{1} newton(n)·P_k`, see `integral_peval_mul_peval`).
-/
namespace QuadPoly
open Gen.QuadTables

def bdefOK (r : Nat) : Bool :=
  bdefRow r == (List.range (nsAt r + 1)).map fun k => inner (legP k) (newtonP r)

set_option maxRecDepth 100000 in
theorem bdef_check : (List.range 4).all bdefOK = true := by decide +kernel

theorem bdef_shape_check : bdefNum.length = 4 ∧ bdefDen.length = 4 := by decide +kernel

lemma bdefRow_eq {r : Nat} (hr : r < 4) :
    bdefRow r = (List.range (nsAt r + 1)).map fun k => inner (newtonP r) (legP k) := by
  have := all_range bdef_check r hr
  simp only [bdefOK, beq_iff_eq] at this
  rw [this]
  apply List.map_congr_left
  intro k _
  exact inner_comm _ _

end QuadPoly
