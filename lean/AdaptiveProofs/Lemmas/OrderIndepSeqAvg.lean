import AdaptiveProofs.Lemmas.SeqInv
import AdaptiveProofs.Lemmas.Avg
import Mathlib.Data.List.Nodup
import Mathlib.Tactic.SplitIfs

/-!
# C11 — "what a learner knows depends on the set of results, not on how they arrived"
## Part A (SequenceLearner) and part B (AverageLearner)

* A. `Seq.run_tells_perm`: telling the same results (pairwise distinct indices) in two different
  orders gives the SAME STATE (`data` is a sorted dict, `todo` a sorted set, `pending` a list from
  which the told index is erased).  `Seq.setData_eq_run`: the batch entry point (`_set_data` /
  `tell_many`) is by definition the fold of `tell`, so "batch = one by one" holds by construction.
* B. `Avg.order_indep`: for the AverageLearner the `data` dict keeps the arrival order, so the
  states are not equal as records; they are equal up to a permutation of `data` (`Avg.Equiv`), and
  everything observable (`npoints`, `sumF`, `sumFsq`, `mean`, `std`, `loss`, `askPoints`,
  membership in `data`, `pending`) is invariant under `Avg.Equiv`.
-/
set_option linter.unusedSectionVars false

/-! ## A. SequenceLearner -/
namespace Seq
variable {β : Type}

/-- the operation "tell the result `p.2` of element `p.1`" -/
def tellOp (p : Nat × β) : Op β := .tell p.1 p.2

/-- `SortedDict.__setitem__` for two different keys commutes (no sortedness needed) -/
theorem dinsert_comm {i j : Nat} (hij : i ≠ j) (v w : β) (d : List (Nat × β)) :
    dinsert j w (dinsert i v d) = dinsert i v (dinsert j w d) := by
  induction d with
  | nil =>
    simp only [dinsert]
    split_ifs <;> first | (exfalso; omega) | rfl
  | cons kv r ih =>
    obtain ⟨k, u⟩ := kv
    simp only [dinsert]
    split_ifs <;> simp only [dinsert] <;> split_ifs <;>
      first | (exfalso; omega) | rfl | (rw [ih])

/-- two `tell`s of different elements commute -/
theorem tell_comm (s : State β) {i j : Nat} (hij : i ≠ j) (v w : β) :
    tell (tell s i v) j w = tell (tell s j w) i v := by
  simp only [tell, dinsert_comm hij, List.erase_comm]

theorem run_map_tellOp (s : State β) (ts : List (Nat × β)) :
    run s (ts.map tellOp) = ts.foldl (fun s p => tell s p.1 p.2) s := by
  simp only [run, List.foldl_map, tellOp, step]

/-- "batch = one by one" holds by construction: `_set_data` (the `tell_many` of this learner) IS the
fold of `tell` over the items. -/
theorem setData_eq_run (s : State β) (d : List (Nat × β)) :
    setData s d = run s (d.map tellOp) := by
  rw [run_map_tellOp]; rfl

/-- A (general form): from ANY state, telling the same results with pairwise distinct indices in two
orders gives the same state. -/
theorem run_tells_perm_from (s : State β) {ts₁ ts₂ : List (Nat × β)} (hp : ts₁.Perm ts₂)
    (hnd : (ts₁.map Prod.fst).Nodup) :
    run s (ts₁.map tellOp) = run s (ts₂.map tellOp) := by
  rw [run_map_tellOp, run_map_tellOp]
  apply hp.foldl_eq'
  intro x hx y hy z
  by_cases hxy : x = y
  · rw [hxy]
  · have hne : x.1 ≠ y.1 := fun h => hxy (List.inj_on_of_nodup_map hnd hx hy h)
    exact tell_comm z hne x.2 y.2

/-- A. SequenceLearner: two orders of telling the same results (pairwise distinct indices; the
bound `< n` is not needed for the equality) lead to the same state, field by field. -/
theorem run_tells_perm (n : Nat) {ts₁ ts₂ : List (Nat × β)} (hp : ts₁.Perm ts₂)
    (hnd : (ts₁.map Prod.fst).Nodup) :
    run (init n) (ts₁.map tellOp) = run (init n) (ts₂.map tellOp) :=
  run_tells_perm_from _ hp hnd

theorem validOps_tells (s : State β) (ts : List (Nat × β)) (hlt : ∀ p ∈ ts, p.1 < s.ntotal) :
    ValidOps s (ts.map tellOp) := by
  induction ts generalizing s with
  | nil => trivial
  | cons p r ih =>
    refine ⟨hlt p (List.mem_cons_self ..), ih _ ?_⟩
    intro q hq
    rw [ntotal_step]
    exact hlt q (List.mem_cons_of_mem _ hq)

theorem pending_foldl_tell_nil (ts : List (Nat × β)) (s : State β) (h : s.pending = []) :
    (ts.foldl (fun s p => tell s p.1 p.2) s).pending = [] := by
  induction ts generalizing s with
  | nil => exact h
  | cons p r ih => exact ih _ (by simp [tell, h])

/-- the shape of the common state: `data` sorted by index, `todo` sorted, nothing pending, and the
three classes partition `range n` -/
theorem run_tells_shape (n : Nat) (ts : List (Nat × β)) (hlt : ∀ p ∈ ts, p.1 < n) :
    let s : State β := run (init n) (ts.map tellOp)
    Inv s ∧ s.pending = [] ∧ s.ntotal = n := by
  refine ⟨inv_run _ _ (inv_init n) (validOps_tells _ ts hlt), ?_, ?_⟩
  · rw [run_map_tellOp]; exact pending_foldl_tell_nil ts _ rfl
  · have : ∀ (ops : List (Op β)) (s : State β), (run s ops).ntotal = s.ntotal := by
      intro ops
      induction ops with
      | nil => intro s; rfl
      | cons op r ih => intro s; exact (ih (step s op)).trans (ntotal_step s op)
    exact this _ _

/-- distinct indices are needed: the last value told for an index wins -/
example : (run (init 2) ([(0, 1), (0, 2)].map tellOp) : State Nat).data ≠
    (run (init 2) ([(0, 2), (0, 1)].map tellOp) : State Nat).data := by decide

end Seq

/-! ## B. AverageLearner -/
namespace Avg
variable {α : Type}

/-- the operation "tell the value `p.2` of seed `p.1`" -/
def tellOp (p : Nat × α) : Op α := .tell p.1 p.2

/-- two states that differ only in the order of the `data` dict -/
structure Equiv (s t : State α) : Prop where
  data : s.data.Perm t.data
  pending : s.pending = t.pending
  npoints : s.npoints = t.npoints
  sumF : s.sumF = t.sumF
  sumFsq : s.sumFsq = t.sumFsq
  atol : s.atol = t.atol
  rtol : s.rtol = t.rtol
  minNpoints : s.minNpoints = t.minNpoints

theorem Equiv.refl (s : State α) : Equiv s s := ⟨List.Perm.refl _, rfl, rfl, rfl, rfl, rfl, rfl, rfl⟩

theorem Equiv.symm {s t : State α} (h : Equiv s t) : Equiv t s :=
  ⟨h.data.symm, h.pending.symm, h.npoints.symm, h.sumF.symm, h.sumFsq.symm, h.atol.symm,
    h.rtol.symm, h.minNpoints.symm⟩

theorem Equiv.trans {s t u : State α} (h : Equiv s t) (g : Equiv t u) : Equiv s u :=
  ⟨h.data.trans g.data, h.pending.trans g.pending, h.npoints.trans g.npoints,
    h.sumF.trans g.sumF, h.sumFsq.trans g.sumFsq, h.atol.trans g.atol, h.rtol.trans g.rtol,
    h.minNpoints.trans g.minNpoints⟩

theorem hasKey_perm {d d' : List (Nat × α)} (h : d.Perm d') (k : Nat) :
    hasKey k d = hasKey k d' := by
  rw [Bool.eq_iff_iff, hasKey_iff, hasKey_iff]
  exact (h.map Prod.fst).mem_iff

theorem hasKey_append (k : Nat) (d d' : List (Nat × α)) :
    hasKey k (d ++ d') = (hasKey k d || hasKey k d') := by
  simp only [hasKey, List.any_append]

theorem hasKey_singleton (k k' : Nat) (v : α) : hasKey k [(k', v)] = (k' == k) := by
  simp only [hasKey, List.any_cons, List.any_nil, Bool.or_false]

/-- what is known (evaluated or pending) does not depend on the order of `data` -/
theorem Equiv.known_eq {s t : State α} (h : Equiv s t) (p : Nat) : known s p = known t p := by
  unfold known
  rw [hasKey_perm h.data, h.pending]

theorem Equiv.nRequested_eq {s t : State α} (h : Equiv s t) : nRequested s = nRequested t := by
  unfold nRequested
  rw [h.npoints, h.pending]

/-- `askPoints` only looks at `hasKey`, `pending` and the counts: it is invariant under a
permutation of `data` -/
theorem Equiv.askPoints_eq {s t : State α} (h : Equiv s t) (n : Nat) (choice : List Nat) :
    askPoints s n choice = askPoints t n choice := by
  have hk : known s = known t := funext h.known_eq
  unfold askPoints validChoice freeSeeds
  rw [hk, h.nRequested_eq]

section field
variable [Field α] [LinearOrder α] [IsStrictOrderedRing α]

theorem Equiv.mean_eq {s t : State α} (h : Equiv s t) : mean s = mean t := by
  unfold mean
  rw [h.sumF, h.npoints]

theorem Equiv.varNumer_eq {s t : State α} (h : Equiv s t) : varNumer s = varNumer t := by
  unfold varNumer
  rw [h.sumFsq, h.npoints, h.mean_eq]

theorem Equiv.std_eq {s t : State α} (h : Equiv s t) (sqrt : α → α) : std sqrt s = std sqrt t := by
  unfold std
  rw [h.npoints, h.minNpoints, h.varNumer_eq]

theorem Equiv.lossN_eq {s t : State α} (h : Equiv s t) (sqrt : α → α) (n : Nat) :
    lossN sqrt s n = lossN sqrt t n := by
  unfold lossN
  rw [h.minNpoints, h.std_eq, h.atol, h.rtol, h.mean_eq]

theorem Equiv.loss_eq {s t : State α} (h : Equiv s t) (sqrt : α → α) (real : Bool) :
    loss sqrt s real = loss sqrt t real := by
  unfold loss
  rw [h.npoints, h.nRequested_eq, h.lossN_eq]

/-- `tell` respects `Equiv` -/
theorem Equiv.tell {s t : State α} (h : Equiv s t) (k : Nat) (v : α) :
    Equiv (tell s k v) (tell t k v) := by
  unfold Avg.tell
  rw [hasKey_perm h.data]
  split
  · exact h
  · exact ⟨h.data.append_right _, by simp only [h.pending], by simp only [h.npoints],
      by simp only [h.sumF], by simp only [h.sumFsq], h.atol, h.rtol, h.minNpoints⟩

theorem Equiv.foldl_tell {s t : State α} (h : Equiv s t) (ts : List (Nat × α)) :
    Equiv (ts.foldl (fun s p => Avg.tell s p.1 p.2) s) (ts.foldl (fun s p => Avg.tell s p.1 p.2) t) := by
  induction ts generalizing s t with
  | nil => exact h
  | cons p r ih => exact ih (h.tell p.1 p.2)

/-- two `tell`s of different seeds commute up to the order of `data` -/
theorem tell_comm (s : State α) {k k' : Nat} (hk : k ≠ k') (v v' : α) :
    Equiv (tell (tell s k v) k' v') (tell (tell s k' v') k v) := by
  have e1 : (k == k') = false := by simpa using hk
  have e2 : (k' == k) = false := by simpa using hk.symm
  unfold tell
  by_cases h1 : hasKey k s.data = true <;> by_cases h2 : hasKey k' s.data = true
  · simp only [h1, h2, if_true]; exact Equiv.refl _
  · simp only [h1, h2, if_true, Bool.false_eq_true, if_false, hasKey_append, hasKey_singleton, e2,
      Bool.or_false]
    exact Equiv.refl _
  · simp only [h1, h2, if_true, Bool.false_eq_true, if_false, hasKey_append, hasKey_singleton, e1,
      Bool.or_false]
    exact Equiv.refl _
  · simp only [h1, h2, Bool.false_eq_true, if_false, hasKey_append, hasKey_singleton, e1, e2,
      Bool.or_false]
    refine ⟨?_, ?_, ?_, ?_, ?_, rfl, rfl, rfl⟩
    · simp only [List.append_assoc]
      exact List.Perm.append_left _ (List.Perm.swap _ _ _)
    · exact List.erase_comm _ _
    · rfl
    · exact add_right_comm _ _ _
    · exact add_right_comm _ _ _

theorem run_map_tellOp (s : State α) (ts : List (Nat × α)) :
    run s (ts.map tellOp) = ts.foldl (fun s p => tell s p.1 p.2) s := by
  simp only [run, List.foldl_map, tellOp, step]

/-- the key lemma: telling a permutation of pairwise-distinct-seed results from `Equiv` states
gives `Equiv` states -/
theorem equiv_foldl_tell_perm {ts₁ ts₂ : List (Nat × α)} (hp : ts₁.Perm ts₂) :
    (ts₁.map Prod.fst).Nodup → ∀ s t : State α, Equiv s t →
      Equiv (ts₁.foldl (fun s p => tell s p.1 p.2) s) (ts₂.foldl (fun s p => tell s p.1 p.2) t) := by
  induction hp with
  | nil => intro _ s t h; exact h
  | cons x _ ih =>
    intro hnd s t h
    simp only [List.map_cons, List.nodup_cons] at hnd
    exact ih hnd.2 _ _ (h.tell x.1 x.2)
  | swap x y l =>
    intro hnd s t h
    simp only [List.map_cons, List.nodup_cons, List.mem_cons, not_or] at hnd
    simp only [List.foldl_cons]
    apply Equiv.foldl_tell
    exact ((h.tell y.1 y.2).tell x.1 x.2).trans (tell_comm t hnd.1.1 y.2 x.2)
  | trans p₁ _ ih₁ ih₂ =>
    intro hnd s t h
    exact (ih₁ hnd s s (Equiv.refl s)).trans (ih₂ ((p₁.map Prod.fst).nodup_iff.1 hnd) s t h)

theorem Equiv.mem_data_iff {s t : State α} (h : Equiv s t) (k : Nat) (v : α) :
    (k, v) ∈ s.data ↔ (k, v) ∈ t.data := h.data.mem_iff

/-- B. AverageLearner: from any state, two orders of telling the same results (pairwise distinct
seeds) give states that differ only in the order of the `data` dict. -/
theorem run_tells_perm (s : State α) {ts₁ ts₂ : List (Nat × α)} (hp : ts₁.Perm ts₂)
    (hnd : (ts₁.map Prod.fst).Nodup) :
    Equiv (run s (ts₁.map tellOp)) (run s (ts₂.map tellOp)) := by
  rw [run_map_tellOp, run_map_tellOp]
  exact equiv_foldl_tell_perm hp hnd s s (Equiv.refl s)

/-- B (spelled out): the same counters, sums, `data` as a set, `pending`, and therefore the same
`mean`, `std`, `loss` and the same answer of `ask` (`askPoints`), for every `sqrt`. -/
theorem order_indep (s : State α) {ts₁ ts₂ : List (Nat × α)} (hp : ts₁.Perm ts₂)
    (hnd : (ts₁.map Prod.fst).Nodup) :
    let s₁ := run s (ts₁.map tellOp)
    let s₂ := run s (ts₂.map tellOp)
    s₁.npoints = s₂.npoints ∧ s₁.sumF = s₂.sumF ∧ s₁.sumFsq = s₂.sumFsq ∧
    (∀ k v, (k, v) ∈ s₁.data ↔ (k, v) ∈ s₂.data) ∧ s₁.data.Perm s₂.data ∧
    s₁.pending = s₂.pending ∧
    mean s₁ = mean s₂ ∧
    (∀ sqrt, std sqrt s₁ = std sqrt s₂) ∧
    (∀ sqrt real, loss sqrt s₁ real = loss sqrt s₂ real) ∧
    (∀ n choice, askPoints s₁ n choice = askPoints s₂ n choice) := by
  intro s₁ s₂
  have h : Equiv s₁ s₂ := run_tells_perm s hp hnd
  exact ⟨h.npoints, h.sumF, h.sumFsq, h.mem_data_iff, h.data, h.pending, h.mean_eq, h.std_eq,
    h.loss_eq, h.askPoints_eq⟩

end field

/-- distinct seeds are needed: the first value told for a seed wins -/
example : (run (init (α := Int) none none 2) ([(0, 1), (0, 2)].map tellOp)).sumF ≠
    (run (init (α := Int) none none 2) ([(0, 2), (0, 1)].map tellOp)).sumF := by decide

end Avg
