import AdaptiveProofs.Lemmas.L1DValuesAux
import Mathlib.Algebra.Order.Field.Rat

/-!
# Learner1D model: the VALUE invariant, part 2 — the table of evaluated intervals

(Part 1, `L1DValuesAux`, has the definitions `getLossAt`, `RealVals`, `CombVals` and proves
`combVals_step` / `combVals_run`.)

* `getLossAt_tellPre` — (i) a `tell` of a fresh point changes `getLoss` only on the intervals that
  `getIntervals` recomputes; for ANY `nn` (index-window argument `win_sinsert`).
* `rvInv_step`, `realVals_run` — `RealVals` is an invariant, for any `nn`, under
  - `OpDim d op`: all told values have `d` components (monotonicity of `scaleY`), and
  - `OpInBox s op` / `RunInBox`: every told abscissa lies inside the x-box `bboxX` of the state it
    is told to, so that `scaleX` is constant between two batch `tell_many`.  A `tell` outside the
    box enlarges `scaleX`, and `tell` never recomputes losses for a change of `scaleX`.
    Before the repair `fix: Learner1D.tell_many batch path shrank the x-scale to the range of the
    points` this hypothesis bit INSIDE the domain: the batch path shrank the x-box to the span of
    the points it knew, and a later `tell` outside that span (but inside the learner's bounds)
    left stale entries.  Since the repair the box always contains the domain, so for histories
    whose points lie in `[lo, hi]` the hypothesis is a CONSEQUENCE of the in-bounds condition
    (`runInBox_of_valid_init` in `L1DValid`: `ValidOps → RunInBox`, no end-point proviso), and the
    property theorems (`Props/C01.lean`) do not mention it.  It is kept here as the hypothesis of the
    state-level / invariant-free form because it is still what is needed for histories that leave
    the domain (out of the properties' scope): see the two examples at the end of the file.
    `1 ≤ factor` is not needed.
  `realVals_run_bounded` is the special case of histories of `tell` inside `[lo, hi]`,
  `tell_pending`, `ask`, `remove_unfinished` and loop-path `tell_many` (≤ 2 points, no `force`);
  it is subsumed by `ValidOps` (which also allows batches), see `L1DValid`.
* `exact_values_of_factor_one` — with `factor = 1` every evaluated interval holds exactly
  `getLoss lossFn s iv.1 iv.2`.
* `getLoss_nn0` — for `nn = 0` the loss of an interval depends only on its end points.
-/
set_option linter.unusedSectionVars false
set_option linter.unusedVariables false

namespace L1D
variable {α : Type} [Field α] [LinearOrder α] [IsStrictOrderedRing α]

/-! ## the index window of `getLoss` -/

/-- the `2 * nn + 2` abscissae `getLoss` looks at for the interval whose left end has index `i` -/
def win (l : List α) (nn : Nat) (i : Nat) : List (Option α) :=
  ((List.range (2 * nn + 2)).map (fun (k : Nat) => (i : Int) - (nn : Int) + (k : Int))).map
    (pointAt l)

theorem getLoss_eq_win (lossFn : List (Option α) → List (Option (List α)) → Loss α)
    (s : State α) (xl xr : α) :
    getLoss lossFn s xl xr =
      if xr - xl < s.dxEps then .fin 0 else
        lossFn ((win s.xs s.nn (s.xs.findIdx (fun y => y = xl))).map
            (Option.map (fun x => x / s.scaleX)))
          ((win s.xs s.nn (s.xs.findIdx (fun y => y = xl))).map (fun p => p.bind (fun x =>
            (dataGet s.data x).map (fun y => y.map (· / (if s.scaleY = 0 then 1 else s.scaleY)))))) :=
  rfl

theorem mem_of_pointAt {l : List α} {i : Int} {z : α} (h : pointAt l i = some z) : z ∈ l := by
  unfold pointAt at h
  split at h
  · exact absurd h (by simp)
  · exact List.mem_of_getElem? h

theorem mem_of_mem_win {l : List α} {nn i : Nat} {z : α} (h : some z ∈ win l nn i) : z ∈ l := by
  unfold win at h
  rw [List.mem_map] at h
  obtain ⟨k, -, hk⟩ := h
  exact mem_of_pointAt hk

/-- inserting a new point shifts the indices above the insertion position by one -/
theorem sinsert_getElem? {l : List α} {x : α} (hx : x ∉ l) :
    ∃ j, j ≤ l.length ∧ (∀ t, t < j → (sinsert x l)[t]? = l[t]?) ∧ (sinsert x l)[j]? = some x ∧
      (∀ t, j < t → (sinsert x l)[t]? = l[t - 1]?) := by
  induction l with
  | nil =>
    refine ⟨0, le_refl _, fun t ht => absurd ht (Nat.not_lt_zero _), rfl, ?_⟩
    intro t ht
    obtain ⟨t', rfl⟩ : ∃ t', t = t' + 1 := ⟨t - 1, by omega⟩
    simp [sinsert]
  | cons c r ih =>
    have hxc : x ≠ c := fun h => hx (h ▸ List.mem_cons_self ..)
    have hxr : x ∉ r := fun h => hx (List.mem_cons_of_mem _ h)
    simp only [sinsert]
    split
    · refine ⟨0, Nat.zero_le _, fun t ht => absurd ht (Nat.not_lt_zero _), rfl, ?_⟩
      intro t ht
      obtain ⟨t', rfl⟩ : ∃ t', t = t' + 1 := ⟨t - 1, by omega⟩
      simp
    · obtain ⟨j, hj, h1, h2, h3⟩ := ih hxr
      refine ⟨j + 1, by simpa using hj, ?_, by simpa using h2, ?_⟩
      · intro t ht
        cases t with
        | zero => rfl
        | succ t' => simpa using h1 t' (by omega)
      · intro t ht
        obtain ⟨t', rfl⟩ : ∃ t', t = t' + 1 := ⟨t - 1, by omega⟩
        obtain ⟨t'', rfl⟩ : ∃ t'', t' = t'' + 1 := ⟨t' - 1, by omega⟩
        have := h3 (t'' + 1) (by omega)
        simpa using this

/-- an interval that `getIntervals` does not recompute after the insertion of `x` is an old
interval and has the same index window as before -/
theorem win_sinsert {l : List α} (hs : l.Pairwise (· < ·)) {x : α} (hx : x ∉ l) (nn : Nat)
    {p q : α} (hpq : (p, q) ∈ pairs (sinsert x l))
    (hng : (p, q) ∉ pairs (((sinsert x l).drop
      ((sinsert x l).findIdx (fun y => y = x) - nn - 1)).take
        (min (sinsert x l).length ((sinsert x l).findIdx (fun y => y = x) + nn + 2) -
          ((sinsert x l).findIdx (fun y => y = x) - nn - 1)))) :
    (p, q) ∈ pairs l ∧
      win (sinsert x l) nn ((sinsert x l).findIdx (fun y => y = p)) =
        win l nn (l.findIdx (fun y => y = p)) := by
  obtain ⟨j, hj, h1, h2, h3⟩ := sinsert_getElem? hx
  have hs' := sorted_sinsert (x := x) hs
  rw [sorted_findIdx hs' h2] at hng
  obtain ⟨m, hm1, hm2⟩ := mem_pairs_iff_getElem?.1 hpq
  have hlen : m + 1 < (sinsert x l).length := (List.getElem?_eq_some_iff.1 hm2).1
  have hcase : m + nn + 1 < j ∨ j + nn + 1 ≤ m := by
    by_contra hc
    apply hng
    exact mem_pairs_window hm1 hm2 (by omega) (by omega)
  rw [sorted_findIdx hs' hm1]
  rcases hcase with hA | hB
  · have e1 : l[m]? = some p := by rw [← h1 m (by omega)]; exact hm1
    have e2 : l[m + 1]? = some q := by rw [← h1 (m + 1) (by omega)]; exact hm2
    refine ⟨mem_pairs_iff_getElem?.2 ⟨m, e1, e2⟩, ?_⟩
    rw [sorted_findIdx hs e1]
    unfold win
    rw [List.map_map, List.map_map]
    apply List.map_congr_left
    intro k hk
    rw [List.mem_range] at hk
    simp only [Function.comp]
    unfold pointAt
    split
    · rfl
    · apply h1; omega
  · have e1 : l[m - 1]? = some p := by rw [← h3 m (by omega)]; exact hm1
    have e2 : l[m - 1 + 1]? = some q := by
      have := h3 (m + 1) (by omega)
      rw [Nat.add_sub_cancel] at this
      rw [show m - 1 + 1 = m by omega, ← this]; exact hm2
    refine ⟨mem_pairs_iff_getElem?.2 ⟨m - 1, e1, e2⟩, ?_⟩
    rw [sorted_findIdx hs e1]
    unfold win
    rw [List.map_map, List.map_map]
    apply List.map_congr_left
    intro k hk
    simp only [Function.comp]
    unfold pointAt
    have hneg' : ¬ ((m : Int) - nn + k < 0) := by omega
    have hneg : ¬ (((m - 1 : Nat) : Int) - nn + k < 0) := by omega
    rw [if_neg hneg', if_neg hneg, h3 _ (by omega)]
    congr 1
    omega

section real
variable (lossFn : List (Option α) → List (Option (List α)) → Loss α) (r12 : α → α)

/-- `getLoss` only depends on `dxEps`, the scales, the index window and the data at the points of
the window -/
theorem getLoss_ext {s s' : State α} {p q : α} (h1 : s'.dxEps = s.dxEps)
    (h2 : s'.scaleX = s.scaleX) (h3 : s'.scaleY = s.scaleY)
    (hw : win s'.xs s'.nn (s'.xs.findIdx (fun y => y = p)) =
      win s.xs s.nn (s.xs.findIdx (fun y => y = p)))
    (hd : ∀ z, some z ∈ win s.xs s.nn (s.xs.findIdx (fun y => y = p)) →
      dataGet s'.data z = dataGet s.data z) :
    getLoss lossFn s' p q = getLoss lossFn s p q := by
  rw [getLoss_eq_win, getLoss_eq_win, h1, h2, h3, hw]
  congr 2
  apply List.map_congr_left
  intro pt hpt
  cases pt with
  | none => rfl
  | some z => simp only [Option.bind_some]; rw [hd z hpt]

/-- the fields of the state that `getLoss`, the scale bookkeeping and the in-box condition read -/
def gfields (s : State α) :
    α × List α × Nat × α × List (α × List α) × (α × α) × α × α × α :=
  (s.dxEps, s.xs, s.nn, s.scaleX, s.data, s.bboxX, s.scaleY, s.oldScaleY, s.factor)

theorem gfields_of_core {s s' : State α} (h : core s' = core s) : gfields s' = gfields s := by
  show gfields (core s') = gfields (core s)
  rw [h]

theorem getLossAt_of_gfields {s s' : State α} (h : gfields s' = gfields s) (sy a b : α) :
    getLossAt lossFn s' sy a b = getLossAt lossFn s sy a b := by
  simp only [gfields, Prod.mk.injEq] at h
  obtain ⟨h1, h2, h3, h4, h5, -⟩ := h
  unfold getLossAt getLoss
  dsimp only
  rw [h1, h2, h3, h4, h5]

theorem getLossAt_self (s : State α) (a b : α) :
    getLossAt lossFn s s.scaleY a b = getLoss lossFn s a b := rfl

theorem realVals_congr {s s' : State α} (hg : gfields s' = gfields s) (hl : s'.losses = s.losses)
    (h : RealVals lossFn s) : RealVals lossFn s' := by
  have hg' := hg
  simp only [gfields, Prod.mk.injEq] at hg'
  obtain ⟨-, h2, -, -, -, -, h7, h8, -⟩ := hg'
  intro iv hiv
  rw [h2] at hiv
  obtain ⟨sy, b1, b2, b3⟩ := h iv hiv
  refine ⟨sy, by rw [h8]; exact b1, by rw [h7]; exact b2, ?_⟩
  rw [hl, getLossAt_of_gfields lossFn hg]; exact b3

end real

section realtell
variable (lossFn : List (Option α) → List (Option (List α)) → Loss α) (r12 : α → α)

theorem dataGet_append_ne (d : List (α × List α)) {x z : α} (y : List α) (h : z ≠ x) :
    dataGet (d ++ [(x, y)]) z = dataGet d z := by
  unfold dataGet
  rw [List.find?_append]
  have : List.find? (fun kv => decide (kv.1 = z)) [(x, y)] = none := by
    simp [Ne.symm h]
  rw [this, Option.or_none]

/-- (i) a `tell` of a fresh point inside the x-box leaves the loss function's value unchanged on
every interval that `getIntervals` does not recompute, and these are old intervals (any `nn`) -/
theorem getLossAt_tellPre {s : State α} (hs : s.xs.Pairwise (· < ·)) {x : α} (hx : x ∉ s.xs)
    (y : List α) (hX : (tellPre s x y).scaleX = s.scaleX) {p q : α}
    (hpq : (p, q) ∈ pairs (tellPre s x y).xs) (hng : (p, q) ∉ getIntervals (tellPre s x y) x) :
    (p, q) ∈ pairs s.xs ∧
      ∀ sy, getLossAt lossFn (tellPre s x y) sy p q = getLossAt lossFn s sy p q := by
  obtain ⟨h1, h2⟩ := win_sinsert hs hx s.nn (p := p) (q := q) hpq hng
  refine ⟨h1, fun sy => ?_⟩
  unfold getLossAt
  apply getLoss_ext lossFn (s' := { tellPre s x y with scaleY := sy }) (s := { s with scaleY := sy })
    rfl hX rfl h2
  intro z hz
  have hzl : z ∈ s.xs := mem_of_mem_win hz
  exact dataGet_append_ne s.data y (fun h => hx (h ▸ hzl))

theorem core_ulErase (s : State α) (a b : Option α) : core (ulErase s a b) = core s := by
  unfold ulErase; split <;> rfl

theorem tellPre_scaleX {s : State α} {x : α} (y : List α)
    (hsx : s.scaleX = s.bboxX.2 - s.bboxX.1) (hb : s.bboxX.1 ≤ x ∧ x ≤ s.bboxX.2) :
    (tellPre s x y).bboxX = s.bboxX ∧ (tellPre s x y).scaleX = s.scaleX := by
  unfold tellPre updateScale
  dsimp only
  rw [if_neg (not_lt.2 hb.1), if_neg (not_lt.2 hb.2)]
  exact ⟨rfl, hsx.symm⟩

theorem scaleY_le_tellPre {d : Nat} {s : State α} (hm : ScaleMono d s) (x : α) {y : List α}
    (hy : y.length = d) : s.scaleY ≤ (tellPre s x y).scaleY :=
  scaleY_le_updateScale
    (s := { s with data := s.data ++ [(x, y)], pending := s.pending.erase x,
                   xsC := sinsert x s.xsC, xs := sinsert x s.xs })
    (boxOK_congr rfl rfl hm.box) x y (fun b hb => hy ▸ hm.bdim b hb)

/-- the table `losses` after the table update of `tell`: recomputed on the window, untouched
elsewhere -/
theorem updateLosses_true_losses {s : State α} (hs : s.xs.Pairwise (· < ·)) {x : α}
    (hx : x ∈ s.xs) {k : Ival α} (hk : k ∈ pairs s.xs) :
    lget k (updateLosses lossFn r12 s x true).losses =
      if k ∈ getIntervals s x then some (getLoss lossFn s k.1 k.2) else lget k s.losses := by
  rw [updateLosses_true_eq, ulRight_losses, ulLeft_losses, lget_ulErase2_losses]
  · have hgi := getIntervals_congr (same_ulErase s (leftOf x s.xsC) (rightOf x s.xsC)).1
      (ulErase_nn s (leftOf x s.xsC) (rightOf x s.xsC)) x
    rw [hgi]
    show lget k (recomputeLoop lossFn r12 (ulErase s (leftOf x s.xsC) (rightOf x s.xsC))
      (getIntervals s x)).losses = _
    rw [recomputeLoop_losses, ulErase_losses, getLoss_congr lossFn (core_ulErase s _ _)]
  · intro h
    exact not_straddle hs hx (show (k.1, k.2) ∈ pairs s.xs from hk)
      ((leftOf_eq_some hs).1 h.1).2.1 ((rightOf_eq_some hs).1 h.2).2.1

theorem realVals_updateLosses_tellPre {d : Nat} {s : State α} (hi : Inv s) (hm : ScaleMono d s)
    (hrv : RealVals lossFn s) {x : α} (hx : ¬ hasData s x = true) {y : List α}
    (hy : y.length = d) (hX : (tellPre s x y).scaleX = s.scaleX) :
    RealVals lossFn (updateLosses lossFn r12 (tellPre s x y) x true) := by
  have hg := gfields_of_core (core_updateLosses lossFn r12 (tellPre s x y) x true)
  have hg' := hg
  simp only [gfields, Prod.mk.injEq] at hg'
  obtain ⟨-, g2, -, -, -, -, g7, g8, -⟩ := hg'
  have hx' : x ∉ s.xs := fun h => hx ((hi.xs_mem x).1 h)
  have hs1 : (tellPre s x y).xs.Pairwise (· < ·) := sorted_sinsert (x := x) hi.xs_sorted
  have hx1 : x ∈ (tellPre s x y).xs := mem_sinsert.2 (Or.inl rfl)
  have hm1 := scaleMono_tellPre hm x hy
  have hle := scaleY_le_tellPre hm x hy
  intro iv hiv
  rw [g2] at hiv
  rw [g7, g8, updateLosses_true_losses lossFn r12 hs1 hx1 hiv]
  by_cases hgi : iv ∈ getIntervals (tellPre s x y) x
  · refine ⟨(tellPre s x y).scaleY, hm1.old_le, le_refl _, ?_⟩
    rw [if_pos hgi, getLossAt_of_gfields lossFn hg]
    rfl
  · obtain ⟨hold, hK⟩ := getLossAt_tellPre lossFn hi.xs_sorted hx' y hX (p := iv.1) (q := iv.2)
      hiv hgi
    obtain ⟨sy, b1, b2, b3⟩ := hrv iv hold
    refine ⟨sy, b1, le_trans b2 hle, ?_⟩
    rw [if_neg hgi, getLossAt_of_gfields lossFn hg, hK sy]
    exact b3

theorem maybeRescale_xs (u : State α) : (maybeRescale lossFn r12 u).xs = u.xs := by
  have hc := core_maybeRescale lossFn r12 u
  split at hc
  · have := congrArg State.xs hc; exact this
  · have := congrArg State.xs hc; exact this

/-- (iii) when the rescale fires every interval is normalised with `scaleY = oldScaleY`; otherwise
nothing changes -/
theorem realVals_maybeRescale {u : State α} (hi : Inv u) (h : RealVals lossFn u) :
    RealVals lossFn (maybeRescale lossFn r12 u) := by
  by_cases hf : u.factor * u.oldScaleY < u.scaleY
  · obtain ⟨n1, n2, -, n4⟩ := maybeRescale_normalised lossFn r12 u hf
    intro iv hiv
    rw [maybeRescale_xs] at hiv
    refine ⟨(maybeRescale lossFn r12 u).scaleY, le_of_eq n1, le_refl _, ?_⟩
    rw [getLossAt_self]
    apply n4
    rw [n2]
    exact (hi.losses_keys iv).2 hiv
  · have : maybeRescale lossFn r12 u = u := by unfold maybeRescale; rw [if_neg hf]
    rw [this]; exact h

end realtell

section rvinv
variable (lossFn : List (Option α) → List (Option (List α)) → Loss α) (r12 : α → α)

/-- the invariant `RealVals` is proved with: the structural invariant, the scale bookkeeping of
`L1DScale` (all values have `d` components, `oldScaleY ≤ scaleY`), and `scaleX` = width of the
x-box -/
structure RVInv (d : Nat) (s : State α) : Prop where
  inv : Inv s
  sm : ScaleMono d s
  sx : s.scaleX = s.bboxX.2 - s.bboxX.1
  rv : RealVals lossFn s

/-- the told abscissae lie inside the current x-box, so that `scaleX` does not change (nothing is
required of the batch path of `tell_many`, which recomputes everything) -/
def OpInBox (s : State α) : Op α → Prop
  | .tell x _ => s.bboxX.1 ≤ x ∧ x ≤ s.bboxX.2
  | .tellMany pts force =>
    (!force && !(decide (s.data.length < 2 * pts.length) && decide (2 < pts.length))) = true →
      ∀ kv ∈ pts, s.bboxX.1 ≤ kv.1 ∧ kv.1 ≤ s.bboxX.2
  | _ => True

theorem rvInv_congr {d : Nat} {s s' : State α} (hg : gfields s' = gfields s)
    (hl : s'.losses = s.losses) (hinv : Inv s') (hsm : ScaleMono d s') (h : RVInv lossFn d s) :
    RVInv lossFn d s' := by
  refine ⟨hinv, hsm, ?_, realVals_congr lossFn hg hl h.rv⟩
  simp only [gfields, Prod.mk.injEq] at hg
  obtain ⟨-, -, -, h4, -, h6, -⟩ := hg
  rw [h4, h6]; exact h.sx

theorem maybeRescale_box (u : State α) :
    (maybeRescale lossFn r12 u).scaleX = u.scaleX ∧ (maybeRescale lossFn r12 u).bboxX = u.bboxX := by
  have hc := core_maybeRescale lossFn r12 u
  split at hc
  · have h1 := congrArg State.scaleX hc; have h2 := congrArg State.bboxX hc; exact ⟨h1, h2⟩
  · have h1 := congrArg State.scaleX hc; have h2 := congrArg State.bboxX hc; exact ⟨h1, h2⟩

theorem opDim_tell {d : Nat} {x : α} {y : List α} (hy : y.length = d) :
    OpDim d (Op.tell x y) := by
  intro kv hkv
  have : kv = (x, y) := List.mem_singleton.1 hkv
  rw [this]; exact hy

theorem rvInv_tell {d : Nat} {s : State α} (h : RVInv lossFn d s) {x : α} {y : List α}
    (hy : y.length = d) (hb : s.bboxX.1 ≤ x ∧ x ≤ s.bboxX.2) :
    RVInv lossFn d (tell lossFn r12 s x y) ∧ (tell lossFn r12 s x y).bboxX = s.bboxX := by
  by_cases hx : hasData s x = true
  · have e : tell lossFn r12 s x y = s := by rw [tell_eq, if_pos hx]
    rw [e]; exact ⟨h, rfl⟩
  · have e : tell lossFn r12 s x y =
        maybeRescale lossFn r12 (updateLosses lossFn r12 (tellPre s x y) x true) := by
      rw [tell_eq, if_neg hx]
    have hbox := tellPre_scaleX y h.sx hb
    have hg := gfields_of_core (core_updateLosses lossFn r12 (tellPre s x y) x true)
    simp only [gfields, Prod.mk.injEq] at hg
    obtain ⟨-, -, -, g4, -, g6, -⟩ := hg
    have hmb := maybeRescale_box lossFn r12 (updateLosses lossFn r12 (tellPre s x y) x true)
    have hbb : (tell lossFn r12 s x y).bboxX = s.bboxX := by
      rw [e, hmb.2, g6, hbox.1]
    refine ⟨⟨inv_tell lossFn r12 h.inv x y,
      scaleMono_step lossFn r12 h.sm (op := .tell x y) (opDim_tell hy), ?_, ?_⟩, hbb⟩
    · rw [hbb, e, hmb.1, g4, hbox.2]; exact h.sx
    · rw [e]
      exact realVals_maybeRescale lossFn r12 (inv_updateLosses_tellPre lossFn r12 h.inv y hx)
        (realVals_updateLosses_tellPre lossFn r12 h.inv h.sm h.rv hx hy hbox.2)

theorem rvInv_foldl_tell {d : Nat} (pts : List (α × List α)) {s : State α}
    (h : RVInv lossFn d s) (hd : ∀ kv ∈ pts, kv.2.length = d)
    (hb : ∀ kv ∈ pts, s.bboxX.1 ≤ kv.1 ∧ kv.1 ≤ s.bboxX.2) :
    RVInv lossFn d (pts.foldl (fun s kv => tell lossFn r12 s kv.1 kv.2) s) := by
  induction pts generalizing s with
  | nil => exact h
  | cons kv pts ih =>
    obtain ⟨h1, h2⟩ := rvInv_tell lossFn r12 h (hd kv (List.mem_cons_self ..))
      (hb kv (List.mem_cons_self ..))
    rw [List.foldl_cons]
    apply ih h1 (fun k hk => hd k (List.mem_cons_of_mem _ hk))
    intro k hk
    rw [h2]
    exact hb k (List.mem_cons_of_mem _ hk)

/-! ### operations that do not touch `losses` -/

theorem tellPending_losses (s : State α) (x : α) :
    (tellPending lossFn r12 s x).losses = s.losses := by
  unfold tellPending
  split
  · rfl
  · rw [updateLosses_false_eq, ulRight_losses, ulLeft_losses, ulPend_losses, ulErase_losses]

theorem gfields_tellPending (s : State α) (x : α) :
    gfields (tellPending lossFn r12 s x) = gfields s := by
  have hc := core_tellPending lossFn r12 s x
  split at hc
  · exact gfields_of_core hc
  · exact (gfields_of_core hc).trans rfl

theorem rvInv_tellPending {d : Nat} {s : State α} (h : RVInv lossFn d s) (x : α) :
    RVInv lossFn d (tellPending lossFn r12 s x) :=
  rvInv_congr lossFn (gfields_tellPending lossFn r12 s x) (tellPending_losses lossFn r12 s x)
    (inv_tellPending lossFn r12 h.inv x)
    (scaleMono_step lossFn r12 h.sm (op := .tellPending x) (fun _ hkv => by simp [tellsOf] at hkv)) h

theorem rvInv_foldl_tellPending {d : Nat} (pts : List α) {s : State α} (h : RVInv lossFn d s) :
    RVInv lossFn d (pts.foldl (tellPending lossFn r12) s) := by
  induction pts generalizing s with
  | nil => exact h
  | cons p pts ih => exact ih (rvInv_tellPending lossFn r12 h p)

theorem rvInv_ask {d : Nat} {s : State α} (h : RVInv lossFn d s) (n : Nat) (c : Bool) :
    RVInv lossFn d (ask lossFn r12 s n c).2 := by
  unfold ask
  dsimp only
  split
  · exact rvInv_foldl_tellPending lossFn r12 _ h
  · exact h

theorem rvInv_removeUnfinished {d : Nat} {s : State α} (h : RVInv lossFn d s) :
    RVInv lossFn d (removeUnfinished s) :=
  rvInv_congr lossFn (s := s) (s' := removeUnfinished s) rfl rfl (inv_removeUnfinished h.inv)
    (scaleMono_step lossFn id h.sm (op := .removeUnfinished)
      (fun _ hkv => by simp [tellsOf] at hkv)) h

end rvinv

section rvbatch
variable (lossFn : List (Option α) → List (Option (List α)) → Loss α) (r12 : α → α)

/-- every stored loss is the loss function's value at the current scales -/
def Normalised (s : State α) : Prop :=
  ∀ k v, lget k s.losses = some v → v = getLoss lossFn s k.1 k.2

theorem normalised_updInterp {s : State α} (h : Normalised lossFn s) (p q : α) :
    Normalised lossFn (updInterp lossFn r12 s p q) := by
  intro k v hkv
  rw [updInterp_losses] at hkv
  rw [getLoss_updInterp]
  split at hkv
  · rename_i hk
    rw [hk]
    exact (Option.some.inj hkv).symm
  · exact h k v hkv

theorem normalised_batchInterp {s : State α} (h : Normalised lossFn s) (ti : List (Ival α)) :
    Normalised lossFn (batchInterp lossFn r12 s ti) := by
  induction ti generalizing s with
  | nil => exact h
  | cons iv ti ih =>
    simp only [batchInterp, List.foldl_cons]
    apply ih
    split
    · exact normalised_updInterp lossFn r12 h _ _
    · exact h

theorem normalised_batchLoss {s : State α} (h : Normalised lossFn s) (ivs : List (Ival α)) :
    Normalised lossFn (batchLoss lossFn r12 s ivs) := by
  induction ivs generalizing s with
  | nil => exact h
  | cons iv ivs ih =>
    simp only [batchLoss, List.foldl_cons]
    apply ih
    intro k v hkv
    have hkv' : lget k (lset r12 s.lossScale iv (getLoss lossFn s iv.1 iv.2) s.losses) = some v :=
      hkv
    rw [lget_lset] at hkv'
    show v = getLoss lossFn s k.1 k.2
    split at hkv'
    · rename_i hk
      rw [hk]
      exact (Option.some.inj hkv').symm
    · exact h k v hkv'

theorem core_batchC_fold (ivs : List (Ival α)) (acc : State α × List (Ival α)) :
    core (ivs.foldl (batchStepC r12) acc).1 = core acc.1 := by
  apply core_foldl_fst_of_step
  rintro ⟨s, ti⟩ b
  rw [batchStepC_fst]
  rfl

theorem normalised_batchC (s : State α) (pts : List (α × List α)) :
    Normalised lossFn (batchC lossFn r12 s pts).1 := by
  have h0 : Normalised lossFn (batchInit s pts) := by
    intro k v hkv
    have : lget k ([] : List (Ival α × Loss α)) = some v := hkv
    simp [lget] at this
  have h1 := normalised_batchLoss lossFn r12 h0 (pairs (batchInit s pts).xs)
  obtain ⟨-, b2, -, -⟩ := batchC_spec r12 (pairs (batchInit s pts).xsC)
    (batchLoss lossFn r12 (batchInit s pts) (pairs (batchInit s pts).xs), [])
  have hc := core_batchC_fold r12 (pairs (batchInit s pts).xsC)
    (batchLoss lossFn r12 (batchInit s pts) (pairs (batchInit s pts).xs), [])
  intro k v hkv
  unfold batchC at hkv ⊢
  rw [b2] at hkv
  rw [getLoss_congr lossFn hc]
  exact h1 k v hkv

/-- the batch path of `tell_many` establishes the invariant from scratch: every interval is
normalised with `scaleY = oldScaleY` -/
theorem rvInv_tellManyBatch {d : Nat} {s : State α} (hi : Inv s) (hm : ScaleMono d s)
    {pts : List (α × List α)} (hp : ∀ kv ∈ pts, kv.2.length = d) :
    RVInv lossFn d (tellManyBatch lossFn r12 s pts) := by
  have hc := core_tellManyBatch lossFn r12 s pts
  have hinv := inv_tellManyBatch lossFn r12 hi pts
  refine ⟨hinv, sviewProp_scaleMono d _ _ (sview_of_core hc) (scaleMono_batchBase hm hp), ?_, ?_⟩
  · have h1 := congrArg State.scaleX hc
    have h2 := congrArg State.bboxX hc
    have h1' : (tellManyBatch lossFn r12 s pts).scaleX = (batchBase s pts).scaleX := h1
    have h2' : (tellManyBatch lossFn r12 s pts).bboxX = (batchBase s pts).bboxX := h2
    rw [h1', h2']
    rfl
  · have hn : Normalised lossFn (tellManyBatch lossFn r12 s pts) := by
      rw [tellManyBatch_eq']
      exact normalised_batchInterp lossFn r12 (normalised_batchC lossFn r12 s pts) _
    have ho : (tellManyBatch lossFn r12 s pts).oldScaleY = (tellManyBatch lossFn r12 s pts).scaleY := by
      have h1 := congrArg State.oldScaleY hc
      have h2 := congrArg State.scaleY hc
      have h1' : (tellManyBatch lossFn r12 s pts).oldScaleY = (batchBase s pts).oldScaleY := h1
      have h2' : (tellManyBatch lossFn r12 s pts).scaleY = (batchBase s pts).scaleY := h2
      rw [h1', h2']
      rfl
    intro iv hiv
    obtain ⟨v, hv, -⟩ := lget_some_of_mem_tkeys ((hinv.losses_keys iv).2 hiv)
    refine ⟨(tellManyBatch lossFn r12 s pts).scaleY, le_of_eq ho, le_refl _, ?_⟩
    rw [hv, getLossAt_self, hn iv v hv]

end rvbatch

section rvmain
variable (lossFn : List (Option α) → List (Option (List α)) → Loss α) (r12 : α → α)

/-- Target 2 (step form, any `nn`): `RealVals` — together with the structural and the scale
invariants — is preserved by every operation whose told values have `d` components and whose told
abscissae lie inside the current x-box. -/
theorem rvInv_step {d : Nat} {s : State α} (h : RVInv lossFn d s) {op : Op α} (hd : OpDim d op)
    (hb : OpInBox s op) : RVInv lossFn d (step lossFn r12 s op) := by
  cases op with
  | tell x y =>
    exact (rvInv_tell lossFn r12 h (hd (x, y) (List.mem_cons_self ..)) hb).1
  | tellPending x => exact rvInv_tellPending lossFn r12 h x
  | tellMany pts f =>
    show RVInv lossFn d (tellMany lossFn r12 s pts f)
    unfold tellMany
    split
    · rename_i hc
      exact rvInv_foldl_tell lossFn r12 pts h hd (hb hc)
    · exact rvInv_tellManyBatch lossFn r12 h.inv h.sm hd
  | removeUnfinished => exact rvInv_removeUnfinished lossFn h
  | ask n c => exact rvInv_ask lossFn r12 h n c

/-- the told abscissae stay inside the x-box along the run -/
def RunInBox : State α → List (Op α) → Prop
  | _, [] => True
  | s, op :: ops => OpInBox s op ∧ RunInBox (step lossFn r12 s op) ops

theorem rvInv_init (d : Nat) (lo hi factor dxEps : α) (nn : Nat) :
    RVInv lossFn d (init lo hi factor dxEps nn) :=
  ⟨inv_init lo hi factor dxEps nn, scaleMono_init d lo hi factor dxEps nn, rfl,
    fun iv hiv => by simp [init, pairs] at hiv⟩

theorem rvInv_run_of {d : Nat} {s : State α} (h : RVInv lossFn d s) (ops : List (Op α))
    (hd : ∀ op ∈ ops, OpDim d op) (hb : RunInBox lossFn r12 s ops) :
    RVInv lossFn d (run lossFn r12 s ops) := by
  unfold run
  induction ops generalizing s with
  | nil => exact h
  | cons op ops ih =>
    exact ih (rvInv_step lossFn r12 h (hd op (List.mem_cons_self ..)) hb.1)
      (fun o ho => hd o (List.mem_cons_of_mem _ ho)) hb.2

/-- Target 2 (run form, any `nn`): along every history from `init` in which all told values have
the same number `d` of components and every told abscissa lies inside the x-box of the state it is
told to, every evaluated interval holds the loss function's value on the current data, normalised
with an output scale between `oldScaleY` and `scaleY`.  (`1 ≤ factor` is not needed for this; it
is what bounds `scaleY ≤ factor * oldScaleY`, see `staleness_run`.) -/
theorem realVals_run (lo hi factor dxEps : α) (nn : Nat) (d : Nat) (ops : List (Op α))
    (hd : ∀ op ∈ ops, OpDim d op)
    (hb : RunInBox lossFn r12 (init lo hi factor dxEps nn) ops) :
    RealVals lossFn (run lossFn r12 (init lo hi factor dxEps nn) ops) :=
  (rvInv_run_of lossFn r12 (rvInv_init lossFn d lo hi factor dxEps nn) ops hd hb).rv

/-- Target 3: with `factor = 1` every evaluated interval holds exactly the loss recomputed from
scratch on the current state. -/
theorem exact_values_of_factor_one (lo hi factor dxEps : α) (nn : Nat) (hf : factor = 1)
    (d : Nat) (ops : List (Op α)) (hd : ∀ op ∈ ops, OpDim d op)
    (hb : RunInBox lossFn r12 (init lo hi factor dxEps nn) ops) :
    let s := run lossFn r12 (init lo hi factor dxEps nn) ops
    ∀ iv ∈ pairs s.xs, lget iv s.losses = some (getLoss lossFn s iv.1 iv.2) := by
  intro s iv hiv
  have ho : s.oldScaleY = s.scaleY := exact_of_factor_one lossFn r12 lo hi factor dxEps nn hf d ops hd
  obtain ⟨sy, b1, b2, b3⟩ := realVals_run lossFn r12 lo hi factor dxEps nn d ops hd hb iv hiv
  have : sy = s.scaleY := le_antisymm b2 (ho ▸ b1)
  rw [b3, this]
  rfl

end rvmain

/-! ## a static sufficient condition for `RunInBox` -/
section bounded
variable (lossFn : List (Option α) → List (Option (List α)) → Loss α) (r12 : α → α)

theorem tellPre_bboxX {s : State α} {x : α} (y : List α)
    (hb : s.bboxX.1 ≤ x ∧ x ≤ s.bboxX.2) : (tellPre s x y).bboxX = s.bboxX := by
  unfold tellPre updateScale
  dsimp only
  rw [if_neg (not_lt.2 hb.1), if_neg (not_lt.2 hb.2)]

theorem tell_bboxX {s : State α} {x : α} (y : List α) (hb : s.bboxX.1 ≤ x ∧ x ≤ s.bboxX.2) :
    (tell lossFn r12 s x y).bboxX = s.bboxX := by
  rw [tell_eq]
  split
  · rfl
  · have hg := gfields_of_core (core_updateLosses lossFn r12 (tellPre s x y) x true)
    simp only [gfields, Prod.mk.injEq] at hg
    rw [(maybeRescale_box lossFn r12 _).2, hg.2.2.2.2.2.1, tellPre_bboxX y hb]

theorem foldl_tell_bboxX (pts : List (α × List α)) {s : State α}
    (hb : ∀ kv ∈ pts, s.bboxX.1 ≤ kv.1 ∧ kv.1 ≤ s.bboxX.2) :
    (pts.foldl (fun s kv => tell lossFn r12 s kv.1 kv.2) s).bboxX = s.bboxX := by
  induction pts generalizing s with
  | nil => rfl
  | cons kv pts ih =>
    have h1 := tell_bboxX lossFn r12 kv.2 (hb kv (List.mem_cons_self ..))
    rw [List.foldl_cons, ih, h1]
    intro k hk
    rw [h1]
    exact hb k (List.mem_cons_of_mem _ hk)

theorem foldl_tellPending_bboxX (pts : List α) (s : State α) :
    (pts.foldl (tellPending lossFn r12) s).bboxX = s.bboxX := by
  induction pts generalizing s with
  | nil => rfl
  | cons p pts ih =>
    have hg := gfields_tellPending lossFn r12 s p
    simp only [gfields, Prod.mk.injEq] at hg
    rw [List.foldl_cons, ih, hg.2.2.2.2.2.1]

/-- operations that keep the x-box `(lo, hi)`: `tell` inside `[lo, hi]`, and `tell_many` of at
most two points inside `[lo, hi]` without `force` (which takes the loop path) -/
def OpBounded (lo hi : α) : Op α → Prop
  | .tell x _ => lo ≤ x ∧ x ≤ hi
  | .tellMany pts force => force = false ∧ pts.length ≤ 2 ∧ ∀ kv ∈ pts, lo ≤ kv.1 ∧ kv.1 ≤ hi
  | _ => True

theorem step_bounded {lo hi : α} {s : State α} (hbb : s.bboxX = (lo, hi)) {op : Op α}
    (h : OpBounded lo hi op) :
    OpInBox s op ∧ (step lossFn r12 s op).bboxX = (lo, hi) := by
  cases op with
  | tell x y =>
    have hb : s.bboxX.1 ≤ x ∧ x ≤ s.bboxX.2 := by rw [hbb]; exact h
    exact ⟨hb, (tell_bboxX lossFn r12 y hb).trans hbb⟩
  | tellPending x =>
    have hg := gfields_tellPending lossFn r12 s x
    simp only [gfields, Prod.mk.injEq] at hg
    exact ⟨trivial, hg.2.2.2.2.2.1.trans hbb⟩
  | tellMany pts f =>
    obtain ⟨h1, h2, h3⟩ := h
    have hb : ∀ kv ∈ pts, s.bboxX.1 ≤ kv.1 ∧ kv.1 ≤ s.bboxX.2 := by rw [hbb]; exact h3
    refine ⟨fun _ => hb, ?_⟩
    show (tellMany lossFn r12 s pts f).bboxX = (lo, hi)
    unfold tellMany
    have hc : (!f && !(decide (s.data.length < 2 * pts.length) && decide (2 < pts.length))) = true := by
      have : ¬ 2 < pts.length := by omega
      simp [h1, this]
    rw [if_pos hc]
    exact (foldl_tell_bboxX lossFn r12 pts hb).trans hbb
  | removeUnfinished => exact ⟨trivial, hbb⟩
  | ask n c =>
    refine ⟨trivial, ?_⟩
    show (ask lossFn r12 s n c).2.bboxX = (lo, hi)
    unfold ask
    dsimp only
    split
    · exact (foldl_tellPending_bboxX lossFn r12 _ s).trans hbb
    · exact hbb

theorem runInBox_of_bounded {lo hi : α} (ops : List (Op α)) {s : State α}
    (hbb : s.bboxX = (lo, hi)) (h : ∀ op ∈ ops, OpBounded lo hi op) :
    RunInBox lossFn r12 s ops := by
  induction ops generalizing s with
  | nil => trivial
  | cons op ops ih =>
    obtain ⟨h1, h2⟩ := step_bounded lossFn r12 hbb (h op (List.mem_cons_self ..))
    exact ⟨h1, ih h2 (fun o ho => h o (List.mem_cons_of_mem _ ho))⟩

/-- Target 2 for histories without a batch `tell_many`, all points inside the bounds -/
theorem realVals_run_bounded (lo hi factor dxEps : α) (nn : Nat) (d : Nat) (ops : List (Op α))
    (hd : ∀ op ∈ ops, OpDim d op) (hb : ∀ op ∈ ops, OpBounded lo hi op) :
    RealVals lossFn (run lossFn r12 (init lo hi factor dxEps nn) ops) :=
  realVals_run lossFn r12 lo hi factor dxEps nn d ops hd
    (runInBox_of_bounded lossFn r12 ops rfl hb)

end bounded

/-! ## `nn = 0`: the loss of an interval depends only on its two end points -/

theorem getLoss_nn0 (lossFn : List (Option α) → List (Option (List α)) → Loss α) {s : State α}
    (hs : s.xs.Pairwise (· < ·)) (hnn : s.nn = 0) {xl xr : α} (h : (xl, xr) ∈ pairs s.xs) :
    getLoss lossFn s xl xr =
      if xr - xl < s.dxEps then .fin 0 else
        lossFn [some (xl / s.scaleX), some (xr / s.scaleX)]
          [(dataGet s.data xl).map (fun y => y.map (· / (if s.scaleY = 0 then 1 else s.scaleY))),
           (dataGet s.data xr).map (fun y => y.map (· / (if s.scaleY = 0 then 1 else s.scaleY)))] := by
  obtain ⟨j, h1, h2⟩ := mem_pairs_iff_getElem?.1 h
  have hw : win s.xs s.nn (s.xs.findIdx (fun y => y = xl)) = [some xl, some xr] := by
    rw [sorted_findIdx hs h1, hnn]
    show [pointAt s.xs ((j : Int) - ((0 : Nat) : Int) + ((0 : Nat) : Int)),
      pointAt s.xs ((j : Int) - ((0 : Nat) : Int) + ((1 : Nat) : Int))] = _
    have e0 : (j : Int) - ((0 : Nat) : Int) + ((0 : Nat) : Int) = (j : Int) := by omega
    have e1 : (j : Int) - ((0 : Nat) : Int) + ((1 : Nat) : Int) = ((j + 1 : Nat) : Int) := by omega
    rw [e0, e1]
    unfold pointAt
    rw [if_neg (by omega), if_neg (by omega)]
    simp only [Int.toNat_natCast]
    rw [h1, h2]
  rw [getLoss_eq_win, hw]
  rfl


/-! ## the history that used to need the in-box hypothesis

History (bounds `[0, 10]`, `nn = 0`, `factor = 1`, all values `[0]`): a forced `tell_many` of the
points `2, 3, 4`, then `tell 8`.  Before the repair `fix: Learner1D.tell_many batch path shrank the
x-scale` the batch path set `bboxX = (2, 4)`, `scaleX = 2`, the later `tell` widened the scale to `6`
and the entry of `(2, 3)` stayed `1/2` although the loss recomputed on the final state is `1/6`.
Now the x-box contains the domain and the stored entry is the recomputed one. -/
section formerCounterexample

def ceLoss : List (Option Rat) → List (Option (List Rat)) → Loss Rat
  | [some a, some b], _ => .fin (b - a)
  | _, _ => .inf

def ceOps : List (Op Rat) := [.tellMany [(2, [0]), (3, [0]), (4, [0])] true, .tell 8 [0]]

def ceState : State Rat := run ceLoss id (init (0 : Rat) 10 1 0 0) ceOps

example : lget (2, 3) ceState.losses = some (.fin (1 / 10)) ∧
    getLoss ceLoss ceState 2 3 = .fin (1 / 10) ∧ (2, 3) ∈ pairs ceState.xs ∧
    ceState.bboxX = (0, 10) := by
  decide +kernel

end formerCounterexample

/-! ## what the in-box hypothesis is still needed for: points OUTSIDE the domain

`RunInBox` cannot be dropped from `realVals_run` altogether: with bounds `[0, 10]`, `tell 2`,
`tell 3`, then `tell 12` (outside the domain, hence outside the properties' quantifier) widens the
x-scale from 10 to 12 without recomputing the entry of `(2, 3)`: it stays `1/10` although the loss
recomputed on the final state is `1/12`.  For points inside the domain this cannot happen any more
(`runInBox_of_valid_init`). -/
section stillNeeded

def ceOpsOut : List (Op Rat) := [.tell 2 [0], .tell 3 [0], .tell 12 [0]]

def ceStateOut : State Rat := run ceLoss id (init (0 : Rat) 10 1 0 0) ceOpsOut

example : lget (2, 3) ceStateOut.losses = some (.fin (1 / 10)) ∧
    getLoss ceLoss ceStateOut 2 3 = .fin (1 / 12) ∧ (2, 3) ∈ pairs ceStateOut.xs ∧
    ceStateOut.bboxX = (0, 12) := by
  decide +kernel

end stillNeeded

end L1D
