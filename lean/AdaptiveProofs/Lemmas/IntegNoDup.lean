import AdaptiveProofs.Lemmas.IntegDefs
import Mathlib.Data.List.Basic
/-!
C07: no abscissa is pushed on the stack twice, no abscissa is returned twice (IntegratorLearner model).
-/
namespace Integ
set_option linter.unusedSectionVars false
variable {α : Type}

/-- invariant of the abscissa bookkeeping -/
structure PtInv (s : St α) : Prop where
  nodup : s.pushed.Nodup
  split : s.popped ++ s.stack = s.pushed
  known : ∀ x ∈ s.pushed, x ∈ s.pending ∨ x ∈ s.data
  handed : s.handed.Sublist s.popped

/-- the six fields the invariant talks about -/
def ptView (s : St α) := (s.stack, s.pending, s.data, s.pushed, s.popped, s.handed)

theorem PtInv.of_view {s s' : St α} (h : PtInv s) (hv : ptView s' = ptView s) : PtInv s' := by
  simp only [ptView, Prod.mk.injEq] at hv
  obtain ⟨h1, h2, h3, h4, h5, h6⟩ := hv
  constructor
  · rw [h4]; exact h.nodup
  · rw [h5, h1, h4]; exact h.split
  · rw [h4, h2, h3]; exact h.known
  · rw [h6, h5]; exact h.handed

/-- a transition that keeps the invariant and does not touch `popped`, `handed` -/
def Pres (s s' : St α) : Prop := (PtInv s → PtInv s') ∧ s'.popped = s.popped ∧ s'.handed = s.handed

theorem Pres.refl (s : St α) : Pres s s := ⟨id, rfl, rfl⟩

theorem Pres.trans {a b c : St α} (h1 : Pres a b) (h2 : Pres b c) : Pres a c :=
  ⟨fun h => h2.1 (h1.1 h), h2.2.1.trans h1.2.1, h2.2.2.trans h1.2.2⟩

theorem Pres.of_view {s s' : St α} (hv : ptView s' = ptView s) : Pres s s' := by
  refine ⟨fun h => h.of_view hv, ?_, ?_⟩
  · exact congrArg (fun v => v.2.2.2.2.1) hv
  · exact congrArg (fun v => v.2.2.2.2.2) hv

variable [OfNat α 0] [DecidableEq α] [Div α] [OfNat α 2] [LT α] [DecidableLT α] [Sub α] [Mul α] [Add α] [Neg α]

theorem Pres.step {a b c : St α} (h2 : Pres b c) (h1 : ptView b = ptView a) : Pres a c :=
  (Pres.of_view h1).trans h2

theorem forEach_rel {σ β : Type} (R : σ → σ → Prop) (hr : ∀ s, R s s)
    (ht : ∀ a b c, R a b → R b c → R a c) (f : σ → β → σ × Option Err) (hf : ∀ s x, R s (f s x).1) :
    ∀ (l : List β) (s : σ), R s (forEach f l s).1
  | [], s => hr s
  | x :: r, s => by
    unfold forEach
    have h1 := hf s x
    split
    · next s' heq => rw [heq] at h1; exact ht _ _ _ h1 (forEach_rel R hr ht f hf r s')
    · next s' e heq => rw [heq] at h1; exact h1

theorem forEach_view {β : Type} (f : St α → β → St α × Option Err)
    (hf : ∀ s x, ptView (f s x).1 = ptView s) (l : List β) (s : St α) :
    ptView (forEach f l s).1 = ptView s :=
  forEach_rel (fun s s' => ptView s' = ptView s) (fun _ => rfl) (fun _ _ _ h1 h2 => h2.trans h1) f hf l s

theorem forEach_pres {β : Type} (f : St α → β → St α × Option Err)
    (hf : ∀ s x, Pres s (f s x).1) (l : List β) (s : St α) :
    Pres s (forEach f l s).1 :=
  forEach_rel Pres Pres.refl (fun _ _ _ h1 h2 => h1.trans h2) f hf l s

theorem depthStep_view (O : Oracle α) (P : Params α) (i : Nat) (s : St α) (d : Nat) :
    ptView (depthStep O P i s d).1 = ptView s := by
  unfold depthStep
  simp only []
  repeat' split
  all_goals rfl

theorem tellIval_view (O : Oracle α) (P : Params α) (x : α) (s : St α) (i : Nat) :
    ptView (tellIval O P x s i).1 = ptView s := by
  unfold tellIval
  exact forEach_view _ (depthStep_view O P i) _ _

theorem mem_sadd {β : Type} [DecidableEq β] (x y : β) (l : List β) : y ∈ sadd x l ↔ y = x ∨ y ∈ l := by
  unfold sadd
  split
  · constructor
    · intro h; exact Or.inr h
    · rintro (rfl | h) <;> assumption
  · simp [List.mem_append, or_comm]

theorem tell_pres (O : Oracle α) (P : Params α) (s : St α) (x : α) : Pres s (tell O P s x).1 := by
  unfold tell
  split
  · exact Pres.refl s
  · next ids _ =>
    refine Pres.trans (b := { s with data := sadd x s.data, pending := s.pending.filter (fun y => y ≠ x) }) ?_ ?_
    · refine ⟨fun h => ?_, rfl, rfl⟩
      refine ⟨h.nodup, h.split, ?_, h.handed⟩
      intro y hy
      show y ∈ s.pending.filter (fun y => y ≠ x) ∨ y ∈ sadd x s.data
      by_cases hyx : y = x
      · exact Or.inr ((mem_sadd x y s.data).2 (Or.inl hyx))
      · rcases h.known y hy with hp | hd
        · exact Or.inl (List.mem_filter.2 ⟨hp, by simpa using hyx⟩)
        · exact Or.inr ((mem_sadd x y s.data).2 (Or.inr hd))
    · exact Pres.of_view (forEach_view _ (tellIval_view O P x) _ _)

theorem addPoint_pres (O : Oracle α) (P : Params α) (i : Nat) (s : St α) (x : α) :
    Pres s (addPoint O P i s x).1 := by
  unfold addPoint
  simp only []
  split
  · exact Pres.trans (b := { s with xmap := xmapAdd s.F x i s.xmap }) (Pres.of_view rfl) (tell_pres O P _ x)
  · next hd =>
    split
    · next hp =>
      refine ⟨fun h => ?_, rfl, rfl⟩
      have hd' : x ∉ s.data := hd
      have hp' : x ∉ s.pending := hp
      refine ⟨?_, ?_, ?_, h.handed⟩
      · show (s.pushed ++ [x]).Nodup
        have hx : x ∉ s.pushed := fun hx => by
          rcases h.known x hx with h1 | h1
          · exact hp' h1
          · exact hd' h1
        rw [List.nodup_append]
        refine ⟨h.nodup, by simp, ?_⟩
        intro a ha b hb
        rw [List.mem_singleton] at hb
        subst hb
        intro hab
        subst hab
        exact hx ha
      · show s.popped ++ (s.stack ++ [x]) = s.pushed ++ [x]
        rw [← List.append_assoc, h.split]
      · intro y hy
        show y ∈ s.pending ++ [x] ∨ y ∈ s.data
        have hy' : y ∈ s.pushed ++ [x] := hy
        rcases List.mem_append.1 hy' with h1 | h1
        · rcases h.known y h1 with h2 | h2
          · exact Or.inl (List.mem_append_left _ h2)
          · exact Or.inr h2
        · exact Or.inl (List.mem_append_right _ h1)
    · exact Pres.of_view rfl

theorem addIval_pres (O : Oracle α) (P : Params α) (s : St α) (i : Nat) :
    Pres s (addIval O P s i).1 := by
  unfold addIval
  simp only []
  have h1 := forEach_pres (addPoint O P i) (addPoint_pres O P i)
    (O.pts (getI s.F i).a (getI s.F i).b (getI s.F i).depth) s
  split
  · next s' e heq => rw [heq] at h1; exact h1
  · next s' heq => rw [heq] at h1; exact h1.trans (Pres.of_view rfl)

theorem removeIval_view (s : St α) (i : Nat) : ptView (removeIval s i).1 = ptView s := by
  unfold removeIval
  split <;> rfl

theorem pres_of_eq {s t : St α} {r : St α × Option Err} {oe : Option Err} (heq : r = (t, oe))
    (h : Pres s r.1) : Pres s t := by
  subst heq; exact h

/-- the branch of `fillStack` that works on the chosen interval -/
def fillInner (O : Oracle α) (P : Params α) (s : St α) (i : Nat) (pts : List α) (force : Bool) :
    St α × Option Err :=
  let I := getI s.F i
  if tooNarrow P pts then removeIval s i
  else if I.depth = 3 || force then
    match removeIval s i with
    | (s, some e) => (s, some e)
    | (s, none) =>
      let (s, l, r) := split s i pts
      match addIval O P s l with
      | (s, some e) => (s, some e)
      | (s, none) => addIval O P s r
  else addIval O P { s with F := modAt s.F i (fun I => { I with depth := I.depth + 1 }) } i

theorem fillInner_pres (O : Oracle α) (P : Params α) (s : St α) (i : Nat) (pts : List α) (force : Bool) :
    Pres s (fillInner O P s i pts force).1 := by
  unfold fillInner
  simp only [Integ.split]
  split
  · exact Pres.of_view (removeIval_view s i)
  · split
    · have h1 := removeIval_view s i
      split
      · next s1 e heq => rw [heq] at h1; exact Pres.of_view h1
      · next s1 heq =>
        rw [heq] at h1
        have hs1 : Pres s s1 := Pres.of_view h1
        split
        · next s2 e heq2 =>
          exact hs1.trans (Pres.step (pres_of_eq heq2 (addIval_pres O P _ _)) rfl)
        · next s2 heq2 =>
          exact (hs1.trans (Pres.step (pres_of_eq heq2 (addIval_pres O P _ _)) rfl)).trans
            (addIval_pres O P _ _)
    · exact Pres.step (addIval_pres O P _ _) rfl

theorem fillStack_pres (O : Oracle α) (P : Params α) (s : St α) : Pres s (fillStack O P s).1 := by
  unfold fillStack
  simp only [Integ.split]
  split
  · exact Pres.of_view rfl
  · next i prio' hpick =>
    have hin := fillInner_pres O P { s with prio := prio' } i
      (O.pts (getI s.F i).a (getI s.F i).b (getI s.F i).depth) (!(dropDead s.ivals s.prio).isEmpty)
    split
    · exact Pres.of_view rfl
    · split
      · next sR e heq =>
        exact Pres.step (pres_of_eq heq hin) rfl
      · next sR heq =>
        have hs : Pres s sR := Pres.step (pres_of_eq heq hin) rfl
        split
        · split
          · exact hs.trans (Pres.of_view rfl)
          · exact hs
        · exact hs

theorem popFromStack_inv (s : St α) (n : Nat) (h : PtInv s) : PtInv (popFromStack s n).1 := by
  unfold popFromStack
  refine ⟨h.nodup, ?_, h.known, ?_⟩
  · show (s.popped ++ s.stack.take n) ++ s.stack.drop n = s.pushed
    rw [List.append_assoc, List.take_append_drop]; exact h.split
  · show s.handed.Sublist (s.popped ++ s.stack.take n)
    exact h.handed.trans (List.sublist_append_left _ _)

theorem askLoop_spec (O : Oracle α) (P : Params α) :
    ∀ (fuel : Nat) (s : St α) (nLeft : Nat) (pts imps : List α),
    ∃ extra, (askLoop O P fuel s nLeft pts imps).2.2.1 = pts ++ extra ∧
      (askLoop O P fuel s nLeft pts imps).1.popped = s.popped ++ extra ∧
      (askLoop O P fuel s nLeft pts imps).1.handed = s.handed ∧
      (PtInv s → PtInv (askLoop O P fuel s nLeft pts imps).1)
  | 0, s, nLeft, pts, imps => ⟨[], by simp [askLoop]⟩
  | fuel + 1, s, nLeft, pts, imps => by
    unfold askLoop
    split
    · exact ⟨[], by simp⟩
    · have hf := fillStack_pres O P s
      split
      · next s' heq =>
        have hf' : Pres s s' := pres_of_eq heq hf
        exact ⟨[], by simp, by simpa using hf'.2.1, hf'.2.2, hf'.1⟩
      · next s' heq =>
        have hf' : Pres s s' := pres_of_eq heq hf
        exact ⟨[], by simp, by simpa using hf'.2.1, hf'.2.2, hf'.1⟩
      · rename_i heq
        have hf' := pres_of_eq heq hf
        exact ⟨[], by simp, by simpa using hf'.2.1, hf'.2.2, hf'.1⟩
      · next s' heq =>
        have hf' : Pres s s' := pres_of_eq heq hf
        have ih := askLoop_spec O P fuel (popFromStack s' nLeft).1
          (nLeft - (popFromStack s' nLeft).2.1.length) (pts ++ (popFromStack s' nLeft).2.1)
          (imps ++ (popFromStack s' nLeft).2.2)
        have hp := popFromStack_inv s' nLeft
        simp only [popFromStack] at ih hp ⊢
        obtain ⟨extra, h1, h2, h3, h4⟩ := ih
        refine ⟨s'.stack.take nLeft ++ extra, ?_, ?_, ?_, ?_⟩
        · rw [h1, List.append_assoc]
        · rw [h2, List.append_assoc, hf'.2.1]
        · exact h3.trans hf'.2.2
        · exact fun h => h4 (hp (hf'.1 h))

theorem askCommit_spec (O : Oracle α) (P : Params α) (fuel : Nat) (s : St α) (n : Nat) :
    (askCommit O P fuel s n).1.popped = s.popped ++ (askCommit O P fuel s n).2.2.1 ∧
    (askCommit O P fuel s n).1.handed = s.handed ∧
    (PtInv s → PtInv (askCommit O P fuel s n).1) := by
  unfold askCommit
  obtain ⟨extra, h1, h2, h3, h4⟩ := askLoop_spec O P fuel (popFromStack s n).1
    (n - (popFromStack s n).2.1.length) (popFromStack s n).2.1 (popFromStack s n).2.2
  have hp := popFromStack_inv s n
  simp only [popFromStack] at h1 h2 h3 h4 hp ⊢
  refine ⟨?_, h3, fun h => h4 (hp h)⟩
  rw [h1, h2, List.append_assoc]

theorem ask_spec (O : Oracle α) (P : Params α) (fuel : Nat) (s : St α) (n : Nat) (c : Bool) :
    (PtInv s → PtInv (ask O P fuel s n c).1) ∧
    (ask O P fuel s n c).1.handed = s.handed ++ (if c then (ask O P fuel s n c).2.2.1 else []) := by
  obtain ⟨h1, h2, h3⟩ := askCommit_spec O P fuel s n
  unfold ask
  split
  · next s' pts imps heq =>
    rw [heq] at h1 h2 h3
    split
    · next hc =>
      refine ⟨fun h => ?_, ?_⟩
      · have h' := h3 h
        refine ⟨h'.nodup, h'.split, h'.known, ?_⟩
        show (s'.handed ++ pts).Sublist s'.popped
        rw [show s'.handed = s.handed from h2, show s'.popped = s.popped ++ pts from h1]
        exact List.Sublist.append h.handed (List.Sublist.refl _)
      · show s'.handed ++ pts = s.handed ++ pts
        rw [show s'.handed = s.handed from h2]
    · next hc =>
      refine ⟨id, ?_⟩
      show s.handed = s.handed ++ []
      rw [List.append_nil]
  · rename_i s' e _ _ heq
    rw [heq] at h1 h2 h3
    cases c
    · exact ⟨id, by simp⟩
    · exact ⟨h3, by simpa using h2⟩

theorem reorder_view (s : St α) (x : α) (ids : List Nat) : ptView (reorder s x ids) = ptView s := by
  unfold reorder
  split
  · rfl
  · split <;> rfl

theorem ptInv_start (O : Oracle α) (P : Params α) (a b e : α) : PtInv (start O P a b e) := by
  unfold start init
  refine (addIval_pres O P _ 0).1 ⟨List.nodup_nil, rfl, ?_, List.Sublist.refl _⟩
  intro x hx
  exact absurd hx (List.not_mem_nil)

theorem handed_start (O : Oracle α) (P : Params α) (a b e : α) : (start O P a b e).handed = [] := by
  unfold start init
  exact (addIval_pres O P _ 0).2.2

theorem ptInv_step (O : Oracle α) (P : Params α) (s : St α) (op : Op α) (h : PtInv s) :
    PtInv (step O P s op) := by
  cases op with
  | tell x => exact (tell_pres O P s x).1 h
  | ask fuel n c => exact (ask_spec O P fuel s n c).1 h
  | reorder x ids => exact h.of_view (reorder_view s x ids)

theorem ptInv_run (O : Oracle α) (P : Params α) (s : St α) (ops : List (Op α)) (h : PtInv s) :
    PtInv (run O P s ops) := by
  induction ops generalizing s with
  | nil => exact h
  | cons op r ih => exact ih (step O P s op) (ptInv_step O P s op h)

theorem handed_step (O : Oracle α) (P : Params α) (s : St α) (op : Op α) :
    (step O P s op).handed = s.handed ++ returned O P s op := by
  cases op with
  | tell x =>
    show (tell O P s x).1.handed = s.handed ++ []
    rw [List.append_nil]; exact (tell_pres O P s x).2.2
  | ask fuel n c =>
    have h := (ask_spec O P fuel s n c).2
    cases c
    · show (ask O P fuel s n false).1.handed = s.handed ++ []
      simpa using h
    · show (ask O P fuel s n true).1.handed = s.handed ++ (ask O P fuel s n true).2.2.1
      simpa using h
  | reorder x ids =>
    show (reorder s x ids).handed = s.handed ++ []
    rw [List.append_nil]; exact (Pres.of_view (reorder_view s x ids)).2.2

/-- the abscissae returned by the committing asks of a history are exactly the ghost list `handed` grown -/
theorem handed_run (O : Oracle α) (P : Params α) (s : St α) (ops : List (Op α)) :
    (run O P s ops).handed = s.handed ++ returnedAll O P s ops := by
  induction ops generalizing s with
  | nil => show s.handed = s.handed ++ []; rw [List.append_nil]
  | cons op r ih =>
    show (run O P (step O P s op) r).handed = s.handed ++ (returned O P s op ++ returnedAll O P (step O P s op) r)
    rw [ih, handed_step, List.append_assoc]

/-- main result: no abscissa is pushed on the stack twice and no abscissa is ever returned twice -/
theorem no_dup_main (O : Oracle α) (P : Params α) (a b e : α) (ops : List (Op α)) :
    (run O P (start O P a b e) ops).pushed.Nodup ∧ (returnedAll O P (start O P a b e) ops).Nodup := by
  have h := ptInv_run O P _ ops (ptInv_start O P a b e)
  refine ⟨h.nodup, ?_⟩
  have h1 := handed_run O P (start O P a b e) ops
  rw [handed_start, List.nil_append] at h1
  rw [← h1]
  have hp : (run O P (start O P a b e) ops).popped.Nodup := by
    have := h.nodup
    rw [← h.split] at this
    exact (List.nodup_append.1 this).1
  exact hp.sublist h.handed

end Integ
