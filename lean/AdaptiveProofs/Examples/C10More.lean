import AdaptiveProofs.Props.C10More

/-!
# C10 (continued) — the theorems of `Props/C10More.lean` on concrete histories

LearnerND: the environment `LND.exEnv` of C04 (two triangles of a square); IntegratorLearner: `Ex.intO` (rules with the
abscissae `0 … ns d - 1` on `[0, 16]`); AverageLearner1D: `Ex.avRun` over ℚ on `[0, 1]`.
-/
set_option linter.unusedVariables false
namespace C10More.Examples
open C10More

/-! ### LearnerND -/
section lnd
open LND

/-- A.1 on the history of C04 with a re-tell added: five `tell`s, four distinct points -/
example {s : State Int}
    (h : run exEnv (init exEnv) (exOps2 ++ [.tell 2 7 7]) = .ok s) : s.data = [0, 1, 2, 3] ∧ s.data.length = 4 := by
  obtain ⟨h1, _, _, h4⟩ := lnd_data_is_told exEnv _ h
  exact ⟨by rw [h1]; decide, by rw [h4]; decide⟩

/-- the hypothesis is satisfiable: that history runs through -/
example : ∃ s, run exEnv (init exEnv) (exOps2 ++ [.tell 2 7 7]) = .ok s := ⟨_, rfl⟩

/-- A.2: `data` and `pending_points` are disjoint (no proviso since the repair of `tell_pending`) -/
example {s : State Int} (h : run exEnv (init exEnv) exOps2 = .ok s) : ∀ p ∈ s.data, p ∉ s.pending :=
  lnd_data_pending_disjoint exEnv exOps2 h

/-- A.2: … also after explicit `tell_pending`s of known points -/
example {s : State Int}
    (h : run exEnv (init exEnv) (exOps2 ++ [.tellPending 2, .tellPending 4, .loss]) = .ok s) :
    ∀ p ∈ s.data, p ∉ s.pending :=
  lnd_data_pending_disjoint exEnv _ h

/-- that history runs through -/
example : ∃ s, run exEnv (init exEnv) (exOps2 ++ [.tellPending 2, .tellPending 4, .loss]) = .ok s :=
  ⟨_, rfl⟩

/-- A.2: `tell_pending` of the known point 2 returns the learner as it is -/
example {s : State Int} (h : run exEnv (init exEnv) exOps = .ok s) : tellPending exEnv s 2 none = .ok s :=
  lnd_tellPending_known_noop exEnv s 2 none
    (((lnd_data_is_told exEnv exOps h).2.1 2).2 (by decide))

/-- A.3: the point `ask` returns after the four corner values (4, inside the domain) stays pending while the
learner is asked for its loss, told other points, asked without commitment -/
example {s s' s'' : State Int} {rs : List (Pt × Int)} (h0 : run exEnv (init exEnv) exOps0 = .ok s)
    (h : ask exEnv s 1 true = .ok (rs, s')) (hp : 4 ∈ rs.map (·.1))
    (h2 : run exEnv s' [.loss, .tellPending 7, .ask 1 false] = .ok s'') : 4 ∈ s''.pending :=
  (lnd_asked_pending_until_told exEnv 1 h 4 hp
    (by rw [(lnd_data_is_told exEnv exOps0 h0).1]; decide) rfl).2 _ s''
    (by intro op hop; simp at hop; rcases hop with rfl | rfl | rfl <;> trivial) h2

/-- A.4: a second value for point 2 is ignored -/
example {s : State Int} (h : run exEnv (init exEnv) exOps = .ok s) : tell exEnv s 2 100 100 = .ok s :=
  lnd_retell_noop_reachable exEnv exOps h 2 (by decide) 100 100

/-- A.5 -/
example {s : State Int} (h : run exEnv (init exEnv) exOps = .ok s) :
    (removeUnfinished exEnv s).pending = [] ∧ (removeUnfinished exEnv s).data = s.data :=
  ⟨(lnd_removeUnfinished_spec exEnv s).1, (lnd_removeUnfinished_spec exEnv s).2.1⟩

end lnd

/-! ### IntegratorLearner -/
section integ
open Integ Integ.Book Ex

/-- the start state: the 17 abscissae of the first rule are on the stack and pending, nothing is evaluated -/
example : intS.stack = (List.range 17).map Int.ofNat ∧ intS.pending = intS.stack ∧ intS.data = [] := by decide

/-- B.1: `tell 99` is rejected (no interval has that abscissa), the second `tell 3` is a re-tell: three accepted
tells, two distinct abscissae -/
example : accepted intO intP intS [.tell 3, .tell 99, .ask 10 2 true, .tell 3, .tell 0] = [3, 3, 0] ∧
    (Integ.run intO intP intS [.tell 3, .tell 99, .ask 10 2 true, .tell 3, .tell 0]).data = [3, 0] := by decide

example : npoints (Integ.run intO intP intS [.tell 3, .tell 99, .ask 10 2 true, .tell 3, .tell 0]) = 2 := by
  exact ((integ_data_is_accepted intO intP 0 16 100
    [.tell 3, .tell 99, .ask 10 2 true, .tell 3, .tell 0]).2.2.2).trans (by decide)

/-- B.2 / B.3 on a history: the abscissae handed out by `ask(3)` that were not told are still pending after other
tells and a rolled-back `ask` -/
example : ∀ x ∈ (ask intO intP 10 intS 3 true).2.2.1,
    x ∈ (Integ.run intO intP (ask intO intP 10 intS 3 true).1 [.tell 5, .ask 10 4 false, .tell 16]).pending := by
  intro x hx
  have hd : (Integ.run intO intP (start intO intP 0 16 100) []).data = [] := by decide
  have h := (integ_asked_pending_until_told intO intP 0 16 100 [] 10 3 x hx).2
    (by rw [hd]; exact List.not_mem_nil)
  refine h.2 _ ?_
  intro op hop
  have hx' : x = 0 ∨ x = 1 ∨ x = 2 := by
    have : (ask intO intP 10 intS 3 true).2.2.1 = [0, 1, 2] := by decide
    change x ∈ (ask intO intP 10 intS 3 true).2.2.1 at hx
    rw [this] at hx; simpa using hx
  simp at hop
  rcases hop with rfl | rfl | rfl
  · show (5 : Int) ≠ x; omega
  · trivial
  · show (16 : Int) ≠ x; omega

/-- B.4: re-telling 3 keeps `data`, the pending set and the stack -/
example : let s := Integ.run intO intP intS [.tell 3, .ask 10 2 true]
    (tell intO intP s 3).1.data = s.data ∧ (tell intO intP s 3).1.pending = s.pending ∧
    (tell intO intP s 3).1.stack = s.stack := by
  intro s
  have h := integ_retell_bookkeeping intO intP 0 16 100 [.tell 3, .ask 10 2 true] 3 (by decide)
  exact ⟨h.1, h.2.1, h.2.2.1⟩

/-- B.4 full: after a history without exceptions, telling 3 again returns the learner exactly as it was -/
example : let s := Integ.run intO intP intS [.tell 3, .ask 10 2 true, .tell 0, .ask 10 3 false]
    tell intO intP s 3 = (s, none) := by
  intro s
  refine integ_retell_noop intO intP intO_nested intO_fresh 0 16 100
    [.tell 3, .ask 10 2 true, .tell 0, .ask 10 3 false] ?_ 3 (by decide)
  show ∀ r ∈ trace intO intP (start intO intP 0 16 100) _, r = none
  decide

end integ

/-! ### AverageLearner1D -/
section avg1d
open Avg1DFull Avg1DFull.Book Ex

/-- the keys told by a history with every kind of tell -/
example : toldKeys ([.tell 0 0 1, .tellMany [((0, 1), 2), ((1, 1), 4)], .tellManyAtPoint (1 / 2) [(3, 1)],
    .removeUnfinished] : List (Op ℚ)) = [(0, 0), (0, 1), (1, 1), (3, 1 / 2)] := by decide +kernel

/-- C.1: the evaluated abscissae of that history, three distinct ones -/
example : (avRun [.tell 0 0 1, .tellMany [((0, 1), 2), ((1, 1), 4)], .tellManyAtPoint (1 / 2) [(3, 1)],
    .removeUnfinished]).base.xs.length = 3 := by
  exact ((avg1d_data_is_told avLoss id id (fun _ => 1) avHyp 0 1 2 0 0 (1 / 5) 0 1 5 (1 / 2)
    [.tell 0 0 1, .tellMany [((0, 1), 2), ((1, 1), 4)], .tellManyAtPoint (1 / 2) [(3, 1)],
      .removeUnfinished]).2.2.2.1).trans (by decide +kernel)

/-- C.3: the two requests of `ask(2)` at the under-sampled abscissa 0 stay pending while other keys are told -/
example (r) (h : ask avLoss id id (avRun [.tell 0 0 1]) 2 0 true = some r) (q : Nat × ℚ) (hq : q ∈ r.1.1) :
    q ∈ (run avLoss id id (fun _ => 1) avHyp r.2 [.tell 0 1 3, .tellPending 5 1]).pend := by
  refine (avg1d_asked_pending_until_told avLoss id id (fun _ => 1) avHyp _ 2 0 r h q hq).2 _ ?_
  have hr : r.1.1 = [(1, 0), (2, 0)] := by
    have : (ask avLoss id id (avRun [.tell 0 0 1]) 2 0 true).map (·.1.1) = some [(1, 0), (2, 0)] := by
      decide +kernel
    rw [h] at this
    simpa using this
  rw [hr] at hq
  intro op hop
  simp at hop hq
  rcases hop with rfl | rfl
  · refine ⟨?_, by intro e; cases e⟩
    simp only [toldKeysOp, List.mem_singleton]
    rcases hq with rfl | rfl <;> decide +kernel
  · exact ⟨by simp [toldKeysOp], by intro e; cases e⟩

/-- C.4: the sample `(0, 0)` is known; telling it again with another value changes nothing -/
example : tell avLoss id id (fun _ => 1) avHyp (avRun [.tell 0 0 1, .tell 0 1 3]) 0 0 77 =
    avRun [.tell 0 0 1, .tell 0 1 3] := by
  refine (avg1d_retell avLoss id id (fun _ => 1) avHyp _ 0 0 77 ?_).2 ?_ <;> decide +kernel

end avg1d
end C10More.Examples
