import AdaptiveProofs.Props.C15
import AdaptiveProofs.Props.C09

/-!
# NON-VACUITY of the BalancingLearner theorems (C15, and the wrapper part of C09)

A toy child learner over `Nat` is shown to be `Lawful` and `RealLossStable`; reachable states of a balancing
learner over THREE such children with non-empty caches are exhibited; for each of the four strategies a concrete
`selectStep … = some …` is given (by `rfl`/`decide`), and every theorem of `Props/C15.lean` with hypotheses is
applied to these instances (all hypotheses discharged simultaneously), with the conclusion evaluated.
-/
deriving instance DecidableEq for Balancing.State
deriving instance Repr for Balancing.State

namespace Balancing
namespace Ex

/-- child state: a weight (its loss when empty), the number of evaluated points, the pending points -/
structure Toy where
  w : Nat
  n : Nat
  pend : List Nat
deriving DecidableEq, Repr

def Toy.total (k : Toy) : Nat := k.n + k.pend.length

def Toy.tellPending (k : Toy) (x : Nat) : Toy := if x ∈ k.pend then k else { k with pend := x :: k.pend }

/-- the toy child: it proposes the point `n + |pending|`, offers the improvement `w / (total + 1)`; its loss is
`w / (n + 1)` (real) resp. `w / (total + 1)` (expected) — decreasing in the number of points. -/
def toy : Child Toy Nat Nat Nat where
  ask1 k commit :=
    ((k.total, k.w / (k.total + 2)), if commit then k.tellPending k.total else k)
  tell k x _ := { k with n := k.n + 1, pend := k.pend.erase x }
  tellPending := Toy.tellPending
  removeUnfinished k := { k with pend := [] }
  loss k real := if real then k.w / (k.n + 1) else k.w / (k.total + 1)
  total := Toy.total
  restore k := k

theorem toy_lawful : Lawful toy where
  ask_nocommit _ := rfl
  ask_commit _ := ⟨rfl, rfl⟩
  tellPending_idem k x := by
    show Toy.tellPending (Toy.tellPending k x) x = Toy.tellPending k x
    unfold Toy.tellPending
    by_cases h : x ∈ k.pend
    · simp [h]
    · simp [h]
  restore_id _ := rfl

theorem toy_stable : RealLossStable toy := fun _ => rfl

/-- a child that is NOT lawful exists too (the hypothesis is not empty talk): a non-committing ask that changes
the child -/
def badToy : Child Toy Nat Nat Nat := { toy with ask1 := fun k _ => ((k.total, 0), k.tellPending k.total) }
example : ¬ Lawful badToy := by
  intro h
  have := h.ask_nocommit ⟨1, 0, []⟩
  revert this
  decide

/-- three children with different weights and different numbers of points -/
def kids : List Toy := [⟨100, 3, [7]⟩, ⟨400, 1, []⟩, ⟨90, 0, []⟩]

abbrev St := State Toy Nat Nat
abbrev Sel := ((Nat × Nat) × Nat) × St × List Nat

/-- reachable state: strategy `s0`, then fill the loss caches, a committing ask of 2 points, tell one result, fill
the loss caches again -/
def opsR (fin : Strategy) : List (Op Nat Nat) :=
  [.loss true, .ask 2 true, .tell 1 1 5, .loss true, .loss false, .setStrategy .lossImprovements, .ask 1 true,
   .loss false, .loss true, .setStrategy fin]

def reach (fin : Strategy) : St := run toy 0 (init kids .loss) (opsR fin)

/-- C15.a instantiated: `Coh` of the reachable states … -/
theorem coh_reach (fin : Strategy) : Coh toy (reach fin) :=
  c15_caches_current toy toy_lawful toy_stable 0 kids .loss (opsR fin)

/-- … whose three caches are NOT empty: -/
example : (reach .npoints).kids = [⟨100, 3, [7]⟩, ⟨400, 2, [3, 2]⟩, ⟨90, 0, []⟩] := by decide
example : (reach .npoints).lossC = [some 25, some 133, some 90] := by decide
example : (reach .npoints).plossC = [some 20, some 80, some 90] := by decide
example : (reach .npoints).askCache = [some (4, 16), none, some (0, 45)] := by decide
example : (reach .npoints).strat = .npoints := by decide

/-- C15.b instantiated and evaluated -/
example : (loss toy 0 (reach .npoints) true).1 = 133 ∧ (loss toy 0 (reach .npoints) false).1 = 90 := by decide
example := c15_loss_is_max toy toy_lawful toy_stable 0 kids .loss (opsR .npoints) true
example : (reach .npoints).kids ≠ [] := by decide

/-! ### one concrete `selectStep` per strategy (3 children) -/

def tot0 : List Nat := (reach .npoints).kids.map toy.total
example : tot0 = [4, 4, 0] := by decide

/-- 'npoints': child 2 (0 points) is served -/
def selN : Sel := (((2, 0), 45), tellPending toy (reach .npoints) 2 0, [4, 4, 1])
theorem step_npoints : selectStep toy (reach .npoints) tot0 = some selN := by decide
example : selN.2.1.kids = [⟨100, 3, [7]⟩, ⟨400, 2, [3, 2]⟩, ⟨90, 0, [0]⟩] := by decide

/-- 'cycle' -/
theorem cyc_reach : (reach .cycle).cyc = 0 ∧ (reach .cycle).kids.length = 3 := by decide
def selC : Sel :=
  (((0, 4), 16), tellPending toy { reach .cycle with kids := (reach .cycle).kids.set 0 ⟨100, 3, [4, 7]⟩, cyc := 1 } 0 4,
    tot0)
theorem step_cycle : selectStep toy (reach .cycle) tot0 = some selC := by decide

/-- 'loss_improvements': child 1 offers 400/6 = 66 -/
def selI : Sel :=
  (((1, 4), 66),
   tellPending toy { reach .lossImprovements with askCache := [some (4, 16), some (4, 66), some (0, 45)] } 1 4,
   [4, 5, 0])
theorem step_lossImprovements : selectStep toy (reach .lossImprovements) tot0 = some selI := by decide

/-- 'loss': child 2 has the largest expected loss (90 > 80 > 20) -/
def selL : Sel := (((2, 0), 45), tellPending toy (reach .loss) 2 0, [4, 4, 1])
theorem step_loss : selectStep toy (reach .loss) tot0 = some selL := by decide

/-! ### the theorems applied -/

/-- C15.d (all four strategies) -/
example := c15_point_is_childs_proposal toy toy_lawful (coh_reach .npoints) step_npoints
example := c15_point_is_childs_proposal toy toy_lawful (coh_reach .cycle) step_cycle
example := c15_point_is_childs_proposal toy toy_lawful (coh_reach .lossImprovements) step_lossImprovements
example := c15_point_is_childs_proposal toy toy_lawful (coh_reach .loss) step_loss

/-- C15.e -/
example : (∀ j < tot0.length, tot0[2]! ≤ tot0[j]!) ∧ [4, 4, 1] = tot0.modify 2 (· + 1) :=
  c15_strategy_npoints toy toy_lawful (coh_reach .npoints) (by decide) step_npoints

/-- C15.f -/
example : 0 = (reach .cycle).cyc % (reach .cycle).kids.length ∧ selC.2.1.cyc = (reach .cycle).cyc + 1 :=
  c15_strategy_cycle toy toy_lawful (by decide) step_cycle

/-- C15.g (`tot.length = kids.length` holds: 3 = 3) -/
example : ∀ (j : Nat) k', (reach .lossImprovements).kids[j]? = some k' → (toy.ask1 k' false).1.2 ≤ 66 :=
  c15_strategy_loss_improvements toy toy_lawful (coh_reach .lossImprovements) (by decide) (by decide)
    step_lossImprovements
example : (reach .lossImprovements).kids.map (fun k => (toy.ask1 k false).1.2) = [16, 66, 45] := by decide

/-- C15.h -/
example : ∃ k, (reach .loss).kids[2]? = some k ∧
    ∀ (j : Nat) k', (reach .loss).kids[j]? = some k' → toy.loss k' false ≤ toy.loss k false :=
  c15_strategy_loss toy toy_lawful (coh_reach .loss) (by decide) (by decide) step_loss
example : (reach .loss).kids.map (fun k => toy.loss k false) = [20, 80, 90] := by decide

/-- C15.i and C09 (balancing) instantiated: a non-committing ask of 5 points returns 5 points and changes nothing -/
example : (ask toy (reach .loss) 5 false).2 = reach .loss ∧
    (ask toy (reach .loss) 5 false).1 = (ask toy (reach .loss) 5 true).1 :=
  c15_ask_nocommit toy toy_lawful (reach .loss) 5
example := C09.balancing_ask_nocommit_noop toy toy_lawful (reach .cycle) 4
example : (ask toy (reach .loss) 5 false).1.map Prod.fst = [(2, 0), (1, 4), (1, 5), (1, 6), (1, 7)] := by decide
example : (ask toy (reach .cycle) 4 false).1.map Prod.fst = [(0, 4), (1, 4), (2, 0), (0, 5)] := by decide

end Ex
end Balancing
